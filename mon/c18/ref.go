// Reference side of the C18 monitor: textbook rate matrices (state order A,C,G,T /
// A R N D C Q E G H I L K M F P S T W Y V), normalisation to one expected
// substitution per unit time and an own matrix exponential (scaling and squaring
// around a Taylor series). Nothing here looks at goalign's eigen-decompositions.
package main

import (
	"math"
	"sort"

	"gonum.org/v1/gonum/mat"
)

// M is a dense square matrix, row major.
type M [][]float64

func newM(n int) M {
	m := make(M, n)
	buf := make([]float64, n*n)
	for i := range m {
		m[i] = buf[i*n : (i+1)*n]
	}
	return m
}

func ident(n int) M {
	m := newM(n)
	for i := 0; i < n; i++ {
		m[i][i] = 1
	}
	return m
}

func mulM(a, b M) M {
	n := len(a)
	c := newM(n)
	for i := 0; i < n; i++ {
		ci := c[i]
		for k := 0; k < n; k++ {
			aik := a[i][k]
			if aik == 0 {
				continue
			}
			bk := b[k]
			for j := 0; j < n; j++ {
				ci[j] += aik * bk[j]
			}
		}
	}
	return c
}

func normInf(a M) float64 {
	mx := 0.0
	for _, row := range a {
		s := 0.0
		for _, v := range row {
			s += math.Abs(v)
		}
		if s > mx {
			mx = s
		}
	}
	return mx
}

// expm returns exp(q*t): A = q*t/2^s with ||A||_inf <= 1/4, Taylor series of order
// 18 (remainder < 1e-27), then s squarings.
func expm(q M, t float64) M {
	n := len(q)
	a := newM(n)
	for i := range q {
		for j := range q[i] {
			a[i][j] = q[i][j] * t
		}
	}
	nrm := normInf(a)
	s := 0
	for nrm > 0.25 {
		nrm /= 2
		s++
	}
	f := math.Ldexp(1, -s)
	for i := range a {
		for j := range a[i] {
			a[i][j] *= f
		}
	}
	res := ident(n)
	term := ident(n)
	for k := 1; k <= 18; k++ {
		term = mulM(term, a)
		inv := 1 / float64(k)
		for i := range term {
			for j := range term[i] {
				term[i][j] *= inv
				res[i][j] += term[i][j]
			}
		}
	}
	for ; s > 0; s-- {
		res = mulM(res, res)
	}
	return res
}

// rateMatrix builds Q_ij = ex_ij * pi_j (i != j), Q_ii = -sum_j Q_ij and scales it so that
// -sum_i w_i Q_ii = 1, where w = pi (raw) or pi / sum(pi) (normFreq).
func rateMatrix(ex M, pi []float64, normFreq bool) M {
	n := len(pi)
	q := newM(n)
	sum := 0.0
	for _, p := range pi {
		sum += p
	}
	mr := 0.0
	for i := 0; i < n; i++ {
		rs := 0.0
		for j := 0; j < n; j++ {
			if i != j {
				q[i][j] = ex[i][j] * pi[j]
				rs += q[i][j]
			}
		}
		q[i][i] = -rs
		w := pi[i]
		if normFreq {
			w /= sum
		}
		mr += w * rs
	}
	for i := range q {
		for j := range q[i] {
			q[i][j] /= mr
		}
	}
	return q
}

// Exchangeabilities of the nucleotide models; index 0..3 = A,C,G,T.
// pairs: AC AG AT CG CT GT; transitions are AG (purines) and CT (pyrimidines).
func exFromPairs(ac, ag, at, cg, ct, gt float64) M {
	e := newM(4)
	set := func(i, j int, v float64) { e[i][j] = v; e[j][i] = v }
	set(0, 1, ac)
	set(0, 2, ag)
	set(0, 3, at)
	set(1, 2, cg)
	set(1, 3, ct)
	set(2, 3, gt)
	return e
}

type dnaParams struct {
	Model  string     `json:"model"`
	Kappa  float64    `json:"kappa,omitempty"`  // K2P: transition/transversion rate ratio; F84: the kappa of Q_AG=(1+kappa/piR)piG
	Kappa1 float64    `json:"kappa1,omitempty"` // TN93: purine transitions A<->G
	Kappa2 float64    `json:"kappa2,omitempty"` // TN93: pyrimidine transitions C<->T
	Rates  [6]float64 `json:"rates"`            // GTR: AC AG AT CG CT GT (the d f b e a c of the comment in gtr.go)
	Pi     [4]float64 `json:"pi"`
	// K2P with kappa 1: the object is used as constructed (documented default 1.0), InitModel is not called
	AsConstructed bool `json:"as_constructed,omitempty"`
}

// dnaQ is the textbook normalised rate matrix of a nucleotide model.
func dnaQ(p dnaParams) M {
	pi := p.Pi[:]
	switch p.Model {
	case "jc":
		return rateMatrix(exFromPairs(1, 1, 1, 1, 1, 1), []float64{.25, .25, .25, .25}, false)
	case "k2p":
		return rateMatrix(exFromPairs(1, p.Kappa, 1, 1, p.Kappa, 1), []float64{.25, .25, .25, .25}, false)
	case "f81":
		return rateMatrix(exFromPairs(1, 1, 1, 1, 1, 1), pi, false)
	case "f84":
		piR, piY := pi[0]+pi[2], pi[1]+pi[3]
		return rateMatrix(exFromPairs(1, 1+p.Kappa/piR, 1, 1, 1+p.Kappa/piY, 1), pi, false)
	case "tn93":
		return rateMatrix(exFromPairs(1, p.Kappa1, 1, 1, p.Kappa2, 1), pi, false)
	case "gtr":
		r := p.Rates
		return rateMatrix(exFromPairs(r[0], r[1], r[2], r[3], r[4], r[5]), pi, false)
	}
	panic("unknown model " + p.Model)
}

// spectrum returns the eigenvalues (ascending) of a pi-reversible rate matrix through its
// symmetrised form B = D^1/2 Q D^-1/2 and gonum's symmetric solver.
func spectrum(q M, pi []float64) []float64 {
	n := len(pi)
	b := mat.NewSymDense(n, nil)
	for i := 0; i < n; i++ {
		for j := i; j < n; j++ {
			v := 0.5 * (math.Sqrt(pi[i])*q[i][j]/math.Sqrt(pi[j]) + math.Sqrt(pi[j])*q[j][i]/math.Sqrt(pi[i]))
			b.SetSym(i, j, v)
		}
	}
	var es mat.EigenSym
	if !es.Factorize(b, false) {
		return nil
	}
	v := es.Values(nil)
	sort.Float64s(v)
	return v
}

// slowest returns |lambda_2|: the smallest non zero decay rate.
func slowest(q M, pi []float64) float64 {
	v := spectrum(q, pi)
	if len(v) < 2 {
		return math.NaN()
	}
	return math.Abs(v[len(v)-2])
}
