// concurrent sub-check of C18 (-race build): independent model / Pij objects used by different goroutines at the
// same time must stay independent. Each worker owns its model and its Pij object, drives it through a fixed list
// of branch lengths many times and compares every matrix, bit for bit, with the one computed beforehand by the
// same object sequence in a single goroutine. Any shared scratch state between objects shows either as a race
// report (the driver runs this sub-check in the -race binary) or as a wrong matrix.
package main

import (
	"fmt"
	"math"
	"runtime"
	"sync"

	"github.com/evolbioinfo/goalign/models"

	"verif/lib/mon"
)

func runConcurrent(c *mon.Case) {
	r := c.R
	nw := r.PickInt([]int{2, 4, 8})
	old := runtime.GOMAXPROCS(r.PickInt([]int{2, 4, 8, 16}))
	defer runtime.GOMAXPROCS(old)
	type worker struct {
		desc string
		m    models.Model
		ts   []float64
		want []M
	}
	ws := make([]*worker, nw)
	var descs []string
	for i := range ws {
		// non analytical models share the eigen assembly code; proteins (20 states) and nucleotides (4 states) mixed
		var m models.Model
		var desc string
		if r.Chance(0.3) {
			tb := protTables[r.Intn(len(protTables))]
			pt, ok := protPoint(c, tb, nil, false, false, 0)
			if !ok {
				return
			}
			m, desc = pt.model, pt.desc
		} else {
			model := []string{"f81", "f84", "tn93", "gtr"}[r.Intn(4)]
			p, _ := genDNA(r, model)
			mm, err := mkDNA(p)
			if err != nil {
				c.Failf(model+":unexpected-error", "%s\nInitModel: %v", dnaDesc(p), err)
				return
			}
			m, desc = mm, dnaDesc(p)
		}
		ts := []float64{1e-8, 0.01, 0.3, 1, 5, 100, 0.3, 0}
		w := &worker{desc: desc, m: m, ts: ts}
		// expectation: the same object sequence, alone
		pj, err := models.NewPij(m, ts[0])
		if err != nil {
			c.Failf("concurrent:unexpected-error", "%s: NewPij: %v", desc, err)
			return
		}
		for _, t := range ts {
			pj.SetLength(t)
			w.want = append(w.want, readPij(pj, m.NState()))
		}
		ws[i] = w
		descs = append(descs, desc)
	}
	c.Input(map[string]interface{}{"workers": descs, "branch_lengths": ws[0].ts})
	rounds := 40
	var wg sync.WaitGroup
	var mu sync.Mutex
	bad := ""
	for i := range ws {
		wg.Add(1)
		go func(w *worker) {
			defer wg.Done()
			pj, err := models.NewPij(w.m, w.ts[0])
			if err != nil {
				mu.Lock()
				bad = fmt.Sprintf("%s: NewPij: %v", w.desc, err)
				mu.Unlock()
				return
			}
			n := w.m.NState()
			for k := 0; k < rounds; k++ {
				for a, t := range w.ts {
					pj.SetLength(t)
					for x := 0; x < n; x++ {
						for y := 0; y < n; y++ {
							if got := pj.Pij(x, y); math.Float64bits(got) != math.Float64bits(w.want[a][x][y]) {
								mu.Lock()
								if bad == "" {
									bad = fmt.Sprintf("%s\nt=%v: P[%d][%d]=%v while other goroutines use their own objects, %v when the same calls run alone", w.desc, t, x, y, got, w.want[a][x][y])
								}
								mu.Unlock()
								return
							}
						}
					}
				}
			}
		}(ws[i])
	}
	wg.Wait()
	if bad != "" {
		c.Failf("concurrent:objects-not-independent", "%s", bad)
		return
	}
	c.Count(fmt.Sprintf("concurrent:workers:%d", nw))
	c.Add("concurrent:matrices", nw*rounds*len(ws[0].ts))
	c.NonTrivial(fmt.Sprint(descs))
}
