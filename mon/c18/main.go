// C18 monitor: transition probability matrices of goalign's substitution models
// (models.NewPij / Pij.SetLength / Pij.Pij over models/dna and models/protein)
// against textbook rate matrices exponentiated by the monitor's own expm, plus the
// Markov laws the statement lists (stochastic, P(0)=I, semigroup, detailed balance,
// convergence), analytical-vs-eigen agreement and re-use of one Pij object.
package main

import (
	"fmt"
	"math"
	"strings"

	"github.com/evolbioinfo/goalign/models"
	"github.com/evolbioinfo/goalign/models/dna"
	"github.com/evolbioinfo/goalign/models/protein"
	"gonum.org/v1/gonum/mat"

	"verif/lib/gen"
	"verif/lib/mon"
)

const (
	tolValue    = 1e-8  // Pij vs expm
	tolRowSum   = 1e-9  // rows sum to 1
	tolIdentity = 1e-12 // P(0) = I
	tolBalance  = 1e-10 // pi_i P_ij = pi_j P_ji
	tolSemi     = 1e-9  // P(s+t) = P(s)P(t)
	tolConv     = 1e-6  // P(60/|lambda2|) = 1 pi^T
	tolAnaEig   = 1e-9  // analytical formula vs assembly from Eigens()
	tolReuse    = 1e-13 // re-used object vs fresh object
	upperSlack  = 1e-12 // an entry may exceed 1 by rounding only
)

var fixedT = []float64{0, 1e-8, 1e-4, 0.01, 0.1, 0.5, 1, 2, 5, 20, 100}

// eigenOnly hides the analytical formulas of a model so that models.Pij goes through Eigens().
type eigenOnly struct{ m models.Model }

func (w eigenOnly) NState() int { return w.m.NState() }
func (w eigenOnly) Eigens() ([]float64, *mat.Dense, *mat.Dense, error) {
	return w.m.Eigens()
}
func (w eigenOnly) Analytical() bool                { return false }
func (w eigenOnly) Pij(i, j int, l float64) float64 { return -1 }

// point is one (model, parameter vector) with its oracle.
type point struct {
	name   string // counter / sig prefix: jc k2p f81 f84 tn93 gtr dayoff jtt ...
	desc   string // witness text
	model  models.Model
	pi     []float64 // stationary frequencies as given to the model
	qs     []M       // oracle rate matrices: every reading of "one substitution per unit time" the statement admits
	qnames []string
}

func tClass(t float64) string {
	switch {
	case t == 0:
		return "0"
	case t <= 1e-6:
		return "tiny"
	case t <= 1e-2:
		return "small"
	case t <= 2:
		return "medium"
	case t <= 20:
		return "long"
	}
	return "saturating"
}

// fresh reads the whole matrix from a new Pij object.
func fresh(m models.Model, t float64) (M, error) {
	p, err := models.NewPij(m, t)
	if err != nil {
		return nil, err
	}
	return readPij(p, m.NState()), nil
}

func readPij(p *models.Pij, n int) M {
	r := newM(n)
	for i := 0; i < n; i++ {
		for j := 0; j < n; j++ {
			r[i][j] = p.Pij(i, j)
		}
	}
	return r
}

// maxDev returns the largest |a-b| and where; NaN anywhere counts as +Inf.
func maxDev(a, b M) (d float64, ii, jj int) {
	for i := range a {
		for j := range a[i] {
			x := math.Abs(a[i][j] - b[i][j])
			if math.IsNaN(x) {
				x = math.Inf(1)
			}
			if x > d {
				d, ii, jj = x, i, j
			}
		}
	}
	return
}

func fmtRow(v []float64) string {
	s := make([]string, len(v))
	for i, x := range v {
		s[i] = fmt.Sprintf("%.12g", x)
	}
	return "[" + strings.Join(s, " ") + "]"
}

func fmtM(m M) string {
	if len(m) > 4 {
		return fmt.Sprintf("(%dx%d matrix, first row %s)", len(m), len(m), fmtRow(m[0]))
	}
	s := make([]string, len(m))
	for i := range m {
		s[i] = fmtRow(m[i])
	}
	return strings.Join(s, " ")
}

// checkPoint runs every oracle of the statement on one parameter point.
func checkPoint(c *mon.Case, pt point, ts []float64) {
	r := c.R
	n := pt.model.NState()
	fail := func(sig, format string, a ...interface{}) {
		c.Failf(pt.name+":"+sig, "%s\n%s", pt.desc, fmt.Sprintf(format, a...))
	}
	c.Count("model:" + pt.name)

	// 1. fresh objects, one per branch length
	P := make([]M, len(ts))
	for k, t := range ts {
		p, err := fresh(pt.model, t)
		if err != nil {
			fail("unexpected-error", "NewPij(t=%v): %v", t, err)
			return
		}
		P[k] = p
		c.Count("branch-length:" + tClass(t))
	}
	c.Add("matrices-read", len(ts))

	// 2. value: P(t) = exp(Qt) for one single reading of the normalisation over all t
	best, bestMsg := math.Inf(1), ""
	matched := -1
	for qi, q := range pt.qs {
		worst, msg := 0.0, ""
		for k, t := range ts {
			e := expm(q, t)
			d, i, j := maxDev(P[k], e)
			if d > worst {
				worst = d
				msg = fmt.Sprintf("t=%v: P[%d][%d]=%.17g, exp(Qt)[%d][%d]=%.17g (|diff| %.3g, normalisation reading %q)\nobserved row %d = %s\nexpected row %d = %s", t, i, j, P[k][i][j], i, j, e[i][j], d, pt.qnames[qi], i, fmtRow(P[k][i]), i, fmtRow(e[i]))
			}
		}
		if worst <= tolValue {
			matched = qi
			break
		}
		if worst < best {
			best, bestMsg = worst, msg
		}
	}
	if matched < 0 {
		fail("expm-mismatch", "%s", bestMsg)
	} else {
		c.Count("reading:" + pt.qnames[matched])
	}
	c.Add("check:value", len(ts))

	// 3. stochastic matrix, P(0)=I, detailed balance
	for k, t := range ts {
		p := P[k]
		for i := 0; i < n; i++ {
			sum := 0.0
			for j := 0; j < n; j++ {
				v := p[i][j]
				if math.IsNaN(v) || v < 0 || v > 1+upperSlack {
					fail("entry-out-of-range", "t=%v: P[%d][%d]=%.17g is not a probability", t, i, j, v)
				}
				sum += v
				if j > i {
					if d := math.Abs(pt.pi[i]*v - pt.pi[j]*p[j][i]); !(d <= tolBalance) {
						fail("detailed-balance", "t=%v: pi[%d]*P[%d][%d]=%.17g but pi[%d]*P[%d][%d]=%.17g", t, i, i, j, pt.pi[i]*v, j, j, i, pt.pi[j]*p[j][i])
					}
				}
			}
			if !(math.Abs(sum-1) <= tolRowSum) {
				fail("row-sum", "t=%v: row %d sums to %.17g: %s", t, i, sum, fmtRow(p[i]))
			}
		}
		if t == 0 {
			if d, i, j := maxDev(p, ident(n)); d > tolIdentity {
				fail("p0-not-identity", "P(0)[%d][%d]=%.17g", i, j, p[i][j])
			}
			c.Count("check:p0")
		}
	}
	c.Add("check:stochastic+balance", len(ts))

	// 4. semigroup law on pairs of the branch lengths (P(s+t) from another fresh object)
	for k := 0; k < 6; k++ {
		a, b := r.Intn(len(ts)), r.Intn(len(ts))
		if k == 0 {
			b = a
		}
		s, t := ts[a], ts[b]
		pst, err := fresh(pt.model, s+t)
		if err != nil {
			fail("unexpected-error", "NewPij(t=%v): %v", s+t, err)
			continue
		}
		prod := mulM(P[a], P[b])
		if d, i, j := maxDev(pst, prod); d > tolSemi {
			fail("semigroup", "s=%v t=%v: P(s+t)[%d][%d]=%.17g, (P(s)P(t))[%d][%d]=%.17g", s, t, i, j, pst[i][j], i, j, prod[i][j])
		}
		c.Count("check:semigroup")
	}

	// 5. convergence to the stationary frequencies at T = 60/|lambda_2|
	piSum := 0.0
	for _, p := range pt.pi {
		piSum += p
	}
	if l2 := slowest(pt.qs[0], pt.pi); l2 > 0 {
		T := 60 / l2
		pT, err := fresh(pt.model, T)
		if err != nil {
			fail("unexpected-error", "NewPij(t=%v): %v", T, err)
		} else {
			for i := 0; i < n; i++ {
				for j := 0; j < n; j++ {
					if !(math.Abs(pT[i][j]-pt.pi[j]/piSum) <= tolConv) {
						fail("not-converged", "T=60/|lambda2|=%v: P[%d][%d]=%.17g, stationary frequency %.17g", T, i, j, pT[i][j], pt.pi[j]/piSum)
						i, j = n, n
					}
				}
			}
			c.Count("check:convergence")
			if T > 100 {
				c.Count("convergence:T>100")
			}
		}
	} else {
		fail("oracle-trouble", "second eigenvalue of the oracle rate matrix is %v", l2)
	}

	// 6. analytical formulas vs assembly from the model's own Eigens()
	if pt.model.Analytical() {
		w := eigenOnly{pt.model}
		for k, t := range ts {
			pe, err := fresh(w, t)
			if err != nil {
				fail("unexpected-error", "NewPij(eigen view, t=%v): %v", t, err)
				break
			}
			if d, i, j := maxDev(pe, P[k]); d > tolAnaEig {
				fail("analytical-vs-eigen", "t=%v: analytical P[%d][%d]=%.17g, assembled from Eigens() %.17g", t, i, j, P[k][i][j], pe[i][j])
			}
			c.Count("check:analytical-vs-eigen")
		}
	}

	// 7. one Pij object driven through several branch lengths (repeats, back to a smaller one)
	checkReuse(c, pt, pt.model, ts, P, "")
	if pt.model.Analytical() {
		checkReuse(c, pt, eigenOnly{pt.model}, ts, nil, "eigen-view-")
	}

	c.NonTrivial(pt.name, pt.desc)
}

func checkReuse(c *mon.Case, pt point, m models.Model, ts []float64, P []M, tag string) {
	r := c.R
	n := m.NState()
	get := func(k int) M {
		if P != nil {
			return P[k]
		}
		p, _ := fresh(m, ts[k])
		return p
	}
	k0 := r.Intn(len(ts))
	obj, err := models.NewPij(m, ts[k0])
	if err != nil {
		c.Failf(pt.name+":unexpected-error", "%s\nNewPij: %v", pt.desc, err)
		return
	}
	hist := []float64{ts[k0]}
	prev := ts[k0]
	steps := r.Range(4, 8)
	for s := 0; s < steps; s++ {
		k := r.Intn(len(ts))
		switch {
		case s == 1: // same length again (the cached path)
			for i, t := range ts {
				if t == prev {
					k = i
				}
			}
			c.Count("reuse:same-t")
		case s == 2: // strictly back to a smaller one when there is one
			for i, t := range ts {
				if t < prev {
					k = i
					break
				}
			}
		}
		t := ts[k]
		if t < prev {
			c.Count("reuse:back-to-smaller")
		} else if t > prev {
			c.Count("reuse:larger")
		}
		if err := obj.SetLength(t); err != nil {
			c.Failf(pt.name+":unexpected-error", "%s\nSetLength(%v): %v", pt.desc, t, err)
			return
		}
		hist = append(hist, t)
		prev = t
		got := readPij(obj, n)
		if d, i, j := maxDev(got, get(k)); d > tolReuse {
			c.Failf(pt.name+":"+tag+"setlength-reuse", "%s\nbranch lengths set on one object: %v\nafter the last one P[%d][%d]=%.17g, a fresh object gives %.17g", pt.desc, hist, i, j, got[i][j], get(k)[i][j])
			return
		}
		c.Count("check:reuse-step")
	}
}

// ---------------------------------------------------------------- nucleotide models

var dnaModels = []string{"jc", "k2p", "f81", "f84", "tn93", "gtr"}

func logUniform(r *gen.Rand, lo, hi float64) float64 {
	return math.Exp(math.Log(lo) + r.Float()*(math.Log(hi)-math.Log(lo)))
}

// genPi draws base frequencies in the open simplex with every pi >= 0.01.
func genPi(r *gen.Rand) (pi [4]float64, class string) {
	switch r.Intn(9) {
	case 8: // extremely skewed: three bases at 1e-3 .. 1e-5 (still inside the open simplex; eigenvalues of -150 .. -1700)
		class = "extremely-skewed"
		e := r.PickF([]float64{1e-3, 3e-4, 2e-4, 1e-4})
		k := r.Intn(4)
		for i := range pi {
			pi[i] = e
		}
		pi[k] = 1 - 3*e
		return
	case 0:
		return [4]float64{.25, .25, .25, .25}, "uniform"
	case 1: // one frequency on the lower bound
		class = "one-at-0.01"
		w := [4]float64{}
		s := 0.0
		for i := range w {
			w[i] = 0.1 + r.Float()
			s += w[i]
		}
		k := r.Intn(4)
		s -= w[k]
		for i := range w {
			pi[i] = 0.99 * w[i] / s
		}
		pi[k] = 0.01
	case 2: // one dominant state
		class = "one-dominant"
		k := r.Intn(4)
		rest := [3]float64{0.01 + 0.03*r.Float(), 0.01 + 0.03*r.Float(), 0.01 + 0.03*r.Float()}
		x := 0
		s := 0.0
		for i := range pi {
			if i != k {
				pi[i] = rest[x]
				s += rest[x]
				x++
			}
		}
		pi[k] = 1 - s
	case 3: // purines (or pyrimidines) rare
		class = "rare-purines-or-pyrimidines"
		a, b := 0.01+0.02*r.Float(), 0.01+0.02*r.Float()
		rest := 1 - a - b
		u := 0.2 + 0.6*r.Float()
		if r.Bool() {
			pi = [4]float64{a, rest * u, b, rest * (1 - u)}
		} else {
			pi = [4]float64{rest * u, a, rest * (1 - u), b}
		}
	case 4: // two equal frequencies
		class = "two-equal"
		a := 0.05 + 0.3*r.Float()
		b := (1 - 2*a) * (0.1 + 0.8*r.Float())
		v := []float64{a, a, b, 1 - 2*a - b}
		p := r.Perm(4)
		for i := range pi {
			pi[i] = v[p[i]]
		}
	default:
		class = "random"
		s := 0.0
		w := [4]float64{}
		for i := range w {
			w[i] = -math.Log(1 - r.Float())
			s += w[i]
		}
		for i := range pi {
			pi[i] = 0.01 + 0.96*w[i]/s
		}
	}
	return
}

func genKappa(r *gen.Rand) (float64, string) {
	switch r.Intn(10) {
	case 0:
		return 1, "1"
	case 1:
		return 0.05, "min"
	case 2:
		return 50, "max"
	case 3:
		return 1 + (r.Float()-0.5)*math.Pow(10, -float64(r.Range(3, 13))), "near-1"
	case 4:
		return float64(r.Range(2, 10)), "integer"
	case 5:
		if r.Chance(0.3) {
			// far outside the usual range, still valid: the slow eigen mode of the normalised matrix is ~ 1/kappa
			return r.PickF([]float64{1e3, 1e5, 1e7, 1e-3, 1e-5}), "extreme"
		}
	}
	return logUniform(r, 0.05, 50), "random"
}

func genRate(r *gen.Rand) float64 {
	switch r.Intn(8) {
	case 0:
		return 0.05
	case 1:
		return 20
	case 2:
		return 1
	}
	return logUniform(r, 0.05, 20)
}

func genDNA(r *gen.Rand, model string) (p dnaParams, classes []string) {
	p.Model = model
	p.Pi = [4]float64{.25, .25, .25, .25}
	for i := range p.Rates {
		p.Rates[i] = 1
	}
	var kc, pc string
	switch model {
	case "jc":
	case "k2p":
		p.Kappa, kc = genKappa(r)
		p.AsConstructed = p.Kappa == 1 && r.Bool()
	case "f81":
		p.Pi, pc = genPi(r)
	case "f84":
		p.Kappa, kc = genKappa(r)
		if r.Chance(0.05) {
			p.Kappa, kc = 0, "0" // F84 with kappa 0 is F81 (the value the repository's own test uses)
		}
		p.Pi, pc = genPi(r)
	case "tn93":
		p.Pi, pc = genPi(r)
		p.Kappa1, kc = genKappa(r)
		switch r.Intn(6) {
		case 0: // HKY
			p.Kappa2 = p.Kappa1
			kc = "k1=k2:" + kc
		case 1: // the two transition eigenvalues coincide: piR k1 + piY = piY k2 + piR
			piR, piY := p.Pi[0]+p.Pi[2], p.Pi[1]+p.Pi[3]
			k2 := (piR*p.Kappa1 + piY - piR) / piY
			if k2 >= 0.05 && k2 <= 50 {
				p.Kappa2 = k2
				kc = "coincident-eigenvalues"
			} else {
				p.Kappa2, _ = genKappa(r)
				kc = "independent"
			}
		default:
			var k2c string
			p.Kappa2, k2c = genKappa(r)
			switch {
			case kc == "1" || k2c == "1":
				kc = "one-kappa-is-1" // double eigenvalue
			case kc == "near-1" || k2c == "near-1":
				kc = "one-kappa-near-1"
			default:
				kc = "independent"
			}
		}
	case "gtr":
		p.Pi, pc = genPi(r)
		switch r.Intn(8) {
		case 0:
			kc = "all-1"
		case 1: // TN93 shaped
			k1, _ := genKappa(r)
			k2, _ := genKappa(r)
			p.Rates = [6]float64{1, k1, 1, 1, k2, 1}
			kc = "tn93-shaped"
		case 2: // one rate far from the others
			for i := range p.Rates {
				p.Rates[i] = 0.05
			}
			p.Rates[r.Intn(6)] = 20
			kc = "one-extreme"
		default:
			for i := range p.Rates {
				p.Rates[i] = genRate(r)
			}
			kc = "random"
		}
	}
	if pc == "extremely-skewed" {
		// extreme rate ratios are not combined with extremely skewed frequencies: the unchanged code itself then loses
		// 2e-9 on a row sum (conditioning of the decomposition; met at seed 7), which would be a false alarm
		mild := func(k float64) float64 {
			if k > 50 || (k < 0.05 && k != 0) {
				return logUniform(r, 0.05, 50)
			}
			return k
		}
		p.Kappa, p.Kappa1, p.Kappa2 = mild(p.Kappa), mild(p.Kappa1), mild(p.Kappa2)
		for i := range p.Rates {
			p.Rates[i] = mild(p.Rates[i])
		}
	}
	if kc != "" {
		classes = append(classes, "kappa-class:"+model+":"+strings.SplitN(kc, ":", 2)[0])
	}
	if pc != "" {
		classes = append(classes, "pi-class:"+pc)
	}
	return
}

// mkDNA initialises goalign's model with the documented argument order.
func mkDNA(p dnaParams) (models.Model, error) {
	pi := p.Pi
	switch p.Model {
	case "jc":
		m := dna.NewJCModel()
		return m, m.InitModel()
	case "k2p":
		m := dna.NewK2PModel()
		if !(p.AsConstructed && p.Kappa == 1) {
			m.InitModel(p.Kappa)
		}
		return m, nil
	case "f81":
		m := dna.NewF81Model()
		return m, m.InitModel(pi[0], pi[1], pi[2], pi[3])
	case "f84":
		m := dna.NewF84Model()
		m.InitModel(p.Kappa, pi[0], pi[1], pi[2], pi[3])
		return m, nil
	case "tn93":
		m := dna.NewTN93Model()
		return m, m.InitModel(p.Kappa1, p.Kappa2, pi[0], pi[1], pi[2], pi[3])
	case "gtr":
		m := dna.NewGTRModel()
		// InitModel(d, f, b, e, a, c, ...) with the matrix of the comment in gtr.go: d=AC f=AG b=AT e=CG a=CT c=GT
		rt := p.Rates
		return m, m.InitModel(rt[0], rt[1], rt[2], rt[3], rt[4], rt[5], pi[0], pi[1], pi[2], pi[3])
	}
	return nil, fmt.Errorf("unknown model %s", p.Model)
}

func dnaDesc(p dnaParams) string {
	switch p.Model {
	case "jc":
		return "model=jc"
	case "k2p":
		return fmt.Sprintf("model=k2p kappa=%.17g", p.Kappa)
	case "f81":
		return fmt.Sprintf("model=f81 pi(A,C,G,T)=%v", p.Pi)
	case "f84":
		return fmt.Sprintf("model=f84 kappa=%.17g pi(A,C,G,T)=%v", p.Kappa, p.Pi)
	case "tn93":
		return fmt.Sprintf("model=tn93 kappa1=%.17g kappa2=%.17g pi(A,C,G,T)=%v", p.Kappa1, p.Kappa2, p.Pi)
	}
	return fmt.Sprintf("model=gtr rates(AC,AG,AT,CG,CT,GT)=%v pi(A,C,G,T)=%v", p.Rates, p.Pi)
}

func dnaPoint(c *mon.Case, p dnaParams) (point, bool) {
	m, err := mkDNA(p)
	desc := dnaDesc(p)
	if err != nil {
		c.Failf(p.Model+":unexpected-error", "%s\nInitModel: %v", desc, err)
		return point{}, false
	}
	pi := p.Pi[:]
	if p.Model == "jc" || p.Model == "k2p" {
		pi = []float64{.25, .25, .25, .25}
	}
	return point{name: p.Model, desc: desc, model: m, pi: pi, qs: []M{dnaQ(p)}, qnames: []string{"unit-rate"}}, true
}

func genTimes(r *gen.Rand) []float64 {
	ts := append([]float64{}, fixedT...)
	ts = append(ts, logUniform(r, 1e-8, 100), logUniform(r, 1e-3, 10))
	return ts
}

func runDNA(c *mon.Case) {
	r := c.R
	model := dnaModels[r.Intn(len(dnaModels))]
	if model == "jc" && r.Chance(0.9) { // JC has a single parameter point
		model = dnaModels[1+r.Intn(len(dnaModels)-1)]
	}
	p, classes := genDNA(r, model)
	ts := genTimes(r)
	c.Input(map[string]interface{}{"params": p, "t": ts})
	pt, ok := dnaPoint(c, p)
	if !ok {
		return
	}
	for _, k := range classes {
		c.Count(k)
	}
	checkPoint(c, pt, ts)
	c.Note("%s: %d branch lengths agree with exp(Qt)", pt.desc, len(ts))
}

// reinitDNA gives new parameters to an EXISTING model object.
func reinitDNA(m models.Model, p dnaParams) error {
	pi := p.Pi
	switch mm := m.(type) {
	case *dna.JCModel:
		return mm.InitModel()
	case *dna.K2PModel:
		mm.InitModel(p.Kappa)
		return nil
	case *dna.F81Model:
		return mm.InitModel(pi[0], pi[1], pi[2], pi[3])
	case *dna.F84Model:
		mm.InitModel(p.Kappa, pi[0], pi[1], pi[2], pi[3])
		return nil
	case *dna.TN93Model:
		return mm.InitModel(p.Kappa1, p.Kappa2, pi[0], pi[1], pi[2], pi[3])
	case *dna.GTRModel:
		rt := p.Rates
		return mm.InitModel(rt[0], rt[1], rt[2], rt[3], rt[4], rt[5], pi[0], pi[1], pi[2], pi[3])
	}
	return fmt.Errorf("unknown model type %T", m)
}

// runReparam: ONE model object is given 2..4 parameter vectors in a row and evaluated at the SAME branch lengths
// after each of them: every value must belong to the current parameters (nothing cached from the previous ones).
func runReparam(c *mon.Case) {
	r := c.R
	model := dnaModels[1+r.Intn(len(dnaModels)-1)] // not jc: a single parameter point
	ts := genTimes(r)
	k := r.Range(2, 4)
	var ps []dnaParams
	classesOne := 0
	for i := 0; i < k; i++ {
		p, _ := genDNA(r, model)
		if i > 0 && r.Chance(0.4) {
			// the next vector differs from the previous one in ONE parameter only (a scan over one parameter)
			q := ps[i-1]
			q.AsConstructed = false
			switch r.Intn(4) {
			case 0:
				q.Kappa, q.Kappa1 = p.Kappa, p.Kappa
				if model == "tn93" || model == "gtr" {
					q.Kappa = ps[i-1].Kappa
					q.Kappa1 = logUniform(r, 0.05, 50)
				}
			case 1:
				q.Kappa2 = logUniform(r, 0.05, 50)
			case 2:
				q.Rates[r.Intn(6)] = genRate(r)
			default:
				q.Pi = p.Pi
			}
			p = q
			classesOne++
		}
		ps = append(ps, p)
	}
	if r.Chance(0.3) {
		ps = append(ps, ps[0]) // and back to the first vector
	}
	c.Input(map[string]interface{}{"model": model, "params_in_a_row": ps, "t": ts})
	m, err := mkDNA(ps[0])
	if err != nil {
		c.Failf(model+":unexpected-error", "%s\nInitModel: %v", dnaDesc(ps[0]), err)
		return
	}
	c.Add("reparam:one-parameter-changed", classesOne)
	// one Pij object created before the re-initialisations and used after each of them (the pattern of the
	// repository's own TestK2PPij): it follows the model object it was created for
	var keptPij *models.Pij
	keptT := ts[0]
	if kp, e := models.NewPij(m, ts[0]); e == nil {
		keptPij = kp
	}
	for i, p := range ps {
		if i > 0 {
			if err := reinitDNA(m, p); err != nil {
				c.Failf(model+":unexpected-error", "%s\nInitModel on an object already initialised: %v", dnaDesc(p), err)
				return
			}
			if keptPij != nil {
				// at a branch length other than the one the object holds: SetLength documents a cache keyed by the
				// length alone (the same length after a re-initialisation returns the matrix of the old parameters;
				// noted in DESIGN.md section 3, not demanded here)
				t := ts[r.Intn(len(ts))]
				for try := 0; t == keptT && try < 10; try++ {
					t = ts[r.Intn(len(ts))]
				}
				if t == keptT {
					t = keptT*1.5 + 0.001
				}
				keptT = t
				fresh, e := models.NewPij(m, t)
				keptPij.SetLength(t)
				if e == nil {
					a, b := readPij(keptPij, 4), readPij(fresh, 4)
					for x := 0; x < 4 && !c.Failed(); x++ {
						for y := 0; y < 4; y++ {
							if math.Abs(a[x][y]-b[x][y]) > 1e-12 {
								c.Failf(model+":pij-object-does-not-follow-its-model", "%s (parameter vector %d given to one model object)\nt=%v: the Pij object created before the re-initialisation gives P[%d][%d]=%v, a Pij object created now %v", dnaDesc(p), i+1, t, x, y, a[x][y], b[x][y])
								break
							}
						}
					}
					c.Count("reparam:kept-pij-object")
				}
			}
		}
		pi := p.Pi[:]
		if p.Model == "k2p" {
			pi = []float64{.25, .25, .25, .25}
		}
		pt := point{name: p.Model, desc: fmt.Sprintf("%s (parameter vector %d of %d given to one model object)", dnaDesc(p), i+1, len(ps)), model: m, pi: pi, qs: []M{dnaQ(p)}, qnames: []string{"unit-rate"}}
		checkPoint(c, pt, ts)
		if c.Failed() {
			return
		}
		// the next vector is first evaluated at the branch length this one was evaluated at last
		rev := make([]float64, len(ts))
		for a := range ts {
			rev[len(ts)-1-a] = ts[a]
		}
		ts = rev
	}
	c.Count("reparam:" + model)
}

// ---------------------------------------------------------------- protein models

type protTable struct {
	name string
	code int
	mats func() (*mat.Dense, []float64)
	// fingerprint of the table of the pinned tree (taken from FastME): sum, position weighted sum and weighted sum of
	// squares of the exchangeabilities; sum and position weighted sum of the frequencies
	fp [5]float64
}

var protTables = []protTable{
	{"dayoff", protein.MODEL_DAYHOFF, protein.DayoffMats, [5]float64{38280, 7107552, 91156046, 1.0000009999999999, 10.175256999999998}},
	{"jtt", protein.MODEL_JTT, protein.JTTMats, [5]float64{37746, 7355280, 74066823, 1.0000009999999999, 10.252554}},
	{"mtrev", protein.MODEL_MTREV, protein.MtREVMats, [5]float64{37999.980000000032, 7722623.6400000025, 91272404.788700014, 1, 11.355}},
	{"lg", protein.MODEL_LG, protein.LGMats, [5]float64{388.44082799999967, 78254.119257000013, 8037.9617649410266, 1.0000009999999999, 10.171322999999999}},
	{"wag", protein.MODEL_WAG, protein.WAGMats, [5]float64{37028.266179999977, 7268124.4089400023, 60596656.215254068, 0.99999989999999994, 10.281137199999998}},
	{"hivb", protein.MODEL_HIVB, protein.HIVBMats, [5]float64{749.57561541999917, 148868.22165253005, 36922.142157988521, 0.99999999900000003, 10.101341201999999}},
	{"ab", protein.MODEL_AB, protein.ABMats, [5]float64{618.17464523077501, 119501.9351777877, 24068.658899639795, 1.0000000059999998, 11.298654604000001}},
}

func tableFingerprint(m M, pi []float64) (fp [5]float64) {
	for i := 0; i < 20; i++ {
		for j := 0; j < 20; j++ {
			fp[0] += m[i][j]
			fp[1] += float64(i*20+j+1) * m[i][j]
			fp[2] += m[i][j] * m[i][j] * float64((i*7+j*3)%11+1)
		}
		fp[3] += pi[i]
		fp[4] += float64(i+1) * pi[i]
	}
	return
}

func denseToM(d *mat.Dense) M {
	r, _ := d.Dims()
	m := newM(r)
	for i := 0; i < r; i++ {
		for j := 0; j < r; j++ {
			m[i][j] = d.At(i, j)
		}
	}
	return m
}

// runTables: the exported exchangeability / frequency tables against the literature
// (Dayhoff, JTT matrices; Dayhoff, JTT, LG, WAG frequencies) and the pinned fingerprints.
func runTables(c *mon.Case) {
	tb := protTables[c.Idx%len(protTables)]
	c.Input(map[string]interface{}{"table": tb.name})
	d, pi := tb.mats()
	r, cc := d.Dims()
	if r != 20 || cc != 20 || len(pi) != 20 {
		c.Failf(tb.name+":table-shape", "%dx%d exchangeabilities, %d frequencies", r, cc, len(pi))
		return
	}
	m := denseToM(d)
	for i := 0; i < 20; i++ {
		if m[i][i] != 0 {
			c.Failf(tb.name+":table-diagonal", "exchangeability (%d,%d)=%v", i, i, m[i][i])
		}
		if !(pi[i] > 0 && pi[i] < 1) {
			c.Failf(tb.name+":table-frequency", "pi[%d]=%v", i, pi[i])
		}
		for j := 0; j < i; j++ {
			if m[i][j] != m[j][i] {
				c.Failf(tb.name+":table-asymmetric", "exchangeability (%d,%d)=%v but (%d,%d)=%v", i, j, m[i][j], j, i, m[j][i])
			}
			if !(m[i][j] >= 0) {
				c.Failf(tb.name+":table-negative", "exchangeability (%d,%d)=%v", i, j, m[i][j])
			}
		}
	}
	fp := tableFingerprint(m, pi)
	if !(math.Abs(fp[3]-1) <= 1e-5) {
		c.Failf(tb.name+":table-frequency-sum", "frequencies sum to %.12g", fp[3])
	}
	for k := range fp {
		if !(math.Abs(fp[k]-tb.fp[k]) <= 1e-12*math.Abs(tb.fp[k])) {
			c.Failf(tb.name+":table-fingerprint", "fingerprint component %d of the %s table is %.17g, the published table (as pinned) gives %.17g", k, tb.name, fp[k], tb.fp[k])
		}
	}
	if tri, ok := litExch[tb.name]; ok {
		for i := 1; i < 20; i++ {
			for j := 0; j < i; j++ {
				if m[i][j] != tri[i-1][j] {
					c.Failf(tb.name+":table-entry", "exchangeability (%d,%d) is %v, the published matrix has %v", i, j, m[i][j], tri[i-1][j])
				}
			}
		}
		c.Count("tables:literature-matrix")
	}
	if lp, ok := litFreq[tb.name]; ok {
		for i := range lp {
			if math.Abs(lp[i]-pi[i]) > 1e-12 {
				c.Failf(tb.name+":table-frequency", "pi[%d] is %v, the published vector has %v", i, pi[i], lp[i])
			}
		}
		c.Count("tables:literature-frequencies")
	}
	if protein.ModelStringToInt(tb.name) != tb.code {
		c.Failf(tb.name+":model-code", "ModelStringToInt(%q)=%d, constant %d", tb.name, protein.ModelStringToInt(tb.name), tb.code)
	}
	c.Count("tables:" + tb.name)
	c.NonTrivial("table", tb.name)
	c.Note("table %s: fingerprint %v", tb.name, fp)
}

func genAAFreq(r *gen.Rand, model []float64) (pi []float64, class string) {
	pi = make([]float64, 20)
	if r.Chance(0.08) {
		// one or two residues that hardly occur (a valid vector of the open simplex)
		class = "rare-residue"
		copy(pi, model)
		tot := 0.0
		for k := r.Range(1, 2); k > 0; k-- {
			pi[r.Intn(20)] = r.PickF([]float64{1e-5, 1e-6, 3e-5})
		}
		for _, x := range pi {
			tot += x
		}
		for i := range pi {
			pi[i] /= tot
		}
		return
	}
	switch r.Intn(6) {
	case 0:
		class = "uniform"
		for i := range pi {
			pi[i] = 0.05
		}
	case 1:
		class = "model-vector-passed-explicitly"
		copy(pi, model)
	case 2: // a few states on the lower bound, one dominant
		class = "skewed"
		w := make([]float64, 20)
		s := 0.0
		for i := range w {
			w[i] = math.Pow(r.Float(), 4)
			s += w[i]
		}
		for i := range pi {
			pi[i] = 0.01 + 0.8*w[i]/s
		}
	case 3: // counts of a short alignment, as the distance command would estimate them (pseudo count keeps pi > 0)
		class = "empirical-counts"
		L := r.Range(40, 400)
		cnt := make([]float64, 20)
		for i := 0; i < L; i++ {
			cnt[r.Intn(20)]++
		}
		for i := range pi {
			pi[i] = (cnt[i] + 1) / float64(L+20)
		}
	default:
		class = "random"
		w := make([]float64, 20)
		s := 0.0
		for i := range w {
			w[i] = -math.Log(1 - r.Float())
			s += w[i]
		}
		for i := range pi {
			pi[i] = 0.01 + 0.8*w[i]/s
		}
	}
	return
}

func protPoint(c *mon.Case, tb protTable, user []float64, byName bool, gamma bool, alpha float64) (point, bool) {
	code := tb.code
	if byName {
		code = protein.ModelStringToInt(tb.name)
	}
	desc := fmt.Sprintf("protein model=%s frequencies=model", tb.name)
	if user != nil {
		desc = fmt.Sprintf("protein model=%s user frequencies=%v", tb.name, user)
	}
	pm, err := protein.NewProtModel(code, gamma, alpha)
	if err != nil {
		c.Failf(tb.name+":unexpected-error", "%s\nNewProtModel: %v", desc, err)
		return point{}, false
	}
	var arg []float64
	if user != nil {
		arg = append([]float64{}, user...)
	}
	if c.R.Chance(0.25) {
		// error path first: a frequency vector of the wrong length is refused and must leave no trace in the object
		bad := make([]float64, []int{19, 21, 0, 1}[c.R.Intn(4)])
		for i := range bad {
			bad[i] = 1 / float64(len(bad))
		}
		var e2 error
		pan, msg, _ := mon.Protect(func() { e2 = pm.InitModel(bad) })
		if pan {
			c.Failf(tb.name+":refused-frequencies-panic", "%s\nInitModel with %d frequencies panicked: %s", desc, len(bad), msg)
			return point{}, false
		}
		if e2 == nil && len(bad) > 0 {
			c.Failf(tb.name+":wrong-length-frequencies-accepted", "%s\nInitModel accepted %d frequencies", desc, len(bad))
			return point{}, false
		}
		c.Count("prot:refused-frequencies-then-init")
	}
	if c.R.Chance(0.3) {
		// the object served another parameter point before (the successive alignments of one input re-initialise one
		// model object): first other user frequencies or the model's own, then the point under test
		var first []float64
		// (InitModel(nil) means "the frequencies the object holds": after user frequencies it is not "the model's own"
		// any more, so a point with model frequencies is only preceded by another InitModel(nil))
		if c.R.Bool() && arg != nil {
			first = make([]float64, 20)
			tot := 0.0
			for i := range first {
				first[i] = 0.01 + c.R.Float()
				tot += first[i]
			}
			for i := range first {
				first[i] /= tot
			}
		}
		if e0 := pm.InitModel(first); e0 != nil {
			c.Failf(tb.name+":unexpected-error", "%s\nfirst InitModel: %v", desc, e0)
			return point{}, false
		}
		desc += " (object initialised once before, with other frequencies)"
		c.Count("prot:initialised-twice")
	}
	if err = pm.InitModel(arg); err != nil {
		c.Failf(tb.name+":unexpected-error", "%s\nInitModel: %v", desc, err)
		return point{}, false
	}
	d, mpi := tb.mats()
	ex := denseToM(d)
	if tri, ok := litExch[tb.name]; ok { // published matrix where the monitor carries it
		for i := 1; i < 20; i++ {
			for j := 0; j < i; j++ {
				ex[i][j], ex[j][i] = tri[i-1][j], tri[i-1][j]
			}
		}
	}
	pi := mpi
	if lp, ok := litFreq[tb.name]; ok {
		pi = lp
	}
	if user != nil {
		pi = user
	}
	// the model must report the frequencies it was given
	for i := 0; i < 20; i++ {
		if math.Abs(pm.Pi(i)-pi[i]) > 1e-12 {
			c.Failf(tb.name+":pi-accessor", "%s\nPi(%d)=%v, expected %v", desc, i, pm.Pi(i), pi[i])
			break
		}
	}
	return point{name: tb.name, desc: desc, model: pm, pi: pi,
		qs:     []M{rateMatrix(ex, pi, false), rateMatrix(ex, pi, true)},
		qnames: []string{"sum(pi_i q_i)=1", "sum(pi_i q_i)/sum(pi)=1"}}, true
}

func runProtein(c *mon.Case) {
	r := c.R
	tb := protTables[r.Intn(len(protTables))]
	var user []float64
	fclass := "model"
	if r.Chance(0.7) {
		_, mpi := tb.mats()
		user, fclass = genAAFreq(r, mpi)
	}
	byName, gamma := r.Bool(), r.Bool()
	alpha := r.PickF([]float64{0.3, 1, 4})
	// fewer branch lengths than for nucleotides: each one costs a 20x20 exponential
	ts := []float64{0, 1e-8, logUniform(r, 1e-8, 1e-2), r.PickF([]float64{1e-4, 0.01, 0.1}), r.PickF([]float64{0.5, 1, 2}), logUniform(r, 1e-2, 10), r.PickF([]float64{5, 20}), 100}
	c.Input(map[string]interface{}{"model": tb.name, "user_frequencies": user, "t": ts, "gamma": gamma, "alpha": alpha})
	pt, ok := protPoint(c, tb, user, byName, gamma, alpha)
	if !ok {
		return
	}
	c.Count("freq-class:" + fclass)
	c.Count("prot:" + tb.name + ":" + map[bool]string{true: "user", false: "model"}[user != nil])
	checkPoint(c, pt, ts)
	c.Note("%s freq=%s: %d branch lengths agree with exp(Qt)", tb.name, fclass, len(ts))
}

// ---------------------------------------------------------------- witnesses

func runWitness(c *mon.Case) {
	u := [4]float64{.25, .25, .25, .25}
	ones := [6]float64{1, 1, 1, 1, 1, 1}
	sk := [4]float64{0.1, 0.2, 0.3, 0.4}
	ws := []dnaParams{
		{Model: "jc", Pi: u, Rates: ones},
		{Model: "k2p", Kappa: 1, Pi: u, Rates: ones},
		{Model: "k2p", Kappa: 4, Pi: u, Rates: ones},
		{Model: "k2p", Kappa: 0.05, Pi: u, Rates: ones},
		{Model: "k2p", Kappa: 50, Pi: u, Rates: ones},
		{Model: "f81", Pi: u, Rates: ones},
		{Model: "f81", Pi: sk, Rates: ones},
		{Model: "f81", Pi: [4]float64{0.01, 0.01, 0.01, 0.97}, Rates: ones},
		{Model: "f84", Kappa: 0, Pi: u, Rates: ones},
		{Model: "f84", Kappa: 2, Pi: sk, Rates: ones},
		{Model: "f84", Kappa: 50, Pi: [4]float64{0.01, 0.48, 0.02, 0.49}, Rates: ones},
		{Model: "tn93", Kappa1: 1, Kappa2: 1, Pi: u, Rates: ones},
		{Model: "tn93", Kappa1: 1, Kappa2: 1, Pi: sk, Rates: ones},
		{Model: "tn93", Kappa1: 3, Kappa2: 3, Pi: sk, Rates: ones},
		{Model: "tn93", Kappa1: 2, Kappa2: 7, Pi: sk, Rates: ones},
		{Model: "tn93", Kappa1: 7, Kappa2: 2, Pi: [4]float64{0.4, 0.3, 0.2, 0.1}, Rates: ones},
		{Model: "tn93", Kappa1: 4, Kappa2: (0.4*4 + 0.6 - 0.4) / 0.6, Pi: sk, Rates: ones}, // coincident transition eigenvalues
		{Model: "gtr", Pi: u, Rates: ones},
		{Model: "gtr", Pi: sk, Rates: ones},
		{Model: "gtr", Pi: sk, Rates: [6]float64{1, 2, 3, 4, 5, 6}},
		{Model: "gtr", Pi: [4]float64{0.4, 0.3, 0.2, 0.1}, Rates: [6]float64{6, 5, 4, 3, 2, 1}},
		{Model: "gtr", Pi: sk, Rates: [6]float64{0.05, 20, 0.05, 0.05, 20, 0.05}},
		{Model: "gtr", Pi: [4]float64{0.01, 0.01, 0.49, 0.49}, Rates: [6]float64{20, 0.05, 0.05, 0.05, 0.05, 20}},
		// multiple eigenvalues: the general eigen-decomposition returned the same eigenvector twice and the
		// (ignored) failure of its inversion gave P(0) != I, rows not summing to 1, entries above 1
		{Model: "f81", Pi: [4]float64{0.2, 0.3, 0.4, 0.1}, Rates: ones},
		{Model: "f81", Pi: [4]float64{0.15, 0.6, 0.15, 0.1}, Rates: ones},
		{Model: "f81", Pi: [4]float64{0.25, 0.3, 0.25, 0.2}, Rates: ones},
		{Model: "tn93", Kappa1: 4, Kappa2: 1, Pi: [4]float64{0.25, 0.5, 0.1, 0.15}, Rates: ones},
		{Model: "tn93", Kappa1: 10, Kappa2: 1, Pi: [4]float64{0.25, 0.25, 0.15, 0.35}, Rates: ones},
		{Model: "gtr", Pi: [4]float64{0.25, 0.5, 0.1, 0.15}, Rates: [6]float64{1, 4, 1, 1, 1, 1}},
		{Model: "gtr", Pi: [4]float64{0.4660434821891488, 0.02774398587096083, 0.3506546269772608, 0.1555579049626296}, Rates: [6]float64{0.05, 20, 0.05, 0.05, 0.05, 0.05}},
	}
	ts := append([]float64{}, fixedT...)
	ts = append(ts, 0.3, 3)
	if c.Idx < len(ws) {
		p := ws[c.Idx]
		c.Input(map[string]interface{}{"params": p, "t": ts})
		if pt, ok := dnaPoint(c, p); ok {
			checkPoint(c, pt, ts)
		}
		return
	}
	// the seven protein models with their own frequencies, then with uniform user frequencies
	k := c.Idx - len(ws)
	tb := protTables[k%len(protTables)]
	var user []float64
	if k >= len(protTables) {
		user = make([]float64, 20)
		for i := range user {
			user[i] = 0.05
		}
	}
	c.Input(map[string]interface{}{"model": tb.name, "user_frequencies": user, "t": ts})
	if pt, ok := protPoint(c, tb, user, false, false, 1); ok {
		c.Count("prot:" + tb.name + ":" + map[bool]string{true: "user", false: "model"}[user != nil])
		checkPoint(c, pt, ts)
	}
}

const nWitness = 30 + 14

func main() {
	mon.SetNote("rule", "case = one parameter point of one model x 8..13 branch lengths (0, 1e-8, 1e-4, 0.01, 0.1, 0.5, 1, 2, 5, 20, 100 plus log-uniform draws in [1e-8,100]); nucleotide points: JC, K2P (kappa in [0.05,50]: 1, bounds, 1+-1e-3..1e-13, integers, log-uniform), F81/F84/TN93/GTR with base frequencies >= 0.01 (uniform, one at 0.01, one dominant, rare purines or pyrimidines, two equal, random), F84 kappa incl. 0, TN93 kappa1/kappa2 incl. equal (HKY) and the combination where both transition eigenvalues coincide, GTR rates in [0.05,20] incl. all 1, TN93 shaped, one extreme; protein points: 7 matrices x model frequencies or user frequencies (uniform, the model vector passed explicitly, skewed, empirical counts, random; all >= 0.01-ish). On every point: every entry of a FRESH models.NewPij(model,t) against the monitor's expm of the textbook rate matrix, entries in [0,1], row sums, P(0)=I, detailed balance, P(s+t)=P(s)P(t) on 6 pairs, convergence at 60/|lambda2|, analytical formulas vs assembly from Eigens() through a non analytical view of the same model (JC, K2P), and one Pij object driven through 5..9 SetLength calls (same length twice, back to a smaller one) against the fresh objects. Non-trivial = every point (a point is a whole parameter vector checked on all laws); distinct = (model, parameter vector).")
	mon.SetNote("assumptions", "rate matrices typed from the textbook definitions in state order A,C,G,T: K80 kappa = transition/transversion rate ratio; F84 Q_AG=(1+kappa/piR)piG, Q_CT=(1+kappa/piY)piT as in the comment of f84.go; TN93 kappa1 = purine (A<->G), kappa2 = pyrimidine (C<->T) transitions; GTR InitModel(d,f,b,e,a,c) = rates AC,AG,AT,CG,CT,GT as drawn in the comment of gtr.go;; own expm = scaling and squaring (||A||<=1/4) around an order 18 Taylor series, error well below the 1e-8 tolerance for ||Qt|| up to 1e6;; protein exchangeabilities: Dayhoff and JTT typed from the published PAML files, frequencies of Dayhoff, JTT, LG, WAG from the publications; MtREV, LG, WAG, HIVb, AB exchangeabilities are the exported tables of the pinned tree (FastME's) protected by a pinned fingerprint (sub-check tables);; model frequency vectors sum to 1 only within 1e-6: 'one substitution per unit time' is accepted with the mean rate weighted by the raw or by the renormalised vector (one reading must explain all branch lengths of the point), convergence is towards pi/sum(pi);; gonum EigenSym on the symmetrised oracle matrix gives lambda2 for the convergence horizon only;; tolerances: value 1e-8, rows 1e-9, P(0) 1e-12, detailed balance 1e-10, semigroup 1e-9, convergence 1e-6, re-use 1e-13, an entry may exceed 1 by 1e-12 but never be negative or NaN;; re-initialising a model under a live Pij object is only checked at branch lengths other than the one the object holds (SetLength caches by length alone: the same length after a re-initialisation returns the matrix of the old parameters); not checked: t = DBL_MIN (the sentinel NewPij starts from), negative t")
	mon.SetNote("exhaustive_subspaces", "all 7 protein tables (every entry, sub-check tables); JC (single parameter point) on the 13 fixed branch lengths")
	for _, m := range dnaModels {
		q := 2000
		if m == "jc" {
			q = 200
		}
		mon.Floor("model:"+m, q)
	}
	for _, tb := range protTables {
		mon.Floor("prot:"+tb.name+":user", 100)
		mon.Floor("prot:"+tb.name+":model", 40)
		mon.Floor("tables:"+tb.name, 1)
	}
	for _, m := range dnaModels[1:] {
		mon.Floor("reparam:"+m, 500)
	}
	mon.Floor("concurrent:matrices", 10000)
	mon.Floor("prot:refused-frequencies-then-init", 200)
	mon.Floor("tables:literature-matrix", 2)
	mon.Floor("tables:literature-frequencies", 4)
	mon.Floor("check:semigroup", 10000)
	mon.Floor("check:convergence", 2000)
	mon.Floor("check:analytical-vs-eigen", 2000)
	mon.Floor("check:reuse-step", 10000)
	mon.Floor("reuse:back-to-smaller", 2000)
	mon.Floor("reuse:same-t", 2000)
	mon.Floor("check:p0", 2000)
	mon.Floor("branch-length:saturating", 2000)
	mon.Floor("branch-length:tiny", 2000)
	mon.Floor("kappa-class:tn93:coincident-eigenvalues", 50)
	mon.Floor("kappa-class:tn93:k1=k2", 50)
	mon.Floor("kappa-class:f84:0", 20)
	mon.Floor("kappa-class:tn93:one-kappa-is-1", 50)
	mon.Floor("kappa-class:tn93:one-kappa-near-1", 50)
	mon.Floor("kappa-class:gtr:all-1", 50)
	mon.Floor("kappa-class:gtr:one-extreme", 50)
	mon.Floor("kappa-class:gtr:tn93-shaped", 50)
	mon.Floor("kappa-class:k2p:near-1", 50)
	mon.Floor("pi-class:two-equal", 100)
	mon.Floor("pi-class:uniform", 100)
	mon.Floor("freq-class:uniform", 50)
	mon.Floor("freq-class:skewed", 50)
	mon.Floor("pi-class:one-at-0.01", 100)
	mon.Main("C18", []mon.Sub{
		{Name: "witness", Quick: nWitness, Thorough: nWitness, Run: runWitness},
		{Name: "tables", Quick: 7, Thorough: 7, Run: runTables},
		{Name: "concurrent", Quick: 96, Thorough: 1920, Race: true, Run: runConcurrent},
		{Name: "reparam", Quick: 30000, Thorough: 600000, Run: runReparam},
		{Name: "dna", Quick: 120000, Thorough: 3000000, Run: runDNA},
		{Name: "protein", Quick: 6000, Thorough: 150000, Run: runProtein},
	})
}
