// names sub-check of C06: histories in which the row NAMES (and the row order) change between the
// transforms: Rename with a map that swaps / rotates the names or introduces fresh ones, RenameRegexp,
// Sort, ShuffleSequences. A reverse complement "by name" (ReverseComplementSequences, SequenceByName
// handles) issued afterwards must hit exactly the rows that carry those names NOW: a name index left
// behind by a renaming, or a row list and an index that disagree after a re-ordering, sends it to the
// row that carried the name before (or to nothing).
package main

import (
	"fmt"
	"math/rand"
	"regexp"
	"sort"
	"strings"

	"verif/lib/gen"
	"verif/lib/mon"
)

func uniqueNames(rows []mrow) bool {
	seen := map[string]bool{}
	for _, r := range rows {
		if seen[r.Name] {
			return false
		}
		seen[r.Name] = true
	}
	return true
}

func runNames(c *mon.Case) {
	r := c.R
	m := genNt(r, r.Chance(0.6))
	for len(m.rows) < 2 { // renaming needs at least two rows to be observable
		L := 9
		if len(m.rows) > 0 {
			L = len(m.rows[0].Seq)
		}
		m.rows = append(m.rows, mrow{Name: "extra" + gen.Itoa(len(m.rows)), Seq: ntRow(r, L, dna33, nil)})
	}
	// rows that are their own reverse complement or equal to another row hide a by-name mistake: make the rows
	// pairwise different and asymmetric where the length allows it
	for i := range m.rows {
		if L := len(m.rows[i].Seq); L >= 4 && r.Chance(0.8) {
			b := []byte(m.rows[i].Seq)
			b[0], b[L-1] = 'A', "ACG"[i%3] // A...A / A...C / A...G: never self reverse-complementary
			b[1] = "ACGTRYKM"[i%8]
			m.rows[i].Seq = string(b)
		}
	}
	sb, src, mode := build(c, m, r.PickStr(buildModes))
	var ops []string
	c.Input(inputOf(m, map[string]interface{}{"build": mode, "ops": &ops}))
	if !observe(c, "harness-setup", sb, m, nil) {
		return
	}
	if m.alpha != NT {
		c.Count("names:auto-alphabet-not-nt")
		return
	}
	start := m.clone()
	retired := []string{} // names that were carried by some row earlier in the history
	renamed, byNameAfterRename, movedHit := false, false, false
	moved := map[string]bool{} // names that went from one row to another (swap / rotate)
	nops := r.Range(3, 10)
	for step := 0; step < nops; step++ {
		prev := m.clone()
		op := r.PickStr([]string{"rename-swap", "rename-rotate", "rename-fresh", "rename-regexp", "sort", "shuffle", "rcs", "rcs", "rcs", "rc", "seq.rc-byname", "upper", "lower"})
		label := op
		cls := func(i int, got string) string { return "row-content" }
		n := len(m.rows)
		switch op {
		case "rename-swap":
			i, j := r.Intn(n), r.Intn(n)
			if i == j {
				j = (i + 1) % n
			}
			a, b := m.rows[i].Name, m.rows[j].Name
			mp := map[string]string{a: b, b: a}
			if r.Chance(0.3) {
				mp["not-a-name"] = a // a key no row carries: documented as "does nothing"
			}
			label = fmt.Sprintf("rename-swap(%q<->%q)", a, b)
			sb.Rename(mp)
			m.rows[i].Name, m.rows[j].Name = b, a
			moved[a], moved[b] = true, true
			renamed = true
		case "rename-rotate":
			k := r.Range(2, n)
			idx := r.Perm(n)[:k]
			mp := map[string]string{}
			old := make([]string, k)
			for t, i := range idx {
				old[t] = m.rows[i].Name
			}
			for t, i := range idx {
				mp[old[t]] = old[(t+1)%k]
				m.rows[i].Name = old[(t+1)%k]
				moved[old[t]] = true
			}
			label = fmt.Sprintf("rename-rotate%q", old)
			sb.Rename(mp)
			renamed = true
		case "rename-fresh":
			i := r.Intn(n)
			nn := "fresh" + gen.Itoa(step) + "_" + gen.Itoa(r.Intn(1000))
			if m.index(nn) >= 0 {
				continue
			}
			label = fmt.Sprintf("rename-fresh(%q->%q)", m.rows[i].Name, nn)
			retired = append(retired, m.rows[i].Name)
			sb.Rename(map[string]string{m.rows[i].Name: nn})
			m.rows[i].Name = nn
			renamed = true
		case "rename-regexp":
			re, repl := "^", "p"+gen.Itoa(step)+"_"
			switch r.Intn(4) {
			case 0:
				re, repl = "$", "_q"+gen.Itoa(step)
			case 1:
				re, repl = "(?s)^(.)(.*)$", "${2}${1}" // first character to the end
			case 2:
				re, repl = "[0-9]", "#" // may merge names: only applied when the result is unique
			}
			rx := regexp.MustCompile(re)
			next := m.clone()
			for i := range next.rows {
				next.rows[i].Name = rx.ReplaceAllString(next.rows[i].Name, repl)
			}
			if !uniqueNames(next.rows) {
				c.Count("names:regexp-skipped-not-injective")
				continue
			}
			label = fmt.Sprintf("rename-regexp(%q,%q)", re, repl)
			nm := map[string]string{}
			if err := sb.RenameRegexp(re, repl, nm); err != nil {
				c.Failf("names:RenameRegexp:unexpected-error", "step %d after %v: %v", step, ops, err)
				return
			}
			for i := range m.rows {
				if next.rows[i].Name != m.rows[i].Name {
					retired = append(retired, m.rows[i].Name)
				}
				if got, ok := nm[m.rows[i].Name]; !ok || got != next.rows[i].Name {
					c.Failf("names:RenameRegexp:name-map", "step %d after %v: the filled map says %q -> %q (present %v), expected %q", step, ops, m.rows[i].Name, got, ok, next.rows[i].Name)
					return
				}
			}
			m = next
			renamed = true
		case "sort":
			sb.Sort()
			sort.SliceStable(m.rows, func(i, j int) bool { return m.rows[i].Name < m.rows[j].Name })
			renamed = true
		case "shuffle":
			rand.Seed(int64(r.U64() >> 1))
			sb.ShuffleSequences()
			// the order is goalign's choice: it must be a permutation of the rows (names are unique), every row keeping its content
			byName := map[string]mrow{}
			for _, x := range m.rows {
				byName[x.Name] = x
			}
			var order []mrow
			okPerm := sb.NbSequences() == n
			sb.IterateAll(func(nm string, q []uint8, cm string) bool {
				x, ok := byName[nm]
				if !ok {
					okPerm = false
					return true
				}
				delete(byName, nm)
				order = append(order, x)
				return false
			})
			if !okPerm || len(order) != n {
				c.Failf("names:ShuffleSequences:not-a-permutation", "step %d after %v: rows now %s, before %s", step, ops, showRows(snapRows(sb)), showRows(m.rows))
				return
			}
			m.rows = order
			renamed = true
		case "rcs":
			var args []string
			shape := r.PickStr([]string{"one", "some", "some+retired", "retired-only", "all-shuffled", "twice", "some+unknown"})
			switch shape {
			case "some+retired", "retired-only":
				if len(retired) == 0 {
					shape = "some"
					args = pickSubset(r, m, "some")
					break
				}
				for _, p := range r.Perm(len(retired))[:r.Range(1, len(retired))] {
					args = append(args, retired[p]) // may be carried by ANOTHER row by now (swap / rotate) or by nobody
				}
				if shape == "some+retired" {
					args = append(args, pickSubset(r, m, "some")...)
				}
			default:
				args = pickSubset(r, m, shape)
			}
			label = fmt.Sprintf("rcs%q", args)
			if err := sb.ReverseComplementSequences(args...); err != nil {
				c.Failf("names:ReverseComplementSequences:unexpected-error", "step %d after %v names %q: %v", step, ops, args, err)
				return
			}
			seen := map[string]bool{}
			named := map[int]bool{}
			for _, a := range args {
				if i := m.index(a); i >= 0 && !seen[a] {
					seen[a] = true
					named[i] = true
					m.rows[i].Seq = mustRC(m.rows[i].Seq)
					if moved[a] {
						movedHit = true // the name was carried by another row earlier in the history
					}
				}
			}
			cls = func(i int, got string) string {
				if !named[i] {
					return "row-not-carrying-a-given-name-changed"
				}
				return "row-carrying-a-given-name-" + rcKind(prev.rows[i].Seq, got)
			}
			op = "ReverseComplementSequences"
			c.Count("names:rcs-shape:" + shape)
			if renamed && len(named) > 0 && len(named) < n {
				byNameAfterRename = true
			}
		case "rc":
			if err := sb.ReverseComplement(); err != nil {
				c.Failf("names:ReverseComplement:unexpected-error", "step %d after %v: %v", step, ops, err)
				return
			}
			m.mapRows(mustRC)
			cls = func(i int, got string) string { return rcKind(prev.rows[i].Seq, got) }
		case "seq.rc-byname":
			i := r.Intn(n)
			label = fmt.Sprintf("seq.rc-byname(%q)", m.rows[i].Name)
			q, ok := sb.SequenceByName(m.rows[i].Name)
			if !ok || q == nil {
				c.Failf("names:SequenceByName:missing", "step %d after %v: no row for the name %q; rows %s", step, ops, m.rows[i].Name, showRows(m.rows))
				return
			}
			q.Reverse()
			if err := q.Complement(); err != nil {
				c.Failf("names:Sequence.Complement:unexpected-error", "step %d after %v: %v", step, ops, err)
				return
			}
			m.rows[i].Seq = mustRC(m.rows[i].Seq)
			cls = func(k int, got string) string {
				if k != i {
					return "handle-of-another-row"
				}
				return rcKind(prev.rows[k].Seq, got)
			}
			if renamed {
				byNameAfterRename = true
			}
			if moved[m.rows[i].Name] {
				movedHit = true
			}
		case "upper":
			sb.ToUpper()
			m.mapRows(refUpper)
		case "lower":
			sb.ToLower()
			m.mapRows(refLower)
		}
		ops = append(ops, label)
		c.Count("names-op:" + op)
		if !observe(c, "names:"+op, sb, m, cls) {
			c.Note("failed at step %d of %v", step, ops)
			return
		}
		// a retired name nobody carries any more must not resolve
		for _, o := range retired {
			if m.index(o) < 0 {
				if _, ok := sb.GetSequence(o); ok {
					c.Failf("names:retired-name-still-resolves", "step %d after %v: GetSequence(%q) still answers although no row carries that name; rows %s", step, ops, o, showRows(m.rows))
					return
				}
				if id := sb.GetSequenceIdByName(o); id >= 0 {
					c.Failf("names:retired-name-still-resolves", "step %d after %v: GetSequenceIdByName(%q)=%d although no row carries that name; rows %s", step, ops, o, id, showRows(m.rows))
					return
				}
			}
		}
	}
	if src != nil && !observe(c, "names:clone-source", src, start, func(i int, got string) string { return "source-of-clone-changed" }) {
		return
	}
	if byNameAfterRename {
		c.Count("names:by-name-after-renaming")
		c.NonTrivial(start.key(), strings.Join(ops, ","))
	}
	if movedHit {
		c.Count("names:moved-name-hit")
	}
	c.Note("ops=%v final=%s", ops, showRows(m.rows))
}
