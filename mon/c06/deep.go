// deep sub-check of C06: sets of 1 023 ... 70 000 short rows (counts just above a power of two and not a multiple
// of it: an implementation that works batch by batch, or in parallel on batches, shows its remainder here).
package main

import (
	"fmt"

	"github.com/evolbioinfo/goalign/align"

	"verif/lib/mon"
)

var deepCounts = []int{1023, 1025, 2049, 2600, 3500, 4097, 8193, 65537, 70001}

func runDeep(c *mon.Case) {
	r := c.R
	n := deepCounts[c.Idx%len(deepCounts)] + r.Intn(2)
	L := r.Range(3, 9)
	aligned := c.Idx%2 == 0
	rows := make([]string, n)
	for i := range rows {
		li := L
		if !aligned {
			li = r.Range(1, L)
		}
		rows[i] = r.Str(li, "ACGTacgtRYn-")
	}
	c.Input(map[string]interface{}{"rows": n, "length": L, "aligned": aligned})
	mk := func() align.SeqBag {
		var a align.SeqBag
		if aligned {
			a = align.NewAlign(align.NUCLEOTIDS)
		} else {
			a = align.NewSeqBag(align.NUCLEOTIDS)
		}
		for i, s := range rows {
			if err := a.AddSequence(fmt.Sprintf("s%d", i), s, ""); err != nil {
				panic("harness: " + err.Error())
			}
		}
		return a
	}
	check := func(op string, a align.SeqBag, f func(string) string) bool {
		if a.NbSequences() != n {
			c.Failf(op+":deep-set", "%s on %d rows: %d rows afterwards", op, n, a.NbSequences())
			return false
		}
		bad, first := 0, -1
		for i, s := range rows {
			got, _ := a.GetSequenceById(i)
			if got != f(s) {
				if first < 0 {
					first = i
				}
				bad++
			}
		}
		if bad > 0 {
			got, _ := a.GetSequenceById(first)
			c.Failf(op+":deep-set", "%s on %d rows: %d rows wrong, first row %d: %q, expected %q (from %q)", op, n, bad, first, got, f(rows[first]), rows[first])
			return false
		}
		c.Count("deep:" + op)
		return true
	}
	a := mk()
	a.ToUpper()
	if !check("ToUpper", a, refUpper) {
		return
	}
	a = mk()
	a.ToLower()
	if !check("ToLower", a, refLower) {
		return
	}
	a = mk()
	if err := a.ReverseComplement(); err != nil {
		c.Failf("ReverseComplement:unexpected-error", "%v", err)
		return
	}
	if !check("ReverseComplement", a, mustRC) {
		return
	}
	if err := a.ReverseComplement(); err != nil || !check("ReverseComplement-twice", a, func(s string) string { return s }) {
		return
	}
	if !check("Unalign", mk().Unalign(), refUngap) {
		return
	}
	c.NonTrivial("deep", fmt.Sprint(n, L, aligned, c.Idx))
}
