// cli sub-check of C06: the same rules through `goalign revcomp`, `goalign tolower`, `goalign toupper`
// and `goalign unalign` (cmd/revcomp.go, tolower.go, toupper.go, unalign.go). The binary is built once
// per process from the tree under test (VERIF_REPO) into the scratch directory; every case has its
// own directory, writes one input file (FASTA alignment, FASTA sequences of unequal length for
// --unaligned, Phylip with 1..3 alignments for -p, either of them for --auto-detect), runs one command
// and compares what was written (-o file, stdout, or the <prefix>_NNNNNN.fa files of unalign) with the
// oracle of ref.go.
package main

import (
	"bytes"
	"context"
	"fmt"
	"os"
	"os/exec"
	"path/filepath"
	"sort"
	"strconv"
	"strings"
	"time"

	"verif/lib/gen"
	"verif/lib/mon"
)

var cliBin, cliDir, cliBuildErr string

func cliSetup() bool {
	if cliBin != "" {
		return true
	}
	if cliBuildErr != "" {
		return false
	}
	repo := os.Getenv("VERIF_REPO")
	if repo == "" {
		repo = "/repo"
	}
	scratch := os.Getenv("VERIF_SCRATCH")
	if scratch == "" {
		scratch = os.TempDir()
	}
	dir, err := os.MkdirTemp(scratch, "c06-cli-")
	if err != nil {
		cliBuildErr = err.Error()
		fmt.Fprintln(os.Stderr, "c06 cli: "+cliBuildErr)
		return false
	}
	bin := filepath.Join(dir, "goalign")
	cmd := exec.Command("go", "build", "-o", bin, ".")
	cmd.Dir = repo
	env := []string{}
	for _, e := range os.Environ() {
		if !strings.HasPrefix(e, "GOFLAGS=") {
			env = append(env, e)
		}
	}
	cmd.Env = append(env, "GOFLAGS=-mod=readonly", "GOPROXY=off", "GOSUMDB=off", "GOTOOLCHAIN=local")
	if out, err := cmd.CombinedOutput(); err != nil {
		cliBuildErr = fmt.Sprintf("go build of %s failed: %v\n%s", repo, err, out)
		fmt.Fprintln(os.Stderr, "c06 cli: "+cliBuildErr)
		os.RemoveAll(dir)
		return false
	}
	cliBin, cliDir = bin, dir
	return true
}

// cliRun runs the binary in dir; exit = -1 when it had to be killed after 60 s.
func cliRun(dir string, args []string) (stdout, stderr string, exit int) {
	ctx, cancel := context.WithTimeout(context.Background(), 60*time.Second)
	defer cancel()
	cmd := exec.CommandContext(ctx, cliBin, args...)
	cmd.Dir = dir
	var so, se bytes.Buffer
	cmd.Stdout, cmd.Stderr = &so, &se
	err := cmd.Run()
	if ctx.Err() != nil {
		return so.String(), se.String(), -1
	}
	if err != nil {
		exit = 1
		if ee, ok := err.(*exec.ExitError); ok {
			exit = ee.ExitCode()
		}
	}
	return so.String(), se.String(), exit
}

type cliRow struct {
	Name string `json:"name"`
	Seq  string `json:"seq"`
}

func cliParseFasta(s string) []cliRow {
	rows := []cliRow{}
	for _, ln := range strings.Split(s, "\n") {
		ln = strings.TrimRight(ln, "\r")
		if strings.HasPrefix(ln, ">") {
			rows = append(rows, cliRow{Name: ln[1:]})
		} else if len(rows) > 0 {
			rows[len(rows)-1].Seq += strings.TrimSpace(ln)
		}
	}
	return rows
}

// cliParsePhylip reads the (relaxed, possibly interleaved) Phylip text goalign writes, one or several alignments.
func cliParsePhylip(s string) ([][]cliRow, error) {
	var out [][]cliRow
	lines := strings.Split(s, "\n")
	i := 0
	next := func() (string, bool) {
		for i < len(lines) {
			l := strings.TrimRight(lines[i], "\r")
			i++
			if strings.TrimSpace(l) != "" {
				return l, true
			}
		}
		return "", false
	}
	for {
		hd, ok := next()
		if !ok {
			return out, nil
		}
		f := strings.Fields(hd)
		if len(f) != 2 {
			return out, fmt.Errorf("phylip header expected, got %q", hd)
		}
		n, e1 := strconv.Atoi(f[0])
		L, e2 := strconv.Atoi(f[1])
		if e1 != nil || e2 != nil || n < 0 || L < 0 {
			return out, fmt.Errorf("phylip header expected, got %q", hd)
		}
		rows := make([]cliRow, n)
		for k := 0; k < n; k++ {
			l, ok := next()
			if !ok {
				return out, fmt.Errorf("phylip: %d rows announced, %d found", n, k)
			}
			ff := strings.Fields(l)
			rows[k] = cliRow{Name: ff[0], Seq: strings.Join(ff[1:], "")}
		}
		for n > 0 && len(rows[0].Seq) < L {
			for k := 0; k < n; k++ {
				l, ok := next()
				if !ok {
					return out, fmt.Errorf("phylip: rows shorter than the announced length %d", L)
				}
				rows[k].Seq += strings.Join(strings.Fields(l), "")
			}
		}
		for k := range rows {
			if len(rows[k].Seq) != L {
				return out, fmt.Errorf("phylip: row %d holds %d residues, header says %d", k, len(rows[k].Seq), L)
			}
		}
		out = append(out, rows)
	}
}

type cliCase struct {
	Cmd     string     `json:"command"` // revcomp | tolower | toupper | unalign
	Mode    string     `json:"mode"`    // fasta | phylip | auto-fasta | auto-phylip | unaligned
	Kind    string     `json:"content"` // nt | aa | letters
	Alns    [][]cliRow `json:"alignments"`
	Names   []string   `json:"names,omitempty"` // positional arguments of revcomp
	Shape   string     `json:"names_shape,omitempty"`
	Out     string     `json:"output"` // file | stdout | dash (unalign -o -) | stdout-word (unalign -o stdout)
	Extra   []string   `json:"extra_flags,omitempty"`
	Args    []string   `json:"args"`
	Literal [][]cliRow `json:"expected_literal,omitempty"`
}

func lits(names string, seqs ...string) []cliRow {
	nn := strings.Fields(names)
	out := make([]cliRow, len(seqs))
	for i := range seqs {
		out[i] = cliRow{Name: nn[i], Seq: seqs[i]}
	}
	return out
}

var docRevcompIn = lits("Seq0000 Seq0001 Seq0002 Seq0003 Seq0004 Seq0005 Seq0006 Seq0007 Seq0008 Seq0009", "CTTTCGCAAA", "GTGCAGTCCG", "TGAGTTTAGT", "CATTCACTCG", "CGGTCTGATC", "CCCTACAGTT", "TGCAGACGTG", "TAGGTGCTAA", "TCCCCTCTTG", "GAGTATATCG")
var docRevcompOut = lits("Seq0000 Seq0001 Seq0002 Seq0003 Seq0004 Seq0005 Seq0006 Seq0007 Seq0008 Seq0009", "TTTGCGAAAG", "CGGACTGCAC", "ACTAAACTCA", "CGAGTGAATG", "GATCAGACCG", "AACTGTAGGG", "CACGTCTGCA", "TTAGCACCTA", "CAAGAGGGGA", "CGATATACTC")

// fixed command lines
var cliWitnesses = []cliCase{
	// the example of docs/commands/revcomp.md
	{Cmd: "revcomp", Mode: "fasta", Kind: "nt", Alns: [][]cliRow{docRevcompIn}, Out: "stdout", Literal: [][]cliRow{docRevcompOut}},
	// a name given twice designates one row (finding of the library checks: goalign revcomp -i al.fa s1 s1)
	{Cmd: "revcomp", Mode: "fasta", Kind: "nt", Alns: [][]cliRow{lits("s1 s2", "ACGTN", "AAGG-")}, Names: []string{"s1", "s1"}, Shape: "repeated", Out: "file", Literal: [][]cliRow{lits("s1 s2", "NACGT", "AAGG-")}},
	{Cmd: "revcomp", Mode: "unaligned", Kind: "nt", Alns: [][]cliRow{lits("a b c", "AC", "RYk", "G")}, Names: []string{"b", "zz", "b", "a", "b"}, Shape: "mixed", Out: "stdout", Literal: [][]cliRow{lits("a b c", "GT", "mRY", "G")}},
	// names that exist in one alignment of the file only
	{Cmd: "revcomp", Mode: "phylip", Kind: "nt", Alns: [][]cliRow{lits("a b", "AACC", "ACGG"), lits("b c", "TTGA", "GGGA"), lits("c a", "ACCC", "ATTT")}, Names: []string{"a"}, Shape: "known", Out: "file",
		Literal: [][]cliRow{lits("a b", "GGTT", "ACGG"), lits("b c", "TTGA", "GGGA"), lits("c a", "ACCC", "AAAT")}},
	{Cmd: "revcomp", Mode: "phylip", Kind: "nt", Alns: [][]cliRow{lits("a b", "AACC", "ACGG"), lits("b c", "TTGA", "GGGA")}, Out: "stdout",
		Literal: [][]cliRow{lits("a b", "GGTT", "CCGT"), lits("b c", "TCAA", "TCCC")}},
	// rarely used pairs, both cases, gap / point / star
	{Cmd: "revcomp", Mode: "fasta", Kind: "nt", Alns: [][]cliRow{lits("x y", "KMBVDHkmbvdh", "SW-swn.*ryAC")}, Out: "file", Literal: [][]cliRow{lits("x y", "dhbvkmDHBVKM", "GTry*.nws-WS")}},
	// protein input is refused
	{Cmd: "revcomp", Mode: "fasta", Kind: "aa", Alns: [][]cliRow{lits("p q", "MEEPQ", "ACGTA")}, Out: "stdout"},
	{Cmd: "revcomp", Mode: "unaligned", Kind: "aa", Alns: [][]cliRow{lits("p q", "MEEPQ", "ACG")}, Names: []string{"q"}, Shape: "known", Out: "stdout"},
	// case folding
	{Cmd: "toupper", Mode: "fasta", Kind: "nt", Alns: [][]cliRow{lits("x y", "acgtn-.*ryKM", "ACGTN-.*RYkm")}, Out: "stdout", Literal: [][]cliRow{lits("x y", "ACGTN-.*RYKM", "ACGTN-.*RYKM")}},
	{Cmd: "tolower", Mode: "fasta", Kind: "nt", Alns: [][]cliRow{lits("x y", "acgtn-.*ryKM", "ACGTN-.*RYkm")}, Out: "file", Literal: [][]cliRow{lits("x y", "acgtn-.*rykm", "acgtn-.*rykm")}},
	{Cmd: "tolower", Mode: "unaligned", Kind: "aa", Alns: [][]cliRow{lits("x y", "MEEPQ-lk", "Ac")}, Out: "stdout", Literal: [][]cliRow{lits("x y", "meepq-lk", "ac")}},
	{Cmd: "toupper", Mode: "phylip", Kind: "aa", Alns: [][]cliRow{lits("x y", "MEepQ", "acg-A"), lits("y", "mmm")}, Out: "file", Literal: [][]cliRow{lits("x y", "MEEPQ", "ACG-A"), lits("y", "MMM")}},
	// unalign: '-' and only '-' goes away; one file per alignment
	{Cmd: "unalign", Mode: "fasta", Kind: "nt", Alns: [][]cliRow{lits("x y z", "A-C--G.*-", "---------", "ACGTACGTA")}, Out: "stdout", Literal: [][]cliRow{lits("x y z", "ACG.*", "", "ACGTACGTA")}},
	{Cmd: "unalign", Mode: "phylip", Kind: "nt", Alns: [][]cliRow{lits("a b", "A-CC", "--GG"), lits("b c", "TTG-", "-G-A"), lits("c a", "ACCC", "A--T")}, Out: "file",
		Literal: [][]cliRow{lits("a b", "ACC", "GG"), lits("b c", "TTG", "GA"), lits("c a", "ACCC", "AT")}},
	{Cmd: "unalign", Mode: "phylip", Kind: "nt", Alns: [][]cliRow{lits("a b", "A-CC", "--GG"), lits("b c", "TTG-", "-G-A")}, Out: "dash",
		Literal: [][]cliRow{lits("a b", "ACC", "GG"), lits("b c", "TTG", "GA")}},
	{Cmd: "unalign", Mode: "auto-phylip", Kind: "aa", Alns: [][]cliRow{lits("a b", "M-EL", "--PQ")}, Out: "stdout-word", Literal: [][]cliRow{lits("a b", "MEL", "PQ")}},
}

var cliNtMixes = []string{dna33, dnaUpper + dnaLower + "--", "ACGT", "ACGTacgt-", "RYSWKMBDHVNryswkmbdhvn", "KMkmBVbvDHdh", "ACGTN-----.*", "SWNswn-.*AT"}

func genCliAlns(r *gen.Rand, k *cliCase) {
	aligned := k.Mode != "unaligned"
	phy := strings.HasSuffix(k.Mode, "phylip")
	na := 1
	if phy {
		na = r.PickInt([]int{1, 2, 2, 3, 3})
	}
	var mix string
	switch k.Kind {
	case "nt":
		mix = r.PickStr(cliNtMixes)
	case "aa":
		mix = r.PickStr([]string{gen.AaCore + "-", gen.AaCore + gen.AaLower + "XxBbZz*-", gen.AaLower + "--EQ"})
	default:
		mix = "ABCDEFGHIJKLMNOPQRSTUVWXYZabcdefghijklmnopqrstuvwxyz-"
	}
	pool := []string{"s0", "s1", "s2", "s3", "s4", "s5", "s6"}
	if r.Chance(0.4) {
		pool = []string{"Seq0000", "seq0000", "A|b/c.1", "sp#7", "x_y", "GAP", "1a", "é", "s-1", "cov100%", "%d"}
	}
	for a := 0; a < na; a++ {
		n := r.PickInt([]int{1, 2, 3, 3, 4, 5, 6})
		L := r.PickInt([]int{1, 2, 3, 4, 5, 7, 8, 9, 16, 17, 33, 59, 60, 61, 79, 80, 81, 130})
		rows := make([]cliRow, n)
		perm := r.Perm(len(pool))
		for i := range rows {
			l := L
			if !aligned && r.Chance(0.7) {
				l = r.Range(1, 90)
			}
			var s string
			if k.Kind == "nt" {
				s = ntRow(r, l, mix, nil)
			} else {
				s = r.Str(l, mix)
			}
			if k.Cmd == "unalign" && r.Chance(0.5) {
				b := []byte(s)
				for j := range b {
					if r.Chance(0.4) {
						b[j] = '-'
					}
				}
				s = string(b)
			}
			if k.Kind == "aa" && i == 0 { // make the protein alphabet detectable
				b := []byte(s)
				b[r.Intn(len(b))] = r.Pick("EQILFP")
				s = string(b)
			}
			rows[i] = cliRow{Name: pool[perm[i]], Seq: s}
		}
		k.Alns = append(k.Alns, rows)
	}
}

func genCli(r *gen.Rand, idx int) cliCase {
	k := cliCase{}
	k.Cmd = []string{"revcomp", "tolower", "revcomp", "unalign", "revcomp", "toupper", "revcomp", "unalign"}[idx%8]
	modes := []string{"fasta", "phylip", "unaligned", "auto-phylip", "phylip", "unaligned", "auto-fasta"}
	if k.Cmd == "unalign" {
		modes = []string{"fasta", "phylip", "phylip", "auto-phylip", "phylip", "auto-fasta"}
	}
	k.Mode = modes[(idx/8)%len(modes)]
	k.Kind = "nt"
	if k.Cmd != "revcomp" {
		k.Kind = r.PickStr([]string{"nt", "nt", "aa", "letters"})
	} else if r.Chance(0.06) {
		k.Kind = "aa"
	}
	genCliAlns(r, &k)
	k.Out = r.PickStr([]string{"file", "file", "stdout"})
	if k.Cmd == "unalign" {
		k.Out = r.PickStr([]string{"file", "file", "file", "stdout", "dash", "stdout-word"})
	}
	if k.Cmd == "revcomp" {
		all := []string{}
		seen := map[string]bool{}
		for _, rows := range k.Alns {
			for _, x := range rows {
				if !seen[x.Name] {
					seen[x.Name] = true
					all = append(all, x.Name)
				}
			}
		}
		unknown := func() string {
			for {
				u := r.PickStr([]string{"nope", "S0", "s00", "s0_", "unknown_" + gen.Itoa(r.Intn(100)), "s", "Seq"})
				if !seen[u] {
					return u
				}
			}
		}
		k.Shape = []string{"none", "known", "unknown", "mixed", "repeated", "known", "all", "mixed"}[(idx/8+(idx%8)/2*2)%8]
		p := r.Perm(len(all))
		switch k.Shape {
		case "known":
			for _, i := range p[:r.Range(1, len(all))] {
				k.Names = append(k.Names, all[i])
			}
			if len(k.Names) == len(all) && len(all) > 1 {
				k.Names = k.Names[:len(all)-1]
			}
		case "unknown":
			k.Names = []string{unknown(), unknown()}[:r.Range(1, 2)]
		case "mixed":
			k.Names = []string{unknown()}
			for _, i := range p[:r.Range(1, len(all))] {
				k.Names = append(k.Names, all[i])
				if r.Chance(0.3) {
					k.Names = append(k.Names, unknown())
				}
			}
		case "repeated":
			x := all[p[0]]
			k.Names = []string{x}
			if len(all) > 1 && r.Bool() {
				k.Names = append(k.Names, all[p[1]])
			}
			k.Names = append(k.Names, x)
			if r.Chance(0.3) {
				k.Names = append(k.Names, x)
			}
		case "all":
			for _, i := range p {
				k.Names = append(k.Names, all[i])
			}
		}
	}
	if k.Mode == "unaligned" && r.Chance(0.2) {
		k.Extra = append(k.Extra, r.PickStr([]string{"-p", "-x", "-u"})) // documented as ignored with --unaligned
	}
	if strings.HasSuffix(k.Mode, "phylip") && k.Cmd != "unalign" && r.Chance(0.3) {
		k.Extra = append(k.Extra, r.PickStr([]string{"--one-line", "--no-block"}))
	}
	return k
}

func cliShow(alns [][]cliRow) string {
	var sb strings.Builder
	for i, rows := range alns {
		if i > 0 {
			sb.WriteString(" | ")
		}
		for j, x := range rows {
			if j > 0 {
				sb.WriteString(" ")
			}
			sb.WriteString(strconv.Quote(x.Name) + ":" + strconv.Quote(x.Seq))
		}
	}
	return sb.String()
}

// cliAlphabetIsNt: the letter classes the root command documents for --alphabet auto (a letter among
// E F I L P Q Z J and other non IUPAC symbols makes the file "not nucleotides")
func cliAlphabetIsNt(alnRows []cliRow) bool {
	for _, x := range alnRows {
		if strings.Trim(strings.ToUpper(x.Seq), "ACGTRYSWKMBDHVN-.*?XUO") != "" {
			return false
		}
	}
	return true
}

func runCli(c *mon.Case) {
	if !cliSetup() {
		return // the floors cli:* are missed: INCONCLUSIVE, not a violation
	}
	var k cliCase
	if c.Idx < len(cliWitnesses) {
		k = cliWitnesses[c.Idx]
		c.Count("cli:fixed-command-line")
	} else {
		k = genCli(c.R, c.Idx)
	}
	dir, err := os.MkdirTemp(cliDir, "case-")
	if err != nil {
		panic("harness: " + err.Error())
	}
	defer os.RemoveAll(dir)
	if c.Verbose { // single case replay: do not leave the binary behind
		defer func() { os.RemoveAll(cliDir); cliBin, cliDir = "", "" }()
	}
	phy := strings.HasSuffix(k.Mode, "phylip")
	var in strings.Builder
	for _, rows := range k.Alns {
		if phy {
			fmt.Fprintf(&in, "  %d  %d\n", len(rows), len(rows[0].Seq))
			for _, s := range rows {
				fmt.Fprintf(&in, "%s  %s\n", s.Name, s.Seq)
			}
		} else {
			w := c.R.PickInt([]int{7, 60, 80, 1000})
			for _, s := range rows {
				fmt.Fprintf(&in, ">%s\n", s.Name)
				for i := 0; i < len(s.Seq); i += w {
					e := i + w
					if e > len(s.Seq) {
						e = len(s.Seq)
					}
					in.WriteString(s.Seq[i:e] + "\n")
				}
			}
		}
	}
	inFile, outFile := filepath.Join(dir, "in.txt"), filepath.Join(dir, "out.txt")
	prefix := filepath.Join(dir, "un")
	if err := os.WriteFile(inFile, []byte(in.String()), 0644); err != nil {
		panic("harness: " + err.Error())
	}
	args := []string{k.Cmd, "-i", inFile}
	switch k.Mode {
	case "phylip":
		args = append(args, "-p")
	case "auto-fasta", "auto-phylip":
		args = append(args, "--auto-detect")
	case "unaligned":
		args = append(args, "--unaligned")
	}
	args = append(args, k.Extra...)
	switch {
	case k.Cmd == "unalign" && k.Out == "file":
		args = append(args, "-o", prefix)
	case k.Cmd == "unalign" && k.Out == "dash":
		args = append(args, "--output-prefix", "-")
	case k.Cmd == "unalign" && k.Out == "stdout-word":
		args = append(args, "-o", "stdout")
	case k.Out == "file":
		args = append(args, "-o", outFile)
	}
	if len(k.Names) > 0 {
		if c.R.Bool() { // names before or after the flags
			args = append(args, k.Names...)
		} else {
			args = append(append([]string{args[0]}, k.Names...), args[1:]...)
		}
	}
	k.Args = args
	c.Input(k)
	c.Checkpoint()
	stdout, stderr, exit := cliRun(dir, args)
	c.Count("cli:runs")
	c.Count("cli:" + k.Cmd)
	c.Count("cli:" + k.Cmd + ":mode:" + k.Mode)
	c.Count("cli:" + k.Cmd + ":output:" + k.Out)
	if k.Cmd == "revcomp" {
		sh := k.Shape
		if sh == "" {
			sh = "none"
		}
		c.Count("cli:revcomp:names:" + sh)
	}
	for _, e := range k.Extra {
		c.Count("cli:extra:" + e)
	}
	if len(k.Alns) > 1 {
		c.Count("cli:" + k.Cmd + ":several-alignments")
	}
	fail := func(sig, format string, x ...interface{}) {
		c.Failf("cli:"+k.Cmd+":"+sig, "goalign %s\ninput file:\n%sexit %d\nstderr: %s\nstdout:\n%s\n%s", strings.Join(args, " "), in.String(), exit, cliFirstLines(stderr, 3), stdout, fmt.Sprintf(format, x...))
	}
	if exit == -1 {
		fail("timeout", "the command did not end within 60 s")
		return
	}
	if strings.Contains(stderr, "panic:") || strings.Contains(stderr, "goroutine ") || strings.Contains(stdout, "panic:") {
		fail("panic", "the command crashed")
		return
	}

	// ---- expectation
	want := make([][]cliRow, len(k.Alns))
	mustFail := ""
	for ai, rows := range k.Alns {
		w := make([]cliRow, len(rows))
		copy(w, rows)
		switch k.Cmd {
		case "revcomp":
			if !cliAlphabetIsNt(rows) {
				mustFail = fmt.Sprintf("alignment %d is not a nucleotide alignment", ai)
				break
			}
			given := map[string]bool{}
			for _, a := range k.Names {
				given[a] = true
			}
			for i := range w {
				if len(k.Names) == 0 || given[w[i].Name] { // a name given several times designates one row
					w[i].Seq = mustRC(w[i].Seq)
				}
			}
		case "tolower":
			for i := range w {
				w[i].Seq = refLower(w[i].Seq)
			}
		case "toupper":
			for i := range w {
				w[i].Seq = refUpper(w[i].Seq)
			}
		case "unalign":
			for i := range w {
				w[i].Seq = refUngap(w[i].Seq)
			}
		}
		want[ai] = w
		if mustFail != "" {
			break
		}
	}
	if mustFail != "" {
		c.Count("cli:refusal-expected")
		if exit == 0 {
			fail("error-expected", "exit status 0 although %s (docs: 'If the input alignment is not nucleotides, then returns an error')", mustFail)
			return
		}
		if strings.TrimSpace(stderr+stdout) == "" {
			fail("silent-failure", "exit status %d without any message", exit)
		}
		c.Note("refused: %s", cliFirstLines(stderr, 1))
		return
	}
	if exit != 0 {
		fail("unexpected-error", "the command failed on a valid request")
		return
	}

	// ---- what was written
	var got [][]cliRow
	switch {
	case k.Cmd == "unalign" && k.Out == "file":
		// one FASTA file per alignment: <prefix>_000001.fa ... (cmd/unalign.go; the example of the docs shows
		// the index directly after a prefix that ends with '_': both spellings are looked for)
		ents, _ := os.ReadDir(dir)
		var files []string
		for _, e := range ents {
			if e.Name() != "in.txt" {
				files = append(files, e.Name())
			}
		}
		sort.Strings(files)
		if len(files) != len(k.Alns) {
			fail("file-count", "%d output files %q for %d alignments", len(files), files, len(k.Alns))
			return
		}
		for i, f := range files {
			if f != fmt.Sprintf("un_%06d.fa", i+1) && f != fmt.Sprintf("un%06d.fa", i+1) {
				fail("file-name", "output file %d is named %q, expected the prefix 'un', the index %06d and the extension .fa", i, f, i+1)
				return
			}
			b, _ := os.ReadFile(filepath.Join(dir, f))
			got = append(got, cliParseFasta(string(b)))
		}
		if strings.TrimSpace(stdout) != "" {
			fail("stdout-not-empty", "sequences go to files, stdout should be empty")
			return
		}
	case k.Cmd == "unalign":
		// everything on stdout, one FASTA stream: cut it along the expected row counts
		all := cliParseFasta(stdout)
		tot := 0
		for _, w := range want {
			tot += len(w)
		}
		if len(all) != tot {
			fail("row-count", "%d sequences on stdout, the input holds %d", len(all), tot)
			return
		}
		for _, w := range want {
			got = append(got, all[:len(w)])
			all = all[len(w):]
		}
	default:
		text := stdout
		if k.Out == "file" {
			b, _ := os.ReadFile(outFile)
			text = string(b)
			if strings.TrimSpace(stdout) != "" {
				fail("stdout-not-empty", "the result goes to the -o file, stdout should be empty")
				return
			}
		}
		if phy { // the output format follows the input format
			g, perr := cliParsePhylip(text)
			if perr != nil {
				fail("output-unreadable", "%v\noutput:\n%s", perr, text)
				return
			}
			got = g
		} else {
			got = [][]cliRow{cliParseFasta(text)}
		}
	}
	if len(got) != len(want) {
		fail("alignment-count", "%d alignments written, the input holds %d\nwritten: %s", len(got), len(want), cliShow(got))
		return
	}
	changed := false
	for ai := range want {
		if len(got[ai]) != len(want[ai]) {
			fail("row-count", "alignment %d: %d rows written, expected %d\nwritten:  %s\nexpected: %s", ai, len(got[ai]), len(want[ai]), cliShow(got), cliShow(want))
			return
		}
		for i := range want[ai] {
			g, w, before := got[ai][i], want[ai][i], k.Alns[ai][i]
			if g.Name != w.Name {
				fail("names-or-order", "alignment %d row %d is named %q, expected %q\nwritten:  %s\nexpected: %s", ai, i, g.Name, w.Name, cliShow(got), cliShow(want))
				return
			}
			if g.Seq != w.Seq {
				kind := "row-content"
				switch {
				case k.Cmd == "revcomp" && len(k.Names) > 0 && w.Seq == before.Seq:
					kind = "row-not-named-changed"
				case k.Cmd == "revcomp":
					kind = "named-row-" + rcKind(before.Seq, g.Seq)
				case len(g.Seq) != len(w.Seq):
					kind = "row-length"
				case g.Seq == before.Seq:
					kind = "unchanged"
				}
				fail(kind, "alignment %d row %d (%q): %q written, expected %q (input %q)\nwritten:  %s\nexpected: %s", ai, i, w.Name, g.Seq, w.Seq, before.Seq, cliShow(got), cliShow(want))
				return
			}
			if w.Seq != before.Seq {
				changed = true
			}
		}
	}
	c.Count("cli:outcome:ok")
	if k.Literal != nil && cliShow(got) != cliShow(k.Literal) {
		fail("documented-example", "written %s, the hand-typed expectation is %s", cliShow(got), cliShow(k.Literal))
		return
	}
	if changed {
		key := []string{k.Cmd, k.Mode, strings.Join(k.Names, "\x00"), cliShow(k.Alns)}
		c.NonTrivial(key...)
	}
	c.Note("goalign %s -> %s", strings.Join(args, " "), cliShow(got))
}

func cliFirstLines(s string, n int) string {
	l := strings.Split(strings.TrimSpace(s), "\n")
	if len(l) > n {
		l = l[:n]
	}
	return strings.Join(l, " | ")
}
