// Reference side of the C06 monitor: the IUPAC complement derived from the
// meaning of the codes, byte-wise ASCII case folding, plain reversal, gap
// stripping and the list-of-rows model. Nothing here is taken from the code
// under test (align/const.go is never consulted): the complement of a code is
// DEFINED as the code whose set of bases is the base-wise Watson-Crick
// complement (A<->T, C<->G) of the set of bases the code stands for.
package main

import (
	"strconv"
	"strings"
)

// IUPAC nucleotide codes and the bases they stand for (NC-IUB 1984).
var iupacMeaning = map[byte]string{
	'A': "A", 'C': "C", 'G': "G", 'T': "T",
	'R': "AG",  // puRine
	'Y': "CT",  // pYrimidine
	'S': "CG",  // Strong
	'W': "AT",  // Weak
	'K': "GT",  // Keto
	'M': "AC",  // aMino
	'B': "CGT", // not A
	'D': "AGT", // not C
	'H': "ACT", // not G
	'V': "ACG", // not T
	'N': "ACGT",
}

func baseBit(b byte) int {
	switch b {
	case 'A':
		return 1
	case 'C':
		return 2
	case 'G':
		return 4
	case 'T':
		return 8
	}
	panic("harness: baseBit")
}

// Watson-Crick partner of a base.
func wc(b byte) byte {
	switch b {
	case 'A':
		return 'T'
	case 'T':
		return 'A'
	case 'C':
		return 'G'
	case 'G':
		return 'C'
	}
	panic("harness: wc")
}

var (
	setToCode  = map[int]byte{} // bit set of bases -> IUPAC code
	refCompTab [256]int         // -1: not a symbol of the DNA alphabet of the property
)

// The 33 symbols the property quantifies over: 15 IUPAC DNA codes in both cases, gap, point, star.
const dnaUpper = "ACGTRYSWKMBDHVN"
const dnaLower = "acgtryswkmbdhvn"
const dnaFixed = "-.*"
const dna33 = dnaUpper + dnaLower + dnaFixed

// The 35 symbols of the enumerated sub-space: the above plus U/u (RNA; outside the quantifier).
const sym35 = dna33 + "Uu"

func init() {
	for code, m := range iupacMeaning {
		s := 0
		for i := 0; i < len(m); i++ {
			s |= baseBit(m[i])
		}
		if _, dup := setToCode[s]; dup {
			panic("harness: two IUPAC codes with the same meaning")
		}
		setToCode[s] = code
	}
	if len(setToCode) != 15 {
		panic("harness: IUPAC table incomplete")
	}
	for i := range refCompTab {
		refCompTab[i] = -1
	}
	for code, m := range iupacMeaning {
		s := 0
		for i := 0; i < len(m); i++ {
			s |= baseBit(wc(m[i]))
		}
		cc, ok := setToCode[s]
		if !ok {
			panic("harness: complement set has no code")
		}
		refCompTab[code] = int(cc)
		refCompTab[code+32] = int(cc + 32) // case is preserved
	}
	for i := 0; i < len(dnaFixed); i++ {
		refCompTab[dnaFixed[i]] = int(dnaFixed[i])
	}
	n := 0
	for _, v := range refCompTab {
		if v >= 0 {
			n++
		}
	}
	if n != 33 || len(dna33) != 33 || len(sym35) != 35 {
		panic("harness: DNA alphabet of the property must have 33 symbols")
	}
}

// inDNA tells whether every byte of s belongs to the 33 symbol alphabet of the property.
func inDNA(s string) bool {
	for i := 0; i < len(s); i++ {
		if refCompTab[s[i]] < 0 {
			return false
		}
	}
	return true
}

// refComplement complements position by position. ok=false if a byte is outside the DNA alphabet.
func refComplement(s string) (string, bool) {
	out := make([]byte, len(s))
	for i := 0; i < len(s); i++ {
		v := refCompTab[s[i]]
		if v < 0 {
			return "", false
		}
		out[i] = byte(v)
	}
	return string(out), true
}

// refReverse builds the mirrored string in a fresh buffer (out[i] = in[n-1-i]).
func refReverse(s string) string {
	n := len(s)
	out := make([]byte, n)
	for i := 0; i < n; i++ {
		out[i] = s[n-1-i]
	}
	return string(out)
}

func refRC(s string) (string, bool) {
	c, ok := refComplement(s)
	if !ok {
		return "", false
	}
	return refReverse(c), true
}

func mustRC(s string) string {
	r, ok := refRC(s)
	if !ok {
		panic("harness: reverse complement of a row outside the DNA alphabet: " + s)
	}
	return r
}

// ASCII case folding: the 26 letters, nothing else.
func refUpper(s string) string {
	out := []byte(s)
	for i, b := range out {
		if b >= 'a' && b <= 'z' {
			out[i] = b - 32
		}
	}
	return string(out)
}

func refLower(s string) string {
	out := []byte(s)
	for i, b := range out {
		if b >= 'A' && b <= 'Z' {
			out[i] = b + 32
		}
	}
	return string(out)
}

// refUngap removes exactly the '-' bytes.
func refUngap(s string) string {
	out := make([]byte, 0, len(s))
	for i := 0; i < len(s); i++ {
		if s[i] != '-' {
			out = append(out, s[i])
		}
	}
	return string(out)
}

func isASCII(s string) bool {
	for i := 0; i < len(s); i++ {
		if s[i] >= 0x80 {
			return false
		}
	}
	return true
}

func hasAmbiguity(s string) bool { return strings.ContainsAny(s, "RYSWKMBDHVNryswkmbdhvn") }

func mixedCase(s string) bool {
	lo, up := false, false
	for i := 0; i < len(s); i++ {
		if s[i] >= 'a' && s[i] <= 'z' {
			lo = true
		} else if s[i] >= 'A' && s[i] <= 'Z' {
			up = true
		}
	}
	return lo && up
}

// ---- list-of-rows model ----

type mrow struct {
	Name    string `json:"name"`
	Seq     string `json:"seq"`
	Comment string `json:"comment,omitempty"`
}

type model struct {
	rows    []mrow
	alpha   int
	aligned bool
}

func (m *model) clone() *model {
	c := &model{alpha: m.alpha, aligned: m.aligned, rows: make([]mrow, len(m.rows))}
	copy(c.rows, m.rows)
	return c
}

func (m *model) key() string {
	var sb strings.Builder
	for _, r := range m.rows {
		sb.WriteString(r.Name)
		sb.WriteByte(0)
		sb.WriteString(r.Seq)
		sb.WriteByte(1)
	}
	return sb.String()
}

func (m *model) seqs() []string {
	out := make([]string, len(m.rows))
	for i, r := range m.rows {
		out[i] = r.Seq
	}
	return out
}

func (m *model) allDNA() bool {
	for _, r := range m.rows {
		if !inDNA(r.Seq) {
			return false
		}
	}
	return true
}

func (m *model) mapRows(f func(string) string) {
	for i := range m.rows {
		m.rows[i].Seq = f(m.rows[i].Seq)
	}
}

func (m *model) index(name string) int {
	for i, r := range m.rows {
		if r.Name == name {
			return i
		}
	}
	return -1
}

func eqModels(a, b *model) bool {
	if len(a.rows) != len(b.rows) {
		return false
	}
	for i := range a.rows {
		if a.rows[i] != b.rows[i] {
			return false
		}
	}
	return true
}

func showRows(rows []mrow) string {
	var sb strings.Builder
	sb.WriteString("[")
	for i, r := range rows {
		if i > 0 {
			sb.WriteString(" ")
		}
		if i >= 12 {
			sb.WriteString("…")
			break
		}
		sb.WriteString(strconv.Quote(r.Name))
		sb.WriteString(":")
		sb.WriteString(strconv.Quote(r.Seq))
	}
	sb.WriteString("]")
	return sb.String()
}
