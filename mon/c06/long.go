// long sub-check of C06: rows longer than 2^16 / 2^20 / 2^21 residues (lengths just above a power of two and not a
// multiple of it: an implementation that works block by block, or in parallel on blocks, shows its remainder
// here). Strand, case and un-align transforms against the same per-character oracle as the other sub-checks.
package main

import (
	"fmt"
	"strings"

	"github.com/evolbioinfo/goalign/align"

	"verif/lib/mon"
)

var longLens = []int{1<<16 + 1, 1<<20 + 37, 1<<21 + 5, 1<<20 - 1, 1<<20 + 1<<19 + 3, 3<<20 + 11}

func runLong(c *mon.Case) {
	r := c.R
	L := longLens[c.Idx%len(longLens)] + r.Intn(3)
	n := r.Range(2, 3)
	rows := make([]string, n)
	for i := range rows {
		rows[i] = r.Str(L, "ACGTacgtRYKMSWBDHVNn-")
	}
	c.Input(map[string]interface{}{"rows": n, "length": L, "alphabet": "ACGTacgtRYKMSWBDHVNn-"})
	mk := func() align.Alignment {
		a := align.NewAlign(align.NUCLEOTIDS)
		for i, s := range rows {
			if err := a.AddSequence(fmt.Sprintf("s%d", i), s, ""); err != nil {
				panic("harness: " + err.Error())
			}
		}
		return a
	}
	firstDiff := func(got, want string) string {
		if len(got) != len(want) {
			return fmt.Sprintf("length %d, expected %d", len(got), len(want))
		}
		for i := 0; i < len(got); i++ {
			if got[i] != want[i] {
				return fmt.Sprintf("residue %d of %d is %q, expected %q", i, len(got), got[i], want[i])
			}
		}
		return ""
	}
	check := func(op string, a align.SeqBag, f func(string) string) bool {
		for i, s := range rows {
			got, _ := a.GetSequenceById(i)
			if d := firstDiff(got, f(s)); d != "" {
				c.Failf(op+":long-row", "%s on rows of %d residues: row %d: %s", op, L, i, d)
				return false
			}
		}
		c.Count("long:" + op)
		return true
	}
	id := func(s string) string { return s }
	a := mk()
	if err := a.ReverseComplement(); err != nil {
		c.Failf("ReverseComplement:unexpected-error", "%v", err)
		return
	}
	if !check("ReverseComplement", a, mustRC) {
		return
	}
	a.ReverseComplement()
	if !check("ReverseComplement-twice", a, id) {
		return
	}
	if err := a.ReverseComplementSequences("s1"); err != nil {
		c.Failf("ReverseComplementSequences:unexpected-error", "%v", err)
		return
	}
	if !check("ReverseComplementSequences", a, func(s string) string {
		if s == rows[1] {
			return mustRC(s)
		}
		return s
	}) {
		return
	}
	// sequence level
	b := []byte(rows[0])
	if err := align.Complement(b); err != nil {
		c.Failf("align.Complement:unexpected-error", "%v", err)
		return
	}
	want, _ := refComplement(rows[0])
	if d := firstDiff(string(b), want); d != "" {
		c.Failf("align.Complement:long-row", "%d residues: %s", L, d)
		return
	}
	align.Reverse(b)
	if d := firstDiff(string(b), mustRC(rows[0])); d != "" {
		c.Failf("align.Reverse:long-row", "%d residues: %s", L, d)
		return
	}
	c.Count("long:align.Complement+Reverse")
	// case
	a = mk()
	a.ToUpper()
	if !check("ToUpper", a, refUpper) {
		return
	}
	a = mk()
	a.ToLower()
	if !check("ToLower", a, refLower) {
		return
	}
	// un-align
	u := mk().Unalign()
	if !check("Unalign", u, refUngap) {
		return
	}
	c.NonTrivial("long", fmt.Sprint(L), strings.Repeat("x", c.Idx%7))
}
