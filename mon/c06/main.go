// C06 monitor: strand, case and un-align transforms are exact and reversible.
//
// Every call of ReverseComplement / ReverseComplementSequences / ToUpper / ToLower /
// Unalign / Sequence.Reverse / Sequence.Complement / align.Reverse / align.Complement
// is compared with a list-of-rows model whose complement table is derived from the
// meaning of the IUPAC codes (ref.go); the container is read back through every access
// path (iteration, by index, by name) plus the structural invariant hook.
package main

import (
	"fmt"
	"sort"
	"strings"

	"github.com/evolbioinfo/goalign/align"
	"github.com/evolbioinfo/goalign/io/fasta"

	"verif/lib/conc"
	"verif/lib/gen"
	"verif/lib/h"
	"verif/lib/mon"
)

const NT = align.NUCLEOTIDS

// ---------------------------------------------------------------- containers

func newContainer(aligned bool, alpha int) align.SeqBag {
	if aligned {
		return align.NewAlign(alpha)
	}
	return align.NewSeqBag(alpha)
}

var buildModes = []string{"add", "add", "addchar", "auto", "clone", "fasta"}

// build makes the goalign container of a model. Modes: add (AddSequence, declared alphabet),
// addchar (AddSequenceChar), auto (alphabet UNKNOWN + AutoAlphabet), clone (operate on a clone; the
// source is returned as well and must stay untouched), fasta (through the FASTA parser, like the CLI).
// m.alpha is set to what the container reports after construction.
func build(c *mon.Case, m *model, mode string) (sb align.SeqBag, src align.SeqBag, usedMode string) {
	if mode == "fasta" {
		ok := len(m.rows) > 0
		for _, r := range m.rows {
			if len(r.Seq) == 0 || r.Comment != "" || strings.ContainsAny(r.Seq, "> \r\n\x00") || !isASCII(r.Seq) || strings.ContainsAny(r.Name, " \r\n>\x00") || !isASCII(r.Name) || r.Name == "" {
				ok = false
			}
		}
		if ok {
			var txt strings.Builder
			w := c.R.PickInt([]int{1, 3, 7, 60, 80, 1000})
			for _, r := range m.rows {
				txt.WriteString(">" + r.Name + "\n")
				for i := 0; i < len(r.Seq); i += w {
					e := i + w
					if e > len(r.Seq) {
						e = len(r.Seq)
					}
					txt.WriteString(r.Seq[i:e] + "\n")
				}
			}
			var err error
			if m.aligned {
				var al align.Alignment
				al, err = fasta.NewParser(strings.NewReader(txt.String())).Parse()
				sb = al
			} else {
				sb, err = fasta.NewParser(strings.NewReader(txt.String())).ParseUnalign()
			}
			if err == nil && sb != nil && sameAsModel(sb, m) {
				m.alpha = sb.Alphabet()
				return sb, nil, "fasta"
			}
			c.Count("build:fasta-not-representable")
		}
		mode = "add"
	}
	alpha := m.alpha
	if mode == "auto" {
		alpha = align.UNKNOWN
	}
	sb = newContainer(m.aligned, alpha)
	for _, r := range m.rows {
		var err error
		if mode == "addchar" {
			err = sb.AddSequenceChar(r.Name, []uint8(r.Seq), r.Comment)
		} else {
			err = sb.AddSequence(r.Name, r.Seq, r.Comment)
		}
		if err != nil {
			panic("harness: build: " + err.Error())
		}
	}
	if mode == "auto" {
		sb.AutoAlphabet()
	}
	m.alpha = sb.Alphabet()
	if mode == "clone" {
		src = sb
		var err error
		if al, ok := sb.(align.Alignment); ok {
			sb, err = al.Clone()
		} else {
			sb, err = sb.CloneSeqBag()
		}
		if err != nil {
			panic("harness: clone: " + err.Error())
		}
	}
	return sb, src, mode
}

func sameAsModel(sb align.SeqBag, m *model) bool {
	if sb.NbSequences() != len(m.rows) {
		return false
	}
	i, ok := 0, true
	sb.IterateAll(func(n string, q []uint8, cm string) bool {
		if i >= len(m.rows) || n != m.rows[i].Name || string(q) != m.rows[i].Seq || cm != m.rows[i].Comment {
			ok = false
		}
		i++
		return false
	})
	return ok && i == len(m.rows)
}

// observe reads the container through every access path and compares with the model.
// cls (optional) names the kind of disagreement of a row (stable text, no data).
func observe(c *mon.Case, op string, sb align.SeqBag, m *model, cls func(i int, got string) string) bool {
	fail := func(kind, f string, a ...interface{}) bool {
		c.Failf(op+":"+kind, "%s\nexpected rows %s", fmt.Sprintf(f, a...), showRows(m.rows))
		return false
	}
	if sb == nil {
		return fail("nil-container", "container is nil")
	}
	if n := sb.NbSequences(); n != len(m.rows) {
		return fail("row-count", "NbSequences()=%d, expected %d", n, len(m.rows))
	}
	var all []mrow
	sb.IterateAll(func(n string, q []uint8, cm string) bool {
		all = append(all, mrow{n, string(q), cm})
		return false
	})
	if len(all) != len(m.rows) {
		return fail("row-count", "IterateAll visits %d rows, expected %d", len(all), len(m.rows))
	}
	for i, e := range m.rows {
		if all[i].Name != e.Name {
			return fail("names-or-order", "row %d is named %q, expected %q", i, all[i].Name, e.Name)
		}
	}
	for i, e := range m.rows {
		if all[i].Seq != e.Seq {
			kind := "row-content"
			if len(all[i].Seq) != len(e.Seq) {
				kind = "row-length"
			} else if cls != nil {
				kind = cls(i, all[i].Seq)
			}
			return fail(kind, "row %d (%q): expected %q, observed %q", i, e.Name, e.Seq, all[i].Seq)
		}
		if all[i].Comment != e.Comment {
			return fail("comment", "row %d (%q): comment %q, expected %q", i, e.Name, all[i].Comment, e.Comment)
		}
	}
	// the other access paths must tell the same story
	path := func(p string, i int, got, want string) bool {
		return fail("access-path", "%s of row %d: %q, IterateAll/model say %q", p, i, got, want)
	}
	it := h.Snap(sb)
	if len(it) != len(m.rows) {
		return fail("access-path", "Iterate visits %d rows", len(it))
	}
	var itc []string
	sb.IterateChar(func(n string, q []uint8) bool { itc = append(itc, string(q)); return false })
	if len(itc) != len(m.rows) {
		return fail("access-path", "IterateChar visits %d rows", len(itc))
	}
	seqs := sb.Sequences()
	if len(seqs) != len(m.rows) {
		return fail("access-path", "Sequences() has %d entries", len(seqs))
	}
	for i, e := range m.rows {
		if it[i].Name != e.Name || it[i].Seq != e.Seq {
			return path("Iterate", i, it[i].Seq, e.Seq)
		}
		if itc[i] != e.Seq {
			return path("IterateChar", i, itc[i], e.Seq)
		}
		if seqs[i] == nil || seqs[i].Sequence() != e.Seq || seqs[i].Name() != e.Name {
			return path("Sequences()", i, "?", e.Seq)
		}
		if s, ok := sb.GetSequenceById(i); !ok || s != e.Seq {
			return path("GetSequenceById", i, s, e.Seq)
		}
		if s, ok := sb.GetSequenceCharById(i); !ok || string(s) != e.Seq {
			return path("GetSequenceCharById", i, string(s), e.Seq)
		}
		if s, ok := sb.GetSequenceNameById(i); !ok || s != e.Name {
			return path("GetSequenceNameById", i, s, e.Name)
		}
		q, ok := sb.Sequence(i)
		if !ok || q == nil {
			return path("Sequence(i)", i, "<missing>", e.Seq)
		}
		if q.Sequence() != e.Seq || string(q.SequenceChar()) != e.Seq || q.Name() != e.Name || q.Comment() != e.Comment || q.Length() != len(e.Seq) {
			return path("Sequence(i)", i, q.Sequence(), e.Seq)
		}
		for k := 0; k < len(e.Seq); k += 1 + len(e.Seq)/3 {
			if q.CharAt(k) != e.Seq[k] {
				return path("Sequence(i).CharAt", i, string(q.CharAt(k)), e.Seq[k:k+1])
			}
		}
		if s, ok := sb.GetSequence(e.Name); !ok || s != e.Seq {
			return path("GetSequence(name)", i, s, e.Seq)
		}
		if s, ok := sb.GetSequenceChar(e.Name); !ok || string(s) != e.Seq {
			return path("GetSequenceChar(name)", i, string(s), e.Seq)
		}
		if q, ok := sb.SequenceByName(e.Name); !ok || q == nil || q.Sequence() != e.Seq || q.Name() != e.Name {
			return path("SequenceByName", i, "?", e.Seq)
		}
		if q, ok := sb.GetSequenceByName(e.Name); !ok || q == nil || q.Sequence() != e.Seq {
			return path("GetSequenceByName", i, "?", e.Seq)
		}
		if id := sb.GetSequenceIdByName(e.Name); id != i {
			return path("GetSequenceIdByName", i, gen.Itoa(id), gen.Itoa(i))
		}
	}
	if a := sb.Alphabet(); a != m.alpha {
		return fail("alphabet-changed", "Alphabet()=%d, expected %d", a, m.alpha)
	}
	if al, ok := sb.(align.Alignment); ok && len(m.rows) > 0 {
		if L := al.Length(); L != len(m.rows[0].Seq) {
			return fail("alignment-length", "Length()=%d, rows have %d residues", L, len(m.rows[0].Seq))
		}
	}
	if p := h.Invariants(sb); len(p) > 0 {
		return fail("invariant-hook", "%s", strings.Join(p, "; "))
	}
	return true
}

// rcKind names how an observed row relates to the row before a reverse-complement.
func rcKind(before, got string) string {
	if got == before {
		return "unchanged"
	}
	if got == refReverse(before) {
		return "only-reversed"
	}
	if cp, ok := refComplement(before); ok && got == cp {
		return "only-complemented"
	}
	if rc, ok := refRC(before); ok {
		d := 0
		for i := 0; i < len(got) && i < len(rc); i++ {
			if got[i] != rc[i] {
				d++
			}
		}
		if d > 0 && refLower(got) == refLower(rc) {
			return "case-not-preserved"
		}
		if sortBytes(got) == sortBytes(rc) {
			return "wrong-order"
		}
		return "wrong-residue"
	}
	return "wrong"
}

func sortBytes(s string) string {
	b := []byte(s)
	sort.Slice(b, func(i, j int) bool { return b[i] < b[j] })
	return string(b)
}

// ---------------------------------------------------------------- generators

var ntMixes = []string{
	dna33, dna33, dnaUpper + dnaLower, "ACGT", "ACGTacgt", "RYSWKMBDHVN", "ryswkmbdhvn",
	"ACGTN-----.*", "ACGTacgtNn--", "KMkm", "BVbv", "DHdh", "RYry", "SWNswn-.*", "AT", "CG", "ACGTRYKMBVDHacgtrykmbvdh-",
}

var alignedLens = []int{0, 1, 1, 2, 2, 3, 3, 4, 5, 6, 7, 8, 9, 10, 11, 12, 15, 16, 17, 20, 31, 32, 33, 50, 63, 64, 65, 69, 70}

func ntRow(r *gen.Rand, L int, mix string, prev []mrow) string {
	if r.Chance(0.12) {
		mix = ntMixes[r.Intn(len(ntMixes))]
	}
	switch r.Intn(14) {
	case 0: // its own reverse complement
		x := r.Str(L/2, mix)
		s := x
		if L%2 == 1 {
			s += r.Str(1, "SWNswn-.*")
		}
		return s + mustRC(x)
	case 1:
		return strings.Repeat("-", L)
	case 2:
		if len(prev) > 0 && len(prev[len(prev)-1].Seq) == L {
			return prev[len(prev)-1].Seq
		}
	case 3:
		if len(prev) > 0 && len(prev[len(prev)-1].Seq) == L {
			return refReverse(prev[len(prev)-1].Seq)
		}
	case 4: // gap runs at the ends
		b := r.Bytes(L, mix)
		for i, k := 0, r.Range(0, L/3); i < k; i++ {
			b[i] = '-'
		}
		for i, k := 0, r.Range(0, L/3); i < k; i++ {
			b[L-1-i] = '-'
		}
		return string(b)
	}
	return r.Str(L, mix)
}

func genNames(r *gen.Rand, n int, simple bool) []string {
	if simple {
		out := make([]string, n)
		for i := range out {
			out[i] = "s" + gen.Itoa(i)
		}
		return out
	}
	return gen.UniqueNames(r, n, true)
}

// genNt: random nucleotide model over the 33 symbol DNA alphabet of the property.
func genNt(r *gen.Rand, aligned bool) *model {
	m := &model{alpha: NT, aligned: aligned}
	n := r.Range(1, 8)
	if r.Chance(0.03) {
		n = 0
	}
	names := genNames(r, n, r.Chance(0.4))
	mix := ntMixes[r.Intn(len(ntMixes))]
	L := r.Range(0, 70)
	if r.Chance(0.6) {
		L = r.PickInt(alignedLens)
	}
	withComments := r.Chance(0.3)
	for i := 0; i < n; i++ {
		l := L
		if !aligned {
			switch r.Intn(5) {
			case 0:
				l = 0
			case 1:
				l = 1
			case 2:
				l = r.PickInt(alignedLens)
			default:
				l = r.Range(0, 70)
			}
		}
		row := mrow{Name: names[i], Seq: ntRow(r, l, mix, m.rows)}
		if withComments && r.Bool() {
			row.Comment = "comment " + gen.Itoa(i)
		}
		m.rows = append(m.rows, row)
	}
	return m
}

const asciiPrintable = " !\"#$%&'()*+,-./0123456789:;<=>?@ABCDEFGHIJKLMNOPQRSTUVWXYZ[\\]^_`abcdefghijklmnopqrstuvwxyz{|}~"

// genAny: sequence sets for the case / un-align transforms: nt, aa, printable ASCII.
func genAny(r *gen.Rand, aligned bool) (*model, string) {
	kind := r.PickStr([]string{"nt", "nt", "aa", "aa", "ascii", "letters"})
	if kind == "nt" {
		return genNt(r, aligned), kind
	}
	m := &model{alpha: align.AMINOACIDS, aligned: aligned}
	var mix string
	switch kind {
	case "aa":
		mix = r.PickStr([]string{gen.AaAll + "-*", gen.AaCore + "-", gen.AaLower + "---", gen.AaCore + gen.AaLower + "XxBbZz*-.-"})
	case "ascii":
		mix = r.PickStr([]string{asciiPrintable, "@AZ[`az{-", asciiPrintable + "------"})
		m.alpha = align.UNKNOWN
	case "letters":
		mix = "ABCDEFGHIJKLMNOPQRSTUVWXYZabcdefghijklmnopqrstuvwxyz-"
		m.alpha = align.UNKNOWN
	}
	n := r.Range(1, 8)
	if r.Chance(0.03) {
		n = 0
	}
	names := genNames(r, n, r.Chance(0.4))
	L := r.Range(0, 70)
	if r.Chance(0.5) {
		L = r.PickInt(alignedLens)
	}
	for i := 0; i < n; i++ {
		l := L
		if !aligned {
			switch r.Intn(4) {
			case 0:
				l = 0
			case 1:
				l = 1
			default:
				l = r.Range(0, 70)
			}
		}
		var s string
		switch r.Intn(8) {
		case 0:
			s = strings.Repeat("-", l)
		case 1:
			b := r.Bytes(l, mix)
			for k := range b {
				if r.Chance(0.5) {
					b[k] = '-'
				}
			}
			s = string(b)
		default:
			s = r.Str(l, mix)
		}
		row := mrow{Name: names[i], Seq: s}
		if r.Chance(0.2) {
			row.Comment = "c" + gen.Itoa(i)
		}
		m.rows = append(m.rows, row)
	}
	return m, kind
}

func inputOf(m *model, extra map[string]interface{}) map[string]interface{} {
	rows := make([]mrow, len(m.rows)) // a copy: the model is transformed while the case runs
	copy(rows, m.rows)
	in := map[string]interface{}{"rows": rows, "aligned": m.aligned, "alphabet": m.alpha}
	for k, v := range extra {
		in[k] = v
	}
	return in
}

func regNonTrivial(c *mon.Case, m *model, parts ...string) {
	for _, r := range m.rows {
		if hasAmbiguity(r.Seq) || mixedCase(r.Seq) {
			c.NonTrivial(append([]string{m.key()}, parts...)...)
			return
		}
	}
}

func countShape(c *mon.Case, prefix string, m *model) {
	if m.aligned {
		c.Count(prefix + ":alignment")
	} else {
		c.Count(prefix + ":seqbag")
	}
	for _, r := range m.rows {
		switch {
		case len(r.Seq) == 0:
			c.Count(prefix + ":rowlen:0")
		case len(r.Seq) == 1:
			c.Count(prefix + ":rowlen:1")
		case len(r.Seq)%2 == 0:
			c.Count(prefix + ":rowlen:even")
		default:
			c.Count(prefix + ":rowlen:odd")
		}
	}
	if len(m.rows) == 0 {
		c.Count(prefix + ":no-rows")
	}
}

func countSymbols(c *mon.Case, m *model) {
	var seen [256]bool
	for _, r := range m.rows {
		for i := 0; i < len(r.Seq); i++ {
			seen[r.Seq[i]] = true
		}
	}
	for i := 0; i < len(dna33); i++ {
		if seen[dna33[i]] {
			c.Count("sym:" + dna33[i:i+1])
		}
	}
}

// ---------------------------------------------------------------- sub: rc

func runRC(c *mon.Case) {
	r := c.R
	m := genNt(r, r.Bool())
	sb, src, mode := build(c, m, r.PickStr(buildModes))
	c.Input(inputOf(m, map[string]interface{}{"op": "ReverseComplement x2", "build": mode}))
	if !observe(c, "harness-setup", sb, m, nil) {
		return
	}
	before := m.clone()
	c.Count("build:" + mode)
	if m.alpha != NT { // cannot happen with DNA content; kept so that the oracle never assumes AutoAlphabet's answer
		c.Count("rc:auto-alphabet-not-nt")
		if err := sb.ReverseComplement(); err == nil {
			c.Failf("ReverseComplement:no-error-for-non-nucleotide-alphabet", "alphabet %d, rows %s", m.alpha, showRows(m.rows))
		}
		observe(c, "ReverseComplement(non-nt)", sb, m, nil)
		return
	}
	if err := sb.ReverseComplement(); err != nil {
		c.Failf("ReverseComplement:unexpected-error", "%v on %s", err, showRows(before.rows))
		return
	}
	m.mapRows(mustRC)
	c.Count("op:ReverseComplement")
	countShape(c, "rc", before)
	countSymbols(c, before)
	if !observe(c, "ReverseComplement", sb, m, func(i int, got string) string { return rcKind(before.rows[i].Seq, got) }) {
		return
	}
	if err := sb.ReverseComplement(); err != nil {
		c.Failf("ReverseComplement:unexpected-error", "second call: %v", err)
		return
	}
	c.Count("op:ReverseComplement-twice")
	if !observe(c, "ReverseComplement-twice", sb, before, func(i int, got string) string { return "not-restored" }) {
		return
	}
	if src != nil && !observe(c, "ReverseComplement:clone-source", src, before, func(i int, got string) string { return "source-of-clone-changed" }) {
		return
	}
	regNonTrivial(c, before, "rc")
	c.Note("rows after one call: %s", showRows(m.rows))
}

// ---------------------------------------------------------------- sub: rcsub

var subsetShapes = []string{"none", "one", "first", "last", "all", "all-shuffled", "some", "unknown-only", "some+unknown", "twice", "thrice", "all-twice", "near-miss-names", "one+one-twice"}

// pickSubset returns the argument list of one shape.
func pickSubset(r *gen.Rand, m *model, shape string) []string {
	n := len(m.rows)
	names := make([]string, n)
	for i, x := range m.rows {
		names[i] = x.Name
	}
	unknown := func() string {
		for {
			u := r.PickStr([]string{"nope", "", "unknown_" + gen.Itoa(r.Intn(100)), "S0", "s00", " s0", "s0 ", "s1_0001"})
			if m.index(u) < 0 {
				return u
			}
		}
	}
	if n == 0 {
		if shape == "none" {
			return nil
		}
		return []string{unknown()}
	}
	switch shape {
	case "none":
		return nil
	case "one":
		return []string{names[r.Intn(n)]}
	case "first":
		return []string{names[0]}
	case "last":
		return []string{names[n-1]}
	case "all":
		return names
	case "all-shuffled":
		out := make([]string, n)
		for i, p := range r.Perm(n) {
			out[i] = names[p]
		}
		return out
	case "some":
		var out []string
		for _, p := range r.Perm(n)[:r.Range(1, n)] {
			out = append(out, names[p])
		}
		return out
	case "unknown-only":
		return []string{unknown(), unknown()}[:r.Range(1, 2)]
	case "some+unknown":
		out := []string{unknown()}
		for _, p := range r.Perm(n)[:r.Range(1, n)] {
			out = append(out, names[p])
			if r.Chance(0.3) {
				out = append(out, unknown())
			}
		}
		return out
	case "twice":
		x := names[r.Intn(n)]
		out := []string{x}
		if r.Bool() && n > 1 {
			out = append(out, names[r.Intn(n)])
		}
		return append(out, x)
	case "thrice":
		x := names[r.Intn(n)]
		return []string{x, x, x}
	case "all-twice":
		return append(append([]string{}, names...), names...)
	case "near-miss-names":
		x := names[r.Intn(n)]
		var out []string
		for _, u := range []string{x + " ", " " + x, strings.ToUpper(x), strings.ToLower(x), x + "_0001", x[:len(x)-1]} {
			if m.index(u) < 0 {
				out = append(out, u)
			}
		}
		return out
	case "one+one-twice":
		a, b := names[r.Intn(n)], names[r.Intn(n)]
		return []string{b, a, b}
	}
	panic("harness: shape")
}

func runRCSub(c *mon.Case) {
	r := c.R
	m := genNt(r, r.Chance(0.6))
	var sb, src align.SeqBag
	var mode string
	if len(m.rows) >= 2 && r.Chance(0.1) {
		// the input gives one name twice: the second row is stored under <name>_0001 (documented renaming) and the
		// two rows are addressed by their two names
		i := r.Intn(len(m.rows) - 1)
		j := r.Range(i+1, len(m.rows)-1)
		renamed := m.rows[i].Name + "_0001"
		if m.index(renamed) < 0 && strings.Count(showNames(m), m.rows[i].Name) >= 1 {
			sb = newContainer(m.aligned, NT)
			ok := true
			for k, row := range m.rows {
				nm := row.Name
				if k == j {
					nm = m.rows[i].Name
				}
				if err := sb.AddSequence(nm, row.Seq, row.Comment); err != nil {
					ok = false
				}
			}
			if ok {
				m.rows[j].Name = renamed
				m.alpha = sb.Alphabet()
				mode = "name-given-twice"
				c.Count("rcsub:name-given-twice")
			} else {
				sb = nil
			}
		}
	}
	if sb == nil {
		sb, src, mode = build(c, m, r.PickStr(buildModes))
	}
	shape := subsetShapes[c.Idx%len(subsetShapes)]
	args := pickSubset(r, m, shape)
	c.Input(inputOf(m, map[string]interface{}{"op": "ReverseComplementSequences", "names": args, "shape": shape, "build": mode}))
	if !observe(c, "harness-setup", sb, m, nil) {
		return
	}
	if m.alpha != NT {
		c.Count("rcsub:auto-alphabet-not-nt")
		return
	}
	before := m.clone()
	mult := map[string]int{}
	for _, a := range args {
		mult[a]++
	}
	named := map[int]bool{}
	repeated := false
	for a, k := range mult {
		if i := m.index(a); i >= 0 {
			named[i] = true
			m.rows[i].Seq = mustRC(m.rows[i].Seq)
			if k > 1 {
				repeated = true
			}
		}
	}
	if err := sb.ReverseComplementSequences(args...); err != nil {
		c.Failf("ReverseComplementSequences:unexpected-error", "%v names=%q rows=%s", err, args, showRows(before.rows))
		return
	}
	c.Count("op:ReverseComplementSequences")
	c.Count("subset:" + shape)
	countShape(c, "rcsub", before)
	if len(named) > 0 && len(named) < len(m.rows) {
		c.Count("subset:proper-non-empty")
	}
	cls := func(i int, got string) string {
		if !named[i] {
			return "other-row-changed"
		}
		if mult[m.rows[i].Name] > 1 {
			return "row-named-more-than-once-" + rcKind(before.rows[i].Seq, got)
		}
		return "named-row-" + rcKind(before.rows[i].Seq, got)
	}
	if !observe(c, "ReverseComplementSequences", sb, m, cls) {
		return
	}
	// undo: the same subset, every name once, another order
	var once []string
	for i := range m.rows {
		if named[i] {
			once = append(once, m.rows[i].Name)
		}
	}
	for i, j := 0, len(once)-1; i < j; i, j = i+1, j-1 {
		once[i], once[j] = once[j], once[i]
	}
	if err := sb.ReverseComplementSequences(once...); err != nil {
		c.Failf("ReverseComplementSequences:unexpected-error", "undo: %v", err)
		return
	}
	if !observe(c, "ReverseComplementSequences-twice", sb, before, func(i int, got string) string { return "not-restored" }) {
		return
	}
	// whole container vs all names: both routes must agree
	if r.Chance(0.3) && len(m.rows) > 0 {
		if err := sb.ReverseComplement(); err != nil {
			c.Failf("ReverseComplement:unexpected-error", "%v", err)
			return
		}
		all := make([]string, 0, len(m.rows))
		for _, p := range r.Perm(len(m.rows)) {
			all = append(all, m.rows[p].Name)
		}
		if err := sb.ReverseComplementSequences(all...); err != nil {
			c.Failf("ReverseComplementSequences:unexpected-error", "%v", err)
			return
		}
		c.Count("op:whole-then-all-names")
		if !observe(c, "ReverseComplement+ReverseComplementSequences(all)", sb, before, func(i int, got string) string { return "not-restored" }) {
			return
		}
	}
	if src != nil && !observe(c, "ReverseComplementSequences:clone-source", src, before, func(i int, got string) string { return "source-of-clone-changed" }) {
		return
	}
	if repeated {
		c.Count("subset:with-repeated-name")
	}
	regNonTrivial(c, before, "rcsub", strings.Join(args, "\x00"))
	c.Note("names=%q rows after: %s", args, showRows(m.rows))
}

// ---------------------------------------------------------------- sub: rcerr (non nucleotide alphabet => error, nothing changes)

func runRCErr(c *mon.Case) {
	r := c.R
	aligned := r.Bool()
	var m *model
	content := "dna"
	if r.Chance(0.5) {
		m = genNt(r, aligned)
	} else {
		content = "protein"
		m = &model{aligned: aligned}
		n := r.Range(1, 6)
		names := genNames(r, n, false)
		L := r.Range(1, 40)
		for i := 0; i < n; i++ {
			l := L
			if !aligned {
				l = r.Range(0, 40)
			}
			m.rows = append(m.rows, mrow{Name: names[i], Seq: r.Str(l, gen.AaCore+gen.AaLower+"-*")})
		}
	}
	m.alpha = r.PickInt([]int{align.AMINOACIDS, align.UNKNOWN})
	sb, _, _ := build(c, m, r.PickStr([]string{"add", "addchar", "clone"}))
	op := r.PickStr([]string{"ReverseComplement", "ReverseComplementSequences"})
	var args []string
	if op == "ReverseComplementSequences" {
		args = pickSubset(r, m, r.PickStr([]string{"one", "all", "some", "some+unknown", "unknown-only", "none"}))
	}
	c.Input(inputOf(m, map[string]interface{}{"op": op, "names": args, "content": content}))
	if !observe(c, "harness-setup", sb, m, nil) {
		return
	}
	var err error
	if op == "ReverseComplement" {
		err = sb.ReverseComplement()
	} else {
		err = sb.ReverseComplementSequences(args...)
	}
	c.Count("rcerr:" + op)
	c.Count(fmt.Sprintf("rcerr:alphabet:%d", m.alpha))
	c.Count("rcerr:content:" + content)
	if err == nil {
		c.Failf(op+":no-error-for-non-nucleotide-alphabet", "alphabet %d (%s), names=%q, rows %s", m.alpha, sb.AlphabetStr(), args, showRows(m.rows))
	}
	observe(c, op+"(non-nt-alphabet)", sb, m, func(i int, got string) string { return "changed-despite-error" })
	c.NonTrivial(m.key(), op, gen.Itoa(m.alpha))
}

// ---------------------------------------------------------------- sub: seqfn (Sequence.Reverse/Complement, align.Reverse/Complement)

func checkSeqFns(c *mon.Case, s string, tag string) {
	exact := inDNA(s)
	rev := refReverse(s)
	// package level
	b := []byte(s)
	align.Reverse(b)
	c.Count("op:align.Reverse")
	if string(b) != rev {
		c.Failf("align.Reverse:wrong", "%s Reverse(%q)=%q, expected %q", tag, s, b, rev)
		return
	}
	align.Reverse(b)
	if string(b) != s {
		c.Failf("align.Reverse:twice-not-restored", "%s %q -> %q", tag, s, b)
		return
	}
	b = []byte(s)
	err := align.Complement(b)
	c.Count("op:align.Complement")
	if !exact {
		c.Count("outside-quantifier:U-or-other")
		if len(b) != len(s) {
			c.Failf("align.Complement:length-changed", "%s %q -> %q", tag, s, b)
		}
		sq := align.NewSequence("u", []byte(s), "")
		sq.Complement()
		sq.Reverse()
		if sq.Length() != len(s) {
			c.Failf("Sequence.Complement:length-changed", "%s %q -> %q", tag, s, sq.Sequence())
		}
		return
	}
	cp, _ := refComplement(s)
	rc := refReverse(cp)
	if err != nil {
		c.Failf("align.Complement:unexpected-error", "%s Complement(%q): %v", tag, s, err)
		return
	}
	if string(b) != cp {
		c.Failf("align.Complement:wrong", "%s Complement(%q)=%q, expected %q", tag, s, b, cp)
		return
	}
	if err = align.Complement(b); err != nil || string(b) != s {
		c.Failf("align.Complement:twice-not-restored", "%s %q -> %q (%v)", tag, s, b, err)
		return
	}
	// Sequence methods, both orders
	for order := 0; order < 2; order++ {
		sq := align.NewSequence("nm", []byte(s), "cmt")
		var e1 error
		if order == 0 {
			e1 = sq.Complement()
			if e1 == nil && sq.Sequence() != cp {
				c.Failf("Sequence.Complement:wrong", "%s (%q).Complement()=%q, expected %q", tag, s, sq.Sequence(), cp)
				return
			}
			sq.Reverse()
		} else {
			sq.Reverse()
			if sq.Sequence() != rev {
				c.Failf("Sequence.Reverse:wrong", "%s (%q).Reverse()=%q, expected %q", tag, s, sq.Sequence(), rev)
				return
			}
			e1 = sq.Complement()
		}
		if e1 != nil {
			c.Failf("Sequence.Complement:unexpected-error", "%s (%q).Complement(): %v", tag, s, e1)
			return
		}
		if sq.Sequence() != rc {
			c.Failf("Sequence.Reverse+Complement:wrong", "%s order %d: %q -> %q, expected %q", tag, order, s, sq.Sequence(), rc)
			return
		}
		if sq.Name() != "nm" || sq.Comment() != "cmt" || sq.Length() != len(s) {
			c.Failf("Sequence.Reverse+Complement:name-comment-length", "%s %q: name %q comment %q length %d", tag, s, sq.Name(), sq.Comment(), sq.Length())
			return
		}
		sq.Reverse()
		if err := sq.Complement(); err != nil || sq.Sequence() != s {
			c.Failf("Sequence.Reverse+Complement:twice-not-restored", "%s %q -> %q (%v)", tag, s, sq.Sequence(), err)
			return
		}
	}
	c.Count("op:Sequence.Reverse")
	c.Count("op:Sequence.Complement")
}

func runSeqFn(c *mon.Case) {
	r := c.R
	if c.Idx%10 == 9 { // not a nucleotide sequence: Complement must refuse and leave it alone
		s := r.Str(r.Range(0, 30), gen.AaCore+gen.AaLower+"-") + r.Str(1, "EQILFPZeqilfpz") + r.Str(r.Range(0, 30), gen.AaCore+"-*")
		c.Input(map[string]interface{}{"seq": s, "op": "Sequence.Complement on protein"})
		sq := align.NewSequence("p", []byte(s), "k")
		err := sq.Complement()
		c.Count("seqfn:protein")
		if err == nil {
			c.Failf("Sequence.Complement:no-error-for-protein", "(%q).Complement() returned nil, sequence now %q", s, sq.Sequence())
		} else if sq.Sequence() != s {
			c.Failf("Sequence.Complement:changed-despite-error", "%q -> %q (%v)", s, sq.Sequence(), err)
		}
		c.NonTrivial(s, "protein")
		return
	}
	L := r.Range(0, 70)
	switch r.Intn(4) {
	case 0:
		L = r.PickInt(alignedLens)
	case 1:
		L = r.PickInt([]int{99, 100, 101, 127, 128, 129, 255, 256, 257, 300})
	}
	s := ntRow(r, L, ntMixes[r.Intn(len(ntMixes))], nil)
	c.Input(map[string]interface{}{"seq": s, "op": "Reverse/Complement"})
	checkSeqFns(c, s, "random")
	c.Count("seqfn:len-parity:" + gen.Itoa(len(s)%2))
	if hasAmbiguity(s) || mixedCase(s) {
		c.NonTrivial(s)
	}
}

// ---------------------------------------------------------------- sub: case

func runCase(c *mon.Case) {
	r := c.R
	m, kind := genAny(r, r.Bool())
	mode := r.PickStr([]string{"add", "addchar", "clone", "add"})
	if kind == "nt" {
		mode = r.PickStr(buildModes)
	}
	sb, src, mode := build(c, m, mode)
	start := r.PickStr([]string{"upper", "lower"})
	c.Input(inputOf(m, map[string]interface{}{"op": "ToUpper/ToLower", "first": start, "kind": kind, "build": mode}))
	if !observe(c, "harness-setup", sb, m, nil) {
		return
	}
	before := m.clone()
	apply := func(op string) bool {
		if op == "upper" {
			sb.ToUpper()
			m.mapRows(refUpper)
			c.Count("op:ToUpper")
			return observe(c, "ToUpper", sb, m, nil)
		}
		sb.ToLower()
		m.mapRows(refLower)
		c.Count("op:ToLower")
		return observe(c, "ToLower", sb, m, nil)
	}
	other := "lower"
	if start == "lower" {
		other = "upper"
	}
	if !apply(start) {
		return
	}
	once := m.clone()
	if !apply(start) { // idempotent
		return
	}
	if !eqModels(once, m) {
		panic("harness: case oracle is not idempotent")
	}
	if !apply(other) || !apply(other) || !apply(start) {
		return
	}
	// start o other o start == start (stated through the model: m must equal 'once' again)
	if !eqModels(once, m) {
		panic("harness: case oracle: upper.lower.upper != upper")
	}
	if src != nil && !observe(c, "ToUpper/ToLower:clone-source", src, before, func(i int, got string) string { return "source-of-clone-changed" }) {
		return
	}
	c.Count("case:kind:" + kind)
	countShape(c, "case", before)
	for _, x := range before.rows {
		if mixedCase(x.Seq) {
			c.NonTrivial(before.key(), start)
			c.Count("case:mixed-case-input")
			break
		}
	}
	// bytes >= 0x80 are not letters of any sequence alphabet: only "does not crash, keeps the length"
	if c.Idx%50 == 0 {
		hb := newContainer(false, align.UNKNOWN)
		raw := []byte{0x80, 0xb5, 0xc9, 0xe9, 0xff, 'a', 'Z'}
		hb.AddSequenceChar("hi", append([]byte{}, raw...), "")
		hb.ToUpper()
		hb.ToLower()
		if s, _ := hb.GetSequenceById(0); len(s) != len(raw) {
			c.Failf("ToUpper/ToLower:length-changed", "bytes %v -> %v", raw, []byte(s))
		}
		c.Count("outside-quantifier:bytes>=0x80")
	}
	c.Note("after %s,%s,%s,%s,%s: %s", start, start, other, other, start, showRows(m.rows))
}

// ---------------------------------------------------------------- sub: unalign

func parseFastaRecords(txt string) (names, seqs []string) {
	for _, l := range strings.Split(txt, "\n") {
		if strings.HasPrefix(l, ">") {
			names = append(names, l[1:])
			seqs = append(seqs, "")
		} else if len(seqs) > 0 {
			seqs[len(seqs)-1] += l
		}
	}
	return
}

func runUnalign(c *mon.Case) {
	r := c.R
	m, kind := genAny(r, r.Chance(0.7))
	mode := r.PickStr([]string{"add", "addchar", "clone", "add"})
	if kind == "nt" {
		mode = r.PickStr(buildModes)
	}
	sb, _, mode := build(c, m, mode)
	c.Input(inputOf(m, map[string]interface{}{"op": "Unalign", "kind": kind, "build": mode}))
	if !observe(c, "harness-setup", sb, m, nil) {
		return
	}
	before := m.clone()
	un := sb.Unalign()
	c.Count("op:Unalign")
	c.Count("unalign:kind:" + kind)
	countShape(c, "unalign", before)
	um := m.clone()
	um.aligned = false
	um.mapRows(refUngap)
	gaps, allgap := 0, 0
	for _, x := range before.rows {
		g := strings.Count(x.Seq, "-")
		gaps += g
		if g == len(x.Seq) && g > 0 {
			allgap++
		}
	}
	if gaps > 0 {
		c.Count("unalign:with-gaps")
	}
	if allgap > 0 {
		c.Count("unalign:all-gap-row")
	}
	if un == nil {
		c.Failf("Unalign:nil", "Unalign returned nil")
		return
	}
	um.alpha = un.Alphabet() // the statement does not speak about the alphabet tag of the result (checked below only through "a nucleotide set can still be reverse-complemented")
	cls := func(i int, got string) string {
		if got == before.rows[i].Seq {
			return "gaps-not-removed"
		}
		if strings.Contains(got, "-") {
			return "gap-left"
		}
		return "residues-changed"
	}
	unObs := func(i int, got string) string {
		k := cls(i, got)
		if len(got) < len(um.rows[i].Seq) {
			k = "non-gap-removed"
		}
		return k
	}
	// row-length differences are the whole point here: classify through the content classifier
	okRows := true
	{
		j := 0
		un.IterateAll(func(n string, q []uint8, cm string) bool {
			if j < len(um.rows) && string(q) != um.rows[j].Seq && okRows {
				okRows = false
				c.Failf("Unalign:"+unObs(j, string(q)), "row %d (%q): %q -> %q, expected %q", j, n, before.rows[j].Seq, q, um.rows[j].Seq)
			}
			j++
			return false
		})
	}
	if !okRows || !observe(c, "Unalign", un, um, nil) {
		return
	}
	if !observe(c, "Unalign:receiver", sb, before, func(i int, got string) string { return "receiver-changed" }) {
		return
	}
	if _, isAl := un.(align.Alignment); isAl {
		c.Count("unalign:result-is-alignment")
	}
	// idempotent
	un2 := un.Unalign()
	um2 := um.clone()
	if un2 != nil {
		um2.alpha = un2.Alphabet()
	}
	if !observe(c, "Unalign-twice", un2, um2, nil) {
		return
	}
	// FASTA "sequences" writer documented as the un-aligned output (docs/api/unalign.md): same content
	simple := true
	for _, x := range before.rows {
		if strings.ContainsAny(x.Name, "\r\n") || strings.ContainsAny(x.Seq, ">\r\n") {
			simple = false
		}
	}
	if simple {
		ns, ss := parseFastaRecords(fasta.WriteSequences(sb))
		c.Count("op:fasta.WriteSequences")
		if len(ns) != len(um.rows) {
			c.Failf("WriteSequences:row-count", "%d records for %d rows", len(ns), len(um.rows))
			return
		}
		for i := range ns {
			if ns[i] != um.rows[i].Name || ss[i] != um.rows[i].Seq {
				c.Failf("WriteSequences:content", "record %d: %q %q, expected %q %q", i, ns[i], ss[i], um.rows[i].Name, um.rows[i].Seq)
				return
			}
		}
	}
	// result and receiver are independent containers
	un.ToLower()
	if !observe(c, "Unalign:receiver-after-ToLower(result)", sb, before, func(i int, got string) string { return "receiver-aliased" }) {
		return
	}
	sb.ToUpper()
	lowered := um.clone()
	lowered.mapRows(refLower)
	if !observe(c, "Unalign:result-after-ToUpper(receiver)", un, lowered, func(i int, got string) string { return "result-aliased" }) {
		return
	}
	upperBefore := before.clone()
	upperBefore.mapRows(refUpper)
	// commutation, oracle free: Unalign(ToUpper(a)) == ToUpper(Unalign(a))
	a1 := sb.Unalign() // receiver is upper-cased now
	a2 := un2          // Unalign(original)
	a2.ToUpper()
	if !sameContainers(a1, a2) {
		c.Failf("Unalign/ToUpper:do-not-commute", "Unalign(ToUpper(a))=%s but ToUpper(Unalign(a))=%s", showRows(snapRows(a1)), showRows(snapRows(a2)))
		return
	}
	c.Count("rel:Unalign.ToUpper-commute")
	// nucleotide sets: Unalign(RC(a)) == RC(Unalign(a)), and the result of Unalign can be reverse-complemented
	if before.alpha == NT && before.allDNA() {
		b1, _, _ := build(c, before.clone(), "add")
		b2, _, _ := build(c, before.clone(), "add")
		if err := b1.ReverseComplement(); err != nil {
			c.Failf("ReverseComplement:unexpected-error", "%v", err)
			return
		}
		u1 := b1.Unalign()
		u2 := b2.Unalign()
		if err := u2.ReverseComplement(); err != nil {
			c.Failf("Unalign+ReverseComplement:unexpected-error", "reverse-complement of the un-aligned nucleotide set: %v (alphabet of the result %d)", err, u2.Alphabet())
			return
		}
		if !sameContainers(u1, u2) {
			c.Failf("Unalign/ReverseComplement:do-not-commute", "Unalign(RC(a))=%s but RC(Unalign(a))=%s", showRows(snapRows(u1)), showRows(snapRows(u2)))
			return
		}
		exp := before.clone()
		exp.aligned = false
		exp.mapRows(func(s string) string { return mustRC(refUngap(s)) })
		exp.alpha = u2.Alphabet()
		if !observe(c, "Unalign+ReverseComplement", u2, exp, nil) {
			return
		}
		c.Count("rel:Unalign.RC-commute")
	}
	if gaps > 0 {
		c.NonTrivial(before.key(), "unalign")
	}
	c.Note("unaligned: %s", showRows(um.rows))
}

func snapRows(sb align.SeqBag) []mrow {
	var all []mrow
	sb.IterateAll(func(n string, q []uint8, cm string) bool {
		all = append(all, mrow{n, string(q), cm})
		return false
	})
	return all
}

func sameContainers(a, b align.SeqBag) bool {
	x, y := snapRows(a), snapRows(b)
	if len(x) != len(y) {
		return false
	}
	for i := range x {
		if x[i] != y[i] {
			return false
		}
	}
	return true
}

// ---------------------------------------------------------------- sub: history

type kept struct {
	sb  align.SeqBag
	m   *model
	why string
}

func runHistory(c *mon.Case) {
	r := c.R
	m := genNt(r, r.Chance(0.6))
	if len(m.rows) == 0 {
		m.rows = append(m.rows, mrow{Name: "only", Seq: "AcgTRy-n."})
		if m.aligned {
			m.rows[0].Seq = "AcgTRy-n."
		}
	}
	sb, src, mode := build(c, m, r.PickStr(buildModes))
	var ops []string
	c.Input(inputOf(m, map[string]interface{}{"build": mode, "ops": &ops}))
	if !observe(c, "harness-setup", sb, m, nil) {
		return
	}
	if m.alpha != NT {
		c.Count("history:auto-alphabet-not-nt")
		return
	}
	start := m.clone()
	var left []kept
	if src != nil {
		left = append(left, kept{src, m.clone(), "source of the clone"})
	}
	nops := r.Range(2, 9)
	netRC := make([]int, len(m.rows)) // parity of reverse / complement applied per row (for the closing relation)
	netRev := make([]int, len(m.rows))
	unaligned := false
	lastCase := ""
	for step := 0; step < nops; step++ {
		prev := m.clone()
		op := r.PickStr([]string{"rc", "rc", "rcs", "rcs", "upper", "lower", "upper", "lower", "unalign", "clone", "seq.reverse", "seq.complement", "seq.rc-byname", "setalphabet-refused"})
		label := op
		cls := func(i int, got string) string { return rcKind(prev.rows[i].Seq, got) }
		switch op {
		case "rc":
			if err := sb.ReverseComplement(); err != nil {
				c.Failf("history:ReverseComplement:unexpected-error", "step %d after %v: %v", step, ops, err)
				return
			}
			m.mapRows(mustRC)
			for i := range netRC {
				netRC[i] ^= 1
				netRev[i] ^= 1
			}
		case "rcs":
			shape := r.PickStr(subsetShapes)
			args := pickSubset(r, m, shape)
			label = fmt.Sprintf("rcs%q", args)
			if err := sb.ReverseComplementSequences(args...); err != nil {
				c.Failf("history:ReverseComplementSequences:unexpected-error", "step %d after %v names %q: %v", step, ops, args, err)
				return
			}
			seen := map[string]bool{}
			named := map[int]bool{}
			for _, a := range args {
				if i := m.index(a); i >= 0 && !seen[a] {
					seen[a] = true
					named[i] = true
					m.rows[i].Seq = mustRC(m.rows[i].Seq)
					netRC[i] ^= 1
					netRev[i] ^= 1
				}
			}
			mult := map[string]int{}
			for _, a := range args {
				mult[a]++
			}
			cls = func(i int, got string) string {
				if !named[i] {
					return "other-row-changed"
				}
				if mult[m.rows[i].Name] > 1 {
					return "row-named-more-than-once-" + rcKind(prev.rows[i].Seq, got)
				}
				return "named-row-" + rcKind(prev.rows[i].Seq, got)
			}
			op = "ReverseComplementSequences"
		case "setalphabet-refused":
			// a request the container refuses (the "auto" / unknown codes, a number that is no alphabet) changes nothing:
			// the transforms that follow see the nucleotide alignment they saw before
			v := r.PickInt([]int{align.BOTH, align.UNKNOWN, 99, -1})
			before := sb.Alphabet()
			err := sb.SetAlphabet(v)
			if err == nil && sb.Alphabet() != before {
				c.Count("history:SetAlphabet:odd-value-accepted")
				return
			}
			if err != nil && sb.Alphabet() != before {
				c.Failf("history:SetAlphabet:refused-call-changed-the-alphabet", "step %d after %v: SetAlphabet(%d) returned %q and left alphabet %d, it was %d", step, ops, v, err, sb.Alphabet(), before)
				return
			}
			label = fmt.Sprintf("SetAlphabet(%d)=refused", v)
			cls = nil
		case "upper":
			sb.ToUpper()
			m.mapRows(refUpper)
			lastCase = "upper"
			cls = nil
		case "lower":
			sb.ToLower()
			m.mapRows(refLower)
			lastCase = "lower"
			cls = nil
		case "unalign":
			left = append(left, kept{sb, m.clone(), "receiver of Unalign"})
			sb = sb.Unalign()
			if sb == nil {
				c.Failf("history:Unalign:nil", "step %d after %v", step, ops)
				return
			}
			m.mapRows(refUngap)
			m.aligned = false
			unaligned = true
			cls = func(i int, got string) string { return "ungapped-content" }
		case "clone":
			left = append(left, kept{sb, m.clone(), "source of Clone"})
			var err error
			if al, ok := sb.(align.Alignment); ok {
				sb, err = al.Clone()
			} else {
				sb, err = sb.CloneSeqBag()
			}
			if err != nil {
				panic("harness: clone: " + err.Error())
			}
			cls = nil
		case "seq.reverse":
			i := r.Intn(len(m.rows))
			label = "seq.reverse#" + gen.Itoa(i)
			q, ok := sb.Sequence(i)
			if !ok {
				c.Failf("history:Sequence(i):missing", "row %d", i)
				return
			}
			q.Reverse()
			m.rows[i].Seq = refReverse(m.rows[i].Seq)
			netRev[i] ^= 1
		case "seq.complement":
			i := r.Intn(len(m.rows))
			label = "seq.complement#" + gen.Itoa(i)
			q, ok := sb.Sequence(i)
			if !ok {
				c.Failf("history:Sequence(i):missing", "row %d", i)
				return
			}
			if err := q.Complement(); err != nil {
				c.Failf("history:Sequence.Complement:unexpected-error", "step %d after %v row %q: %v", step, ops, m.rows[i].Seq, err)
				return
			}
			m.rows[i].Seq, _ = refComplement(m.rows[i].Seq)
			netRC[i] ^= 1
		case "seq.rc-byname":
			i := r.Intn(len(m.rows))
			label = "seq.rc-byname#" + gen.Itoa(i)
			q, ok := sb.SequenceByName(m.rows[i].Name)
			if !ok {
				c.Failf("history:SequenceByName:missing", "name %q", m.rows[i].Name)
				return
			}
			q.Reverse()
			if err := q.Complement(); err != nil {
				c.Failf("history:Sequence.Complement:unexpected-error", "step %d after %v row %q: %v", step, ops, m.rows[i].Seq, err)
				return
			}
			m.rows[i].Seq = mustRC(m.rows[i].Seq)
			netRC[i] ^= 1
			netRev[i] ^= 1
		}
		ops = append(ops, label)
		c.Count("hist-op:" + op)
		if !observe(c, "history:"+op, sb, m, cls) {
			c.Note("failed at step %d of %v", step, ops)
			return
		}
	}
	c.Count("hist-len:" + gen.Itoa(nops))
	// containers left behind by Unalign / Clone are untouched by what followed
	for _, k := range left {
		if !observe(c, "history:left-behind", k.sb, k.m, func(i int, got string) string { return "changed-by-later-operation-on-copy" }) {
			c.Note("%s changed; ops %v", k.why, ops)
			return
		}
	}
	// closing relation, independent of the step by step model: the final rows follow from the start rows
	// by the net parities (reverse, complement commute and are involutions; case folding commutes with
	// both because the complement preserves case; gap stripping commutes with all of them)
	for i, x := range start.rows {
		e := x.Seq
		if netRev[i] == 1 {
			e = refReverse(e)
		}
		if netRC[i] == 1 {
			e, _ = refComplement(e)
		}
		if unaligned {
			e = refUngap(e)
		}
		got := m.rows[i].Seq
		if refLower(e) != refLower(got) {
			panic(fmt.Sprintf("harness: closing relation does not hold in the model: start %q ops %v expected %q model %q", x.Seq, ops, e, got))
		}
		_ = lastCase
	}
	regNonTrivial(c, start, strings.Join(ops, ","))
	c.Note("ops=%v final=%s", ops, showRows(m.rows))
}

// ---------------------------------------------------------------- sub: exhaust (all singles, ordered pairs, ordered triples over the 35 symbols)

func runExhaust(c *mon.Case) {
	a, b := c.Idx/35, c.Idx%35
	if a >= 35 {
		return
	}
	pair := string([]byte{sym35[a], sym35[b]})
	var seqsAll []string
	if b == 0 {
		seqsAll = append(seqsAll, pair[:1])
		c.Count("exhaust:single")
	}
	seqsAll = append(seqsAll, pair)
	c.Count("exhaust:pair")
	for k := 0; k < 35; k++ {
		seqsAll = append(seqsAll, pair+sym35[k:k+1])
		c.Count("exhaust:triple")
	}
	c.Input(map[string]interface{}{"prefix": pair, "sequences": len(seqsAll)})
	var dna, other []string
	for _, s := range seqsAll {
		checkSeqFns(c, s, "exhaustive")
		if inDNA(s) {
			dna = append(dna, s)
			if hasAmbiguity(s) || mixedCase(s) {
				c.NonTrivial(s)
			}
		} else {
			other = append(other, s)
		}
		if c.Failed() {
			return
		}
	}
	mk := func(seqs []string, aligned bool, alpha int) (*model, align.SeqBag) {
		m := &model{alpha: alpha, aligned: aligned}
		for i, s := range seqs {
			m.rows = append(m.rows, mrow{Name: "r" + gen.Itoa(i), Seq: s})
		}
		sb, _, _ := build(c, m, "add")
		return m, sb
	}
	if len(dna) > 0 {
		// all DNA sequences of the case as one sequence set (lengths 1, 2 and 3 together)
		m, sb := mk(dna, false, NT)
		before := m.clone()
		if err := sb.ReverseComplement(); err != nil {
			c.Failf("ReverseComplement:unexpected-error", "exhaustive seqbag %q: %v", dna, err)
			return
		}
		m.mapRows(mustRC)
		if !observe(c, "ReverseComplement", sb, m, func(i int, got string) string { return rcKind(before.rows[i].Seq, got) }) {
			return
		}
		names := make([]string, len(m.rows))
		for i := range m.rows {
			names[len(m.rows)-1-i] = m.rows[i].Name
		}
		if err := sb.ReverseComplementSequences(names...); err != nil {
			c.Failf("ReverseComplementSequences:unexpected-error", "exhaustive: %v", err)
			return
		}
		if !observe(c, "ReverseComplementSequences-after-ReverseComplement", sb, before, func(i int, got string) string { return "not-restored" }) {
			return
		}
		c.Add("exhaust:seqbag-rows", len(dna))
		// the triples as an alignment
		var tri []string
		for _, s := range dna {
			if len(s) == 3 {
				tri = append(tri, s)
			}
		}
		m, sb = mk(tri, true, NT)
		before = m.clone()
		if err := sb.ReverseComplementSequences(names[:0]...); err != nil {
			c.Failf("ReverseComplementSequences:unexpected-error", "no name: %v", err)
			return
		}
		if !observe(c, "ReverseComplementSequences", sb, m, func(i int, got string) string { return "other-row-changed" }) {
			return
		}
		// every second row by name, then the whole alignment, then the other rows: everything is back
		var odd, even []string
		for i := range m.rows {
			if i%2 == 1 {
				odd = append(odd, m.rows[i].Name)
				m.rows[i].Seq = mustRC(m.rows[i].Seq)
			} else {
				even = append(even, m.rows[i].Name)
			}
		}
		if err := sb.ReverseComplementSequences(odd...); err != nil {
			c.Failf("ReverseComplementSequences:unexpected-error", "exhaustive: %v", err)
			return
		}
		if !observe(c, "ReverseComplementSequences", sb, m, func(i int, got string) string {
			if i%2 == 0 {
				return "other-row-changed"
			}
			return "named-row-" + rcKind(before.rows[i].Seq, got)
		}) {
			return
		}
		if err := sb.ReverseComplement(); err != nil {
			c.Failf("ReverseComplement:unexpected-error", "exhaustive alignment: %v", err)
			return
		}
		m.mapRows(mustRC)
		mid := m.clone()
		_ = mid
		if !observe(c, "ReverseComplement", sb, m, nil) {
			return
		}
		if err := sb.ReverseComplementSequences(even...); err != nil {
			c.Failf("ReverseComplementSequences:unexpected-error", "exhaustive: %v", err)
			return
		}
		if !observe(c, "ReverseComplementSequences-after-ReverseComplement", sb, before, func(i int, got string) string { return "not-restored" }) {
			return
		}
		c.Add("exhaust:alignment-rows", len(tri))
	}
	if len(other) > 0 { // sequences with U/u: outside the quantifier, must not crash and keep their length
		m, sb := mk(other, false, NT)
		sb.ReverseComplement()
		sb.ReverseComplementSequences(m.rows[0].Name)
		i := 0
		sb.Iterate(func(n, s string) bool {
			if len(s) != len(m.rows[i].Seq) {
				c.Failf("ReverseComplement:length-changed", "row %q -> %q", m.rows[i].Seq, s)
			}
			i++
			return false
		})
		c.Add("exhaust:rows-with-U(no-crash-only)", len(other))
	}
}

// ---------------------------------------------------------------- sub: witness

type lit struct{ name, seq string }

func mkLit(aligned bool, alpha int, rows []lit) (*model, align.SeqBag) {
	m := &model{alpha: alpha, aligned: aligned}
	for _, x := range rows {
		m.rows = append(m.rows, mrow{Name: x.name, Seq: x.seq})
	}
	sb := newContainer(aligned, alpha)
	for _, x := range rows {
		if err := sb.AddSequence(x.name, x.seq, ""); err != nil {
			panic("harness: " + err.Error())
		}
	}
	return m, sb
}

func expectLit(c *mon.Case, op string, sb align.SeqBag, m *model, want []string) bool {
	e := m.clone()
	for i := range e.rows {
		e.rows[i].Seq = want[i]
	}
	return observe(c, op, sb, e, nil)
}

var witnesses = []func(c *mon.Case){
	// 0: the example of docs/commands/revcomp.md, expected output copied from the documentation
	func(c *mon.Case) {
		in := []string{"CTTTCGCAAA", "GTGCAGTCCG", "TGAGTTTAGT", "CATTCACTCG", "CGGTCTGATC", "CCCTACAGTT", "TGCAGACGTG", "TAGGTGCTAA", "TCCCCTCTTG", "GAGTATATCG"}
		out := []string{"TTTGCGAAAG", "CGGACTGCAC", "ACTAAACTCA", "CGAGTGAATG", "GATCAGACCG", "AACTGTAGGG", "CACGTCTGCA", "TTAGCACCTA", "CAAGAGGGGA", "CGATATACTC"}
		var txt strings.Builder
		for i, s := range in {
			fmt.Fprintf(&txt, ">Seq%04d\n%s\n", i, s)
		}
		c.Input(map[string]interface{}{"fasta": txt.String(), "op": "ReverseComplement (documentation example)"})
		al, err := fasta.NewParser(strings.NewReader(txt.String())).Parse()
		if err != nil {
			c.Failf("witness:fasta-parse", "%v", err)
			return
		}
		if err = al.ReverseComplement(); err != nil {
			c.Failf("ReverseComplement:unexpected-error", "%v", err)
			return
		}
		var exp strings.Builder
		for i, s := range out {
			fmt.Fprintf(&exp, ">Seq%04d\n%s\n", i, s)
			if o, ok := refRC(in[i]); !ok || o != s {
				panic("harness: oracle disagrees with the documentation example")
			}
		}
		if got := fasta.WriteAlignment(al); got != exp.String() {
			c.Failf("ReverseComplement:documentation-example", "got\n%s\nexpected\n%s", got, exp.String())
		}
	},
	// 1: a name given twice designates the same row: it is reverse-complemented (once), like every named row
	func(c *mon.Case) {
		m, sb := mkLit(true, NT, []lit{{"s1", "ACGTN"}, {"s2", "AAGG-"}})
		c.Input(inputOf(m, map[string]interface{}{"op": "ReverseComplementSequences", "names": []string{"s1", "s1"}}))
		if err := sb.ReverseComplementSequences("s1", "s1"); err != nil {
			c.Failf("ReverseComplementSequences:unexpected-error", "%v", err)
			return
		}
		before := m.clone()
		m.rows[0].Seq = "NACGT"
		observe(c, "ReverseComplementSequences", sb, m, func(i int, got string) string {
			if i == 0 {
				return "row-named-more-than-once-" + rcKind(before.rows[i].Seq, got)
			}
			return "other-row-changed"
		})
	},
	// 2: three times and an unknown name, sequence set
	func(c *mon.Case) {
		m, sb := mkLit(false, NT, []lit{{"a", "AC"}, {"b", "RYk"}, {"c", ""}})
		args := []string{"b", "zz", "b", "a", "b"}
		c.Input(inputOf(m, map[string]interface{}{"op": "ReverseComplementSequences", "names": args}))
		if err := sb.ReverseComplementSequences(args...); err != nil {
			c.Failf("ReverseComplementSequences:unexpected-error", "%v", err)
			return
		}
		before := m.clone()
		m.rows[0].Seq = "GT"
		m.rows[1].Seq = "mRY"
		observe(c, "ReverseComplementSequences", sb, m, func(i int, got string) string {
			if i == 1 {
				return "row-named-more-than-once-" + rcKind(before.rows[i].Seq, got)
			}
			return "named-row-" + rcKind(before.rows[i].Seq, got)
		})
	},
	// 3: the rarely used pairs, both cases, literal expectation
	func(c *mon.Case) {
		m, sb := mkLit(true, NT, []lit{{"x", "KMBVDHkmbvdh"}, {"y", "SWNswnRYryAC"}})
		c.Input(inputOf(m, map[string]interface{}{"op": "ReverseComplement"}))
		if err := sb.ReverseComplement(); err != nil {
			c.Failf("ReverseComplement:unexpected-error", "%v", err)
			return
		}
		expectLit(c, "ReverseComplement", sb, m, []string{"dhbvkmDHBVKM", "GTryRYnwsNWS"})
	},
	// 4: odd / even / 1 / 0 lengths in a sequence set
	func(c *mon.Case) {
		m, sb := mkLit(false, NT, []lit{{"e", "AC"}, {"o", "ACG"}, {"one", "A"}, {"zero", ""}, {"five", "AaCcG"}, {"four", "TTGG"}})
		c.Input(inputOf(m, map[string]interface{}{"op": "ReverseComplement"}))
		if err := sb.ReverseComplement(); err != nil {
			c.Failf("ReverseComplement:unexpected-error", "%v", err)
			return
		}
		expectLit(c, "ReverseComplement", sb, m, []string{"GT", "CGT", "T", "", "CgGtT", "CCAA"})
	},
	// 5: gap, point and star stay where the mirror puts them
	func(c *mon.Case) {
		m, sb := mkLit(true, NT, []lit{{"g", "A-C.G*T"}, {"h", "--ACG.."}})
		c.Input(inputOf(m, map[string]interface{}{"op": "ReverseComplement"}))
		if err := sb.ReverseComplement(); err != nil {
			c.Failf("ReverseComplement:unexpected-error", "%v", err)
			return
		}
		expectLit(c, "ReverseComplement", sb, m, []string{"A*C.G-T", "..CGT--"})
	},
	// 6: protein alphabet: error, nothing changes
	func(c *mon.Case) {
		m, sb := mkLit(true, align.AMINOACIDS, []lit{{"p", "MEEPQ"}, {"q", "ACGTA"}})
		c.Input(inputOf(m, map[string]interface{}{"op": "ReverseComplement on a protein alignment"}))
		if err := sb.ReverseComplement(); err == nil {
			c.Failf("ReverseComplement:no-error-for-non-nucleotide-alphabet", "protein alignment")
		}
		if err := sb.ReverseComplementSequences("q"); err == nil {
			c.Failf("ReverseComplementSequences:no-error-for-non-nucleotide-alphabet", "protein alignment")
		}
		observe(c, "ReverseComplement(non-nt-alphabet)", sb, m, func(i int, got string) string { return "changed-despite-error" })
	},
	// 7: unknown alphabet: error, nothing changes
	func(c *mon.Case) {
		m, sb := mkLit(false, align.UNKNOWN, []lit{{"p", "ACGT"}, {"q", "AC"}})
		c.Input(inputOf(m, map[string]interface{}{"op": "ReverseComplement with alphabet UNKNOWN"}))
		if err := sb.ReverseComplement(); err == nil {
			c.Failf("ReverseComplement:no-error-for-non-nucleotide-alphabet", "alphabet unknown")
		}
		observe(c, "ReverseComplement(non-nt-alphabet)", sb, m, func(i int, got string) string { return "changed-despite-error" })
	},
	// 8: case folding, literal
	func(c *mon.Case) {
		m, sb := mkLit(true, NT, []lit{{"x", "acgtn-.*ryKM"}, {"y", "ACGTN-.*RYkm"}})
		c.Input(inputOf(m, map[string]interface{}{"op": "ToUpper, ToLower"}))
		sb.ToUpper()
		if !expectLit(c, "ToUpper", sb, m, []string{"ACGTN-.*RYKM", "ACGTN-.*RYKM"}) {
			return
		}
		sb.ToLower()
		expectLit(c, "ToLower", sb, m, []string{"acgtn-.*rykm", "acgtn-.*rykm"})
	},
	// 9: neighbours of the letter ranges are not letters
	func(c *mon.Case) {
		m, sb := mkLit(false, align.UNKNOWN, []lit{{"x", "@AZ[`az{"}})
		m2, sb2 := mkLit(false, align.UNKNOWN, []lit{{"x", "@AZ[`az{"}})
		c.Input(inputOf(m, map[string]interface{}{"op": "ToUpper / ToLower"}))
		sb.ToUpper()
		sb2.ToLower()
		expectLit(c, "ToUpper", sb, m, []string{"@AZ[`AZ{"})
		expectLit(c, "ToLower", sb2, m2, []string{"@az[`az{"})
	},
	// 10: Unalign removes '-' and only '-'
	func(c *mon.Case) {
		m, sb := mkLit(true, NT, []lit{{"x", "A-C--G.*-"}, {"y", "---------"}, {"z", "ACGTACGTA"}})
		c.Input(inputOf(m, map[string]interface{}{"op": "Unalign"}))
		un := sb.Unalign()
		e := m.clone()
		e.aligned = false
		e.alpha = un.Alphabet()
		expectLit(c, "Unalign", un, e, []string{"ACG.*", "", "ACGTACGTA"})
		observe(c, "Unalign:receiver", sb, m, func(i int, got string) string { return "receiver-changed" })
	},
	// 11: interplay rc, lower, rc, upper == upper(original)
	func(c *mon.Case) {
		m, sb := mkLit(true, NT, []lit{{"x", "AcgT-n"}, {"y", "kMbV.*"}})
		c.Input(inputOf(m, map[string]interface{}{"ops": []string{"rc", "lower", "rc", "upper"}}))
		e1 := sb.ReverseComplement()
		sb.ToLower()
		if !expectLit(c, "ReverseComplement,ToLower", sb, m, []string{"n-acgt", "*.bvkm"}) {
			return
		}
		e2 := sb.ReverseComplement()
		sb.ToUpper()
		if e1 != nil || e2 != nil {
			c.Failf("ReverseComplement:unexpected-error", "%v %v", e1, e2)
			return
		}
		expectLit(c, "ReverseComplement,ToLower,ReverseComplement,ToUpper", sb, m, []string{"ACGT-N", "KMBV.*"})
	},
	// 12: Sequence.Complement refuses a protein sequence and leaves it alone
	func(c *mon.Case) {
		c.Input(map[string]interface{}{"seq": "MEEPQ", "op": "Sequence.Complement"})
		sq := align.NewSequence("p", []byte("MEEPQ"), "")
		if err := sq.Complement(); err == nil {
			c.Failf("Sequence.Complement:no-error-for-protein", "MEEPQ -> %q", sq.Sequence())
		} else if sq.Sequence() != "MEEPQ" {
			c.Failf("Sequence.Complement:changed-despite-error", "MEEPQ -> %q", sq.Sequence())
		}
	},
	// 13: U/u do not crash (outside the quantifier)
	func(c *mon.Case) {
		m, sb := mkLit(false, NT, []lit{{"rna", "ACGUacgu"}})
		c.Input(inputOf(m, map[string]interface{}{"op": "ReverseComplement with U"}))
		sb.ReverseComplement()
		if s, _ := sb.GetSequenceById(0); len(s) != 8 {
			c.Failf("ReverseComplement:length-changed", "%q", s)
		}
	},
	// 14: empty containers
	func(c *mon.Case) {
		c.Input(map[string]interface{}{"op": "all transforms on empty containers"})
		for _, aligned := range []bool{true, false} {
			m, sb := mkLit(aligned, NT, nil)
			if err := sb.ReverseComplement(); err != nil {
				c.Failf("ReverseComplement:unexpected-error", "empty container: %v", err)
			}
			if err := sb.ReverseComplementSequences("x"); err != nil {
				c.Failf("ReverseComplementSequences:unexpected-error", "empty container: %v", err)
			}
			sb.ToUpper()
			sb.ToLower()
			un := sb.Unalign()
			observe(c, "empty", sb, m, nil)
			e := m.clone()
			e.alpha = un.Alphabet()
			observe(c, "Unalign(empty)", un, e, nil)
		}
	},
	// 15: middle element of odd rows, middle pair of even rows (in-place reversal boundaries), lengths 1..9
	func(c *mon.Case) {
		rows := []lit{}
		want := []string{}
		src := "AcGtRyKmB"
		for L := 1; L <= 9; L++ {
			rows = append(rows, lit{"L" + gen.Itoa(L), src[:L]})
		}
		want = []string{"T", "gT", "CgT", "aCgT", "YaCgT", "rYaCgT", "MrYaCgT", "kMrYaCgT", "VkMrYaCgT"}
		m, sb := mkLit(false, NT, rows)
		c.Input(inputOf(m, map[string]interface{}{"op": "ReverseComplement"}))
		if err := sb.ReverseComplement(); err != nil {
			c.Failf("ReverseComplement:unexpected-error", "%v", err)
			return
		}
		expectLit(c, "ReverseComplement", sb, m, want)
	},
}

func runWitness(c *mon.Case) {
	if c.Idx >= len(witnesses) {
		return
	}
	witnesses[c.Idx](c)
	c.Count("witness:" + gen.Itoa(c.Idx))
	c.NonTrivial("witness", gen.Itoa(c.Idx))
}

func main() {
	mon.SetNote("rule", "case = random nucleotide alignment or unaligned sequence set (0..8 rows, lengths 0..70 on odd/even/power-of-two boundaries, rows of different lengths incl. 0 and 1 for sequence sets; residue mixes over the 33 symbol DNA alphabet of the property: 15 IUPAC codes in both cases + '-' '.' '*', mixes focused on K/M B/V D/H R/Y pairs, self-complementary codes, palindromic rows, all-gap rows, gap runs at the ends; hostile names, comments; built by AddSequence / AddSequenceChar / AutoAlphabet / Clone / the FASTA parser) x one transform or a history of 2..9 transforms (ReverseComplement, ReverseComplementSequences with 14 argument shapes, ToUpper, ToLower, Unalign, Clone, Sequence.Reverse/Complement through by-index and by-name handles), the container being read back after every step through IterateAll, Iterate, IterateChar, Sequences, by-index and by-name getters, Alphabet, Length and align.VerifInvariants and compared with the list model; case/un-align also on protein and printable-ASCII sets. Non-trivial = a row with an ambiguity code or mixed case (rc, rcsub, seqfn, history, exhaust), a mixed-case row (case), at least one gap (unalign); distinct = (rows, operation arguments / history). names: histories of 3..10 steps in which Rename (a map that swaps two names, rotates 2..n names, or introduces a fresh name), RenameRegexp (prefix, suffix, first character to the end, digit replacement when injective), Sort and ShuffleSequences alternate with ReverseComplementSequences (current names, names that moved to another row, names no row carries any more, repeated and unknown names), by-name Sequence handles, ReverseComplement and case folding; rows are made pairwise different and not self reverse-complementary so that hitting the wrong row shows; non-trivial = a by-name reverse complement of a proper subset issued after a renaming / re-ordering. cli: the goalign binary built from the tree: `revcomp` (no name / known / unknown / mixed / repeated / all names as positional arguments, before or after the flags), `tolower`, `toupper` (nucleotide, protein, any-letter content) and `unalign` (-o prefix, default stdout, -o -, -o stdout) on a FASTA alignment, FASTA sequences of unequal length (--unaligned, also with -p/-x/-u which are documented as ignored), 1..3 Phylip alignments (-p, --one-line/--no-block) or --auto-detect; names that exist in some alignments of the file only; output read back from the -o file / stdout / the per-alignment files and compared with the oracle of ref.go.")
	mon.SetNote("assumptions", "complement oracle = code whose base set is the Watson-Crick image of the base set of the input code (IUPAC/NC-IUB table typed in ref.go), case preserved, '-' '.' '*' fixed;; case oracle = ASCII letters only (bytes >= 0x80 are outside every sequence alphabet: only 'no crash, same length' is checked);; un-align removes '-' only ('.' and '*' stay);; U/u are outside the DNA alphabet of the quantifier: only 'no crash, same length' (35-symbol enumeration keeps them for that);; a name given several times to ReverseComplementSequences designates one row of the subset: the row is reverse-complemented once;; unknown names are ignored without error (docs/commands/revcomp.md: 'if they exist');; a container whose alphabet is not NUCLEOTIDS must return an error and stay unchanged; what AutoAlphabet answers is not judged (the oracle follows Alphabet());; the alphabet tag of Unalign's result is not judged except that the un-aligned copy of a nucleotide alignment can be reverse-complemented;; names: RenameRegexp replaces like regexp.ReplaceAllString of the standard library and fills the map old name -> new name; Sort orders by byte-wise comparison of the names; the order ShuffleSequences produces is not judged (any permutation keeping every row intact);; command line: the output format follows the input format (Phylip in, Phylip out) except for unalign / --unaligned (FASTA); the per-alignment files of unalign are <prefix>_NNNNNN.fa (cmd/unalign.go) or <prefix>NNNNNN.fa (the example of docs/commands/unalign.md uses a prefix ending with _): both accepted; a file with a letter that is no nucleotide code must be refused by revcomp (docs), what is written before a refusal is not examined; global reading options (--input-strict, --ignore-identical, --alphabet, -x/-u/-k input) belong to C02/C03;; symbols outside the alphabet inside a NUCLEOTIDS container ('?', 'X', 'O') are outside the quantifier and not generated")
	mon.SetNote("exhaustive_subspaces", "all 35 single symbols, all 1225 ordered pairs and all 42875 ordered triples over the 35-symbol alphabet (33 DNA symbols + U/u) through align.Reverse, align.Complement, Sequence.Reverse, Sequence.Complement (both orders, twice = identity); the 33 + 1089 + 35937 sequences over the DNA alphabet additionally as rows of sequence sets (mixed lengths) and of alignments through ReverseComplement and ReverseComplementSequences (none / every second row / all names) with the involution; enumerated completely at both tiers (sub-check exhaust, 1225 cases = one per ordered pair prefix)")
	for _, k := range []string{"op:ReverseComplement", "op:ReverseComplement-twice", "op:ReverseComplementSequences", "op:ToUpper", "op:ToLower", "op:Unalign", "op:align.Reverse", "op:align.Complement", "op:Sequence.Reverse", "op:Sequence.Complement", "op:fasta.WriteSequences"} {
		mon.Floor(k, 1000)
	}
	for _, s := range subsetShapes {
		mon.Floor("subset:"+s, 500)
	}
	mon.Floor("subset:proper-non-empty", 500)
	mon.Floor("subset:with-repeated-name", 500)
	mon.Floor("exhaust:single", 35)
	mon.Floor("exhaust:pair", 1225)
	mon.Floor("exhaust:triple", 42875)
	mon.Floor("exhaust:seqbag-rows", 33+1089+35937)
	mon.Floor("exhaust:alignment-rows", 35937)
	for i := 0; i < len(dna33); i++ {
		mon.Floor("sym:"+dna33[i:i+1], 500)
	}
	for _, p := range []string{"rc", "rcsub", "case", "unalign"} {
		mon.Floor(p+":alignment", 500)
		mon.Floor(p+":seqbag", 500)
		mon.Floor(p+":rowlen:0", 100)
		mon.Floor(p+":rowlen:1", 100)
		mon.Floor(p+":rowlen:even", 500)
		mon.Floor(p+":rowlen:odd", 500)
	}
	for _, b := range []string{"add", "addchar", "auto", "clone", "fasta"} {
		mon.Floor("build:"+b, 200)
	}
	for _, k := range []string{"rc", "ReverseComplementSequences", "unalign", "clone", "seq.reverse", "seq.complement", "seq.rc-byname", "upper", "lower"} {
		mon.Floor("hist-op:"+k, 500)
	}
	mon.Floor("rcerr:ReverseComplement", 200)
	mon.Floor("rcerr:ReverseComplementSequences", 200)
	mon.Floor("seqfn:protein", 200)
	mon.Floor("unalign:with-gaps", 1000)
	mon.Floor("unalign:all-gap-row", 100)
	mon.Floor("rel:Unalign.RC-commute", 500)
	mon.Floor("rel:Unalign.ToUpper-commute", 1000)
	mon.Floor("case:mixed-case-input", 1000)
	// sub names: renaming / re-ordering between the transforms
	for _, k := range []string{"rename-swap", "rename-rotate", "rename-fresh", "rename-regexp", "sort", "shuffle", "ReverseComplementSequences", "seq.rc-byname", "rc"} {
		mon.Floor("names-op:"+k, 5000)
	}
	mon.Floor("names:by-name-after-renaming", 10000)
	mon.Floor("names:moved-name-hit", 3000)
	// sub cli: the four commands
	mon.Floor("cli:runs", 300)
	mon.Floor("cli:outcome:ok", 250)
	mon.Floor("cli:refusal-expected", 3)
	mon.Floor("cli:revcomp", 120)
	mon.Floor("cli:tolower", 30)
	mon.Floor("cli:toupper", 30)
	mon.Floor("cli:unalign", 60)
	for _, cmd := range []string{"revcomp", "tolower", "toupper"} {
		for _, md := range []string{"fasta", "phylip", "unaligned", "auto-fasta", "auto-phylip"} {
			mon.Floor("cli:"+cmd+":mode:"+md, 4)
		}
		mon.Floor("cli:"+cmd+":output:file", 10)
		mon.Floor("cli:"+cmd+":output:stdout", 4)
		mon.Floor("cli:"+cmd+":several-alignments", 5)
	}
	for _, md := range []string{"fasta", "phylip", "auto-fasta", "auto-phylip"} {
		mon.Floor("cli:unalign:mode:"+md, 8)
	}
	for _, o := range []string{"file", "stdout", "dash", "stdout-word"} {
		mon.Floor("cli:unalign:output:"+o, 4)
	}
	mon.Floor("cli:unalign:several-alignments", 20)
	for _, sh := range []string{"none", "known", "unknown", "mixed", "repeated", "all"} {
		mon.Floor("cli:revcomp:names:"+sh, 12)
	}
	mon.Floor("long:ReverseComplement", 6)
	mon.Floor("long:Unalign", 6)
	mon.Floor("deep:ToUpper", 9)
	mon.Floor("deep:Unalign", 9)
	mon.Floor("concurrent:calls", 500)
	mon.Main("C06", []mon.Sub{
		{Name: "witness", Quick: len(witnesses), Thorough: len(witnesses), Run: runWitness},
		{Name: "exhaust", Quick: 1225, Thorough: 1225, Run: runExhaust},
		{Name: "rc", Quick: 120000, Thorough: 2000000, Run: runRC},
		{Name: "rcsub", Quick: 140000, Thorough: 2000000, Run: runRCSub},
		{Name: "rcerr", Quick: 16000, Thorough: 200000, Run: runRCErr},
		{Name: "seqfn", Quick: 120000, Thorough: 2000000, Run: runSeqFn},
		{Name: "case", Quick: 80000, Thorough: 1200000, Run: runCase},
		{Name: "unalign", Quick: 80000, Thorough: 1200000, Run: runUnalign},
		{Name: "history", Quick: 100000, Thorough: 1500000, Run: runHistory},
		{Name: "names", Quick: 60000, Thorough: 900000, Run: runNames},
		{Name: "long", Quick: 6, Thorough: 24, Run: runLong},
		{Name: "deep", Quick: 9, Thorough: 36, Run: runDeep},
		{Name: "concurrent", Quick: 64, Thorough: 1200, Race: true, Run: func(c *mon.Case) { conc.Run(c, "strand") }},
		{Name: "cli", Quick: 376, Thorough: 3200, Serial: true, Run: runCli},
	})
}

func showNames(m *model) string {
	var b strings.Builder
	for _, r := range m.rows {
		b.WriteString(r.Name + "\x00")
	}
	return b.String()
}
