// C13 monitor: de-duplication and site compression lose nothing but redundancy.
//
// Every Deduplicate / Compress call is decided by a list-of-rows reference written from
// the statement and the documentation (ref.go); after every operation the container is
// read back through every access path and through the VerifInvariants hook.
package main

import (
	"fmt"
	"sort"
	"strings"

	"github.com/evolbioinfo/goalign/align"

	"verif/lib/gen"
	"verif/lib/mon"
)

// ---------------------------------------------------------------------------------
// helpers

func sigTag(rows []row) string {
	if nonASCII(rows) {
		return ":non-ascii"
	}
	return ""
}

func alphaName(a int) string {
	switch a {
	case align.AMINOACIDS:
		return "aa"
	case align.NUCLEOTIDS:
		return "nt"
	case align.UNKNOWN:
		return "unknown"
	}
	return fmt.Sprintf("alphabet%d", a)
}

func mkAlign(rows []row, alphabet int) (align.Alignment, error) {
	a := align.NewAlign(alphabet)
	for _, r := range rows {
		if err := a.AddSequence(r.Name, r.Seq, r.Comment); err != nil {
			return nil, err
		}
	}
	return a, nil
}

func mkBag(rows []row, alphabet int) (align.SeqBag, error) {
	a := align.NewSeqBag(alphabet)
	for _, r := range rows {
		if err := a.AddSequence(r.Name, r.Seq, r.Comment); err != nil {
			return nil, err
		}
	}
	return a, nil
}

func lengthOf(sb align.SeqBag) int {
	if al, ok := sb.(align.Alignment); ok {
		return al.Length()
	}
	return -2
}

func names(rows []row) []string {
	out := make([]string, len(rows))
	for i, r := range rows {
		out[i] = r.Name
	}
	return out
}

func sortedCopy(s []string) []string {
	c := append([]string{}, s...)
	sort.Strings(c)
	return c
}

func bucket(n int) string {
	switch {
	case n <= 3:
		return gen.Itoa(n)
	case n <= 6:
		return "4-6"
	case n <= 9:
		return "7-9"
	}
	return "10+"
}

// ---------------------------------------------------------------------------------
// Deduplicate: one checked call

// checkDedup runs sb.Deduplicate(nAsGap) and decides the result. It returns the rows now
// in the container and the names removed, or ok=false after a reported violation.
func checkDedup(c *mon.Case, sb align.SeqBag, nAsGap bool, tag string) (after []row, removed []string, ok bool) {
	before := snapAll(sb)
	alphabet := sb.Alphabet()
	L0 := lengthOf(sb)
	st := sigTag(before)
	fail := func(sig, format string, a ...interface{}) {
		c.Failf("Dedup:"+sig+st, "%s Deduplicate(nAsGap=%v) alphabet=%s container=%T\ninput=%s\n%s", tag, nAsGap, alphaName(alphabet), sb, showRows(before), fmt.Sprintf(format, a...))
	}
	groups, err := sb.Deduplicate(nAsGap)
	if err != nil {
		fail("unexpected-error", "error %v", err)
		return
	}
	after = snapAll(sb)

	// (1) statement, reading independent: the groups partition the input names
	var flat []string
	for _, g := range groups {
		if len(g) == 0 {
			fail("empty-group", "groups=%q", groups)
			return
		}
		flat = append(flat, g...)
	}
	if fmt.Sprint(sortedCopy(flat)) != fmt.Sprint(sortedCopy(names(before))) {
		fail("groups-not-partition", "the groups %q do not hold every input name exactly once (input names %q)", groups, names(before))
		return
	}
	// (2) each group is led by its kept representative; one group per kept row
	leaders := make([]string, len(groups))
	for i, g := range groups {
		leaders[i] = g[0]
	}
	if fmt.Sprint(sortedCopy(leaders)) != fmt.Sprint(sortedCopy(names(after))) {
		fail("leader-not-kept", "group leaders %q are not the kept rows %q", leaders, names(after))
		return
	}
	// (3) kept rows are input rows, untouched (name, original residues, comment), in input order
	pos := 0
	for _, k := range after {
		found := false
		for pos < len(before) {
			if before[pos] == k {
				found = true
				pos++
				break
			}
			pos++
		}
		if !found {
			intact := false
			for _, b := range before {
				if b == k {
					intact = true
				}
			}
			if intact {
				fail("order", "kept rows are not in input order: %s", showRows(after))
			} else {
				fail("kept-row-altered", "kept row %+v is not a row of the input (name, residues or comment changed): %s", k, showRows(after))
			}
			return
		}
	}
	// (4) exactly the first occurrence of every distinct sequence, under one admissible reading
	rds := dedupReadings(alphabet, nAsGap)
	matched := -1
	for i, rd := range rds {
		kept, g := refDedup(before, rd)
		if eqRows(after, kept) && canonGroups(g) == canonGroups(groups) {
			matched = i
			break
		}
	}
	if matched < 0 {
		kept, g := refDedup(before, rds[0])
		if !eqRows(after, kept) {
			sig := "kept-rows"
			if len(after) > len(kept) {
				sig = "duplicate-kept"
			} else if len(after) < len(kept) {
				sig = "distinct-sequence-lost"
			}
			fail(sig, "container holds %s\nexpected (first occurrence of every distinct sequence, reading %v) %s\ngroups=%q", showRows(after), rds[0], showRows(kept), groups)
		} else {
			fail("groups", "groups=%q expected %q (reading %v)", groups, g, rds[0])
		}
		return
	}
	c.Count("dedup-reading:" + rds[matched].String())
	// (5) every access path, name index included, follows the removal
	keptNames := map[string]bool{}
	for _, k := range after {
		keptNames[k.Name] = true
	}
	for _, b := range before {
		if !keptNames[b.Name] {
			removed = append(removed, b.Name)
		}
	}
	if kind, msg := observe(sb, after, removed, L0); kind != "" {
		fail("access-path:"+kind, "after the call: %s\nexpected rows %s", msg, showRows(after))
		return
	}
	if sb.Alphabet() != alphabet {
		fail("alphabet-changed", "alphabet %s -> %s", alphaName(alphabet), alphaName(sb.Alphabet()))
		return
	}
	// coverage
	c.Count("op:Deduplicate")
	c.Count(fmt.Sprintf("dedup:nAsGap=%v:%s", nAsGap, alphaName(alphabet)))
	if len(removed) > 0 {
		c.Count("dedup:removed>0")
		if len(after) > 1 {
			c.Count("dedup:removed>0,kept>1")
		}
	} else if len(before) > 1 {
		c.Count("dedup:all-distinct")
	}
	if len(before) > 1 && len(after) == 1 {
		c.Count("dedup:all-identical")
	}
	if nAsGap {
		exact, _ := refDedup(before, reading{"", false})
		if len(exact) > len(after) {
			c.Count("dedup:nAsGap-merges-more-than-exact")
		}
	}
	for i, g := range groups {
		if len(g) > 1 && i > 0 {
			c.Count("dedup:group-led-by-later-row")
			break
		}
	}
	return after, removed, true
}

// idempotence: a second call changes nothing and reports singleton groups
func checkDedupIdempotent(c *mon.Case, sb align.SeqBag, nAsGap bool, tag string) bool {
	before := snapAll(sb)
	L0 := lengthOf(sb)
	groups, err := sb.Deduplicate(nAsGap)
	st := sigTag(before)
	if err != nil {
		c.Failf("Dedup:unexpected-error"+st, "%s second Deduplicate(%v): %v", tag, nAsGap, err)
		return false
	}
	after := snapAll(sb)
	if !eqRows(before, after) {
		c.Failf("Dedup:not-idempotent"+st, "%s second Deduplicate(%v) changed the container\nbefore=%s\nafter=%s", tag, nAsGap, showRows(before), showRows(after))
		return false
	}
	okg := len(groups) == len(before)
	if okg {
		seen := map[string]bool{}
		for _, g := range groups {
			if len(g) != 1 || seen[g[0]] {
				okg = false
				break
			}
			seen[g[0]] = true
		}
		for _, b := range before {
			if !seen[b.Name] {
				okg = false
			}
		}
	}
	if !okg {
		c.Failf("Dedup:second-groups-not-singletons"+st, "%s second Deduplicate(%v) on %s reported groups %q", tag, nAsGap, showRows(before), groups)
		return false
	}
	if kind, msg := observe(sb, before, nil, L0); kind != "" {
		c.Failf("Dedup:access-path:"+kind+st, "%s after the second Deduplicate(%v): %s", tag, nAsGap, msg)
		return false
	}
	c.Count("op:Deduplicate-again")
	return true
}

// ---------------------------------------------------------------------------------
// Compress: one checked call

func checkCompress(c *mon.Case, al align.Alignment, tag string) (after []row, weights []int, ok bool) {
	before := snapAll(al)
	L0 := al.Length()
	alphabet := al.Alphabet()
	st := sigTag(before)
	fail := func(sig, format string, a ...interface{}) {
		c.Failf("Compress:"+sig+st, "%s Compress() on %d rows x %d sites\ninput=%s\n%s", tag, len(before), L0, showRows(before), fmt.Sprintf(format, a...))
	}
	twin, err := al.Clone()
	if err != nil {
		fail("harness-clone", "Clone: %v", err)
		return
	}
	w := al.Compress()
	after = snapAll(al)
	if len(before) == 0 {
		// no row, no site: nothing to compress, the empty alignment stays what it was
		c.Count("compress:empty-alignment")
		if len(w) != 0 {
			fail("empty-alignment-weights", "weights %v for an alignment without sequence", w)
			return
		}
		if len(after) != 0 || al.Length() != L0 {
			fail("empty-alignment-changed", "NbSequences()=%d Length()=%d after compressing an alignment without sequence (Length() was %d)", len(after), al.Length(), L0)
			return
		}
		if err := al.AddSequence("first", "ACGT", ""); err != nil {
			fail("empty-alignment-unusable", "AddSequence on the compressed empty alignment: %v", err)
			return
		}
		al.Clear()
		c.Count("op:Compress")
		return after, w, true
	}
	// rows: same names, comments, order
	if len(after) != len(before) {
		fail("rows-changed", "%d rows after, %d before", len(after), len(before))
		return
	}
	for i := range before {
		if after[i].Name != before[i].Name || after[i].Comment != before[i].Comment {
			fail("rows-changed", "row %d is now %q (%q), was %q (%q)", i, after[i].Name, after[i].Comment, before[i].Name, before[i].Comment)
			return
		}
		if len(after[i].Seq) != len(w) {
			fail("row-length", "row %d has %d residues for %d weights: %s weights=%v", i, len(after[i].Seq), len(w), showRows(after), w)
			return
		}
	}
	orig := columns(before)
	mult := colMultiset(orig)
	emitted := columns(after)
	describe := func() string { return fmt.Sprintf("output=%s weights=%v", showRows(after), w) }
	if len(emitted) != len(mult) {
		sig := "pattern-count"
		fail(sig, "%d patterns emitted, the input has %d distinct column patterns; %s", len(emitted), len(mult), describe())
		return
	}
	seen := map[string]int{}
	sum := 0
	for j, e := range emitted {
		if k, dup := seen[e]; dup {
			fail("duplicate-pattern", "emitted columns %d and %d are both %q; %s", k, j, e, describe())
			return
		}
		seen[e] = j
		m, in := mult[e]
		if !in {
			fail("foreign-pattern", "emitted column %d = %q is not a column of the input; %s", j, e, describe())
			return
		}
		if w[j] != m {
			// same weights, attached to other columns?
			ws := append([]int{}, w...)
			sort.Ints(ws)
			var ms []int
			for _, v := range mult {
				ms = append(ms, v)
			}
			sort.Ints(ms)
			sig := "weight-value"
			if fmt.Sprint(ws) == fmt.Sprint(ms) {
				sig = "weights-misaligned"
			}
			fail(sig, "column %d = %q occurs %d times in the input, weight %d; %s", j, e, m, w[j], describe())
			return
		}
		sum += w[j]
	}
	if sum != L0 {
		fail("weight-sum", "weights sum to %d, original length %d; %s", sum, L0, describe())
		return
	}
	// column additive statistics
	var s0, s1 uint64
	for _, col := range orig {
		s0 += colStat(col)
	}
	for j, col := range emitted {
		s1 += uint64(w[j]) * colStat(col)
	}
	if s0 != s1 {
		fail("statistic", "column additive statistic %d before, %d after; %s", s0, s1, describe())
		return
	}
	if len(before) <= 8 {
		if d0, d1 := pairDiffs(orig, nil), pairDiffs(emitted, w); fmt.Sprint(d0) != fmt.Sprint(d1) {
			fail("statistic", "pairwise difference counts %v before, weighted %v after; %s", d0, d1, describe())
			return
		}
	}
	// every access path agrees on the compressed alignment
	if kind, msg := observe(al, after, nil, len(w)); kind != "" {
		fail("access-path:"+kind, "after the call: %s; %s", msg, describe())
		return
	}
	if al.Alphabet() != alphabet {
		fail("alphabet-changed", "alphabet %s -> %s", alphaName(alphabet), alphaName(al.Alphabet()))
		return
	}
	// the copy taken before the call is untouched
	if tw := snapAll(twin); !eqRows(tw, before) || twin.Length() != L0 {
		fail("clone-affected", "a clone taken before the call changed: %s", showRows(tw))
		return
	}
	c.Count("op:Compress")
	c.Count("compress:rows:" + bucket(len(before)))
	switch {
	case L0 == 0:
		c.Count("compress:L=0")
	case len(w) == L0:
		c.Count("compress:all-distinct")
	case len(w) == 1:
		c.Count("compress:single-pattern")
	default:
		c.Count("compress:merged")
	}
	if L0 == 1 {
		c.Count("compress:L=1")
	}
	// order of first occurrence differs from the emitted order with unequal weights:
	// only then can a weight vector in the wrong order be seen
	if len(w) > 1 {
		first := []string{}
		fs := map[string]bool{}
		for _, col := range orig {
			if !fs[col] {
				fs[col] = true
				first = append(first, col)
			}
		}
		diffOrder := false
		for j := range first {
			if first[j] != emitted[j] && mult[first[j]] != mult[emitted[j]] {
				diffOrder = true
			}
		}
		if diffOrder {
			c.Count("compress:emitted-order!=first-occurrence,weights-differ")
		}
		// longest common prefix between two distinct patterns (compressed edges of a prefix tree)
		sc := append([]string{}, emitted...)
		sort.Strings(sc)
		best := 0
		for j := 1; j < len(sc); j++ {
			k := 0
			for k < len(sc[j]) && sc[j][k] == sc[j-1][k] {
				k++
			}
			if k > best {
				best = k
			}
		}
		c.Count("compress:shared-prefix:" + bucket(best))
		c.Max("compress:shared-prefix", best)
	}
	return after, w, true
}

// a second Compress is a no-op up to column order: all weights 1, same pattern set
func checkCompressAgain(c *mon.Case, al align.Alignment, tag string) bool {
	before := snapAll(al)
	L0 := al.Length()
	st := sigTag(before)
	w := al.Compress()
	after := snapAll(al)
	bad := func(format string, a ...interface{}) bool {
		c.Failf("Compress:second-not-noop"+st, "%s second Compress() on the compressed alignment %s\noutput=%s weights=%v\n%s", tag, showRows(before), showRows(after), w, fmt.Sprintf(format, a...))
		return false
	}
	if len(before) == 0 {
		if len(w) != 0 || len(after) != 0 || al.Length() != L0 {
			return bad("empty alignment changed: Length() %d -> %d", L0, al.Length())
		}
		return true
	}
	if len(w) != L0 {
		return bad("%d weights for %d distinct patterns", len(w), L0)
	}
	for _, x := range w {
		if x != 1 {
			return bad("weights are not all 1")
		}
	}
	if len(after) != len(before) {
		return bad("row count changed")
	}
	for i := range after {
		if after[i].Name != before[i].Name || after[i].Comment != before[i].Comment || len(after[i].Seq) != L0 {
			return bad("row %d changed name, comment or length", i)
		}
	}
	a, b := columns(before), columns(after)
	sort.Strings(a)
	sort.Strings(b)
	if fmt.Sprint(a) != fmt.Sprint(b) {
		return bad("the set of patterns changed")
	}
	if kind, msg := observe(al, after, nil, L0); kind != "" {
		c.Failf("Compress:access-path:"+kind+st, "%s after the second Compress(): %s", tag, msg)
		return false
	}
	c.Count("op:Compress-again")
	return true
}

// ---------------------------------------------------------------------------------
// generators

var dedupLens = []int{0, 1, 1, 2, 2, 3, 4, 5, 8, 10, 12, 20, 40, 80}

const wildSyms = "-NnXx"

func pickN(r *gen.Rand) int {
	switch k := r.Intn(100); {
	case k < 2:
		return 0
	case k < 6:
		return 1
	case k < 30:
		return r.Range(2, 3)
	}
	return r.Range(2, 12)
}

func residueMix(r *gen.Rand, nt bool) string {
	if nt {
		s := gen.NtAlphabet(r)
		if r.Chance(0.2) {
			s += "Xx"
		}
		return s
	}
	s := gen.AaAlphabet(r)
	if r.Chance(0.2) {
		s += "Nn"
	}
	return s
}

func toggleCase(b byte) byte {
	switch {
	case b >= 'a' && b <= 'z':
		return b - 32
	case b >= 'A' && b <= 'Z':
		return b + 32
	}
	return b
}

// genDedupSeqs draws the residues of n rows for the de-duplication workload.
func genDedupSeqs(r *gen.Rand, aligned, nt bool) (seqs []string, class string) {
	n := pickN(r)
	L := r.PickInt(dedupLens)
	letters := residueMix(r, nt)
	mkBase := func(gappy bool) string {
		b := []byte(r.Str(L, letters))
		if gappy {
			for i := range b {
				if r.Chance(0.3) {
					b[i] = wildSyms[r.Intn(len(wildSyms))]
				}
			}
		}
		return string(b)
	}
	wildVariant := func(s string) string {
		b := []byte(s)
		for i := range b {
			if strings.IndexByte(wildSyms, b[i]) >= 0 && r.Chance(0.6) {
				b[i] = wildSyms[r.Intn(len(wildSyms))]
			}
		}
		return string(b)
	}
	caseVariant := func(s string) string {
		if r.Chance(0.4) {
			return s
		}
		b := []byte(s)
		for i := range b {
			if r.Chance(0.2) {
				b[i] = toggleCase(b[i])
			}
		}
		return string(b)
	}
	oneOff := func(s string) string {
		if len(s) == 0 || r.Chance(0.35) {
			return s
		}
		b := []byte(s)
		p := r.PickInt([]int{0, len(b) - 1, len(b) / 2, r.Intn(len(b))})
		for tries := 0; tries < 5; tries++ {
			x := letters[r.Intn(len(letters))]
			if x != b[p] {
				b[p] = x
				break
			}
		}
		return string(b)
	}
	k := r.Intn(8)
	if k == 7 && aligned {
		k = 2
	}
	seqs = make([]string, n)
	switch k {
	case 0:
		class = "all-identical"
		b := mkBase(r.Bool())
		for i := range seqs {
			seqs[i] = b
		}
	case 1:
		class = "independent"
		for i := range seqs {
			seqs[i] = mkBase(false)
		}
	case 2:
		class = "few-classes"
		bases := []string{mkBase(false), mkBase(true), mkBase(false)}[:r.Range(1, 3)]
		for i := range seqs {
			seqs[i] = bases[r.Intn(len(bases))]
		}
	case 3:
		class = "wildcard-variants"
		bases := []string{mkBase(true), mkBase(true)}[:r.Range(1, 2)]
		for i := range seqs {
			seqs[i] = wildVariant(bases[r.Intn(len(bases))])
		}
	case 4:
		class = "case-variants"
		b := mkBase(r.Bool())
		for i := range seqs {
			seqs[i] = caseVariant(b)
		}
	case 5:
		class = "one-residue-off"
		b := mkBase(false)
		for i := range seqs {
			seqs[i] = oneOff(b)
		}
	case 6:
		class = "mixed-variants"
		bases := []string{mkBase(true), mkBase(true)}[:r.Range(1, 2)]
		for i := range seqs {
			s := bases[r.Intn(len(bases))]
			switch r.Intn(4) {
			case 0:
				s = wildVariant(s)
			case 1:
				s = oneOff(s)
			case 2:
				s = caseVariant(wildVariant(s))
			}
			seqs[i] = s
		}
	case 7:
		class = "prefixes"
		b := mkBase(r.Bool())
		for i := range seqs {
			switch r.Intn(5) {
			case 0:
				seqs[i] = b
			case 1:
				seqs[i] = b[:r.PickInt([]int{0, len(b) / 2, len(b) - 1 + (1 - sign(len(b))), len(b)})]
			case 2:
				seqs[i] = b[:r.Intn(len(b)+1)]
			case 3:
				seqs[i] = b + string(wildSyms[r.Intn(len(wildSyms))])
			default:
				seqs[i] = wildVariant(b[:r.Intn(len(b)+1)]) + r.PickStr([]string{"", "", "-", "N", "X", "A"})
			}
		}
	}
	if !aligned && k != 7 && r.Chance(0.5) {
		class += "+ragged"
		for i := range seqs {
			if r.Chance(0.3) {
				seqs[i] = seqs[i][:r.Intn(len(seqs[i])+1)]
			}
		}
	}
	return
}

func sign(x int) int {
	if x > 0 {
		return 1
	}
	return 0
}

func nameRows(r *gen.Rand, seqs []string) []row {
	nm := gen.UniqueNames(r, len(seqs), true)
	rows := make([]row, len(seqs))
	for i, s := range seqs {
		rows[i] = row{Name: nm[i], Seq: s}
		if r.Chance(0.3) {
			rows[i].Comment = "comment " + gen.Itoa(i)
		}
	}
	return rows
}

func pickAlphabet(r *gen.Rand, nt bool) int {
	k := r.Intn(100)
	switch {
	case k < 72:
		if nt {
			return align.NUCLEOTIDS
		}
		return align.AMINOACIDS
	case k < 84:
		return align.UNKNOWN
	}
	// declared alphabet that is not the one the residues were drawn for: the
	// wildcard follows the container's alphabet (N is an amino acid, X no nucleotide code)
	if nt {
		return align.AMINOACIDS
	}
	return align.NUCLEOTIDS
}

// ---------------------------------------------------------------------------------
// sub-check: dedup

func runDedup(c *mon.Case) {
	r := c.R
	kind := r.PickStr([]string{"align", "align", "align", "seqbag", "seqbag-unaligned", "seqbag-unaligned", "clone", "cloneseqbag", "unalign"})
	aligned := kind != "seqbag-unaligned"
	nt := r.Chance(0.55)
	seqs, class := genDedupSeqs(r, aligned, nt)
	rows := nameRows(r, seqs)
	alphabet := pickAlphabet(r, nt)
	nAsGap := r.Bool()
	auto := r.Chance(0.1)
	c.Input(map[string]interface{}{"rows": rows, "alphabet": alphaName(alphabet), "autoAlphabet": auto, "container": kind, "nAsGap": nAsGap, "class": class})

	var sb align.SeqBag
	var original align.Alignment
	var err error
	switch kind {
	case "seqbag", "seqbag-unaligned":
		sb, err = mkBag(rows, alphabet)
	default:
		var al align.Alignment
		if al, err = mkAlign(rows, alphabet); err == nil {
			sb = al
			switch kind {
			case "clone":
				original = al
				sb, err = al.Clone()
			case "cloneseqbag":
				original = al
				sb, err = al.CloneSeqBag()
			case "unalign":
				original = al
				sb = al.Unalign()
			}
		}
	}
	if err != nil {
		c.Failf("harness:build", "building the container: %v rows=%s", err, showRows(rows))
		return
	}
	if auto {
		sb.AutoAlphabet()
	}
	input := snapAll(sb)
	if kind != "unalign" && !eqRows(input, rows) {
		c.Failf("harness:build", "container %s differs from the generated rows %s", showRows(input), showRows(rows))
		return
	}
	// a twin for the metamorphic relation
	var twin align.SeqBag
	if al, ok := sb.(align.Alignment); ok {
		twin, err = al.Clone()
	} else {
		twin, err = sb.CloneSeqBag()
	}
	if err != nil {
		c.Failf("harness:build", "clone: %v", err)
		return
	}

	tag := "[" + kind + "]"
	after, removed, ok := checkDedup(c, sb, nAsGap, tag)
	if !ok {
		return
	}
	c.Count("dedup-container:" + kind)
	c.Count("dedup-class:" + class)
	c.Count("dedup:rows:" + bucket(len(input)))
	if !aligned || kind == "unalign" {
		// rows that are proper prefixes of one another
		pp := false
		for i := range input {
			for j := range input {
				if i != j && len(input[i].Seq) < len(input[j].Seq) && strings.HasPrefix(input[j].Seq, input[i].Seq) {
					pp = true
				}
			}
		}
		if pp {
			c.Count("dedup:proper-prefix-rows")
		}
	}
	if len(removed) > 0 && len(input) >= 2 {
		c.NonTrivial(rowsKey(input), alphaName(sb.Alphabet()), fmt.Sprint(nAsGap), kind)
	}
	c.Note("class=%s %d rows -> %d kept, removed %q", class, len(input), len(after), removed)

	// the alignment the container was copied / unaligned from is untouched
	if original != nil {
		if o := snapAll(original); !eqRows(o, rows) {
			c.Failf("Dedup:source-affected"+sigTag(rows), "%s the alignment the de-duplicated container was derived from changed: %s, was %s", tag, showRows(o), showRows(rows))
			return
		}
	}
	// idempotence
	if !checkDedupIdempotent(c, sb, nAsGap, tag) {
		return
	}
	// exact identity is finer than identity up to N/X: Deduplicate(false) after Deduplicate(true) finds nothing
	if nAsGap && r.Bool() {
		if !checkDedupIdempotent(c, sb, false, tag+" exact after n-as-gap") {
			return
		}
	}
	// metamorphic: exact de-duplication first does not change which rows n-as-gap keeps
	if nAsGap {
		if _, err := twin.Deduplicate(false); err != nil {
			c.Failf("Dedup:unexpected-error", "%s twin Deduplicate(false): %v", tag, err)
			return
		}
		if _, err := twin.Deduplicate(true); err != nil {
			c.Failf("Dedup:unexpected-error", "%s twin Deduplicate(true): %v", tag, err)
			return
		}
		if tw := snapAll(twin); !eqRows(tw, after) {
			c.Failf("Dedup:two-step-differs"+sigTag(rows), "%s Deduplicate(false) then Deduplicate(true) keeps %s, Deduplicate(true) alone keeps %s\ninput=%s", tag, showRows(tw), showRows(after), showRows(input))
			return
		}
		c.Count("dedup:two-step-relation")
	}
	// the name of a removed row is free again; the container accepts it as it is
	if len(removed) > 0 {
		name := removed[r.Intn(len(removed))]
		L := 0
		if len(after) > 0 {
			L = len(after[0].Seq)
		}
		if !aligned {
			L = r.Intn(6)
		}
		nr := row{Name: name, Seq: r.Str(L, "ACGT"), Comment: "again"}
		if err := sb.AddSequence(nr.Name, nr.Seq, nr.Comment); err != nil {
			c.Failf("Dedup:add-after", "%s AddSequence(%q) after de-duplication: %v", tag, name, err)
			return
		}
		var rest []string
		for _, x := range removed {
			if x != name {
				rest = append(rest, x)
			}
		}
		want := append(cloneRows(after), nr)
		wl := lengthOf(sb)
		if kind2, msg := observe(sb, want, rest, wl); kind2 != "" {
			c.Failf("Dedup:add-after:"+kind2, "%s after AddSequence(%q) on the de-duplicated container: %s\nexpected %s\ninput=%s", tag, name, msg, showRows(want), showRows(input))
			return
		}
		if al, ok := sb.(align.Alignment); ok && al.Length() != L {
			c.Failf("Dedup:add-after:length", "%s Length()=%d after adding a row of %d residues", tag, al.Length(), L)
			return
		}
		c.Count("dedup:add-removed-name-again")
	}
}

// ---------------------------------------------------------------------------------
// sub-check: compress

var compressLens = []int{0, 1, 1, 2, 2, 3, 4, 5, 6, 8, 10, 12, 16, 20, 30, 40, 60, 80, 80, 150, 300}

func genCompressSeqs(r *gen.Rand) (seqs []string, class string) {
	n := pickN(r)
	if n > 1 && r.Chance(0.25) {
		n = 12
	}
	L := r.PickInt(compressLens)
	nt := r.Chance(0.55)
	letters := residueMix(r, nt)
	if r.Chance(0.3) {
		letters = r.PickStr([]string{"AC", "AC-", "ACGT", "Aa", "AN-", "ILVX", "ac-N"})
	}
	if r.Chance(0.02) {
		letters = "AC\xc3\xa9\xe9\xff\x80"
		class = "non-ascii:"
	}
	cols := make([]string, L)
	pat := func() string { return r.Str(n, letters) }
	k := r.Intn(8)
	switch k {
	case 0:
		class += "few-patterns"
		pool := make([]string, r.Range(1, 4))
		for i := range pool {
			pool[i] = pat()
		}
		for j := range cols {
			// skewed: the first pattern of the pool is the most frequent
			i := 0
			for i < len(pool)-1 && r.Chance(0.4) {
				i++
			}
			cols[j] = pool[i]
		}
	case 1:
		class += "shared-prefix"
		base := pat()
		pool := make([]string, r.Range(2, 6))
		for i := range pool {
			b := []byte(base)
			if n > 0 {
				// same first p rows, then different: p = n-1 (only the last row differs) is the longest shared prefix
				p := r.PickInt([]int{n - 1, n - 1, n - 2, n / 2, 0, r.Intn(n)})
				if p < 0 {
					p = 0
				}
				for q := p; q < n; q++ {
					if q == p || r.Chance(0.4) {
						b[q] = letters[r.Intn(len(letters))]
					}
				}
			}
			pool[i] = string(b)
		}
		for j := range cols {
			cols[j] = pool[r.Intn(len(pool))]
		}
	case 2:
		class += "independent"
		for j := range cols {
			cols[j] = pat()
		}
	case 3:
		class += "identical-rows"
		for j := range cols {
			cols[j] = strings.Repeat(string(letters[r.Intn(len(letters))]), n)
		}
	case 4:
		class += "two-letters"
		l2 := string([]byte{letters[r.Intn(len(letters))], letters[r.Intn(len(letters))]})
		for j := range cols {
			cols[j] = r.Str(n, l2)
		}
	case 5:
		class += "blocks-descending"
		// distinct patterns in descending order, block sizes all different: the order of first
		// occurrence is the reverse of the sorted order and every weight identifies its pattern
		set := map[string]bool{}
		for i := 0; i < 6; i++ {
			set[pat()] = true
		}
		pool := make([]string, 0, len(set))
		for p := range set {
			pool = append(pool, p)
		}
		sort.Sort(sort.Reverse(sort.StringSlice(pool)))
		if r.Chance(0.3) {
			for i, j := range r.Perm(len(pool)) {
				pool[i], pool[j] = pool[j], pool[i]
			}
		}
		j := 0
		for i := 0; j < L; i++ {
			p := pool[i%len(pool)]
			for q := 0; q <= i%len(pool) && j < L; q++ {
				cols[j] = p
				j++
			}
			if i%len(pool) == len(pool)-1 && r.Chance(0.5) {
				break
			}
		}
		for ; j < L; j++ {
			cols[j] = pool[len(pool)-1]
		}
	case 6:
		class += "one-odd-column"
		a, b := pat(), pat()
		for j := range cols {
			cols[j] = a
		}
		if L > 0 {
			cols[r.PickInt([]int{0, L - 1, L / 2})] = b
		}
	case 7:
		class += "case-and-gap-variants"
		base := pat()
		for j := range cols {
			b := []byte(base)
			for q := range b {
				switch r.Intn(6) {
				case 0:
					b[q] = toggleCase(b[q])
				case 1:
					b[q] = '-'
				}
			}
			cols[j] = string(b)
		}
	}
	seqs = make([]string, n)
	buf := make([]byte, L)
	for i := 0; i < n; i++ {
		for j := 0; j < L; j++ {
			buf[j] = cols[j][i]
		}
		seqs[i] = string(buf)
	}
	return
}

func runCompress(c *mon.Case) {
	r := c.R
	seqs, class := genCompressSeqs(r)
	rows := nameRows(r, seqs)
	alphabet := r.PickInt([]int{align.NUCLEOTIDS, align.AMINOACIDS, align.UNKNOWN})
	kind := r.PickStr([]string{"align", "align", "clone", "subalign"})
	in := map[string]interface{}{"rows": rows, "alphabet": alphaName(alphabet), "container": kind, "class": class}
	if nonASCII(rows) {
		in["rows_quoted"] = showRows(rows)
	}
	c.Input(in)
	al, err := mkAlign(rows, alphabet)
	if err != nil {
		c.Failf("harness:build", "building the alignment: %v rows=%s", err, showRows(rows))
		return
	}
	var source align.Alignment
	switch kind {
	case "clone":
		source = al
		if al, err = al.Clone(); err != nil {
			c.Failf("harness:build", "Clone: %v", err)
			return
		}
	case "subalign":
		// the whole alignment as a sub-alignment (another constructor of the same rows)
		if al.Length() > 0 && len(rows) > 0 {
			source = al
			if al, err = al.SubAlign(0, al.Length()); err != nil {
				c.Failf("harness:build", "SubAlign: %v", err)
				return
			}
		}
	}
	if in := snapAll(al); len(in) != len(rows) {
		c.Failf("harness:build", "container %s differs from the generated rows %s", showRows(in), showRows(rows))
		return
	} else {
		for i := range in {
			if in[i].Name != rows[i].Name || in[i].Seq != rows[i].Seq {
				c.Failf("harness:build", "container %s differs from the generated rows %s", showRows(in), showRows(rows))
				return
			}
		}
	}
	tag := "[" + kind + "]"
	srcLen := 0
	if source != nil {
		srcLen = source.Length()
	}
	if al.Length() > 0 && r.Chance(0.15) {
		// a sequence of another length was refused just before: the alignment that is compressed is the one the
		// refusal left (the property speaks of its sites and their multiplicities)
		L := al.Length()
		wrong := r.Str(L+r.PickInt([]int{-1, 1, 3, -L + 1}), "ACGT")
		if len(wrong) == 0 || len(wrong) == L {
			wrong = r.Str(L+1, "ACGT")
		}
		if err := al.AddSequence("refused-before-compress", wrong, ""); err == nil {
			c.Failf("harness:refused-add-accepted", "a row of %d residues was accepted by an alignment of length %d", len(wrong), L)
			return
		}
		tag += "[after a refused AddSequence]"
		c.Count("compress:after-refused-add")
	}
	after, w, ok := checkCompress(c, al, tag)
	if !ok {
		return
	}
	c.Count("compress-container:" + kind)
	c.Count("compress-class:" + class)
	L := 0
	if len(rows) > 0 {
		L = len(rows[0].Seq)
	}
	if len(rows) >= 1 && L >= 2 && len(w) >= 2 && len(w) < L {
		c.NonTrivial(rowsKey(rows))
	}
	c.Note("class=%s %d rows x %d sites -> %d patterns, weights %v", class, len(rows), L, len(w), w)
	if source != nil {
		if o := snapAll(source); !eqRows(o, rows) || source.Length() != srcLen {
			c.Failf("Compress:source-affected"+sigTag(rows), "%s the alignment the compressed one was copied from changed: %s, was %s", tag, showRows(o), showRows(rows))
			return
		}
	}
	if len(rows) == 0 {
		return
	}
	// a copy of the compressed alignment is the compressed alignment
	cp, err := al.Clone()
	if err != nil {
		c.Failf("Compress:clone-after"+sigTag(rows), "%s Clone of the compressed alignment: %v", tag, err)
		return
	}
	if kind2, msg := observe(cp, after, nil, len(w)); kind2 != "" {
		c.Failf("Compress:clone-after:"+kind2+sigTag(rows), "%s clone of the compressed alignment: %s", tag, msg)
		return
	}
	// second compression: nothing left to merge
	if !checkCompressAgain(c, al, tag) {
		return
	}
	// the compressed alignment takes a new row of the new length
	nr := row{Name: "added-after-compress", Seq: r.Str(len(w), "ACGT")}
	if err := al.AddSequence(nr.Name, nr.Seq, ""); err != nil {
		c.Failf("Compress:add-after"+sigTag(rows), "%s AddSequence of a %d residue row on the compressed alignment (%d patterns): %v", tag, len(nr.Seq), len(w), err)
		return
	}
	if L != len(w) {
		if err := al.AddSequence("old-length-row", r.Str(L, "ACGT"), ""); err == nil {
			c.Failf("Compress:add-after-old-length"+sigTag(rows), "%s the compressed alignment (%d patterns) accepted a row with the former length %d", tag, len(w), L)
			return
		}
	}
	c.Count("compress:add-after")
}

// ---------------------------------------------------------------------------------
// sub-check: chain (de-duplication and compression feeding one another)

func runChain(c *mon.Case) {
	r := c.R
	nt := r.Chance(0.6)
	// few distinct rows over few distinct columns: both operations have work to do, and each
	// one creates work for the other (merged columns make rows equal and vice versa)
	n := r.Range(2, 10)
	L := r.PickInt([]int{1, 2, 3, 4, 6, 8, 12, 20, 40})
	letters := r.PickStr([]string{"AC", "AC-", "ACN-", "ACGTN-n", "AX-", "ILVX-x", "Aa"})
	pool := make([]string, r.Range(1, 4))
	for i := range pool {
		pool[i] = r.Str(n, letters)
	}
	cols := make([]string, L)
	for j := range cols {
		if r.Chance(0.8) {
			cols[j] = pool[r.Intn(len(pool))]
		} else {
			cols[j] = r.Str(n, letters)
		}
	}
	seqs := make([]string, n)
	for i := range seqs {
		b := make([]byte, L)
		for j := range b {
			b[j] = cols[j][i]
		}
		seqs[i] = string(b)
	}
	// duplicate some rows
	for i := range seqs {
		if i > 0 && r.Chance(0.4) {
			seqs[i] = seqs[r.Intn(i)]
		}
	}
	rows := nameRows(r, seqs)
	alphabet := pickAlphabet(r, nt)
	al, err := mkAlign(rows, alphabet)
	if err != nil {
		c.Failf("harness:build", "%v", err)
		return
	}
	nops := r.Range(3, 8)
	var hist []string
	in := map[string]interface{}{"rows": rows, "alphabet": alphaName(alphabet)}
	c.Input(in)
	var freed []string
	nd, nc := 0, 0
	worked := 0
	for step := 0; step < nops; step++ {
		tag := fmt.Sprintf("[chain step %d after %v]", step, hist)
		switch k := r.Intn(10); {
		case k < 3:
			nAsGap := r.Bool()
			hist = append(hist, fmt.Sprintf("Deduplicate(%v)", nAsGap))
			in["ops"] = hist
			before := al.NbSequences()
			_, removed, ok := checkDedup(c, al, nAsGap, tag)
			if !ok {
				return
			}
			freed = append(freed, removed...)
			nd++
			if al.NbSequences() < before && step > 0 {
				worked++
			}
		case k < 6:
			hist = append(hist, "Compress()")
			in["ops"] = hist
			before := al.Length()
			if _, _, ok := checkCompress(c, al, tag); !ok {
				return
			}
			nc++
			if al.Length() < before && step > 0 {
				worked++
			}
		case k < 8:
			// a new row equal to an existing one (under the name of a removed row when there is one)
			cur := snapAll(al)
			if len(cur) == 0 {
				continue
			}
			name := "new" + gen.Itoa(step)
			if len(freed) > 0 && r.Bool() {
				name = freed[len(freed)-1]
				freed = freed[:len(freed)-1]
			}
			if _, exists := al.GetSequence(name); exists {
				continue
			}
			src := cur[r.Intn(len(cur))].Seq
			if r.Chance(0.4) && len(src) > 0 {
				b := []byte(src)
				p := r.Intn(len(b))
				b[p] = wildSyms[r.Intn(len(wildSyms))]
				src = string(b)
			}
			hist = append(hist, fmt.Sprintf("AddSequence(%q,%q)", name, src))
			in["ops"] = hist
			if err := al.AddSequence(name, src, ""); err != nil {
				c.Failf("chain:add", "%s AddSequence(%q): %v", tag, name, err)
				return
			}
			want := append(cur, row{Name: name, Seq: src})
			if kind, msg := observe(al, want, freed, len(src)); kind != "" {
				c.Failf("chain:add:"+kind, "%s after AddSequence(%q,%q): %s\nexpected %s", tag, name, src, msg, showRows(want))
				return
			}
			c.Count("chain:add")
		case k < 9:
			// double every column (concatenation with a copy): every weight doubles
			if al.NbSequences() == 0 || al.Length() > 150 {
				continue
			}
			cp, err := al.Clone()
			if err != nil {
				c.Failf("harness:build", "Clone: %v", err)
				return
			}
			cur := snapAll(al)
			hist = append(hist, "Concat(copy)")
			in["ops"] = hist
			if err := al.Concat(cp); err != nil {
				c.Failf("chain:concat", "%s Concat with a copy: %v", tag, err)
				return
			}
			for i := range cur {
				cur[i].Seq += cur[i].Seq
			}
			if kind, msg := observe(al, cur, freed, len(cur[0].Seq)); kind != "" {
				c.Failf("chain:concat:"+kind, "%s after Concat with a copy: %s", tag, msg)
				return
			}
			c.Count("chain:concat")
		default:
			cp, err := al.Clone()
			if err != nil {
				c.Failf("harness:build", "Clone: %v", err)
				return
			}
			hist = append(hist, "continue-on-Clone()")
			in["ops"] = hist
			al = cp
			c.Count("chain:clone")
		}
	}
	c.Count("op:chain")
	c.Add("chain:ops", len(hist))
	if nd > 0 && nc > 0 {
		c.Count("chain:both-operations")
	}
	if worked > 0 {
		c.Count("chain:later-operation-removed-something")
		c.NonTrivial(rowsKey(rows), fmt.Sprint(hist))
	}
	c.Note("ops=%v -> %d rows x %d sites", hist, al.NbSequences(), al.Length())
}

// ---------------------------------------------------------------------------------
// sub-checks: exhaustive small sub-spaces

const exhDedupSyms = "ANXnx-"

// every 3 x 2 container over {A N X n x -} x nAsGap x {nt, aa, unknown} x {alignment, sequence bag}
const exhDedupCount = 46656 * 2 * 3 * 2

func runExhDedup(c *mon.Case) {
	idx := c.Idx % exhDedupCount
	cells := idx % 46656
	idx /= 46656
	nAsGap := idx%2 == 1
	idx /= 2
	alphabet := []int{align.NUCLEOTIDS, align.AMINOACIDS, align.UNKNOWN}[idx%3]
	idx /= 3
	bag := idx%2 == 1
	rows := make([]row, 3)
	for i := range rows {
		b := make([]byte, 2)
		for j := range b {
			b[j] = exhDedupSyms[cells%6]
			cells /= 6
		}
		rows[i] = row{Name: "r" + gen.Itoa(i), Seq: string(b)}
	}
	c.Input(map[string]interface{}{"rows": rows, "alphabet": alphaName(alphabet), "nAsGap": nAsGap, "seqbag": bag})
	var sb align.SeqBag
	var err error
	if bag {
		sb, err = mkBag(rows, alphabet)
	} else {
		sb, err = mkAlign(rows, alphabet)
	}
	if err != nil {
		c.Failf("harness:build", "%v", err)
		return
	}
	_, removed, ok := checkDedup(c, sb, nAsGap, "[exhaustive 3x2]")
	if !ok {
		return
	}
	if !checkDedupIdempotent(c, sb, nAsGap, "[exhaustive 3x2]") {
		return
	}
	c.Count("exh:dedup")
	if len(removed) > 0 {
		c.NonTrivial(rowsKey(rows), alphaName(alphabet), fmt.Sprint(nAsGap), fmt.Sprint(bag))
	}
}

// every sequence of at most Lmax columns over all the patterns of n rows on an alphabet
type exhSpace struct {
	n       int
	letters string
	lmaxQ   int
	lmaxT   int
}

var exhSpaces = []exhSpace{{2, "AC-", 5, 6}, {3, "A-", 5, 6}, {1, "ACa", 7, 9}}

func powSum(k, lmax int) int { // sum_{L=0..lmax} k^L
	s, p := 0, 1
	for L := 0; L <= lmax; L++ {
		s += p
		p *= k
	}
	return s
}

func ipow(b, e int) int {
	p := 1
	for ; e > 0; e-- {
		p *= b
	}
	return p
}

func exhCompressCount(thorough bool) int {
	t := 0
	for _, s := range exhSpaces {
		l := s.lmaxQ
		if thorough {
			l = s.lmaxT
		}
		t += powSum(ipow(len(s.letters), s.n), l)
	}
	return t
}

func runExhCompress(c *mon.Case) {
	idx := c.Idx
	thorough := c.Tier == "thorough"
	for _, s := range exhSpaces {
		k := ipow(len(s.letters), s.n)
		lmax := s.lmaxQ
		if thorough {
			lmax = s.lmaxT
		}
		size := powSum(k, lmax)
		if idx >= size {
			idx -= size
			continue
		}
		L := 0
		for p := 1; idx >= p; p *= k {
			idx -= p
			L++
		}
		seqs := make([][]byte, s.n)
		for i := range seqs {
			seqs[i] = make([]byte, L)
		}
		for j := 0; j < L; j++ {
			p := idx % k
			idx /= k
			for i := 0; i < s.n; i++ {
				seqs[i][j] = s.letters[p%len(s.letters)]
				p /= len(s.letters)
			}
		}
		rows := make([]row, s.n)
		for i := range rows {
			rows[i] = row{Name: "r" + gen.Itoa(i), Seq: string(seqs[i])}
		}
		c.Input(map[string]interface{}{"rows": rows})
		al, err := mkAlign(rows, align.NUCLEOTIDS)
		if err != nil {
			c.Failf("harness:build", "%v", err)
			return
		}
		_, w, ok := checkCompress(c, al, "[exhaustive]")
		if !ok {
			return
		}
		if !checkCompressAgain(c, al, "[exhaustive]") {
			return
		}
		c.Count(fmt.Sprintf("exh:compress:%dx%s", s.n, s.letters))
		if len(w) >= 2 && len(w) < L {
			c.NonTrivial(rowsKey(rows))
		}
		return
	}
}

// ---------------------------------------------------------------------------------
// sub-check: witness (fixed inputs)

type witness struct {
	what     string
	op       string // "dedup" | "dedup-bag" | "compress"
	alphabet int
	nAsGap   bool
	seqs     []string
	wantKept []int // dedup: indices of the rows that stay (nil = decided by the oracle only)
}

var witnesses = []witness{
	// defects found on goalign
	{what: "Compress on an alignment without sequence set its length to 0: the empty alignment then refused every sequence", op: "compress", alphabet: align.NUCLEOTIDS, seqs: []string{}},
	{what: "Compress rewrote the columns rune by rune: bytes >= 0x80 were decoded as UTF-8 and the columns corrupted", op: "compress", alphabet: align.UNKNOWN, seqs: []string{"A\xc3A\xe9", "C\xa9C\xe9", "GGGG"}},
	{what: "Compress, a column spelling a valid 2 byte UTF-8 sequence", op: "compress", alphabet: align.UNKNOWN, seqs: []string{"\xc3A\xc3", "\xa9C\xa9"}},
	// documentation examples
	{what: "docs/commands/compress.md", op: "compress", alphabet: align.NUCLEOTIDS, seqs: []string{"GGGGGGGGGGGGGGGGGGGG", "TTTTTTTTTTTTTTTTTTTT", "GGGGGGGGGGCCCCTTTTTT", "AAAAAAAAAAAAAAAAAAAA"}},
	{what: "docs/commands/dedup.md", op: "dedup", alphabet: align.NUCLEOTIDS, seqs: []string{"GGGGGG", "AAAAAA", "CCCCCC", "GGGGGG", "GGGGGG"}, wantKept: []int{0, 1, 2}},
	// boundary cases the random workload hits rarely
	{what: "n-as-gap, nucleotides: N is a gap, X is not", op: "dedup", alphabet: align.NUCLEOTIDS, nAsGap: true, seqs: []string{"ACN", "AC-", "ACX", "AC-", "NCN", "-C-"}, wantKept: []int{0, 2, 4}},
	{what: "n-as-gap, proteins: X is a gap, N (asparagine) is not", op: "dedup", alphabet: align.AMINOACIDS, nAsGap: true, seqs: []string{"LKX", "LK-", "LKN", "LK-", "XKX", "-K-", "NKN"}, wantKept: []int{0, 2, 4, 6}},
	{what: "without n-as-gap nothing but identical residues merges", op: "dedup", alphabet: align.NUCLEOTIDS, seqs: []string{"ACN", "AC-", "ACN", "ACX"}, wantKept: []int{0, 1, 3}},
	{what: "unaligned rows that are proper prefixes of one another", op: "dedup-bag", alphabet: align.NUCLEOTIDS, seqs: []string{"AC", "ACG", "A", "", "AC", "ACGT", "", "A"}, wantKept: []int{0, 1, 2, 3, 5}},
	{what: "unaligned, n-as-gap: a trailing N equals a trailing gap, not the shorter row", op: "dedup-bag", alphabet: align.NUCLEOTIDS, nAsGap: true, seqs: []string{"AC", "ACN", "AC-", "AC"}, wantKept: []int{0, 1}},
	{what: "representative is the first, not the last, of a group in the middle", op: "dedup", alphabet: align.AMINOACIDS, seqs: []string{"LL", "KK", "LL", "KK", "LL", "QQ"}, wantKept: []int{0, 1, 5}},
	{what: "all rows identical", op: "dedup", alphabet: align.NUCLEOTIDS, seqs: []string{"ACGT", "ACGT", "ACGT", "ACGT"}, wantKept: []int{0}},
	{what: "single row", op: "dedup", alphabet: align.NUCLEOTIDS, nAsGap: true, seqs: []string{"NNNN"}, wantKept: []int{0}},
	{what: "no row", op: "dedup", alphabet: align.NUCLEOTIDS, seqs: []string{}},
	{what: "rows of length 0", op: "dedup", alphabet: align.NUCLEOTIDS, seqs: []string{"", "", ""}, wantKept: []int{0}},
	{what: "compress: one row", op: "compress", alphabet: align.NUCLEOTIDS, seqs: []string{"ACCAGTTAAC"}},
	{what: "compress: one column", op: "compress", alphabet: align.NUCLEOTIDS, seqs: []string{"A", "C", "G"}},
	{what: "compress: rows of length 0", op: "compress", alphabet: align.NUCLEOTIDS, seqs: []string{"", ""}},
	{what: "compress: 12 rows, patterns sharing the first 11 rows, first occurrences in descending order with distinct weights", op: "compress", alphabet: align.NUCLEOTIDS,
		seqs: []string{"AAAAAAAAAA", "CCCCCCCCCC", "GGGGGGGGGG", "TTTTTTTTTT", "AAAAAAAAAA", "CCCCCCCCCC", "GGGGGGGGGG", "TTTTTTTTTT", "AAAAAAAAAA", "CCCCCCCCCC", "GGGGGGGGGG", "TGGGGCCCAA"}},
	{what: "compress: a pattern that is the prefix of the next one but for the last row; case matters", op: "compress", alphabet: align.AMINOACIDS, seqs: []string{"LLLLll", "KKKKKK", "QqQqQQ"}},
	{what: "compress: first occurrence order T.. C.. A.. with weights 1,2,3", op: "compress", alphabet: align.NUCLEOTIDS, seqs: []string{"TCCAAA", "TCCAAA"}},
}

func runWitness(c *mon.Case) {
	w := witnesses[c.Idx%len(witnesses)]
	rows := make([]row, len(w.seqs))
	for i, s := range w.seqs {
		rows[i] = row{Name: "s" + gen.Itoa(i), Seq: s, Comment: ""}
	}
	c.Input(map[string]interface{}{"what": w.what, "op": w.op, "rows_quoted": showRows(rows), "alphabet": alphaName(w.alphabet), "nAsGap": w.nAsGap})
	tag := "[witness: " + w.what + "]"
	c.Count("witness")
	c.NonTrivial(w.what)
	switch w.op {
	case "compress":
		al, err := mkAlign(rows, w.alphabet)
		if err != nil {
			c.Failf("harness:build", "%v", err)
			return
		}
		if _, _, ok := checkCompress(c, al, tag); !ok {
			return
		}
		if !checkCompressAgain(c, al, tag) {
			return
		}
	default:
		var sb align.SeqBag
		var err error
		if w.op == "dedup-bag" {
			sb, err = mkBag(rows, w.alphabet)
		} else {
			sb, err = mkAlign(rows, w.alphabet)
		}
		if err != nil {
			c.Failf("harness:build", "%v", err)
			return
		}
		after, _, ok := checkDedup(c, sb, w.nAsGap, tag)
		if !ok {
			return
		}
		if w.wantKept != nil {
			var want []row
			for _, i := range w.wantKept {
				want = append(want, rows[i])
			}
			if !eqRows(after, want) {
				c.Failf("Dedup:kept-rows", "%s kept %s, expected %s", tag, showRows(after), showRows(want))
				return
			}
		}
		if !checkDedupIdempotent(c, sb, w.nAsGap, tag) {
			return
		}
	}
}

func main() {
	mon.SetNote("rule", "dedup: random container (alignment / sequence bag, aligned or unaligned / clone / unaligned copy; 0..12 rows x 0..80 residues; nt or aa residue mixes with both cases, gaps, N, X; declared alphabet nt / aa / unknown, also the one the residues were not drawn for) whose rows are copies, wildcard variants (positions redrawn among - N n X x), case variants, one-residue-off variants or prefixes of a few base rows, x nAsGap; decided by a first-occurrence scan over the rows (ref.go) plus partition / leader / order / untouched-row checks, idempotence, the two-step relation Deduplicate(false);Deduplicate(true) == Deduplicate(true), re-adding a removed name, and a read back through every access path and the invariant hook. compress: random alignment (0..12 rows x 0..300 sites) whose columns are drawn from few patterns, patterns sharing the first k rows (k up to n-1 = 11), blocks in descending order with pairwise different sizes, identical rows, one odd column, case/gap variants; decided by comparing the multiset of input columns with {emitted column j : weight j}, pairwise distinct emitted columns, weight sum, two column additive statistics, unchanged names/comments/order, every access path, a second Compress (all weights 1), a clone taken before (unchanged) and after (equal), adding a row of the new / former length. chain: 3..8 operations (Deduplicate, Compress, AddSequence of a copy under a freed name, Concat with a copy, continue on a clone) each decided as above. Non-trivial: dedup = at least 2 rows and at least one removed; compress = at least 2 patterns and fewer patterns than sites; chain = a Deduplicate/Compress after the first operation removed something. Distinct = (rows, alphabet, options / operation list). cli: the goalign binary built from the tree: `dedup` (-l/--log or no log, --n-as-gap, --name on files with repeated names, --alphabet omitted/auto/nt/aa, --unaligned, -o or stdout) and `compress` (--weight-out or none, -o or stdout) on a FASTA alignment, FASTA sequences of unequal length (--unaligned, also with -p/-x/-u which are documented as ignored), 1..3 Phylip alignments (-p, --one-line/--no-block) or --auto-detect, with the sequence generators of the dedup / compress sub-checks; the written alignments, the groups of the log file and the weights are compared with refDedup under the admissible readings resp. with the column multiset of the input; non-trivial = a row was removed / two columns were merged.")
	mon.SetNote("assumptions", "identity of sequences = equality of the residue bytes; the documentation says 'X/N (depending on alphabet) are considered identical to GAPS': N for a nucleotide container, X for a protein one, upper case as documented; accepted as well (nobody specifies them, one reading must explain the whole result of a call): lower case n / x also compared as gaps, letter case ignored in the comparison, and for a container of unknown alphabet any of none / N / X / both;; order of the groups and of the followers inside a group is free (the statement fixes the leader and the partition);; order of the emitted patterns is free ('order of patterns/sites may have changed'), weights[j] belongs to emitted column j;; an alignment without sequence has nothing to compress: it must stay an empty alignment (Length() unchanged, accepts a first sequence);; sequence names are pairwise distinct (containers with duplicated names are property C01's subject);; the input of every operation is the container read through IterateAll just before the call;; violations on inputs holding bytes >= 0x80 carry the suffix ':non-ascii' in their signature;; command line: the alphabet of a file is the one given with --alphabet nt/aa, else the documented letter classes (a letter among Q E I L F P Z: protein; U or O: nucleotide); when the letters fit both alphabets N or X (or both) must act as the wildcard of --n-as-gap, 'no wildcard' is not accepted; --alphabet is documented as 'Alignment/Sequences alphabet' and is therefore expected to hold with --unaligned too; --name ('by name instead of sequence ... only the first appears in the output file'): the first row of every name is written, sequences are not compared, the content of the log file is not judged; the log holds one line per kept row (a group, comma separated, singletons included), the lines of the alignments of one file follow each other; the weight file holds one weight per written pattern, alignment after alignment; with the default 'none' of -l / --weight-out no file is written; names contain no comma and no blank; global reading options (--input-strict, --ignore-identical on its own, -x/-u/-k input) belong to C02/C03")
	mon.SetNote("exhaustive_subspaces", "exh-dedup: every 3 rows x 2 residues container over {A,N,X,n,x,-} x nAsGap on/off x declared alphabet nt/aa/unknown x alignment (279936 cases, quick tier) and sequence bag as well (559872 cases, thorough tier); exh-compress: every column sequence of length 0..5 (thorough 0..6) over all 9 patterns of 2 rows on {A,C,-} and all 8 patterns of 3 rows on {A,-}, and every single row of length 0..7 (thorough 0..9) on {A,C,a}")
	for _, k := range []string{"align", "seqbag", "seqbag-unaligned", "clone", "cloneseqbag", "unalign"} {
		mon.Floor("dedup-container:"+k, 500)
	}
	for _, k := range []string{"all-identical", "independent", "few-classes", "wildcard-variants", "case-variants", "one-residue-off", "mixed-variants", "prefixes"} {
		mon.Floor("dedup-class:"+k, 500)
	}
	for _, a := range []string{"nt", "aa", "unknown"} {
		mon.Floor("dedup:nAsGap=true:"+a, 500)
		mon.Floor("dedup:nAsGap=false:"+a, 500)
	}
	mon.Floor("dedup:nAsGap-merges-more-than-exact", 1000)
	mon.Floor("dedup:proper-prefix-rows", 500)
	mon.Floor("dedup:group-led-by-later-row", 1000)
	mon.Floor("dedup:removed>0,kept>1", 1000)
	mon.Floor("dedup:all-identical", 300)
	mon.Floor("dedup:all-distinct", 300)
	mon.Floor("dedup:add-removed-name-again", 1000)
	mon.Floor("dedup:two-step-relation", 1000)
	for _, k := range []string{"few-patterns", "shared-prefix", "independent", "identical-rows", "two-letters", "blocks-descending", "one-odd-column", "case-and-gap-variants"} {
		mon.Floor("compress-class:"+k, 500)
	}
	mon.Floor("compress:merged", 5000)
	mon.Floor("compress:single-pattern", 300)
	mon.Floor("compress:all-distinct", 300)
	mon.Floor("compress:L=0", 50)
	mon.Floor("compress:L=1", 300)
	mon.Floor("compress:empty-alignment", 50)
	mon.Floor("compress:emitted-order!=first-occurrence,weights-differ", 2000)
	mon.Floor("compress:shared-prefix:10+", 500)
	mon.Floor("compress:add-after", 1000)
	mon.Floor("op:Compress-again", 1000)
	mon.Floor("op:Deduplicate-again", 1000)
	mon.Floor("chain:both-operations", 1000)
	mon.Floor("chain:later-operation-removed-something", 1000)
	mon.Floor("q:exh:dedup", exhDedupCount/2)
	mon.Floor("t:exh:dedup", exhDedupCount)
	mon.Floor("witness", len(witnesses))
	// sub cli: goalign dedup / goalign compress
	mon.Floor("cli:runs", 200)
	mon.Floor("long-alignments", 4)
	mon.Floor("many:distinct>100", 20)
	mon.Floor("cli:outcome:ok", 250)
	mon.Floor("cli:dedup", 150)
	mon.Floor("cli:compress", 80)
	for _, md := range []string{"fasta", "phylip", "unaligned", "auto-fasta", "auto-phylip", "clustal", "auto-clustal"} {
		mon.Floor("cli:dedup:mode:"+md, 12)
	}
	for _, md := range []string{"fasta", "phylip", "auto-fasta", "auto-phylip"} {
		mon.Floor("cli:compress:mode:"+md, 10)
	}
	for _, k := range []string{"n-as-gap=true", "n-as-gap=false", "log=true", "name=false"} {
		mon.Floor("cli:dedup:"+k, 60)
	}
	mon.Floor("cli:dedup:log=false", 20)
	mon.Floor("cli:dedup:removed>0", 50)
	mon.Floor("cli:dedup:n-as-gap-merges-more-than-exact", 25)
	for _, a := range []string{"nt", "aa", "auto"} {
		mon.Floor("cli:dedup:alphabet:"+a, 6)
	}
	mon.Floor("cli:dedup:several-alignments", 30)
	mon.Floor("cli:dedup:output:stdout", 20)
	mon.Floor("cli:dedup:output:file", 60)
	mon.Floor("cli:compress:weight-out=true", 40)
	mon.Floor("cli:compress:weight-out=false", 8)
	mon.Floor("cli:compress:merged", 30)
	mon.Floor("cli:compress:several-alignments", 20)
	mon.Floor("cli:compress:output:stdout", 8)
	mon.Floor("concurrent:calls", 2000)
	for _, s := range sums32 {
		mon.Floor("collisions:"+s.name, 2)
	}
	mon.Main("C13", []mon.Sub{
		{Name: "witness", Quick: len(witnesses), Thorough: len(witnesses), Run: runWitness},
		{Name: "dedup", Quick: 150000, Thorough: 4000000, Run: runDedup},
		{Name: "compress", Quick: 120000, Thorough: 3000000, Run: runCompress},
		{Name: "chain", Quick: 40000, Thorough: 1000000, Run: runChain},
		{Name: "exh-dedup", Quick: exhDedupCount / 2, Thorough: exhDedupCount, Run: runExhDedup},
		{Name: "exh-compress", Quick: exhCompressCount(false), Thorough: exhCompressCount(true), Run: runExhCompress},
		{Name: "long", Quick: 4, Thorough: 16, Run: runLong},
		{Name: "many", Quick: 20, Thorough: 200, Run: runMany},
		{Name: "collisions", Quick: 10, Thorough: 60, Run: runCollisions},
		{Name: "concurrent", Quick: 96, Thorough: 1600, Race: true, Run: runConcurrent},
		{Name: "cli", Quick: 330, Thorough: 3000, Serial: true, Run: runCli},
	})
}
