// cli sub-check of C13: the same rules through `goalign dedup` (cmd/dedup.go: -l log file, --n-as-gap,
// --name, --unaligned, -o) and `goalign compress` (cmd/compress.go: --weight-out, -o). The binary is
// built once per process from the tree under test (VERIF_REPO) into the scratch directory; every case
// has its own directory, writes one input file (FASTA alignment, FASTA sequences of unequal length for
// --unaligned, Phylip with 1..3 alignments for -p, either for --auto-detect), runs the command and
// compares the alignments written, the groups of the log file and the weights of the weight file with
// the reference rules of ref.go (refDedup under the admissible readings, column multiset and weights).
package main

import (
	"bytes"
	"compress/gzip"
	"context"
	"fmt"
	"io"
	"os"
	"os/exec"
	"path/filepath"
	"sort"
	"strconv"
	"strings"
	"time"

	"github.com/evolbioinfo/goalign/align"

	"verif/lib/fmtio"
	"verif/lib/gen"
	"verif/lib/mon"
)

var cliBin, cliDir, cliBuildErr string

func cliSetup() bool {
	if cliBin != "" {
		return true
	}
	if cliBuildErr != "" {
		return false
	}
	repo := os.Getenv("VERIF_REPO")
	if repo == "" {
		repo = "/repo"
	}
	scratch := os.Getenv("VERIF_SCRATCH")
	if scratch == "" {
		scratch = os.TempDir()
	}
	dir, err := os.MkdirTemp(scratch, "c13-cli-")
	if err != nil {
		cliBuildErr = err.Error()
		fmt.Fprintln(os.Stderr, "c13 cli: "+cliBuildErr)
		return false
	}
	bin := filepath.Join(dir, "goalign")
	cmd := exec.Command("go", "build", "-o", bin, ".")
	cmd.Dir = repo
	env := []string{}
	for _, e := range os.Environ() {
		if !strings.HasPrefix(e, "GOFLAGS=") {
			env = append(env, e)
		}
	}
	cmd.Env = append(env, "GOFLAGS=-mod=readonly", "GOPROXY=off", "GOSUMDB=off", "GOTOOLCHAIN=local")
	if out, err := cmd.CombinedOutput(); err != nil {
		cliBuildErr = fmt.Sprintf("go build of %s failed: %v\n%s", repo, err, out)
		fmt.Fprintln(os.Stderr, "c13 cli: "+cliBuildErr)
		os.RemoveAll(dir)
		return false
	}
	cliBin, cliDir = bin, dir
	return true
}

// cliRun runs the binary in dir; exit = -1 when it had to be killed after 60 s.
func cliRun(dir string, args []string) (stdout, stderr string, exit int) {
	ctx, cancel := context.WithTimeout(context.Background(), 60*time.Second)
	defer cancel()
	cmd := exec.CommandContext(ctx, cliBin, args...)
	cmd.Dir = dir
	var so, se bytes.Buffer
	cmd.Stdout, cmd.Stderr = &so, &se
	err := cmd.Run()
	if ctx.Err() != nil {
		return so.String(), se.String(), -1
	}
	if err != nil {
		exit = 1
		if ee, ok := err.(*exec.ExitError); ok {
			exit = ee.ExitCode()
		}
	}
	return so.String(), se.String(), exit
}

func cliParseFasta(s string) []row {
	rows := []row{}
	for _, ln := range strings.Split(s, "\n") {
		ln = strings.TrimRight(ln, "\r")
		if strings.HasPrefix(ln, ">") {
			rows = append(rows, row{Name: ln[1:]})
		} else if len(rows) > 0 {
			rows[len(rows)-1].Seq += strings.TrimSpace(ln)
		}
	}
	return rows
}

// cliParsePhylip reads the (relaxed, possibly interleaved) Phylip text goalign writes, one or several alignments.
func cliParsePhylip(s string) ([][]row, error) {
	var out [][]row
	lines := strings.Split(s, "\n")
	i := 0
	next := func() (string, bool) {
		for i < len(lines) {
			l := strings.TrimRight(lines[i], "\r")
			i++
			if strings.TrimSpace(l) != "" {
				return l, true
			}
		}
		return "", false
	}
	for {
		hd, ok := next()
		if !ok {
			return out, nil
		}
		f := strings.Fields(hd)
		if len(f) != 2 {
			return out, fmt.Errorf("phylip header expected, got %q", hd)
		}
		n, e1 := strconv.Atoi(f[0])
		L, e2 := strconv.Atoi(f[1])
		if e1 != nil || e2 != nil || n < 0 || L < 0 {
			return out, fmt.Errorf("phylip header expected, got %q", hd)
		}
		rows := make([]row, n)
		if L == 0 {
			out = append(out, rows)
			continue
		}
		for k := 0; k < n; k++ {
			l, ok := next()
			if !ok {
				return out, fmt.Errorf("phylip: %d rows announced, %d found", n, k)
			}
			ff := strings.Fields(l)
			rows[k] = row{Name: ff[0], Seq: strings.Join(ff[1:], "")}
		}
		for n > 0 && len(rows[0].Seq) < L {
			for k := 0; k < n; k++ {
				l, ok := next()
				if !ok {
					return out, fmt.Errorf("phylip: rows shorter than the announced length %d", L)
				}
				rows[k].Seq += strings.Join(strings.Fields(l), "")
			}
		}
		for k := range rows {
			if len(rows[k].Seq) != L {
				return out, fmt.Errorf("phylip: row %d holds %d residues, header says %d", k, len(rows[k].Seq), L)
			}
		}
		out = append(out, rows)
	}
}

type cliCase struct {
	Cmd      string   `json:"command"` // dedup | compress
	Mode     string   `json:"mode"`    // fasta | phylip | auto-fasta | auto-phylip | unaligned
	Alns     [][]row  `json:"alignments"`
	NAsGap   bool     `json:"n_as_gap"`
	ByName   bool     `json:"name"`
	Log      bool     `json:"log_file"`      // -l given (dedup)
	Weights  bool     `json:"weight_out"`    // --weight-out given (compress)
	Alphabet string   `json:"alphabet_flag"` // "": flag not given
	Stdout   bool     `json:"to_stdout"`
	Extra    []string `json:"extra_flags,omitempty"`
	Class    string   `json:"class,omitempty"`
	Args     []string `json:"args"`
	WantRows [][]row  `json:"expected_rows_literal,omitempty"`
	WantLog  []string `json:"expected_log_literal,omitempty"`
	WantW    []int    `json:"expected_weights_literal,omitempty"`
}

func lits(names string, seqs ...string) []row {
	nn := strings.Fields(names)
	out := make([]row, len(seqs))
	for i := range seqs {
		out[i] = row{Name: nn[i], Seq: seqs[i]}
	}
	return out
}

// fixed command lines
var cliWitnesses = []cliCase{
	// the example of the help text of dedup
	{Cmd: "dedup", Mode: "phylip", Alns: [][]row{lits("1 2 3 4", "AAAAAA", "CCCCCC", "GGGGGG", "GGGGGG")}, Stdout: true, WantRows: [][]row{lits("1 2 3", "AAAAAA", "CCCCCC", "GGGGGG")}},
	{Cmd: "dedup", Mode: "phylip", Alns: [][]row{lits("1 2 3 4", "AAAAAA", "CCCCCC", "GGGGGG", "GGGGGG")}, Log: true, WantRows: [][]row{lits("1 2 3", "AAAAAA", "CCCCCC", "GGGGGG")}, WantLog: []string{"1", "2", "3,4"}},
	// --n-as-gap: N for nucleotides, X for proteins, and only with the flag
	{Cmd: "dedup", Mode: "fasta", Alns: [][]row{lits("a b c d", "ACGT-A", "ACGTNA", "ACGTXA", "ACGTAA")}, NAsGap: true, Log: true, Alphabet: "nt", WantRows: [][]row{lits("a c d", "ACGT-A", "ACGTXA", "ACGTAA")}, WantLog: []string{"a,b", "c", "d"}},
	{Cmd: "dedup", Mode: "fasta", Alns: [][]row{lits("a b c d", "ACGT-A", "ACGTNA", "ACGTXA", "ACGTAA")}, NAsGap: false, Log: true, Alphabet: "nt", WantRows: [][]row{lits("a b c d", "ACGT-A", "ACGTNA", "ACGTXA", "ACGTAA")}, WantLog: []string{"a", "b", "c", "d"}},
	{Cmd: "dedup", Mode: "fasta", Alns: [][]row{lits("a b c d", "MEL-A", "MELNA", "MELXA", "MELAA")}, NAsGap: true, Log: true, WantRows: [][]row{lits("a b d", "MEL-A", "MELNA", "MELAA")}, WantLog: []string{"a,c", "b", "d"}},
	{Cmd: "dedup", Mode: "unaligned", Alns: [][]row{lits("a b c d", "MEL-A", "MELNA", "MELXA", "MEL")}, NAsGap: true, Log: true, WantRows: [][]row{lits("a b d", "MEL-A", "MELNA", "MEL")}, WantLog: []string{"a,c", "b", "d"}},
	{Cmd: "dedup", Mode: "unaligned", Alns: [][]row{lits("a b c d", "ACGT-A", "ACGTNA", "ACGT", "ACGT-A")}, NAsGap: false, Log: true, WantRows: [][]row{lits("a b c", "ACGT-A", "ACGTNA", "ACGT")}, WantLog: []string{"a,d", "b", "c"}},
	// the alphabet given on the command line decides the wildcard, in both input modes
	{Cmd: "dedup", Mode: "fasta", Alns: [][]row{lits("a b c", "AX-A", "A--A", "AN-A")}, NAsGap: true, Log: true, Alphabet: "aa", WantRows: [][]row{lits("a c", "AX-A", "AN-A")}, WantLog: []string{"a,b", "c"}},
	{Cmd: "dedup", Mode: "unaligned", Alns: [][]row{lits("a b c", "AX-A", "A--A", "AN-A")}, NAsGap: true, Log: true, Alphabet: "aa", WantRows: [][]row{lits("a c", "AX-A", "AN-A")}, WantLog: []string{"a,b", "c"}},
	{Cmd: "dedup", Mode: "unaligned", Alns: [][]row{lits("a b c", "AX-A", "A--A", "AN-A")}, NAsGap: true, Log: true, Alphabet: "nt", WantRows: [][]row{lits("a b", "AX-A", "A--A")}, WantLog: []string{"a", "b,c"}},
	// --name: by name instead of by sequence
	{Cmd: "dedup", Mode: "fasta", Alns: [][]row{lits("a b a c", "ACGT", "ACGA", "TTTT", "ACGT")}, ByName: true, WantRows: [][]row{lits("a b c", "ACGT", "ACGA", "ACGT")}},
	{Cmd: "dedup", Mode: "unaligned", Alns: [][]row{lits("a b a c", "ACGT", "ACGA", "TT", "ACGT")}, ByName: true, Stdout: true, WantRows: [][]row{lits("a b c", "ACGT", "ACGA", "ACGT")}},
	{Cmd: "dedup", Mode: "phylip", Alns: [][]row{lits("a b a", "ACGT", "ACGT", "ACGT"), lits("x x", "AC", "GG")}, ByName: true, WantRows: [][]row{lits("a b", "ACGT", "ACGT"), lits("x", "AC")}},
	// several alignments in one file: each on its own, the log holds the groups of all of them
	{Cmd: "dedup", Mode: "phylip", Alns: [][]row{lits("a b c", "AC-T", "ACNT", "AC-T"), lits("c b a", "GG", "GG", "GC"), lits("z", "A")}, NAsGap: true, Log: true, Alphabet: "nt",
		WantRows: [][]row{lits("a", "AC-T"), lits("c a", "GG", "GC"), lits("z", "A")}, WantLog: []string{"a,b,c", "c,b", "a", "z"}},
	// the example of the help text of compress
	{Cmd: "compress", Mode: "phylip", Alns: [][]row{lits("1 2 3 4", "GGGGGGGGGGGGGGGGGGGG", "TTTTTTTTTTTTTTTTTTTT", "GGGGGGGGGGCCCCCCCCCC", "AAAAAAAAAAAAAAAAAAAA")}, Weights: true, WantW: []int{10, 10}},
	{Cmd: "compress", Mode: "fasta", Alns: [][]row{lits("a b", "ACACAAC", "GGTGGGT")}, Weights: true, Stdout: true},
	{Cmd: "compress", Mode: "phylip", Alns: [][]row{lits("a b", "ACACAAC", "GGTGGGT"), lits("b", "TTTTA"), lits("a b c", "A-", "A-", "CA")}, Weights: true},
	{Cmd: "compress", Mode: "auto-phylip", Alns: [][]row{lits("a b", "ACACAAC", "GGTGGGT"), lits("b", "TTTTA")}, Weights: false},
}

var cliNamePools = [][]string{
	{"s0", "s1", "s2", "s3", "s4", "s5", "s6", "s7", "s8", "s9", "s10", "s11"},
	{"Seq0000", "seq0000", "A|b/c.1", "sp#7", "x_y", "GAP", "1a", "N", "é", "s-1", "s0_0001", "X"},
	{"iso50%GC", "cov100%", "%d", "a%sb", "%!v", "100%_id", "%%", "p%20q", "x%", "%x", "r%5.2f", "plain"}, // names are data, never a format
	{"1", "2", "3", "4", "5", "6", "7", "8", "9", "10", "11", "12"},
}

// content of the case: ok=false when it cannot be written to a FASTA / Phylip file as it is
func cliWritable(seqs []string) bool {
	if len(seqs) == 0 {
		return false
	}
	for _, s := range seqs {
		if len(s) == 0 {
			return false
		}
		for i := 0; i < len(s); i++ {
			if s[i] <= ' ' || s[i] >= 0x7f || s[i] == '>' {
				return false
			}
		}
	}
	return true
}

const cliBothLetters = "ACBRG?-.*DKSHMNVXTWY"

// cliAlphabetOf: what `--alphabet auto` must answer by the letter classes of the documentation, or
// align.UNKNOWN when the content fits both alphabets (noClass=false) or none of them (noClass=true)
func cliAlphabetOf(rows []row) (alpha int, noClass bool) {
	ntOnly, aaOnly, other := false, false, false
	for _, x := range rows {
		for i := 0; i < len(x.Seq); i++ {
			ch := x.Seq[i]
			if ch >= 'a' && ch <= 'z' {
				ch -= 32
			}
			switch {
			case strings.IndexByte(cliBothLetters, ch) >= 0:
			case ch == 'U' || ch == 'O':
				ntOnly = true
			case strings.IndexByte("QEILFPZ", ch) >= 0:
				aaOnly = true
			default:
				other = true
			}
		}
	}
	switch {
	case other || (ntOnly && aaOnly):
		return align.UNKNOWN, true
	case aaOnly:
		return align.AMINOACIDS, false
	case ntOnly:
		return align.NUCLEOTIDS, false
	}
	return align.UNKNOWN, false
}

func cliFits(rows []row, alpha string) bool {
	set := cliBothLetters + "UO"
	if alpha == "aa" {
		set = cliBothLetters + "QEILFPZ"
	}
	for _, x := range rows {
		if strings.Trim(strings.ToUpper(x.Seq), set) != "" {
			return false
		}
	}
	return true
}

func genCli(r *gen.Rand, idx int) cliCase {
	k := cliCase{}
	k.Cmd = []string{"dedup", "dedup", "compress"}[idx%3]
	modes := []string{"fasta", "phylip", "unaligned", "auto-phylip", "phylip", "unaligned", "auto-fasta", "clustal", "auto-clustal"}
	if k.Cmd == "compress" {
		modes = []string{"fasta", "phylip", "phylip", "auto-phylip", "auto-fasta", "auto-clustal"}
	}
	k.Mode = modes[(idx/3)%len(modes)]
	aligned := k.Mode != "unaligned"
	phy := strings.HasSuffix(k.Mode, "phylip")
	na := 1
	if phy {
		na = r.PickInt([]int{1, 2, 2, 3, 3})
	}
	nt := r.Chance(0.55)
	pool := cliNamePools[r.PickInt([]int{0, 0, 1, 2, 3})]
	if strings.HasSuffix(k.Mode, "clustal") {
		pool = cliNamePools[r.PickInt([]int{0, 3})] // the input file is written by goalign's own Clustal writer: plain names
	}
	if k.Cmd == "dedup" {
		k.NAsGap = (idx/3/len(modes))%2 == 0
	}
	for a := 0; a < na; a++ {
		var seqs []string
		twin := k.Cmd == "dedup" && r.Chance(0.6) // two rows that differ by wildcard / gap only: where the flag decides, in both directions
		wantWild := k.NAsGap && twin && r.Chance(0.7)
		for {
			var class string
			if k.Cmd == "dedup" {
				seqs, class = genDedupSeqs(r, aligned, nt)
				if wantWild && !strings.Contains(class, "wildcard") && !strings.Contains(class, "mixed") {
					continue
				}
			} else {
				seqs, class = genCompressSeqs(r)
			}
			if cliWritable(seqs) && len(seqs[0]) <= 150 {
				k.Class = class
				break
			}
		}
		if twin && len(seqs) >= 2 {
			// two rows that are the same sequence only when the wildcard of the alphabet counts as a gap
			i := 1 + r.Intn(len(seqs)-1)
			j := r.Intn(i)
			w := byte('N')
			if !nt {
				w = 'X'
			}
			a, b := []byte(seqs[j]), []byte(seqs[j])
			for t, np := 0, r.Range(1, 3); t < np; t++ {
				p := r.Intn(len(a))
				a[p], b[p] = '-', w
				if r.Bool() {
					a[p], b[p] = w, '-'
				}
			}
			seqs[j], seqs[i] = string(a), string(b)
		}
		perm := r.Perm(len(pool))
		rows := make([]row, len(seqs))
		for i, s := range seqs {
			rows[i] = row{Name: pool[perm[i]], Seq: s}
		}
		k.Alns = append(k.Alns, rows)
	}
	k.Stdout = r.Chance(0.3)
	if k.Cmd == "compress" {
		k.Weights = r.Chance(0.75)
	} else {
		k.Log = r.Chance(0.75)
		if r.Chance(0.2) {
			k.ByName = true
			// some rows take the name of an earlier row of their alignment
			for _, rows := range k.Alns {
				for i := 1; i < len(rows); i++ {
					if r.Chance(0.4) {
						rows[i].Name = rows[r.Intn(i)].Name
					}
				}
			}
		}
		if !k.ByName && r.Chance(0.5) {
			var all []row
			for _, rows := range k.Alns {
				all = append(all, rows...)
			}
			var fit []string
			for _, a := range []string{"nt", "aa"} {
				if cliFits(all, a) {
					fit = append(fit, a)
				}
			}
			fit = append(fit, "auto")
			k.Alphabet = r.PickStr(fit)
		}
	}
	if k.Mode == "unaligned" && r.Chance(0.2) {
		k.Extra = append(k.Extra, r.PickStr([]string{"-p", "-x", "-u"})) // documented as ignored with --unaligned
	}
	if phy && r.Chance(0.3) {
		k.Extra = append(k.Extra, r.PickStr([]string{"--one-line", "--no-block"}))
	}
	return k
}

func cliShow(alns [][]row) string {
	parts := make([]string, len(alns))
	for i, rows := range alns {
		parts[i] = showRows(rows)
	}
	return strings.Join(parts, " | ")
}

func runCli(c *mon.Case) {
	if !cliSetup() {
		return // the floors cli:* are missed: INCONCLUSIVE, not a violation
	}
	var k cliCase
	if c.Idx < len(cliWitnesses) {
		k = cliWitnesses[c.Idx]
		c.Count("cli:fixed-command-line")
	} else {
		k = genCli(c.R, c.Idx)
	}
	if k.ByName {
		// `dedup --name` (deduplicate by NAME) is documented in the help text but not implemented (the flag variable is
		// never read). The property speaks of distinct SEQUENCES only: what --name should do is a decision for the
		// maintainers, not something this check may demand. Noted in DESIGN.md section 6; not driven.
		c.Count("cli:dedup:name-flag-outside-the-property")
		return
	}
	dir, err := os.MkdirTemp(cliDir, "case-")
	if err != nil {
		panic("harness: " + err.Error())
	}
	defer os.RemoveAll(dir)
	if c.Verbose { // single case replay: do not leave the binary behind
		defer func() { os.RemoveAll(cliDir); cliBin, cliDir = "", "" }()
	}
	phy := strings.HasSuffix(k.Mode, "phylip")
	aligned := k.Mode != "unaligned"
	var in strings.Builder
	for _, rows := range k.Alns {
		if phy {
			fmt.Fprintf(&in, "  %d  %d\n", len(rows), len(rows[0].Seq))
			for _, s := range rows {
				fmt.Fprintf(&in, "%s  %s\n", s.Name, s.Seq)
			}
		} else {
			for _, s := range rows {
				fmt.Fprintf(&in, ">%s\n%s\n", s.Name, s.Seq)
			}
		}
	}
	clu := strings.HasSuffix(k.Mode, "clustal")
	if clu {
		// Clustal declares no alphabet (same expectations as FASTA); the input is written by the library's writer
		wa := align.AMINOACIDS
		if cliFits(k.Alns[0], "nt") {
			wa = align.NUCLEOTIDS
		}
		al, err := mkAlign(k.Alns[0], wa)
		if err != nil {
			c.Count("cli:clustal-input-not-writable")
			return
		}
		in.Reset()
		in.WriteString(fmtio.ByName("clustal").Write(al))
	}
	inFile, outFile := filepath.Join(dir, "in.txt"), filepath.Join(dir, "out.txt")
	wName := "weights.txt"
	if k.Weights && c.R.Chance(0.4) {
		wName = "weights.gz" // compressed by its suffix; flushed when the command closes it
		c.Count("cli:compress:weight-out-gz")
	}
	logFile, wFile := filepath.Join(dir, "log.txt"), filepath.Join(dir, wName)
	if err := os.WriteFile(inFile, []byte(in.String()), 0644); err != nil {
		panic("harness: " + err.Error())
	}
	args := []string{k.Cmd, "-i", inFile}
	switch k.Mode {
	case "phylip":
		args = append(args, "-p")
	case "auto-fasta", "auto-phylip", "auto-clustal":
		args = append(args, "--auto-detect")
	case "clustal":
		args = append(args, "-u")
	case "unaligned":
		args = append(args, "--unaligned")
	}
	if k.NAsGap {
		args = append(args, "--n-as-gap")
	}
	if k.ByName {
		args = append(args, "--name")
	}
	if k.Log {
		if c.R.Bool() {
			args = append(args, "-l", logFile)
		} else {
			args = append(args, "--log", logFile)
		}
	}
	if k.Weights {
		args = append(args, "--weight-out", wFile)
	}
	if k.Alphabet != "" {
		args = append(args, "--alphabet", k.Alphabet)
	}
	args = append(args, k.Extra...)
	if !k.Stdout {
		args = append(args, "-o", outFile)
	}
	k.Args = args
	c.Input(k)
	c.Checkpoint()
	stdout, stderr, exit := cliRun(dir, args)
	c.Count("cli:runs")
	c.Count("cli:" + k.Cmd)
	c.Count("cli:" + k.Cmd + ":mode:" + k.Mode)
	if k.Stdout {
		c.Count("cli:" + k.Cmd + ":output:stdout")
	} else {
		c.Count("cli:" + k.Cmd + ":output:file")
	}
	if k.Cmd == "dedup" {
		c.Count(fmt.Sprintf("cli:dedup:n-as-gap=%v", k.NAsGap))
		c.Count(fmt.Sprintf("cli:dedup:log=%v", k.Log))
		c.Count(fmt.Sprintf("cli:dedup:name=%v", k.ByName))
		if k.Alphabet != "" {
			c.Count("cli:dedup:alphabet:" + k.Alphabet)
		}
	} else {
		c.Count(fmt.Sprintf("cli:compress:weight-out=%v", k.Weights))
	}
	for _, e := range k.Extra {
		c.Count("cli:extra:" + e)
	}
	if len(k.Alns) > 1 {
		c.Count("cli:" + k.Cmd + ":several-alignments")
	}
	text := stdout
	if !k.Stdout {
		b, _ := os.ReadFile(outFile)
		text = string(b)
	}
	logB, logErr := os.ReadFile(logFile)
	wB, wErr := os.ReadFile(wFile)
	if wErr == nil && wName == "weights.gz" {
		if zr, e := gzip.NewReader(bytes.NewReader(wB)); e != nil {
			wErr = fmt.Errorf("%d bytes that are no gzip stream: %v", len(wB), e)
		} else if plain, e := io.ReadAll(zr); e != nil {
			wErr = fmt.Errorf("%d bytes, truncated gzip stream: %v", len(wB), e)
		} else {
			wB = plain
		}
	}
	fail := func(sig, format string, x ...interface{}) {
		c.Failf("cli:"+k.Cmd+":"+sig, "goalign %s\ninput file:\n%sexit %d\nstderr: %s\noutput:\n%s\nlog file: %q\nweight file: %q\n%s", strings.Join(args, " "), in.String(), exit, cliFirstLines(stderr, 3), text, logB, wB, fmt.Sprintf(format, x...))
	}
	if exit == -1 {
		fail("timeout", "the command did not end within 60 s")
		return
	}
	if strings.Contains(stderr, "panic:") || strings.Contains(stderr, "goroutine ") || strings.Contains(stdout, "panic:") {
		fail("panic", "the command crashed")
		return
	}
	if exit != 0 {
		fail("unexpected-error", "the command failed on a valid request")
		return
	}
	// files that were not asked for must not appear ("none" is the documented default of -l / --weight-out)
	ents, _ := os.ReadDir(dir)
	for _, e := range ents {
		switch e.Name() {
		case "in.txt":
		case "out.txt":
			if k.Stdout {
				fail("stray-file", "file %q written although -o was not given", e.Name())
				return
			}
		case "log.txt":
			if !k.Log {
				fail("stray-file", "file %q written although -l was not given", e.Name())
				return
			}
		case "weights.txt", "weights.gz":
			if !k.Weights {
				fail("stray-file", "file %q written although --weight-out was not given", e.Name())
				return
			}
		default:
			fail("stray-file", "unexpected file %q in the working directory", e.Name())
			return
		}
	}
	if !k.Stdout && strings.TrimSpace(stdout) != "" {
		fail("stdout-not-empty", "the result goes to the -o file, stdout should be empty, it holds %q", stdout)
		return
	}
	var got [][]row
	if phy && aligned {
		g, perr := cliParsePhylip(text)
		if perr != nil {
			fail("output-unreadable", "%v", perr)
			return
		}
		got = g
	} else if clu {
		oal, perr := fmtio.ByName("clustal").Parse(strings.NewReader(text), align.IGNORE_NONE, align.BOTH)
		if perr != nil {
			fail("output-unreadable", "the Clustal text written is refused by the Clustal parser: %v", perr)
			return
		}
		got = [][]row{snapAll(oal)}
		for i := range got[0] {
			got[0][i].Comment = ""
		}
	} else {
		got = [][]row{cliParseFasta(text)}
	}
	if len(got) != len(k.Alns) {
		fail("alignment-count", "%d alignments written, the input holds %d", len(got), len(k.Alns))
		return
	}
	if k.Cmd == "dedup" {
		cliCheckDedup(c, &k, got, logB, logErr, fail)
	} else {
		cliCheckCompress(c, &k, got, wB, wErr, fail)
	}
	if !c.Failed() && k.WantRows != nil && cliShow(got) != cliShow(k.WantRows) {
		fail("documented-example", "written %s, the hand-typed expectation is %s", cliShow(got), cliShow(k.WantRows))
	}
}

func cliCheckDedup(c *mon.Case, k *cliCase, got [][]row, logB []byte, logErr error, fail func(sig, format string, x ...interface{})) {
	var logLines []string
	if k.Log {
		if logErr != nil {
			fail("log-missing", "the log file was not written: %v", logErr)
			return
		}
		for _, l := range strings.Split(string(logB), "\n") {
			if l != "" {
				logLines = append(logLines, l)
			}
		}
	}
	if k.ByName {
		// "Deduplicate by name instead of sequence even if sequences are different (only the first appears in the output file)"
		for ai, rows := range k.Alns {
			seen := map[string]bool{}
			var want []row
			for _, x := range rows {
				if !seen[x.Name] {
					seen[x.Name] = true
					want = append(want, x)
				}
			}
			if !eqRows(got[ai], want) {
				sig := "name:not-by-name"
				if strings.HasPrefix(k.Mode, "auto-") {
					sig += "@auto-detect" // the reading options of --auto-detect are a separate path of the root command
				}
				fail(sig, "alignment %d: written %s\nexpected the first row of every name, sequences not compared: %s", ai, showRows(got[ai]), showRows(want))
				return
			}
			if len(want) < len(rows) {
				c.Count("cli:dedup:name:removed>0")
			}
		}
		c.Count("cli:outcome:ok")
		c.NonTrivial("dedup-name", cliShow(k.Alns))
		return
	}
	merged, nMerged := false, false
	for ai, rows := range k.Alns {
		alpha, noClass := cliAlphabetOf(rows)
		switch k.Alphabet {
		case "nt":
			alpha, noClass = align.NUCLEOTIDS, false
		case "aa":
			alpha, noClass = align.AMINOACIDS, false
		}
		rds := dedupReadings(alpha, k.NAsGap)
		if alpha == align.UNKNOWN && k.NAsGap && !noClass {
			// letters that fit both alphabets: N or X (or both) must act as the wildcard, "no wildcard at all" is not a reading of --n-as-gap
			rds = nil
			for _, fold := range []bool{false, true} {
				for _, w := range []string{"N", "Nn", "X", "Xx", "NX", "NnXx"} {
					rds = append(rds, reading{w, fold})
				}
			}
		}
		// the groups of this alignment: as many log lines as rows kept
		var groups [][]string
		if k.Log {
			if len(logLines) < len(got[ai]) {
				fail("log:line-count", "alignment %d keeps %d rows, only %d log lines are left for it (one group per kept row)", ai, len(got[ai]), len(logLines))
				return
			}
			for _, l := range logLines[:len(got[ai])] {
				groups = append(groups, strings.Split(l, ","))
			}
			logLines = logLines[len(got[ai]):]
		}
		matched := -1
		for i, rd := range rds {
			kept, g := refDedup(rows, rd)
			if eqRows(got[ai], kept) && (!k.Log || canonGroups(g) == canonGroups(groups)) {
				matched = i
				break
			}
		}
		if matched < 0 {
			kept, g := refDedup(rows, rds[0])
			sig := "groups"
			if !eqRows(got[ai], kept) {
				sig = "kept-rows"
				if len(got[ai]) > len(kept) {
					sig = "duplicate-kept"
				} else if len(got[ai]) < len(kept) {
					sig = "distinct-sequence-lost"
				}
			}
			if k.Mode == "unaligned" && (k.Alphabet == "nt" || k.Alphabet == "aa") && k.NAsGap {
				// is it the reading of the OTHER alphabet (the flag not honoured for unaligned input)?
				other := align.NUCLEOTIDS
				if k.Alphabet == "nt" {
					other = align.AMINOACIDS
				}
				for _, rd := range dedupReadings(other, true) {
					k2, g2 := refDedup(rows, rd)
					if eqRows(got[ai], k2) && (!k.Log || canonGroups(g2) == canonGroups(groups)) {
						sig = "alphabet-flag-not-honoured-with-unaligned"
					}
				}
			}
			fail(sig, "alignment %d (alphabet %s, n-as-gap %v): written %s groups %q\nexpected (first occurrence of every distinct sequence, reading %v) %s groups %q", ai, alphaName(alpha), k.NAsGap, showRows(got[ai]), groups, rds[0], showRows(kept), g)
			return
		}
		if k.Log { // statement, reading independent: partition of the input names, led by the kept rows
			var flat []string
			for _, g := range groups {
				flat = append(flat, g...)
			}
			if fmt.Sprint(sortedCopy(flat)) != fmt.Sprint(sortedCopy(names(rows))) {
				fail("log:not-a-partition", "alignment %d: the groups %q do not hold every input name exactly once", ai, groups)
				return
			}
		}
		if len(got[ai]) < len(rows) {
			merged = true
			exact, _ := refDedup(rows, reading{"", false})
			if k.NAsGap && len(exact) > len(got[ai]) {
				nMerged = true
			}
		}
	}
	if k.Log && len(logLines) != 0 {
		fail("log:line-count", "%d log lines more than rows kept: %q", len(logLines), logLines)
		return
	}
	if k.WantLog != nil && k.Log {
		gotLines := strings.Split(strings.TrimSpace(string(logB)), "\n")
		a, b := append([]string{}, gotLines...), append([]string{}, k.WantLog...)
		if len(k.Alns) == 1 {
			sort.Strings(a)
			sort.Strings(b)
		}
		if fmt.Sprint(a) != fmt.Sprint(b) {
			fail("documented-example", "log file holds %q, the hand-typed expectation is %q", gotLines, k.WantLog)
			return
		}
	}
	c.Count("cli:outcome:ok")
	if merged {
		c.Count("cli:dedup:removed>0")
		c.NonTrivial("dedup", strconv.FormatBool(k.NAsGap), k.Alphabet, cliShow(k.Alns))
	}
	if nMerged {
		c.Count("cli:dedup:n-as-gap-merges-more-than-exact")
	}
	c.Note("goalign %s -> %s", strings.Join(k.Args, " "), cliShow(got))
}

func cliCheckCompress(c *mon.Case, k *cliCase, got [][]row, wB []byte, wErr error, fail func(sig, format string, x ...interface{})) {
	var weights []int
	if k.Weights {
		if wErr != nil {
			fail("weights-missing", "the weight file was not written: %v", wErr)
			return
		}
		for _, f := range strings.Fields(string(wB)) {
			v, err := strconv.Atoi(f)
			if err != nil {
				fail("weights-unreadable", "weight file holds %q", f)
				return
			}
			weights = append(weights, v)
		}
	}
	mergedAny := false
	for ai, rows := range k.Alns {
		after := got[ai]
		if len(after) != len(rows) {
			fail("rows-changed", "alignment %d: %d rows written, %d in the input", ai, len(after), len(rows))
			return
		}
		for i := range rows {
			if after[i].Name != rows[i].Name {
				fail("rows-changed", "alignment %d row %d is named %q, was %q", ai, i, after[i].Name, rows[i].Name)
				return
			}
			if len(after[i].Seq) != len(after[0].Seq) {
				fail("row-length", "alignment %d: rows of unequal length: %s", ai, showRows(after))
				return
			}
		}
		orig := columns(rows)
		mult := colMultiset(orig)
		emitted := columns(after)
		if len(emitted) != len(mult) {
			fail("pattern-count", "alignment %d: %d patterns written, the input has %d distinct column patterns: %s", ai, len(emitted), len(mult), showRows(after))
			return
		}
		seen := map[string]bool{}
		for j, e := range emitted {
			if seen[e] {
				fail("duplicate-pattern", "alignment %d: column %d = %q written twice: %s", ai, j, e, showRows(after))
				return
			}
			seen[e] = true
			if _, in := mult[e]; !in {
				fail("foreign-pattern", "alignment %d: column %d = %q is not a column of the input: %s", ai, j, e, showRows(after))
				return
			}
		}
		if k.Weights {
			// the weights of this alignment: as many lines as patterns written
			if len(weights) < len(emitted) {
				fail("weights:line-count", "alignment %d has %d patterns, only %d weights are left for it", ai, len(emitted), len(weights))
				return
			}
			w := weights[:len(emitted)]
			weights = weights[len(emitted):]
			sum := 0
			for j, e := range emitted {
				if w[j] != mult[e] {
					ws := append([]int{}, w...)
					sort.Ints(ws)
					var ms []int
					for _, v := range mult {
						ms = append(ms, v)
					}
					sort.Ints(ms)
					sig := "weight-value"
					if fmt.Sprint(ws) == fmt.Sprint(ms) {
						sig = "weights-misaligned"
					}
					fail(sig, "alignment %d: column %d = %q occurs %d times in the input, weight %d; weights %v output %s", ai, j, e, mult[e], w[j], w, showRows(after))
					return
				}
				sum += w[j]
			}
			if sum != len(orig) {
				fail("weight-sum", "alignment %d: weights %v sum to %d, the input has %d columns", ai, w, sum, len(orig))
				return
			}
			if k.WantW != nil && ai == 0 && fmt.Sprint(w) != fmt.Sprint(k.WantW) {
				fail("documented-example", "weights %v, the help text shows %v", w, k.WantW)
				return
			}
		}
		if len(emitted) < len(orig) {
			mergedAny = true
		}
	}
	if k.Weights && len(weights) != 0 {
		fail("weights:line-count", "%d weights more than patterns written: %v", len(weights), weights)
		return
	}
	c.Count("cli:outcome:ok")
	if mergedAny {
		c.Count("cli:compress:merged")
		c.NonTrivial("compress", cliShow(k.Alns))
	}
	c.Note("goalign %s -> %s", strings.Join(k.Args, " "), cliShow(got))
}

func cliFirstLines(s string, n int) string {
	l := strings.Split(strings.TrimSpace(s), "\n")
	if len(l) > n {
		l = l[:n]
	}
	return strings.Join(l, " | ")
}
