// long sub-check of C13: alignments with more than 65536 columns carrying the same pattern (a per-pattern counter
// narrower than int would wrap): the weights are exact multiplicities and sum to the original length.
package main

import (
	"fmt"
	"strings"

	"github.com/evolbioinfo/goalign/align"

	"verif/lib/mon"
)

func runLong(c *mon.Case) {
	r := c.R
	nA := 65536*(1+c.Idx%2) + r.Range(0, 9) // pattern 1: one or two times 65536, plus a little
	nB := 65536                             // pattern 2: exactly 65536
	nC := r.Range(1, 5)
	n := r.Range(2, 3)
	pats := [][]byte{[]byte("AAA"), []byte("CGT"), []byte("T-A")}
	counts := []int{nA, nB, nC}
	seqs := make([]strings.Builder, n)
	// interleave so that the patterns are not three plain runs
	left := append([]int{}, counts...)
	for left[0]+left[1]+left[2] > 0 {
		for p := range pats {
			k := left[p]
			if k > 4096 {
				k = 4096
			}
			for i := 0; i < n; i++ {
				seqs[i].WriteString(strings.Repeat(string(pats[p][i]), k))
			}
			left[p] -= k
		}
	}
	rows := make([]row, n)
	for i := range rows {
		rows[i] = row{Name: fmt.Sprintf("s%d", i), Seq: seqs[i].String()}
	}
	c.Input(map[string]interface{}{"rows": n, "columns": nA + nB + nC, "patterns": fmt.Sprintf("%d x AAA.., %d x CGT.., %d x T-A..", nA, nB, nC)})
	al, err := mkAlign(rows, align.NUCLEOTIDS)
	if err != nil {
		c.Failf("harness:build", "%v", err)
		return
	}
	if _, _, ok := checkCompress(c, al, "[long]"); ok {
		c.Count("long-alignments")
		c.NonTrivial("long", fmt.Sprint(n, nA, nB, nC))
	}
}
