// long sub-check of C13: alignments with more than 65536 columns carrying the same pattern (a per-pattern counter
// narrower than int would wrap): the weights are exact multiplicities and sum to the original length.
package main

import (
	"fmt"
	"strings"

	"github.com/evolbioinfo/goalign/align"

	"verif/lib/mon"
)

func runLong(c *mon.Case) {
	r := c.R
	nA := 65536*(1+c.Idx%2) + r.Range(0, 9) // pattern 1: one or two times 65536, plus a little
	nB := 65536                             // pattern 2: exactly 65536
	nC := r.Range(1, 5)
	n := r.Range(2, 3)
	pats := [][]byte{[]byte("AAA"), []byte("CGT"), []byte("T-A")}
	counts := []int{nA, nB, nC}
	seqs := make([]strings.Builder, n)
	// interleave so that the patterns are not three plain runs
	left := append([]int{}, counts...)
	for left[0]+left[1]+left[2] > 0 {
		for p := range pats {
			k := left[p]
			if k > 4096 {
				k = 4096
			}
			for i := 0; i < n; i++ {
				seqs[i].WriteString(strings.Repeat(string(pats[p][i]), k))
			}
			left[p] -= k
		}
	}
	rows := make([]row, n)
	for i := range rows {
		rows[i] = row{Name: fmt.Sprintf("s%d", i), Seq: seqs[i].String()}
	}
	c.Input(map[string]interface{}{"rows": n, "columns": nA + nB + nC, "patterns": fmt.Sprintf("%d x AAA.., %d x CGT.., %d x T-A..", nA, nB, nC)})
	al, err := mkAlign(rows, align.NUCLEOTIDS)
	if err != nil {
		c.Failf("harness:build", "%v", err)
		return
	}
	if _, _, ok := checkCompress(c, al, "[long]"); ok {
		c.Count("long-alignments")
		c.NonTrivial("long", fmt.Sprint(n, nA, nB, nC))
	}
}

// many sub-check of C13: more distinct sequences than any default capacity (100, 128, 1024 ...), with duplicates of
// the FIRST groups arriving after the last distinct sequence (an index or pointer into a slice that has been
// re-allocated in between is stale by then).
func runMany(c *mon.Case) {
	r := c.R
	nd := []int{101, 129, 150, 257, 1025}[c.Idx%5] + r.Intn(3)
	L := r.Range(12, 24)
	aligned := r.Bool()
	seen := map[string]bool{}
	var seqs []string
	for len(seqs) < nd {
		li := L
		if !aligned {
			li = r.Range(8, L)
		}
		q := r.Str(li, "ACGT")
		if !seen[q] {
			seen[q] = true
			seqs = append(seqs, q)
		}
	}
	// late duplicates of early sequences
	for k := r.Range(5, 60); k > 0; k-- {
		seqs = append(seqs, seqs[r.Intn(100)])
	}
	rows := make([]row, len(seqs))
	for i := range rows {
		rows[i] = row{Name: fmt.Sprintf("s%04d", i), Seq: seqs[i]}
	}
	c.Input(map[string]interface{}{"distinct": nd, "rows": len(rows), "aligned": aligned})
	var sb align.SeqBag
	var err error
	if aligned {
		sb, err = mkAlign(rows, align.NUCLEOTIDS)
	} else {
		sb, err = mkBag(rows, align.NUCLEOTIDS)
	}
	if err != nil {
		c.Failf("harness:build", "%v", err)
		return
	}
	if _, _, ok := checkDedup(c, sb, r.Bool(), "[many]"); ok {
		c.Count("many:distinct>100")
		c.NonTrivial("many", fmt.Sprint(nd, len(rows), aligned, c.Idx))
	}
}
