// concurrent and collisions sub-checks of C13.
//
// concurrent (-race build): Compress and Deduplicate work on the object they are called on; several goroutines
// each compressing / de-duplicating ITS OWN alignment at the same time must get what each gets alone (the oracles
// of the other sub-checks decide whether that result is right; here it only has to be the same).
//
// collisions: distinct sequences of equal length that collide under one of the standard library's 32-bit
// checksums (CRC-32 IEEE / Castagnoli, Adler-32, FNV-1 / FNV-1a 32): identity is decided on the sequences
// themselves, so a colliding pair is two distinct sequences and both survive. The pairs are found by a birthday
// search over random sequences of one length (about 80 000 sequences give a CRC-32 collision).
package main

import (
	"fmt"
	"hash/adler32"
	"hash/crc32"
	"hash/fnv"
	"strings"

	"github.com/evolbioinfo/goalign/align"

	"verif/lib/gen"
	"verif/lib/mon"
)

func runConcurrent(c *mon.Case) {
	r := c.R
	nw := r.PickInt([]int{2, 4, 8, 16})
	var jobs []mon.Job
	var descs []string
	for i := 0; i < nw; i++ {
		n := r.Range(3, 16)
		L := r.PickInt([]int{50, 300, 1500, 4000})
		alpha := r.PickStr([]string{"AC", "ACGT", "ACGT-N"})
		seqs := make([]string, n)
		for k := range seqs {
			seqs[k] = r.Str(L, alpha)
			if k > 0 && r.Chance(0.3) {
				seqs[k] = seqs[r.Intn(k)] // duplicates for Deduplicate
			}
		}
		rows := make([]row, n)
		for k := range rows {
			rows[k] = row{Name: "s" + gen.Itoa(k), Seq: seqs[k]}
		}
		compress := r.Chance(0.6)
		nAsGap := r.Bool()
		if compress {
			descs = append(descs, fmt.Sprintf("Compress %dx%d over %q", n, L, alpha))
		} else {
			descs = append(descs, fmt.Sprintf("Deduplicate(%v) %dx%d over %q", nAsGap, n, L, alpha))
		}
		jobs = append(jobs, func() string {
			al, err := mkAlign(rows, align.NUCLEOTIDS)
			if err != nil {
				return "harness: " + err.Error()
			}
			if compress {
				w := al.Compress()
				return fmt.Sprintf("weights=%v\n%s", w, rowsKey(snapAll(al)))
			}
			g, err := al.Deduplicate(nAsGap)
			return fmt.Sprintf("groups=%v err=%v\n%s", g, err, rowsKey(snapAll(al)))
		})
	}
	c.Input(map[string]interface{}{"jobs": descs})
	diff, calls := mon.Concurrently(jobs, 5, r.PickInt([]int{1, 2, 4, 16}))
	if diff != "" {
		c.Failf("concurrent:objects-not-independent", "%v\n%s", descs, clipStr(diff, 3000))
		return
	}
	c.Add("concurrent:calls", calls)
	c.NonTrivial(fmt.Sprint(descs), fmt.Sprint(c.Idx))
}

func clipStr(s string, n int) string {
	if len(s) > n {
		return s[:n] + "…"
	}
	return s
}

type sum32 struct {
	name string
	f    func([]byte) uint32
}

var sums32 = []sum32{
	{"crc32-ieee", crc32.ChecksumIEEE},
	{"crc32-castagnoli", func(b []byte) uint32 { return crc32.Checksum(b, crc32.MakeTable(crc32.Castagnoli)) }},
	{"adler32", adler32.Checksum},
	{"fnv1-32", func(b []byte) uint32 { h := fnv.New32(); h.Write(b); return h.Sum32() }},
	{"fnv1a-32", func(b []byte) uint32 { h := fnv.New32a(); h.Write(b); return h.Sum32() }},
}

// collidingPair: two distinct sequences of length L over alpha with the same checksum (birthday search).
func collidingPair(r *gen.Rand, s sum32, L int, alpha string) (string, string, bool) {
	seen := make(map[uint32]string, 1<<18)
	for i := 0; i < 400000; i++ {
		q := r.Str(L, alpha)
		k := s.f([]byte(q))
		if p, ok := seen[k]; ok && p != q {
			return p, q, true
		}
		seen[k] = q
	}
	return "", "", false
}

func runCollisions(c *mon.Case) {
	r := c.R
	s := sums32[c.Idx%len(sums32)]
	nt := r.Bool()
	alpha, alphabet := "ACGT", align.NUCLEOTIDS
	if !nt {
		alpha, alphabet = gen.AaCore, align.AMINOACIDS
	}
	L := r.Range(16, 40)
	a, b, ok := collidingPair(r, s, L, alpha)
	if !ok {
		c.Count("collisions:none-found:" + s.name)
		return
	}
	// the pair among other rows, one of them repeated (a true duplicate)
	seqs := []string{r.Str(L, alpha), a, r.Str(L, alpha), b, a}
	if r.Bool() {
		seqs[1], seqs[3] = seqs[3], seqs[1]
	}
	rows := make([]row, len(seqs))
	for i := range rows {
		rows[i] = row{Name: "s" + gen.Itoa(i), Seq: seqs[i]}
	}
	aligned := r.Bool()
	nAsGap := r.Bool()
	c.Input(map[string]interface{}{"checksum": s.name, "rows": rows, "aligned": aligned, "nAsGap": nAsGap})
	var sb align.SeqBag
	var err error
	if aligned {
		sb, err = mkAlign(rows, alphabet)
	} else {
		sb, err = mkBag(rows, alphabet)
	}
	if err != nil {
		c.Failf("harness:build", "%v", err)
		return
	}
	if _, _, ok := checkDedup(c, sb, nAsGap, "[collision:"+s.name+"]"); ok {
		c.Count("collisions:" + s.name)
		c.NonTrivial(s.name, strings.Join(seqs, "/"))
	}
}
