// Reference side of the C13 monitor: list-of-rows models of de-duplication and site
// compression written from the property statement and goalign's documentation
// (docs/commands/dedup.md, docs/commands/compress.md, interface comments of
// align.SeqBag.Deduplicate and align.Alignment.Compress), plus the "full observation"
// of a container through every access path.
package main

import (
	"fmt"
	"sort"
	"strings"

	"github.com/evolbioinfo/goalign/align"

	"verif/lib/h"
)

type row struct {
	Name    string `json:"name"`
	Seq     string `json:"seq"`
	Comment string `json:"comment,omitempty"`
}

func cloneRows(r []row) []row { c := make([]row, len(r)); copy(c, r); return c }

func rowsKey(rows []row) string {
	var b strings.Builder
	for _, r := range rows {
		b.WriteString(r.Name)
		b.WriteByte(0)
		b.WriteString(r.Seq)
		b.WriteByte(1)
	}
	return b.String()
}

func showRows(rows []row) string {
	var b strings.Builder
	b.WriteString("[")
	for i, r := range rows {
		if i > 0 {
			b.WriteString(" ")
		}
		fmt.Fprintf(&b, "%q:%q", r.Name, r.Seq)
		if r.Comment != "" {
			fmt.Fprintf(&b, "(%q)", r.Comment)
		}
	}
	b.WriteString("]")
	return b.String()
}

func nonASCII(rows []row) bool {
	for _, r := range rows {
		for i := 0; i < len(r.Seq); i++ {
			if r.Seq[i] >= 0x80 {
				return true
			}
		}
	}
	return false
}

// snapAll reads a container through IterateAll (names, residues, comments).
func snapAll(sb align.SeqBag) []row {
	out := []row{}
	sb.IterateAll(func(name string, s []uint8, comment string) bool {
		out = append(out, row{name, string(s), comment})
		return false
	})
	return out
}

func eqRows(a, b []row) bool {
	if len(a) != len(b) {
		return false
	}
	for i := range a {
		if a[i] != b[i] {
			return false
		}
	}
	return true
}

// ---------------------------------------------------------------------------------
// De-duplication

// reading = one admissible interpretation of "identical sequences":
// wild lists the bytes compared as gaps (n-as-gap), fold = letter case is ignored.
type reading struct {
	wild string
	fold bool
}

func (rd reading) String() string { return fmt.Sprintf("{wild:%q fold:%v}", rd.wild, rd.fold) }

func (rd reading) key(s string) string {
	b := []byte(s)
	for i, c := range b {
		if rd.fold && c >= 'a' && c <= 'z' {
			c -= 32
		}
		if strings.IndexByte(rd.wild, c) >= 0 {
			c = '-'
		}
		b[i] = c
	}
	return string(b)
}

// dedupReadings lists the readings the documentation admits, the documented one first:
// "X/N (depending on alphabet) are considered identical to GAPS" - N for a nucleotide
// container, X for a protein one, in upper case as written; lower case n/x and the
// wildcard of a container whose alphabet is unknown are left open, as is letter case
// in the comparison itself.
func dedupReadings(alphabet int, nAsGap bool) []reading {
	var wilds []string
	switch {
	case !nAsGap:
		wilds = []string{""}
	case alphabet == align.NUCLEOTIDS:
		wilds = []string{"N", "Nn"}
	case alphabet == align.AMINOACIDS:
		wilds = []string{"X", "Xx"}
	default:
		wilds = []string{"", "N", "Nn", "X", "Xx", "NX", "NnXx"}
	}
	out := []reading{}
	for _, fold := range []bool{false, true} {
		for _, w := range wilds {
			out = append(out, reading{w, fold})
		}
	}
	return out
}

// refDedup: scan the rows in order, keep the first row of every distinct key; groups
// hold the names per key in input order (so each group is led by the kept row).
func refDedup(rows []row, rd reading) (kept []row, groups [][]string) {
	seen := map[string]int{}
	for _, r := range rows {
		k := rd.key(r.Seq)
		if g, ok := seen[k]; ok {
			groups[g] = append(groups[g], r.Name)
			continue
		}
		seen[k] = len(groups)
		groups = append(groups, []string{r.Name})
		kept = append(kept, r)
	}
	return
}

// canonGroups: the statement fixes the leader of each group and the partition, not
// the order of the groups nor of the followers.
func canonGroups(g [][]string) string {
	parts := make([]string, 0, len(g))
	for _, x := range g {
		if len(x) == 0 {
			parts = append(parts, "<empty group>")
			continue
		}
		rest := append([]string{}, x[1:]...)
		sort.Strings(rest)
		parts = append(parts, fmt.Sprintf("%q<-%q", x[0], rest))
	}
	sort.Strings(parts)
	return strings.Join(parts, " | ")
}

// ---------------------------------------------------------------------------------
// Site compression

// columns of a list of rows (all of the same length).
func columns(rows []row) []string {
	if len(rows) == 0 {
		return nil
	}
	L := len(rows[0].Seq)
	cols := make([]string, L)
	b := make([]byte, len(rows))
	for j := 0; j < L; j++ {
		for i, r := range rows {
			b[i] = r.Seq[j]
		}
		cols[j] = string(b)
	}
	return cols
}

func colMultiset(cols []string) map[string]int {
	m := make(map[string]int, len(cols))
	for _, c := range cols {
		m[c]++
	}
	return m
}

// colStat is the per-column term of a column-additive statistic (any function of the
// column content only): an FNV style hash; the statistic is the wrapping sum.
func colStat(col string) uint64 {
	x := uint64(1469598103934665603)
	for i := 0; i < len(col); i++ {
		x ^= uint64(col[i]) + uint64(i)*131
		x *= 1099511628211
	}
	return x ^ (x >> 29)
}

// pairDiffs is a second, meaningful additive statistic: number of differing sites
// for every pair of rows (what a p-distance sums).
func pairDiffs(cols []string, w []int) []int {
	if len(cols) == 0 {
		return nil
	}
	n := len(cols[0])
	out := make([]int, 0, n*(n-1)/2)
	for a := 0; a < n; a++ {
		for b := a + 1; b < n; b++ {
			d := 0
			for j, c := range cols {
				if c[a] != c[b] {
					if w == nil {
						d++
					} else {
						d += w[j]
					}
				}
			}
			out = append(out, d)
		}
	}
	return out
}

// ---------------------------------------------------------------------------------
// Full observation

// observe cross-checks every access path of the container with the expected rows.
// absent = names that must not resolve any more. wantLen = expected Length() of an
// alignment (ignored for a sequence bag). Returns ("","") when everything agrees.
func observe(sb align.SeqBag, exp []row, absent []string, wantLen int) (kind, msg string) {
	if n := sb.NbSequences(); n != len(exp) {
		return "nbseq", fmt.Sprintf("NbSequences()=%d, expected %d rows", n, len(exp))
	}
	if p := h.Invariants(sb); len(p) > 0 {
		return "invariant-hook", strings.Join(p, "; ")
	}
	if al, ok := sb.(align.Alignment); ok {
		if L := al.Length(); L != wantLen {
			return "length", fmt.Sprintf("Length()=%d, expected %d", L, wantLen)
		}
	}
	var it []row
	sb.Iterate(func(n, s string) bool { it = append(it, row{Name: n, Seq: s}); return false })
	if len(it) != len(exp) {
		return "iterate", fmt.Sprintf("Iterate gave %d rows, expected %d", len(it), len(exp))
	}
	for i, e := range exp {
		if it[i].Name != e.Name || it[i].Seq != e.Seq {
			return "iterate", fmt.Sprintf("Iterate row %d = %q:%q, expected %q:%q", i, it[i].Name, it[i].Seq, e.Name, e.Seq)
		}
	}
	var itc []row
	sb.IterateChar(func(n string, s []uint8) bool { itc = append(itc, row{Name: n, Seq: string(s)}); return false })
	if len(itc) != len(exp) {
		return "iteratechar", fmt.Sprintf("IterateChar gave %d rows, expected %d", len(itc), len(exp))
	}
	for i, e := range exp {
		if itc[i].Name != e.Name || itc[i].Seq != e.Seq {
			return "iteratechar", fmt.Sprintf("IterateChar row %d = %q:%q, expected %q:%q", i, itc[i].Name, itc[i].Seq, e.Name, e.Seq)
		}
	}
	ita := snapAll(sb)
	if len(ita) != len(exp) {
		return "iterateall", fmt.Sprintf("IterateAll gave %d rows, expected %d", len(ita), len(exp))
	}
	for i, e := range exp {
		if ita[i] != e {
			return "iterateall", fmt.Sprintf("IterateAll row %d = %+v, expected %+v", i, ita[i], e)
		}
	}
	seqs := sb.Sequences()
	if len(seqs) != len(exp) {
		return "sequences", fmt.Sprintf("Sequences() has %d entries, expected %d", len(seqs), len(exp))
	}
	for i, e := range exp {
		q := seqs[i]
		if q == nil || q.Name() != e.Name || q.Sequence() != e.Seq || string(q.SequenceChar()) != e.Seq || q.Comment() != e.Comment || q.Length() != len(e.Seq) {
			return "sequences", fmt.Sprintf("Sequences()[%d] disagrees with expected row %+v", i, e)
		}
		q, ok := sb.Sequence(i)
		if !ok || q.Name() != e.Name || q.Sequence() != e.Seq || q.Length() != len(e.Seq) {
			return "byindex", fmt.Sprintf("Sequence(%d) disagrees with expected row %+v", i, e)
		}
		str, ok := sb.GetSequenceById(i)
		if !ok || str != e.Seq {
			return "byindex", fmt.Sprintf("GetSequenceById(%d)=%q,%v expected %q", i, str, ok, e.Seq)
		}
		ch, ok := sb.GetSequenceCharById(i)
		if !ok || string(ch) != e.Seq {
			return "byindex", fmt.Sprintf("GetSequenceCharById(%d)=%q,%v expected %q", i, ch, ok, e.Seq)
		}
		nm, ok := sb.GetSequenceNameById(i)
		if !ok || nm != e.Name {
			return "byindex", fmt.Sprintf("GetSequenceNameById(%d)=%q,%v expected %q", i, nm, ok, e.Name)
		}
	}
	for _, i := range []int{-1, len(exp)} {
		if _, ok := sb.GetSequenceById(i); ok {
			return "byindex-range", fmt.Sprintf("GetSequenceById(%d) succeeded with %d rows", i, len(exp))
		}
		if _, ok := sb.GetSequenceCharById(i); ok {
			return "byindex-range", fmt.Sprintf("GetSequenceCharById(%d) succeeded with %d rows", i, len(exp))
		}
		if _, ok := sb.GetSequenceNameById(i); ok {
			return "byindex-range", fmt.Sprintf("GetSequenceNameById(%d) succeeded with %d rows", i, len(exp))
		}
		if _, ok := sb.Sequence(i); ok {
			return "byindex-range", fmt.Sprintf("Sequence(%d) succeeded with %d rows", i, len(exp))
		}
	}
	for i, e := range exp {
		str, ok := sb.GetSequence(e.Name)
		if !ok || str != e.Seq {
			return "byname", fmt.Sprintf("GetSequence(%q)=%q,%v expected %q", e.Name, str, ok, e.Seq)
		}
		ch, ok := sb.GetSequenceChar(e.Name)
		if !ok || string(ch) != e.Seq {
			return "byname", fmt.Sprintf("GetSequenceChar(%q)=%q,%v expected %q", e.Name, ch, ok, e.Seq)
		}
		q, ok := sb.GetSequenceByName(e.Name)
		if !ok || q.Name() != e.Name || q.Sequence() != e.Seq || q.Comment() != e.Comment {
			return "byname", fmt.Sprintf("GetSequenceByName(%q) disagrees with expected row %+v (found=%v)", e.Name, e, ok)
		}
		q, ok = sb.SequenceByName(e.Name)
		if !ok || q.Name() != e.Name || q.Sequence() != e.Seq {
			return "byname", fmt.Sprintf("SequenceByName(%q) disagrees with expected row %+v (found=%v)", e.Name, e, ok)
		}
		if id := sb.GetSequenceIdByName(e.Name); id != i {
			return "byname", fmt.Sprintf("GetSequenceIdByName(%q)=%d expected %d", e.Name, id, i)
		}
	}
	for _, name := range append(append([]string{}, absent...), "never-used-name") {
		if s, ok := sb.GetSequence(name); ok {
			return "byname-removed", fmt.Sprintf("GetSequence(%q) still answers %q for a row that is not in the container", name, s)
		}
		if _, ok := sb.GetSequenceChar(name); ok {
			return "byname-removed", fmt.Sprintf("GetSequenceChar(%q) still answers for a row that is not in the container", name)
		}
		if _, ok := sb.GetSequenceByName(name); ok {
			return "byname-removed", fmt.Sprintf("GetSequenceByName(%q) still answers for a row that is not in the container", name)
		}
		if _, ok := sb.SequenceByName(name); ok {
			return "byname-removed", fmt.Sprintf("SequenceByName(%q) still answers for a row that is not in the container", name)
		}
		if id := sb.GetSequenceIdByName(name); id >= 0 {
			return "byname-removed", fmt.Sprintf("GetSequenceIdByName(%q)=%d for a row that is not in the container", name, id)
		}
	}
	return "", ""
}
