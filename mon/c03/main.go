// C03 monitor: hostile inputs to every parser under a logical-step termination
// oracle (counting reader + CPU budget), crash capture (child process + WAL) and
// a well-formedness oracle on every successful result.
package main

import (
	"bytes"
	"fmt"
	"io"
	"regexp"
	"runtime/debug"
	"strconv"
	"strings"
	"time"

	"github.com/evolbioinfo/goalign/align"
	"github.com/evolbioinfo/goalign/io/fasta"
	"github.com/evolbioinfo/goalign/io/partition"
	"github.com/evolbioinfo/goalign/io/phylip"

	"verif/lib/conc"
	"verif/lib/fmtio"
	"verif/lib/gen"
	"verif/lib/h"
	"verif/lib/mon"
)

// ---- counting reader --------------------------------------------------------

type loopSentinel struct{ postEOF int }

type countingReader struct {
	data    []byte
	pos     int
	reads   int
	postEOF int
}

const maxPostEOF = 10000

func (r *countingReader) Read(p []byte) (int, error) {
	r.reads++
	if r.pos >= len(r.data) {
		r.postEOF++
		if r.postEOF > maxPostEOF {
			panic(loopSentinel{r.postEOF})
		}
		return 0, io.EOF
	}
	n := copy(p, r.data[r.pos:])
	r.pos += n
	return n, nil
}

// guarded runs f; returns verdict "" (returned), "loops-at-EOF", or "panic:<frame>:<kind>".
func guarded(f func()) (verdict, detail string) {
	defer func() {
		if r := recover(); r != nil {
			if _, ok := r.(loopSentinel); ok {
				verdict = "loops-at-EOF"
				detail = fmt.Sprintf("parser re-read the exhausted input more than %d times without terminating", maxPostEOF)
				return
			}
			st := string(debug.Stack())
			first := fmt.Sprintf("%v", r)
			kind := "other"
			for _, k := range []string{"index out of range", "slice bounds out of range", "nil pointer dereference", "makeslice", "negative Repeat", "out of memory"} {
				if strings.Contains(first, k) {
					kind = k
				}
			}
			if len(st) > 2500 {
				st = st[:2500]
			}
			verdict = "panic:" + mon.TopFrame(st) + ":" + kind
			detail = first + "\n" + st
		}
	}()
	f()
	return "", ""
}

// ---- well-formedness oracle -------------------------------------------------

var rePhyHeader = regexp.MustCompile(`^[ \t\r\n]*([0-9]+)[ \t]+([0-9]+)[ \t]*\r?\n`)

// the other shape of a Nexus header: a TAXA block declaring the taxa, a CHARACTERS / DATA block with nchar only
// (BEGIN must be a word of its own: "1.0BEGIN TAXA;" opens nothing - false alarm met at thorough seed 1)
var reNexTaxa = regexp.MustCompile(`(?is)(?:^|[\s;])begin\s+taxa;\s*dimensions\s+ntax=([0-9]+);\s*taxlabels\s+([^;]*);\s*end;\s*begin\s+(?:characters|data);\s*dimensions\s+nchar=([0-9]+);`)
var reNexDim = regexp.MustCompile(`(?i)(?:^|[\s;])begin[ \t]+data;[ \t]*\n[ \t]*dimensions[ \t]+ntax=([0-9]+)[ \t]+nchar=([0-9]+);`)

func mayExit(format string, in []byte) bool {
	if !strings.HasPrefix(format, "phylip") && format != "clustal" {
		return false
	}
	for i, b := range in {
		if b == '\r' && (i+1 >= len(in) || in[i+1] != '\n') {
			return true
		}
	}
	return false
}

func show(in []byte) string {
	s := strconv.Quote(string(in))
	if len(s) > 900 {
		s = s[:900] + "…"
	}
	return s
}

type popt struct{ policy, alpha int }

var alphaNames = map[int]string{align.BOTH: "auto", align.NUCLEOTIDS: "nt", align.AMINOACIDS: "aa"}

func randOpt(r *gen.Rand) popt {
	return popt{r.Intn(3), []int{align.BOTH, align.BOTH, align.NUCLEOTIDS, align.AMINOACIDS}[r.Intn(4)]}
}

// base is the parser behind a format/option set (signatures name parsers, not writer options).
func base(f fmtio.Format) string {
	if f.Code == align.FORMAT_PHYLIP {
		if f.Strict {
			return "phylip-strict"
		}
		return "phylip"
	}
	return f.Name
}

func wellFormed(c *mon.Case, tag string, f fmtio.Format, in []byte, o popt, al align.Alignment) {
	fail := func(kind, format string, a ...interface{}) {
		c.Failf(base(f)+":"+kind, "%s parser (policy=%d alphabet=%s) %s\ninput=%s", f.Name, o.policy, alphaNames[o.alpha], fmt.Sprintf(format, a...), show(in))
	}
	if al == nil {
		if f.Code == align.FORMAT_PHYLIP && len(bytes.Trim(in, " \t\r\n")) == 0 {
			c.Count("end-of-stream-marker")
			return
		}
		fail("success-nil", "returned (nil, nil) on a non blank input")
		return
	}
	n, L := al.NbSequences(), al.Length()
	if n < 1 || L < 1 {
		fail("success-empty", "reported success with %d sequences of length %d", n, L)
		return
	}
	if msg := h.CheckRect(al); msg != "" {
		fail("success-ragged", "reported success with a malformed alignment: %s", msg)
		return
	}
	seen := map[string]bool{}
	dup := ""
	al.Iterate(func(name, s string) bool {
		if seen[name] {
			dup = name
		}
		seen[name] = true
		return false
	})
	if dup != "" {
		fail("success-duplicate-names", "returned two rows named %q", dup)
		return
	}
	if f.Code == align.FORMAT_PHYLIP {
		if m := rePhyHeader.FindSubmatch(in); m != nil {
			hn, _ := strconv.Atoi(string(m[1]))
			hl, _ := strconv.Atoi(string(m[2]))
			if L != hl || n > hn || (o.policy == align.IGNORE_NONE && n != hn) {
				fail("success-contradicts-header", "header declares %d x %d, result is %d x %d", hn, hl, n, L)
			}
		}
	}
	if f.Code == align.FORMAT_NEXUS && !bytes.Contains(in, []byte("[")) {
		md := reNexDim.FindAllSubmatch(in, -1)
		if len(md) == 1 && bytes.Count(bytes.ToLower(in), []byte("ntax")) == 1 && bytes.Count(bytes.ToLower(in), []byte("nchar")) == 1 && bytes.Count(bytes.ToLower(in), []byte("matrix")) == 1 {
			hn, _ := strconv.Atoi(string(md[0][1]))
			hl, _ := strconv.Atoi(string(md[0][2]))
			if L != hl || n > hn || (o.policy == align.IGNORE_NONE && n != hn) {
				fail("success-contradicts-header", "dimensions declare ntax=%d nchar=%d, result is %d x %d", hn, hl, n, L)
			}
		}
	}
	if f.Code == align.FORMAT_NEXUS && !bytes.Contains(in, []byte("[")) {
		low := bytes.ToLower(in)
		if mt := reNexTaxa.FindAllSubmatch(in, -1); len(mt) == 1 && bytes.Count(low, []byte("ntax")) == 1 && bytes.Count(low, []byte("nchar")) == 1 && bytes.Count(low, []byte("taxlabels")) == 1 && bytes.Count(low, []byte("matrix")) == 1 {
			hn, _ := strconv.Atoi(string(mt[0][1]))
			hl, _ := strconv.Atoi(string(mt[0][3]))
			if len(strings.Fields(string(mt[0][2]))) == hn { // a self-consistent TAXA block
				c.Count("nexus:taxa-block-header-compared")
				if L != hl || n > hn || (o.policy == align.IGNORE_NONE && n != hn) {
					fail("success-contradicts-header", "the TAXA block declares ntax=%d (and that many labels), nchar=%d; result is %d x %d", hn, hl, n, L)
				}
			}
		}
	}
	c.Count("accepted:" + f.Name)
}

func parseOne(c *mon.Case, tag string, f fmtio.Format, in []byte, o popt) (accepted bool) {
	var al align.Alignment
	var err error
	rd := &countingReader{data: in}
	verdict, detail := guarded(func() { al, err = f.Parse(rd, o.policy, o.alpha) })
	c.Count("parse:" + f.Name)
	if verdict != "" {
		c.Failf(base(f)+":"+verdict, "%s parser (policy=%d alphabet=%s): %s\ninput=%s", f.Name, o.policy, alphaNames[o.alpha], detail, show(in))
		return false
	}
	if rd.reads > len(in)+maxPostEOF+10 {
		c.Failf(base(f)+":too-many-reads", "%d reads for %d bytes", rd.reads, len(in))
	}
	if err != nil {
		c.Count("rejected:" + f.Name)
		return false
	}
	wellFormed(c, tag, f, in, o, al)
	return true
}

// ---- corpus -----------------------------------------------------------------

var handWritten = map[string][]string{
	"nexus": {
		"#NEXUS\n[a comment]\nBEGIN TAXA;\n DIMENSIONS NTAX=3;\n TAXLABELS s1 s2 s3;\nEND;\nBEGIN CHARACTERS;\n DIMENSIONS NCHAR=6;\n FORMAT DATATYPE=dna MISSING=? GAP=- MATCHCHAR=.;\n MATRIX\n s1 ACGTAC\n s2 AC.T-C [inline]\n s3 ??GTAC\n ;\nEND;\n",
		"#NEXUS\nBEGIN TAXA;\n DIMENSIONS NTAX=4;\n TAXLABELS s1 s2 s3 s4;\nEND;\nBEGIN CHARACTERS;\n DIMENSIONS NCHAR=6;\n FORMAT DATATYPE=dna MISSING=? GAP=-;\n MATRIX\n s1 ACGTAC\n s2 ACTT-C\n s3 ??GTAC\n s4 ACGTAA\n ;\nEND;\n",
		"#NEXUS\nbegin taxa;\ndimensions ntax=3;\ntaxlabels a b c;\nend;\nbegin data;\ndimensions nchar=4;\nformat datatype=protein;\nmatrix\na ARND\nb QEGH\nc ILKM\n;\nend;\n",
		"#NEXUS\nbegin data;\ndimensions ntax=2 nchar=8;\nformat datatype=protein interleave;\nmatrix\na ARND\nb QEGH\n\na CQEG\nb ILKM\n;\nend;\nbegin trees;\ntree t=(a,b);\nend;\n",
	},
	"stockholm": {
		"# STOCKHOLM 1.0\n#=GF ID x\n#=GF AC PF00001\n\ns1 ACGT.A\ns2 AC-TTA\n#=GC SS_cons ......\n//\n",
		"# STOCKHOLM 1.0\n42\tARNDC\nb\tQEGHI\n//",
	},
	"clustal": {
		"CLUSTAL W (1.83) multiple sequence alignment\n\ns1   ACGTACGTAC 10\ns2   ACGT-CGTAC 10\n     **** *****\n\ns1   GGTT 14\ns2   GG-T 14\n     ** *\n",
		"CLUSTAL O(1.2.4)\n\n\na      ARND\nb      ARNE\n       ***.\n",
	},
	"fasta": {
		">s1 desc\nACGT\nACGT\n>s2\nAC-TACGT\n\n>s3\r\nACGTACGT\r\n",
		">a\nARNDCQ\n> b\nARNDCE\n",
	},
	"phylip": {
		" 2 12\ns1  ACGTAC GTAC\ns2  ACGTAC GTAA\n\n   GG\n   GT\n",
		"3 4\na  ACGT\nb  ACGA\nc  ACGC\n 2 3\nx  AAA\ny  CCC\n",
		" 2 4\r\ns1  ACGT\r\ns2  ACGA\r\n",
	},
	"phylip-strict": {
		" 2 12\nsequence_1ACGTACGTAC\nseq 2     ACGTACGTAA\n\n          GG\n          GT\n",
	},
}

func genRows(r *gen.Rand, strict bool) gen.Rows {
	n := r.Range(1, 4)
	L := r.PickInt([]int{1, 2, 3, 5, 9, 10, 11, 12, 20, 50, 51, 60, 61, 80, 81})
	alpha := gen.NtCore + "acgtN-"
	if r.Chance(0.4) {
		alpha = gen.AaCore + "X-"
	}
	rows := make(gen.Rows, n)
	for i := range rows {
		name := "s" + gen.Itoa(i)
		switch r.Intn(5) {
		case 0:
			name = gen.Itoa(r.Intn(100))
		case 1:
			name = r.Str(r.Range(1, 10), "abcXYZ019_|.")
		}
		if strict && len(name) > 10 {
			name = name[:10]
		}
		for j := 0; j < i; j++ {
			if rows[j].Name == name {
				name += "q" + gen.Itoa(i)
			}
		}
		rows[i] = gen.Seq{Name: name, Seq: r.Str(L, alpha)}
	}
	return rows
}

// seedFile returns a valid file of some format.
func seedFile(r *gen.Rand) (fmtio.Format, []byte) {
	f := fmtio.All[r.Intn(len(fmtio.All))]
	base := f.Name
	if strings.HasPrefix(base, "phylip-strict") {
		base = "phylip-strict"
	} else if strings.HasPrefix(base, "phylip") {
		base = "phylip"
	}
	if hw := handWritten[base]; len(hw) > 0 && r.Chance(0.3) {
		return f, []byte(hw[r.Intn(len(hw))])
	}
	rows := genRows(r, f.Strict)
	al := h.MkAlignAuto(rows)
	out := f.Write(al)
	if f.Code == align.FORMAT_PHYLIP && r.Chance(0.25) { // stream of two alignments
		out += f.Write(h.MkAlignAuto(genRows(r, f.Strict)))
	}
	return f, []byte(out)
}

var hostileBytes = []byte{0, '\r', '\t', '\n', ' ', '[', ']', ';', '=', '#', '>', '/', '-', '.', '*', '0', '1', '9', 0x80, 0xe9, 0xff, 'A', 'x', ',', ':', '(', '"', '\''}

var hostileTokens = []string{"[", "]", "[unterminated", ";", "end;", "END;", "matrix", "MATRIX", "begin data;", "//", "#=GF ID x", "# STOCKHOLM 1.0", "#", ">", ">x", "CLUSTAL", "dimensions ntax=2 nchar=3;",
	"format datatype=dna missing=? gap=- matchchar=.;", "interleave", "taxlabels a b;", " 2 3", "0 0", "-1 4", "10000000000 4", "4611686018427387904 4", "1000000000 1000000000", "\xe9", "  ", "\n\n"}

func splitLines(b []byte) [][]byte { return bytes.SplitAfter(b, []byte("\n")) }

func mutate(r *gen.Rand, in []byte, other []byte) ([]byte, string) {
	b := append([]byte(nil), in...)
	k := r.Intn(12)
	switch k {
	case 0: // truncate
		if len(b) > 0 {
			b = b[:r.Intn(len(b))]
		}
		return b, "truncate"
	case 1: // substitute one byte
		if len(b) > 0 {
			b[r.Intn(len(b))] = hostileBytes[r.Intn(len(hostileBytes))]
		}
		return b, "substitute"
	case 2: // delete a byte
		if len(b) > 0 {
			i := r.Intn(len(b))
			b = append(b[:i], b[i+1:]...)
		}
		return b, "delete-byte"
	case 3: // insert a byte
		i := r.Intn(len(b) + 1)
		b = append(b[:i], append([]byte{hostileBytes[r.Intn(len(hostileBytes))]}, b[i:]...)...)
		return b, "insert-byte"
	case 4, 5, 6: // line delete / duplicate / swap
		ls := splitLines(b)
		if len(ls) < 2 {
			return b, "noop"
		}
		i := r.Intn(len(ls))
		switch k {
		case 4:
			ls = append(ls[:i], ls[i+1:]...)
			return bytes.Join(ls, nil), "delete-line"
		case 5:
			ls = append(ls[:i], append([][]byte{ls[i]}, ls[i:]...)...)
			return bytes.Join(ls, nil), "duplicate-line"
		default:
			j := r.Intn(len(ls))
			ls[i], ls[j] = ls[j], ls[i]
			return bytes.Join(ls, nil), "swap-lines"
		}
	case 7: // token splice from another corpus file
		if len(other) > 0 {
			a, z := r.Intn(len(other)), r.Intn(len(other))
			if a > z {
				a, z = z, a
			}
			i := r.Intn(len(b) + 1)
			b = append(b[:i], append(append([]byte(nil), other[a:z]...), b[i:]...)...)
		}
		return b, "splice"
	case 8: // insert a hostile token at a line boundary or anywhere
		tok := hostileTokens[r.Intn(len(hostileTokens))]
		i := r.Intn(len(b) + 1)
		if r.Bool() {
			ls := splitLines(b)
			j := r.Intn(len(ls) + 1)
			i = 0
			for _, l := range ls[:j] {
				i += len(l)
			}
			if r.Bool() {
				tok += "\n"
			}
		}
		b = append(b[:i], append([]byte(tok), b[i:]...)...)
		return b, "insert-token"
	case 9: // edit a number
		re := regexp.MustCompile(`[0-9]+`)
		locs := re.FindAllIndex(b, -1)
		if len(locs) == 0 {
			return b, "noop"
		}
		l := locs[r.Intn(len(locs))]
		old, _ := strconv.Atoi(string(b[l[0]:l[1]]))
		repl := []string{"0", "-1", "1", strconv.Itoa(old + 1), strconv.Itoa(old - 1), "1000000000", "10000000000", "4611686018427387904", "99999999999999999999"}
		nb := append([]byte(nil), b[:l[0]]...)
		nb = append(nb, repl[r.Intn(len(repl))]...)
		nb = append(nb, b[l[1]:]...)
		return nb, "edit-number"
	case 10: // remove a terminator
		for _, t := range r.Perm(5) {
			term := []string{";", "end;", "//", "\n", "]"}[t]
			if i := bytes.LastIndex(b, []byte(term)); i >= 0 {
				return append(b[:i], b[i+len(term):]...), "remove-terminator"
			}
		}
		return b, "noop"
	default: // append markup / comment without newline at end of file
		tails := []string{"#=GF ID x", "[", "[abc", "#", "\n#=GC x", ">", ">x", ";", "  ", "\r", "s1", "\nMATRIX", "a b"}
		return append(b, tails[r.Intn(len(tails))]...), "append-at-eof"
	}
}

// ---- sub-checks ------------------------------------------------------------

func runMutants(c *mon.Case) {
	r := c.R
	f, seed := seedFile(r)
	_, other := seedFile(r)
	in := seed
	var muts []string
	depth := r.Range(1, 3)
	for i := 0; i < depth; i++ {
		var m string
		in, m = mutate(r, in, other)
		muts = append(muts, m)
	}
	// sometimes feed the file to another format's parser
	pf := f
	if r.Chance(0.1) {
		pf = fmtio.All[r.Intn(len(fmtio.All))]
	}
	o := randOpt(r)
	c.Input(map[string]interface{}{"format": pf.Name, "seed_format": f.Name, "mutations": muts, "policy": o.policy, "alphabet": alphaNames[o.alpha], "input": string(in)})
	if mayExit(pf.Name, in) {
		c.Checkpoint()
	}
	for _, m := range muts {
		c.Count("mut:" + m)
	}
	acc := parseOne(c, "mutant", pf, in, o)
	if !bytes.Equal(in, seed) {
		c.NonTrivial(pf.Name, string(in), strconv.Itoa(o.policy), strconv.Itoa(o.alpha))
	}
	c.Note("accepted=%v", acc)
	// unaligned FASTA entry point and the multi-alignment Phylip entry points on the same bytes
	if pf.Code == align.FORMAT_FASTA {
		var sb align.SeqBag
		var err error
		rd := &countingReader{data: in}
		verdict, detail := guarded(func() { sb, err = fasta.NewParser(rd).IgnoreIdentical(o.policy).Alphabet(o.alpha).ParseUnalign() })
		c.Count("parse:fasta-unalign")
		if verdict != "" {
			c.Failf("fasta-unalign:"+verdict, "%s\ninput=%s", detail, show(in))
		} else if err == nil {
			if sb == nil || sb.NbSequences() < 1 {
				c.Failf("fasta-unalign:success-empty", "ParseUnalign reported success with no sequence\ninput=%s", show(in))
			} else if p := h.Invariants(sb); len(p) > 0 {
				c.Failf("fasta-unalign:invariant-hook", "%v\ninput=%s", p, show(in))
			}
		}
	}
	if pf.Code == align.FORMAT_PHYLIP {
		streamParse(c, pf, in, o)
	}
}

// streamParse calls Parse repeatedly until end of stream / error, and ParseMultiple.
func streamParse(c *mon.Case, pf fmtio.Format, in []byte, o popt) {
	rd := &countingReader{data: in}
	p := phylip.NewParser(rd, pf.Strict).IgnoreIdentical(o.policy).Alphabet(o.alpha)
	count := 0
	var endErr error
	verdict, detail := guarded(func() {
		for {
			al, err := p.Parse()
			if err != nil || al == nil {
				endErr = err
				return
			}
			count++
			if al.NbSequences() < 1 || al.Length() < 1 || h.CheckRect(al) != "" {
				c.Failf(base(pf)+":stream-malformed-member", "member %d of the stream is malformed (%d x %d) %s\ninput=%s", count, al.NbSequences(), al.Length(), h.CheckRect(al), show(in))
				return
			}
			if count > len(in)+2 {
				c.Failf(base(pf)+":stream-no-progress", "more alignments (%d) than input bytes (%d)\ninput=%s", count, len(in), show(in))
				return
			}
		}
	})
	c.Count("parse:phylip-stream")
	if verdict != "" {
		c.Failf(base(pf)+":stream:"+verdict, "repeated Parse: %s\ninput=%s", detail, show(in))
		return
	}
	// ParseMultiple: same number of alignments, channel closed
	rd2 := &countingReader{data: in}
	p2 := phylip.NewParser(rd2, pf.Strict).IgnoreIdentical(o.policy).Alphabet(o.alpha)
	ch := &align.AlignChannel{Achan: make(chan align.Alignment, len(in)+8)}
	verdict, detail = guarded(func() { p2.ParseMultiple(ch) })
	if verdict != "" {
		c.Failf(base(pf)+":multiple:"+verdict, "ParseMultiple: %s\ninput=%s", detail, show(in))
		return
	}
	got := 0
	closed := false
	for !closed {
		select {
		case al, ok := <-ch.Achan:
			if !ok {
				closed = true
			} else if al != nil {
				got++
			}
		default:
			c.Failf(base(pf)+":multiple:not-closed", "ParseMultiple returned without closing its channel\ninput=%s", show(in))
			return
		}
	}
	if got != count {
		c.Failf(base(pf)+":multiple:count", "ParseMultiple delivered %d alignments, repeated Parse %d\ninput=%s", got, count, show(in))
	}
	// "an error or a well-formed result": what ends the stream is reported the same way through both entry points
	if (ch.Err != nil) != (endErr != nil) {
		c.Failf(base(pf)+":multiple:error-lost", "after %d alignments repeated Parse ends with error %v, ParseMultiple closes its channel with Err=%v\ninput=%s", count, endErr, ch.Err, show(in))
	}
	if endErr != nil && count >= 1 {
		c.Count("stream-error-after-a-valid-member")
	}
	if count >= 2 {
		c.Count("stream-with-2+")
	}
}

func runTruncations(c *mon.Case) {
	r := c.R
	f, seed := seedFile(r)
	if len(seed) > 500 {
		seed = seed[:500]
	}
	o := randOpt(r)
	c.Input(map[string]interface{}{"format": f.Name, "policy": o.policy, "alphabet": alphaNames[o.alpha], "file": string(seed), "truncations": "every prefix"})
	acc := 0
	for t := 0; t <= len(seed); t++ {
		if parseOne(c, "trunc", f, seed[:t], o) {
			acc++
		}
		if c.Failed() {
			break
		}
	}
	c.Note("%d of %d prefixes accepted", acc, len(seed)+1)
	c.Add("truncation-points", len(seed)+1)
	c.NonTrivial(f.Name, string(seed))
}

func runSingleByte(c *mon.Case) {
	// every position of a small file x one hostile byte
	r := c.R
	f, seed := seedFile(r)
	if len(seed) > 300 {
		seed = seed[:300]
	}
	hb := hostileBytes[r.Intn(len(hostileBytes))]
	if hb == '\r' && (strings.HasPrefix(f.Name, "phylip") || f.Name == "clustal") {
		hb = 0xe9
	}
	o := randOpt(r)
	c.Input(map[string]interface{}{"format": f.Name, "policy": o.policy, "alphabet": alphaNames[o.alpha], "file": string(seed), "byte": int(hb), "positions": "every"})
	for i := 0; i < len(seed); i++ {
		b := append([]byte(nil), seed...)
		b[i] = hb
		parseOne(c, "byte", f, b, o)
		if c.Failed() {
			break
		}
	}
	c.Add("single-byte-mutants", len(seed))
	c.NonTrivial(f.Name, string(seed), string([]byte{hb}))
}

// ---- partition parser ------------------------------------------------------

var partWitnesses = []string{"M,p=3-10/9223372036854775807\n", "M,p=3-10/99999999999999999999\n", "M,p=1-10/3,2-10/3\nN,q=3-10/3"}

var partSeeds = []string{
	"M1,p1=1-10\n", "M1,p1=1-10/3\nM2,p2=2-10/3\nM3,p3=3-10/3\n", "GTR,a=1-5\nGTR,b=6-10\n", "M,p=1-3,7-10\nN,q=4-6\n", "M, p = 1-10\n", "M,p=1-10/3,2-10/3\nN,q=3-10/3",
}

func runPartition(c *mon.Case) {
	r := c.R
	in := []byte(partSeeds[r.Intn(len(partSeeds))])
	other := []byte(partSeeds[r.Intn(len(partSeeds))])
	var muts []string
	depth := r.Range(0, 3)
	if c.Idx < len(partWitnesses) {
		in, depth = []byte(partWitnesses[c.Idx]), 0
	}
	for i, d := 0, depth; i < d; i++ {
		var m string
		in, m = mutate(r, in, other)
		muts = append(muts, m)
	}
	L := r.PickInt([]int{1, 9, 10, 11, 30})
	if c.Idx < len(partWitnesses) {
		L = 30
	}
	c.Input(map[string]interface{}{"input": string(in), "length": L, "mutations": muts})
	var ps *align.PartitionSet
	var err error
	rd := &countingReader{data: in}
	verdict, detail := guarded(func() { ps, err = partition.NewParser(rd).Parse(L) })
	c.Count("parse:partition")
	if verdict != "" {
		c.Failf("partition:"+verdict, "length=%d: %s\ninput=%s", L, detail, show(in))
		return
	}
	if err != nil {
		c.Count("rejected:partition")
		c.NonTrivial("partition", string(in), strconv.Itoa(L))
		return
	}
	c.Count("accepted:partition")
	c.NonTrivial("partition", string(in), strconv.Itoa(L))
	if ps == nil {
		c.Failf("partition:success-nil", "nil partition set without error\ninput=%s", show(in))
		return
	}
	if ps.AliLength() != L {
		c.Failf("partition:length", "AliLength()=%d, declared %d\ninput=%s", ps.AliLength(), L, show(in))
		return
	}
	if L < 1 {
		c.Failf("partition:success-empty", "success for declared length %d\ninput=%s", L, show(in))
		return
	}
	np := ps.NPartitions()
	pan, msg, _ := mon.Protect(func() {
		for i := 0; i < L; i++ {
			p := ps.Partition(i)
			if p < -1 || p >= np {
				c.Failf("partition:code-out-of-range", "site %d has partition %d of %d\ninput=%s", i, p, np, show(in))
				return
			}
			if p == -1 {
				c.Count("partition:site-without-partition") // allowed: completeness is CheckSites' job
			}
		}
		for p := 0; p < np; p++ {
			_ = ps.PartitionName(p)
			_ = ps.ModeleName(p)
		}
		_ = ps.String()
	})
	if pan {
		c.Failf("partition:panic-on-result", "%s\ninput=%s", msg, show(in))
	}
}

// ---- fixed witnesses of the defects found on the pinned tree ------------------------

type witness struct {
	format string
	input  string
}

var witnesses = []witness{
	{"nexus", "#NEXUS\n[abc"},
	{"nexus", "#NEXUS\nbegin data;\ndimensions ntax=1 nchar=2;\nformat datatype=dna;\nmatrix\na AC [x"},
	{"stockholm", "# STOCKHOLM 1.0\n#=GF ID x"},
	{"stockholm", "# STOCKHOLM 1.0\n//"},
	{"fasta", ">a\n"},
	{"clustal", "CLUSTAL W\n\na   AC\nb   AC\n    **\n\na   GT\nb   GT\nc   GT\n    **\n"},
	{"phylip-strict", " 1 4\n\xe9abcdefghiACGT\n"},
	{"phylip", " 4611686018427387904 4\na ACGT\n"},
	{"phylip", " 10000000000 4\na ACGT\n"},
	{"fasta", "> "},
	{"nexus", "#NEXUS\nbegin data;\nformat datatype=dna;\nmatrix\nb1,GGCC\n;\nend;\n"},
	{"phylip", "\x00  1   2\ns0  AC\n"},
}

func runWitness(c *mon.Case) {
	w := witnesses[c.Idx%len(witnesses)]
	c.Input(map[string]interface{}{"format": w.format, "input": w.input})
	c.Checkpoint()
	for pol := 0; pol < 3; pol++ {
		parseOne(c, "witness", fmtio.ByName(w.format), []byte(w.input), popt{pol, align.BOTH})
	}
	c.NonTrivial(w.format, w.input)
}

func main() {
	mon.CPUBudget = 20 * time.Second
	mon.SetNote("rule", "case = a valid file of one of 12 format/option sets (written by goalign's own writers from a random 1..4 x 1..81 alignment, or one of 12 hand-written files with comments, markup, interleaving, CRLF, multi-alignment streams) after 1..3 mutations (truncation, byte substitution/deletion/insertion from a hostile byte set, line deletion/duplication/swap, token splice, hostile token insertion, number edits up to 2^62, terminator removal, markup/comment appended at EOF), parsed with a random duplicate policy and forced alphabet; plus per case all prefixes of a file, or one hostile byte at every position; plus the partition parser. Non-trivial = the parsed bytes differ from the seed file; distinct = distinct (parser, bytes, options).")
	mon.SetNote("assumptions", "termination oracle: a parser that re-reads the exhausted input more than 10000 times, or burns more than 20 s of CPU on a < 2 kB input, does not terminate;; io.ExitWithMessage (message on stderr + exit status 1, used by the Phylip/Clustal lexers for a lone CR) is an explicit error report;; header counts are only compared when the monitor's own scanner finds them unambiguously (Phylip first line, Nexus ntax/nchar once and no comment);; children run under ulimit -v 4 GB so that an attacker-sized allocation is a deterministic fatal error")
	for _, f := range fmtio.All {
		mon.Floor("parse:"+f.Name, 200)
		mon.Floor("accepted:"+f.Name, 5)
		mon.Floor("rejected:"+f.Name, 50)
	}
	mon.Floor("parse:partition", 200)
	mon.Floor("accepted:partition", 20)
	mon.Floor("parse:fasta-unalign", 100)
	mon.Floor("parse:phylip-stream", 100)
	mon.Floor("truncation-points", 5000)
	mon.Floor("concurrent:calls", 500)
	mon.Main("C03", []mon.Sub{
		{Name: "witness", Quick: len(witnesses), Thorough: len(witnesses), Run: runWitness},
		{Name: "mutants", Quick: 400000, Thorough: 8000000, Run: runMutants},
		{Name: "truncations", Quick: 2000, Thorough: 40000, Run: runTruncations},
		{Name: "single-byte", Quick: 1500, Thorough: 30000, Run: runSingleByte},
		{Name: "partition", Quick: 30000, Thorough: 600000, Run: runPartition},
		{Name: "concurrent", Quick: 64, Thorough: 1200, Race: true, Run: func(c *mon.Case) { conc.Run(c, "parse", "formats") }},
	})
}
