// cli-multi sub-check: a phylip input holding several alignments must give, for each of them, exactly what the
// same command gives when that alignment is alone in its file: nothing (converted coordinates, counters, state)
// may be carried over from one alignment of the input to the next. A two-execution (metamorphic) check: no oracle
// besides the command itself.
package main

import (
	"bytes"
	"fmt"
	"os"
	"os/exec"
	"path/filepath"
	"strings"

	"verif/lib/gen"
	"verif/lib/mon"
)

func multiTemplates(ref string) [][]string {
	return [][]string{
		{"mask", "-s", "1", "-l", "3"},
		{"mask", "--pos", "1,3", "--ref-seq", ref, "--replace", "GAP"},
		{"mask", "--pos", "0,2", "--ref-seq", ref},
		{"mask", "--pos", "2,0,4"},
		{"mask", "--unique", "--at-most", "1"},
		{"mask", "--unique", "--at-most", "3"},
		{"mask", "--unique", "--at-most", "4", "--replace", "MAJ"},
		{"mask", "--unique", "--ref-seq", ref},
		{"mask", "-s", "1", "-l", "2", "--ref-seq", ref, "--no-ref"},
		{"mask", "--replace", "MAJ", "-s", "0", "-l", "5"},
		{"mask", "-s", "2", "-l", "100", "--no-gaps"},
	}
}

func runCliMulti(c *mon.Case) {
	if !cliSetup() {
		c.Failf("cli:build", "cannot build the goalign binary: %s", cliBuildErr)
		return
	}
	r := c.R
	dir, err := os.MkdirTemp(filepath.Dir(cliDir), "c15-multi-")
	if err != nil {
		c.Failf("cli:harness", "%v", err)
		return
	}
	defer os.RemoveAll(dir)
	n := r.Range(3, 6)
	k := r.Range(2, 4)
	names := make([]string, n)
	for i := range names {
		names[i] = fmt.Sprintf("s%d", i)
	}
	var files []string
	var all strings.Builder
	var shown [][]string
	for a := 0; a < k; a++ {
		L := r.Range(8, 24)
		base := r.Str(L, "ACGT")
		var sb strings.Builder
		na := n
		if r.Bool() {
			na = r.Range(2, n) // alignments of different heights in one file (the first ones often the smallest)
			if a == 0 {
				na = 2
			}
		}
		fmt.Fprintf(&sb, "   %d   %d\n", na, L)
		rows := make([]string, na)
		for i := 0; i < na; i++ {
			b := []byte(base)
			for j := range b {
				if r.Chance(0.15) {
					b[j] = r.Pick("ACGT")
				}
				if r.Chance(0.2) { // gaps at different places in the different alignments (also in the reference row)
					b[j] = '-'
				}
				if r.Chance(0.05) {
					b[j] = 'N'
				}
			}
			if i == 0 && strings.Trim(string(b), "-") == "" {
				b[0] = 'A'
			}
			rows[i] = string(b)
			fmt.Fprintf(&sb, "%s  %s\n", names[i], rows[i])
		}
		shown = append(shown, rows)
		f := filepath.Join(dir, fmt.Sprintf("single%d.phy", a))
		os.WriteFile(f, []byte(sb.String()), 0644)
		files = append(files, f)
		all.WriteString(sb.String())
	}
	multi := filepath.Join(dir, "multi.phy")
	os.WriteFile(multi, []byte(all.String()), 0644)
	tpls := multiTemplates(names[0])
	tpl := tpls[c.Idx%len(tpls)]
	c.Input(map[string]interface{}{"command": strings.Join(tpl, " "), "alignments": shown})
	runOne := func(in string) (string, string, int) {
		cmd := exec.Command(cliBin, append(append([]string{}, tpl...), "-p", "-i", in)...)
		cmd.Dir = dir
		var so, se bytes.Buffer
		cmd.Stdout, cmd.Stderr = &so, &se
		exit := 0
		if e := cmd.Run(); e != nil {
			exit = 1
			if ee, ok := e.(*exec.ExitError); ok {
				exit = ee.ExitCode()
			}
		}
		return so.String(), se.String(), exit
	}
	var cat strings.Builder
	for _, f := range files {
		so, se, ex := runOne(f)
		if strings.Contains(se, "panic:") || strings.Contains(se, "goroutine ") {
			c.Failf("cli-multi:panic", "goalign %s -p -i %s crashed: %s", strings.Join(tpl, " "), filepath.Base(f), se)
			return
		}
		if ex != 0 {
			c.Count("cli-multi:single-alignment-refused")
			return // the command refuses one of the alignments on its own: nothing to compare
		}
		cat.WriteString(so)
	}
	so, se, ex := runOne(multi)
	if strings.Contains(se, "panic:") || strings.Contains(se, "goroutine ") {
		c.Failf("cli-multi:panic", "goalign %s -p -i multi.phy crashed: %s", strings.Join(tpl, " "), se)
		return
	}
	if ex != 0 || so != cat.String() {
		c.Failf("cli-multi:differs-from-one-alignment-at-a-time", "goalign %s -p on a file of %d alignments (exit %d) differs from the same command on each alignment alone:\n--- all at once\n%s\n--- one at a time\n%s\nstderr: %s", strings.Join(tpl, " "), k, ex, so, cat.String(), se)
		return
	}
	label := tpl[0]
	if len(tpl) > 1 {
		label += "-" + tpl[1]
	}
	c.Count("cli-multi:" + label)
	c.Count("cli-multi:ok")
	c.NonTrivial(strings.Join(tpl, " "), gen.Itoa(c.Idx))
}
