// cli sub-check of C15: the same rule through `goalign mask` (cmd/mask.go): the binary is built from
// the tree under test (VERIF_REPO) into the scratch directory; every case writes a FASTA file, runs the
// command (-s/-l, --pos, --unique/--at-most, --ref-seq, --replace, --no-gaps, --no-ref) and compares the
// alignment written with the reference model. With --ref-seq the coordinates are positions on the
// ungapped reference sequence of the INPUT alignment (docs/commands/mask.md).
package main

import (
	"bytes"
	"fmt"
	"os"
	"os/exec"
	"path/filepath"
	"strconv"
	"strings"

	"verif/lib/gen"
	"verif/lib/mon"
)

var cliBin, cliDir, cliBuildErr string

func cliSetup() bool {
	if cliBin != "" {
		return true
	}
	if cliBuildErr != "" {
		return false
	}
	repo := os.Getenv("VERIF_REPO")
	if repo == "" {
		repo = "/repo"
	}
	scratch := os.Getenv("VERIF_SCRATCH")
	if scratch == "" {
		scratch = os.TempDir()
	}
	dir, err := os.MkdirTemp(scratch, "c15-cli-")
	if err != nil {
		cliBuildErr = err.Error()
		fmt.Fprintln(os.Stderr, "c15 cli: "+cliBuildErr)
		return false
	}
	bin := filepath.Join(dir, "goalign")
	cmd := exec.Command("go", "build", "-o", bin, ".")
	cmd.Dir = repo
	env := []string{}
	for _, e := range os.Environ() {
		if !strings.HasPrefix(e, "GOFLAGS=") {
			env = append(env, e)
		}
	}
	cmd.Env = append(env, "GOFLAGS=-mod=readonly", "GOPROXY=off", "GOSUMDB=off", "GOTOOLCHAIN=local")
	if out, err := cmd.CombinedOutput(); err != nil {
		cliBuildErr = fmt.Sprintf("go build of %s failed: %v\n%s", repo, err, out)
		fmt.Fprintln(os.Stderr, "c15 cli: "+cliBuildErr)
		os.RemoveAll(dir)
		return false
	}
	cliBin, cliDir = bin, dir
	return true
}

type cliCase struct {
	Kind   string   `json:"kind"` // window | pos | unique
	A      alnT     `json:"alignment"`
	RefRow int      `json:"ref_row"` // -1: no --ref-seq
	Start  int      `json:"start"`
	Length int      `json:"length"`
	Pos    []int    `json:"pos,omitempty"`
	AtMost int      `json:"at_most"`
	Repl   string   `json:"replace"` // "<default>": flag not given
	NoGap  bool     `json:"no_gaps"`
	NoRef  bool     `json:"no_ref"`
	Args   []string `json:"args"`
}

func parseFasta(b []byte) (names, seqs []string) {
	for _, ln := range strings.Split(string(b), "\n") {
		ln = strings.TrimRight(ln, "\r")
		if strings.HasPrefix(ln, ">") {
			names = append(names, ln[1:])
			seqs = append(seqs, "")
		} else if len(seqs) > 0 {
			seqs[len(seqs)-1] += strings.TrimSpace(ln)
		}
	}
	return
}

// refColumns maps positions on the ungapped reference to alignment columns.
func refColumns(row string) []int {
	var cols []int
	for j := 0; j < len(row); j++ {
		if row[j] != '-' {
			cols = append(cols, j)
		}
	}
	return cols
}

func genCliAln(r *gen.Rand) alnT {
	n := r.PickInt([]int{1, 2, 3, 3, 4, 5, 6})
	L := r.PickInt([]int{1, 2, 3, 5, 8, 12, 20, 70})
	var a alnT
	for {
		a, _ = genAln(r, n, L)
		if a.Alpha == alphaUnknown {
			continue
		}
		ok := true
		for _, s := range a.Rows {
			if strings.ContainsAny(s, ".abcdefghijklmnopqrstuvwxyz") {
				ok = false
			}
		}
		if ok {
			break
		}
	}
	for i := range a.Names {
		a.Names[i] = "s" + gen.Itoa(i)
	}
	if r.Chance(0.3) {
		a.Names[r.Intn(n)] = r.PickStr([]string{"GAP", "N", "none", "MAJ"})
	}
	a.Comments = nil
	if a.Alpha == alphaAA && !strings.ContainsAny(strings.Join(a.Rows, ""), "QEILFPZ") {
		// make the protein alphabet detectable: one letter that is no nucleotide code
		i := r.Intn(n)
		b := []byte(a.Rows[i])
		b[r.Intn(L)] = 'L'
		a.Rows[i] = string(b)
	}
	return a
}

// detected alphabet of the command line (AutoAlphabet on the parsed file), by the documented letter classes
func cliAlphabet(a alnT) int {
	joined := strings.Join(a.Rows, "")
	if strings.ContainsAny(joined, "QEILFPZ") && !strings.ContainsAny(joined, "UO") {
		return alphaAA
	}
	if !strings.ContainsAny(joined, "QEILFPZ") {
		return alphaNT
	}
	return alphaUnknown
}

// fixed command lines: the defects found on the pinned tree and the documented examples
var cliWitnesses = []cliCase{
	// --pos with --ref-seq: every position is a position of the INPUT reference, also when masking turns reference residues into gaps
	{Kind: "pos", A: alnT{Alpha: alphaNT, Names: []string{"ref", "s1"}, Rows: []string{"ACGTACGT", "TTTTTTTT"}}, RefRow: 0, Pos: []int{1, 2, 3}, Repl: "GAP", AtMost: 1},
	{Kind: "pos", A: alnT{Alpha: alphaNT, Names: []string{"ref", "s1"}, Rows: []string{"ACGTACGT", "TTTTTTTT"}}, RefRow: 0, Pos: []int{1, 7}, Repl: "GAP", AtMost: 1},
	{Kind: "pos", A: alnT{Alpha: alphaNT, Names: []string{"s0", "ref", "s2"}, Rows: []string{"A-CGA", "AC-TA", "A--GC"}}, RefRow: 1, Pos: []int{1, 2}, Repl: "MAJ", AtMost: 1},
	{Kind: "pos", A: alnT{Alpha: alphaNT, Names: []string{"ref", "s1"}, Rows: []string{"AC-TACGT", "TTTTTTTT"}}, RefRow: 0, Pos: []int{6, 0, 2}, Repl: "-", AtMost: 1},
	// a window on the reference spans its gaps (docs: "these gaps will also be masked")
	{Kind: "window", A: alnT{Alpha: alphaNT, Names: []string{"s0", "ref"}, Rows: []string{"GATTAATTTGCC", "TTAAGT--TCAC"}}, RefRow: 1, Start: 4, Length: 4, Repl: "<default>", AtMost: 1},
	// a very long window is truncated
	{Kind: "window", A: alnT{Alpha: alphaNT, Names: []string{"s0", "s1"}, Rows: []string{"ACGT", "AC-T"}}, RefRow: -1, Start: 1, Length: 9223372036854775807, Repl: "<default>", AtMost: 1},
	{Kind: "window", A: alnT{Alpha: alphaAA, Names: []string{"s0", "s1"}, Rows: []string{"PHGVHCVSSYRFEKCPNFFC", "EACKWDNTCPMKIETHQHQK"}}, RefRow: -1, Start: 12, Length: 2000, Repl: "AMBIG", AtMost: 1},
	{Kind: "unique", A: alnT{Alpha: alphaNT, Names: []string{"A", "B", "C", "D"}, Rows: []string{"ACANGA-TACC", "ACTN-T-TTTC", "ACTN-TTT--T", "C-ANCCCCCCC"}}, RefRow: 0, AtMost: 2, Repl: "GAP"},
}

func genCliCase(r *gen.Rand) cliCase {
	a := genCliAln(r)
	n := len(a.Rows)
	L := len(a.Rows[0])
	a.Alpha = cliAlphabet(a)
	k := cliCase{A: a, RefRow: -1, Repl: "<default>", AtMost: -1}
	k.Kind = r.PickStr([]string{"window", "window", "pos", "pos", "unique", "unique"})
	if r.Chance(0.6) {
		k.RefRow = r.Intn(n)
		for i, nm := range a.Names {
			if nm == "none" && r.Chance(0.8) {
				k.RefRow = i // a reference whose name spells the default value of --ref-seq
			}
		}
	}
	if r.Chance(0.75) {
		k.Repl = r.PickStr([]string{"AMBIG", "GAP", "GAP", "MAJ", "MAJ", "-", "N", "#"})
	}
	k.NoGap = r.Chance(0.3)
	k.NoRef = r.Chance(0.3)
	U := L
	if k.RefRow >= 0 {
		U = len(refColumns(a.Rows[k.RefRow]))
	}
	switch k.Kind {
	case "window":
		k.Start = r.PickInt([]int{0, 0, 1, U - 1, U, r.Intn(U + 1), r.Intn(U + 1)})
		k.Length = r.PickInt([]int{1, 1, 2, U - k.Start, U - k.Start - 1, U - k.Start + 1, r.Intn(U + 2), r.Intn(U + 2), 10, 2000})
		if k.RefRow >= 0 && U > 0 && r.Chance(0.6) { // inside the ungapped reference: the documented range of --ref-seq
			k.Start = r.Intn(U)
			k.Length = r.Range(1, U-k.Start)
		}
	case "pos":
		np := r.Range(1, 5)
		perm := r.Perm(U + 1) // may include U itself (one past the end)
		for _, p := range perm {
			if len(k.Pos) < np && (p < U || r.Chance(0.1)) {
				k.Pos = append(k.Pos, p)
			}
		}
		if len(k.Pos) == 0 {
			k.Pos = []int{0}
		}
	case "unique":
		if r.Chance(0.7) {
			k.AtMost = r.Range(0, n+1)
		}
	}
	return k
}

func runCli(c *mon.Case) {
	if !cliSetup() {
		c.Failf("cli:build", "cannot build the goalign binary: %s", cliBuildErr)
		return
	}
	r := c.R
	var k cliCase
	if c.Idx < len(cliWitnesses) {
		k = cliWitnesses[c.Idx]
	} else {
		k = genCliCase(r)
	}
	a := k.A
	n, L := len(a.Rows), len(a.Rows[0])
	ucols := []int{}
	U := L
	if k.RefRow >= 0 {
		ucols = refColumns(a.Rows[k.RefRow])
		U = len(ucols)
	}
	tl := tally{}
	defer tl.flush(c)
	in := filepath.Join(cliDir, "in.fa")
	out := filepath.Join(cliDir, "out.fa")
	os.Remove(out)
	var fa strings.Builder
	for i := range a.Rows {
		fmt.Fprintf(&fa, ">%s\n%s\n", a.Names[i], a.Rows[i])
	}
	if err := os.WriteFile(in, []byte(fa.String()), 0644); err != nil {
		c.Failf("cli:harness", "%v", err)
		return
	}
	args := []string{"mask", "-i", in, "-o", out}
	if k.RefRow >= 0 {
		args = append(args, "--ref-seq", a.Names[k.RefRow])
	}
	if k.Repl != "<default>" {
		args = append(args, "--replace="+k.Repl)
	}
	if k.NoGap {
		args = append(args, "--no-gaps")
	}
	if k.NoRef {
		args = append(args, "--no-ref")
	}
	repl := k.Repl
	if repl == "<default>" {
		repl = "AMBIG"
	}
	refIdx, refName := -1, ""
	if k.RefRow >= 0 {
		refIdx, refName = k.RefRow, a.Names[k.RefRow]
	}
	rows := make([][]byte, n)
	for i := range rows {
		rows[i] = []byte(a.Rows[i])
	}
	// the model: a list of library level calls on alignment columns, or "lenient" (outside the documented range)
	var calls []call
	lenient := ""
	switch k.Kind {
	case "window":
		args = append(args, "-s", strconv.Itoa(k.Start))
		if k.Length != 10 || r.Bool() {
			args = append(args, "-l", strconv.Itoa(k.Length))
		}
		if k.RefRow < 0 {
			calls = []call{{Op: "Mask", RefIdx: -1, Start: k.Start, Length: k.Length, Repl: repl, NoGap: k.NoGap, NoRef: k.NoRef}}
			if k.Start < 0 {
				lenient = "negative start"
			}
		} else if k.Start >= 0 && k.Length > 0 && k.Start+k.Length <= U {
			cs, ce := ucols[k.Start], ucols[k.Start+k.Length-1]
			calls = []call{{Op: "Mask", RefIdx: refIdx, Ref: refName, Start: cs, Length: ce - cs + 1, Repl: repl, NoGap: k.NoGap, NoRef: k.NoRef}}
			tl["cli:window-on-reference"]++
			if ce-cs+1 > k.Length {
				tl["cli:window-spans-reference-gaps"]++
			}
		} else {
			lenient = "window not inside the ungapped reference (RefCoordinates documents an error)"
		}
	case "pos":
		strs := []string{}
		for _, p := range k.Pos {
			strs = append(strs, strconv.Itoa(p))
			if p >= U {
				lenient = "position outside the sequence"
			}
		}
		args = append(args, "--pos", strings.Join(strs, ","))
		if lenient == "" {
			for _, p := range k.Pos {
				col := p
				if k.RefRow >= 0 {
					col = ucols[p]
				}
				calls = append(calls, call{Op: "Mask", RefIdx: refIdx, Ref: refName, Start: col, Length: 1, Repl: repl, NoGap: k.NoGap, NoRef: k.NoRef})
			}
			if k.RefRow >= 0 {
				tl["cli:pos-on-reference"]++
			}
		}
	case "unique":
		args = append(args, "--unique")
		atMost := 1 // documented default
		if k.AtMost >= 0 {
			atMost = k.AtMost
			args = append(args, "--at-most", strconv.Itoa(k.AtMost))
		}
		calls = []call{{Op: "MaskOccurences", RefIdx: refIdx, Ref: refName, K: atMost, Repl: repl}}
	}
	k.Args = args
	c.Input(k)
	c.Checkpoint()
	cmd := exec.Command(cliBin, args...)
	var stdout, stderr bytes.Buffer
	cmd.Stdout, cmd.Stderr = &stdout, &stderr
	runErr := cmd.Run()
	exit := 0
	if runErr != nil {
		exit = 1
		if ee, ok := runErr.(*exec.ExitError); ok {
			exit = ee.ExitCode()
		}
	}
	outBytes, _ := os.ReadFile(out)
	onames, oseqs := parseFasta(outBytes)
	tl["cli:runs"]++
	tl["cli:kind:"+k.Kind]++
	if k.RefRow >= 0 {
		tl["cli:ref-seq"]++
	}
	fail := func(sig, format string, x ...interface{}) {
		c.Failf("cli:"+sig, "goalign %s\ninput rows %q names %q\nexit %d stderr %q\noutput names %q rows %q\n%s", strings.Join(args[1:], " "), a.Rows, a.Names, exit, strings.TrimSpace(stderr.String()), onames, oseqs, fmt.Sprintf(format, x...))
	}
	if strings.Contains(stderr.String(), "panic:") || strings.Contains(stderr.String(), "goroutine ") {
		fail("panic", "the command crashed")
		return
	}
	// merged expectation of the call list: the calls touch pairwise distinct columns
	merged := expectation{err: errNone}
	if lenient != "" {
		tl["cli:outside-documented-range"]++
		if exit != 0 {
			return
		}
		// success: the frame must hold and only replacement values may appear
		if !eqStr(onames, a.Names) || len(oseqs) != n {
			fail("frame-names", "names / rows changed (%s)", lenient)
			return
		}
		for i := range oseqs {
			if len(oseqs[i]) != L {
				fail("frame-length", "row %d has %d residues, had %d (%s)", i, len(oseqs[i]), L, lenient)
				return
			}
		}
		return
	}
	for ci, kc := range calls {
		e := expect(rows, a.Alpha, kc)
		if e.err == errMust {
			merged.err = errMust
			merged.why = e.why
			break
		}
		if e.err == errEither {
			merged.err = errEither
		}
		if ci == 0 {
			merged.readings = e.readings
			merged.selected, merged.guarded = e.selected, e.guarded
			continue
		}
		for ri := range merged.readings {
			if ri < len(e.readings) {
				for j, cd := range e.readings[ri].cols {
					if cd != nil {
						merged.readings[ri].cols[j] = cd
					}
				}
			}
		}
		merged.selected += e.selected
		merged.guarded += e.guarded
	}
	if exit != 0 {
		tl["cli:outcome:error"]++
		if merged.err == errNone {
			fail("unexpected-error", "the command failed on a valid request")
		}
		return
	}
	if merged.err == errMust {
		fail("error-expected", "exit status 0 although %s", merged.why)
		return
	}
	if !eqStr(onames, a.Names) || len(oseqs) != n {
		fail("frame-names", "names / order / number of rows changed")
		return
	}
	arows := make([][]byte, n)
	for i := range oseqs {
		if len(oseqs[i]) != L {
			fail("frame-length", "row %d has %d residues, had %d", i, len(oseqs[i]), L)
			return
		}
		arows[i] = []byte(oseqs[i])
	}
	var kind, detail string
	ok := false
	for ri, rd := range merged.readings {
		good, kd, dt := rd.explain(rows, arows)
		if good {
			ok = true
			break
		}
		if ri == 0 {
			kind, detail = kd, dt
		}
	}
	if !ok {
		exp := merged.readings[0].expectedRows(rows)
		if k.Kind == "window" && k.Length >= 1<<31-1 {
			kind += "@huge-length"
		}
		fail(k.Kind+":"+kind, "%s\nexpected (reading %s) %q\nlibrary level calls %v", detail, merged.readings[0].name, exp, calls)
		return
	}
	tl["cli:outcome:ok"]++
	if merged.selected > 0 && merged.guarded > 0 {
		c.NonTrivial("cli", a.key(), strings.Join(args[5:], " "))
	}
	c.Note("goalign %s -> %q", strings.Join(args[5:], " "), oseqs)
}
