// C15 monitor: masking rewrites exactly the selected residues and nothing else.
//
// Every call of Alignment.Mask / MaskOccurences / MaskUnique on a generated alignment is compared
// with a reference model (ref.go) cell by cell, together with the complete frame: names, order,
// comments, number of rows, Length(), alphabet, rectangular shape, name index (VerifInvariants and
// look-ups by name). Windows are enumerated bounded-exhaustively (start -1..L+1, length 0..L+2 plus
// a negative and huge ones), with every row / no row / an unknown name as reference, both
// protection flags, every replacement mode and every threshold -1..n+1.
package main

import (
	"fmt"
	"math"
	"runtime/debug"
	"strings"

	"github.com/evolbioinfo/goalign/align"

	"verif/lib/conc"
	"verif/lib/gen"
	"verif/lib/mon"
)

// ---------------------------------------------------------------- observation

type obsT struct {
	names, seqs, comments []string
	length, n, alpha      int
}

func observe(al align.Alignment) obsT {
	o := obsT{length: al.Length(), n: al.NbSequences(), alpha: al.Alphabet()}
	al.IterateAll(func(name string, s []uint8, comment string) bool {
		o.names = append(o.names, name)
		o.seqs = append(o.seqs, string(s))
		o.comments = append(o.comments, comment)
		return false
	})
	return o
}

func (o obsT) rows() [][]byte {
	r := make([][]byte, len(o.seqs))
	for i, s := range o.seqs {
		r[i] = []byte(s)
	}
	return r
}

func eqStr(a, b []string) bool {
	if len(a) != len(b) {
		return false
	}
	for i := range a {
		if a[i] != b[i] {
			return false
		}
	}
	return true
}

// deep checks the other access paths against the observation: name index, access by position, hook.
func deep(al align.Alignment, o obsT) string {
	for i, nm := range o.names {
		s, ok := al.GetSequence(nm)
		if !ok || s != o.seqs[i] {
			return fmt.Sprintf("GetSequence(%q) = %q,%v but row %d holds %q", nm, s, ok, i, o.seqs[i])
		}
		s2, ok := al.GetSequenceById(i)
		if !ok || s2 != o.seqs[i] {
			return fmt.Sprintf("GetSequenceById(%d) = %q,%v but the row holds %q", i, s2, ok, o.seqs[i])
		}
		if id := al.GetSequenceIdByName(nm); id != i {
			return fmt.Sprintf("GetSequenceIdByName(%q) = %d, row is %d", nm, id, i)
		}
	}
	if o.n > 0 {
		if p := align.VerifInvariants(al); len(p) > 0 {
			return "invariant hook: " + strings.Join(p, "; ")
		}
	}
	return ""
}

// ---------------------------------------------------------------- alignment under test

type alnT struct {
	Names    []string `json:"names"`
	Rows     []string `json:"rows"`
	Comments []string `json:"comments,omitempty"`
	Alpha    int      `json:"alphabet"` // 0 aa, 1 nt, 3 unknown
}

func (a alnT) build() align.Alignment {
	al := align.NewAlign(a.Alpha)
	for i := range a.Rows {
		cm := ""
		if i < len(a.Comments) {
			cm = a.Comments[i]
		}
		if err := al.AddSequence(a.Names[i], a.Rows[i], cm); err != nil {
			panic("harness: AddSequence: " + err.Error())
		}
	}
	return al
}

func (a alnT) key() string {
	return fmt.Sprintf("%d|%s|%s", a.Alpha, strings.Join(a.Names, "\x00"), strings.Join(a.Rows, "/"))
}

func (a alnT) unknownName() string {
	cands := []string{"no_such_row", "", "x"}
	if len(a.Names) > 0 {
		cands = []string{a.Names[0] + "x", a.Names[0] + " ", strings.ToUpper(a.Names[0]) + "_", "no_such_row"}
	}
	for _, c := range cands {
		if c == "" {
			continue
		}
		found := false
		for _, n := range a.Names {
			if n == c {
				found = true
			}
		}
		if !found {
			return c
		}
	}
	return "no_such_row_at_all"
}

// refs returns the reference choices: none, every row, an unknown name.
func (a alnT) refs() (idx []int, names []string) {
	idx = append(idx, -1)
	names = append(names, "")
	for i, n := range a.Names {
		idx = append(idx, i)
		names = append(names, n)
	}
	idx = append(idx, -2)
	names = append(names, a.unknownName())
	return
}

// ---------------------------------------------------------------- one checked call

type tally map[string]int

func (t tally) flush(c *mon.Case) {
	for k, v := range t {
		c.Add(k, v)
	}
}

func doCall(al align.Alignment, k call) error {
	switch k.Op {
	case "Mask":
		return al.Mask(k.Ref, k.Start, k.Length, k.Repl, k.NoGap, k.NoRef)
	case "MaskUnique":
		return al.MaskUnique(k.Ref, k.Repl)
	default:
		return al.MaskOccurences(k.Ref, k.K, k.Repl)
	}
}

func replClass(r string) string {
	switch r {
	case "":
		return "repl:empty"
	case "AMBIG":
		return "repl:AMBIG"
	case "GAP":
		return "repl:GAP"
	case "MAJ":
		return "repl:MAJ"
	}
	if len(r) == 1 {
		return "repl:char"
	}
	return "repl:invalid"
}

func winClass(k call, L int) string {
	switch {
	case k.Start < 0:
		return "win:start<0"
	case k.Start > L:
		return "win:start>L"
	case k.Length < 0:
		return "win:length<0"
	case k.Length >= math.MaxInt32:
		if k.Start == L {
			return "win:start=L"
		}
		return "win:huge-length"
	case k.Start == L:
		return "win:start=L"
	case k.Length == 0:
		return "win:empty"
	case k.Length > L-k.Start:
		return "win:overhang"
	case k.Length == L-k.Start:
		if k.Start == 0 {
			return "win:whole"
		}
		return "win:to-last-column"
	case k.Start == 0:
		return "win:from-first-column"
	}
	return "win:inside"
}

func kClass(k, n int) string {
	switch {
	case k < 0:
		return "k:negative"
	case k == 0:
		return "k:0"
	case k == 1:
		return "k:1"
	case k >= n:
		return "k:>=n"
	}
	return "k:2..n-1"
}

// failSeen counts the reports per violation group in this process: only the first ones are rendered in full.
var failSeen = map[string]int{}

type checked struct {
	after    obsT
	changed  int  // cells that changed
	mixedSel bool // the call both replaced cells and had to leave cells of touched columns alone
	failed   bool
}

// check runs one call on al (whose state is `before`) and decides it. tl collects coverage.
func check(c *mon.Case, al align.Alignment, before obsT, k call, tl tally, ctx string) (res checked) {
	rows := before.rows()
	L := before.length
	e := expect(rows, before.alpha, k)
	err := doCall(al, k)
	after := observe(al)
	res.after = after
	fail := func(kind, format string, a ...interface{}) {
		res.failed = true
		suffix := ""
		if k.Op == "Mask" && k.Length >= math.MaxInt32 && kind == "selected-cell-not-masked" {
			suffix = "@huge-length" // the window is not truncated but dropped: a defect of its own
		}
		if failSeen[c.Sub+k.Op+kind+suffix]++; failSeen[c.Sub+k.Op+kind+suffix] > 3 {
			c.Failf(k.Op+":"+kind+suffix, "(details of this group are kept for its first occurrences only)")
			return
		}
		exp := ""
		if len(e.readings) > 0 && len(rows) > 0 {
			exp = fmt.Sprintf("\nexpected (reading %s) %q", e.readings[0].name, e.readings[0].expectedRows(rows))
		}
		c.Failf(k.Op+":"+kind+suffix, "%s\n%s alphabet=%d names=%q\nbefore   %q\nobserved %q err=%v%s\n%s", k.String(), ctx, before.alpha, before.names, before.seqs, after.seqs, err, exp, fmt.Sprintf(format, a...))
	}
	tl["op:"+k.Op]++
	tl[replClass(k.Repl)]++
	switch {
	case k.RefIdx == -1:
		tl["ref:none"]++
	case k.RefIdx == -2:
		tl["ref:unknown-name"]++
	case k.RefIdx == 0:
		tl["ref:first-row"]++
	case k.RefIdx == before.n-1:
		tl["ref:last-row"]++
	default:
		tl["ref:middle-row"]++
	}
	if k.Op == "Mask" {
		tl[winClass(k, L)]++
		if k.NoGap {
			tl["flag:nogap"]++
		}
		if k.NoRef {
			tl["flag:noref"]++
		}
		if k.NoGap && k.NoRef {
			tl["flag:nogap+noref"]++
		}
	} else if k.Op == "MaskOccurences" {
		tl[kClass(k.K, before.n)]++
	}

	// frame: everything but the residues
	if !eqStr(after.names, before.names) {
		fail("frame-names", "names / order changed: %q -> %q", before.names, after.names)
		return
	}
	if !eqStr(after.comments, before.comments) {
		fail("frame-comments", "comments changed: %q -> %q", before.comments, after.comments)
		return
	}
	if after.n != before.n || len(after.seqs) != before.n {
		fail("frame-nbseq", "NbSequences %d -> %d (rows iterated %d)", before.n, after.n, len(after.seqs))
		return
	}
	if after.length != before.length {
		fail("frame-length", "Length() %d -> %d", before.length, after.length)
		return
	}
	if after.alpha != before.alpha {
		fail("frame-alphabet", "Alphabet() %d -> %d", before.alpha, after.alpha)
		return
	}
	for i, s := range after.seqs {
		if len(s) != len(before.seqs[i]) {
			fail("frame-row-length", "row %d has %d residues, had %d", i, len(s), len(before.seqs[i]))
			return
		}
	}
	arows := after.rows()
	for i := range rows {
		for j := range rows[i] {
			if rows[i][j] != arows[i][j] {
				res.changed++
			}
		}
	}
	if err != nil {
		tl["outcome:error"]++
		if e.err == errNone {
			fail("unexpected-error", "error %q but the call is valid (%s)", err.Error(), winClass(k, L))
			return
		}
		if res.changed > 0 {
			fail("changed-on-error", "error %q returned but %d cells changed", err.Error(), res.changed)
			return
		}
	} else {
		if e.err == errMust {
			fail("error-expected", "no error although %s (%d cells changed)", e.why, res.changed)
			return
		}
		if e.err == errEither {
			tl["outcome:lenient-no-error"]++
		}
		var kind, detail string
		ok := false
		for ri, rd := range e.readings {
			good, kd, dt := rd.explain(rows, arows)
			if good {
				ok = true
				if len(e.readings) > 1 {
					tl["reading:"+rd.name]++
				}
				break
			}
			if ri == 0 {
				kind, detail = kd, dt
			}
		}
		if !ok {
			fail(kind, "%s [window class %s; %d readings tried]", detail, winClass(k, L), len(e.readings))
			return
		}
		if res.changed > 0 {
			tl["outcome:changed"]++
		} else {
			tl["outcome:unchanged"]++
		}
		if e.selected > 0 && e.guarded > 0 && res.changed > 0 {
			res.mixedSel = true
			tl["selection:partial"]++
		}
	}
	if msg := deep(al, after); msg != "" {
		fail("invariants", "%s", msg)
	}
	return
}

// ---------------------------------------------------------------- generators

var badRepl = []string{"NN", "maj", "gap", "Ambig", "é", "--", "MAJ ", "N/A"}

func residuePool(r *gen.Rand, alpha int) string {
	switch alpha {
	case alphaAA:
		return r.PickStr([]string{"ARND", "LEKV", gen.AaCore, "ACDEX", "LIVX*", "ARNDB"})
	case alphaNT:
		return r.PickStr([]string{"ACGT", "ACGT", "ACGTN", "AC", "ACGTRYN", "ACGTU"})
	}
	return r.PickStr([]string{"ACGT", "ARNDLEKV", "ACGTN01", "AB?#"})
}

// genAln builds a random alignment column by column so that rare residues, ties, gap runs, columns equal
// to / different from every candidate reference occur often.
func genAln(r *gen.Rand, n, L int) (a alnT, flags []string) {
	a.Alpha = r.PickInt([]int{alphaNT, alphaNT, alphaNT, alphaNT, alphaAA, alphaAA, alphaAA, alphaAA, alphaUnknown})
	pool := residuePool(r, a.Alpha)
	mixedCase := r.Chance(0.10)
	dots := r.Chance(0.10)
	hostile := r.Chance(0.4)
	a.Names = gen.UniqueNames(r, n, hostile)
	cells := make([][]byte, n)
	for i := range cells {
		cells[i] = make([]byte, L)
	}
	for j := 0; j < L; j++ {
		style := r.Intn(10)
		major := r.Pick(pool)
		minor := r.Pick(pool)
		third := r.Pick(pool)
		for i := 0; i < n; i++ {
			var b byte
			switch style {
			case 0: // conserved
				b = major
			case 1, 2: // conserved with rare variants
				b = major
				if r.Chance(0.25) {
					b = minor
				}
				if r.Chance(0.08) {
					b = third
				}
			case 3: // two characters in balance (ties)
				b = major
				if i%2 == 1 {
					b = minor
				}
			case 4: // gappy
				b = '-'
				if r.Chance(0.4) {
					b = major
				}
				if r.Chance(0.15) {
					b = minor
				}
			case 5: // gap-only
				b = '-'
			case 6: // gaps against residues in balance
				b = major
				if r.Bool() {
					b = '-'
				}
			default:
				b = r.Pick(pool)
				if r.Chance(0.12) {
					b = '-'
				}
			}
			if dots && r.Chance(0.12) {
				b = '.'
			}
			if mixedCase && r.Chance(0.3) {
				b = lower(b)
			}
			cells[i][j] = b
		}
	}
	if mixedCase && r.Chance(0.5) {
		// soft-masked region: every row in lower case over a range of columns (sometimes the whole alignment),
		// so that the most frequent character of a column is a lower case letter
		from, to := 0, L
		if r.Bool() {
			from = r.Intn(L)
			to = from + r.Range(1, L-from)
		}
		for i := range cells {
			for j := from; j < to; j++ {
				if r.Chance(0.9) {
					cells[i][j] = lower(cells[i][j])
				}
			}
		}
		flags = append(flags, "aln:soft-masked-region")
	}
	if r.Chance(0.15) && n >= 2 { // a duplicated row (reference equal to another row everywhere)
		copy(cells[n-1], cells[0])
	}
	if r.Chance(0.15) { // leading / trailing gap run in one row
		i := r.Intn(n)
		w := r.Range(1, L)
		for j := 0; j < w; j++ {
			if r.Bool() {
				cells[i][j] = '-'
			} else {
				cells[i][L-1-j] = '-'
			}
		}
	}
	a.Rows = make([]string, n)
	for i := range cells {
		a.Rows[i] = string(cells[i])
	}
	if r.Chance(0.3) {
		a.Comments = make([]string, n)
		for i := range a.Comments {
			if r.Bool() {
				a.Comments[i] = r.PickStr([]string{"a comment", "len=12", "N", "-"})
			}
		}
	}
	if mixedCase {
		flags = append(flags, "aln:mixed-case")
	}
	if dots {
		flags = append(flags, "aln:dots")
	}
	switch a.Alpha {
	case alphaAA:
		flags = append(flags, "aln:protein")
	case alphaNT:
		flags = append(flags, "aln:nucleotide")
	default:
		flags = append(flags, "aln:unknown-alphabet")
	}
	return
}

// charRepl picks a one character replacement: present in the alignment, or foreign.
func charRepl(r *gen.Rand, a alnT) string {
	if r.Bool() {
		row := a.Rows[r.Intn(len(a.Rows))]
		return string(row[r.Intn(len(row))])
	}
	return string(r.Pick("nNxX*#.-?Z~"))
}

// ---------------------------------------------------------------- sub-check: exhaustive small alignments

type shape struct{ n, L int }

var exhShapes = []shape{{1, 1}, {1, 2}, {2, 1}, {1, 3}, {3, 1}, {2, 2}, {4, 1}, {2, 3}, {3, 2}}

const exhAlphabet = "AC-"

func exhCount() int {
	t := 0
	for _, s := range exhShapes {
		t += pow(len(exhAlphabet), s.n*s.L)
	}
	return t
}

func pow(b, e int) int {
	p := 1
	for i := 0; i < e; i++ {
		p *= b
	}
	return p
}

func exhAln(idx int) alnT {
	for _, s := range exhShapes {
		cnt := pow(len(exhAlphabet), s.n*s.L)
		if idx >= cnt {
			idx -= cnt
			continue
		}
		a := alnT{Alpha: alphaNT}
		for i := 0; i < s.n; i++ {
			b := make([]byte, s.L)
			for j := range b {
				b[j] = exhAlphabet[idx%len(exhAlphabet)]
				idx /= len(exhAlphabet)
			}
			a.Rows = append(a.Rows, string(b))
			a.Names = append(a.Names, "r"+gen.Itoa(i))
		}
		return a
	}
	panic("harness: exhaustive index out of range")
}

// allCalls runs the complete configuration space on one small alignment.
func allCalls(c *mon.Case, a alnT, repls []string, tl tally) (calls int, partial bool) {
	n, L := len(a.Rows), len(a.Rows[0])
	ridx, rnames := a.refs()
	run := func(k call) {
		al := a.build()
		res := check(c, al, observe(al), k, tl, "fresh alignment")
		calls++
		if res.mixedSel {
			partial = true
		}
	}
	lengths := []int{-1}
	for l := 0; l <= L+2; l++ {
		lengths = append(lengths, l)
	}
	lengths = append(lengths, math.MaxInt64, math.MaxInt32)
	for _, rp := range repls {
		for q := range ridx {
			for fl := 0; fl < 4; fl++ {
				for st := -1; st <= L+1; st++ {
					for _, ln := range lengths {
						if (st < 0 || st > L) && ln != 0 && ln != 1 && ln != L+2 {
							continue // invalid start: three lengths are enough
						}
						run(call{Op: "Mask", RefIdx: ridx[q], Ref: rnames[q], Start: st, Length: ln, Repl: rp, NoGap: fl&1 != 0, NoRef: fl&2 != 0})
					}
				}
			}
			for k := -1; k <= n+1; k++ {
				run(call{Op: "MaskOccurences", RefIdx: ridx[q], Ref: rnames[q], K: k, Repl: rp})
			}
			run(call{Op: "MaskUnique", RefIdx: ridx[q], Ref: rnames[q], Repl: rp})
		}
	}
	return
}

func runExh(c *mon.Case) {
	a := exhAln(c.Idx % exhCount())
	repls := []string{"", "GAP", "MAJ", "C", "NN"}
	tl := tally{}
	defer tl.flush(c)
	total := 0
	partial := false
	for _, alpha := range []int{alphaNT, alphaAA, alphaUnknown} {
		a.Alpha = alpha
		rp := repls
		if alpha != alphaNT { // the alphabet only matters for the AMBIG replacement
			rp = []string{"", "AMBIG", "MAJ"}
		}
		c.Input(map[string]interface{}{"alignment": a, "replacements": rp, "enumerated": "start -1..L+1 x length {-1,0..L+2,MaxInt32,MaxInt64} (three lengths when the start is invalid) x nogap x noref x reference {none, every row, unknown}; thresholds -1..n+1; MaskUnique"})
		n, p := allCalls(c, a, rp, tl)
		total += n
		partial = partial || p
	}
	c.Count("exh:alignments")
	c.Count(fmt.Sprintf("exh:shape:%dx%d", len(a.Rows), len(a.Rows[0])))
	if partial {
		c.NonTrivial(a.key())
	}
	c.Note("%d calls, all explained", total)
}

// ---------------------------------------------------------------- sub-check: all windows of a random alignment

func runWindow(c *mon.Case) {
	r := c.R
	n := r.PickInt([]int{1, 2, 2, 3, 3, 4, 4, 5, 6, 8})
	L := r.PickInt([]int{1, 2, 3, 4, 5, 6, 6, 7, 8, 9, 10, 12})
	a, flags := genAln(r, n, L)
	repls := []string{"MAJ", r.PickStr([]string{"", "AMBIG", "GAP"}), charRepl(r, a)}
	if r.Chance(0.15) {
		repls = append(repls, r.PickStr(badRepl))
	}
	if n*L > 40 { // keep the big ones affordable: two modes
		repls = repls[r.Intn(2):][:2]
	}
	c.Input(map[string]interface{}{"alignment": a, "replacements": repls, "enumerated": "start -1..L+1 x length {-1,0..L+2,one huge} x nogap x noref x reference {none, every row, unknown}"})
	tl := tally{}
	defer tl.flush(c)
	for _, f := range flags {
		tl[f]++
	}
	ridx, rnames := a.refs()
	huge := hugeLengths[r.Intn(len(hugeLengths))]
	calls, partial := 0, false
	for _, rp := range repls {
		for q := range ridx {
			for fl := 0; fl < 4; fl++ {
				for st := -1; st <= L+1; st++ {
					for ln := -1; ln <= L+3; ln++ {
						if (st < 0 || st > L) && ln != 0 && ln != 1 && ln != L+2 {
							continue // invalid start: three lengths are enough
						}
						k := call{Op: "Mask", RefIdx: ridx[q], Ref: rnames[q], Start: st, Length: ln, Repl: rp, NoGap: fl&1 != 0, NoRef: fl&2 != 0}
						if ln == L+3 {
							k.Length = huge
						}
						al := a.build()
						res := check(c, al, observe(al), k, tl, "fresh alignment")
						calls++
						partial = partial || res.mixedSel
						if res.failed && c.Failed() && calls > 50000 {
							return
						}
					}
				}
			}
		}
	}
	c.Max("window:calls-per-alignment", calls)
	if partial {
		c.NonTrivial(a.key(), strings.Join(repls, ","))
	}
	c.Note("%d calls (%d rows x %d columns), all explained", calls, n, L)
}

// ---------------------------------------------------------------- sub-check: windows on the boundaries of longer alignments

func runBigWin(c *mon.Case) {
	r := c.R
	n := r.PickInt([]int{1, 2, 3, 4, 5, 6, 8, 12})
	L := r.PickInt([]int{13, 15, 20, 29, 30, 31, 50, 60, 61, 100, 129, 130, 131, 200})
	a, flags := genAln(r, n, L)
	tl := tally{}
	defer tl.flush(c)
	for _, f := range flags {
		tl[f]++
	}
	ridx, rnames := a.refs()
	var ks []call
	for t := 0; t < 40; t++ {
		st := r.PickInt([]int{0, 0, 1, L - 1, L, L + 1, -1, L / 2, r.Intn(L + 1), r.Intn(L + 1), r.Intn(L + 1)})
		rem := L - st
		ln := r.PickInt([]int{0, 1, 2, rem - 1, rem, rem + 1, L, L + 1, 2000, 10, r.Intn(L + 2), r.Intn(L + 2), hugeLengths[r.Intn(len(hugeLengths))], math.MaxInt64 - st, math.MaxInt64 - st + 1})
		q := r.Intn(len(ridx))
		if r.Chance(0.5) {
			q = r.Range(1, len(ridx)-2) // a real row
		}
		rp := r.PickStr([]string{"", "AMBIG", "GAP", "MAJ", "MAJ", "MAJ", charRepl(r, a)})
		if r.Chance(0.03) {
			rp = r.PickStr(badRepl)
		}
		ks = append(ks, call{Op: "Mask", RefIdx: ridx[q], Ref: rnames[q], Start: st, Length: ln, Repl: rp, NoGap: r.Bool(), NoRef: r.Bool()})
	}
	c.Input(map[string]interface{}{"alignment": a, "calls": ks})
	partial := false
	for _, k := range ks {
		al := a.build()
		res := check(c, al, observe(al), k, tl, "fresh alignment")
		partial = partial || res.mixedSel
	}
	if partial {
		c.NonTrivial(a.key(), fmt.Sprint(ks))
	}
	c.Note("%d boundary windows on %d x %d, all explained", len(ks), n, L)
}

// ---------------------------------------------------------------- sub-check: rare residues, every threshold and reference

func runOcc(c *mon.Case) {
	r := c.R
	n := r.PickInt([]int{1, 2, 3, 3, 4, 4, 5, 5, 6, 7, 8, 8, 12})
	L := r.PickInt([]int{1, 2, 3, 5, 8, 10, 12, 16, 20, 30, 30})
	a, flags := genAln(r, n, L)
	repls := []string{"", "AMBIG", "GAP", "MAJ", charRepl(r, a)}
	if r.Chance(0.2) {
		repls = append(repls, r.PickStr(badRepl))
	}
	c.Input(map[string]interface{}{"alignment": a, "replacements": repls, "enumerated": "threshold -1..n+1 x reference {none, every row, unknown}; MaskUnique"})
	tl := tally{}
	defer tl.flush(c)
	for _, f := range flags {
		tl[f]++
	}
	ridx, rnames := a.refs()
	calls, partial := 0, false
	for _, rp := range repls {
		for q := range ridx {
			var uniq obsT
			for k := -1; k <= n+1; k++ {
				al := a.build()
				res := check(c, al, observe(al), call{Op: "MaskOccurences", RefIdx: ridx[q], Ref: rnames[q], K: k, Repl: rp}, tl, "fresh alignment")
				calls++
				partial = partial || res.mixedSel
				if k == 1 {
					uniq = res.after
				}
			}
			al := a.build()
			res := check(c, al, observe(al), call{Op: "MaskUnique", RefIdx: ridx[q], Ref: rnames[q], Repl: rp}, tl, "fresh alignment")
			calls++
			// documented: MaskUnique = rare residues with threshold 1
			if !res.failed && !eqStr(res.after.seqs, uniq.seqs) {
				c.Failf("MaskUnique:differs-from-threshold-1", "MaskUnique(ref=%q, %q) gives %q, MaskOccurences(.., 1, ..) gives %q on %q", rnames[q], rp, res.after.seqs, uniq.seqs, a.Rows)
			}
		}
	}
	if partial {
		c.NonTrivial(a.key(), strings.Join(repls, ","))
	}
	c.Note("%d calls (%d rows x %d columns), all explained", calls, n, L)
}

// ---------------------------------------------------------------- sub-check: histories on one alignment object

func runHist(c *mon.Case) {
	r := c.R
	n := r.PickInt([]int{1, 2, 3, 4, 5, 6, 8})
	L := r.PickInt([]int{1, 2, 3, 5, 8, 12, 20, 30, 60})
	a, flags := genAln(r, n, L)
	tl := tally{}
	defer tl.flush(c)
	for _, f := range flags {
		tl[f]++
	}
	ridx, rnames := a.refs()
	steps := r.Range(2, 10)
	var ks []call
	for t := 0; t < steps; t++ {
		q := r.Intn(len(ridx))
		rp := r.PickStr([]string{"", "AMBIG", "GAP", "MAJ", "MAJ", charRepl(r, a)})
		if r.Chance(0.05) {
			rp = r.PickStr(badRepl)
		}
		if r.Chance(0.6) {
			st := r.PickInt([]int{0, 1, L - 1, L, L + 1, -1, r.Intn(L + 1), r.Intn(L + 1)})
			ln := r.PickInt([]int{0, 1, 2, L - st, L - st + 1, r.Intn(L + 2), r.Intn(L + 2), 2000})
			ks = append(ks, call{Op: "Mask", RefIdx: ridx[q], Ref: rnames[q], Start: st, Length: ln, Repl: rp, NoGap: r.Bool(), NoRef: r.Bool()})
		} else if r.Chance(0.25) {
			ks = append(ks, call{Op: "MaskUnique", RefIdx: ridx[q], Ref: rnames[q], Repl: rp})
		} else {
			ks = append(ks, call{Op: "MaskOccurences", RefIdx: ridx[q], Ref: rnames[q], K: r.Range(0, n), Repl: rp})
		}
	}
	c.Input(map[string]interface{}{"alignment": a, "history": ks})
	al := a.build()
	twin := a.build() // never touched: masking one alignment must not reach another one built from the same strings
	cur := observe(al)
	partial := 0
	for t, k := range ks {
		res := check(c, al, cur, k, tl, fmt.Sprintf("step %d of the history (state after the previous steps)", t))
		if res.failed {
			return
		}
		if res.mixedSel {
			partial++
		}
		cur = res.after
	}
	tw := observe(twin)
	if !eqStr(tw.seqs, a.Rows) {
		c.Failf("history:other-alignment-changed", "an alignment built from the same rows changed: %q -> %q", a.Rows, tw.seqs)
	}
	tl["hist:steps"] += len(ks)
	if partial > 0 {
		c.NonTrivial(a.key(), fmt.Sprint(ks))
	}
	c.Note("%d steps, final rows %q", len(ks), cur.seqs)
}

// ---------------------------------------------------------------- sub-check: fixed witnesses

type witnessT struct {
	What string `json:"what"`
	A    alnT   `json:"alignment"`
	K    call   `json:"call"`
	Want []string
}

func nt(rows ...string) alnT {
	a := alnT{Alpha: alphaNT, Rows: rows}
	for i := range rows {
		a.Names = append(a.Names, "Seq000"+gen.Itoa(i))
	}
	return a
}

func aa(rows ...string) alnT {
	a := nt(rows...)
	a.Alpha = alphaAA
	return a
}

var witnesses = []witnessT{
	// the literal cases of the test-suite / documentation (the oracle must agree with the published examples)
	{"doc: mask -s 8 -l 2", nt("GATTAATTTGCCGTAGGCCA", "GAATCTGAAGATCGAACACT", "TTAAGTTTTCACTTCTAATG"), call{Op: "Mask", RefIdx: -1, Start: 8, Length: 2, Repl: ""},
		[]string{"GATTAATTNNCCGTAGGCCA", "GAATCTGANNATCGAACACT", "TTAAGTTTNNACTTCTAATG"}},
	{"protein, length far beyond the end", aa("PHGVHCVSSYRFEKCPNFFC", "EACKWDNTCPMKIETHQHQK", "GDMMEDSGSIAIDGIGHHKN"), call{Op: "Mask", RefIdx: -1, Start: 12, Length: 2000, Repl: "AMBIG"},
		[]string{"PHGVHCVSSYRFXXXXXXXX", "EACKWDNTCPMKXXXXXXXX", "GDMMEDSGSIAIXXXXXXXX"}},
	{"MAJ, gap is the majority, gaps protected", nt("GATTAATTTGCCGTAGGCCA", "GAATCTGAA-ATCGAACACT", "TTAAGTTTT-ACTTCTAATG"), call{Op: "Mask", RefIdx: -1, Start: 9, Length: 1, Repl: "MAJ", NoGap: true},
		[]string{"GATTAATTT-CCGTAGGCCA", "GAATCTGAA-ATCGAACACT", "TTAAGTTTT-ACTTCTAATG"}},
	{"noref protects the residues equal to the reference", nt("GATTAATTTGCCGTAGGCCA", "GAATCTGAAGATCGAACACT", "TTAAGTTTT-ACTTCTAATG"), call{Op: "Mask", RefIdx: 0, Ref: "Seq0000", Start: 9, Length: 1, Repl: "", NoRef: true},
		[]string{"GATTAATTTGCCGTAGGCCA", "GAATCTGAAGATCGAACACT", "TTAAGTTTTNACTTCTAATG"}},
	{"unique residues, no reference", nt("ACANGA-TACC", "ACTN-T-TTTC", "ACTN-TTT--T", "C-ANCCCCCCC"), call{Op: "MaskUnique", RefIdx: -1, Repl: "AMBIG"},
		[]string{"ACANNN-TNCC", "ACTN-T-TNNC", "ACTN-TNT--N", "N-ANNNNNNCC"}},
	{"unique residues, reference row 0", nt("ACANGA-TACC", "ACTN-T-TTTC", "ACTN-TTT--T", "C-ANCCCCCCC"), call{Op: "MaskUnique", RefIdx: 0, Ref: "Seq0000", Repl: "AMBIG"},
		[]string{"ACANGA-TACC", "ACTN-T-TNNC", "ACTN-TNT--N", "N-ANNNNNNCC"}},
	{"at most 2, reference row 0, GAP", nt("ACANGA-TACC", "ACTN-T-TTTC", "ACTN-TTT--T", "C-ANCCCCCCC"), call{Op: "MaskOccurences", RefIdx: 0, Ref: "Seq0000", K: 2, Repl: "GAP"},
		[]string{"ACANGA-TACC", "AC-N---T--C", "AC-N---T---", "--AN-----CC"}},
	{"unique, MAJ, reference row 0", nt("AAAAAAAAAAA", "AAAAAAAAAAA", "CCCCCCCCCCC", "CCCCCCCCCCC", "TTTTTTTTTTT"), call{Op: "MaskUnique", RefIdx: 0, Ref: "Seq0000", Repl: "MAJ"},
		[]string{"AAAAAAAAAAA", "AAAAAAAAAAA", "CCCCCCCCCCC", "CCCCCCCCCCC", "CCCCCCCCCCC"}},
	// boundaries the random workload reaches rarely
	{"start == L is an empty window, not an error", nt("ACGT", "AC-T"), call{Op: "Mask", RefIdx: -1, Start: 4, Length: 3, Repl: ""}, []string{"ACGT", "AC-T"}},
	{"last column only", nt("ACGT", "AC-T"), call{Op: "Mask", RefIdx: -1, Start: 3, Length: 1, Repl: ""}, []string{"ACGN", "AC-N"}},
	{"overhang by one", nt("ACGT", "AC-T"), call{Op: "Mask", RefIdx: -1, Start: 2, Length: 3, Repl: "", NoGap: true}, []string{"ACNN", "AC-N"}},
	{"length MaxInt64 from column 1 (start+length overflows)", nt("ACGT", "AC-T"), call{Op: "Mask", RefIdx: -1, Start: 1, Length: math.MaxInt64, Repl: ""}, []string{"ANNN", "ANNN"}},
	{"length MaxInt64-1 from column 2", nt("ACGT", "AC-T"), call{Op: "Mask", RefIdx: -1, Start: 2, Length: math.MaxInt64 - 1, Repl: "GAP"}, []string{"AC--", "AC--"}},
	{"length MaxInt64 from column 0 (no overflow)", nt("ACGT", "AC-T"), call{Op: "Mask", RefIdx: -1, Start: 0, Length: math.MaxInt64, Repl: ""}, []string{"NNNN", "NNNN"}},
	{"threshold 0 masks nothing", nt("ACGT", "AC-T", "TCGA"), call{Op: "MaskOccurences", RefIdx: -1, K: 0, Repl: ""}, []string{"ACGT", "AC-T", "TCGA"}},
	{"threshold n masks every residue, never a gap", nt("ACGT", "AC-T", "TCGA"), call{Op: "MaskOccurences", RefIdx: -1, K: 3, Repl: ""}, []string{"NNNN", "NN-N", "NNNN"}},
	{"reference gap: the others count", nt("A-G-", "ACGT", "ATG-", "ATGA"), call{Op: "MaskOccurences", RefIdx: 0, Ref: "Seq0000", K: 1, Repl: ""}, []string{"A-G-", "ANGN", "ATG-", "ATGN"}},
	{"single row that is the reference", nt("ACGT"), call{Op: "MaskOccurences", RefIdx: 0, Ref: "Seq0000", K: 1, Repl: "MAJ"}, []string{"ACGT"}},
	{"single row, MAJ window", nt("AC-T"), call{Op: "Mask", RefIdx: 0, Ref: "Seq0000", Start: 0, Length: 9, Repl: "MAJ", NoRef: false}, []string{"AC-T"}},
	{"noref and nogap together, reference has a gap in the window", nt("A-GT", "C-CC", "CTC-"), call{Op: "Mask", RefIdx: 0, Ref: "Seq0000", Start: 0, Length: 4, Repl: "", NoGap: true, NoRef: true}, []string{"A-GT", "N-NN", "NNN-"}},
	{"noref with the last row as reference", nt("ACGT", "CCGA", "ACTA"), call{Op: "Mask", RefIdx: 2, Ref: "Seq0002", Start: 1, Length: 3, Repl: "GAP", NoRef: true}, []string{"AC--", "CC-A", "ACTA"}},
}

func runWitness(c *mon.Case) {
	nw := len(witnesses)
	tl := tally{}
	defer tl.flush(c)
	if c.Idx%(nw+3) >= nw {
		// degenerate containers: no panic, nothing appears
		switch c.Idx%(nw+3) - nw {
		case 0:
			al := align.NewAlign(align.NUCLEOTIDS)
			c.Input(map[string]interface{}{"what": "empty alignment"})
			for _, k := range []call{{Op: "Mask", RefIdx: -1, Start: 0, Length: 1}, {Op: "Mask", RefIdx: -1, Start: 0, Length: 0, Repl: "MAJ"}, {Op: "MaskOccurences", RefIdx: -1, K: 1}, {Op: "MaskUnique", RefIdx: -1, Repl: "MAJ"}, {Op: "Mask", RefIdx: -2, Ref: "x", Start: 0, Length: 1, NoRef: true}} {
				doCall(al, k)
				if o := observe(al); o.n != 0 || len(o.seqs) != 0 {
					c.Failf(k.Op+":frame-nbseq", "%s on an empty alignment left %d rows", k, o.n)
				}
			}
			tl["witness:empty-alignment"]++
		case 1:
			a := alnT{Alpha: alphaNT, Names: []string{"a", "b"}, Rows: []string{"", ""}}
			c.Input(map[string]interface{}{"what": "rows of length 0", "alignment": a})
			for _, k := range []call{{Op: "Mask", RefIdx: -1, Start: 0, Length: 1}, {Op: "Mask", RefIdx: 0, Ref: "a", Start: 0, Length: 5, Repl: "MAJ", NoRef: true}, {Op: "MaskOccurences", RefIdx: 1, Ref: "b", K: 1}} {
				al := a.build()
				doCall(al, k)
				if o := observe(al); o.n != 2 || !eqStr(o.seqs, a.Rows) || !eqStr(o.names, a.Names) {
					c.Failf(k.Op+":frame-nbseq", "%s on zero-length rows gave names %q rows %q", k, o.names, o.seqs)
				}
			}
			tl["witness:zero-length-rows"]++
		case 2:
			// '.' cells with noref but no reference: unspecified corner, only the frame is checked (no '.' cell may become anything but the replacement)
			a := nt("A.GT", "C.C.")
			c.Input(map[string]interface{}{"what": "noref without reference on '.' cells", "alignment": a})
			al := a.build()
			check(c, al, observe(al), call{Op: "Mask", RefIdx: -1, Start: 0, Length: 4, Repl: "", NoRef: true}, tl, "fresh alignment")
			tl["witness:dot-corner"]++
		}
		return
	}
	w := witnesses[c.Idx%(nw+3)]
	c.Input(w)
	al := w.A.build()
	res := check(c, al, observe(al), w.K, tl, "witness: "+w.What)
	if !res.failed && !eqStr(res.after.seqs, w.Want) {
		// oracle and literal disagree: the literal is the published expectation
		c.Failf(w.K.Op+":witness-literal", "%s: %s gives %q, the documented result is %q", w.What, w.K, res.after.seqs, w.Want)
	}
	c.NonTrivial(w.What)
	c.Note("%s -> %q", w.K, res.after.seqs)
}

func main() {
	// tens of millions of tiny short-lived alignments: collect by heap size, not by growth ratio of a tiny live heap
	debug.SetGCPercent(-1)
	debug.SetMemoryLimit(96 << 20)
	mon.SetNote("rule", "case = one alignment (1..12 rows, 1..200 columns, nucleotide / protein / unknown alphabet, generated column by column: conserved, conserved with rare variants, ties, gappy, gap-only, random; duplicated rows, gap runs, N/X, IUPAC, optional '.' and lower case, hostile names such as GAP / N / -, comments) x a set of calls. sub exh: ALL alignments over {A,C,-} of shapes 1x1..3x2/2x3/4x1 x the complete option space; sub window: all windows start -1..L+1 x length -1..L+2 and one huge x nogap x noref x {no reference, every row, unknown name} for 2-3 replacement modes; sub bigwin: 40 boundary windows (0,1,L-1,L,L+1; remaining-1/remaining/remaining+1, 2000, MaxInt32/64) on L 13..200; sub occ: thresholds -1..n+1 x every reference x 5-6 replacement modes + MaskUnique; sub hist: 2-10 successive calls on the same object; sub cli: the goalign binary built from the tree, `mask` with -s/-l, --pos, --unique/--at-most, --ref-seq (coordinates on the ungapped reference of the input), --replace, --no-gaps, --no-ref on a FASTA file, output compared with the same model. Every call: full observation before/after (names, order, comments, NbSequences, Length, alphabet, every cell) against the reference model + name index look-ups + VerifInvariants. Non-trivial = at least one call replaced cells AND had to leave other cells of selected columns untouched (protected gap / reference-equal residue / frequent residue); distinct = (alignment, replacement set or call list).")
	mon.SetNote("assumptions", "oracle written from the statement, docs/commands/mask.md and the interface comments;; MAJ: any of the tied most frequent raw characters of the column before masking, per column; three readings accepted for which rows vote (all rows / all but the reference row (docs/commands) / for rare residues the counted residues only, which the test-suite literal requires) but ONE reading must explain the whole call;; start < 0, start > L, negative length: error or empty selection (or clipped window), never a change outside;; start == L: empty window, no error;; unknown reference name: error and no change (Mask without noref: an error or 'as without reference');; AMBIG on an alphabet that is neither nucleotide nor protein: error;; noref without reference: '.' cells left open (code uses '.' as its no-reference sentinel; unspecified);; alignments with lower case letters: residues that equal the reference up to case are left open in Mask, and for rare residues only the frame (gaps, reference row, unselected rows, replacement value) is decided because case handling of the counts is not specified;; length >= MaxInt32 counts as 'extending past the end' (truncated);; command line: with --ref-seq a window / position that is not inside the ungapped reference is outside the documented range (RefCoordinates documents an error): failure or success accepted, only the frame is checked; alphabet of the file = the documented letter classes (a letter among QEILFPZ makes it protein);; bytes >= 128 in sequences are outside 'nucleotide and protein alignments' and are not generated")
	mon.SetNote("exhaustive_subspaces", fmt.Sprintf("sub exh: all %d alignments over {A,C,-} with shapes 1x1 1x2 2x1 1x3 3x1 2x2 4x1 2x3 3x2 x alphabets {nt, aa, unknown} x Mask(start -1..L+1, length {-1,0..L+2,MaxInt32,MaxInt64}, replace {'',GAP,MAJ,C,NN} for nt and {'',AMBIG,MAJ} for aa / unknown, nogap, noref, reference {none, each row, unknown}) + MaskOccurences(threshold -1..n+1) + MaskUnique, at both tiers", exhCount()))
	for _, k := range []string{"op:Mask", "op:MaskOccurences", "op:MaskUnique"} {
		mon.Floor(k, 5000)
	}
	for _, k := range []string{"repl:empty", "repl:AMBIG", "repl:GAP", "repl:MAJ", "repl:char", "repl:invalid", "ref:none", "ref:first-row", "ref:last-row", "ref:middle-row", "ref:unknown-name",
		"flag:nogap", "flag:noref", "flag:nogap+noref", "win:start<0", "win:start>L", "win:start=L", "win:empty", "win:overhang", "win:whole", "win:to-last-column", "win:from-first-column", "win:inside", "win:huge-length", "win:length<0",
		"k:negative", "k:0", "k:1", "k:2..n-1", "k:>=n", "outcome:error", "outcome:changed", "outcome:unchanged", "selection:partial"} {
		mon.Floor(k, 1000)
	}
	for _, k := range []string{"aln:protein", "aln:nucleotide", "aln:unknown-alphabet", "aln:mixed-case", "aln:soft-masked-region", "aln:dots", "reading:maj-over-all-rows"} {
		mon.Floor(k, 100)
	}
	mon.Floor("cli:runs", 100)
	for _, k := range []string{"cli:kind:window", "cli:kind:pos", "cli:kind:unique", "cli:ref-seq"} {
		mon.Floor(k, 20)
	}
	mon.Floor("cli:window-on-reference", 8)
	mon.Floor("cli:pos-on-reference", 8)
	mon.Floor("cli:outcome:ok", 50)
	mon.Floor("exh:alignments", exhCount())
	mon.Floor("hist:steps", 5000)
	mon.Floor("cli-multi:ok", 40)
	mon.Floor("deep-alignments", 2)
	mon.Floor("concurrent:calls", 500)
	mon.Main("C15", []mon.Sub{
		{Name: "witness", Quick: len(witnesses) + 3, Thorough: len(witnesses) + 3, Run: runWitness},
		{Name: "exh", Quick: exhCount(), Thorough: exhCount(), Run: runExh},
		{Name: "window", Quick: 600, Thorough: 12000, Run: runWindow},
		{Name: "bigwin", Quick: 2500, Thorough: 100000, Run: runBigWin},
		{Name: "occ", Quick: 2500, Thorough: 50000, Run: runOcc},
		{Name: "hist", Quick: 4000, Thorough: 150000, Run: runHist},
		{Name: "concurrent", Quick: 64, Thorough: 1200, Race: true, Run: func(c *mon.Case) { conc.Run(c, "mask") }},
		{Name: "cli", Quick: 160, Thorough: 1500, Serial: true, Run: runCli},
		{Name: "deep", Quick: 2, Thorough: 32, Run: runDeep},
		{Name: "cli-multi", Quick: 90, Thorough: 900, Run: runCliMulti},
	})
}
