// Reference model of C15, written from the property statement, docs/commands/mask.md and the
// interface comments of Mask / MaskUnique / MaskOccurences (align/align.go). It works on a plain
// list of rows and yields, for one call, whether an error is required and - per admissible
// reading - which cells must keep their residue, which must hold the replacement and which are
// left open by the statement.
package main

import (
	"fmt"
	"math"
)

const (
	alphaAA      = 0 // align.AMINOACIDS
	alphaNT      = 1 // align.NUCLEOTIDS
	alphaBoth    = 2
	alphaUnknown = 3
)

// what a call may answer
const (
	errNone   = iota // must succeed
	errMust          // must return an error and change nothing
	errEither        // an error (and no change) or success with one of the readings
)

// per cell requirement
const (
	keep    int8 = iota // residue unchanged
	replace             // residue == replacement of the column
	free                // unchanged or replacement (corner the statement leaves open)
)

type call struct {
	Op     string `json:"op"`               // Mask | MaskOccurences | MaskUnique
	RefIdx int    `json:"ref_row"`          // -1: no reference, -2: a name no row carries, else row index
	Ref    string `json:"ref_name"`         // name handed to goalign
	Start  int    `json:"start,omitempty"`  // Mask
	Length int    `json:"length,omitempty"` // Mask
	Repl   string `json:"replace"`
	NoGap  bool   `json:"nogap,omitempty"`
	NoRef  bool   `json:"noref,omitempty"`
	K      int    `json:"max_occ,omitempty"` // MaskOccurences
}

func (k call) String() string {
	if k.Op == "Mask" {
		return fmt.Sprintf("Mask(ref=%q[row %d], start=%d, length=%d, replace=%q, nogap=%v, noref=%v)", k.Ref, k.RefIdx, k.Start, k.Length, k.Repl, k.NoGap, k.NoRef)
	}
	if k.Op == "MaskUnique" {
		return fmt.Sprintf("MaskUnique(ref=%q[row %d], replace=%q)", k.Ref, k.RefIdx, k.Repl)
	}
	return fmt.Sprintf("MaskOccurences(ref=%q[row %d], max=%d, replace=%q)", k.Ref, k.RefIdx, k.K, k.Repl)
}

// one admissible content of a column: the replacement character and the requirement per row
type colCand struct {
	rep byte
	act []int8
}

// one reading of the statement: cols[j] == nil means "column j is not selected: unchanged"
type reading struct {
	name string
	cols [][]colCand
}

type expectation struct {
	err      int
	why      string // why an error is required / allowed
	readings []reading
	selected int // number of cells that must be replaced under the first reading (first candidate)
	guarded  int // number of cells inside selected columns that must keep their residue (first reading)
}

// replacement decodes the replacement string: fixed character, majority, or invalid.
func replacement(repl string, alpha int) (rep byte, maj bool, bad string) {
	switch {
	case repl == "" || repl == "AMBIG":
		switch alpha {
		case alphaAA:
			return 'X', false, ""
		case alphaNT:
			return 'N', false, ""
		}
		return 0, false, "AMBIG replacement needs a nucleotide or protein alphabet"
	case repl == "GAP":
		return '-', false, ""
	case repl == "MAJ":
		return 0, true, ""
	case len(repl) == 1:
		return repl[0], false, ""
	}
	return 0, false, "replacement is neither a keyword nor one character"
}

func fold(b byte) byte {
	if b >= 'a' && b <= 'z' {
		return b - 32
	}
	return b
}

func lower(b byte) byte {
	if b >= 'A' && b <= 'Z' {
		return b + 32
	}
	return b
}

func hasLower(rows [][]byte) bool {
	for _, r := range rows {
		for _, b := range r {
			if b >= 'a' && b <= 'z' {
				return true
			}
		}
	}
	return false
}

// argmax returns the most frequent characters among the given cells (all tied ones).
func argmax(cells []byte) []byte {
	var cnt [256]int
	max := 0
	for _, b := range cells {
		cnt[b]++
		if cnt[b] > max {
			max = cnt[b]
		}
	}
	var out []byte
	if max == 0 {
		return nil
	}
	for ch := 0; ch < 256; ch++ {
		if cnt[ch] == max {
			out = append(out, byte(ch))
		}
	}
	return out
}

// argmaxLoose adds, for inputs with lower case letters (case handling is not specified), the
// winners of a case-insensitive count in the spellings that occur in the column.
func argmaxLoose(cells []byte, mixedCase bool) []byte {
	out := argmax(cells)
	if !mixedCase {
		return out
	}
	f := make([]byte, len(cells))
	for i, b := range cells {
		f[i] = fold(b)
	}
	seen := map[byte]bool{}
	for _, b := range out {
		seen[b] = true
	}
	present := map[byte]bool{}
	for _, b := range cells {
		present[b] = true
	}
	for _, b := range argmax(f) {
		for _, v := range []byte{b, lower(b)} {
			// ... as long as that spelling occurs in the column: "the column's most frequent character" is at
			// least a character of the column (C15-m10 wrote 'A' into a column a,a,a,t)
			if !seen[v] && present[v] {
				seen[v] = true
				out = append(out, v)
			}
		}
	}
	return out
}

// window returns the selected column range [ws,we) of Mask for a valid start (0 <= start <= L).
func window(start, length, L int) (ws, we int) {
	if length <= 0 {
		return start, start
	}
	ws = start
	if length >= L-start { // no overflow: start <= L
		return ws, L
	}
	return ws, start + length
}

// expectMask: statement "replaces, in every sequence, exactly the residues at the requested positions
// that are not protected (gaps when gaps are protected, residues equal to the reference when the
// reference is protected) by the replacement character"; "a window extending past the end is truncated".
func expectMask(rows [][]byte, alpha int, k call) (e expectation) {
	n := len(rows)
	L := len(rows[0])
	rep, maj, bad := replacement(k.Repl, alpha)
	if bad != "" {
		return expectation{err: errMust, why: bad}
	}
	if k.RefIdx == -2 && k.NoRef {
		return expectation{err: errMust, why: "the reference to protect is not in the alignment"}
	}
	mixed := hasLower(rows)
	noChange := reading{name: "nothing-selected", cols: make([][]colCand, L)}
	if k.Start < 0 {
		// outside the quantifier (windows start inside the alignment): an error, an empty selection or the
		// part of the window that lies inside the alignment
		e = expectation{err: errEither, why: "negative start"}
		e.readings = []reading{noChange}
		if k.Length > 0 && k.Length > -k.Start {
			kk := k
			kk.Length = k.Length + k.Start
			kk.Start = 0
			if kk.Length > L {
				kk.Length = L
			}
			sub := expectMask(rows, alpha, kk)
			for _, rd := range sub.readings {
				rd.name = "clipped:" + rd.name
				e.readings = append(e.readings, rd)
			}
		}
		return e
	}
	if k.Start > L {
		// the code documents an error ("Start position cannot be > align length"); the truncation clause
		// also admits an empty selection. Nothing may change either way.
		return expectation{err: errEither, why: "start beyond the alignment length", readings: []reading{noChange}}
	}
	if k.Length < 0 {
		return expectation{err: errEither, why: "negative length", readings: []reading{noChange}}
	}
	e.err = errNone
	if k.RefIdx == -2 { // unknown name but nothing to protect: an error or "as without reference"
		e.err = errEither
		e.why = "unknown reference name without noref"
	}
	ws, we := window(k.Start, k.Length, L)
	refRow := -1
	if k.RefIdx >= 0 {
		refRow = k.RefIdx
	}
	names := []string{"fixed"}
	if maj {
		names = []string{"maj-over-all-rows"}
		if refRow >= 0 && n > 1 {
			names = append(names, "maj-without-reference-row")
		}
	}
	for ri, nm := range names {
		rd := reading{name: nm, cols: make([][]colCand, L)}
		for j := ws; j < we; j++ {
			col := make([]byte, n)
			for i := range rows {
				col[i] = rows[i][j]
			}
			reps := []byte{rep}
			if maj {
				cells := col
				if ri == 1 {
					cells = make([]byte, 0, n)
					for i, b := range col {
						if i != refRow {
							cells = append(cells, b)
						}
					}
				}
				reps = argmaxLoose(cells, mixed)
			}
			cands := make([]colCand, 0, len(reps))
			for ci, rp := range reps {
				act := make([]int8, n)
				for i, b := range col {
					a := replace
					if k.NoGap && b == '-' {
						a = keep
					}
					if k.NoRef && refRow >= 0 {
						rb := col[refRow]
						if b == rb {
							a = keep
						} else if fold(b) == fold(rb) && a != keep {
							a = free // same letter in another case: not specified
						}
					}
					if k.NoRef && refRow < 0 && b == '.' && a != keep {
						a = free // '.' with noref and no reference: unspecified corner (DESIGN.md)
					}
					act[i] = a
					if ri == 0 && ci == 0 {
						if a == replace && b != rp {
							e.selected++
						} else if a == keep {
							e.guarded++
						}
					}
				}
				cands = append(cands, colCand{rp, act})
			}
			rd.cols[j] = cands
		}
		e.readings = append(e.readings, rd)
	}
	return e
}

// expectOcc: statement "masking rare residues replaces exactly the non-gap residues whose count in
// their column (ignoring the reference row and residues equal to it) is at most the threshold";
// interface comment: with a reference, characters are masked if "1) they are different from the given
// reference sequence 2) or if the reference is a GAP".
func expectOcc(rows [][]byte, alpha int, k call) (e expectation) {
	n := len(rows)
	L := len(rows[0])
	rep, maj, bad := replacement(k.Repl, alpha)
	if bad != "" {
		return expectation{err: errMust, why: bad}
	}
	if k.RefIdx == -2 {
		return expectation{err: errMust, why: "the reference is not in the alignment"}
	}
	thr := k.K
	if k.Op == "MaskUnique" {
		thr = 1
	}
	refRow := k.RefIdx // -1 or row
	mixed := hasLower(rows)
	names := []string{"fixed"}
	if maj {
		names = []string{"maj-over-all-rows"}
		if refRow >= 0 {
			names = append(names, "maj-without-reference-row", "maj-over-counted-residues")
		}
	}
	for ri, nm := range names {
		rd := reading{name: nm, cols: make([][]colCand, L)}
		for j := 0; j < L; j++ {
			col := make([]byte, n)
			for i := range rows {
				col[i] = rows[i][j]
			}
			counted := make([]bool, n)
			var cnt [256]int
			var countedCells []byte
			for i, b := range col {
				if refRow >= 0 && (i == refRow || (b == col[refRow] && col[refRow] != '-')) {
					continue
				}
				counted[i] = true
				cnt[b]++
				countedCells = append(countedCells, b)
			}
			reps := []byte{rep}
			if maj {
				switch ri {
				case 0:
					reps = argmaxLoose(col, mixed)
				case 1:
					cells := make([]byte, 0, n)
					for i, b := range col {
						if i != refRow {
							cells = append(cells, b)
						}
					}
					reps = argmaxLoose(cells, mixed)
				case 2:
					reps = argmaxLoose(countedCells, mixed)
				}
				if mixed { // see below: with lower case letters only the frame is decided
					reps = nil
					seen := map[byte]bool{}
					for _, b := range col {
						for _, v := range []byte{b, fold(b), lower(b)} {
							if !seen[v] {
								seen[v] = true
								reps = append(reps, v)
							}
						}
					}
				}
				if len(reps) == 0 { // no row to vote (single row alignment that is the reference): nothing is counted either
					reps = []byte{'?'}
				}
			}
			any := false
			cands := make([]colCand, 0, len(reps))
			for ci, rp := range reps {
				act := make([]int8, n)
				for i, b := range col {
					a := keep
					if counted[i] && b != '-' && cnt[b] > 0 && cnt[b] <= thr {
						a = replace
					}
					if mixed && i != refRow && b != '-' {
						// lower case letters in the alignment: whether residues are counted / compared with the reference
						// case-sensitively is not specified; only the frame (gaps, reference row, replacement value) is decided
						a = free
					}
					act[i] = a
					if a != keep {
						any = true
					}
					if ri == 0 && ci == 0 {
						if a == replace && b != rp {
							e.selected++
						} else if a == keep && b != '-' && i != refRow {
							e.guarded++
						}
					}
				}
				cands = append(cands, colCand{rp, act})
			}
			if any {
				rd.cols[j] = cands
			}
		}
		e.readings = append(e.readings, rd)
	}
	return e
}

func expect(rows [][]byte, alpha int, k call) expectation {
	if len(rows) == 0 {
		return expectation{err: errEither, why: "empty alignment", readings: []reading{{name: "empty"}}}
	}
	if k.Op == "Mask" {
		return expectMask(rows, alpha, k)
	}
	return expectOcc(rows, alpha, k)
}

// explain tells whether `after` is what the reading allows; otherwise the first disagreement.
func (rd reading) explain(before, after [][]byte) (ok bool, kind, detail string) {
	if len(before) == 0 {
		return true, "", ""
	}
	L := len(before[0])
	for j := 0; j < L; j++ {
		var cands []colCand
		if j < len(rd.cols) {
			cands = rd.cols[j]
		}
		if cands == nil {
			for i := range before {
				if after[i][j] != before[i][j] {
					return false, "unselected-column-changed", fmt.Sprintf("row %d column %d: %q became %q but the column is not selected", i, j, before[i][j], after[i][j])
				}
			}
			continue
		}
		matched := false
		firstKind, firstDetail := "", ""
		for _, cd := range cands {
			good := true
			for i := range before {
				b, a := before[i][j], after[i][j]
				switch cd.act[i] {
				case keep:
					if a != b {
						good = false
						if firstKind == "" {
							firstKind, firstDetail = "guarded-cell-changed", fmt.Sprintf("row %d column %d: %q became %q but this cell is not to be masked (replacement of the column %q)", i, j, b, a, cd.rep)
						}
					}
				case replace:
					if a != cd.rep {
						good = false
						if firstKind == "" {
							if a == b {
								firstKind, firstDetail = "selected-cell-not-masked", fmt.Sprintf("row %d column %d: %q stayed, expected replacement %q", i, j, b, cd.rep)
							} else {
								firstKind, firstDetail = "wrong-replacement", fmt.Sprintf("row %d column %d: %q became %q, expected replacement %q", i, j, b, a, cd.rep)
							}
						}
					}
				case free:
					if a != b && a != cd.rep {
						good = false
						if firstKind == "" {
							firstKind, firstDetail = "wrong-replacement", fmt.Sprintf("row %d column %d: %q became %q, expected %q or replacement %q", i, j, b, a, b, cd.rep)
						}
					}
				}
			}
			if good {
				matched = true
				break
			}
		}
		if !matched {
			return false, firstKind, firstDetail
		}
	}
	return true, "", ""
}

// expectedRows renders the first candidate of a reading (for violation details).
func (rd reading) expectedRows(before [][]byte) []string {
	out := make([]string, len(before))
	for i := range before {
		b := append([]byte(nil), before[i]...)
		for j := range b {
			if j < len(rd.cols) && rd.cols[j] != nil {
				cd := rd.cols[j][0]
				if cd.act[i] == replace {
					b[j] = cd.rep
				}
			}
		}
		out[i] = string(b)
	}
	return out
}

var hugeLengths = []int{math.MaxInt64, math.MaxInt64 - 1, math.MaxInt32, math.MaxInt32 + 1, 1 << 62}
