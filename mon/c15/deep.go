// deep sub-check of C15: alignments with more than 65536 rows (a per-column occurrence counter narrower than int
// would wrap): a residue carried by nearly every row is far above any small threshold and must stay, the rare
// residues of the column must be masked.
package main

import (
	"fmt"

	"verif/lib/gen"
	"verif/lib/mon"
)

func runDeep(c *mon.Case) {
	r := c.R
	k := r.Range(1, 3)
	rare := r.Range(1, k) // rows carrying the rare residue of column 0 (<= threshold: masked)
	// the frequent residue of column 0 is carried by m*65536 + 1 rows
	n := 65536 + 1 + rare
	if c.Idx%2 == 1 {
		n = 2*65536 + 1 + rare
	}
	a := alnT{Alpha: 1}
	for i := 0; i < n; i++ {
		b := []byte("TAC")
		if i < rare {
			b[0] = 'G'
		}
		if i%2 == 1 {
			b[2] = 'A'
		}
		a.Names = append(a.Names, "r"+gen.Itoa(i))
		a.Rows = append(a.Rows, string(b))
	}
	c.Input(map[string]interface{}{"rows": n, "column0": fmt.Sprintf("%d x G then T", rare), "column1": "A", "column2": "C / A alternating", "threshold": k})
	tl := tally{}
	defer tl.flush(c)
	al := a.build()
	res := check(c, al, observe(al), call{Op: "MaskOccurences", RefIdx: -1, Ref: "", K: k, Repl: "AMBIG"}, tl, "alignment of more than 65536 rows")
	if !res.failed {
		c.Count("deep-alignments")
		c.NonTrivial("deep", fmt.Sprint(n, k, rare))
	}
}
