// C10 monitor: goalign's randomised operations (ShuffleSequences, ShuffleSites, Swap, Recombine,
// AddGaps, Mutate, SimulateRogue, BuildBootstrap, Sample, RandSubAlign, Rarefy and the sequence
// bag versions) keep what they promise, reach every admissible outcome, and replay exactly
// from the seed of the global math/rand stream.
//
// Every case is single-goroutine and seeds the global stream itself (rand.Seed) before each call.
package main

import (
	"fmt"
	"math/rand"
	"strings"

	"github.com/evolbioinfo/goalign/align"

	"verif/lib/gen"
	"verif/lib/h"
	"verif/lib/mon"
)

// seedStreamOK: two streams after rand.Seed(1) agree (with a `go >= 1.24` directive in go.mod rand.Seed
// is a no-op and the replay half of the property could not be decided).
var seedStreamOK = func() bool {
	draw := func() [8]int64 {
		var v [8]int64
		rand.Seed(1)
		for i := range v {
			v[i] = rand.Int63()
		}
		return v
	}
	a, b := draw(), draw()
	rand.Seed(2)
	c := rand.Int63()
	return a == b && c != a[0]
}()

func seedBroken(c *mon.Case) bool {
	if !seedStreamOK {
		c.Failf("harness:rand.Seed-does-not-reset-the-global-stream", "two streams after rand.Seed(1) differ (or seeds 1 and 2 agree): harness problem (go directive of /verif/go.mod must stay below 1.24), nothing can be decided")
		return true
	}
	return false
}

func genSeed(r *gen.Rand) int64 {
	switch r.Intn(6) {
	case 0:
		return int64(r.Range(0, 20))
	case 1:
		return pickInt64(r, []int64{-1, 1 << 31, 1<<31 - 1, 1<<63 - 1, -1 << 63, 42, 1234567890123})
	default:
		return int64(r.U64())
	}
}

// applyBag: the sequence bag versions (rows need not have the same length).
func applyBag(sb align.SeqBag, g *args) *outcome {
	o := &outcome{}
	var out align.SeqBag
	var err error
	switch g.Op {
	case "ShuffleSequences":
		sb.ShuffleSequences()
	case "Sample":
		out, err = sb.SampleSeqBag(g.I["nb"])
		o.HasOut = true
	case "Rarefy":
		out, err = sb.RarefySeqBag(g.I["nb"], g.Counts)
		o.HasOut = true
	default:
		panic("harness: unknown bag op " + g.Op)
	}
	o.Next = rand.Int63()
	o.Err = errStr(err)
	o.After = snap(sb)
	if p := h.Invariants(sb); len(p) > 0 {
		o.Hook = "receiver: " + strings.Join(p, "; ")
	}
	if o.HasOut {
		if out == nil || isNilBag(out) {
			o.HasOut = false
		} else {
			o.Out = snap(out)
			o.OutLen = -1
			if p := h.Invariants(out); len(p) > 0 && o.Hook == "" {
				o.Hook = "result: " + strings.Join(p, "; ")
			}
		}
	}
	return o
}

func isNilBag(a align.SeqBag) (isnil bool) {
	defer func() {
		if recover() != nil {
			isnil = true
		}
	}()
	a.NbSequences()
	return false
}

// oneCall: oracle on (before, after, returned) + replay from the same seed.
func oneCall(c *mon.Case, in *input, g *args, seed int64, bag bool) *outcome {
	r := c.R
	run := func() *outcome {
		if bag {
			return applyBag(mkBag(in.T, in.Alphabet), g)
		}
		return apply(in.align(), g)
	}
	rand.Seed(seed)
	o1 := run()
	k := &kase{c: c, in: in, g: g, seed: seed, o: o1}
	k.check()
	// something else happens on the global stream, then the same seed again
	for i, m := 0, r.Intn(4); i < m; i++ {
		rand.Int63()
	}
	if r.Chance(0.2) {
		rand.Perm(5)
	}
	rand.Seed(seed)
	o2 := run()
	if o1.key() != o2.key() {
		what := "result"
		if o1.Next != o2.Next && fmt.Sprint(o1.After.key(), o1.Out.key(), o1.L1, o1.L2, o1.Err) == fmt.Sprint(o2.After.key(), o2.Out.key(), o2.L1, o2.L2, o2.Err) {
			what = "position in the random stream after the call"
		}
		k.fail("replay-differs", "same input, same arguments, same seed: the %s differs between two runs\nsecond run: after=%s out=%s lists=%q/%q err=%q next=%d (first run next=%d)", what, o2.After.show(), o2.Out.show(), o2.L1, o2.L2, o2.Err, o2.Next, o1.Next)
	}
	return o1
}

func runInvariant(c *mon.Case) {
	if seedBroken(c) {
		return
	}
	r := c.R
	op := opNames[c.Idx%len(opNames)]
	in := genInput(r, op == "Mutate" || (op == "AddGaps" && r.Bool()))
	g := genArgs(r, in, op)
	seed := genSeed(r)
	c.Input(map[string]interface{}{"input": in, "call": g, "seed": seed})
	o := oneCall(c, in, g, seed, false)
	c.Count("op:" + op)
	c.Count("kind:" + in.Kind)
	for _, cl := range argClass(g, in) {
		c.Count(cl)
	}
	if in.N == 1 {
		c.Count("shape:one-row")
	}
	if in.L == 1 {
		c.Count("shape:one-column")
	}
	if o.Err != "" {
		c.Count("refused:" + op)
	}
	changed := !eqTab(o.After, in.T) || (o.HasOut && len(o.Out) > 0)
	if changed {
		c.Count("effect:" + op)
		c.NonTrivial(op, in.T.key(), g.String(), fmt.Sprint(seed))
	}
	c.Note("%s seed %d: receiver changed=%v, returned rows=%d, lists=%d/%d, err=%q", g, seed, !eqTab(o.After, in.T), len(o.Out), len(o.L1), len(o.L2), o.Err)
}

// runSeqBag: ShuffleSequences / SampleSeqBag / RarefySeqBag on unaligned sequence bags.
func runSeqBag(c *mon.Case) {
	if seedBroken(c) {
		return
	}
	r := c.R
	op := []string{"ShuffleSequences", "Sample", "Rarefy"}[c.Idx%3]
	n := r.PickInt(nPool)
	nm := names(r, n)
	aa := r.Chance(0.4)
	in := &input{Alphabet: align.NUCLEOTIDS, Kind: "bag", N: n, L: -1}
	mix := gen.NtAlphabet(r)
	if aa {
		in.Alphabet, mix = align.AMINOACIDS, gen.AaAlphabet(r)
	}
	for i := 0; i < n; i++ {
		s := r.Str(r.PickInt([]int{0, 1, 2, 3, 5, 8, 13, 30, 60}), mix)
		if i > 0 && r.Chance(0.2) {
			s = in.T[r.Intn(i)].Seq // same residues under another name
		}
		in.T = append(in.T, row{nm[i], s, comment(r, i)})
	}
	g := genArgs(r, in, op)
	seed := genSeed(r)
	c.Input(map[string]interface{}{"input": in, "call": g, "seed": seed})
	o := oneCall(c, in, g, seed, true)
	c.Count("op:bag:" + op)
	if o.Err != "" {
		c.Count("refused:bag:" + op)
	}
	if !eqTab(o.After, in.T) || (o.HasOut && len(o.Out) > 0) {
		c.NonTrivial(op, in.T.key(), g.String(), fmt.Sprint(seed))
	}
	c.Note("%s seed %d: returned rows=%d err=%q", g, seed, len(o.Out), o.Err)
}

func main() {
	mon.SetNote("rule", "invariant/seqbag: case = (alignment, operation, arguments, seed). Alignments: 'cells' (all n*L symbols pairwise distinct), 'latin' (symbols pairwise distinct inside every row and every column, up to 40 x 89) so that the origin of every cell is unambiguous, and nucleotide / protein alignments (IUPAC, both cases, gaps, '.', '*', all-gap rows, up to 40 x 300, half of them with rows that spell the column index so that every column is unique); arguments at and inside the borders of their domains (0, tiny, 1/2, k/n exactly, (k+1/2)/n, 1, out of domain where the documentation defines the behaviour); seeds 0..20, extreme int64 values and random 64 bit values. Each case runs the call after rand.Seed(s), applies the oracle of the operation to (before, after, returned values, container consistency hook), then runs the same call on a fresh copy after rand.Seed(s) again and requires identical results and an identical next value of the stream. Non-trivial = the call changed the receiver or returned rows; distinct = (operation, rows, arguments, seed). support: case = one table: small shape, all admissible outcomes enumerated (orders of rows, arrangement of every column, site at every bootstrap position, subsets of rows / sites, window offsets, (receiver, donor, offset) triples, gap cells, substituted letters per cell, rogue row and arrangement, rarefaction subsets with their exact probabilities; joint outcomes of two pairs / two targeted rows / two rogues / all columns / all bootstrap positions, so that draws that must be independent are seen to be); Mutate rate calibration: number of substituted residues and of each letter among 2 500..30 000 residues within the Hoeffding bound; N draws, half of the tables from one seeded stream, half re-seeding with a fresh random seed before every draw; every outcome must be seen and nothing outside the table may appear. cli: 14 command lines of the built binary (shuffle seqs/sites/swap/recomb/rogue, mutate gaps/snvs, sample seqs/sites/rarefy, build seqboot) with --seed: the same seed run twice gives the same bytes (stdout and side files), 25 different seeds do not all give one output (commands whose most likely output has probability <= 1/20), and the output satisfies the oracle of the operation.")
	mon.SetNote("assumptions", "math/rand's global stream seeded by rand.Seed is the only source of randomness goalign may use (checked at start-up: two rand.Seed(1) streams agree);; support tables: draws N = 1.5*(ln|O| + 30 ln 10)/(-ln(1-pmin)) + 20 where |O| = number of enumerated outcomes and pmin = smallest probability of an outcome when the documented choices are uniform (orders 1/n!, site 1/L, subset 1/C(n,k), window offset 1/(L-len+1), (pair,position) 1/(C(n,2)L), (receiver,donor,offset) 1/(n(n-1)(L-len+1)), gap cells 1/(n C(L,g)), letter 1/4 or 1/20 (rate 1/2: 1/8, 1/40), rogue (row,arrangement) 1/(n L!), rarefaction: exact enumeration of draws without replacement): union bound |O|(1-pmin)^N < 1e-30 before the 1.5 margin; every table size is in the evidence counters (draws, outcomes-enumerated);; 'floor(p*n)': both the floor of the exact product and the integer part of the IEEE product are accepted (they differ for p = 0.7, n = 10);; ShuffleSites: out-of-domain rates end the process (io.ExitWithMessage) and are not generated; number of additional rogue sites: any of floor(rate*(1-rate)*L), floor(rate*(L-floor(rate*L))) accepted as upper bound; an empty rogue list is accepted when no additional site can be shuffled;; Swap/Recombine structure (suffix / one window from one donor, exact number of rows) is demanded only on inputs whose columns hold pairwise distinct symbols (otherwise an exchange of equal residues is invisible) - on the other inputs: column multisets, bounds on changed rows / window span, every new residue present in another row of the same column;; AddGaps: exact counts only on gap free inputs (a gap can fall on a gap);; Mutate: letters = ACGT (nucleotide) / the 20 amino acids (protein), both sets accepted when the alphabet of the alignment is not set; '?' is not generated; a substitution by the same letter is invisible and allowed;; SimulateRogue with floor(proplen*L) = 0: zero rogue names accepted as well as floor(prop*n);; BuildBootstrap with frac <= 0 or > 1: length not checked (documentation silent), columns still have to be original columns;; Rarefy: explicit counts <= 0 may be an error or count as missing; nb >= 1 only;; Sample/Rarefy results may share buffers with the input (C19's subject);; Mutate rate calibration: |substituted - rate*M| <= sqrt(M ln(2e30)/2) (Hoeffding, two sided, < 1e-30), same bound for every letter count around rate*M/k;; cli seed sensitivity: only for commands where no single output has probability above 1/20 on the generated inputs (>= 6 named rows, unique columns, L >= 31; argument next to each command in cli.go): 25 seeds with one single output has probability < (1/20)^24 < 1e-30; the other commands are only replayed and checked against the oracle;; empty alignments and zero-column alignments are not generated (no site to draw);; NaN arguments are not generated")
	mon.SetNote("exhaustive_subspaces", "support tables enumerate the complete outcome space of each operation for shapes up to 6 rows x 9 columns (all n! orders, all subsets, all offsets, all (receiver, donor, offset) triples ...)")
	for _, op := range opNames {
		mon.Floor("op:"+op, 500)
		mon.Floor("effect:"+op, 100)
	}
	for _, op := range []string{"Swap", "Recombine", "Sample", "RandSubAlign", "Rarefy"} {
		mon.Floor("refused:"+op, 20)
	}
	for _, k := range tableKinds {
		mon.Floor("table:"+k, 4)
	}
	for _, k := range []string{"cells", "latin", "nt", "aa"} {
		mon.Floor("kind:"+k, 500)
	}
	mon.Floor("op:bag:ShuffleSequences", 200)
	mon.Floor("op:bag:Sample", 200)
	mon.Floor("op:bag:Rarefy", 200)
	mon.Floor("mode:reseed-every-draw", 50)
	mon.Floor("mode:one-seed-then-stream", 50)
	mon.Floor("shape:one-row", 100)
	mon.Floor("shape:one-column", 100)
	mon.Floor("cli:commands", 10)
	for _, k := range []string{"contiguous", "out-of-order", "codon-positions", "interleaved-halves"} {
		mon.Floor("partboot:"+k, 500)
	}
	mon.Floor("concurrent:calls", 500)
	mon.Main("C10", []mon.Sub{
		{Name: "witness", Quick: nWitness, Thorough: nWitness, Run: runWitness},
		{Name: "invariant", Quick: 220000, Thorough: 6000000, Run: runInvariant},
		{Name: "seqbag", Quick: 30000, Thorough: 600000, Run: runSeqBag},
		{Name: "support", Quick: 1200, Thorough: 16800, Run: runSupport},
		{Name: "partboot", Quick: 4000, Thorough: 80000, Run: runPartBoot},
		{Name: "concurrent", Quick: 64, Thorough: 1200, Race: true, Run: runConcurrent},
		{Name: "cli", Quick: nCli, Thorough: nCli * 4, Serial: true, Run: runCli},
	})
}
