// Fixed witnesses of the C10 monitor: boundary shapes and arguments that the random workload
// hits rarely, and the witnesses of the defects the monitor found.
package main

import (
	"fmt"
	"math/rand"

	"github.com/evolbioinfo/goalign/align"

	"verif/lib/gen"
	"verif/lib/mon"
)

func pickInt64(r *gen.Rand, s []int64) int64 { return s[r.Intn(len(s))] }

type wit struct {
	name string
	rows []string
	alph int
	g    *args
}

func wargs(op string, f map[string]float64, i map[string]int, b map[string]bool) *args {
	g := newArgs(op)
	for k, v := range f {
		g.F[k] = v
	}
	for k, v := range i {
		g.I[k] = v
	}
	for k, v := range b {
		g.B[k] = v
	}
	return g
}

type fm = map[string]float64
type im = map[string]int
type bm = map[string]bool

var sq4 = []string{"abcdefgh", "ijklmnop", "qrstuvwx", "yzABCDEF"}
var nt4 = []string{"ACGTACGTAC", "ACGTTCGTAA", "AC-TACNTAC", "GGGTAC.T*C"}

var witnesses = []wit{
	// ShuffleSites: the returned rogue list when no additional site is shuffled for the rogues (rate 1, rate 0, short alignment)
	{"ShuffleSites rate=1 rogue=0.5", sq4, align.AMINOACIDS, wargs("ShuffleSites", fm{"rate": 1, "rogue": 0.5}, nil, bm{"stable": false})},
	{"ShuffleSites rate=0 rogue=0.5", sq4, align.AMINOACIDS, wargs("ShuffleSites", fm{"rate": 0, "rogue": 0.5}, nil, bm{"stable": true})},
	{"ShuffleSites rate=0.5 rogue=1 L=2", []string{"ab", "cd", "ef"}, align.AMINOACIDS, wargs("ShuffleSites", fm{"rate": 0.5, "rogue": 1}, nil, bm{"stable": false})},
	{"ShuffleSites rate=0.5 rogue=0.5", sq4, align.AMINOACIDS, wargs("ShuffleSites", fm{"rate": 0.5, "rogue": 0.5}, nil, bm{"stable": false})},
	{"ShuffleSites rate=0.5 rogue=1 stable", sq4, align.AMINOACIDS, wargs("ShuffleSites", fm{"rate": 0.5, "rogue": 1}, nil, bm{"stable": true})},
	// borders of every operation
	{"ShuffleSequences one row", []string{"abc"}, align.AMINOACIDS, wargs("ShuffleSequences", nil, nil, nil)},
	{"ShuffleSequences 4 rows", sq4, align.AMINOACIDS, wargs("ShuffleSequences", nil, nil, nil)},
	{"Swap rate=1 random position", sq4, align.AMINOACIDS, wargs("Swap", fm{"rate": 1, "pos": -1}, nil, nil)},
	{"Swap rate=1 pos=0", sq4, align.AMINOACIDS, wargs("Swap", fm{"rate": 1, "pos": 0}, nil, nil)},
	{"Swap rate=1 pos=1", sq4, align.AMINOACIDS, wargs("Swap", fm{"rate": 1, "pos": 1}, nil, nil)},
	{"Swap rate=0.5 pos=7/8", sq4, align.AMINOACIDS, wargs("Swap", fm{"rate": 0.5, "pos": 0.875}, nil, nil)},
	{"Swap rate=1.1", sq4, align.AMINOACIDS, wargs("Swap", fm{"rate": 1.1, "pos": -1}, nil, nil)},
	{"Swap one row one column", []string{"a"}, align.AMINOACIDS, wargs("Swap", fm{"rate": 1, "pos": -1}, nil, nil)},
	{"Recombine prop=0.5 lenprop=1 swap", sq4, align.AMINOACIDS, wargs("Recombine", fm{"prop": 0.5, "lenprop": 1}, nil, bm{"swap": true})},
	{"Recombine prop=0.5 lenprop=1", sq4, align.AMINOACIDS, wargs("Recombine", fm{"prop": 0.5, "lenprop": 1}, nil, bm{"swap": false})},
	{"Recombine prop=0.25 lenprop=1/8", sq4, align.AMINOACIDS, wargs("Recombine", fm{"prop": 0.25, "lenprop": 0.125}, nil, bm{"swap": false})},
	{"Recombine prop=0.5 lenprop=0", sq4, align.AMINOACIDS, wargs("Recombine", fm{"prop": 0.5, "lenprop": 0}, nil, bm{"swap": true})},
	{"Recombine prop=0.6", sq4, align.AMINOACIDS, wargs("Recombine", fm{"prop": 0.6, "lenprop": 0.5}, nil, bm{"swap": false})},
	{"Recombine one column", []string{"a", "b", "c"}, align.AMINOACIDS, wargs("Recombine", fm{"prop": 0.5, "lenprop": 1}, nil, bm{"swap": false})},
	{"AddGaps all", sq4, align.AMINOACIDS, wargs("AddGaps", fm{"siteprop": 1, "seqprop": 1}, nil, nil)},
	{"AddGaps one cell", sq4, align.AMINOACIDS, wargs("AddGaps", fm{"siteprop": 0.125, "seqprop": 0.25}, nil, nil)},
	{"AddGaps on gaps", nt4, align.NUCLEOTIDS, wargs("AddGaps", fm{"siteprop": 0.5, "seqprop": 0.5}, nil, nil)},
	{"AddGaps out of domain", sq4, align.AMINOACIDS, wargs("AddGaps", fm{"siteprop": 1.5, "seqprop": 0.5}, nil, nil)},
	{"Mutate rate=1 nt", nt4, align.NUCLEOTIDS, wargs("Mutate", fm{"rate": 1}, nil, nil)},
	{"Mutate rate=2 nt", nt4, align.NUCLEOTIDS, wargs("Mutate", fm{"rate": 2}, nil, nil)},
	{"Mutate rate=0", nt4, align.NUCLEOTIDS, wargs("Mutate", fm{"rate": 0}, nil, nil)},
	{"Mutate rate=-1", nt4, align.NUCLEOTIDS, wargs("Mutate", fm{"rate": -1}, nil, nil)},
	{"Mutate rate=1 aa", []string{"ARND-CQEG*", "HILK.MFPST", "WYVXBZarnd"}, align.AMINOACIDS, wargs("Mutate", fm{"rate": 1}, nil, nil)},
	{"SimulateRogue all rows all sites", sq4, align.AMINOACIDS, wargs("SimulateRogue", fm{"prop": 1, "proplen": 1}, nil, nil)},
	{"SimulateRogue proplen=0", sq4, align.AMINOACIDS, wargs("SimulateRogue", fm{"prop": 0.5, "proplen": 0}, nil, nil)},
	{"SimulateRogue prop=0", sq4, align.AMINOACIDS, wargs("SimulateRogue", fm{"prop": 0, "proplen": 0.5}, nil, nil)},
	{"SimulateRogue out of domain", sq4, align.AMINOACIDS, wargs("SimulateRogue", fm{"prop": 1.5, "proplen": 0.5}, nil, nil)},
	{"BuildBootstrap frac=1", sq4, align.AMINOACIDS, wargs("BuildBootstrap", fm{"frac": 1}, nil, nil)},
	{"BuildBootstrap frac=0.5", sq4, align.AMINOACIDS, wargs("BuildBootstrap", fm{"frac": 0.5}, nil, nil)},
	{"BuildBootstrap frac=0.1 (no column)", sq4, align.AMINOACIDS, wargs("BuildBootstrap", fm{"frac": 0.1}, nil, nil)},
	{"BuildBootstrap frac=0", sq4, align.AMINOACIDS, wargs("BuildBootstrap", fm{"frac": 0}, nil, nil)},
	{"BuildBootstrap one column", []string{"a", "b"}, align.AMINOACIDS, wargs("BuildBootstrap", fm{"frac": 1}, nil, nil)},
	{"Sample all rows", sq4, align.AMINOACIDS, wargs("Sample", nil, im{"nb": 4}, nil)},
	{"Sample one row", sq4, align.AMINOACIDS, wargs("Sample", nil, im{"nb": 1}, nil)},
	{"Sample too many", sq4, align.AMINOACIDS, wargs("Sample", nil, im{"nb": 5}, nil)},
	{"Sample none", sq4, align.AMINOACIDS, wargs("Sample", nil, im{"nb": 0}, nil)},
	{"RandSubAlign full window", sq4, align.AMINOACIDS, wargs("RandSubAlign", nil, im{"length": 8}, bm{"consecutive": true})},
	{"RandSubAlign all columns", sq4, align.AMINOACIDS, wargs("RandSubAlign", nil, im{"length": 8}, bm{"consecutive": false})},
	{"RandSubAlign window of 7", sq4, align.AMINOACIDS, wargs("RandSubAlign", nil, im{"length": 7}, bm{"consecutive": true})},
	{"RandSubAlign one column", sq4, align.AMINOACIDS, wargs("RandSubAlign", nil, im{"length": 1}, bm{"consecutive": true})},
	{"RandSubAlign too long", sq4, align.AMINOACIDS, wargs("RandSubAlign", nil, im{"length": 9}, bm{"consecutive": true})},
	{"RandSubAlign zero", sq4, align.AMINOACIDS, wargs("RandSubAlign", nil, im{"length": 0}, bm{"consecutive": false})},
}

var nWitness = len(witnesses) + 4

func witInput(w *wit) *input {
	in := &input{Alphabet: w.alph, Kind: "cells", N: len(w.rows), L: len(w.rows[0]), Distinct: true, GapFree: true}
	seen := map[byte]bool{}
	for _, s := range w.rows {
		for j := 0; j < len(s); j++ {
			if seen[s[j]] {
				in.Distinct = false
			}
			seen[s[j]] = true
		}
	}
	if !in.Distinct {
		in.Kind = "nt"
		if w.alph == align.AMINOACIDS {
			in.Kind = "aa"
		}
	}
	for i, s := range w.rows {
		in.T = append(in.T, row{"r" + gen.Itoa(i), s, ""})
		for j := 0; j < len(s); j++ {
			if s[j] == '-' {
				in.GapFree = false
			}
		}
	}
	return in
}

func runWitness(c *mon.Case) {
	if seedBroken(c) {
		return
	}
	idx := c.Idx
	if idx < len(witnesses) {
		w := &witnesses[idx]
		in := witInput(w)
		c.Input(map[string]interface{}{"witness": w.name, "input": in, "call": w.g, "seeds": "0..39"})
		for s := int64(0); s < 40 && !c.Failed(); s++ {
			oneCall(c, in, w.g, s, false)
		}
		c.Count("witness")
		c.NonTrivial(w.name)
		return
	}
	switch idx - len(witnesses) {
	case 0:
		// design probe: windows of 4 columns in 6, seeds 1..500: offsets 0, 1 and 2 (the last one) all appear
		in := witInput(&wit{rows: []string{"abcdef", "ghijkl"}, alph: align.AMINOACIDS})
		g := wargs("RandSubAlign", nil, im{"length": 4}, bm{"consecutive": true})
		c.Input(map[string]interface{}{"witness": "RandSubAlign window offsets, seeds 1..500", "input": in, "call": g})
		seen := map[string]int{}
		for s := int64(1); s <= 500; s++ {
			o := oneCall(c, in, g, s, false)
			if c.Failed() {
				return
			}
			seen[o.Out[0].Seq]++
		}
		for _, wnd := range []string{"abcd", "bcde", "cdef"} {
			if seen[wnd] == 0 {
				(&kase{c: c, in: in, g: g, o: &outcome{}}).fail("unreachable-outcome", "window %q never drawn with seeds 1..500: %v", wnd, seen)
			}
		}
		c.Note("windows seen: %v", seen)
	case 1:
		// last site / last row reachable: bootstrap of 3 columns and sample of 1 row in 3, seeds 1..600
		in := witInput(&wit{rows: []string{"abc", "def", "ghi"}, alph: align.AMINOACIDS})
		gb := wargs("BuildBootstrap", fm{"frac": 1}, nil, nil)
		gs := wargs("Sample", nil, im{"nb": 1}, nil)
		c.Input(map[string]interface{}{"witness": "last site / last row reachable, seeds 1..600", "input": in})
		sites, rows := map[byte]int{}, map[string]int{}
		for s := int64(1); s <= 600; s++ {
			o := oneCall(c, in, gb, s, false)
			o2 := oneCall(c, in, gs, s, false)
			if c.Failed() {
				return
			}
			for j := 0; j < len(o.Out[0].Seq); j++ {
				sites[o.Out[0].Seq[j]]++
			}
			rows[o2.Out[0].Name]++
		}
		for _, x := range []byte("abc") {
			if sites[x] == 0 {
				(&kase{c: c, in: in, g: gb, o: &outcome{}}).fail("unreachable-outcome", "site %q never bootstrapped with seeds 1..600: %v", x, sites)
			}
		}
		for _, x := range []string{"r0", "r1", "r2"} {
			if rows[x] == 0 {
				(&kase{c: c, in: in, g: gs, o: &outcome{}}).fail("unreachable-outcome", "row %q never sampled with seeds 1..600: %v", x, rows)
			}
		}
	case 2:
		// Rarefy: forced rows and rows without count
		in := witInput(&wit{rows: []string{"abc", "def", "ghi", "jkl"}, alph: align.AMINOACIDS})
		g := newArgs("Rarefy")
		g.Counts = map[string]int{"r0": 5, "r1": 1, "r3": 1}
		g.I["nb"] = 3
		c.Input(map[string]interface{}{"witness": "Rarefy 3 of {r0:5,r1:1,r3:1}", "input": in, "call": g})
		sets := map[string]int{}
		for s := int64(0); s < 400 && !c.Failed(); s++ {
			o := oneCall(c, in, g, s, false)
			sets[fmt.Sprint(o.Out.names())]++
		}
		for _, want := range []string{"[r0]", "[r0 r1]", "[r0 r3]", "[r0 r1 r3]"} {
			if sets[want] == 0 && !c.Failed() {
				(&kase{c: c, in: in, g: g, o: &outcome{}}).fail("unreachable-outcome", "rarefied set %s never drawn with seeds 0..399: %v", want, sets)
			}
		}
		c.Note("sets: %v", sets)
	case 3:
		// two operations in a row from one seed replay as a pair (the stream is the only state)
		in := witInput(&wit{rows: sq4, alph: align.AMINOACIDS})
		c.Input(map[string]interface{}{"witness": "sequence of operations from one seed", "input": in})
		run := func() string {
			rand.Seed(77)
			a := in.align()
			a.ShuffleSequences()
			a.ShuffleSites(0.5, 0.5, false)
			a.Swap(0.5, -1)
			a.Recombine(0.25, 0.5, true)
			a.SimulateRogue(0.5, 0.5)
			b := a.BuildBootstrap(1)
			s, _ := b.Sample(3)
			x, _ := s.RandSubAlign(4, false)
			return snap(a).key() + "#" + snap(x).key()
		}
		if a, b := run(), run(); a != b {
			c.Failf("sequence:replay-differs", "the same sequence of 8 randomised operations after rand.Seed(77) gives two different results:\n%q\n%q", a, b)
		}
	}
	c.Count("witness")
	c.NonTrivial(fmt.Sprint("special", idx))
}
