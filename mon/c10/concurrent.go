// concurrent sub-check of C10 (-race build): the randomised operations draw from the global math/rand stream,
// which callers in different goroutines legitimately share (so nothing is replayed here), but each call still
// works on its own alignment: the invariants of the operation hold for every result, whatever the other
// goroutines do. Alignments whose rows are all equal make the invariant "columns are taken for all rows at once"
// visible without knowing which columns were drawn.
package main

import (
	"fmt"
	"strings"
	"sync"

	"github.com/evolbioinfo/goalign/align"

	"verif/lib/mon"
)

func runConcurrent(c *mon.Case) {
	r := c.R
	nw := r.PickInt([]int{2, 4, 8})
	type job struct {
		row  string
		n    int
		op   string
		frac float64
	}
	jobs := make([]job, nw)
	var descs []string
	for i := range jobs {
		L := r.PickInt([]int{50, 500, 5000})
		jobs[i] = job{row: r.Str(L, "ACGT"), n: r.Range(2, 12), op: r.PickStr([]string{"BuildBootstrap", "BuildBootstrap", "ShuffleSites", "ShuffleSequences", "Sample"}), frac: r.PickF([]float64{1, 0.5})}
		descs = append(descs, fmt.Sprintf("%s %dx%d", jobs[i].op, jobs[i].n, L))
	}
	c.Input(map[string]interface{}{"jobs": descs})
	var mu sync.Mutex
	bad := ""
	var wg sync.WaitGroup
	for i := range jobs {
		wg.Add(1)
		go func(j job) {
			defer wg.Done()
			for round := 0; round < 6; round++ {
				a := align.NewAlign(align.NUCLEOTIDS)
				for k := 0; k < j.n; k++ {
					a.AddSequence(fmt.Sprintf("s%d", k), j.row, "")
				}
				var res align.Alignment = a
				switch j.op {
				case "BuildBootstrap":
					res = a.BuildBootstrap(j.frac)
				case "ShuffleSites":
					a.ShuffleSites(1, 0, false)
				case "ShuffleSequences":
					a.ShuffleSequences()
				case "Sample":
					res, _ = a.Sample(j.n - 1)
				}
				if res == nil {
					continue
				}
				first, _ := res.GetSequenceById(0)
				msg := ""
				res.Iterate(func(name, s string) bool {
					if s != first {
						msg = fmt.Sprintf("%s on %d equal rows of %d residues: row %q differs from the first row of the result while other goroutines run their own operations", j.op, j.n, len(j.row), name)
						return true
					}
					return false
				})
				if msg == "" && j.op != "BuildBootstrap" && first != j.row {
					msg = fmt.Sprintf("%s on equal rows changed the rows", j.op)
				}
				if msg == "" && j.op == "BuildBootstrap" && strings.Trim(first, "ACGT") != "" {
					msg = "BuildBootstrap: foreign characters in the replicate"
				}
				if msg != "" {
					mu.Lock()
					if bad == "" {
						bad = msg
					}
					mu.Unlock()
					return
				}
			}
		}(jobs[i])
	}
	wg.Wait()
	if bad != "" {
		c.Failf("concurrent:invariant-broken", "%v\n%s", descs, bad)
		return
	}
	c.Add("concurrent:calls", nw*6)
	c.NonTrivial(fmt.Sprint(descs), fmt.Sprint(c.Idx))
}
