// Per-operation oracles of the C10 monitor. Every oracle is written from the property
// statement and the interface / command documentation: it looks at (before, after, returned
// values) only.
package main

import (
	"fmt"
	"math"
	"math/rand"
	"sort"
	"strings"

	"github.com/evolbioinfo/goalign/align"

	"verif/lib/gen"
	"verif/lib/h"
	"verif/lib/mon"
)

// outcome is everything one call lets the caller observe.
type outcome struct {
	After  tab      `json:"after"`
	Out    tab      `json:"out,omitempty"`
	HasOut bool     `json:"has_out"`
	OutLen int      `json:"out_length"`
	L1     []string `json:"list1,omitempty"`
	L2     []string `json:"list2,omitempty"`
	Err    string   `json:"err,omitempty"`
	Next   int64    `json:"next_draw"` // next value of the global stream after the call
	Hook   string   `json:"-"`
}

func (o *outcome) key() string {
	return fmt.Sprintf("%s|%v|%d|%s|%q|%q|%s|%d", o.After.key(), o.HasOut, o.OutLen, o.Out.key(), o.L1, o.L2, o.Err, o.Next)
}

type args struct {
	Op     string             `json:"op"`
	F      map[string]float64 `json:"f,omitempty"`
	I      map[string]int     `json:"i,omitempty"`
	B      map[string]bool    `json:"b,omitempty"`
	Counts map[string]int     `json:"counts,omitempty"`
}

func (a *args) String() string {
	parts := []string{}
	for _, k := range sortedKeysF(a.F) {
		parts = append(parts, fmt.Sprintf("%s=%v", k, a.F[k]))
	}
	for _, k := range sortedKeysI(a.I) {
		parts = append(parts, fmt.Sprintf("%s=%d", k, a.I[k]))
	}
	ks := []string{}
	for k := range a.B {
		ks = append(ks, k)
	}
	sort.Strings(ks)
	for _, k := range ks {
		parts = append(parts, fmt.Sprintf("%s=%v", k, a.B[k]))
	}
	if a.Counts != nil {
		parts = append(parts, fmt.Sprintf("counts=%v", a.Counts))
	}
	return a.Op + "(" + strings.Join(parts, ", ") + ")"
}

func sortedKeysF(m map[string]float64) []string {
	ks := []string{}
	for k := range m {
		ks = append(ks, k)
	}
	sort.Strings(ks)
	return ks
}
func sortedKeysI(m map[string]int) []string {
	ks := []string{}
	for k := range m {
		ks = append(ks, k)
	}
	sort.Strings(ks)
	return ks
}

var opNames = []string{"ShuffleSequences", "ShuffleSites", "Swap", "Recombine", "AddGaps", "Mutate", "SimulateRogue", "BuildBootstrap", "Sample", "RandSubAlign", "Rarefy"}

func errStr(err error) string {
	if err == nil {
		return ""
	}
	s := err.Error()
	if s == "" {
		s = "(empty error)"
	}
	return s
}

// apply performs the call described by g on a (no seeding here).
func apply(a align.Alignment, g *args) *outcome {
	o := &outcome{}
	var out align.Alignment
	var err error
	switch g.Op {
	case "ShuffleSequences":
		a.ShuffleSequences()
	case "ShuffleSites":
		o.L1 = a.ShuffleSites(g.F["rate"], g.F["rogue"], g.B["stable"])
	case "Swap":
		err = a.Swap(g.F["rate"], g.F["pos"])
	case "Recombine":
		err = a.Recombine(g.F["prop"], g.F["lenprop"], g.B["swap"])
	case "AddGaps":
		a.AddGaps(g.F["siteprop"], g.F["seqprop"])
	case "Mutate":
		a.Mutate(g.F["rate"])
	case "SimulateRogue":
		o.L1, o.L2 = a.SimulateRogue(g.F["prop"], g.F["proplen"])
	case "BuildBootstrap":
		out = a.BuildBootstrap(g.F["frac"])
		o.HasOut = true
	case "Sample":
		out, err = a.Sample(g.I["nb"])
		o.HasOut = true
	case "RandSubAlign":
		out, err = a.RandSubAlign(g.I["length"], g.B["consecutive"])
		o.HasOut = true
	case "Rarefy":
		out, err = a.Rarefy(g.I["nb"], g.Counts)
		o.HasOut = true
	default:
		panic("harness: unknown op " + g.Op)
	}
	o.Next = rand.Int63()
	o.Err = errStr(err)
	o.After = snap(a)
	if p := h.CheckRect(a); p != "" {
		o.Hook = "receiver: " + p
	}
	if o.Hook == "" && !o.HasOut && a.Length() > 0 {
		// the rows of the receiver are still independent of each other: a sentinel written into one row shows in no
		// other row (an operation that makes two rows share storage passes every check on its own result and breaks
		// the next in-place operation on the same object)
		for i := range o.After {
			old := o.After[i].Seq[0]
			if a.SetSequenceChar(i, 0, 1) != nil {
				break
			}
			for k := range o.After {
				if got, _ := a.GetSequenceById(k); k != i && len(got) > 0 && got[0] == 1 {
					o.Hook = fmt.Sprintf("receiver: rows %d (%s) and %d (%s) share their residues after the call (a byte written into the first shows in the second)", i, o.After[i].Name, k, o.After[k].Name)
				}
			}
			a.SetSequenceChar(i, 0, old)
			if o.Hook != "" {
				break
			}
		}
	}
	if o.HasOut {
		if out == nil || isNilAlign(out) {
			o.HasOut = false
		} else {
			o.Out = snap(out)
			o.OutLen = out.Length()
			if p := h.CheckRect(out); p != "" && o.Hook == "" {
				o.Hook = "result: " + p
			}
		}
	}
	return o
}

func isNilAlign(a align.Alignment) (isnil bool) {
	defer func() {
		if recover() != nil {
			isnil = true
		}
	}()
	a.NbSequences()
	return false
}

// kase is one checked call.
type kase struct {
	c    *mon.Case
	in   *input
	g    *args
	seed int64
	o    *outcome
}

func (k *kase) fail(sig, format string, a ...interface{}) {
	o := k.o
	k.c.Failf(k.g.Op+":"+sig, "%s\n%s after rand.Seed(%d) on a %s alignment (%d rows x %d columns, alphabet %d)\nbefore=%s\nafter =%s\nreturned alignment(present=%v)=%s\nreturned lists=%q / %q err=%q",
		fmt.Sprintf(format, a...), k.g, k.seed, k.in.Kind, k.in.N, k.in.L, k.in.Alphabet, k.in.T.show(), o.After.show(), o.HasOut, o.Out.show(), o.L1, o.L2, o.Err)
}

// sameFrame: same rows names/comments in the same order, same width.
func (k *kase) sameFrame(t tab, what string, L int) bool {
	b := k.in.T
	if len(t) != len(b) {
		k.fail("rows-lost-or-added", "%s has %d rows, the input has %d", what, len(t), len(b))
		return false
	}
	for i := range t {
		if t[i].Name != b[i].Name {
			k.fail("names-or-order-changed", "%s: row %d is named %q, was %q", what, i, t[i].Name, b[i].Name)
			return false
		}
		if t[i].Comment != b[i].Comment {
			k.fail("comment-changed", "%s: row %d has comment %q, was %q", what, i, t[i].Comment, b[i].Comment)
			return false
		}
		if len(t[i].Seq) != L {
			k.fail("width", "%s: row %d has %d residues, expected %d", what, i, len(t[i].Seq), L)
			return false
		}
	}
	return true
}

func (k *kase) unchanged() bool {
	if !eqTab(k.o.After, k.in.T) {
		k.fail("input-modified", "the receiver was modified although the call must leave it alone")
		return false
	}
	return true
}

func (k *kase) colMultisets() bool {
	bc, ac := k.in.T.cols(k.in.L), k.o.After.cols(k.in.L)
	for j := range bc {
		if bc[j] != ac[j] && sortedStr(bc[j]) != sortedStr(ac[j]) {
			k.fail("column-multiset-changed", "column %d held %q, now %q: not a permutation", j, bc[j], ac[j])
			return false
		}
	}
	return true
}

func inDom(f, lo, hi float64) bool { return f >= lo && f <= hi }

func (k *kase) changedRows() []int {
	out := []int{}
	for i := range k.in.T {
		if k.in.T[i].Seq != k.o.After[i].Seq {
			out = append(out, i)
		}
	}
	return out
}

func diffPos(a, b string) []int {
	out := []int{}
	for j := 0; j < len(a); j++ {
		if a[j] != b[j] {
			out = append(out, j)
		}
	}
	return out
}

func namesKnownDistinct(list []string, all tab) string {
	have := map[string]bool{}
	for _, r := range all {
		have[r.Name] = true
	}
	seen := map[string]bool{}
	for _, n := range list {
		if !have[n] {
			return fmt.Sprintf("%q is not the name of a row", n)
		}
		if seen[n] {
			return fmt.Sprintf("%q is listed twice", n)
		}
		seen[n] = true
	}
	return ""
}

// check dispatches to the oracle of the operation.
func (k *kase) check() {
	if k.o.Hook != "" {
		k.fail("container-inconsistent", "%s", k.o.Hook)
	}
	switch k.g.Op {
	case "ShuffleSequences":
		k.checkShuffleSequences()
	case "ShuffleSites":
		k.checkShuffleSites()
	case "Swap":
		k.checkSwap()
	case "Recombine":
		k.checkRecombine()
	case "AddGaps":
		k.checkAddGaps()
	case "Mutate":
		k.checkMutate()
	case "SimulateRogue":
		k.checkRogue()
	case "BuildBootstrap":
		k.checkBootstrap()
	case "Sample":
		k.checkSample()
	case "RandSubAlign":
		k.checkRandSubAlign()
	case "Rarefy":
		k.checkRarefy()
	}
}

// ---- ShuffleSequences: a permutation of the rows (name, residues, comment travel together)
func (k *kase) checkShuffleSequences() {
	b, a := k.in.T, k.o.After
	if len(a) != len(b) {
		k.fail("rows-lost-or-added", "%d rows after, %d before", len(a), len(b))
		return
	}
	m := map[string]row{}
	for _, r := range b {
		m[r.Name] = r
	}
	seen := map[string]bool{}
	for i, r := range a {
		if x, ok := m[r.Name]; !ok || x != r {
			k.fail("not-a-row-permutation", "row %d after the shuffle (%q:%s) is not a row of the input", i, r.Name, r.Seq)
			return
		}
		if seen[r.Name] {
			k.fail("not-a-row-permutation", "row %q appears twice", r.Name)
			return
		}
		seen[r.Name] = true
	}
}

// ---- ShuffleSites(rate, roguerate, stable): characters move inside their column only; at most
// floor(rate*L) columns for everybody, plus at most floor(rate*(remaining sites)) columns in which only
// the rogue rows move; the returned names are rows.
func (k *kase) checkShuffleSites() {
	rate, rogue := k.g.F["rate"], k.g.F["rogue"]
	n, L := k.in.N, k.in.L
	if !k.sameFrame(k.o.After, "receiver", L) || !k.colMultisets() {
		return
	}
	_, nsHi := prodFloor(rate, L)
	nsLo, _ := prodFloor(rate, L)
	// extra sites for rogues: "rate of the remaining intact sites"
	cands := []int{int(rate * (1 - rate) * float64(L)), int(rate * ((1 - rate) * float64(L)))}
	for s := nsLo; s <= nsHi; s++ {
		_, hi := prodFloor(rate, L-s)
		cands = append(cands, hi)
	}
	nrHi := 0
	for _, v := range cands {
		if v > nrHi {
			nrHi = v
		}
	}
	rLo, rHi := prodFloor(rogue, n)
	// returned list
	if msg := namesKnownDistinct(k.o.L1, k.in.T); msg != "" {
		k.fail("rogue-list-not-row-names", "returned rogue list %q: %s (documented: list of tax names, length roguerate*nbsequences)", k.o.L1, msg)
		return
	} else if len(k.o.L1) < rLo || len(k.o.L1) > rHi {
		// when no additional site can be shuffled nobody is "more shuffled than others": an empty list is accepted as well
		if !(len(k.o.L1) == 0 && nrHi == 0) {
			k.fail("rogue-list-length", "returned %d rogue names, documented length is roguerate*nbsequences = floor(%v*%d) in [%d,%d]", len(k.o.L1), rogue, n, rLo, rHi)
		}
	}
	isRogue := map[string]bool{}
	for _, x := range k.o.L1 {
		isRogue[x] = true
	}
	bc, ac := k.in.T.cols(L), k.o.After.cols(L)
	changed, changedNonRogue := 0, 0
	for j := 0; j < L; j++ {
		if bc[j] == ac[j] {
			continue
		}
		changed++
		for i := 0; i < n; i++ {
			if bc[j][i] != ac[j][i] && !isRogue[k.in.T[i].Name] {
				changedNonRogue++
				break
			}
		}
	}
	extra := nrHi
	if rHi < 2 {
		extra = 0 // fewer than two rogue rows cannot exchange anything
	}
	if changed > nsHi+extra {
		k.fail("too-many-sites-shuffled", "%d columns changed, at most floor(rate*L)=%d for all rows plus %d for the rogue rows", changed, nsHi, extra)
	}
	if changedNonRogue > nsHi {
		k.fail("non-rogue-rows-shuffled-too-often", "%d columns changed in rows that are not in the returned rogue list, at most floor(rate*L)=%d", changedNonRogue, nsHi)
	}
	k.c.Add("obs:ShuffleSites:changed-columns", changed)
	if changed > changedNonRogue {
		k.c.Count("obs:ShuffleSites:rogue-only-columns-seen")
	}
}

// ---- Swap(rate,pos): floor(rate*n)/2 pairs of rows exchange everything from a position to the end.
func (k *kase) checkSwap() {
	rate, pos := k.g.F["rate"], k.g.F["pos"]
	n, L := k.in.N, k.in.L
	if !inDom(rate, 0, 1) {
		if k.o.Err == "" {
			k.fail("no-error-out-of-domain", "rate %v is outside [0,1] and no error was returned", rate)
		}
		k.unchanged()
		return
	}
	if k.o.Err != "" {
		k.fail("unexpected-error", "error for arguments inside their domain")
		return
	}
	if !k.sameFrame(k.o.After, "receiver", L) || !k.colMultisets() {
		return
	}
	lo, hi := prodFloor(rate, n)
	pLo, pHi := lo/2, hi/2
	ch := k.changedRows()
	if len(ch) > 2*pHi {
		k.fail("too-many-rows", "%d rows changed, at most 2*floor(floor(rate*n)/2)=%d", len(ch), 2*pHi)
		return
	}
	k.c.Add("obs:Swap:changed-rows", len(ch))
	if !k.in.Distinct {
		return
	}
	// all symbols of a column are distinct: every exchanged position shows
	fixed := inDom(pos, 0, 1)
	fLo, fHi := 0, L-1
	if fixed {
		fLo, fHi = prodFloor(pos, L)
	}
	if fHi < L && (len(ch) < 2*pLo || len(ch)%2 != 0) {
		k.fail("wrong-number-of-rows", "%d rows changed, expected 2*floor(floor(rate*n)/2) in [%d,%d] (even)", len(ch), 2*pLo, 2*pHi)
		return
	}
	b, a := k.in.T, k.o.After
	for _, i := range ch {
		d := diffPos(b[i].Seq, a[i].Seq)
		p := d[0]
		if len(d) != L-p {
			k.fail("not-a-suffix", "row %d changed at positions %v: not everything from a position to the end", i, d)
			return
		}
		if p < fLo || p > fHi {
			k.fail("wrong-position", "row %d exchanged from position %d, expected floor(pos*L) in [%d,%d]", i, p, fLo, fHi)
			return
		}
		partner := -1
		for _, x := range ch {
			if x != i && b[x].Seq[p:] == a[i].Seq[p:] {
				partner = x
			}
		}
		if partner < 0 {
			k.fail("suffix-from-nowhere", "row %d: new suffix %q from position %d is not the original suffix of another changed row", i, a[i].Seq[p:], p)
			return
		}
		if a[partner].Seq[p:] != b[i].Seq[p:] || a[partner].Seq[:p] != b[partner].Seq[:p] {
			k.fail("not-an-exchange", "row %d received the suffix of row %d from position %d, but row %d did not receive exactly the suffix of row %d", i, partner, p, partner, i)
			return
		}
	}
}

// ---- Recombine(prop,lenprop,swap): floor(prop*n) rows receive a window of floor(lenprop*L) residues from
// floor(prop*n) other rows at the same columns; with swap the donors receive the window back.
func (k *kase) checkRecombine() {
	prop, lenprop, swap := k.g.F["prop"], k.g.F["lenprop"], k.g.B["swap"]
	n, L := k.in.N, k.in.L
	if !inDom(prop, 0, 0.5) || !inDom(lenprop, 0, 1) {
		if k.o.Err == "" {
			k.fail("no-error-out-of-domain", "prop %v / lenprop %v outside [0,0.5] / [0,1] and no error was returned", prop, lenprop)
		}
		k.unchanged()
		return
	}
	if k.o.Err != "" {
		k.fail("unexpected-error", "error for arguments inside their domain")
		return
	}
	if !k.sameFrame(k.o.After, "receiver", L) {
		return
	}
	if swap && !k.colMultisets() {
		return
	}
	nbLo, nbHi := prodFloor(prop, n)
	lLo, lHi := prodFloor(lenprop, L)
	mult := 1
	if swap {
		mult = 2
	}
	b, a := k.in.T, k.o.After
	ch := k.changedRows()
	if len(ch) > mult*nbHi {
		k.fail("too-many-rows", "%d rows changed, at most %d", len(ch), mult*nbHi)
		return
	}
	k.c.Add("obs:Recombine:changed-rows", len(ch))
	for _, i := range ch {
		d := diffPos(b[i].Seq, a[i].Seq)
		if d[len(d)-1]-d[0]+1 > lHi {
			k.fail("window-too-long", "row %d changed at positions %v: span larger than floor(lenprop*L)=%d", i, d, lHi)
			return
		}
		for _, j := range d {
			ok := false
			for x := range b {
				if x != i && b[x].Seq[j] == a[i].Seq[j] {
					ok = true
					break
				}
			}
			if !ok {
				k.fail("residue-from-nowhere", "row %d column %d now holds %q: no other row held it in this column", i, j, a[i].Seq[j])
				return
			}
		}
	}
	if !k.in.Distinct {
		return
	}
	if lLo >= 1 && (len(ch) < mult*nbLo || len(ch)%mult != 0) {
		k.fail("wrong-number-of-rows", "%d rows changed, expected %d*floor(prop*n) with floor in [%d,%d]", len(ch), mult, nbLo, nbHi)
		return
	}
	usedDonor := map[int]bool{}
	for _, i := range ch {
		d := diffPos(b[i].Seq, a[i].Seq)
		w0, w1 := d[0], d[len(d)-1]+1
		if len(d) != w1-w0 || len(d) < lLo {
			k.fail("not-a-window", "row %d changed at positions %v: expected one contiguous window of floor(lenprop*L) in [%d,%d] columns", i, d, lLo, lHi)
			return
		}
		donor := -1
		for x := range b {
			if x != i && b[x].Seq[w0:w1] == a[i].Seq[w0:w1] {
				donor = x
			}
		}
		if donor < 0 {
			k.fail("window-from-several-rows", "row %d: window [%d,%d) %q is not the original window of one other row", i, w0, w1, a[i].Seq[w0:w1])
			return
		}
		if swap {
			if a[donor].Seq[w0:w1] != b[i].Seq[w0:w1] || a[donor].Seq[:w0] != b[donor].Seq[:w0] || a[donor].Seq[w1:] != b[donor].Seq[w1:] {
				k.fail("not-an-exchange", "swap: row %d received window [%d,%d) of row %d, but row %d did not receive exactly that window of row %d", i, w0, w1, donor, donor, i)
				return
			}
		} else {
			if a[donor].Seq != b[donor].Seq {
				k.fail("donor-modified", "no swap: row %d gave window [%d,%d) to row %d and was modified itself", donor, w0, w1, i)
				return
			}
			if usedDonor[donor] {
				k.fail("donor-used-twice", "row %d is the donor of two rows: the donors are 'the other prop*nseq seqs'", donor)
				return
			}
			usedDonor[donor] = true
		}
	}
}

// ---- AddGaps(siteprop, seqprop): floor(seqprop*n) rows get floor(siteprop*L) gaps each; nothing else changes.
func (k *kase) checkAddGaps() {
	sp, qp := k.g.F["siteprop"], k.g.F["seqprop"]
	n, L := k.in.N, k.in.L
	if !inDom(sp, 0, 1) || !inDom(qp, 0, 1) {
		k.unchanged() // documented: does nothing
		return
	}
	if !k.sameFrame(k.o.After, "receiver", L) {
		return
	}
	nbLo, nbHi := prodFloor(qp, n)
	gLo, gHi := prodFloor(sp, L)
	b, a := k.in.T, k.o.After
	ch := k.changedRows()
	for _, i := range ch {
		d := diffPos(b[i].Seq, a[i].Seq)
		for _, j := range d {
			if a[i].Seq[j] != '-' {
				k.fail("not-a-gap", "row %d column %d changed from %q to %q: only residue -> '-' is allowed", i, j, b[i].Seq[j], a[i].Seq[j])
				return
			}
		}
		if len(d) > gHi {
			k.fail("too-many-gaps", "row %d received %d new gaps, at most floor(siteprop*L)=%d", i, len(d), gHi)
			return
		}
		if g := strings.Count(a[i].Seq, "-"); g < gLo {
			k.fail("too-few-gaps", "row %d was targeted but holds %d gaps only, floor(siteprop*L)=%d positions are turned into gaps", i, g, gLo)
			return
		}
	}
	if len(ch) > nbHi {
		k.fail("too-many-rows", "%d rows received gaps, at most floor(seqprop*n)=%d", len(ch), nbHi)
		return
	}
	k.c.Add("obs:AddGaps:rows", len(ch))
	if k.in.GapFree && gLo >= 1 {
		if len(ch) < nbLo {
			k.fail("too-few-rows", "%d rows received gaps in a gap free alignment, floor(seqprop*n) is in [%d,%d]", len(ch), nbLo, nbHi)
			return
		}
		for _, i := range ch {
			if g := strings.Count(a[i].Seq, "-"); g < gLo || g > gHi {
				k.fail("wrong-number-of-gaps", "row %d of a gap free alignment holds %d gaps, floor(siteprop*L) is in [%d,%d]", i, g, gLo, gHi)
				return
			}
		}
	}
}

const ntLetters = "ACGT"
const aaLetters = "ARNDCQEGHILKMFPSTWYV"

// ---- Mutate(rate): only non gap / non special residues change, and only into letters of the alphabet.
func (k *kase) checkMutate() {
	rate := k.g.F["rate"]
	L := k.in.L
	if rate <= 0 {
		k.unchanged() // documented: rate < 0 does nothing; rate 0 substitutes nothing
		return
	}
	if !k.sameFrame(k.o.After, "receiver", L) {
		return
	}
	letters := ntLetters
	switch k.in.Alphabet {
	case align.AMINOACIDS:
		letters = aaLetters
	case align.NUCLEOTIDS:
	default: // alphabet not set: the documentation does not say which letters are drawn
		letters = ntLetters + aaLetters
	}
	b, a := k.in.T, k.o.After
	nch, elig := 0, 0
	for i := range b {
		for j := 0; j < L; j++ {
			x, y := b[i].Seq[j], a[i].Seq[j]
			special := x == '-' || x == '.' || x == '*'
			if !special {
				elig++
			}
			if x == y {
				continue
			}
			nch++
			if special {
				k.fail("special-character-substituted", "row %d column %d: %q became %q (gaps and special characters are not substituted)", i, j, x, y)
				return
			}
			if strings.IndexByte(letters, y) < 0 {
				k.fail("not-an-alphabet-letter", "row %d column %d: %q became %q, not one of %s", i, j, x, y, letters)
				return
			}
		}
	}
	k.c.Add("obs:Mutate:changed", nch)
	k.c.Add("obs:Mutate:eligible", elig)
}

// ---- SimulateRogue(prop, proplen): rogue + intact partition the rows; intact rows untouched; rogue rows are
// permuted inside themselves, at most floor(proplen*L) positions move.
func (k *kase) checkRogue() {
	prop, proplen := k.g.F["prop"], k.g.F["proplen"]
	n, L := k.in.N, k.in.L
	if !inDom(prop, 0, 1) || !inDom(proplen, 0, 1) {
		k.unchanged()
		return
	}
	if !k.sameFrame(k.o.After, "receiver", L) {
		return
	}
	rogues, intact := k.o.L1, k.o.L2
	all := append(append([]string{}, rogues...), intact...)
	if msg := namesKnownDistinct(all, k.in.T); msg != "" {
		k.fail("lists-do-not-partition", "rogue list %q + intact list %q: %s", rogues, intact, msg)
		return
	}
	if len(all) != n {
		k.fail("lists-do-not-partition", "rogue list %q + intact list %q name %d of the %d rows", rogues, intact, len(all), n)
		return
	}
	nbLo, nbHi := prodFloor(prop, n)
	lLo, lHi := prodFloor(proplen, L)
	if (len(rogues) < nbLo || len(rogues) > nbHi) && !(len(rogues) == 0 && lLo == 0) {
		k.fail("wrong-number-of-rogues", "%d rogue names, floor(prop*n) is in [%d,%d]", len(rogues), nbLo, nbHi)
		return
	}
	isRogue := map[string]bool{}
	for _, x := range rogues {
		isRogue[x] = true
	}
	b, a := k.in.T, k.o.After
	moved := 0
	for i := range b {
		if b[i].Seq == a[i].Seq {
			continue
		}
		if !isRogue[b[i].Name] {
			k.fail("intact-row-modified", "row %d (%q) is reported intact and changed", i, b[i].Name)
			return
		}
		if sortedStr(b[i].Seq) != sortedStr(a[i].Seq) {
			k.fail("row-multiset-changed", "rogue row %d (%q) is not a permutation of itself", i, b[i].Name)
			return
		}
		d := diffPos(b[i].Seq, a[i].Seq)
		if len(d) > lHi {
			k.fail("too-many-positions", "rogue row %d: %d positions moved, at most floor(proplen*L)=%d", i, len(d), lHi)
			return
		}
		moved += len(d)
	}
	k.c.Add("obs:SimulateRogue:moved-positions", moved)
}

// ---- BuildBootstrap(frac): floor(frac*L) columns, each one an original column taken for all rows at once.
func (k *kase) checkBootstrap() {
	frac := k.g.F["frac"]
	L := k.in.L
	if !k.unchanged() {
		return
	}
	if !k.o.HasOut {
		k.fail("no-result", "no alignment returned")
		return
	}
	want := k.o.OutLen
	if frac > 0 && frac <= 1 {
		lo, hi := prodFloor(frac, L)
		if k.o.OutLen < lo || k.o.OutLen > hi {
			k.fail("wrong-length", "bootstrap length %d, floor(frac*L)=floor(%v*%d) is in [%d,%d]", k.o.OutLen, frac, L, lo, hi)
			return
		}
	}
	if !k.sameFrame(k.o.Out, "bootstrap", want) {
		return
	}
	orig := map[string]bool{}
	for _, c := range k.in.T.cols(L) {
		orig[c] = true
	}
	for j, c := range k.o.Out.cols(want) {
		if !orig[c] {
			k.fail("column-not-original", "bootstrap column %d is %q: not a column of the input (sites must be drawn for all rows at once)", j, c)
			return
		}
	}
}

// ---- Sample(nb): nb distinct original rows; error for nb < 1 or nb > n.
func (k *kase) checkSample() {
	nb := k.g.I["nb"]
	n, L := k.in.N, k.in.L
	if !k.unchanged() {
		return
	}
	if nb < 1 || nb > n {
		if k.o.Err == "" {
			k.fail("no-error-out-of-domain", "nb=%d with %d rows and no error", nb, n)
		}
		return
	}
	if k.o.Err != "" || !k.o.HasOut {
		k.fail("unexpected-error", "error / no result for 1 <= nb <= n")
		return
	}
	k.subsetOfRows(nb, L, false)
}

// subsetOfRows: the result holds exactly want (or, want<0, any number of) distinct original rows.
func (k *kase) subsetOfRows(want, L int, keepOrder bool) {
	out := k.o.Out
	if want >= 0 && len(out) != want {
		k.fail("wrong-number-of-rows", "%d rows returned, %d requested", len(out), want)
		return
	}
	if len(out) > 0 && k.o.OutLen != L {
		k.fail("wrong-length", "result Length() is %d, input has %d columns", k.o.OutLen, L)
		return
	}
	idx := map[string]int{}
	for i, r := range k.in.T {
		idx[r.Name] = i
	}
	seen := map[string]bool{}
	last := -1
	for i, r := range out {
		p, ok := idx[r.Name]
		if !ok || k.in.T[p] != r {
			k.fail("row-not-original", "returned row %d (%q:%s comment %q) is not a row of the input", i, r.Name, r.Seq, r.Comment)
			return
		}
		if seen[r.Name] {
			k.fail("row-drawn-twice", "row %q was drawn twice", r.Name)
			return
		}
		seen[r.Name] = true
		if keepOrder && p < last {
			k.fail("order-changed", "returned rows are not in the order of the input")
			return
		}
		last = p
	}
}

// ---- RandSubAlign(length, consecutive): a contiguous window / length distinct columns.
func (k *kase) checkRandSubAlign() {
	length, consecutive := k.g.I["length"], k.g.B["consecutive"]
	L := k.in.L
	if !k.unchanged() {
		return
	}
	if length <= 0 || length > L {
		if k.o.Err == "" {
			k.fail("no-error-out-of-domain", "length=%d with %d columns and no error", length, L)
		}
		return
	}
	if k.o.Err != "" || !k.o.HasOut {
		k.fail("unexpected-error", "error / no result for 1 <= length <= L")
		return
	}
	if k.o.OutLen != length {
		k.fail("wrong-length", "result Length() is %d, %d requested", k.o.OutLen, length)
		return
	}
	if !k.sameFrame(k.o.Out, "sub alignment", length) {
		return
	}
	b, out := k.in.T, k.o.Out
	if consecutive {
		found := -1
		for s := 0; s+length <= L && found < 0; s++ {
			ok := true
			for i := range b {
				if b[i].Seq[s:s+length] != out[i].Seq {
					ok = false
					break
				}
			}
			if ok {
				found = s
			}
		}
		if found < 0 {
			k.fail("not-a-window", "the result is not a window [s,s+%d) of the input for any s", length)
		}
		return
	}
	avail := map[string]int{}
	for _, c := range b.cols(L) {
		avail[c]++
	}
	for j, c := range out.cols(length) {
		if avail[c] == 0 {
			k.fail("columns-not-distinct-originals", "result column %d (%q) is not an original column, or is used more often than it occurs (sampling is without replacement)", j, c)
			return
		}
		avail[c]--
	}
}

// ---- Rarefy(nb, counts): rows that were drawn at least once when nb sequences are taken without replacement
// from the multiset given by counts; original order.
func (k *kase) checkRarefy() {
	nb, counts := k.g.I["nb"], k.g.Counts
	if !k.unchanged() {
		return
	}
	total, bad, nonpos := 0, false, false
	have := map[string]bool{}
	for _, r := range k.in.T {
		have[r.Name] = true
	}
	pos := map[string]int{}
	for name, v := range counts {
		if !have[name] {
			bad = true
		}
		if v <= 0 {
			nonpos = true // an explicit count <= 0: an error, or the same as a missing count (both readings accepted)
			continue
		}
		pos[name] = v
		total += v
	}
	if bad || nb >= total {
		if k.o.Err == "" {
			k.fail("no-error-out-of-domain", "nb=%d total=%d counts=%v (unknown name / nb >= sum of the counts) and no error", nb, total, counts)
		}
		return
	}
	if nonpos && k.o.Err != "" {
		return
	}
	counts = pos
	if k.o.Err != "" || !k.o.HasOut {
		k.fail("unexpected-error", "error / no result for valid counts and nb < total")
		return
	}
	k.subsetOfRows(-1, k.in.L, true)
	if k.c.Failed() {
		return
	}
	sum := 0
	sel := map[string]bool{}
	for _, r := range k.o.Out {
		v, ok := counts[r.Name]
		if !ok {
			k.fail("row-without-count", "row %q has no count (count 0) and was returned", r.Name)
			return
		}
		sum += v
		sel[r.Name] = true
	}
	if len(k.o.Out) > nb {
		k.fail("more-rows-than-draws", "%d rows returned for %d draws", len(k.o.Out), nb)
		return
	}
	if sum < nb {
		k.fail("counts-exceeded", "the returned rows have %d copies in total, %d sequences were drawn without replacement", sum, nb)
		return
	}
	for name, v := range counts {
		if total-v < nb && !sel[name] {
			k.fail("forced-row-missing", "all other rows have %d copies in total, %d were drawn, so %q had to be drawn", total-v, nb, name)
			return
		}
	}
}

// ---------------------------------------------------------------- generators of calls

func genArgs(r *gen.Rand, in *input, op string) *args {
	g := &args{Op: op, F: map[string]float64{}, I: map[string]int{}, B: map[string]bool{}}
	n, L := in.N, in.L
	ood := r.Chance(0.06)
	switch op {
	case "ShuffleSequences":
	case "ShuffleSites":
		// out-of-domain rates end the process (io.ExitWithMessage): not generated
		g.F["rate"] = genProp(r, L, 1)
		g.F["rogue"] = 0
		if r.Chance(0.6) {
			g.F["rogue"] = genProp(r, n, 1)
		}
		g.B["stable"] = r.Bool()
	case "Swap":
		g.F["rate"] = genProp(r, n, 1)
		switch r.Intn(4) {
		case 0:
			g.F["pos"] = genProp(r, L, 1)
		case 1:
			g.F["pos"] = r.PickF([]float64{0, 1, 0.5, float64(L-1) / float64(L)})
		case 2:
			g.F["pos"] = r.PickF([]float64{-1, 2, -0.5, 1.5})
		default:
			g.F["pos"] = -1
		}
		if ood {
			g.F["rate"] = r.PickF(outOfDomain)
		}
	case "Recombine":
		g.F["prop"] = genProp(r, n, 0.5)
		g.F["lenprop"] = genProp(r, L, 1)
		g.B["swap"] = r.Bool()
		if ood {
			if r.Bool() {
				g.F["prop"] = r.PickF([]float64{-0.1, -1e-9, 0.5000001, 0.6, 1, 2})
			} else {
				g.F["lenprop"] = r.PickF(outOfDomain)
			}
		}
	case "AddGaps":
		g.F["siteprop"] = genProp(r, L, 1)
		g.F["seqprop"] = genProp(r, n, 1)
		if ood {
			if r.Bool() {
				g.F["siteprop"] = r.PickF(outOfDomain)
			} else {
				g.F["seqprop"] = r.PickF(outOfDomain)
			}
		}
	case "Mutate":
		g.F["rate"] = genProp(r, L, 1)
		if ood {
			g.F["rate"] = r.PickF(outOfDomain)
		}
	case "SimulateRogue":
		g.F["prop"] = genProp(r, n, 1)
		g.F["proplen"] = genProp(r, L, 1)
		if ood {
			if r.Bool() {
				g.F["prop"] = r.PickF(outOfDomain)
			} else {
				g.F["proplen"] = r.PickF(outOfDomain)
			}
		}
	case "BuildBootstrap":
		g.F["frac"] = genProp(r, L, 1)
		if r.Chance(0.4) {
			g.F["frac"] = 1
		}
		if g.F["frac"] == 0 || ood {
			g.F["frac"] = r.PickF([]float64{0, -1, 1.5, 2, -0.2})
		}
	case "Sample":
		g.I["nb"] = r.PickInt([]int{1, n, n - 1, (n + 1) / 2, r.Range(1, n), r.Range(1, n)})
		if ood {
			g.I["nb"] = r.PickInt([]int{0, -1, n + 1, n + 10})
		}
	case "RandSubAlign":
		g.I["length"] = r.PickInt([]int{1, L, L - 1, (L + 1) / 2, r.Range(1, L), r.Range(1, L), r.Range(1, L)})
		g.B["consecutive"] = r.Bool()
		if ood {
			g.I["length"] = r.PickInt([]int{0, -1, L + 1, L + 7})
		}
	case "Rarefy":
		g.Counts = map[string]int{}
		total := 0
		for _, x := range in.T {
			if r.Chance(0.75) {
				v := r.PickInt([]int{1, 1, 1, 2, 2, 3, 5, 10})
				g.Counts[x.Name] = v
				total += v
			}
		}
		if total < 2 {
			g.Counts[in.T[0].Name] += 2
			total += 2
		}
		g.I["nb"] = r.PickInt([]int{1, total - 1, (total + 1) / 2, r.Range(1, total-1), r.Range(1, total-1)})
		if ood {
			switch r.Intn(4) {
			case 0:
				g.I["nb"] = total
			case 1:
				g.I["nb"] = total + r.Range(1, 5)
			case 2:
				g.Counts["no such row \x01"] = 2
			default:
				g.Counts[in.T[r.Intn(n)].Name] = r.PickInt([]int{0, -1})
			}
		}
	}
	return g
}

// argClass names the border class of a call for the coverage counters.
func argClass(g *args, in *input) []string {
	out := []string{}
	for _, k := range sortedKeysF(g.F) {
		v := g.F[k]
		cl := "inside"
		switch {
		case v == 0:
			cl = "0"
		case v == 1:
			cl = "1"
		case v < 0 || v > 1:
			cl = "outside"
		case v == 0.5:
			cl = "half"
		case v < 0.01:
			cl = "tiny"
		}
		out = append(out, fmt.Sprintf("arg:%s:%s=%s", g.Op, k, cl))
	}
	for _, k := range sortedKeysI(g.I) {
		v := g.I[k]
		max := in.N
		if k == "length" {
			max = in.L
		}
		cl := "inside"
		switch {
		case g.Op == "Rarefy":
			cl = "any"
		case v < 1 || v > max:
			cl = "outside"
		case v == max:
			cl = "max"
		case v == 1:
			cl = "1"
		}
		out = append(out, fmt.Sprintf("arg:%s:%s=%s", g.Op, k, cl))
	}
	for k, v := range g.B {
		out = append(out, fmt.Sprintf("arg:%s:%s=%v", g.Op, k, v))
	}
	return out
}

// isNaN guard used by generators (never generate NaN proportions: the documentation gives them no meaning).
func finite(f float64) bool { return !math.IsNaN(f) && !math.IsInf(f, 0) }
