// partboot sub-check of C10: the partitioned bootstrap of `goalign build seqboot --partition`, through the
// library calls the command makes: Split(partition set), BuildBootstrap on every part, Concat in partition order.
// Columns are uniquely identifiable (the rows spell the column index in base 4), so the origin of every
// bootstrap column is unambiguous: block p of a replicate holds |partition p| columns, all drawn from the
// original columns of partition p; the input alignment and the parts are not modified; the replicates replay
// from the seed. Partitions: contiguous blocks in order, blocks declared out of order, codon positions
// (modulo 3), interleaved halves (modulo 2).
package main

import (
	"fmt"
	"math/rand"
	"strings"

	"github.com/evolbioinfo/goalign/align"

	"verif/lib/h"
	"verif/lib/mon"
)

func runPartBoot(c *mon.Case) {
	if seedBroken(c) {
		return
	}
	r := c.R
	L := r.Range(6, 64)
	digits := 1
	for p := 4; p < L; p *= 4 {
		digits++
	}
	n := digits + r.Range(0, 2)
	rows := make([]string, n)
	for k := range rows {
		b := make([]byte, L)
		pow := 1
		for i := 0; i < k && i < digits; i++ {
			pow *= 4
		}
		for j := range b {
			if k < digits {
				b[j] = "ACGT"[(j/pow)%4]
			} else {
				b[j] = "ACGT-N"[r.Intn(6)]
			}
		}
		rows[k] = string(b)
	}
	colID := func(get func(row int) byte) int {
		id, pow := 0, 1
		for k := 0; k < digits; k++ {
			id += strings.IndexByte("ACGT", get(k)) * pow
			pow *= 4
		}
		return id
	}
	mk := func() align.Alignment {
		a := align.NewAlign(align.NUCLEOTIDS)
		for i, s := range rows {
			if err := a.AddSequence(fmt.Sprintf("s%d", i), s, ""); err != nil {
				panic("harness: " + err.Error())
			}
		}
		return a
	}
	// the partition of every column
	part := make([]int, L)
	kind := []string{"contiguous", "out-of-order", "codon-positions", "interleaved-halves"}[c.Idx%4]
	type rng struct{ p, start, end, mod int }
	var rngs []rng
	switch kind {
	case "contiguous", "out-of-order":
		np := r.Range(2, 4)
		cuts := []int{0}
		for len(cuts) < np {
			x := r.Range(1, L-1)
			dup := false
			for _, y := range cuts {
				dup = dup || x == y
			}
			if !dup {
				cuts = append(cuts, x)
			}
		}
		for i := range cuts {
			for j := i + 1; j < len(cuts); j++ {
				if cuts[j] < cuts[i] {
					cuts[i], cuts[j] = cuts[j], cuts[i]
				}
			}
		}
		cuts = append(cuts, L)
		for p := 0; p < np; p++ {
			rngs = append(rngs, rng{p, cuts[p], cuts[p+1] - 1, 1})
		}
		if kind == "out-of-order" {
			// declared last block first: partition 0 is the last block of the alignment
			for i, j := 0, len(rngs)-1; i < j; i, j = i+1, j-1 {
				rngs[i], rngs[j] = rngs[j], rngs[i]
			}
			for i := range rngs {
				rngs[i].p = i
			}
		}
	case "codon-positions":
		for p := 0; p < 3; p++ {
			rngs = append(rngs, rng{p, p, L - 1, 3})
		}
	default:
		half := L / 2
		rngs = append(rngs, rng{0, 0, half - 1, 1}, rng{1, half, L - 1, 2}, rng{2, half + 1, L - 1, 2})
	}
	ps := align.NewPartitionSet(L)
	for _, g := range rngs {
		if err := ps.AddRange(fmt.Sprintf("p%d", g.p), "M", g.start, g.end, g.mod); err != nil {
			c.Failf("harness:partition", "%+v: %v", g, err)
			return
		}
		for j := g.start; j <= g.end; j += g.mod {
			part[j] = g.p
		}
	}
	if err := ps.CheckSites(); err != nil {
		c.Failf("harness:partition", "%v", err)
		return
	}
	np := ps.NPartitions()
	size := make([]int, np)
	for _, p := range part {
		size[p]++
	}
	seed := genSeed(r)
	nrep := r.Range(1, 4)
	c.Input(map[string]interface{}{"rows": rows, "partition": kind, "ranges": fmt.Sprint(rngs), "seed": seed, "replicates": nrep})
	run := func() (reps [][]string, ok bool) {
		al := mk()
		rand.Seed(seed)
		parts, err := al.Split(ps)
		if err != nil {
			c.Failf("Split:unexpected-error", "%v", err)
			return nil, false
		}
		if len(parts) != np {
			c.Failf("Split:number-of-parts", "%d parts for %d partitions", len(parts), np)
			return nil, false
		}
		var partRows [][]string
		for _, p := range parts {
			var pr []string
			for _, s := range h.Snap(p) {
				pr = append(pr, s.Seq)
			}
			partRows = append(partRows, pr)
		}
		for k := 0; k < nrep; k++ {
			var boot align.Alignment
			for _, p := range parts {
				tmp := p.BuildBootstrap(1)
				if boot == nil {
					boot = tmp
				} else if err := boot.Concat(tmp); err != nil {
					c.Failf("Concat:unexpected-error", "%v", err)
					return nil, false
				}
			}
			var br []string
			for _, s := range h.Snap(boot) {
				br = append(br, s.Seq)
			}
			if len(br) != n || len(br[0]) != L {
				c.Failf("partboot:shape", "replicate %d has %d rows x %d columns, the alignment %d x %d", k, len(br), len(br[0]), n, L)
				return nil, false
			}
			j := 0
			for p := 0; p < np; p++ {
				for x := 0; x < size[p]; x, j = x+1, j+1 {
					id := colID(func(row int) byte { return br[row][j] })
					if id < 0 || id >= L || part[id] != p {
						c.Failf("partboot:column-from-another-partition", "replicate %d, column %d (block of partition p%d, %d columns): it is original site %d, which is not in that partition (%s)", k, j, p, size[p], id, kind)
						return nil, false
					}
					for row := range br {
						if br[row][j] != rows[row][id] {
							c.Failf("partboot:not-an-original-column", "replicate %d, column %d spells site %d but row %d holds %q, the original %q", k, j, id, row, br[row][j], rows[row][id])
							return nil, false
						}
					}
				}
			}
			reps = append(reps, br)
		}
		// queries: neither the input nor the parts changed
		for i, s := range h.Snap(al) {
			if s.Seq != rows[i] {
				c.Failf("partboot:input-modified", "row %d of the input alignment is now %q, was %q (%s)", i, s.Seq, rows[i], kind)
				return nil, false
			}
		}
		for pi, p := range parts {
			for i, s := range h.Snap(p) {
				if s.Seq != partRows[pi][i] {
					c.Failf("partboot:part-modified", "row %d of part %d changed while it was bootstrapped", i, pi)
					return nil, false
				}
			}
		}
		return reps, true
	}
	a, ok := run()
	if !ok {
		return
	}
	b, ok := run()
	if !ok {
		return
	}
	if fmt.Sprint(a) != fmt.Sprint(b) {
		c.Failf("partboot:replay-differs", "two runs after rand.Seed(%d) give different replicates", seed)
		return
	}
	c.Count("partboot:" + kind)
	c.Add("partboot:replicates", nrep)
	c.NonTrivial("partboot", strings.Join(rows, "/"), kind, fmt.Sprint(seed))
}
