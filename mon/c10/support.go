// Support tables of the C10 monitor: for small shapes every admissible outcome of a randomised
// operation is enumerated; the operation is run N times (N from the documented uniform
// distribution, so that on correct code a missing outcome has probability < 1e-30) and every
// outcome has to be seen, and no outcome outside the table may appear.
package main

import (
	"fmt"
	"math"
	"math/rand"
	"sort"
	"strings"

	"github.com/evolbioinfo/goalign/align"

	"verif/lib/gen"
	"verif/lib/mon"
)

type table struct {
	Kind     string
	In       *input
	G        *args
	Outcomes []string
	Pmin     float64
	Bag      bool
	Class    string
	label    func(o *outcome) []string
}

// drawsFor: smallest N with |O|*(1-pmin)^N < 1e-30, times 1.5 (margin for the generator not being ideal).
func drawsFor(nOutcomes int, pmin float64) int {
	if pmin >= 1 {
		return 20
	}
	n := (math.Log(float64(nOutcomes)) + 30*math.Ln10) / -math.Log1p(-pmin)
	return int(math.Ceil(n*1.5)) + 20
}

func factorial(n int) int {
	f := 1
	for i := 2; i <= n; i++ {
		f *= i
	}
	return f
}

func perms(n int) [][]int {
	if n == 0 {
		return [][]int{{}}
	}
	out := [][]int{}
	for _, p := range perms(n - 1) {
		for pos := 0; pos <= len(p); pos++ {
			q := append(append(append([]int{}, p[:pos]...), n-1), p[pos:]...)
			out = append(out, q)
		}
	}
	return out
}

func subsets(n, k int) [][]int {
	out := [][]int{}
	var rec func(start int, cur []int)
	rec = func(start int, cur []int) {
		if len(cur) == k {
			out = append(out, append([]int{}, cur...))
			return
		}
		for i := start; i < n; i++ {
			rec(i+1, append(cur, i))
		}
	}
	rec(0, nil)
	return out
}

func ints(v []int) string {
	s := make([]string, len(v))
	for i, x := range v {
		s[i] = gen.Itoa(x)
	}
	return strings.Join(s, ",")
}

// cellsInput: n x L alignment with pairwise distinct symbols.
func cellsInput(r *gen.Rand, n, L int, alphabet int) *input {
	perm := r.Perm(len(symbols))
	in := &input{Alphabet: alphabet, Kind: "cells", N: n, L: L, Distinct: true, GapFree: true}
	in.T = make(tab, n)
	for i := 0; i < n; i++ {
		b := make([]byte, L)
		for j := range b {
			b[j] = symbols[perm[i*L+j]]
		}
		in.T[i] = row{"r" + gen.Itoa(i), string(b), ""}
	}
	return in
}

func newArgs(op string) *args {
	return &args{Op: op, F: map[string]float64{}, I: map[string]int{}, B: map[string]bool{}}
}

// propFor returns a proportion p with floor(p*n) == k under both readings of the product.
func propFor(k, n int) float64 {
	if k >= n {
		return 1
	}
	p := (float64(k) + 0.5) / float64(n)
	lo, hi := prodFloor(p, n)
	if lo != k || hi != k {
		panic("harness: propFor")
	}
	return p
}

func rowIndex(in *input, name string) int {
	for i, r := range in.T {
		if r.Name == name {
			return i
		}
	}
	return -1
}

var tableKinds = []string{"ShuffleSequences:orders", "ShuffleSites:arrangements", "ShuffleSites:which-site", "ShuffleSites:rogue-names",
	"Swap:pair-and-position", "Recombine:pair-and-offset", "AddGaps:cells", "Mutate:letters", "Mutate:rate-half",
	"SimulateRogue:row-and-arrangement", "SimulateRogue:partial", "BuildBootstrap:site-at-position", "Sample:subsets",
	"RandSubAlign:window", "RandSubAlign:columns", "Rarefy:subsets", "bag:ShuffleSequences:orders", "bag:Sample:subsets", "bag:Rarefy:subsets",
	"Swap:two-pairs", "Recombine:two-pairs", "AddGaps:two-rows", "SimulateRogue:two-rogues", "Mutate:rate-calibration"}

func buildTable(r *gen.Rand, kind string) *table {
	t := &table{Kind: kind}
	anyAlpha := r.PickInt([]int{align.AMINOACIDS, align.NUCLEOTIDS, align.UNKNOWN})
	switch kind {
	case "ShuffleSequences:orders", "bag:ShuffleSequences:orders":
		n := r.PickInt([]int{1, 2, 3, 3, 4, 4, 5})
		t.In = cellsInput(r, n, r.Range(1, 4), anyAlpha)
		t.Bag = strings.HasPrefix(kind, "bag:")
		if t.Bag {
			unalign(r, t.In)
		}
		t.G = newArgs("ShuffleSequences")
		for _, p := range perms(n) {
			t.Outcomes = append(t.Outcomes, ints(p))
		}
		t.Pmin = 1 / float64(factorial(n))
		in := t.In
		t.label = func(o *outcome) []string {
			idx := make([]int, len(o.After))
			for i, x := range o.After {
				idx[i] = rowIndex(in, x.Name)
			}
			return []string{ints(idx)}
		}
	case "ShuffleSites:arrangements":
		n, L := r.Range(2, 4), r.Range(1, 3)
		t.In = cellsInput(r, n, L, anyAlpha)
		if n == 2 && r.Bool() {
			// a column holding one letter in both cases (soft-masked a / A): two symbols, two arrangements
			x := byte('a' + r.Intn(26))
			X := x - 32
			old := [2]byte{t.In.T[0].Seq[0], t.In.T[1].Seq[0]}
			for i := range t.In.T {
				b := []byte(t.In.T[i].Seq)
				for j := range b {
					if b[j] == x {
						b[j] = old[0]
					} else if b[j] == X {
						b[j] = old[1]
					}
				}
				t.In.T[i].Seq = string(b)
			}
			for i, ch := range []byte{x, X} {
				b := []byte(t.In.T[i].Seq)
				b[0] = ch
				t.In.T[i].Seq = string(b)
			}
			t.Class = "column-of-one-letter-in-both-cases"
		}
		t.G = newArgs("ShuffleSites")
		t.G.F["rate"], t.G.F["rogue"], t.G.B["stable"] = 1, 0, r.Bool()
		ps := perms(n)
		joint := math.Pow(float64(len(ps)), float64(L)) <= 216 // all columns together (they are shuffled independently)
		if joint {
			t.Outcomes = []string{""}
			for j := 0; j < L; j++ {
				next := []string{}
				for _, pre := range t.Outcomes {
					for _, p := range ps {
						next = append(next, pre+fmt.Sprintf("col%d:%s;", j, ints(p)))
					}
				}
				t.Outcomes = next
			}
			t.Pmin = 1 / float64(len(t.Outcomes))
		} else {
			for j := 0; j < L; j++ {
				for _, p := range ps {
					t.Outcomes = append(t.Outcomes, fmt.Sprintf("col%d:%s;", j, ints(p)))
				}
			}
			t.Pmin = 1 / float64(factorial(n))
		}
		in := t.In
		t.label = func(o *outcome) []string {
			out := []string{}
			bc, ac := in.T.cols(L), o.After.cols(L)
			for j := 0; j < L; j++ {
				idx := make([]int, n)
				for i := 0; i < n; i++ {
					idx[i] = strings.IndexByte(bc[j], ac[j][i]) // which original row's symbol sits in row i now
				}
				out = append(out, fmt.Sprintf("col%d:%s;", j, ints(idx)))
			}
			if joint {
				return []string{strings.Join(out, "")}
			}
			return out
		}
	case "ShuffleSites:which-site":
		n, L := r.Range(2, 4), r.Range(2, 7)
		k := r.Range(1, L-1)
		t.In = cellsInput(r, n, L, anyAlpha)
		t.G = newArgs("ShuffleSites")
		t.G.F["rate"], t.G.F["rogue"], t.G.B["stable"] = propFor(k, L), 0, r.Bool()
		for j := 0; j < L; j++ {
			t.Outcomes = append(t.Outcomes, fmt.Sprintf("col%d-shuffled", j))
		}
		t.Outcomes = append(t.Outcomes, "first-row-moved", "last-row-moved")
		t.Pmin = float64(k) / float64(L) * (1 - 1/float64(factorial(n))) * (1 / float64(n)) // a given column is drawn, not left as it was; (x 1/n: a given row moves, lower bound)
		in := t.In
		t.label = func(o *outcome) []string {
			out := []string{}
			bc, ac := in.T.cols(L), o.After.cols(L)
			for j := 0; j < L; j++ {
				if bc[j] != ac[j] {
					out = append(out, fmt.Sprintf("col%d-shuffled", j))
				}
			}
			if in.T[0].Seq != o.After[0].Seq {
				out = append(out, "first-row-moved")
			}
			if in.T[n-1].Seq != o.After[n-1].Seq {
				out = append(out, "last-row-moved")
			}
			return out
		}
	case "ShuffleSites:rogue-names":
		n := r.Range(3, 6)
		L := r.PickInt([]int{8, 10, 12})
		k := r.Range(1, 2)
		t.In = cellsInput(r, n, L, anyAlpha)
		t.G = newArgs("ShuffleSites")
		t.G.F["rate"], t.G.F["rogue"], t.G.B["stable"] = 0.5, propFor(k, n), r.Bool()
		for i := 0; i < n; i++ {
			t.Outcomes = append(t.Outcomes, fmt.Sprintf("rogue-row%d", i))
		}
		t.Pmin = float64(k) / float64(n)
		nS := L / 2
		if k == 2 {
			// the additional sites of the rogues are taken among the remaining intact sites: more than floor(rate*L)
			// columns can change (all nS shuffled columns show: (1-1/n!)^nS; one of the >= 2 additional columns is
			// exchanged between the two rogues: >= 1/2)
			t.Outcomes = append(t.Outcomes, "more-columns-changed-than-rate*L")
			if p := math.Pow(1-1/float64(factorial(n)), float64(nS)) * 0.5; p < t.Pmin {
				t.Pmin = p
			}
		}
		in := t.In
		t.label = func(o *outcome) []string {
			out := []string{}
			for _, x := range o.L1 {
				out = append(out, fmt.Sprintf("rogue-row%d", rowIndex(in, x)))
			}
			if k == 2 {
				ch := 0
				bc, ac := in.T.cols(L), o.After.cols(L)
				for j := range bc {
					if bc[j] != ac[j] {
						ch++
					}
				}
				if ch > nS {
					out = append(out, "more-columns-changed-than-rate*L")
				}
			}
			return out
		}
	case "Swap:pair-and-position":
		n, L := r.Range(2, 5), r.Range(1, 6)
		t.In = cellsInput(r, n, L, anyAlpha)
		t.G = newArgs("Swap")
		t.G.F["rate"], t.G.F["pos"] = propFor(2, n), r.PickF([]float64{-1, -1, 2, 1.5})
		prs := subsets(n, 2)
		for _, p := range prs {
			for s := 0; s < L; s++ {
				t.Outcomes = append(t.Outcomes, fmt.Sprintf("rows%s@%d", ints(p), s))
			}
		}
		t.Pmin = 1 / float64(len(prs)*L)
		in := t.In
		t.label = func(o *outcome) []string {
			ch := []int{}
			for i := range in.T {
				if in.T[i].Seq != o.After[i].Seq {
					ch = append(ch, i)
				}
			}
			if len(ch) == 0 {
				return []string{"nothing-changed"}
			}
			return []string{fmt.Sprintf("rows%s@%d", ints(ch), diffPos(in.T[ch[0]].Seq, o.After[ch[0]].Seq)[0])}
		}
	case "Recombine:pair-and-offset":
		n, L := r.Range(2, 4), r.Range(1, 6)
		ln := r.Range(1, L)
		swap := r.Bool()
		t.In = cellsInput(r, n, L, anyAlpha)
		t.G = newArgs("Recombine")
		t.G.F["prop"], t.G.F["lenprop"], t.G.B["swap"] = propFor(1, n), propFor(ln, L), swap
		if n == 2 {
			t.G.F["prop"] = 0.5
		}
		cnt := 0
		for i := 0; i < n; i++ {
			for d := 0; d < n; d++ {
				if i == d || (swap && d < i) {
					continue
				}
				for s := 0; s+ln <= L; s++ {
					if swap {
						t.Outcomes = append(t.Outcomes, fmt.Sprintf("exchange%d,%d@%d", i, d, s))
					} else {
						t.Outcomes = append(t.Outcomes, fmt.Sprintf("recv%d<-donor%d@%d", i, d, s))
					}
					cnt++
				}
			}
		}
		t.Pmin = 1 / float64(cnt)
		in := t.In
		t.label = func(o *outcome) []string {
			ch := []int{}
			for i := range in.T {
				if in.T[i].Seq != o.After[i].Seq {
					ch = append(ch, i)
				}
			}
			if len(ch) == 0 {
				return []string{"nothing-changed"}
			}
			s := diffPos(in.T[ch[0]].Seq, o.After[ch[0]].Seq)[0]
			if swap {
				return []string{fmt.Sprintf("exchange%s@%d", ints(ch), s)}
			}
			d := -1
			for x := range in.T {
				if x != ch[0] && in.T[x].Seq[s] == o.After[ch[0]].Seq[s] {
					d = x
				}
			}
			return []string{fmt.Sprintf("recv%d<-donor%d@%d", ch[0], d, s)}
		}
	case "AddGaps:cells":
		n, L := r.Range(1, 4), r.Range(1, 6)
		g := r.Range(1, 2)
		if g > L {
			g = L
		}
		t.In = cellsInput(r, n, L, anyAlpha)
		t.G = newArgs("AddGaps")
		t.G.F["siteprop"], t.G.F["seqprop"] = propFor(g, L), propFor(1, n)
		sets := subsets(L, g)
		for i := 0; i < n; i++ {
			for _, s := range sets {
				t.Outcomes = append(t.Outcomes, fmt.Sprintf("row%d:gaps@%s", i, ints(s)))
			}
		}
		t.Pmin = 1 / float64(n*len(sets))
		t.label = func(o *outcome) []string {
			out := []string{}
			for i, x := range o.After {
				pos := []int{}
				for j := 0; j < len(x.Seq); j++ {
					if x.Seq[j] == '-' {
						pos = append(pos, j)
					}
				}
				if len(pos) > 0 {
					out = append(out, fmt.Sprintf("row%d:gaps@%s", i, ints(pos)))
				}
			}
			if len(out) == 0 {
				out = append(out, "nothing-changed")
			}
			return out
		}
	case "Mutate:letters", "Mutate:rate-half":
		aa := r.Chance(0.4)
		n, L := r.Range(1, 3), r.Range(1, 4)
		letters, alpha, pool := ntLetters, align.NUCLEOTIDS, "ACGTNRYacgt"
		if aa {
			letters, alpha, pool = aaLetters, align.AMINOACIDS, aaLetters+"XBZarn"
		}
		half := kind == "Mutate:rate-half"
		if half {
			pool = "N"
			if aa {
				pool = "X"
			}
		}
		in := &input{Alphabet: alpha, Kind: "nt", N: n, L: L}
		if aa {
			in.Kind = "aa"
		}
		for i := 0; i < n; i++ {
			in.T = append(in.T, row{"r" + gen.Itoa(i), r.Str(L, pool), ""})
		}
		// one protected cell
		if L > 1 {
			b := []byte(in.T[0].Seq)
			b[r.Intn(L)] = r.Pick("-.*")
			in.T[0].Seq = string(b)
		}
		in.GapFree = false
		t.In = in
		t.G = newArgs("Mutate")
		t.G.F["rate"] = r.PickF([]float64{1, 1, 1.5, 1})
		t.Pmin = 1 / float64(len(letters))
		if half {
			t.G.F["rate"] = 0.5
			t.Pmin = 0.5 / float64(len(letters))
		}
		for i := 0; i < n; i++ {
			for j := 0; j < L; j++ {
				c := in.T[i].Seq[j]
				if c == '-' || c == '.' || c == '*' {
					t.Outcomes = append(t.Outcomes, fmt.Sprintf("cell%d,%d=%c", i, j, c))
					continue
				}
				for _, l := range letters {
					t.Outcomes = append(t.Outcomes, fmt.Sprintf("cell%d,%d=%c", i, j, l))
				}
				if half {
					t.Outcomes = append(t.Outcomes, fmt.Sprintf("cell%d,%d=%c", i, j, c))
				}
			}
		}
		t.label = func(o *outcome) []string {
			out := []string{}
			for i, x := range o.After {
				for j := 0; j < len(x.Seq); j++ {
					out = append(out, fmt.Sprintf("cell%d,%d=%c", i, j, x.Seq[j]))
				}
			}
			return out
		}
	case "SimulateRogue:row-and-arrangement":
		n, L := r.Range(1, 4), r.Range(2, 4)
		t.In = cellsInput(r, n, L, anyAlpha)
		t.G = newArgs("SimulateRogue")
		t.G.F["prop"], t.G.F["proplen"] = propFor(1, n), 1
		ps := perms(L)
		for i := 0; i < n; i++ {
			for _, p := range ps {
				t.Outcomes = append(t.Outcomes, fmt.Sprintf("rogue%d:%s", i, ints(p)))
			}
		}
		t.Pmin = 1 / float64(n*len(ps))
		in := t.In
		t.label = func(o *outcome) []string {
			if len(o.L1) != 1 {
				return []string{fmt.Sprintf("%d-rogues", len(o.L1))}
			}
			i := rowIndex(in, o.L1[0])
			if i < 0 {
				return []string{"unknown-rogue"}
			}
			idx := make([]int, L)
			for j := 0; j < L; j++ {
				idx[j] = strings.IndexByte(in.T[i].Seq, o.After[i].Seq[j])
			}
			return []string{fmt.Sprintf("rogue%d:%s", i, ints(idx))}
		}
	case "SimulateRogue:partial":
		n, L := r.Range(1, 3), r.Range(3, 6)
		t.In = cellsInput(r, n, L, anyAlpha)
		t.G = newArgs("SimulateRogue")
		t.G.F["prop"], t.G.F["proplen"] = propFor(1, n), propFor(2, L)
		prs := subsets(L, 2)
		for i := 0; i < n; i++ {
			t.Outcomes = append(t.Outcomes, fmt.Sprintf("rogue%d:untouched", i))
			for _, p := range prs {
				t.Outcomes = append(t.Outcomes, fmt.Sprintf("rogue%d:exchanged%s", i, ints(p)))
			}
		}
		t.Pmin = 1 / float64(n*len(prs)*2)
		in := t.In
		t.label = func(o *outcome) []string {
			if len(o.L1) != 1 {
				return []string{fmt.Sprintf("%d-rogues", len(o.L1))}
			}
			i := rowIndex(in, o.L1[0])
			if i < 0 {
				return []string{"unknown-rogue"}
			}
			d := diffPos(in.T[i].Seq, o.After[i].Seq)
			if len(d) == 0 {
				return []string{fmt.Sprintf("rogue%d:untouched", i)}
			}
			return []string{fmt.Sprintf("rogue%d:exchanged%s", i, ints(d))}
		}
	case "BuildBootstrap:site-at-position":
		n, L := r.Range(1, 3), r.Range(1, 6)
		k := r.PickInt([]int{L, L, r.Range(1, L)})
		t.In = cellsInput(r, n, L, anyAlpha)
		t.G = newArgs("BuildBootstrap")
		t.G.F["frac"] = propFor(k, L)
		joint := math.Pow(float64(L), float64(k)) <= 256 // the whole bootstrap sample (positions are drawn independently)
		if joint {
			t.Outcomes = []string{""}
			for p := 0; p < k; p++ {
				next := []string{}
				for _, pre := range t.Outcomes {
					for j := 0; j < L; j++ {
						next = append(next, pre+fmt.Sprintf("pos%d=site%d;", p, j))
					}
				}
				t.Outcomes = next
			}
			t.Pmin = 1 / float64(len(t.Outcomes))
		} else {
			for p := 0; p < k; p++ {
				for j := 0; j < L; j++ {
					t.Outcomes = append(t.Outcomes, fmt.Sprintf("pos%d=site%d;", p, j))
				}
			}
			t.Pmin = 1 / float64(L)
		}
		in := t.In
		t.label = func(o *outcome) []string {
			out := []string{}
			if len(o.Out) == 0 {
				return []string{"no-rows"}
			}
			for p := 0; p < len(o.Out[0].Seq); p++ {
				out = append(out, fmt.Sprintf("pos%d=site%d;", p, strings.IndexByte(in.T[0].Seq, o.Out[0].Seq[p])))
			}
			if joint {
				return []string{strings.Join(out, "")}
			}
			return out
		}
	case "Sample:subsets", "bag:Sample:subsets":
		n := r.Range(1, 6)
		nb := r.Range(1, n)
		t.In = cellsInput(r, n, r.Range(1, 3), anyAlpha)
		t.Bag = strings.HasPrefix(kind, "bag:")
		if t.Bag {
			unalign(r, t.In)
		}
		t.G = newArgs("Sample")
		t.G.I["nb"] = nb
		sets := subsets(n, nb)
		for _, s := range sets {
			t.Outcomes = append(t.Outcomes, "rows"+ints(s))
		}
		t.Pmin = 1 / float64(len(sets))
		in := t.In
		t.label = func(o *outcome) []string {
			idx := []int{}
			for _, x := range o.Out {
				idx = append(idx, rowIndex(in, x.Name))
			}
			sort.Ints(idx)
			return []string{"rows" + ints(idx)}
		}
	case "RandSubAlign:window":
		n, L := r.Range(1, 3), r.Range(1, 9)
		ln := r.PickInt([]int{1, L, r.Range(1, L), r.Range(1, L)})
		t.In = cellsInput(r, n, L, anyAlpha)
		t.G = newArgs("RandSubAlign")
		t.G.I["length"], t.G.B["consecutive"] = ln, true
		for s := 0; s+ln <= L; s++ {
			t.Outcomes = append(t.Outcomes, fmt.Sprintf("offset%d", s))
		}
		t.Pmin = 1 / float64(L-ln+1)
		in := t.In
		t.label = func(o *outcome) []string {
			if len(o.Out) == 0 || len(o.Out[0].Seq) == 0 {
				return []string{"no-result"}
			}
			return []string{fmt.Sprintf("offset%d", strings.IndexByte(in.T[0].Seq, o.Out[0].Seq[0]))}
		}
	case "RandSubAlign:columns":
		n, L := r.Range(1, 3), r.Range(1, 6)
		ln := r.Range(1, L)
		t.In = cellsInput(r, n, L, anyAlpha)
		t.G = newArgs("RandSubAlign")
		t.G.I["length"], t.G.B["consecutive"] = ln, false
		sets := subsets(L, ln)
		for _, s := range sets {
			t.Outcomes = append(t.Outcomes, "sites"+ints(s))
		}
		t.Pmin = 1 / float64(len(sets))
		in := t.In
		t.label = func(o *outcome) []string {
			if len(o.Out) == 0 {
				return []string{"no-result"}
			}
			idx := []int{}
			for p := 0; p < len(o.Out[0].Seq); p++ {
				idx = append(idx, strings.IndexByte(in.T[0].Seq, o.Out[0].Seq[p]))
			}
			sort.Ints(idx)
			return []string{"sites" + ints(idx)}
		}
	case "Rarefy:subsets", "bag:Rarefy:subsets":
		n := r.Range(1, 4)
		t.In = cellsInput(r, n, r.Range(1, 3), anyAlpha)
		t.Bag = strings.HasPrefix(kind, "bag:")
		if t.Bag {
			unalign(r, t.In)
		}
		t.G = newArgs("Rarefy")
		t.G.Counts = map[string]int{}
		cnt := make([]int, n)
		total := 0
		for i := 0; i < n; i++ {
			if i > 0 && r.Chance(0.2) {
				continue // no count for this row
			}
			cnt[i] = r.Range(1, 3)
			t.G.Counts[t.In.T[i].Name] = cnt[i]
			total += cnt[i]
		}
		if total < 2 {
			cnt[0]++
			t.G.Counts[t.In.T[0].Name] = cnt[0]
			total++
		}
		nb := r.Range(1, total-1)
		t.G.I["nb"] = nb
		dist := rarefyDist(cnt, nb)
		t.Pmin = 1
		for k, p := range dist {
			t.Outcomes = append(t.Outcomes, k)
			if p < t.Pmin {
				t.Pmin = p
			}
		}
		sort.Strings(t.Outcomes)
		in := t.In
		t.label = func(o *outcome) []string {
			idx := []int{}
			for _, x := range o.Out {
				idx = append(idx, rowIndex(in, x.Name))
			}
			sort.Ints(idx)
			return []string{"rows" + ints(idx)}
		}
	case "Swap:two-pairs":
		// 4 rows, rate 1: two pairs, each with its own random position
		L := r.Range(2, 4)
		t.In = cellsInput(r, 4, L, anyAlpha)
		t.G = newArgs("Swap")
		t.G.F["rate"], t.G.F["pos"] = 1, -1
		for _, m := range [][4]int{{0, 1, 2, 3}, {0, 2, 1, 3}, {0, 3, 1, 2}} {
			for p1 := 0; p1 < L; p1++ {
				for p2 := 0; p2 < L; p2++ {
					t.Outcomes = append(t.Outcomes, fmt.Sprintf("rows%d,%d@%d;rows%d,%d@%d;", m[0], m[1], p1, m[2], m[3], p2))
				}
			}
		}
		t.Pmin = 1 / float64(len(t.Outcomes))
		in := t.In
		t.label = func(o *outcome) []string {
			lab := ""
			done := map[int]bool{}
			for i := range in.T {
				if done[i] || in.T[i].Seq == o.After[i].Seq {
					continue
				}
				p := diffPos(in.T[i].Seq, o.After[i].Seq)[0]
				partner := -1
				for x := range in.T {
					if x != i && in.T[x].Seq[p:] == o.After[i].Seq[p:] {
						partner = x
					}
				}
				done[i], done[partner] = true, true
				lab += fmt.Sprintf("rows%d,%d@%d;", i, partner, p)
			}
			return []string{lab}
		}
	case "Recombine:two-pairs":
		// 4 rows, prop 1/2: two receivers, two donors, each pair with its own window offset
		L := r.Range(2, 3)
		swap := r.Bool()
		t.In = cellsInput(r, 4, L, anyAlpha)
		t.G = newArgs("Recombine")
		t.G.F["prop"], t.G.F["lenprop"], t.G.B["swap"] = 0.5, propFor(1, L), swap
		seen := map[string]bool{}
		for _, p := range perms(4) {
			for s1 := 0; s1 < L; s1++ {
				for s2 := 0; s2 < L; s2++ {
					lab := pairLabels(swap, [][3]int{{p[0], p[2], s1}, {p[1], p[3], s2}})
					if !seen[lab] {
						seen[lab] = true
						t.Outcomes = append(t.Outcomes, lab)
					}
				}
			}
		}
		t.Pmin = 1 / float64(24*L*L) // every (permutation, offsets) draw has this probability; an outcome gathers one or more of them
		in := t.In
		t.label = func(o *outcome) []string {
			trip := [][3]int{}
			for i := range in.T {
				if in.T[i].Seq == o.After[i].Seq {
					continue
				}
				s := diffPos(in.T[i].Seq, o.After[i].Seq)[0]
				d := -1
				for x := range in.T {
					if x != i && in.T[x].Seq[s] == o.After[i].Seq[s] {
						d = x
					}
				}
				trip = append(trip, [3]int{i, d, s})
			}
			return []string{pairLabels(swap, trip)}
		}
	case "AddGaps:two-rows":
		// two targeted rows: each one gets its own gap positions
		n, L := r.Range(2, 4), r.Range(2, 4)
		t.In = cellsInput(r, n, L, anyAlpha)
		t.G = newArgs("AddGaps")
		t.G.F["siteprop"], t.G.F["seqprop"] = propFor(1, L), propFor(2, n)
		for _, rs := range subsets(n, 2) {
			for j1 := 0; j1 < L; j1++ {
				for j2 := 0; j2 < L; j2++ {
					t.Outcomes = append(t.Outcomes, fmt.Sprintf("row%d@%d;row%d@%d;", rs[0], j1, rs[1], j2))
				}
			}
		}
		t.Pmin = 1 / float64(len(t.Outcomes))
		t.label = func(o *outcome) []string {
			lab := ""
			for i, x := range o.After {
				for j := 0; j < len(x.Seq); j++ {
					if x.Seq[j] == '-' {
						lab += fmt.Sprintf("row%d@%d;", i, j)
					}
				}
			}
			return []string{lab}
		}
	case "SimulateRogue:two-rogues":
		// two rogue rows: each one is shuffled on its own
		n, L := r.Range(2, 3), r.Range(2, 3)
		t.In = cellsInput(r, n, L, anyAlpha)
		t.G = newArgs("SimulateRogue")
		t.G.F["prop"], t.G.F["proplen"] = propFor(2, n), 1
		ps := perms(L)
		for _, rs := range subsets(n, 2) {
			for _, p1 := range ps {
				for _, p2 := range ps {
					t.Outcomes = append(t.Outcomes, fmt.Sprintf("rogue%d:%s;rogue%d:%s;", rs[0], ints(p1), rs[1], ints(p2)))
				}
			}
		}
		t.Pmin = 1 / float64(len(t.Outcomes))
		in := t.In
		t.label = func(o *outcome) []string {
			isR := map[string]bool{}
			for _, x := range o.L1 {
				isR[x] = true
			}
			lab := ""
			for i, x := range in.T {
				if !isR[x.Name] {
					continue
				}
				idx := make([]int, L)
				for j := 0; j < L; j++ {
					idx[j] = strings.IndexByte(x.Seq, o.After[i].Seq[j])
				}
				lab += fmt.Sprintf("rogue%d:%s;", i, ints(idx))
			}
			return []string{lab}
		}
	default:
		panic("harness: unknown table kind " + kind)
	}
	return t
}

// pairLabels: canonical label of a set of (receiver, donor, offset) triples (swap: the two rows of a pair are
// interchangeable; every exchanged row shows up as a receiver of the other one).
func pairLabels(swap bool, trip [][3]int) string {
	labs := []string{}
	for _, x := range trip {
		a, b := x[0], x[1]
		if swap {
			if a > b {
				a, b = b, a
			}
			labs = append(labs, fmt.Sprintf("exchange%d,%d@%d;", a, b, x[2]))
		} else {
			labs = append(labs, fmt.Sprintf("recv%d<-donor%d@%d;", a, b, x[2]))
		}
	}
	sort.Strings(labs)
	out := ""
	for i, l := range labs {
		if i > 0 && l == labs[i-1] {
			continue
		}
		out += l
	}
	return out
}

// runCalibration: Mutate(rate) on M eligible residues: the number of residues that were redrawn is Binomial(M, rate);
// every redrawn residue shows (the input holds N / X only). Hoeffding: P(|X - E X| >= t) <= 2 exp(-2 t^2 / M) < 1e-30
// for t = sqrt(M * ln(2e30) / 2).
func runCalibration(c *mon.Case) {
	r := c.R
	aa := r.Bool()
	letters, alpha, orig := ntLetters, align.NUCLEOTIDS, byte('N')
	if aa {
		letters, alpha, orig = aaLetters, align.AMINOACIDS, 'X'
	}
	n, L := r.Range(5, 20), r.Range(500, 1500)
	rate := r.PickF([]float64{0.05, 0.1, 0.25, 0.5, 0.75, 0.9, 1, r.Float()})
	in := &input{Alphabet: alpha, Kind: "nt", N: n, L: L, GapFree: true}
	if aa {
		in.Kind = "aa"
	}
	for i := 0; i < n; i++ {
		in.T = append(in.T, row{"r" + gen.Itoa(i), strings.Repeat(string(orig), L), ""})
	}
	g := newArgs("Mutate")
	g.F["rate"] = rate
	seed := int64(r.U64())
	c.Input(map[string]interface{}{"table": "Mutate:rate-calibration", "rows": n, "columns": L, "residue": string(orig), "rate": rate, "seed": seed})
	rand.Seed(seed)
	o := apply(in.align(), g)
	k := &kase{c: c, in: in, g: g, seed: seed, o: o}
	k.check()
	M := float64(n * L)
	changed := 0
	per := map[byte]int{}
	for i := range o.After {
		for j := 0; j < L; j++ {
			if o.After[i].Seq[j] != orig {
				changed++
				per[o.After[i].Seq[j]]++
			}
		}
	}
	t := math.Sqrt(M * math.Log(2e30) / 2)
	if math.Abs(float64(changed)-rate*M) > t {
		k.o = &outcome{}
		k.fail("rate-not-honoured", "%d of %d residues substituted at rate %v: expected %.0f +- %.0f (Hoeffding bound, probability < 1e-30)", changed, int(M), rate, rate*M, t)
		return
	}
	for _, l := range []byte(letters) {
		e := rate * M / float64(len(letters))
		if math.Abs(float64(per[l])-e) > t {
			k.o = &outcome{}
			k.fail("letters-not-uniform", "letter %c drawn %d times among %d residues at rate %v: expected %.0f +- %.0f (uniform letters)", l, per[l], int(M), rate, e, t)
			return
		}
	}
	c.Count("table:Mutate:rate-calibration")
	c.NonTrivial("calibration", fmt.Sprint(n, L, rate, seed, aa))
	c.Note("%d of %d residues substituted at rate %v (bound +-%.0f)", changed, int(M), rate, t)
}

// rarefyDist: distribution of the set of rows hit when nb sequences are drawn one after the other, uniformly
// and without replacement, from the multiset in which row i occurs cnt[i] times.
func rarefyDist(cnt []int, nb int) map[string]float64 {
	dist := map[string]float64{}
	c := append([]int{}, cnt...)
	hit := make([]bool, len(cnt))
	var rec func(left int, total int, p float64)
	rec = func(left, total int, p float64) {
		if left == 0 {
			idx := []int{}
			for i, hh := range hit {
				if hh {
					idx = append(idx, i)
				}
			}
			dist["rows"+ints(idx)] += p
			return
		}
		for i := range c {
			if c[i] == 0 {
				continue
			}
			q := p * float64(c[i]) / float64(total)
			was := hit[i]
			c[i]--
			hit[i] = true
			rec(left-1, total-1, q)
			c[i]++
			hit[i] = was
		}
	}
	total := 0
	for _, v := range cnt {
		total += v
	}
	rec(nb, total, 1)
	return dist
}

// unalign gives the rows different lengths (sequence bags need not be aligned).
func unalign(r *gen.Rand, in *input) {
	for i := range in.T {
		in.T[i].Seq += r.Str(i, "ACGT")
	}
	in.L = -1
	in.Distinct = false
}

func runSupport(c *mon.Case) {
	if seedBroken(c) {
		return
	}
	r := c.R
	kind := tableKinds[c.Idx%len(tableKinds)]
	if kind == "Mutate:rate-calibration" {
		runCalibration(c)
		return
	}
	t := buildTable(r, kind)
	reseed := (c.Idx/len(tableKinds))%2 == 1
	N := drawsFor(len(t.Outcomes), t.Pmin)
	mode := "one-seed-then-stream"
	if reseed {
		mode = "reseed-every-draw"
	}
	c.Input(map[string]interface{}{"table": kind, "input": t.In, "call": t.G.String(), "outcomes": len(t.Outcomes), "pmin": t.Pmin, "draws": N, "mode": mode})
	want := map[string]int{}
	for _, o := range t.Outcomes {
		want[o] = 0
	}
	base := int64(r.U64() >> 1)
	rand.Seed(base)
	k := &kase{c: c, in: t.In, g: t.G}
	for d := 0; d < N; d++ {
		if reseed {
			k.seed = int64(r.U64() >> 1)
			rand.Seed(k.seed)
		} else {
			k.seed = base
		}
		var o *outcome
		if t.Bag {
			o = applyBag(mkBag(t.In.T, t.In.Alphabet), t.G)
		} else {
			o = apply(t.In.align(), t.G)
		}
		k.o = o
		k.check()
		if c.Failed() {
			return
		}
		for _, l := range t.label(o) {
			if _, ok := want[l]; !ok {
				k.fail("inadmissible-outcome", "table %s: outcome %q (draw %d, %s) is not one of the %d admissible outcomes", kind, l, d, mode, len(t.Outcomes))
				return
			}
			want[l]++
		}
	}
	missing := []string{}
	for _, o := range t.Outcomes {
		if want[o] == 0 {
			missing = append(missing, o)
		}
	}
	c.Count("table:" + kind)
	if t.Class != "" {
		c.Count("table-class:" + t.Class)
	}
	c.Count("mode:" + mode)
	c.Add("draws", N)
	c.Add("outcomes-enumerated", len(t.Outcomes))
	if len(missing) > 0 {
		k.o = &outcome{}
		k.fail("unreachable-outcome", "table %s: %d of %d admissible outcomes never appeared in %d draws (%s; probability of a missing outcome on a uniform draw < 1e-30): %v\ncounts=%v", kind, len(missing), len(t.Outcomes), N, mode, missing, want)
		return
	}
	c.NonTrivial(kind, t.In.T.key(), t.G.String(), mode)
	c.Note("%d outcomes all seen in %d draws (%s)", len(t.Outcomes), N, mode)
}
