// cli sub-check of C10: the commands that drive the randomised operations (cmd/root.go --seed,
// cmd/shuffle.go, cmd/sample.go, cmd/bootstrap.go ...) through the binary built from the tree under
// test: same seed => same bytes, different seeds reach different outputs, and the output satisfies
// the oracle of the operation.
package main

import (
	"bytes"
	"fmt"
	"math"
	"os"
	"os/exec"
	"path/filepath"
	"strconv"
	"strings"

	"github.com/evolbioinfo/goalign/align"

	"verif/lib/gen"
	"verif/lib/mon"
)

var cliBin, cliDir, cliBuildErr string

func cliSetup() bool {
	if cliBin != "" {
		return true
	}
	if cliBuildErr != "" {
		return false
	}
	repo := os.Getenv("VERIF_REPO")
	if repo == "" {
		repo = "/repo"
	}
	scratch := os.Getenv("VERIF_SCRATCH")
	if scratch == "" {
		scratch = os.TempDir()
	}
	dir, err := os.MkdirTemp(scratch, "c10-cli-")
	if err != nil {
		cliBuildErr = err.Error()
		fmt.Fprintln(os.Stderr, "c10 cli: "+cliBuildErr)
		return false
	}
	bin := filepath.Join(dir, "goalign")
	cmd := exec.Command("go", "build", "-o", bin, ".")
	cmd.Dir = repo
	env := []string{}
	for _, e := range os.Environ() {
		if !strings.HasPrefix(e, "GOFLAGS=") {
			env = append(env, e)
		}
	}
	cmd.Env = append(env, "GOFLAGS=-mod=readonly", "GOPROXY=off", "GOSUMDB=off", "GOTOOLCHAIN=local")
	if out, err := cmd.CombinedOutput(); err != nil {
		cliBuildErr = fmt.Sprintf("go build of %s failed: %v\n%s", repo, err, out)
		fmt.Fprintln(os.Stderr, "c10 cli: "+cliBuildErr)
		os.RemoveAll(dir)
		return false
	}
	cliBin, cliDir = bin, dir
	return true
}

type cliSpec struct {
	Name string
	// Sens: no single output of the command has a probability above 1/20 on the generated inputs (argument next to
	// each command), so that 25 seeds giving one single output has probability < (1/20)^24 < 1e-30 on correct code
	Sens bool
	// mk returns the command line (without -i / --seed), the call it stands for, and the side files to read
	mk func(r *gen.Rand, in *input, dir string) (argv []string, g *args, side []string)
}

func ff(f float64) string { return strconv.FormatFloat(f, 'g', -1, 64) }

var cliSpecs = []cliSpec{
	{"shuffle seqs", true /* >= 6 rows with different names: 1/720 */, func(r *gen.Rand, in *input, dir string) ([]string, *args, []string) {
		return []string{"shuffle", "seqs"}, newArgs("ShuffleSequences"), nil
	}},
	{"shuffle sites", false, func(r *gen.Rand, in *input, dir string) ([]string, *args, []string) {
		g := newArgs("ShuffleSites")
		g.F["rate"], g.F["rogue"] = r.PickF([]float64{0.5, 0.25, 1, 0.3}), 0
		return []string{"shuffle", "sites", "-r", ff(g.F["rate"]), "--rogue-file", filepath.Join(dir, "rogues.txt")}, g, []string{"rogues.txt"}
	}},
	{"shuffle sites --rogue", false, func(r *gen.Rand, in *input, dir string) ([]string, *args, []string) {
		g := newArgs("ShuffleSites")
		g.F["rate"], g.F["rogue"], g.B["stable"] = r.PickF([]float64{0.5, 0.25, 0.3}), r.PickF([]float64{0.5, 0.34, 0.75}), r.Bool()
		a := []string{"shuffle", "sites", "-r", ff(g.F["rate"]), "--rogue", ff(g.F["rogue"]), "--rogue-file", filepath.Join(dir, "rogues.txt")}
		if g.B["stable"] {
			a = append(a, "--stable-rogues")
		}
		return a, g, []string{"rogues.txt"}
	}},
	{"shuffle swap", false, func(r *gen.Rand, in *input, dir string) ([]string, *args, []string) {
		g := newArgs("Swap")
		g.F["rate"], g.F["pos"] = r.PickF([]float64{0.5, 1, 0.75}), -1
		a := []string{"shuffle", "swap", "-r", ff(g.F["rate"])}
		if r.Chance(0.3) {
			g.F["pos"] = 0.5
			a = append(a, "--pos", "0.5")
		}
		return a, g, nil
	}},
	{"shuffle recomb", false, func(r *gen.Rand, in *input, dir string) ([]string, *args, []string) {
		g := newArgs("Recombine")
		g.F["prop"], g.F["lenprop"], g.B["swap"] = r.PickF([]float64{0.5, 0.25, 0.34}), r.PickF([]float64{0.5, 0.25, 0.1}), r.Bool()
		a := []string{"shuffle", "recomb", "-n", ff(g.F["prop"]), "-l", ff(g.F["lenprop"])}
		if g.B["swap"] {
			a = append(a, "--swap")
		}
		return a, g, nil
	}},
	{"shuffle rogue", false, func(r *gen.Rand, in *input, dir string) ([]string, *args, []string) {
		g := newArgs("SimulateRogue")
		g.F["prop"], g.F["proplen"] = r.PickF([]float64{0.5, 0.25, 0.34}), r.PickF([]float64{0.5, 1, 0.2})
		return []string{"shuffle", "rogue", "-n", ff(g.F["prop"]), "-l", ff(g.F["proplen"]), "--rogue-file", filepath.Join(dir, "rogues.txt")}, g, []string{"rogues.txt"}
	}},
	{"mutate gaps", false, func(r *gen.Rand, in *input, dir string) ([]string, *args, []string) {
		g := newArgs("AddGaps")
		g.F["siteprop"], g.F["seqprop"] = r.PickF([]float64{0.2, 0.5, 0.1}), r.PickF([]float64{0.5, 0.34, 1})
		return []string{"mutate", "gaps", "-r", ff(g.F["siteprop"]), "-n", ff(g.F["seqprop"])}, g, nil
	}},
	{"mutate snvs", true /* >= 24 gap free cells of the index rows, each one left alone or redrawn with probability <= 0.625 */, func(r *gen.Rand, in *input, dir string) ([]string, *args, []string) {
		g := newArgs("Mutate")
		g.F["rate"] = r.PickF([]float64{0.5, 1})
		return []string{"mutate", "snvs", "-r", ff(g.F["rate"])}, g, nil
	}},
	{"sample seqs", true /* 3 rows among 6..9: C(n,3) >= 20 subsets */, func(r *gen.Rand, in *input, dir string) ([]string, *args, []string) {
		g := newArgs("Sample")
		g.I["nb"] = 3
		return []string{"sample", "seqs", "-n", gen.Itoa(g.I["nb"])}, g, nil
	}},
	{"sample sites", true /* unique columns, L >= 31, length <= 10: >= 22 different windows */, func(r *gen.Rand, in *input, dir string) ([]string, *args, []string) {
		g := newArgs("RandSubAlign")
		g.I["length"], g.B["consecutive"] = r.Range(1, 10), true
		return []string{"sample", "sites", "-l", gen.Itoa(g.I["length"])}, g, nil
	}},
	{"sample sites --consecutive=false", true /* unique columns, L >= 31: C(L,length) >= 31 sets */, func(r *gen.Rand, in *input, dir string) ([]string, *args, []string) {
		g := newArgs("RandSubAlign")
		g.I["length"], g.B["consecutive"] = r.Range(1, in.L-1), false
		return []string{"sample", "sites", "-l", gen.Itoa(g.I["length"]), "--consecutive=false"}, g, nil
	}},
	{"sample rarefy", false, func(r *gen.Rand, in *input, dir string) ([]string, *args, []string) {
		g := newArgs("Rarefy")
		g.Counts = map[string]int{}
		var sb strings.Builder
		total := 0
		for i, x := range in.T {
			if i == 1 {
				continue
			}
			v := r.Range(1, 3)
			g.Counts[x.Name] = v
			total += v
			fmt.Fprintf(&sb, "%s\t%d\n", x.Name, v)
		}
		g.I["nb"] = r.Range(1, total-1)
		os.WriteFile(filepath.Join(dir, "counts.txt"), []byte(sb.String()), 0644)
		return []string{"sample", "rarefy", "-n", gen.Itoa(g.I["nb"]), "-c", filepath.Join(dir, "counts.txt")}, g, nil
	}},
	{"build seqboot", true /* unique columns: every position takes >= 31 values */, func(r *gen.Rand, in *input, dir string) ([]string, *args, []string) {
		g := newArgs("BuildBootstrap")
		g.F["frac"] = r.PickF([]float64{1, 1, 0.5, 0.3})
		a := []string{"build", "seqboot", "-n", "3", "-o", filepath.Join(dir, "boot_")}
		if g.F["frac"] != 1 {
			a = append(a, "-f", ff(g.F["frac"]))
		}
		return a, g, []string{"boot_0.fa", "boot_1.fa", "boot_2.fa"}
	}},
	{"build seqboot -S", true, func(r *gen.Rand, in *input, dir string) ([]string, *args, []string) {
		g := newArgs("seqboot -S")
		return []string{"build", "seqboot", "-S", "-n", "2", "-o", filepath.Join(dir, "boot_")}, g, []string{"boot_0.fa", "boot_1.fa"}
	}},
}

const nCli = 28

func parseFasta(b []byte) tab {
	t := tab{}
	for _, ln := range strings.Split(string(b), "\n") {
		ln = strings.TrimRight(ln, "\r")
		if strings.HasPrefix(ln, ">") {
			t = append(t, row{Name: ln[1:]})
		} else if len(t) > 0 {
			t[len(t)-1].Seq += strings.TrimSpace(ln)
		}
	}
	return t
}

type cliRun struct {
	stdout string
	side   map[string]string
	err    error
	stderr string
}

func (x *cliRun) key() string {
	var sb strings.Builder
	sb.WriteString(x.stdout)
	for _, k := range sortedKeysS(x.side) {
		sb.WriteString("\x00" + k + "\x00" + x.side[k])
	}
	return sb.String()
}

func sortedKeysS(m map[string]string) []string {
	ks := []string{}
	for k := range m {
		ks = append(ks, k)
	}
	for i := range ks {
		for j := i + 1; j < len(ks); j++ {
			if ks[j] < ks[i] {
				ks[i], ks[j] = ks[j], ks[i]
			}
		}
	}
	return ks
}

func cliExec(argv []string, seed int64, in string, side []string, dir string) *cliRun {
	for _, s := range side {
		os.Remove(filepath.Join(dir, s))
	}
	full := append(append([]string{}, argv...), "-i", in, "--seed="+strconv.FormatInt(seed, 10))
	cmd := exec.Command(cliBin, full...)
	cmd.Dir = dir
	var so, se bytes.Buffer
	cmd.Stdout, cmd.Stderr = &so, &se
	x := &cliRun{side: map[string]string{}}
	x.err = cmd.Run()
	x.stdout, x.stderr = so.String(), se.String()
	for _, s := range side {
		b, _ := os.ReadFile(filepath.Join(dir, s))
		x.side[s] = string(b)
	}
	return x
}

func lines(s string) []string {
	out := []string{}
	for _, l := range strings.Split(s, "\n") {
		if l != "" {
			out = append(out, l)
		}
	}
	return out
}

func runCli(c *mon.Case) {
	if seedBroken(c) || !cliSetup() {
		return // the floor cli:commands is missed: INCONCLUSIVE, not a violation
	}
	r := c.R
	spec := cliSpecs[c.Idx%len(cliSpecs)]
	// nucleotide alignment, index rows, no comments, plain names
	var in *input
	for {
		in = genReal(r, r.Range(6, 9), r.PickInt([]int{31, 32, 40}), false)
		if in.Indexed {
			break
		}
	}
	for i := range in.T {
		in.T[i].Name, in.T[i].Comment = "s"+gen.Itoa(i), ""
		in.T[i].Seq = strings.Map(func(c rune) rune {
			if c == '.' || c == '*' {
				return 'N'
			}
			return c
		}, in.T[i].Seq)
	}
	in.Alphabet = align.NUCLEOTIDS
	in.GapFree = true
	for _, x := range in.T {
		if strings.Contains(x.Seq, "-") {
			in.GapFree = false
		}
	}
	argv, g, side := spec.mk(r, in, cliDir)
	var fa bytes.Buffer
	for _, x := range in.T {
		fmt.Fprintf(&fa, ">%s\n%s\n", x.Name, x.Seq)
	}
	inPath := filepath.Join(cliDir, "in.fa")
	if err := os.WriteFile(inPath, fa.Bytes(), 0644); err != nil {
		panic("harness: " + err.Error())
	}
	seed := int64(r.Range(0, 1<<30))
	switch r.Intn(4) { // every seed but -1 (documented as "no seed") is a seed: also 0, negative and extreme values
	case 0:
		seed = -2 - int64(r.Range(0, 1<<30))
		c.Count("cli:negative-seed")
	case 1:
		seed = []int64{0, -2, math.MinInt64, math.MaxInt64 - 200000}[r.Intn(4)]
		c.Count("cli:extreme-seed")
	}
	c.Input(map[string]interface{}{"command": strings.Join(argv, " "), "seed": seed, "input": in})
	k := &kase{c: c, in: in, g: g, seed: seed, o: &outcome{}}
	first := cliExec(argv, seed, inPath, side, cliDir)
	if first.err != nil {
		k.fail("cli:command-failed", "goalign %s --seed %d: %v\nstderr: %s", strings.Join(argv, " "), seed, first.err, first.stderr)
		return
	}
	again := cliExec(argv, seed, inPath, side, cliDir)
	if first.key() != again.key() {
		k.fail("cli:replay-differs", "goalign %s --seed %d run twice: outputs differ\nfirst:\n%s\nsecond:\n%s", strings.Join(argv, " "), seed, first.key(), again.key())
	}
	distinct := map[string]bool{first.key(): true}
	nseeds := 5
	if spec.Sens {
		nseeds = 25
	}
	for i := 1; i < nseeds; i++ {
		distinct[cliExec(argv, seed+int64(i)*7919, inPath, side, cliDir).key()] = true
	}
	if spec.Sens && len(distinct) < 2 {
		k.fail("cli:seed-ignored", "goalign %s: 25 different seeds, one single output:\n%s", strings.Join(argv, " "), first.key())
	}
	c.Add("cli:distinct-outputs", len(distinct))
	c.Add("cli:seeds", nseeds)
	c.Count("cli:commands")
	c.Count("cli:" + spec.Name)
	// the oracle of the operation on what the command wrote
	o := &outcome{After: in.T}
	switch g.Op {
	case "ShuffleSequences", "Swap", "Recombine", "AddGaps", "Mutate":
		o.After = parseFasta([]byte(first.stdout))
	case "ShuffleSites":
		o.After = parseFasta([]byte(first.stdout))
		o.L1 = lines(first.side["rogues.txt"])
	case "SimulateRogue":
		o.After = parseFasta([]byte(first.stdout))
		o.L1 = lines(first.side["rogues.txt"])
		for _, x := range in.T { // the command does not print the intact list: complement
			isR := false
			for _, y := range o.L1 {
				isR = isR || y == x.Name
			}
			if !isR {
				o.L2 = append(o.L2, x.Name)
			}
		}
	case "Sample", "RandSubAlign", "Rarefy":
		o.Out = parseFasta([]byte(first.stdout))
		o.HasOut = true
		if len(o.Out) > 0 {
			o.OutLen = len(o.Out[0].Seq)
		}
	case "BuildBootstrap":
		for _, s := range side {
			o2 := &outcome{After: in.T, Out: parseFasta([]byte(first.side[s])), HasOut: true}
			if len(o2.Out) > 0 {
				o2.OutLen = len(o2.Out[0].Seq)
			}
			k.o = o2
			k.check()
		}
		c.NonTrivial(spec.Name, in.T.key(), strings.Join(argv, " "))
		c.Note("%d distinct outputs for %d seeds", len(distinct), nseeds)
		return
	default: // replay only
		c.NonTrivial(spec.Name, in.T.key(), strings.Join(argv, " "))
		c.Note("%d distinct outputs for %d seeds", len(distinct), nseeds)
		return
	}
	k.o = o
	k.check()
	c.NonTrivial(spec.Name, in.T.key(), strings.Join(argv, " "))
	c.Note("%d distinct outputs for %d seeds", len(distinct), nseeds)
}
