// Inputs of the C10 monitor: alignments whose rows and columns are uniquely
// identifiable, so that "which original row / column / cell is this" has one answer.
package main

import (
	"fmt"
	"math/big"
	"sort"
	"strings"

	"github.com/evolbioinfo/goalign/align"

	"verif/lib/gen"
)

// row is one sequence with its comment (Sample, BuildBootstrap, RandSubAlign and Rarefy
// build new containers and have to carry all three).
type row struct {
	Name    string `json:"name"`
	Seq     string `json:"seq"`
	Comment string `json:"comment,omitempty"`
}

type tab []row

func (t tab) names() []string {
	out := make([]string, len(t))
	for i, r := range t {
		out[i] = r.Name
	}
	return out
}

func (t tab) key() string {
	var sb strings.Builder
	for _, r := range t {
		sb.WriteString(r.Name)
		sb.WriteByte(0)
		sb.WriteString(r.Seq)
		sb.WriteByte(1)
		sb.WriteString(r.Comment)
		sb.WriteByte(2)
	}
	return sb.String()
}

func (t tab) show() string {
	var sb strings.Builder
	sb.WriteString("[")
	for i, r := range t {
		if i > 0 {
			sb.WriteString(" ")
		}
		if i >= 16 {
			fmt.Fprintf(&sb, "...(%d rows)", len(t))
			break
		}
		q := r.Seq
		if len(q) > 140 {
			q = q[:140] + "..."
		}
		fmt.Fprintf(&sb, "%q:%s", r.Name, q)
	}
	sb.WriteString("]")
	return sb.String()
}

func eqTab(a, b tab) bool {
	if len(a) != len(b) {
		return false
	}
	for i := range a {
		if a[i] != b[i] {
			return false
		}
	}
	return true
}

// cols returns the columns of a rectangular table of width L.
func (t tab) cols(L int) []string {
	out := make([]string, L)
	b := make([]byte, len(t))
	for j := 0; j < L; j++ {
		for i := range t {
			b[i] = t[i].Seq[j]
		}
		out[j] = string(b)
	}
	return out
}

func sortedStr(s string) string {
	b := []byte(s)
	sort.Slice(b, func(i, j int) bool { return b[i] < b[j] })
	return string(b)
}

func mk(t tab, alphabet int) align.Alignment {
	a := align.NewAlign(alphabet)
	for _, r := range t {
		if err := a.AddSequence(r.Name, r.Seq, r.Comment); err != nil {
			panic("harness: mk: " + err.Error())
		}
	}
	return a
}

func mkBag(t tab, alphabet int) align.SeqBag {
	a := align.NewSeqBag(alphabet)
	for _, r := range t {
		if err := a.AddSequence(r.Name, r.Seq, r.Comment); err != nil {
			panic("harness: mkBag: " + err.Error())
		}
	}
	return a
}

func snap(sb align.SeqBag) tab {
	t := tab{}
	if sb == nil {
		return t
	}
	sb.IterateAll(func(name string, s []uint8, comment string) bool {
		t = append(t, row{name, string(s), comment})
		return false
	})
	return t
}

// symbols: every printable ASCII character that no goalign operation treats specially
// ('-' gap, '.' match, '*' stop, '>' and '?' left out as well).
var symbols = func() string {
	b := []byte{}
	for c := byte(33); c < 127; c++ {
		if strings.IndexByte("-.*>?", c) < 0 {
			b = append(b, c)
		}
	}
	return string(b)
}()

type input struct {
	T        tab    `json:"rows"`
	Alphabet int    `json:"alphabet"`
	Kind     string `json:"kind"` // cells | latin | nt | aa
	N        int    `json:"n"`
	L        int    `json:"L"`
	Distinct bool   `json:"distinct_cells_per_row_and_column"` // every row and every column holds pairwise distinct symbols
	GapFree  bool   `json:"gap_free"`
	Indexed  bool   `json:"index_rows"` // last rows spell the column index
}

func (in *input) align() align.Alignment { return mk(in.T, in.Alphabet) }

var nPool = []int{1, 2, 2, 3, 3, 4, 4, 5, 5, 6, 7, 8, 9, 10, 12, 16, 20, 25, 40}
var lPoolSmall = []int{1, 2, 2, 3, 3, 4, 4, 5, 5, 6, 7, 8, 9, 10, 11, 12, 15, 16, 17, 20, 24, 31, 32, 33, 50, 64, 89}
var lPoolReal = []int{1, 2, 3, 4, 5, 6, 8, 10, 12, 16, 20, 30, 31, 32, 33, 50, 60, 64, 65, 100, 128, 150, 300}

func names(r *gen.Rand, n int) []string { return gen.UniqueNames(r, n, r.Chance(0.3)) }

func comment(r *gen.Rand, i int) string {
	if r.Chance(0.3) {
		return "c" + gen.Itoa(i)
	}
	return ""
}

// genEncoded: "cells" (all n*L symbols distinct) or "latin" (cell(i,j)=sym[(pr[i]+pc[j]) mod K],
// pr and pc injective: symbols pairwise distinct inside every row and every column, hence rows and
// columns pairwise different at every position).
func genEncoded(r *gen.Rand, n, L int) *input {
	K := len(symbols)
	if n > K {
		n = K
	}
	if L > K {
		L = K
	}
	in := &input{Alphabet: r.PickInt([]int{align.AMINOACIDS, align.NUCLEOTIDS, align.UNKNOWN}), N: n, L: L, Distinct: true, GapFree: true}
	nm := names(r, n)
	in.T = make(tab, n)
	perm := r.Perm(K)
	if n*L <= K && r.Chance(0.5) {
		in.Kind = "cells"
		for i := 0; i < n; i++ {
			b := make([]byte, L)
			for j := range b {
				b[j] = symbols[perm[i*L+j]]
			}
			in.T[i] = row{nm[i], string(b), comment(r, i)}
		}
		return in
	}
	in.Kind = "latin"
	pr, pc := r.Perm(K), r.Perm(K)
	for i := 0; i < n; i++ {
		b := make([]byte, L)
		for j := range b {
			b[j] = symbols[perm[(pr[i]+pc[j])%K]]
		}
		in.T[i] = row{nm[i], string(b), comment(r, i)}
	}
	return in
}

// genReal: nucleotide or protein residues (IUPAC, both cases, gaps, '.', '*'), optionally with rows
// that spell the column index in base 4 / 20 so that every column is unique.
func genReal(r *gen.Rand, n, L int, aa bool) *input {
	in := &input{Alphabet: align.NUCLEOTIDS, Kind: "nt", N: n, L: L}
	digits, mix := gen.NtCore, gen.NtAlphabet(r)
	if aa {
		in.Alphabet, in.Kind = align.AMINOACIDS, "aa"
		digits, mix = gen.AaCore, gen.AaAlphabet(r)
	}
	switch r.Intn(5) {
	case 0:
		mix = strings.ReplaceAll(mix, "-", "")
	case 1:
		mix += ".*"
	case 2:
		mix += "----"
	}
	nm := names(r, n)
	in.T = make(tab, n)
	nidx := 0
	if r.Bool() {
		for w := 1; w < L; w *= len(digits) {
			nidx++
		}
		if nidx == 0 {
			nidx = 1
		}
		if nidx > n {
			nidx = 0
		}
	}
	in.Indexed = nidx > 0
	for i := 0; i < n; i++ {
		b := make([]byte, L)
		if i >= n-nidx {
			d := i - (n - nidx)
			for j := range b {
				v := j
				for k := 0; k < d; k++ {
					v /= len(digits)
				}
				b[j] = digits[v%len(digits)]
			}
		} else {
			switch r.Intn(8) {
			case 0:
				for j := range b {
					b[j] = '-'
				}
			case 1:
				b = r.Bytes(L, digits)
			default:
				b = r.Bytes(L, mix)
			}
		}
		in.T[i] = row{nm[i], string(b), comment(r, i)}
	}
	in.GapFree = true
	for _, x := range in.T {
		if strings.IndexByte(x.Seq, '-') >= 0 {
			in.GapFree = false
		}
	}
	return in
}

func genInput(r *gen.Rand, needReal bool) *input {
	n := r.PickInt(nPool)
	if needReal || r.Chance(0.35) {
		return genReal(r, n, r.PickInt(lPoolReal), r.Chance(0.4))
	}
	return genEncoded(r, n, r.PickInt(lPoolSmall))
}

// prodFloor: the admissible values of "floor(f*n)": the floor of the exact product of the float f
// with n, and the integer part of the IEEE product (the two differ when f is the nearest float
// below k/n: 0.7*10). lo <= hi.
func prodFloor(f float64, n int) (lo, hi int) {
	fl := int(f * float64(n))
	q := new(big.Rat).SetFloat64(f)
	if q == nil {
		return fl, fl
	}
	q.Mul(q, new(big.Rat).SetInt64(int64(n)))
	e := new(big.Int).Div(q.Num(), q.Denom())
	ex := int(e.Int64())
	lo, hi = ex, ex
	if fl < lo {
		lo = fl
	}
	if fl > hi {
		hi = fl
	}
	return
}

// genProp: proportions in and at the borders of [0,max].
func genProp(r *gen.Rand, n int, max float64) float64 {
	var p float64
	switch r.Intn(10) {
	case 0:
		p = 0
	case 1:
		p = max
	case 2:
		p = r.PickF([]float64{0.5, 0.25, 0.75, 0.125, 0.1, 0.3, 0.34, 0.67, 0.9, 0.2, 0.4})
	case 3:
		p = float64(r.Range(0, n)) / float64(n) // exactly k/n: the product sits on an integer
	case 4:
		p = float64(r.Range(0, 64)) / 64
	case 5:
		p = r.PickF([]float64{1e-9, 1e-3, 0.999999, 0.4999999, 0.5000001})
	case 6:
		p = (float64(r.Range(0, n)) + 0.5) / float64(n)
	default:
		p = r.Float()
	}
	if p > 1 {
		p = 1
	}
	if p > max {
		p = p * max
	}
	return p
}

var outOfDomain = []float64{-0.1, -1, -1e-9, 1.0000001, 1.1, 2, 17}
