// C07 monitor: every entry of goalign's nucleotide distance matrices against an
// independent implementation of the published estimators, plus matrix sanity.
package main

import (
	"fmt"
	"math"
	"strings"

	"github.com/evolbioinfo/goalign/align"
	"github.com/evolbioinfo/goalign/distance/dna"

	"verif/lib/conc"
	"verif/lib/gen"
	"verif/lib/h"
	"verif/lib/mon"
	"verif/lib/ref"
)

var models = []string{"rawdist", "pdist", "jc", "k2p", "f81", "f84", "tn93"}

// mkModel builds goalign's model for an option set.
func mkModel(o ref.NtOpts) (dna.DistModel, error) {
	m, err := dna.Model(o.Model, o.RmGaps)
	if err != nil {
		return nil, err
	}
	switch mm := m.(type) {
	case *dna.PDistModel:
		if err = mm.SetCountGapMutations(o.GapMut); err != nil {
			return nil, err
		}
		mm.SetRemoveAmbiguous(o.RmAmbig)
	case *dna.RawDistModel:
		if err = mm.SetCountGapMutations(o.GapMut); err != nil {
			return nil, err
		}
	}
	return m, nil
}

func mutateSeq(r *gen.Rand, s string, rate float64, alphabet string) string {
	b := []byte(s)
	for i := range b {
		if r.Chance(rate) {
			c := alphabet[r.Intn(len(alphabet))]
			for rate >= 0.999 && c == b[i] {
				c = alphabet[r.Intn(len(alphabet))]
			}
			b[i] = c
		}
	}
	return string(b)
}

func addGapRuns(r *gen.Rand, s string) string {
	b := []byte(s)
	L := len(b)
	if L == 0 {
		return s
	}
	if r.Chance(0.4) { // leading
		for i, n := 0, r.Range(1, 1+L/4); i < n && i < L; i++ {
			b[i] = '-'
		}
	}
	if r.Chance(0.4) { // trailing
		for i, n := 0, r.Range(1, 1+L/4); i < n && i < L; i++ {
			b[L-1-i] = '-'
		}
	}
	if r.Chance(0.5) { // internal run
		st := r.Intn(L)
		for i, n := 0, r.Range(1, 1+L/5); i < n && st+i < L; i++ {
			b[st+i] = '-'
		}
	}
	return string(b)
}

// genAlignment returns rows covering the pair classes of the property.
func genAlignment(r *gen.Rand) (rows []string, class string) {
	n := r.Range(2, 7)
	L := r.PickInt([]int{1, 2, 3, 4, 5, 8, 10, 12, 16, 20, 30, 40, 60, 90, 120})
	mixes := []string{"ACGT", "ACGT", "ACGTACGTACGTN", "ACGTACGTRYSWKMBDHVN", "ACGTacgt", "ACGTACGTACGT*X.", "AACCGT", "AG", "ACGTACGTACGTRYn"}
	alpha := mixes[r.Intn(len(mixes))]
	base := r.Str(L, alpha)
	rows = make([]string, n)
	rows[0] = base
	rates := []float64{0, 0.02, 0.1, 0.3, 0.6, 0.75, 0.9, 1.0}
	classes := []string{"identical", "close", "close", "medium", "far", "near-saturation", "saturated", "all-different"}
	k := r.Intn(len(rates))
	class = classes[k]
	for i := 1; i < n; i++ {
		rate := rates[k]
		if r.Chance(0.3) {
			rate = rates[r.Intn(len(rates))]
		}
		src := base
		if r.Chance(0.3) {
			src = rows[r.Intn(i)]
		}
		rows[i] = mutateSeq(r, src, rate, "ACGT")
		if rate == 0 && alpha != "ACGT" && r.Bool() {
			rows[i] = src
		}
	}
	if L%4 == 0 && r.Chance(0.12) {
		// two rows at exactly 3/4 differences (infinite raw JC69 distance)
		a := r.Str(L, "ACGT")
		i, j := r.Intn(n), r.Intn(n)
		if i != j {
			rows[i], rows[j] = a, exactlySaturated(r, a)
			class += "+exactly-3/4"
		}
	}
	gaps := r.Intn(4)
	if gaps >= 2 {
		for i := range rows {
			if r.Chance(0.6) {
				rows[i] = addGapRuns(r, rows[i])
			}
		}
		class += "+gaps"
	}
	if gaps == 3 && r.Bool() { // a pair without any comparable site
		a, b := []byte(rows[0]), []byte(rows[1])
		for j := 0; j < L; j++ {
			if j%2 == 0 {
				a[j] = '-'
			} else {
				b[j] = '-'
			}
		}
		rows[0], rows[1] = string(a), string(b)
		class += "+no-comparable-site"
	}
	return
}

// exactlySaturated returns a copy of s (over ACGT) in which exactly three positions out of four hold another
// nucleotide: the observed proportion of differences is exactly 3/4, where the JC69 logarithm is log(0)
// (an infinite, not a NaN, raw distance).
func exactlySaturated(r *gen.Rand, s string) string {
	b := []byte(s)
	p := r.Perm(len(b))
	for _, j := range p[:3*len(b)/4] {
		for {
			ch := "ACGT"[r.Intn(4)]
			if ch != b[j] {
				b[j] = ch
				break
			}
		}
	}
	return string(b)
}

func genOpts(r *gen.Rand, L int) ref.NtOpts {
	o := ref.NtOpts{Model: models[r.Intn(len(models))]}
	if r.Chance(0.4) {
		o.Gamma = true
		o.Alpha = r.PickF([]float64{0.3, 0.5, 0.7, 1, 2.5})
	}
	o.RmGaps = r.Chance(0.3)
	if o.Model == "pdist" || o.Model == "rawdist" {
		o.GapMut = r.Intn(3)
	}
	if o.Model == "pdist" {
		o.RmAmbig = r.Chance(0.4)
	}
	switch r.Intn(4) {
	case 1:
		o.Weights = make([]float64, L)
		for i := range o.Weights {
			o.Weights[i] = 1
		}
	case 2:
		o.Weights = make([]float64, L)
		for i := range o.Weights {
			o.Weights[i] = float64(r.Range(1, 12)) / 4
		}
	}
	return o
}

var readings = []ref.Reading{{RmGapsStrict: true, FreqWithGaps: true}, {RmGapsStrict: true, FreqWithGaps: false}, {RmGapsStrict: false, FreqWithGaps: true}, {RmGapsStrict: false, FreqWithGaps: false}}

func isUndefinedMark(v float64) bool { return math.IsNaN(v) || math.IsInf(v, 0) }

// checkMatrix compares a matrix with the oracle; pairs lists the pairs that had to be computed (nil = all).
func checkMatrix(c *mon.Case, rows []string, o ref.NtOpts, mat [][]float64, computed func(i, j int) bool, tag string) {
	n := len(rows)
	fail := func(sig, format string, a ...interface{}) {
		c.Failf(o.Model+":"+sig, "%s model=%s gamma=%v alpha=%v rmgaps=%v gapmut=%d rmambig=%v weights=%v\nrows=%q\n%s", tag, o.Model, o.Gamma, o.Alpha, o.RmGaps, o.GapMut, o.RmAmbig, o.Weights, rows, fmt.Sprintf(format, a...))
	}
	if len(mat) != n {
		fail("shape", "matrix has %d rows for %d sequences", len(mat), n)
		return
	}
	for i := 0; i < n; i++ {
		if len(mat[i]) != n {
			fail("shape", "row %d has %d entries", i, len(mat[i]))
			return
		}
		if mat[i][i] != 0 {
			fail("diagonal", "entry (%d,%d) = %v", i, i, mat[i][i])
			return
		}
		for j := 0; j < n; j++ {
			if math.Float64bits(mat[i][j]) != math.Float64bits(mat[j][i]) && !(math.IsNaN(mat[i][j]) && math.IsNaN(mat[j][i])) {
				fail("asymmetric", "entry (%d,%d)=%v but (%d,%d)=%v", i, j, mat[i][j], j, i, mat[j][i])
				return
			}
		}
	}
	// the oracle must match under one single reading for the whole matrix
	var firstMsg, firstSig string
	for ri, rd := range readings {
		msg, sig := "", ""
		// largest defined entry (what the substitution mechanism may use)
		max := 0.0
		type ent struct {
			i, j int
			p    ref.NtPair
		}
		var ents []ent
		for i := 0; i < n; i++ {
			for j := i + 1; j < n; j++ {
				if computed != nil && !computed(i, j) {
					if mat[i][j] != 0 {
						msg, sig = fmt.Sprintf("pair (%d,%d) is outside the requested ranges but holds %v", i, j, mat[i][j]), "range-extra"
					}
					continue
				}
				p := ref.NtDistPair(rows, i, j, o, rd)
				ents = append(ents, ent{i, j, p})
				if p.Defined && !p.IllConditioned() && p.Value > max && p.Value <= 100000 {
					max = p.Value
				}
			}
		}
		for _, e := range ents {
			if msg != "" {
				break
			}
			got := mat[e.i][e.j]
			p := e.p
			if p.NoDiff && !p.Defined {
				// no counted difference but degenerate base frequencies (e.g. purines only): "no counted
				// difference => distance 0" and "undefined estimator" both apply; either report is accepted
				if !(isUndefinedMark(got) || math.Abs(got) <= 1e-12 || (max > 0 && ref.Close(got, 2*max, 1e-9, 0))) {
					msg, sig = fmt.Sprintf("pair (%d,%d) has no counted difference (estimator degenerate) but matrix holds %v", e.i, e.j, got), "nodiff-nonzero"
				}
			} else if p.IllConditioned() || (p.Defined && p.Value < 0) {
				// ill-conditioned (a logarithm argument within rounding of 0), beyond goalign's documented
				// "not computable" threshold, or negative by the formula itself (strongly skewed composition):
				// the value, 0 for a negative one, or the undefined marks
				// beyond goalign's documented "not computable" threshold: the value itself or the undefined marks
				if !(isUndefinedMark(got) || (p.Defined && ref.Close(got, p.Value, 1e-6, 0)) || (max > 0 && ref.Close(got, 2*max, 1e-9, 0)) || (p.Defined && p.Value < 0 && got == 0) || (p.IllConditioned() && got > 0 && !(got < p.P))) {
					msg, sig = fmt.Sprintf("pair (%d,%d): estimator %v (ill-conditioned / over the not-computable threshold / negative) but matrix holds %v (largest defined entry %v)", e.i, e.j, p.Value, got, max), "illconditioned-as-small"
				}
			} else if p.Defined {
				if !ref.Close(got, p.Value, 1e-9, 1e-12) {
					msg, sig = fmt.Sprintf("pair (%d,%d): matrix %v, estimator %v (reading %+v)", e.i, e.j, got, p.Value, rd), "value"
				} else if p.NoDiff && math.Abs(got) > 1e-12 {
					msg, sig = fmt.Sprintf("pair (%d,%d) has no counted difference but distance %v", e.i, e.j, got), "nodiff-nonzero"
				} else if p.Corrected && !isUndefinedMark(got) && !math.IsNaN(p.P) && got < p.P-1e-12 {
					msg, sig = fmt.Sprintf("pair (%d,%d): corrected distance %v below observed proportion %v", e.i, e.j, got, p.P), "below-p"
				}
			} else {
				// undefined estimator: NaN, +-Inf or exactly 2*max of the defined entries, and never small / zero / negative
				okSub := max > 0 && ref.Close(got, 2*max, 1e-9, 0)
				if !(isUndefinedMark(got) || okSub) {
					msg, sig = fmt.Sprintf("pair (%d,%d): estimator undefined (comparable weight %v) but matrix holds %v (largest defined entry %v)", e.i, e.j, p.Comp, got, max), "undefined-as-finite"
				}
			}
		}
		if msg == "" {
			c.Count(fmt.Sprintf("reading-matched:%d", ri))
			return
		}
		if firstMsg == "" {
			firstMsg, firstSig = msg, sig
		}
	}
	fail(firstSig, "%s", firstMsg)
}

func runMatrix(c *mon.Case) {
	r := c.R
	rows, class := genAlignment(r)
	L := len(rows[0])
	o := genOpts(r, L)
	grows := make(gen.Rows, len(rows))
	for i, s := range rows {
		grows[i] = gen.Seq{Name: "s" + gen.Itoa(i), Seq: s}
	}
	al := h.MkAlign(grows, align.NUCLEOTIDS)
	m, err := mkModel(o)
	if err != nil {
		c.Failf("model-construction", "%v", err)
		return
	}
	// ranges
	r1a, r1b, r2a, r2b := -1, -1, -1, -1
	n := len(rows)
	var computed func(i, j int) bool
	rangeKind := "none"
	if r.Chance(0.3) {
		r1a = r.Intn(n)
		r1b = r.Range(r1a, n+1) // may exceed n-1: clipped by the documentation
		r2a = r.Intn(n)
		r2b = r.Range(r2a, n+1)
		c1b, c2b := r1b, r2b
		if c1b > n-1 {
			c1b = n - 1
		}
		if c2b > n-1 {
			c2b = n - 1
		}
		a1, a2 := r1a, r2a
		computed = func(i, j int) bool {
			in := func(x, lo, hi int) bool { return x >= lo && x <= hi }
			return (in(i, a1, c1b) && in(j, a2, c2b)) || (in(j, a1, c1b) && in(i, a2, c2b))
		}
		rangeKind = "ranges"
	}
	c.Input(map[string]interface{}{"rows": rows, "opts": o, "class": class, "ranges": []int{r1a, r1b, r2a, r2b}})
	cpus := r.PickInt([]int{1, 1, 2, 4})
	mat, err := dna.DistMatrix(al, o.Weights, m, r1a, r1b, r2a, r2b, o.Gamma, o.Alpha, cpus)
	if err != nil {
		c.Failf(o.Model+":unexpected-error", "DistMatrix: %v rows=%q opts=%+v", err, rows, o)
		return
	}
	c.Count("model:" + o.Model)
	c.Count("class:" + class)
	c.Count("ranges:" + rangeKind)
	if o.Gamma {
		c.Count("gamma")
	}
	if o.RmGaps {
		c.Count("rmgaps")
	}
	if o.Weights != nil {
		c.Count("weights")
	}
	c.Count(fmt.Sprintf("gapmut:%d", o.GapMut))
	checkMatrix(c, rows, o, mat, computed, "DistMatrix")
	nonACGT := strings.Trim(strings.Join(rows, ""), "ACGT") != ""
	differ := false
	for i := 1; i < len(rows); i++ {
		if rows[i] != rows[0] {
			differ = true
		}
	}
	if differ && (nonACGT || o.Gamma || o.RmGaps || o.GapMut != 0 || o.RmAmbig || o.Weights != nil || computed != nil) {
		c.NonTrivial(strings.Join(rows, "/"), fmt.Sprintf("%+v", o), rangeKind)
	}
	c.Note("class=%s matrix[0][1]=%v", class, mat[0][1])

	// direct Distance on the encoded rows for defined pairs
	m2, _ := mkModel(o)
	if err := m2.InitModel(al, o.Weights, o.Gamma, o.Alpha); err != nil {
		c.Failf(o.Model+":unexpected-error", "InitModel: %v", err)
		return
	}
	i, j := 0, r.Range(1, n-1)
	s1, e1 := m2.Sequence(i)
	s2, e2 := m2.Sequence(j)
	if e1 != nil || e2 != nil {
		c.Failf(o.Model+":unexpected-error", "Sequence: %v %v", e1, e2)
		return
	}
	d, err := m2.Distance(s1, s2, o.Weights)
	if err != nil {
		c.Failf(o.Model+":unexpected-error", "Distance: %v", err)
		return
	}
	ok := false
	var exp ref.NtPair
	for _, rd := range readings {
		exp = ref.NtDistPair(rows, i, j, o, rd)
		if (exp.Defined && ref.Close(d, exp.Value, 1e-9, 1e-12)) || (exp.NoDiff && !exp.Defined && (isUndefinedMark(d) || math.Abs(d) <= 1e-12)) || (!exp.Defined && (isUndefinedMark(d) || o.Model == "rawdist")) ||
			((exp.IllConditioned() || (exp.Defined && exp.Value < 0)) && (isUndefinedMark(d) || (exp.IllConditioned() && d > 0 && !(d < exp.P)) || (exp.Defined && exp.Value < 0 && d <= 0))) {
			ok = true
			break
		}
	}
	if !ok {
		sig := "direct-value"
		if !exp.Defined {
			sig = "direct-undefined-as-finite"
		}
		c.Failf(o.Model+":"+sig, "Distance(row %d,row %d)=%v, estimator %v (defined=%v) opts=%+v rows=%q", i, j, d, exp.Value, exp.Defined, o, rows)
	}
	if _, err := m2.Sequence(n); err == nil {
		c.Failf(o.Model+":sequence-out-of-range", "Sequence(%d) of %d rows succeeded", n, n)
	}
	if _, err := m2.Sequence(-1); err == nil {
		c.Failf(o.Model+":sequence-out-of-range", "Sequence(-1) succeeded")
	}
}

// runReuse: one model object serves several alignments in a row (what `compute distance` does on a multi
// alignment input and `build distboot` for every replicate): each matrix must still be the estimator's.
func runReuse(c *mon.Case) {
	r := c.R
	o := ref.NtOpts{Model: models[r.Intn(len(models))]}
	if r.Chance(0.4) {
		o.Gamma, o.Alpha = true, r.PickF([]float64{0.5, 1, 2.5})
	}
	o.RmGaps = r.Chance(0.3)
	m, err := mkModel(o)
	if err != nil {
		c.Failf("model-construction", "%v", err)
		return
	}
	k := r.Range(2, 4)
	var all [][]string
	for a := 0; a < k; a++ {
		rows, _ := genAlignment(r)
		all = append(all, rows)
	}
	if r.Chance(0.3) {
		all = append(all, all[0]) // and back to the first alignment
	}
	c.Input(map[string]interface{}{"alignments": all, "opts": o})
	for a, rows := range all {
		grows := make(gen.Rows, len(rows))
		for i, s := range rows {
			grows[i] = gen.Seq{Name: "s" + gen.Itoa(i), Seq: s}
		}
		al := h.MkAlign(grows, align.NUCLEOTIDS)
		if a > 0 && r.Chance(0.5) {
			// gamma and alpha are arguments of every DistMatrix call: the same object serves another setting
			// (gamma on -> off, off -> on, another alpha)
			was := o.Gamma
			o.Gamma, o.Alpha = false, 0
			if !was || r.Chance(0.4) {
				o.Gamma, o.Alpha = true, r.PickF([]float64{0.5, 1, 2.5, 0.7})
			}
			c.Count(fmt.Sprintf("reuse:gamma-%v-then-%v", was, o.Gamma))
		}
		mat, err := dna.DistMatrix(al, nil, m, -1, -1, -1, -1, o.Gamma, o.Alpha, r.PickInt([]int{1, 2, 4}))
		if err != nil {
			c.Failf(o.Model+":unexpected-error", "DistMatrix on alignment %d of a re-used model: %v", a, err)
			return
		}
		checkMatrix(c, rows, o, mat, nil, fmt.Sprintf("re-used model object, alignment %d of %d (gamma=%v alpha=%v)", a+1, len(all), o.Gamma, o.Alpha))
		if c.Failed() {
			return
		}
	}
	c.Count("reuse:" + o.Model)
	c.NonTrivial(fmt.Sprintf("%v", all), fmt.Sprintf("%+v", o))
}

// fixed witnesses of the defects found on the pinned tree
func runWitness(c *mon.Case) {
	type w struct {
		rows []string
		o    ref.NtOpts
	}
	ws := []w{
		{[]string{"AAAAAAAAAA", "CCCCCCCCCC", "AAAAAAAAAC"}, ref.NtOpts{Model: "jc"}},
		{[]string{"AAAAAAAAAA", "CCCCCCCCCC", "AAAAAAAAAC"}, ref.NtOpts{Model: "f81"}},
		{[]string{"ACGTACGTAA", "CATGCATGCC", "ACGTACGTAC"}, ref.NtOpts{Model: "tn93"}},
		{[]string{"A-A-A-A-", "-C-C-C-C", "ACACACAC"}, ref.NtOpts{Model: "jc"}},
		{[]string{"ACGTACGT", "ACGTTCGT", "ACGT-CGT"}, ref.NtOpts{Model: "rawdist", RmGaps: true, GapMut: 1}},
		{[]string{"ACGTACGT", "ACGTTCGT", "ACGT-CGT"}, ref.NtOpts{Model: "pdist", RmGaps: true, GapMut: 1}},
		{[]string{"ACGTACGTACGTACGT", "ACGTACGTACGTACGT", "ACGTACGAACGTTCGT", "TCGAACGAACGTTCGA"}, ref.NtOpts{Model: "f84", Gamma: true, Alpha: 0.7}},
		{[]string{"GTCAGTCAGTCAGTCA", "GTCAGTCAGTCAGTCA", "GTCAGTCAACGTTCGT", "TCGAACGAACGTTCGA"}, ref.NtOpts{Model: "f84", Gamma: true, Alpha: 0.3}},
		{[]string{"AAAAAAAAAA", "CCCCCCCCCC"}, ref.NtOpts{Model: "k2p"}},
		{[]string{"ACTC", "CCAC"}, ref.NtOpts{Model: "k2p"}},
		{[]string{"AAAAAAAAAAAA", "AAAAAAAAACCC", "AAAAAAAAAAAA"}, ref.NtOpts{Model: "jc", Gamma: true, Alpha: 1}},
		{[]string{"AAAAAAAAAA", "CCCCCCCCCC", "AAAAAAAAAC"}, ref.NtOpts{Model: "k2p", Gamma: true, Alpha: 0.5}},
		// known finding: F84 below the observed proportion on a purine-only composition
		{[]string{"GAAAAAGGGGAGGGG------------GAGAGGGAGAAGAGGGAGAAGAGGAAAGAGGGA", "GAAAAAGGGGAGGGGAAAGCGAAGCGAGAGAGGGAGAAGAGGGAGAAGAGGAAGGAGGGA", "GCCAAAAGGGAGGGGAAAGAGAAGAGAGAGAGGGAGAAGAGGGAGA--------------", "GAAAAAGGGGAGGGGAAAGAGAAGAGAGAGAGGGAGAAGAGGGAGAAGAGGAACGAGGGA", "GAAAAAGGGGAGGGGAAAGAGAAGAGAGAGAGGCAGAAGAGGGAGCAGGGGAAAGAGG--"}, ref.NtOpts{Model: "f84"}},
	}
	x := ws[c.Idx%len(ws)]
	c.Input(map[string]interface{}{"rows": x.rows, "opts": x.o})
	grows := make(gen.Rows, len(x.rows))
	for i, s := range x.rows {
		grows[i] = gen.Seq{Name: "s" + gen.Itoa(i), Seq: s}
	}
	al := h.MkAlign(grows, align.NUCLEOTIDS)
	m, _ := mkModel(x.o)
	mat, err := dna.DistMatrix(al, nil, m, -1, -1, -1, -1, x.o.Gamma, x.o.Alpha, 1)
	if err != nil {
		c.Failf(x.o.Model+":unexpected-error", "%v", err)
		return
	}
	checkMatrix(c, x.rows, x.o, mat, nil, "witness")
	c.NonTrivial(strings.Join(x.rows, "/"), fmt.Sprintf("%+v", x.o))
}

func main() {
	mon.SetNote("rule", "case = random nucleotide alignment (2..7 rows x 1..120 columns; residue mixes ACGT / +N / +all IUPAC / mixed case / + * X . ; rows are mutated copies at rates 0..1 so that identical, close, near-saturated, saturated and no-comparable-site pairs occur; leading/trailing/internal gap runs) x random option set (7 models x gamma/alpha x rm-gaps x gap-mut 0/1/2 x rm-ambiguous x weights nil/unit/random x optional sequence ranges x cpus), checked entry by entry against an independent implementation of the published estimators plus symmetry, zero diagonal, d=0 without counted difference, d>=p and the undefined-pair rule; the direct Distance call is checked on one pair; `reuse`: one model object computes 2..5 alignments of different composition in a row, with gamma switched on / off / to another alpha between the calls, each matrix checked the same way. Non-trivial = rows differ and (a non ACGT symbol or a non default option); distinct = (rows, options). `cli`: the same oracle through the binary built from the tree under test: `goalign compute distance` on 1..3 alignments written as FASTA / Phylip relaxed and strict (several alignments in one file: one matrix per alignment) / --auto-detect / Nexus / Clustal / Stockholm, with -m (each model and the default), --alpha, -r, --gap-mut 0/1/2, --rm-ambiguous, --range1/--range2 (equal and different bounds, clipped upper bounds), -t, -o or stdout, --alphabet; the matrices written are parsed and given to checkMatrix, and their text is compared with dna.DistMatrix on the same input (one model object over the alignments) printed with 12 decimals; -a is run a second time and compared with the mean of the matrix written without it; requests that cannot be served (unknown model / flag, malformed or inverted ranges, missing file) must end with an error message and a non zero status, never with a crash; every third case runs `goalign build distboot` (-m, --alpha, -r, -f, -n, --seed, -t, first alignment of several): the replicates are rebuilt here with rand.Seed(seed) + BuildBootstrap(frac) and every written matrix is checked on its replicate the same way.")
	mon.SetNote("assumptions", "estimator formulas typed from the literature (JC69, K80, F81, F84 as in PHYLIP, TN93 and their gamma versions) in lib/ref/ntdist.go;; open corners accepted in every reading: rm-gaps dropping columns with '-' only or with any non A/C/G/T symbol; base frequencies normalised over nucleotides only or over all characters of the selected columns (one reading must explain the whole matrix);; relative tolerance 1e-9;; '?' and U are rejected by the models with an explicit error and are not generated;; cli: the distances are written with 12 decimals (documented example), the tolerances of checkMatrix (1e-9 relative, 1e-12 absolute) absorb the rounding;; cli: flags documented as 'only available for' other models (--gap-mut, --rm-ambiguous on jc...tn93), --alphabet aa, an invalid --gap-mut value and a single one of --range1 / --range2 may be refused or served (served = flag ignored, nothing compared for the last two);; cli -a: the mean over all the pairs of the matrix or, with ranges, over the pairs of the ranges only (help text: 'all pairs'), NaN entries left out;; cli distboot: `build seqboot --seed S` and `build distboot --seed S` draw the replicates that math/rand seeded with S and Alignment.BuildBootstrap give in the monitor process (go.mod go 1.21.6: rand.Seed is effective); checked once per process against the files written by build seqboot, otherwise the distboot values are not compared and the floors are missed;; cli distboot without --seed: number, shape and labels of the matrices only")
	for _, m := range models {
		mon.Floor("model:"+m, 100)
	}
	mon.Floor("ranges:ranges", 100)
	for _, m := range models {
		mon.Floor("reuse:"+m, 100)
	}
	mon.Floor("reuse:gamma-true-then-false", 300)
	mon.Floor("reuse:gamma-false-then-true", 300)
	mon.Floor("gamma", 100)
	mon.Floor("rmgaps", 100)
	mon.Floor("weights", 100)
	mon.Floor("gapmut:1", 50)
	mon.Floor("gapmut:2", 50)
	// cli sub-check: every model name (and the omitted -m), every input mode, every flag
	for _, m := range models {
		mon.Floor("cli:model-flag:"+m, 20)
		mon.Floor("cli:model:"+m, 10)
	}
	mon.Floor("cli:model-flag:<default>", 20)
	for _, f := range []string{"fasta", "phylip", "phylip-strict", "auto-fasta", "auto-phylip", "nexus", "clustal", "stockholm"} {
		mon.Floor("cli:format:"+f, 8)
	}
	for _, k := range cliRefusals {
		mon.Floor("cli:refusal:"+k, 4)
	}
	mon.Floor("cli:matrices-checked", 200)
	mon.Floor("cli:several-alignments", 40)
	mon.Floor("cli:ranges:equal-bounds", 5)
	mon.Floor("cli:ranges:different-bounds", 30)
	mon.Floor("cli:alpha", 40)
	mon.Floor("cli:rm-gaps", 30)
	mon.Floor("cli:rm-ambiguous", 5)
	mon.Floor("cli:gap-mut:1", 8)
	mon.Floor("cli:gap-mut:2", 8)
	mon.Floor("cli:average", 25)
	mon.Floor("cli:output:stdout", 30)
	mon.Floor("cli:output:file", 80)
	mon.Floor("cli:threads:default", 40)
	mon.Floor("cli:threads:4", 8)
	mon.Floor("cli:alphabet:nt", 20)
	for _, m := range bootModels {
		mon.Floor("cli:distboot:model-flag:"+m, 8)
	}
	for _, f := range []string{"fasta", "phylip", "phylip-strict", "auto-fasta", "auto-phylip"} {
		mon.Floor("cli:distboot:format:"+f, 8)
	}
	for _, k := range bootRefusals {
		mon.Floor("cli:distboot:refusal:"+k, 2)
	}
	mon.Floor("cli:distboot:matrices-checked", 150)
	mon.Floor("cli:distboot:alpha", 25)
	mon.Floor("cli:distboot:rm-gaps", 25)
	mon.Floor("cli:distboot:threads", 25)
	mon.Floor("cli:distboot:nboot-default", 10)
	mon.Floor("cli:distboot:nboot:3", 10)
	mon.Floor("cli:distboot:frac-default", 25)
	mon.Floor("cli:distboot:frac:0.5", 8)
	mon.Floor("cli:distboot:no-seed", 8)
	mon.Floor("cli:distboot:first-alignment-of-several", 15)
	mon.Floor("concurrent:calls", 500)
	mon.Main("C07", []mon.Sub{
		{Name: "witness", Quick: 13, Thorough: 13, Run: runWitness},
		{Name: "matrix", Quick: 300000, Thorough: 6000000, Run: runMatrix},
		{Name: "reuse", Quick: 60000, Thorough: 1200000, Run: runReuse},
		{Name: "concurrent", Quick: 64, Thorough: 1200, Race: true, Run: func(c *mon.Case) { conc.Run(c, "ntdist") }},
		{Name: "cli", Quick: 480, Thorough: 6000, Run: runCli},
	})
}
