// cli sub-check of C07: the same estimators through `goalign compute distance` (cmd/computedist.go).
// The binary is built once per process from the tree under test (VERIF_REPO) into the scratch
// directory; every case works in its own directory: it writes 1..3 alignments (FASTA, Phylip relaxed
// or strict with several alignments in one file, --auto-detect, Nexus / Clustal / Stockholm), draws a
// documented flag combination (-m, --alpha, -r, --gap-mut, --rm-ambiguous, --range1/--range2, -t, -a,
// -o or stdout, --alphabet), runs the command, parses the matrices written ("n" then n lines
// name<TAB>d...) and hands every matrix to checkMatrix, the oracle of the library sub-checks
// (lib/ref/ntdist.go). The written text is also compared with the library call on the same input
// (one model object re-used over the alignments, as the command does) printed with 12 decimals.
package main

import (
	"bytes"
	"fmt"
	"math"
	"math/rand"
	"os"
	"os/exec"
	"path/filepath"
	"strconv"
	"strings"

	"github.com/evolbioinfo/goalign/align"
	"github.com/evolbioinfo/goalign/distance/dna"
	"github.com/evolbioinfo/goalign/io/clustal"
	"github.com/evolbioinfo/goalign/io/nexus"
	"github.com/evolbioinfo/goalign/io/stockholm"

	"verif/lib/gen"
	"verif/lib/h"
	"verif/lib/mon"
	"verif/lib/ref"
)

var cliBin, cliDir, cliBuildErr string

func cliSetup() bool {
	if cliBin != "" {
		return true
	}
	if cliBuildErr != "" {
		return false
	}
	repo := os.Getenv("VERIF_REPO")
	if repo == "" {
		repo = "/repo"
	}
	scratch := os.Getenv("VERIF_SCRATCH")
	if scratch == "" {
		scratch = os.TempDir()
	}
	dir, err := os.MkdirTemp(scratch, "c07-cli-")
	if err != nil {
		cliBuildErr = err.Error()
		fmt.Fprintln(os.Stderr, "c07 cli: "+cliBuildErr)
		return false
	}
	bin := filepath.Join(dir, "goalign")
	cmd := exec.Command("go", "build", "-o", bin, ".")
	cmd.Dir = repo
	env := []string{}
	for _, e := range os.Environ() {
		if !strings.HasPrefix(e, "GOFLAGS=") {
			env = append(env, e)
		}
	}
	cmd.Env = append(env, "GOFLAGS=-mod=readonly", "GOPROXY=off", "GOSUMDB=off", "GOTOOLCHAIN=local")
	if out, err := cmd.CombinedOutput(); err != nil {
		cliBuildErr = fmt.Sprintf("go build of %s failed: %v\n%s", repo, err, out)
		fmt.Fprintln(os.Stderr, "c07 cli: "+cliBuildErr)
		os.RemoveAll(dir)
		return false
	}
	cliBin, cliDir = bin, dir
	return true
}

type cliCase struct {
	Aligns   [][]string `json:"alignments"`
	Names    [][]string `json:"names"`
	Format   string     `json:"format"`
	Opts     ref.NtOpts `json:"opts"`       // what the flags mean
	ModelArg string     `json:"model_flag"` // "<default>": -m not given
	Ranges   []int      `json:"ranges,omitempty"`
	Threads  int        `json:"threads"` // 0: -t not given
	Average  bool       `json:"average"`
	Stdout   bool       `json:"stdout"`
	Alphabet string     `json:"alphabet"`
	Refusal  string     `json:"refusal,omitempty"` // kind of request that must (or may) be refused
	Args     []string   `json:"args"`
}

var cliFormats = []string{"fasta", "phylip", "phylip", "phylip-strict", "auto-fasta", "auto-phylip", "fasta", "phylip", "nexus", "clustal", "stockholm"}

// refusals: requests the command must answer with an error (must) or may answer with an error (may)
var cliRefusals = []string{"unknown-model", "unknown-flag", "range-malformed", "range-min-gt-max", "range-not-integer", "missing-file", "alphabet-aa", "gap-mut-3", "range1-only", "range2-only", "gap-mut-on-other-model", "rm-ambiguous-on-other-model"}

func cliMustRefuse(k string) bool {
	switch k {
	case "unknown-model", "unknown-flag", "range-malformed", "range-min-gt-max", "range-not-integer", "missing-file":
		return true
	}
	return false
}

func plainNt(rows []string) bool {
	return strings.Trim(strings.Join(rows, ""), "ACGTRYSWKMBDHVN-") == ""
}

func genCliCase(r *gen.Rand, idx int) cliCase {
	k := cliCase{ModelArg: "<default>"}
	k.Format = cliFormats[(idx/8)%len(cliFormats)]
	nal := 1
	if strings.Contains(k.Format, "phylip") {
		nal = r.PickInt([]int{1, 2, 2, 3, 3})
	}
	for a := 0; a < nal; a++ {
		var rows []string
		for try := 0; ; try++ {
			rows, _ = genAlignment(r)
			if k.Format == "nexus" || k.Format == "clustal" || k.Format == "stockholm" {
				if !plainNt(rows) && try < 50 {
					continue
				}
				if !plainNt(rows) {
					rows = []string{"ACGTTGCA", "ACGATGCA", "AC-ATGGA"}
				}
			}
			break
		}
		style := r.Intn(4)
		if k.Format != "fasta" && k.Format != "auto-fasta" && style == 3 {
			style = 0
		}
		names := make([]string, len(rows))
		for i := range rows {
			switch style {
			case 0:
				names[i] = "s" + gen.Itoa(i)
			case 1:
				names[i] = "seq_" + gen.Itoa(i) + "_" + gen.Itoa(a)
			case 2:
				names[i] = "Tip" + gen.Itoa(len(rows)-i)
			default:
				names[i] = gen.Itoa(10+i) + "|x." + gen.Itoa(i)
			}
		}
		k.Aligns = append(k.Aligns, rows)
		k.Names = append(k.Names, names)
	}
	minN, maxN := len(k.Aligns[0]), 0
	for _, rows := range k.Aligns {
		if len(rows) < minN {
			minN = len(rows)
		}
		if len(rows) > maxN {
			maxN = len(rows)
		}
	}
	// options
	o := ref.NtOpts{Model: "k2p"}
	if m := idx % 8; m < 7 {
		o.Model = models[m]
		k.ModelArg = o.Model
	}
	if r.Chance(0.4) {
		o.Gamma = true
		o.Alpha = r.PickF([]float64{0.3, 0.5, 0.7, 1, 2.5})
	}
	o.RmGaps = r.Chance(0.35)
	if o.Model == "pdist" || o.Model == "rawdist" {
		o.GapMut = r.Intn(3)
	}
	if o.Model == "pdist" {
		o.RmAmbig = r.Chance(0.45)
	}
	k.Opts = o
	if r.Chance(0.4) {
		a1 := r.Intn(minN)
		b1 := r.Range(a1, maxN+1)
		a2 := r.Intn(minN)
		b2 := r.Range(a2, maxN+1)
		if r.Chance(0.25) { // equal bounds
			a2, b2 = a1, b1
		}
		k.Ranges = []int{a1, b1, a2, b2}
	}
	if r.Chance(0.6) {
		k.Threads = r.PickInt([]int{1, 2, 3, 4, 8})
	}
	k.Average = r.Chance(0.25)
	k.Stdout = r.Chance(0.3)
	k.Alphabet = r.PickStr([]string{"", "", "nt", "auto"})
	if idx%5 == 4 { // every kind of refusal in turn
		k.Refusal = cliRefusals[(idx/5)%len(cliRefusals)]
		switch k.Refusal {
		case "range-min-gt-max":
			if maxN < 2 {
				k.Refusal = "unknown-model"
			} else {
				a := r.Range(1, minN-1)
				k.Ranges = []int{a, r.Intn(a), 0, maxN}
				if r.Bool() {
					k.Ranges = []int{0, maxN, a, r.Intn(a)}
				}
			}
		case "range1-only", "range2-only", "range-malformed", "range-not-integer":
			if k.Ranges == nil {
				k.Ranges = []int{0, maxN, 0, maxN}
			}
		case "gap-mut-3":
			k.Opts.Model = r.PickStr([]string{"pdist", "rawdist"})
			k.ModelArg = k.Opts.Model
			k.Opts.RmAmbig = false
		case "gap-mut-on-other-model", "rm-ambiguous-on-other-model":
			k.Opts.Model = r.PickStr([]string{"jc", "k2p", "f81", "f84", "tn93"})
			k.ModelArg = k.Opts.Model
			k.Opts.GapMut, k.Opts.RmAmbig = 0, false
		}
	}
	return k
}

func (k *cliCase) inputText(a int) string {
	rows, names := k.Aligns[a], k.Names[a]
	var sb strings.Builder
	switch k.Format {
	case "fasta", "auto-fasta":
		for i := range rows {
			fmt.Fprintf(&sb, ">%s\n", names[i])
			s := rows[i]
			w := 60
			if len(s) > 70 { // folded lines
				for len(s) > w {
					sb.WriteString(s[:w] + "\n")
					s = s[w:]
				}
			}
			sb.WriteString(s + "\n")
		}
	case "phylip", "auto-phylip":
		fmt.Fprintf(&sb, "   %d   %d\n", len(rows), len(rows[0]))
		for i := range rows {
			fmt.Fprintf(&sb, "%s  %s\n", names[i], rows[i])
		}
	case "phylip-strict":
		fmt.Fprintf(&sb, "   %d   %d\n", len(rows), len(rows[0]))
		for i := range rows {
			fmt.Fprintf(&sb, "%-10s%s\n", names[i], rows[i])
		}
	default:
		g := make(gen.Rows, len(rows))
		for i := range rows {
			g[i] = gen.Seq{Name: names[i], Seq: rows[i]}
		}
		al := h.MkAlign(g, align.NUCLEOTIDS)
		switch k.Format {
		case "nexus":
			sb.WriteString(nexus.WriteAlignment(al))
		case "clustal":
			sb.WriteString(clustal.WriteAlignment(al))
		default:
			sb.WriteString(stockholm.WriteAlignment(al))
		}
	}
	return sb.String()
}

func pickS(r *gen.Rand, a ...string) string { return a[r.Intn(len(a))] }

func fmtF(f float64) string { return strconv.FormatFloat(f, 'g', -1, 64) }

// cliArgs builds the command line; out == "" means stdout.
func (k *cliCase) cliArgs(r *gen.Rand, in, out string) []string {
	a := []string{"compute", "distance", pickS(r, "-i", "--align"), in}
	switch k.Format {
	case "phylip":
		a = append(a, pickS(r, "-p", "--phylip"))
	case "phylip-strict":
		a = append(a, "-p", "--input-strict")
	case "auto-fasta", "auto-phylip":
		a = append(a, "--auto-detect")
	case "nexus":
		a = append(a, pickS(r, "-x", "--nexus"))
	case "clustal":
		a = append(a, pickS(r, "-u", "--clustal"))
	case "stockholm":
		a = append(a, pickS(r, "-k", "--stockholm"))
	}
	if out != "" {
		a = append(a, pickS(r, "-o", "--output"), out)
	}
	model := k.ModelArg
	if k.Refusal == "unknown-model" {
		model = pickS(r, "k3p", "jc69", "logdet", "hky85", "", "pdist ")
	}
	if model != "<default>" {
		switch r.Intn(3) {
		case 0:
			a = append(a, "-m", model)
		case 1:
			a = append(a, "--model", model)
		default:
			a = append(a, "--model="+model)
		}
	}
	o := k.Opts
	if o.Gamma {
		a = append(a, "--alpha", fmtF(o.Alpha))
	}
	if o.RmGaps {
		a = append(a, pickS(r, "-r", "--rm-gaps"))
	}
	switch {
	case k.Refusal == "gap-mut-3":
		a = append(a, "--gap-mut", pickS(r, "3", "-1", "7"))
	case k.Refusal == "gap-mut-on-other-model":
		a = append(a, "--gap-mut", pickS(r, "1", "2"))
	case o.GapMut != 0 || ((o.Model == "pdist" || o.Model == "rawdist") && r.Bool()):
		a = append(a, "--gap-mut", strconv.Itoa(o.GapMut))
	}
	if o.RmAmbig || k.Refusal == "rm-ambiguous-on-other-model" {
		a = append(a, "--rm-ambiguous")
	}
	if k.Ranges != nil {
		r1 := fmt.Sprintf("%d:%d", k.Ranges[0], k.Ranges[1])
		r2 := fmt.Sprintf("%d:%d", k.Ranges[2], k.Ranges[3])
		switch k.Refusal {
		case "range-malformed":
			if r.Bool() {
				r1 = pickS(r, "1", "0:1:2", ":", "0-1")
			} else {
				r2 = pickS(r, "1", "0:1:2", "0-1")
			}
		case "range-not-integer":
			if r.Bool() {
				r1 = pickS(r, "a:1", "0:b", "0.5:1", "0:")
			} else {
				r2 = pickS(r, "a:1", "0:b", "0:1.0", ":1")
			}
		}
		if k.Refusal != "range2-only" {
			a = append(a, "--range1", r1)
		}
		if k.Refusal != "range1-only" {
			a = append(a, "--range2="+r2)
		}
	}
	if k.Threads > 0 {
		a = append(a, pickS(r, "-t", "--threads"), strconv.Itoa(k.Threads))
	}
	switch k.Alphabet {
	case "nt", "auto":
		a = append(a, "--alphabet", k.Alphabet)
	}
	if k.Refusal == "alphabet-aa" {
		a = append(a, "--alphabet=aa")
	}
	if k.Refusal == "unknown-flag" {
		a = append(a, pickS(r, "--rm-gap", "--gamma", "--range3=0:1", "-z", "--gapmut=1"))
	}
	return a
}

type cliRun struct {
	exit           int
	stdout, stderr string
}

func cliExec(dir string, args []string) cliRun {
	cmd := exec.Command(cliBin, args...)
	cmd.Dir = dir
	var so, se bytes.Buffer
	cmd.Stdout, cmd.Stderr = &so, &se
	err := cmd.Run()
	res := cliRun{stdout: so.String(), stderr: se.String()}
	if err != nil {
		res.exit = -1
		if ee, ok := err.(*exec.ExitError); ok {
			res.exit = ee.ExitCode()
		}
	}
	return res
}

type cliMatrix struct {
	names []string
	toks  [][]string
	vals  [][]float64
}

// parseMatrices reads the documented output: per alignment one line "n", then n lines name<TAB>d1<TAB>...<TAB>dn.
func parseMatrices(txt string) ([]cliMatrix, error) {
	var out []cliMatrix
	lines := strings.Split(txt, "\n")
	if len(lines) > 0 && lines[len(lines)-1] == "" {
		lines = lines[:len(lines)-1]
	}
	for p := 0; p < len(lines); {
		n, err := strconv.Atoi(strings.TrimSpace(lines[p]))
		if err != nil || n < 0 {
			return out, fmt.Errorf("line %d: expected the number of sequences, found %q", p+1, lines[p])
		}
		p++
		m := cliMatrix{}
		for i := 0; i < n; i++ {
			if p >= len(lines) {
				return out, fmt.Errorf("matrix %d announces %d rows, the output ends after %d", len(out)+1, n, i)
			}
			f := strings.Split(lines[p], "\t")
			if len(f) != n+1 {
				return out, fmt.Errorf("line %d: %d tab separated fields for a matrix of %d: %q", p+1, len(f), n, lines[p])
			}
			vals := make([]float64, n)
			for j := 0; j < n; j++ {
				v, err := strconv.ParseFloat(f[j+1], 64)
				if err != nil {
					return out, fmt.Errorf("line %d: entry %q is not a number", p+1, f[j+1])
				}
				vals[j] = v
			}
			m.names = append(m.names, f[0])
			m.toks = append(m.toks, f[1:])
			m.vals = append(m.vals, vals)
			p++
		}
		out = append(out, m)
	}
	return out, nil
}

func sameAvg(got, want float64) bool {
	if math.IsNaN(want) {
		return math.IsNaN(got)
	}
	if math.IsInf(want, 0) {
		return got == want
	}
	return ref.Close(got, want, 1e-10, 3e-12)
}

func runCli(c *mon.Case) {
	if !cliSetup() {
		return // the floors cli:* are missed: INCONCLUSIVE, not a violation
	}
	if c.Idx%3 == 2 {
		runCliBoot(c)
		return
	}
	r := c.R
	k := genCliCase(r, (c.Idx/3)*2+c.Idx%3) // the running number among the compute distance cases
	dir, err := os.MkdirTemp(cliDir, "case-")
	if err != nil {
		panic("harness: " + err.Error())
	}
	defer os.RemoveAll(dir)
	if c.Verbose { // single case replay: do not leave the binary behind
		defer func() { os.RemoveAll(cliDir); cliBin, cliDir = "", "" }()
	}
	in := filepath.Join(dir, "input.aln")
	var txt strings.Builder
	for a := range k.Aligns {
		txt.WriteString(k.inputText(a))
	}
	if k.Refusal != "missing-file" {
		if err := os.WriteFile(in, []byte(txt.String()), 0644); err != nil {
			panic("harness: " + err.Error())
		}
	}
	out := filepath.Join(dir, "dist.txt")
	if k.Stdout {
		out = ""
	}
	k.Args = k.cliArgs(r, in, out)
	c.Input(k)
	res := cliExec(dir, k.Args)
	c.Count("cli:runs")
	c.Count("cli:format:" + k.Format)
	c.Count("cli:model-flag:" + k.ModelArg)
	o := k.Opts
	ctx := func() string {
		return fmt.Sprintf("goalign %s\ninput file:\n%sexit %d, stderr: %s", strings.Join(k.Args, " "), txt.String(), res.exit, strings.TrimSpace(firstLines(res.stderr, 3)))
	}
	if strings.Contains(res.stderr, "panic:") || strings.Contains(res.stderr, "goroutine ") {
		c.Failf("cli:crash", "the command crashed\n%s\n%s", ctx(), firstLines(res.stderr, 30))
		return
	}
	if k.Refusal != "" {
		c.Count("cli:refusal:" + k.Refusal)
		if cliMustRefuse(k.Refusal) {
			if res.exit == 0 {
				c.Failf("cli:refusal-expected:"+k.Refusal, "exit status 0 for a request that cannot be served (%s)\n%s", k.Refusal, ctx())
			} else if strings.TrimSpace(res.stderr) == "" {
				c.Failf("cli:refusal-without-message", "exit status %d without any message (%s)\n%s", res.exit, k.Refusal, ctx())
			}
			return
		}
		// may be refused; when it is served the request is read as documented
		if res.exit != 0 {
			c.Count("cli:refused:" + k.Refusal)
			return
		}
		c.Count("cli:served:" + k.Refusal)
		switch k.Refusal {
		case "gap-mut-3", "range1-only", "range2-only":
			return // no documented meaning: nothing to compare
		}
		// alphabet-aa, gap-mut / rm-ambiguous given to a model they are "only available" for: served = flag ignored
	}
	// expected outcome of the library on the same input, one model object for all the alignments
	model, merr := mkModel(o)
	if merr != nil {
		panic("harness: " + merr.Error())
	}
	rg := []int{-1, -1, -1, -1}
	if k.Ranges != nil {
		rg = k.Ranges
		c.Count("cli:ranges")
		if rg[0] == rg[2] && rg[1] == rg[3] {
			c.Count("cli:ranges:equal-bounds")
		} else {
			c.Count("cli:ranges:different-bounds")
		}
	}
	cpus := k.Threads
	if cpus == 0 {
		cpus = 1
		c.Count("cli:threads:default")
	} else {
		c.Count(fmt.Sprintf("cli:threads:%d", k.Threads))
	}
	var lib [][][]float64
	libErr := ""
	for a, rows := range k.Aligns {
		g := make(gen.Rows, len(rows))
		for i := range rows {
			g[i] = gen.Seq{Name: k.Names[a][i], Seq: rows[i]}
		}
		m, err := dna.DistMatrix(h.MkAlign(g, align.NUCLEOTIDS), nil, model, rg[0], rg[1], rg[2], rg[3], o.Gamma, o.Alpha, cpus)
		if err != nil {
			libErr = fmt.Sprintf("alignment %d: %v", a+1, err)
			break
		}
		lib = append(lib, m)
	}
	if libErr != "" {
		c.Count("cli:library-refuses")
		if res.exit == 0 {
			c.Failf("cli:error-swallowed", "exit status 0 although the distance computation fails (%s)\n%s", libErr, ctx())
		}
		return
	}
	if res.exit != 0 {
		c.Failf("cli:unexpected-error", "the command failed on a valid request\n%s", ctx())
		return
	}
	text := res.stdout
	if !k.Stdout {
		b, err := os.ReadFile(out)
		if err != nil {
			c.Failf("cli:no-output-file", "-o %s: %v\n%s", out, err, ctx())
			return
		}
		text = string(b)
		if strings.TrimSpace(res.stdout) != "" {
			c.Failf("cli:stdout-with-output-file", "matrix expected in the -o file only, stdout holds %q\n%s", firstLines(res.stdout, 3), ctx())
			return
		}
		c.Count("cli:output:file")
	} else {
		c.Count("cli:output:stdout")
	}
	mats, perr := parseMatrices(text)
	if perr != nil {
		c.Failf("cli:matrix-format", "%v\noutput:\n%s\n%s", perr, firstLines(text, 12), ctx())
		return
	}
	if len(mats) != len(k.Aligns) {
		c.Failf("cli:matrix-count", "%d matrices written for %d alignments in the input\noutput:\n%s\n%s", len(mats), len(k.Aligns), firstLines(text, 12), ctx())
		return
	}
	if len(k.Aligns) > 1 {
		c.Count("cli:several-alignments")
	}
	for a, rows := range k.Aligns {
		n := len(rows)
		m := mats[a]
		if strings.Join(m.names, "\x00") != strings.Join(k.Names[a], "\x00") {
			c.Failf("cli:matrix-names", "matrix %d is labelled %q, the alignment holds %q\n%s", a+1, m.names, k.Names[a], ctx())
			return
		}
		var computed func(i, j int) bool
		if k.Ranges != nil {
			a1, b1, a2, b2 := rg[0], rg[1], rg[2], rg[3]
			if b1 > n-1 {
				b1 = n - 1
			}
			if b2 > n-1 {
				b2 = n - 1
			}
			computed = func(i, j int) bool {
				in := func(x, lo, hi int) bool { return x >= lo && x <= hi }
				return (in(i, a1, b1) && in(j, a2, b2)) || (in(j, a1, b1) && in(i, a2, b2))
			}
		}
		checkMatrix(c, rows, o, m.vals, computed, fmt.Sprintf("cli: goalign %s (matrix %d of %d)", strings.Join(k.Args, " "), a+1, len(mats)))
		if c.Failed() {
			return
		}
		// the text written == the library call on the same input, 12 decimals
		for i := 0; i < n; i++ {
			for j := 0; j < n; j++ {
				if want := fmt.Sprintf("%.12f", lib[a][i][j]); m.toks[i][j] != want {
					c.Failf("cli:differs-from-library", "matrix %d entry (%d,%d): the command wrote %s, dna.DistMatrix with the same options gives %s\n%s", a+1, i, j, m.toks[i][j], want, ctx())
					return
				}
			}
		}
		c.Count("cli:matrices-checked")
		c.Count("cli:model:" + o.Model)
	}
	if o.Gamma {
		c.Count("cli:alpha")
	}
	if o.RmGaps {
		c.Count("cli:rm-gaps")
	}
	if o.RmAmbig {
		c.Count("cli:rm-ambiguous")
	}
	c.Count(fmt.Sprintf("cli:gap-mut:%d", o.GapMut))
	if k.Alphabet != "" {
		c.Count("cli:alphabet:" + k.Alphabet)
	}
	// -a: one line per alignment, the mean of the pairwise distances of the matrix (NaN entries left out)
	if k.Average {
		avgOut := filepath.Join(dir, "avg.txt")
		args2 := append([]string{}, k.Args...)
		if !k.Stdout {
			for i := range args2 {
				if args2[i] == out {
					args2[i] = avgOut
				}
			}
		}
		args2 = append(args2, pickS(r, "-a", "--average"))
		res2 := cliExec(dir, args2)
		c.Count("cli:runs")
		ctx2 := func() string {
			return fmt.Sprintf("goalign %s\ninput file:\n%sexit %d, stderr: %s", strings.Join(args2, " "), txt.String(), res2.exit, strings.TrimSpace(firstLines(res2.stderr, 3)))
		}
		if strings.Contains(res2.stderr, "panic:") || strings.Contains(res2.stderr, "goroutine ") {
			c.Failf("cli:crash", "the command crashed\n%s\n%s", ctx2(), firstLines(res2.stderr, 30))
			return
		}
		if res2.exit != 0 {
			c.Failf("cli:average:unexpected-error", "the command failed with -a although it succeeds without\n%s", ctx2())
			return
		}
		t2 := res2.stdout
		if !k.Stdout {
			b, err := os.ReadFile(avgOut)
			if err != nil {
				c.Failf("cli:no-output-file", "-o %s: %v\n%s", avgOut, err, ctx2())
				return
			}
			t2 = string(b)
		}
		f := strings.Fields(t2)
		if len(f) != len(k.Aligns) || strings.Count(t2, "\n") != len(k.Aligns) {
			c.Failf("cli:average:format", "%d alignments in the input, -a wrote %q\n%s", len(k.Aligns), t2, ctx2())
			return
		}
		for a := range k.Aligns {
			got, err := strconv.ParseFloat(f[a], 64)
			if err != nil {
				c.Failf("cli:average:format", "%q is not a number\n%s", f[a], ctx2())
				return
			}
			// mean over all the pairs of the matrix, or (ranges) over the computed pairs only: the help text says "all pairs"
			sumAll, nAll, sumC, nC := 0.0, 0, 0.0, 0
			n := len(k.Aligns[a])
			clip := func(b int) int {
				if b > n-1 {
					return n - 1
				}
				return b
			}
			for i := 0; i < n; i++ {
				for j := i + 1; j < n; j++ {
					v := mats[a].vals[i][j]
					if math.IsNaN(v) {
						continue
					}
					sumAll += v
					nAll++
					in := func(x, lo, hi int) bool { return x >= lo && x <= hi }
					if k.Ranges == nil || (in(i, rg[0], clip(rg[1])) && in(j, rg[2], clip(rg[3]))) || (in(j, rg[0], clip(rg[1])) && in(i, rg[2], clip(rg[3]))) {
						sumC += v
						nC++
					}
				}
			}
			if !sameAvg(got, sumAll/float64(nAll)) && !sameAvg(got, sumC/float64(nC)) {
				c.Failf("cli:average:value", "alignment %d: -a wrote %s, the matrix written without -a has mean %.12f over its %d pairs (%.12f over the %d pairs of the ranges)\nmatrix: %v\n%s", a+1, f[a], sumAll/float64(nAll), nAll, sumC/float64(nC), nC, mats[a].toks, ctx2())
				return
			}
		}
		c.Count("cli:average")
	}
	nonACGT := false
	differ := false
	for _, rows := range k.Aligns {
		if strings.Trim(strings.Join(rows, ""), "ACGT") != "" {
			nonACGT = true
		}
		for i := 1; i < len(rows); i++ {
			if rows[i] != rows[0] {
				differ = true
			}
		}
	}
	if differ && (nonACGT || o.Gamma || o.RmGaps || o.GapMut != 0 || o.RmAmbig || k.Ranges != nil || len(k.Aligns) > 1) {
		c.NonTrivial("cli", fmt.Sprint(k.Aligns), fmt.Sprintf("%+v", o), fmt.Sprint(k.Ranges), k.Format)
	}
	c.Note("goalign %s -> %d matrices", strings.Join(k.Args[4:], " "), len(mats))
}

func firstLines(s string, n int) string {
	l := strings.SplitAfterN(s, "\n", n+1)
	if len(l) > n {
		l = l[:n]
	}
	return strings.Join(l, "")
}

// ---------------------------------------------------------------- goalign build distboot

// bootCase: `goalign build distboot` (cmd/distboot.go): n bootstrap replicates of the FIRST alignment of the input,
// one distance matrix per replicate. With --seed the replicates are those of math/rand seeded with the same value
// followed by Alignment.BuildBootstrap(frac) per replicate (checked once per process against the alignments written
// by `goalign build seqboot --seed`); every matrix written must be the estimator's matrix of its replicate.
type bootCase struct {
	Aligns   [][]string `json:"alignments"`
	Names    [][]string `json:"names"`
	Format   string     `json:"format"`
	Opts     ref.NtOpts `json:"opts"`
	ModelArg string     `json:"model_flag"`
	N        int        `json:"nboot"`   // 0: -n not given (documented default 1)
	Frac     float64    `json:"frac"`    // 0: -f not given (documented default 1.0)
	Seed     int64      `json:"seed"`    // -1: --seed not given
	Threads  int        `json:"threads"` // 0: -t not given
	Stdout   bool       `json:"stdout"`
	Refusal  string     `json:"refusal,omitempty"`
	Args     []string   `json:"args"`
}

var bootModels = []string{"pdist", "jc", "k2p", "f81", "f84", "tn93", "<default>"}
var bootFormats = []string{"fasta", "phylip", "phylip", "auto-phylip", "phylip-strict", "auto-fasta"}
var bootRefusals = []string{"unknown-model", "unknown-flag", "missing-file", "nboot-not-a-number", "seed-not-a-number"}

func genBootCase(r *gen.Rand, j int) bootCase {
	k := bootCase{Seed: int64(r.Intn(1000000)), ModelArg: bootModels[j%len(bootModels)]}
	k.Format = bootFormats[(j/len(bootModels))%len(bootFormats)]
	nal := 1
	if strings.Contains(k.Format, "phylip") {
		nal = r.PickInt([]int{1, 2, 2}) // "will take the first one only"
	}
	for a := 0; a < nal; a++ {
		rows, _ := genAlignment(r)
		for len(rows[0]) < 4 {
			rows, _ = genAlignment(r)
		}
		names := make([]string, len(rows))
		for i := range rows {
			names[i] = pickS(r, "s", "Tip") + gen.Itoa(i)
			if a > 0 {
				names[i] = "other" + gen.Itoa(i)
			}
		}
		k.Aligns = append(k.Aligns, rows)
		k.Names = append(k.Names, names)
	}
	for i := range k.Names[0] {
		k.Names[0][i] = "s" + gen.Itoa(i)
	}
	o := ref.NtOpts{Model: "k2p"}
	if k.ModelArg != "<default>" {
		o.Model = k.ModelArg
	}
	if r.Chance(0.45) {
		o.Gamma = true
		o.Alpha = r.PickF([]float64{0.3, 0.5, 0.7, 1, 2.5})
	}
	o.RmGaps = r.Chance(0.4)
	k.Opts = o
	k.N = r.PickInt([]int{0, 1, 2, 3, 4})
	if r.Chance(0.5) {
		k.Frac = r.PickF([]float64{0.5, 0.75, 1})
	}
	if r.Chance(0.5) {
		k.Threads = r.PickInt([]int{1, 2, 4})
	}
	k.Stdout = r.Chance(0.3)
	if j%9 == 8 {
		k.Refusal = bootRefusals[(j/9)%len(bootRefusals)]
	} else if j%9 == 4 {
		k.Seed = -1
	}
	return k
}

func (k *bootCase) inputText(a int) string {
	kk := cliCase{Aligns: k.Aligns, Names: k.Names, Format: k.Format}
	return kk.inputText(a)
}

func mkAl(rows, names []string) align.Alignment {
	g := make(gen.Rows, len(rows))
	for i := range rows {
		g[i] = gen.Seq{Name: names[i], Seq: rows[i]}
	}
	return h.MkAlign(g, align.NUCLEOTIDS)
}

func alRows(al align.Alignment) []string {
	var rows []string
	for _, s := range h.Snap(al) {
		rows = append(rows, s.Seq)
	}
	return rows
}

// bootAssumption: 0 unknown, 1 holds, -1 broken (then the values of distboot are not compared: the floors are missed)
var bootAssumption int

// checkBootAssumption: `goalign build seqboot --seed S -n 2 -f F` writes the replicates that rand.Seed(S) + BuildBootstrap(F) give here.
func checkBootAssumption(dir string, rows, names []string, seed int64, frac float64) (bool, string) {
	in := filepath.Join(dir, "selfcheck.fa")
	var sb strings.Builder
	for i := range rows {
		fmt.Fprintf(&sb, ">%s\n%s\n", names[i], rows[i])
	}
	if err := os.WriteFile(in, []byte(sb.String()), 0644); err != nil {
		panic("harness: " + err.Error())
	}
	prefix := filepath.Join(dir, "selfcheck_boot")
	res := cliExec(dir, []string{"build", "seqboot", "-i", in, "--seed", strconv.FormatInt(seed, 10), "-n", "2", "-f", fmtF(frac), "-o", prefix})
	if res.exit != 0 {
		return false, "build seqboot failed: " + firstLines(res.stderr, 2)
	}
	rand.Seed(seed)
	al := mkAl(rows, names)
	for i := 0; i < 2; i++ {
		want := alRows(al.BuildBootstrap(frac))
		b, err := os.ReadFile(prefix + strconv.Itoa(i) + ".fa")
		if err != nil {
			return false, err.Error()
		}
		var got []string
		for _, ln := range strings.Split(string(b), "\n") {
			if strings.HasPrefix(ln, ">") {
				got = append(got, "")
			} else if len(got) > 0 {
				got[len(got)-1] += strings.TrimSpace(ln)
			}
		}
		if strings.Join(got, "/") != strings.Join(want, "/") {
			return false, fmt.Sprintf("replicate %d of build seqboot --seed %d: %q, rand.Seed + BuildBootstrap here: %q", i, seed, got, want)
		}
	}
	return true, ""
}

func runCliBoot(c *mon.Case) {
	r := c.R
	k := genBootCase(r, c.Idx/3)
	dir, err := os.MkdirTemp(cliDir, "case-")
	if err != nil {
		panic("harness: " + err.Error())
	}
	defer os.RemoveAll(dir)
	if c.Verbose {
		defer func() { os.RemoveAll(cliDir); cliBin, cliDir = "", "" }()
	}
	in := filepath.Join(dir, "input.aln")
	var txt strings.Builder
	for a := range k.Aligns {
		txt.WriteString(k.inputText(a))
	}
	if k.Refusal != "missing-file" {
		if err := os.WriteFile(in, []byte(txt.String()), 0644); err != nil {
			panic("harness: " + err.Error())
		}
	}
	out := filepath.Join(dir, "boot.txt")
	a := []string{"build", "distboot", pickS(r, "-i", "--align"), in}
	switch k.Format {
	case "phylip":
		a = append(a, pickS(r, "-p", "--phylip"))
	case "phylip-strict":
		a = append(a, "-p", "--input-strict")
	case "auto-fasta", "auto-phylip":
		a = append(a, "--auto-detect")
	}
	if !k.Stdout {
		a = append(a, pickS(r, "-o", "--output"), out)
	}
	model := k.ModelArg
	if k.Refusal == "unknown-model" {
		model = pickS(r, "k3p", "jc69", "logdet", "hky85")
	}
	if model != "<default>" {
		a = append(a, pickS(r, "-m", "--model"), model)
	}
	o := k.Opts
	if o.Gamma {
		a = append(a, "--alpha", fmtF(o.Alpha))
	}
	if o.RmGaps {
		a = append(a, pickS(r, "-r", "--rm-gaps"))
	}
	if k.N > 0 {
		n := strconv.Itoa(k.N)
		if k.Refusal == "nboot-not-a-number" {
			n = pickS(r, "x", "1.5", "")
		}
		a = append(a, pickS(r, "-n", "--nboot"), n)
	} else if k.Refusal == "nboot-not-a-number" {
		a = append(a, "--nboot=two")
	}
	if k.Frac > 0 {
		a = append(a, pickS(r, "-f", "--frac"), fmtF(k.Frac))
	}
	if k.Seed >= 0 {
		sd := strconv.FormatInt(k.Seed, 10)
		if k.Refusal == "seed-not-a-number" {
			sd = "abc"
		}
		a = append(a, "--seed", sd)
	} else if k.Refusal == "seed-not-a-number" {
		a = append(a, "--seed=1.5")
	}
	if k.Threads > 0 {
		a = append(a, pickS(r, "-t", "--threads"), strconv.Itoa(k.Threads))
	}
	if k.Refusal == "unknown-flag" {
		a = append(a, pickS(r, "--gap-mut=1", "--average", "--replicates=3", "-z"))
	}
	k.Args = a
	c.Input(k)
	res := cliExec(dir, a)
	c.Count("cli:runs")
	c.Count("cli:distboot:runs")
	ctx := func() string {
		return fmt.Sprintf("goalign %s\ninput file:\n%sexit %d, stderr: %s", strings.Join(a, " "), txt.String(), res.exit, strings.TrimSpace(firstLines(res.stderr, 3)))
	}
	if strings.Contains(res.stderr, "panic:") || strings.Contains(res.stderr, "goroutine ") {
		c.Failf("cli:distboot:crash", "the command crashed\n%s\n%s", ctx(), firstLines(res.stderr, 30))
		return
	}
	if k.Refusal != "" {
		c.Count("cli:distboot:refusal:" + k.Refusal)
		if res.exit == 0 {
			c.Failf("cli:distboot:refusal-expected:"+k.Refusal, "exit status 0 for a request that cannot be served (%s)\n%s", k.Refusal, ctx())
		} else if strings.TrimSpace(res.stderr) == "" {
			c.Failf("cli:distboot:refusal-without-message", "exit status %d without any message (%s)\n%s", res.exit, k.Refusal, ctx())
		}
		return
	}
	if res.exit != 0 {
		c.Failf("cli:distboot:unexpected-error", "the command failed on a valid request\n%s", ctx())
		return
	}
	text := res.stdout
	if !k.Stdout {
		b, err := os.ReadFile(out)
		if err != nil {
			c.Failf("cli:distboot:no-output-file", "-o %s: %v\n%s", out, err, ctx())
			return
		}
		text = string(b)
		if strings.TrimSpace(res.stdout) != "" {
			c.Failf("cli:distboot:stdout-with-output-file", "matrices expected in the -o file only, stdout holds %q\n%s", firstLines(res.stdout, 3), ctx())
			return
		}
	}
	mats, perr := parseMatrices(text)
	if perr != nil {
		c.Failf("cli:distboot:matrix-format", "%v\noutput:\n%s\n%s", perr, firstLines(text, 12), ctx())
		return
	}
	nrep := k.N
	if nrep == 0 {
		nrep = 1 // documented default
		c.Count("cli:distboot:nboot-default")
	} else {
		c.Count(fmt.Sprintf("cli:distboot:nboot:%d", k.N))
	}
	if len(mats) != nrep {
		c.Failf("cli:distboot:matrix-count", "%d matrices written for %d replicates asked\noutput:\n%s\n%s", len(mats), nrep, firstLines(text, 12), ctx())
		return
	}
	rows, names := k.Aligns[0], k.Names[0]
	for i, m := range mats {
		if strings.Join(m.names, "\x00") != strings.Join(names, "\x00") {
			c.Failf("cli:distboot:matrix-names", "matrix %d is labelled %q, the first alignment of the input holds %q\n%s", i+1, m.names, names, ctx())
			return
		}
	}
	if len(k.Aligns) > 1 {
		c.Count("cli:distboot:first-alignment-of-several")
	}
	c.Count("cli:distboot:format:" + k.Format)
	frac := k.Frac
	if frac == 0 {
		frac = 1
		c.Count("cli:distboot:frac-default")
	} else {
		c.Count("cli:distboot:frac:" + fmtF(k.Frac))
	}
	if k.Seed < 0 {
		// no --seed: the replicates cannot be known; shape, names and number of matrices only
		c.Count("cli:distboot:no-seed")
		return
	}
	if bootAssumption == 0 {
		ok, why := checkBootAssumption(dir, rows, names, k.Seed, frac)
		c.Count("cli:runs")
		bootAssumption = 1
		if !ok {
			bootAssumption = -1
			fmt.Fprintln(os.Stderr, "c07 cli: replicates of build seqboot are not reproduced in this process: "+why)
		}
	}
	if bootAssumption < 0 {
		c.Count("cli:distboot:replicates-not-reproducible-here")
		return
	}
	dm, merr := mkModel(o)
	if merr != nil {
		panic("harness: " + merr.Error())
	}
	cpus := k.Threads
	if cpus == 0 {
		cpus = 1
	}
	rand.Seed(k.Seed)
	al := mkAl(rows, names)
	for i, m := range mats {
		boot := al.BuildBootstrap(frac)
		brows := alRows(boot)
		checkMatrix(c, brows, o, m.vals, nil, fmt.Sprintf("cli: goalign %s (replicate %d of %d)", strings.Join(a, " "), i+1, len(mats)))
		if c.Failed() {
			return
		}
		lib, err := dna.DistMatrix(boot, nil, dm, -1, -1, -1, -1, o.Gamma, o.Alpha, cpus)
		if err != nil {
			c.Failf("cli:distboot:error-swallowed", "exit status 0 although the distance computation fails on replicate %d (%v)\n%s", i+1, err, ctx())
			return
		}
		for x := range lib {
			for y := range lib[x] {
				if want := fmt.Sprintf("%.12f", lib[x][y]); m.toks[x][y] != want {
					c.Failf("cli:distboot:differs-from-library", "replicate %d %q entry (%d,%d): the command wrote %s, dna.DistMatrix with the same options gives %s\n%s", i+1, brows, x, y, m.toks[x][y], want, ctx())
					return
				}
			}
		}
		c.Count("cli:distboot:matrices-checked")
	}
	c.Count("cli:distboot:model-flag:" + k.ModelArg)
	if o.Gamma {
		c.Count("cli:distboot:alpha")
	}
	if o.RmGaps {
		c.Count("cli:distboot:rm-gaps")
	}
	if k.Threads > 0 {
		c.Count("cli:distboot:threads")
	}
	c.NonTrivial("cli-distboot", fmt.Sprint(rows), fmt.Sprintf("%+v", o), fmt.Sprint(k.Seed, k.N, frac))
	c.Note("goalign %s -> %d matrices", strings.Join(a[4:], " "), len(mats))
}
