// Reference model of property C04: every operation is the obvious computation on a
// plain list of rows, written from the property statement and goalign's documentation
// (interface comments of align/align.go, docs/commands/{subseq,subsites,split,concat,trim,diff}.md).
package main

import (
	"sort"
	"strings"

	"verif/lib/gen"
)

const gapChar = '-'

// validWindow: [start, start+length) is a (possibly empty) window of [0,L).
func validWindow(L, start, length int) bool {
	if start < 0 || length < 0 || start > L {
		return false
	}
	return length <= L-start // no overflow: L-start >= 0
}

func refSubAlign(rows gen.Rows, start, length int) gen.Rows {
	out := make(gen.Rows, len(rows))
	for i, r := range rows {
		out[i] = gen.Seq{Name: r.Name, Seq: r.Seq[start : start+length]}
	}
	return out
}

func validSites(L int, sites []int) bool {
	for _, s := range sites {
		if s < 0 || s >= L {
			return false
		}
	}
	return true
}

// refSelect keeps the addressed order and the repeats.
func refSelect(rows gen.Rows, sites []int) gen.Rows {
	out := make(gen.Rows, len(rows))
	for i, r := range rows {
		b := make([]byte, len(sites))
		for j, s := range sites {
			b[j] = r.Seq[s]
		}
		out[i] = gen.Seq{Name: r.Name, Seq: string(b)}
	}
	return out
}

// refComplement: ascending positions of [0,L) not in sites.
func refComplement(L int, sites []int) []int {
	in := make([]bool, L)
	for _, s := range sites {
		in[s] = true
	}
	out := []int{}
	for i := 0; i < L; i++ {
		if !in[i] {
			out = append(out, i)
		}
	}
	return out
}

func rangeList(start, length int) []int {
	out := make([]int, length)
	for i := range out {
		out[i] = start + i
	}
	return out
}

func refTrim(rows gen.Rows, t int, fromStart bool) gen.Rows {
	out := make(gen.Rows, len(rows))
	for i, r := range rows {
		if fromStart {
			out[i] = gen.Seq{Name: r.Name, Seq: r.Seq[t:]}
		} else {
			out[i] = gen.Seq{Name: r.Name, Seq: r.Seq[:len(r.Seq)-t]}
		}
	}
	return out
}

// residuePositions: alignment positions of the non gap characters of a row.
func residuePositions(seq string) []int {
	p := []int{}
	for i := 0; i < len(seq); i++ {
		if seq[i] != gapChar {
			p = append(p, i)
		}
	}
	return p
}

// refRefCoord: smallest window whose reference residues are exactly the ungapped
// positions refstart..refstart+reflen-1. ok=false when that range leaves the
// ungapped reference (or reflen < 1).
func refRefCoord(seq string, refstart, reflen int) (alistart, alilen int, ok bool) {
	pos := residuePositions(seq)
	U := len(pos)
	if refstart < 0 || reflen < 1 || refstart >= U || reflen > U-refstart {
		return 0, 0, false
	}
	a, b := pos[refstart], pos[refstart+reflen-1]
	return a, b - a + 1, true
}

// refRefSites: ok=false when one site is outside the ungapped reference; otherwise the
// positions as an ascending set and in the addressed order with repeats.
func refRefSites(seq string, sites []int) (asc, addressed []int, ok bool) {
	pos := residuePositions(seq)
	asc, addressed = []int{}, []int{}
	for _, s := range sites {
		if s < 0 || s >= len(pos) {
			return nil, nil, false
		}
		addressed = append(addressed, pos[s])
	}
	seen := map[int]bool{}
	for _, p := range addressed {
		if !seen[p] {
			seen[p] = true
			asc = append(asc, p)
		}
	}
	sort.Ints(asc)
	return asc, addressed, true
}

func widthOf(rows gen.Rows) int {
	if len(rows) == 0 {
		return 0 // an empty alignment contributes no site
	}
	return len(rows[0].Seq)
}

// refConcat pairs rows by name; rows absent on one side are padded with gaps.
// Rows of a first (their order), then the rows only c has (their order).
func refConcat(a, c gen.Rows) gen.Rows {
	la, lc := widthOf(a), widthOf(c)
	inC := map[string]string{}
	for _, r := range c {
		inC[r.Name] = r.Seq
	}
	inA := map[string]bool{}
	out := gen.Rows{}
	for _, r := range a {
		inA[r.Name] = true
		if s, ok := inC[r.Name]; ok {
			out = append(out, gen.Seq{Name: r.Name, Seq: r.Seq + s})
		} else {
			out = append(out, gen.Seq{Name: r.Name, Seq: r.Seq + strings.Repeat("-", lc)})
		}
	}
	for _, r := range c {
		if !inA[r.Name] {
			out = append(out, gen.Seq{Name: r.Name, Seq: strings.Repeat("-", la) + r.Seq})
		}
	}
	return out
}

// partition model --------------------------------------------------------------

type prange struct {
	Part       int `json:"part"` // index in the name list of the case
	Start, End int // 0-based inclusive, as given to AddRange
	Mod        int
}

type pmodel struct {
	L      int
	codes  []int    // per site, -1 = unassigned
	names  []string // in order of first appearance
	models []string
}

func newPModel(L int) *pmodel {
	m := &pmodel{L: L, codes: make([]int, L)}
	for i := range m.codes {
		m.codes[i] = -1
	}
	return m
}

// rangeValid: the documented argument domain of one range definition.
func (m *pmodel) rangeValid(start, end, mod int) bool {
	return start >= 0 && end < m.L && mod >= 1
}

// add returns false when the range is invalid or hits a site that already has a partition.
func (m *pmodel) add(name, model string, start, end, mod int) bool {
	if !m.rangeValid(start, end, mod) {
		return false
	}
	idx := -1
	for i, n := range m.names {
		if n == name {
			idx = i
		}
	}
	if idx < 0 {
		m.names = append(m.names, name)
		m.models = append(m.models, model)
		idx = len(m.names) - 1
	}
	if end >= start {
		n := (end-start)/mod + 1 // start, start+mod, ... while <= end
		for k := 0; k < n; k++ {
			i := start + k*mod
			if m.codes[i] != -1 {
				return false
			}
			m.codes[i] = idx
		}
	}
	return true
}

func (m *pmodel) complete() bool {
	for _, c := range m.codes {
		if c == -1 {
			return false
		}
	}
	return true
}

func (m *pmodel) sitesOf(p int) []int {
	s := []int{}
	for i, c := range m.codes {
		if c == p {
			s = append(s, i)
		}
	}
	return s
}

// transforms ------------------------------------------------------------------------

func refTranspose(rows gen.Rows) gen.Rows {
	L := widthOf(rows)
	out := make(gen.Rows, L)
	for j := 0; j < L; j++ {
		out[j] = gen.Seq{Name: gen.Itoa(j), Seq: rows.Col(j)}
	}
	return out
}

// refDiff: characters of rows 1.. identical to the first row become '.'.
// loose[i][j] is set where the two characters differ only by case (the documentation
// does not say whether "identical" is case sensitive: both outcomes are accepted there).
func refDiff(rows gen.Rows) (out gen.Rows, loose map[[2]int]bool) {
	out = rows.Clone()
	loose = map[[2]int]bool{}
	if len(rows) < 2 {
		return
	}
	first := rows[0].Seq
	for i := 1; i < len(rows); i++ {
		b := []byte(rows[i].Seq)
		for j := range b {
			if b[j] == first[j] {
				b[j] = '.'
			} else if lower(b[j]) == lower(first[j]) {
				loose[[2]int{i, j}] = true
			}
		}
		out[i].Seq = string(b)
	}
	return
}

func lower(c byte) byte {
	if c >= 'A' && c <= 'Z' {
		return c + 32
	}
	return c
}

// refReplaceMatch: '.' of rows 1.. take the character of the first row, unless that one is '.' too.
func refReplaceMatch(rows gen.Rows) gen.Rows {
	out := rows.Clone()
	if len(rows) < 2 {
		return out
	}
	first := rows[0].Seq
	for i := 1; i < len(rows); i++ {
		b := []byte(rows[i].Seq)
		for j := range b {
			if b[j] == '.' && first[j] != '.' {
				b[j] = first[j]
			}
		}
		out[i].Seq = string(b)
	}
	return out
}
