// cli-multi sub-check of C04: the site extraction commands (subseq, subsites, split, extract) on Phylip
// files that hold SEVERAL alignments (what `goalign build seqboot` writes). The commands document how they
// treat such files (subseq: one output per alignment and per window, on stdout one after the other or in
// files <name>[_al<i>][_sub<j>]<ext>; extract: only the first alignment is considered); the user gives ONE set
// of coordinates, so every alignment of the file must be cut with exactly those coordinates: nothing may be
// carried over from one alignment to the next (a window moved by --step, reference coordinates already
// converted for the previous alignment, an inverted site list ...). The members of a file have different
// lengths, different gaps in the reference row and different rows, so a carried-over value shows.
// Same reference model as the API sub-checks (ref.go); the binary is the one built by cli.go.
package main

import (
	"context"
	"fmt"
	"os"
	"os/exec"
	"path/filepath"
	"sort"
	"strconv"
	"strings"
	"time"

	"github.com/evolbioinfo/goalign/align"
	"github.com/evolbioinfo/goalign/io/phylip"

	"verif/lib/gen"
	"verif/lib/h"
	"verif/lib/mon"
)

// readPhylipStream reads a text holding Phylip alignments written one after the other (any line width,
// with or without blocks; strict: the name is the first 10 characters), by the format description alone.
func readPhylipStream(text string, strict bool) ([]gen.Rows, error) {
	ls := strings.Split(text, "\n")
	strip := func(s string) string { return strings.Join(strings.Fields(s), "") }
	var out []gen.Rows
	i := 0
	for {
		for i < len(ls) && strings.TrimSpace(ls[i]) == "" {
			i++
		}
		if i >= len(ls) {
			return out, nil
		}
		hd := strings.Fields(ls[i])
		if len(hd) != 2 {
			return out, fmt.Errorf("line %d %q is not a header 'n L'", i+1, ls[i])
		}
		n, e1 := strconv.Atoi(hd[0])
		L, e2 := strconv.Atoi(hd[1])
		if e1 != nil || e2 != nil || n <= 0 || L < 0 {
			return out, fmt.Errorf("line %d %q is not a header 'n L'", i+1, ls[i])
		}
		i++
		rows := make(gen.Rows, 0, n)
		k := 0
		for k < n || len(rows[n-1].Seq) < L {
			if i >= len(ls) {
				return out, fmt.Errorf("alignment %d (header %d %d): the text ends after %d lines of rows", len(out)+1, n, L, k)
			}
			l := ls[i]
			i++
			if strings.TrimSpace(l) == "" {
				continue
			}
			if k < n {
				name, rest := "", ""
				if strict {
					cut := 10
					if len(l) < cut {
						cut = len(l)
					}
					name, rest = strip(l[:cut]), l[cut:]
				} else {
					f := strings.Fields(l)
					name = f[0]
					rest = strings.TrimLeft(l, " \t")[len(name):]
				}
				rows = append(rows, gen.Seq{Name: name, Seq: strip(rest)})
			} else {
				rows[k%n].Seq += strip(l)
			}
			k++
		}
		for _, r := range rows {
			if len(r.Seq) != L {
				return out, fmt.Errorf("alignment %d: header announces length %d, row %q has %d residues", len(out)+1, L, r.Name, len(r.Seq))
			}
		}
		out = append(out, rows)
	}
}

var multiNames = []string{"s0", "s1", "s2", "Seq0000", "Seq0001", "x_0001", "tenchars10", "elevenchars", "A|B", "a.b", "42", "ref", "S01", "prefix", "prefix2"}

// genMultiAlign: 1..3 gapped nucleotide rows plus the rows that spell the column index in base 4 (every column is unique).
func genMultiAlign(r *gen.Rand, L int, pool []string) *tal {
	t := &tal{Alpha: align.NUCLEOTIDS, L: L}
	seqs := []string{}
	for i, nb := 0, r.Range(1, 3); i < nb; i++ {
		b := r.Bytes(L, "ACGTACGTN")
		gapRuns(r, b)
		seqs = append(seqs, string(b))
	}
	nd, pow := 1, 1
	for p := 4; p < L; p *= 4 {
		nd++
	}
	for k := 0; k < nd; k++ {
		b := make([]byte, L)
		for j := 0; j < L; j++ {
			b[j] = "ACGT"[(j/pow)%4]
		}
		seqs = append(seqs, string(b))
		pow *= 4
	}
	t.NIdx = nd
	perm := r.Perm(len(pool))
	for i, s := range seqs {
		t.Rows = append(t.Rows, gen.Seq{Name: pool[perm[i]], Seq: s})
	}
	if r.Bool() {
		for i, j := 0, len(t.Rows)-1; i < j; i, j = i+1, j-1 {
			t.Rows[i], t.Rows[j] = t.Rows[j], t.Rows[i]
		}
	}
	return t
}

type mcase struct {
	c       *mon.Case
	useRef  bool   // --ref-seq (subseq, subsites)
	refName string // the same row name in every alignment
	stdout  string // of the last run
	bin     string
	dir     string
	in      string
	als     []*tal
	strict  bool     // --input-strict text
	fmtOut  []string // output layout flags
	outStr  bool     // --output-strict
	desc    string
}

func (m *mcase) show() string {
	var sb strings.Builder
	for i, t := range m.als {
		fmt.Fprintf(&sb, "alignment %d (%d rows, %d columns) = %s\n", i, len(t.Rows), t.L, h.Show(t.Rows))
	}
	return sb.String()
}

func (m *mcase) fail(cmd, kind string, run *cliRun, format string, a ...interface{}) {
	se := run.stderr
	if i := strings.Index(se, "Usage:"); i >= 0 {
		se = se[:i]
	}
	if len(se) > 1200 {
		se = se[:1200] + "…"
	}
	m.c.Failf("cli-multi-"+cmd+":"+kind, "goalign %s\n%s\n%s\nexit status %d, stderr: %s\ninput file: %d Phylip alignments\n%s", strings.Join(run.Args, " "), m.desc, fmt.Sprintf(format, a...), run.rc, strings.TrimSpace(se), len(m.als), m.show())
}

// run executes goalign in the case directory and keeps stdout (the runner of cli.go drops it).
func (m *mcase) run(args ...string) *cliRun {
	ctx, cancel := context.WithTimeout(context.Background(), 120*time.Second) // termination oracle only: a run takes milliseconds
	defer cancel()
	cmd := exec.CommandContext(ctx, m.bin, args...)
	cmd.Dir = m.dir
	var eb, ob strings.Builder
	cmd.Stderr, cmd.Stdout = &eb, &ob
	err := cmd.Run()
	r := &cliRun{Args: args, stderr: eb.String()}
	if err != nil {
		r.rc = -1
		if ee, ok := err.(*exec.ExitError); ok {
			r.rc = ee.ExitCode()
		}
	}
	if ctx.Err() == context.DeadlineExceeded {
		r.stderr += "\n(harness) the command did not return within 120 s and was killed"
	}
	r.crash = strings.Contains(r.stderr, "panic:") || strings.Contains(r.stderr, "goroutine ") || strings.Contains(r.stderr, "fatal error:") || r.rc == 2 || r.rc < 0
	m.stdout = ob.String()
	return r
}

// formatArgs: input flags of the file written by writeInput, plus output layout flags.
func (m *mcase) formatArgs() []string {
	a := []string{"-p"}
	if m.strict {
		a = append(a, "--input-strict")
	}
	if m.outStr {
		a = append(a, "--output-strict")
	}
	return append(a, m.fmtOut...)
}

func (m *mcase) writeInput(r *gen.Rand) {
	var sb strings.Builder
	for _, t := range m.als {
		sb.WriteString(phylip.WriteAlignment(h.MkAlign(t.Rows, align.NUCLEOTIDS), m.strict, r.Bool(), r.Bool()))
	}
	if err := os.WriteFile(m.in, []byte(sb.String()), 0644); err != nil {
		panic("harness: " + err.Error())
	}
}

// readOut: the alignments held by one output file (or by stdout).
func (m *mcase) readOut(cmd string, run *cliRun, what, text string) ([]gen.Rows, bool) {
	got, err := readPhylipStream(text, m.outStr)
	if err != nil {
		m.fail(cmd, "malformed-output", run, "%s is not a list of Phylip alignments: %v\n%s", what, err, clipText(text, 800))
		return nil, false
	}
	return got, true
}

func clipText(s string, n int) string {
	if len(s) > n {
		return s[:n] + "…"
	}
	return s
}

// sameRows: one output alignment against the admitted readings.
func (m *mcase) sameRows(cmd string, run *cliRun, what string, got gen.Rows, admitted ...gen.Rows) bool {
	for _, e := range admitted {
		if h.EqRows(got, e) {
			return true
		}
	}
	exp := admitted[0]
	kind := "wrong-columns"
	if len(got) != len(exp) {
		kind = "row-count"
	} else {
		for i := range exp {
			if got[i].Name != exp[i].Name {
				kind = "names-or-order"
			}
		}
	}
	m.fail(cmd, kind, run, "%s\n  observed %s\n  expected %s", what, h.Show(got), h.Show(exp))
	return false
}

// outFiles: names of the files of the case directory that start with the prefix.
func (m *mcase) outFiles(prefix string) []string {
	es, _ := os.ReadDir(m.dir)
	var out []string
	for _, e := range es {
		if strings.HasPrefix(e.Name(), prefix) {
			out = append(out, e.Name())
		}
	}
	sort.Strings(out)
	return out
}

// ---- subseq

// subseqExpect: what one alignment gives for the user's coordinates. status: valid | invalid | lenient
// (corners where the existing cli sub-check admits an error as well as a result: window running over the end,
// empty request, --reverse of everything).
func subseqExpect(t *tal, refName string, useRef bool, S, LEN, step int, reverse bool) (status string, windows []gen.Rows) {
	L := t.L
	size := L
	ri := -1
	if useRef {
		for i, r := range t.Rows {
			if r.Name == refName {
				ri = i
			}
		}
		if ri < 0 {
			return "invalid", nil
		}
		size = len(residuePositions(t.Rows[ri].Seq))
	}
	switch {
	case S < 0 || LEN < 0 || S > size || (S == size && LEN > 0):
		return "invalid", nil
	case LEN == 0 || LEN > size-S:
		return "lenient", nil
	}
	ws, wl := S, LEN
	if useRef {
		ws, wl, _ = refRefCoord(t.Rows[ri].Seq, S, LEN)
	}
	expOf := func(s, l int) gen.Rows {
		if reverse {
			return refSelect(t.Rows, refComplement(L, rangeList(s, l)))
		}
		return refSubAlign(t.Rows, s, l)
	}
	if reverse && wl == L {
		return "lenient", nil
	}
	windows = append(windows, expOf(ws, wl))
	if step > 0 {
		for s := ws + step; s+wl <= L; s += step {
			windows = append(windows, expOf(s, wl))
		}
	}
	return "valid", windows
}

func (m *mcase) subseq() {
	r, c := m.c.R, m.c
	useRef, refName := m.useRef, m.refName
	reverse := r.Chance(0.3)
	step := 0
	if !useRef && r.Chance(0.45) {
		step = r.PickInt([]int{1, 2, 3, 5, r.Range(1, 12)})
	}
	toFile := r.Chance(0.6)
	sizes := make([]int, len(m.als))
	minSize := 1 << 30
	for i, t := range m.als {
		sizes[i] = t.L
		if useRef {
			sizes[i] = 0
			for _, row := range t.Rows {
				if row.Name == refName {
					sizes[i] = len(residuePositions(row.Seq))
				}
			}
		}
		if sizes[i] < minSize {
			minSize = sizes[i]
		}
	}
	var S, LEN int
	if r.Chance(0.75) && minSize > 0 { // inside every alignment
		S = r.Intn(minSize)
		LEN = r.Range(1, minSize-S)
		if step > 0 && r.Chance(0.7) && LEN > 3 {
			LEN = r.Range(1, 3) // several windows
		}
	} else { // on the boundaries of one of them: outside another one
		sz := sizes[r.Intn(len(sizes))]
		S = r.PickInt(boundaryInts(r, sz, 2, false))
		LEN = r.PickInt(boundaryInts(r, sz, 2, false))
	}
	out := filepath.Join(m.dir, "out.phy")
	args := []string{"subseq", "-i", m.in, fmt.Sprintf("--start=%d", S), fmt.Sprintf("--length=%d", LEN)}
	args = append(args, m.formatArgs()...)
	if toFile {
		args = append(args, "-o", out)
	} else if r.Chance(0.3) {
		args = append(args, "-o", r.PickStr([]string{"stdout", "-"}))
	}
	if useRef {
		args = append(args, "--ref-seq", refName)
	}
	if reverse {
		args = append(args, r.PickStr([]string{"--reverse", "-r"}))
	}
	if step > 0 {
		args = append(args, fmt.Sprintf("--step=%d", step))
	}
	m.desc = fmt.Sprintf("start %d, length %d (ref=%v %q, reverse=%v, step=%d, output to a file=%v); sizes of the %d alignments in these coordinates: %v", S, LEN, useRef, refName, reverse, step, toFile, len(m.als), sizes)
	run := m.run(args...)
	c.Count("op:cli-multi-subseq")
	for k, b := range map[string]bool{"ref-seq": useRef, "reverse": reverse, "step": step > 0, "to-files": toFile, "to-stdout": !toFile} {
		if b {
			c.Count("cli-multi-subseq:" + k)
		}
	}
	status := "valid"
	var windows [][]gen.Rows
	for _, t := range m.als {
		st, w := subseqExpect(t, refName, useRef, S, LEN, step, reverse)
		windows = append(windows, w)
		if st == "invalid" {
			status = "invalid"
		} else if st == "lenient" && status == "valid" {
			status = "lenient"
		}
	}
	c.Count("cli-multi-subseq:" + status)
	if run.crash {
		m.fail("subseq", "crash", run, "the command crashed")
		return
	}
	switch status {
	case "invalid":
		c.Count("cli-multi-subseq:must-fail")
		if run.rc == 0 {
			m.fail("subseq", "out-of-range-accepted", run, "the command succeeded although the window is outside at least one alignment of the file")
		}
		return
	case "lenient":
		return
	}
	if run.rc != 0 {
		m.fail("subseq", "valid-rejected", run, "the window is inside every alignment of the file")
		return
	}
	nw := 0
	if !toFile {
		var flat []gen.Rows
		var label []string
		for i, ws := range windows {
			for j, w := range ws {
				flat = append(flat, w)
				label = append(label, fmt.Sprintf("alignment %d, window %d", i, j))
			}
		}
		got, ok := m.readOut("subseq", run, "stdout", m.stdout)
		if !ok {
			return
		}
		if len(got) != len(flat) {
			m.fail("subseq", "output-count", run, "stdout holds %d alignments, %d expected (windows per alignment: %v)", len(got), len(flat), windowCounts(windows))
			return
		}
		for i := range flat {
			if !m.sameRows("subseq", run, "stdout, output "+gen.Itoa(i)+" ("+label[i]+")", got[i], flat[i]) {
				return
			}
		}
		nw = len(flat)
	} else {
		expFiles := []string{}
		for i, ws := range windows {
			for j, w := range ws {
				name := "out"
				if i > 0 {
					name += "_al" + gen.Itoa(i)
				}
				if j > 0 {
					name += "_sub" + gen.Itoa(j)
				}
				name += ".phy"
				expFiles = append(expFiles, name)
				b, err := os.ReadFile(filepath.Join(m.dir, name))
				if err != nil {
					m.fail("subseq", "missing-output", run, "no file %s (alignment %d, window %d): files written: %v", name, i, j, m.outFiles("out"))
					return
				}
				got, ok := m.readOut("subseq", run, name, string(b))
				if !ok {
					return
				}
				if len(got) != 1 {
					m.fail("subseq", "output-count", run, "%s holds %d alignments, 1 expected (alignment %d, window %d)", name, len(got), i, j)
					return
				}
				if !m.sameRows("subseq", run, fmt.Sprintf("%s (alignment %d, window %d)", name, i, j), got[0], w) {
					return
				}
				nw++
			}
		}
		sort.Strings(expFiles)
		if have := m.outFiles("out"); strings.Join(have, " ") != strings.Join(expFiles, " ") {
			m.fail("subseq", "extra-output", run, "files written: %v, expected %v (windows per alignment: %v)", have, expFiles, windowCounts(windows))
			return
		}
	}
	c.Count("cli-multi-subseq:ok")
	c.Add("cli-multi-subseq:outputs-compared", nw)
	if step > 0 && len(m.als) > 1 {
		wc := windowCounts(windows)
		for _, n := range wc[1:] {
			if n != wc[0] {
				c.Count("cli-multi-subseq:alignments-with-different-window-counts")
				break
			}
		}
	}
}

func windowCounts(w [][]gen.Rows) []int {
	out := make([]int, len(w))
	for i := range w {
		out[i] = len(w[i])
	}
	return out
}

// commonRef gives the rows called by --ref-seq the same name in every alignment (sometimes not in the last one).
func (m *mcase) commonRef(r *gen.Rand, useRef bool) string {
	if !useRef {
		return ""
	}
	name := m.als[0].Rows[r.Intn(len(m.als[0].Rows))].Name
	for i, t := range m.als[1:] {
		if i == len(m.als)-2 && r.Chance(0.08) {
			// unknown in the last alignment
			for j := range t.Rows {
				if t.Rows[j].Name == name {
					t.Rows[j].Name = "other"
				}
			}
			m.c.Count("cli-multi:ref-seq-unknown-in-the-last-alignment")
			continue
		}
		ri := r.Intn(len(t.Rows))
		for j := range t.Rows {
			if t.Rows[j].Name == name {
				t.Rows[j].Name = t.Rows[ri].Name
			}
		}
		t.Rows[ri].Name = name
	}
	return name
}

// ---- subsites

func (m *mcase) subsites() {
	r, c := m.c.R, m.c
	useRef, refName := m.useRef, m.refName
	reverse := r.Chance(0.5)
	toFile := r.Chance(0.4)
	sizes := make([]int, len(m.als))
	minSize, maxSize := 1<<30, 0
	for i, t := range m.als {
		sizes[i] = t.L
		if useRef {
			sizes[i] = 0
			for _, row := range t.Rows {
				if row.Name == refName {
					sizes[i] = len(residuePositions(row.Seq))
				}
			}
		}
		if sizes[i] < minSize {
			minSize = sizes[i]
		}
		if sizes[i] > maxSize {
			maxSize = sizes[i]
		}
	}
	var sites []int
	kind := ""
	if r.Chance(0.8) && minSize > 0 { // inside every alignment
		switch kind = r.PickStr([]string{"random-with-repeats", "random-with-repeats", "one-site-repeated", "subset-any-order", "permutation", "all-descending", "single"}); kind {
		case "random-with-repeats":
			sites = make([]int, r.Range(2, 2*minSize+1))
			for i := range sites {
				sites[i] = r.Intn(minSize)
			}
			sites[len(sites)-1] = sites[0] // at least one repeat
		case "one-site-repeated":
			v := r.PickInt([]int{0, minSize - 1, r.Intn(minSize)})
			sites = make([]int, r.Range(2, 5))
			for i := range sites {
				sites[i] = v
			}
		case "subset-any-order":
			sites = r.Perm(minSize)[:r.Range(1, minSize)]
		case "permutation":
			sites = r.Perm(minSize)
		case "all-descending":
			for i := minSize - 1; i >= 0; i-- {
				sites = append(sites, i)
			}
		case "single":
			sites = []int{r.PickInt([]int{0, minSize - 1, r.Intn(minSize)})}
		}
	} else { // inside the largest one, outside the smallest one (or outside all)
		kind = "outside-one-alignment"
		sites = []int{r.Intn(minSize + 1), r.PickInt([]int{minSize, maxSize - 1, maxSize, r.Range(minSize, maxSize)})}
		if r.Bool() {
			sites[0], sites[1] = sites[1], sites[0]
		}
		if r.Chance(0.3) {
			sites = append(sites, sites[0])
		}
	}
	out := filepath.Join(m.dir, "out.phy")
	args := []string{"subsites", "-i", m.in}
	args = append(args, m.formatArgs()...)
	if toFile {
		args = append(args, "-o", out)
	}
	if useRef {
		args = append(args, "--ref-seq", refName)
	}
	if reverse {
		args = append(args, r.PickStr([]string{"--reverse", "-r"}))
	}
	siteFile := r.Chance(0.5)
	if siteFile {
		f := filepath.Join(m.dir, "sites.txt")
		os.WriteFile(f, []byte(strings.Join(siteFileLines(r, sites), "\n")+"\n"), 0644)
		args = append(args, "--sitefile", f)
	} else {
		args = append(args, itoas(sites)...)
	}
	repeats := len(dedupInts(append([]int{}, sites...))) < len(sites)
	m.desc = fmt.Sprintf("sites %v (%s; ref=%v %q, reverse=%v, site file=%v, output to a file=%v); sizes of the %d alignments in these coordinates: %v", sites, kind, useRef, refName, reverse, siteFile, toFile, len(m.als), sizes)
	run := m.run(args...)
	c.Count("op:cli-multi-subsites")
	c.Count("cli-multi-subsites:list=" + kind)
	for k, b := range map[string]bool{"ref-seq": useRef, "reverse": reverse, "sitefile": siteFile, "to-files": toFile, "to-stdout": !toFile, "repeats": repeats,
		"reverse+sitefile+repeats": reverse && siteFile && repeats} {
		if b {
			c.Count("cli-multi-subsites:" + k)
		}
	}
	// per alignment: the admitted column lists
	status := "valid"
	admitted := make([][]gen.Rows, len(m.als))
	for i, t := range m.als {
		var cols [][]int
		if useRef {
			ri := -1
			for j, row := range t.Rows {
				if row.Name == refName {
					ri = j
				}
			}
			if ri < 0 {
				status = "invalid"
				break
			}
			asc, addressed, ok := refRefSites(t.Rows[ri].Seq, sites)
			if !ok {
				status = "invalid"
				break
			}
			// RefSites may answer with the ascending set or with one position per requested site (see the assumptions)
			cols = [][]int{asc, addressed}
		} else {
			if !validSites(t.L, sites) {
				status = "invalid"
				break
			}
			cols = [][]int{sites}
		}
		if reverse {
			cols = [][]int{refComplement(t.L, cols[0])}
		}
		if len(cols[0]) == 0 {
			if status == "valid" {
				status = "lenient" // nothing remains: an error or rows without residues
			}
			continue
		}
		for _, cl := range cols {
			admitted[i] = append(admitted[i], refSelect(t.Rows, cl))
		}
	}
	c.Count("cli-multi-subsites:" + status)
	if run.crash {
		m.fail("subsites", "crash", run, "the command crashed")
		return
	}
	switch status {
	case "invalid":
		c.Count("cli-multi-subsites:must-fail")
		if run.rc == 0 {
			m.fail("subsites", "out-of-range-accepted", run, "the command succeeded although a site is outside at least one alignment of the file")
		}
		return
	case "lenient":
		return
	}
	if run.rc != 0 {
		m.fail("subsites", "valid-rejected", run, "all sites are inside every alignment of the file")
		return
	}
	var got []gen.Rows
	if !toFile {
		var ok bool
		if got, ok = m.readOut("subsites", run, "stdout", m.stdout); !ok {
			return
		}
	} else {
		// the documentation of subsites does not say where the alignments after the first one go: all in the
		// given file, or in <name>_al<i><ext> as documented for subseq
		b, err := os.ReadFile(out)
		if err != nil {
			m.fail("subsites", "missing-output", run, "no file out.phy: files written: %v", m.outFiles("out"))
			return
		}
		var ok bool
		if got, ok = m.readOut("subsites", run, "out.phy", string(b)); !ok {
			return
		}
		if len(got) == 1 {
			for i := 1; i < len(m.als); i++ {
				name := "out_al" + gen.Itoa(i) + ".phy"
				b, err := os.ReadFile(filepath.Join(m.dir, name))
				if err != nil {
					m.fail("subsites", "missing-output", run, "out.phy holds one alignment and there is no file %s: files written: %v", name, m.outFiles("out"))
					return
				}
				g, ok := m.readOut("subsites", run, name, string(b))
				if !ok {
					return
				}
				if len(g) != 1 {
					m.fail("subsites", "output-count", run, "%s holds %d alignments, 1 expected", name, len(g))
					return
				}
				got = append(got, g[0])
			}
			if have := m.outFiles("out"); len(have) != len(m.als) {
				m.fail("subsites", "extra-output", run, "files written: %v for %d alignments", have, len(m.als))
				return
			}
		}
	}
	if len(got) != len(m.als) {
		m.fail("subsites", "output-count", run, "the output holds %d alignments, the input %d", len(got), len(m.als))
		return
	}
	for i := range m.als {
		if !m.sameRows("subsites", run, "output for alignment "+gen.Itoa(i), got[i], admitted[i]...) {
			return
		}
	}
	c.Count("cli-multi-subsites:ok")
}

// ---- split (the documentation says nothing about several alignments: the first or the last one is split)

func (m *mcase) split() {
	r, c := m.c.R, m.c
	L := m.als[0].L
	var pc *pcase
	mdl := newPModel(L)
	for tries := 0; ; tries++ {
		pc = genPartition(r, L)
		pc.Text = pc.text(r)
		mdl = newPModel(L)
		ok := len(pc.Ranges) > 0
		for _, rg := range pc.Ranges {
			ok = ok && rg.Start <= rg.End && mdl.add(pc.Names[rg.Part], "M"+gen.Itoa(rg.Part), rg.Start, rg.End, rg.Mod)
		}
		if ok && mdl.complete() && len(mdl.names) >= 2 {
			break
		}
		if tries > 200 {
			return
		}
	}
	pf := filepath.Join(m.dir, "part.txt")
	os.WriteFile(pf, []byte(pc.Text), 0644)
	prefix := filepath.Join(m.dir, "blk_")
	m.desc = fmt.Sprintf("partition file %q (%s)", pc.Text, pc.Kind)
	args := append([]string{"split", "-i", m.in, "--partition", pf, "-o", prefix}, m.formatArgs()...)
	run := m.run(args...)
	c.Count("op:cli-multi-split")
	c.Count("cli-multi-split:" + pc.Kind)
	if run.crash || run.rc != 0 {
		m.fail("split", "valid-rejected", run, "the partition is complete and inside the alignments (%d columns each)", L)
		return
	}
	which := -1
	for p, name := range mdl.names {
		files := m.outFiles("blk_" + name + ".")
		if len(files) != 1 {
			m.fail("split", "missing-output", run, "partition %q: files %v, one file blk_%s.<extension> expected; files written: %v", name, files, name, m.outFiles("blk_"))
			return
		}
		b, _ := os.ReadFile(filepath.Join(m.dir, files[0]))
		got, ok := m.readOut("split", run, files[0], string(b))
		if !ok {
			return
		}
		if len(got) != 1 {
			m.fail("split", "output-count", run, "%s holds %d alignments, 1 expected", files[0], len(got))
			return
		}
		sites := mdl.sitesOf(p)
		if which < 0 {
			// all blocks must come from the same alignment of the file: the first or the last one
			if h.EqRows(got[0], refSelect(m.als[len(m.als)-1].Rows, sites)) {
				which = len(m.als) - 1
			}
			if h.EqRows(got[0], refSelect(m.als[0].Rows, sites)) {
				which = 0
			}
			if which < 0 {
				m.sameRows("split", run, "block "+files[0], got[0], refSelect(m.als[0].Rows, sites))
				return
			}
		}
		if !m.sameRows("split", run, fmt.Sprintf("block %s (the first block is the one of alignment %d)", files[0], which), got[0], refSelect(m.als[which].Rows, sites)) {
			return
		}
	}
	c.Count("cli-multi-split:ok")
}

// ---- extract (documented: only the first alignment of the file is considered)

func (m *mcase) extract() {
	r, c := m.c.R, m.c
	useRef := r.Chance(0.5)
	t := m.als[0]
	ri := r.Intn(len(t.Rows))
	size := t.L
	if useRef {
		size = len(residuePositions(t.Rows[ri].Seq))
	}
	if size == 0 {
		useRef, size = false, t.L
	}
	// a block outside the FIRST alignment (but inside a longer one of the file) must be refused
	bad := r.Chance(0.25)
	type feat struct {
		name string
		cols []int
	}
	var feats []feat
	var lines []string
	nf := r.Range(1, 3)
	for i := 0; i < nf; i++ {
		f := feat{name: "orf" + gen.Itoa(i+1)}
		var ss, es []int
		for b, nb := 0, r.Range(1, 3); b < nb; b++ {
			s := r.Intn(size)
			e := r.Range(s+1, size)
			if r.Chance(0.3) {
				e = size
			}
			if bad && i == nf-1 && b == 0 {
				e = size + r.Range(1, 3)
			}
			ss, es = append(ss, s), append(es, e)
			if e <= size {
				ws, wl := s, e-s
				if useRef {
					ws, wl, _ = refRefCoord(t.Rows[ri].Seq, s, e-s)
				}
				f.cols = append(f.cols, rangeList(ws, wl)...)
			}
		}
		feats = append(feats, f)
		lines = append(lines, strings.Join(itoas(ss), ",")+"\t"+strings.Join(itoas(es), ",")+"\t"+f.name)
	}
	cf := filepath.Join(m.dir, "coords.txt")
	os.WriteFile(cf, []byte(strings.Join(lines, "\n")+"\n"), 0644)
	od := filepath.Join(m.dir, "ex")
	os.Mkdir(od, 0755)
	args := append([]string{"extract", "-i", m.in, "--coordinates", cf, "-o", od}, m.formatArgs()...)
	if useRef {
		args = append(args, "--ref-seq", t.Rows[ri].Name)
	}
	m.desc = fmt.Sprintf("coordinates %q on the %d positions of the first alignment (ref=%v)", strings.Join(lines, " | "), size, useRef)
	run := m.run(args...)
	c.Count("op:cli-multi-extract")
	if useRef {
		c.Count("cli-multi-extract:ref-seq")
	}
	if run.crash {
		m.fail("extract", "crash", run, "the command crashed")
		return
	}
	if bad {
		c.Count("cli-multi-extract:must-fail")
		if run.rc == 0 {
			m.fail("extract", "out-of-range-accepted", run, "the command succeeded although a block is outside the first alignment (the only one considered)")
		}
		return
	}
	if run.rc != 0 {
		m.fail("extract", "valid-rejected", run, "all blocks are inside the first alignment")
		return
	}
	for _, f := range feats {
		es, _ := os.ReadDir(od)
		var files []string
		for _, e := range es {
			if strings.HasPrefix(e.Name(), f.name+".") {
				files = append(files, e.Name())
			}
		}
		if len(files) != 1 {
			m.fail("extract", "missing-output", run, "feature %s: files %v, one file %s.<extension> expected", f.name, files, f.name)
			return
		}
		b, _ := os.ReadFile(filepath.Join(od, files[0]))
		got, ok := m.readOut("extract", run, files[0], string(b))
		if !ok {
			return
		}
		if len(got) != 1 {
			m.fail("extract", "output-count", run, "%s holds %d alignments, 1 expected", files[0], len(got))
			return
		}
		if !m.sameRows("extract", run, files[0]+" (first alignment of the file)", got[0], refSelect(t.Rows, f.cols)) {
			return
		}
	}
	c.Count("cli-multi-extract:ok")
}

func runCliMulti(c *mon.Case) {
	bin, berr := cliBinary()
	if bin == "" {
		c.Count("cli:goalign-build-failed")
		c.Note("%s", berr)
		return
	}
	r := c.R
	cmd := []string{"subseq", "subsites", "subseq", "subsites", "split", "extract", "subseq", "subsites"}[c.Idx%8]
	k := r.PickInt([]int{1, 2, 2, 3, 3, 4})
	dir, err := os.MkdirTemp(scratchDir(), "c04-climulti-")
	if err != nil {
		panic("harness: " + err.Error())
	}
	defer os.RemoveAll(dir)
	m := &mcase{c: c, bin: bin, dir: dir, in: filepath.Join(dir, "in.phy")}
	m.strict = r.Chance(0.25)
	m.outStr = r.Chance(0.25)
	pool := multiNames
	if m.strict || m.outStr {
		pool = nil
		for _, n := range multiNames {
			if len(n) <= 10 {
				pool = append(pool, n)
			}
		}
	}
	if r.Chance(0.4) {
		m.fmtOut = append(m.fmtOut, "--one-line")
	}
	if r.Chance(0.4) {
		m.fmtOut = append(m.fmtOut, "--no-block")
	}
	lens := []int{1, 2, 3, 4, 5, 6, 7, 8, 9, 10, 12, 15, 16, 20, 30, 33, 60, 61, 81, 100}
	L0 := r.PickInt(lens)
	for i := 0; i < k; i++ {
		L := r.PickInt(lens)
		if cmd == "split" {
			L = L0 // one partition file: the alignments have the same length
			if L < 2 {
				L, L0 = 4, 4
			}
		}
		if cmd == "extract" && i > 0 && r.Bool() {
			L = m.lenAfter(r) // longer than the first one
		}
		m.als = append(m.als, genMultiAlign(r, L, pool))
	}
	c.Input(map[string]interface{}{"command": cmd, "alignments": m.als, "input-strict": m.strict})
	c.Count(fmt.Sprintf("cli-multi:alignments=%d", k))
	if m.strict {
		c.Count("cli-multi:input-strict")
	}
	if m.outStr {
		c.Count("cli-multi:output-strict")
	}
	if cmd == "subseq" || cmd == "subsites" {
		// the row called by --ref-seq has the same name in every alignment (fixed before the file is written)
		m.useRef = r.Chance(0.4)
		m.refName = m.commonRef(r, m.useRef)
	}
	m.writeInput(r)
	switch cmd {
	case "subseq":
		m.subseq()
	case "subsites":
		m.subsites()
	case "split":
		m.split()
	case "extract":
		m.extract()
	}
	keys := []string{cmd, m.desc}
	for _, t := range m.als {
		keys = append(keys, t.Rows.Key())
	}
	if k > 1 {
		c.NonTrivial(keys...)
	}
	c.Note("%s on %d alignments: %s", cmd, k, m.desc)
}

func (m *mcase) lenAfter(r *gen.Rand) int {
	return m.als[0].L + r.Range(1, 10)
}

// fixed command lines: a Phylip file without any alignment (a list of no alignment): nothing to do or an error, never a crash
func cliMultiWitness(c *mon.Case, which int) {
	bin, _ := cliBinary()
	if bin == "" {
		c.Count("cli:goalign-build-failed")
		return
	}
	dir, err := os.MkdirTemp(scratchDir(), "c04-climulti-")
	if err != nil {
		panic("harness: " + err.Error())
	}
	defer os.RemoveAll(dir)
	m := &mcase{c: c, bin: bin, dir: dir, in: filepath.Join(dir, "in.phy")}
	os.WriteFile(m.in, []byte(""), 0644)
	os.WriteFile(filepath.Join(dir, "part.txt"), []byte("M1,p1=1-2\nM2,p2=3-4\n"), 0644)
	os.WriteFile(filepath.Join(dir, "coords.txt"), []byte("0\t2\torf1\n"), 0644)
	os.WriteFile(filepath.Join(dir, "sites.txt"), []byte("0\n1\n"), 0644)
	cmds := [][]string{
		{"subseq", "-p", "-i", m.in, "-s", "0", "-l", "1"},
		{"subseq", "-p", "-i", m.in, "-s", "0", "-l", "1", "--step", "1", "-o", filepath.Join(dir, "out.phy")},
		{"subsites", "-p", "-i", m.in, "0", "1"},
		{"subsites", "-p", "-i", m.in, "--sitefile", filepath.Join(dir, "sites.txt"), "--reverse"},
		{"split", "-p", "-i", m.in, "--partition", filepath.Join(dir, "part.txt"), "-o", filepath.Join(dir, "blk_")},
		{"extract", "-p", "-i", m.in, "--coordinates", filepath.Join(dir, "coords.txt"), "-o", dir},
	}
	a := cmds[which%len(cmds)]
	m.desc = "empty Phylip file"
	run := m.run(a...)
	c.Count("cli-multi:empty-file:" + a[0])
	if run.crash {
		m.fail(a[0], "crash", run, "the command crashed on a Phylip file that holds no alignment")
	}
	c.Note("goalign %s: exit status %d", strings.Join(a, " "), run.rc)
}

func cliMultiFloors() {
	for k, n := range map[string]int{"op:cli-multi-subseq": 100, "op:cli-multi-subsites": 100, "op:cli-multi-split": 30, "op:cli-multi-extract": 30,
		"cli-multi-subseq:ok": 50, "cli-multi-subseq:must-fail": 8, "cli-multi-subseq:ref-seq": 20, "cli-multi-subseq:reverse": 12, "cli-multi-subseq:step": 15,
		"cli-multi-subseq:to-files": 40, "cli-multi-subseq:to-stdout": 20, "cli-multi-subseq:alignments-with-different-window-counts": 5, "cli-multi-subseq:outputs-compared": 200,
		"cli-multi-subsites:ok": 40, "cli-multi-subsites:must-fail": 10, "cli-multi-subsites:ref-seq": 20, "cli-multi-subsites:reverse": 40, "cli-multi-subsites:sitefile": 30,
		"cli-multi-subsites:repeats": 20, "cli-multi-subsites:reverse+sitefile+repeats": 3, "cli-multi-subsites:to-files": 25, "cli-multi-subsites:to-stdout": 35,
		"cli-multi-split:ok": 25, "cli-multi-extract:ok": 15, "cli-multi-extract:must-fail": 2,
		"cli-multi:alignments=1": 25, "cli-multi:alignments=2": 60, "cli-multi:alignments=3": 60, "cli-multi:alignments=4": 20, "cli-multi:input-strict": 30, "cli-multi:output-strict": 30,
		"cli-multi:empty-file:subseq": 1, "cli-multi:empty-file:subsites": 1, "cli-multi:empty-file:split": 1, "cli-multi:empty-file:extract": 1} {
		mon.Floor(k, n)
	}
}
