// C04 monitor: site extraction and coordinate conversion against a list-of-rows
// reference model, plus the re-assembly relations of the property (prefix + suffix,
// selection + complement, partition blocks, double transposition, diff + replace).
// Every alignment carries rows that encode the column index, so that a column that
// comes from the wrong place can never look right.
package main

import (
	"fmt"
	"math"
	"sort"
	"strings"

	"github.com/evolbioinfo/goalign/align"
	"github.com/evolbioinfo/goalign/io/partition"

	"verif/lib/conc"
	"verif/lib/gen"
	"verif/lib/h"
	"verif/lib/mon"
)

// ---------------------------------------------------------------- generator

type tal struct {
	Rows  gen.Rows `json:"rows"`
	L     int      `json:"L"` // width of the rows (0 when there is no row)
	Alpha int      `json:"alphabet"`
	NIdx  int      `json:"index_rows"`
}

var lenPool = []int{0, 1, 1, 2, 2, 3, 3, 4, 4, 5, 5, 6, 6, 7, 8, 9, 10, 11, 12, 13, 15, 16, 17, 20, 24, 30, 31, 32, 33, 48, 50, 63, 64, 65, 90, 100, 128, 130}

func gapRuns(r *gen.Rand, b []byte) {
	L := len(b)
	if L == 0 {
		return
	}
	if r.Chance(0.5) { // leading
		for i, n := 0, r.Range(1, 1+L/3); i < n && i < L; i++ {
			b[i] = '-'
		}
	}
	if r.Chance(0.5) { // trailing
		for i, n := 0, r.Range(1, 1+L/3); i < n && i < L; i++ {
			b[L-1-i] = '-'
		}
	}
	for k := r.Intn(3); k > 0; k-- { // internal runs
		st := r.Intn(L)
		for i, n := 0, r.Range(1, 1+L/5); i < n && st+i < L; i++ {
			b[st+i] = '-'
		}
	}
}

// genAlign: nb "biological" rows (random residues, gap runs, all-gap rows, near copies of
// each other) plus the rows that spell the column index in base 4 (nt) or 20 (aa).
func genAlign(r *gen.Rand, minRows int, L int) *tal {
	t := &tal{Alpha: align.NUCLEOTIDS}
	digits, mix := gen.NtCore, gen.NtAlphabet(r)
	if r.Chance(0.3) {
		t.Alpha = align.AMINOACIDS
		digits, mix = gen.AaCore, gen.AaAlphabet(r)
	}
	if L < 0 {
		L = r.PickInt(lenPool)
	}
	t.L = L
	nb := r.PickInt([]int{0, 1, 1, 2, 2, 3, 3, 4, 5, 6})
	seqs := []string{}
	for i := 0; i < nb; i++ {
		var b []byte
		switch r.Intn(8) {
		case 0: // no gap at all
			b = r.Bytes(L, strings.ReplaceAll(mix, "-", ""))
			if len(b) != L {
				b = r.Bytes(L, digits)
			}
		case 1: // gaps only
			b = []byte(strings.Repeat("-", L))
		case 2: // one residue in a row of gaps
			b = []byte(strings.Repeat("-", L))
			if L > 0 {
				b[r.Intn(L)] = digits[0]
			}
		case 3: // near copy of an earlier row
			if len(seqs) > 0 {
				b = []byte(seqs[r.Intn(len(seqs))])
				for k := r.Intn(3); k > 0 && L > 0; k-- {
					b[r.Intn(L)] = r.Pick(mix)
				}
			} else {
				b = r.Bytes(L, mix)
			}
		case 4, 5:
			b = r.Bytes(L, strings.ReplaceAll(mix, "-", "")+digits)
			gapRuns(r, b)
		default:
			b = r.Bytes(L, mix)
		}
		seqs = append(seqs, string(b))
	}
	if r.Chance(0.88) || nb < minRows {
		B := len(digits)
		nd := 1
		for p := B; p < L; p *= B {
			nd++
		}
		pow := 1
		for k := 0; k < nd; k++ {
			b := make([]byte, L)
			for j := 0; j < L; j++ {
				b[j] = digits[(j/pow)%B]
			}
			seqs = append(seqs, string(b))
			pow *= B
		}
		t.NIdx = nd
	}
	names := gen.UniqueNames(r, len(seqs), true)
	perm := r.Perm(len(seqs))
	t.Rows = make(gen.Rows, len(seqs))
	for i, p := range perm {
		t.Rows[i] = gen.Seq{Name: names[i], Seq: seqs[p]}
	}
	if len(t.Rows) == 0 {
		t.L = 0
	}
	return t
}

func mk(t *tal) align.Alignment { return h.MkAlign(t.Rows, t.Alpha) }

var hugeInts = []int{math.MaxInt, math.MaxInt - 1, math.MinInt, math.MinInt + 1, math.MaxInt32, math.MinInt32, -2, -100, 1 << 40}

func dedupInts(s []int) []int {
	seen := map[int]bool{}
	out := s[:0:0]
	for _, v := range s {
		if !seen[v] {
			seen[v] = true
			out = append(out, v)
		}
	}
	return out
}

// boundaryInts: every boundary value the property names around a size L, a few interior
// values and sometimes a huge one.
func boundaryInts(r *gen.Rand, L int, extra int, huge bool) []int {
	s := []int{-1, 0, 1, L - 1, L, L + 1}
	if L >= 4 {
		s = append(s, 2, L-2, L/2)
	}
	for i := 0; i < extra; i++ {
		s = append(s, r.Range(0, L))
	}
	if huge && r.Chance(0.5) {
		s = append(s, r.PickInt(hugeInts))
	}
	return dedupInts(s)
}

// classes of an argument value relative to a size (for the coverage counters)
func classes(v, L int) []string {
	out := []string{}
	add := func(b bool, s string) {
		if b {
			out = append(out, s)
		}
	}
	add(v == -1, "-1")
	add(v == 0, "0")
	add(v == 1, "1")
	add(v == L-1, "L-1")
	add(v == L, "L")
	add(v == L+1, "L+1")
	add(v >= 1<<30 || v <= -(1<<30), "huge")
	add(v < -1 && v > -(1<<30), "negative")
	if len(out) == 0 {
		if v > 0 && v < L-1 {
			out = append(out, "interior")
		} else {
			out = append(out, "beyond")
		}
	}
	return out
}

func countArg(c *mon.Case, op, arg string, v, L int) {
	for _, k := range classes(v, L) {
		c.Count(op + ":" + arg + "=" + k)
	}
}

// ---------------------------------------------------------------- comparison helpers

type ctx struct {
	c *mon.Case
	t *tal
}

func (x *ctx) fail(op, kind, format string, a ...interface{}) {
	x.c.Failf(op+":"+kind, "%s\nalignment (alphabet %d, %d rows, %d columns) = %s", fmt.Sprintf(format, a...), x.t.Alpha, len(x.t.Rows), x.t.L, h.Show(x.t.Rows))
}

func firstDiff(a, b string) int {
	for i := 0; i < len(a) && i < len(b); i++ {
		if a[i] != b[i] {
			return i
		}
	}
	if len(a) != len(b) {
		if len(a) < len(b) {
			return len(a)
		}
		return len(b)
	}
	return -1
}

// sameAlign compares a result with the expected rows: row count, names in order,
// residues, Length(), rectangularity and the invariant hook.
// appendProbe: a result owns its rows, spare capacity included: appending to every row (Concat with a clone of
// the result) doubles every row and touches nothing else. Rows cut out of one shared buffer (Transpose, Split,
// BuildBootstrap "allocating once") pass every read-only comparison and fail here.
func (x *ctx) appendProbe(op, call string, res align.Alignment, exp gen.Rows) {
	if res == nil || len(exp) == 0 || len(exp[0].Seq) == 0 || x.c.Failed() {
		return
	}
	cl, err := res.Clone()
	if err != nil {
		return
	}
	if err := res.Concat(cl); err != nil {
		x.fail(op, "append-to-result", "%s then Concat(clone of the result): %v", call, err)
		return
	}
	dbl := make(gen.Rows, len(exp))
	for i := range exp {
		dbl[i] = gen.Seq{Name: exp[i].Name, Seq: exp[i].Seq + exp[i].Seq}
	}
	x.sameAlign(op, call+" then Concat(clone of the result)", res, dbl)
	x.c.Count("relation:append-to-result:" + op)
}

func (x *ctx) sameAlign(op, call string, got align.Alignment, exp gen.Rows) bool {
	if got == nil {
		x.fail(op, "nil-result", "%s returned no alignment and no error", call)
		return false
	}
	snap := h.Snap(got)
	if len(snap) != len(exp) || got.NbSequences() != len(exp) {
		x.fail(op, "row-count", "%s: %d rows (NbSequences %d), expected %d\nresult=%s", call, len(snap), got.NbSequences(), len(exp), h.Show(snap))
		return false
	}
	for i := range exp {
		if snap[i].Name != exp[i].Name {
			x.fail(op, "names-or-order", "%s: row %d is %q, expected %q\nresult=%s", call, i, snap[i].Name, exp[i].Name, h.Show(snap))
			return false
		}
	}
	for i := range exp {
		if snap[i].Seq != exp[i].Seq {
			x.fail(op, "wrong-columns", "%s: row %d (%q) differs from column %d on\n  observed %q\n  expected %q", call, i, exp[i].Name, firstDiff(snap[i].Seq, exp[i].Seq), snap[i].Seq, exp[i].Seq)
			return false
		}
	}
	if len(exp) > 0 && got.Length() != len(exp[0].Seq) {
		x.fail(op, "length", "%s: Length() = %d, rows have %d columns", call, got.Length(), len(exp[0].Seq))
		return false
	}
	if msg := h.CheckRect(got); msg != "" {
		x.fail(op, "invariant", "%s: %s", call, msg)
		return false
	}
	return true
}

// unchanged: a query must leave its input alone.
func (x *ctx) unchanged(op, call string, al align.Alignment) {
	snap := h.Snap(al)
	if !h.EqRows(snap, x.t.Rows) || (len(x.t.Rows) > 0 && al.Length() != x.t.L) {
		x.fail(op, "input-modified", "%s changed its input: now %s (Length %d)", call, h.Show(snap), al.Length())
	}
	if msg := h.CheckRect(al); msg != "" {
		x.fail(op, "invariant", "%s: input afterwards: %s", call, msg)
	}
}

func (x *ctx) mustReject(op, call string, err error) bool {
	if err == nil {
		x.fail(op, "out-of-range-accepted", "%s returned no error although the arguments leave the alignment", call)
		return false
	}
	x.c.Count(op + ":rejected")
	return true
}

func (x *ctx) mustAccept(op, call string, err error) bool {
	if err != nil {
		x.fail(op, "valid-rejected", "%s returned the error %q although the arguments are inside the alignment", call, err.Error())
		return false
	}
	x.c.Count(op + ":ok")
	return true
}

func eqInts(a, b []int) bool {
	if len(a) != len(b) {
		return false
	}
	for i := range a {
		if a[i] != b[i] {
			return false
		}
	}
	return true
}

// ---------------------------------------------------------------- windows

func (x *ctx) checkSubAlign(al align.Alignment, start, length int) {
	call := fmt.Sprintf("SubAlign(%d,%d)", start, length)
	sub, err := al.SubAlign(start, length)
	x.c.Count("op:SubAlign")
	countArg(x.c, "SubAlign", "start", start, x.t.L)
	countArg(x.c, "SubAlign", "length", length, x.t.L)
	if validWindow(x.t.L, start, length) {
		if start+length == x.t.L {
			x.c.Count("SubAlign:window-ends-on-last-column")
		}
		if length == 0 {
			x.c.Count("SubAlign:empty-window")
		}
		if x.mustAccept("SubAlign", call, err) {
			if x.sameAlign("SubAlign", call, sub, refSubAlign(x.t.Rows, start, length)) {
				x.appendProbe("SubAlign", call, sub, refSubAlign(x.t.Rows, start, length))
			}
		}
	} else {
		x.mustReject("SubAlign", call, err)
	}
}

func (x *ctx) checkInvCoord(al align.Alignment, start, length int) {
	call := fmt.Sprintf("InverseCoordinates(%d,%d)", start, length)
	L := x.t.L
	st, ln, err := al.InverseCoordinates(start, length)
	x.c.Count("op:InverseCoordinates")
	countArg(x.c, "InverseCoordinates", "start", start, L)
	countArg(x.c, "InverseCoordinates", "length", length, L)
	if !validWindow(L, start, length) {
		x.mustReject("InverseCoordinates", call, err)
		return
	}
	if !x.mustAccept("InverseCoordinates", call, err) {
		return
	}
	if len(st) != len(ln) {
		x.fail("InverseCoordinates", "shape", "%s: %d starts, %d lengths", call, len(st), len(ln))
		return
	}
	// the windows must be inside the alignment, ascending, disjoint, and cover exactly the complement
	covered := []int{}
	prevEnd := 0
	for i := range st {
		if st[i] < 0 || ln[i] < 0 || st[i] > L || ln[i] > L-st[i] {
			x.fail("InverseCoordinates", "window-outside", "%s: window (%d,%d) leaves the alignment (starts %v lengths %v)", call, st[i], ln[i], st, ln)
			return
		}
		if st[i] < prevEnd {
			x.fail("InverseCoordinates", "windows-overlap-or-unordered", "%s: starts %v lengths %v", call, st, ln)
			return
		}
		prevEnd = st[i] + ln[i]
		covered = append(covered, rangeList(st[i], ln[i])...)
	}
	exp := refComplement(L, rangeList(start, length))
	if !eqInts(covered, exp) {
		x.fail("InverseCoordinates", "wrong-complement", "%s: starts %v lengths %v cover %v, the complement is %v", call, st, ln, covered, exp)
		return
	}
	if len(st) == 0 {
		x.c.Count("InverseCoordinates:empty-complement")
	}
	// what `subseq --reverse` does with them: SubAlign of every window, concatenated
	if len(st) > 0 && x.c.R.Chance(0.3) {
		var acc align.Alignment
		for i := range st {
			w, err := al.SubAlign(st[i], ln[i])
			if err != nil {
				x.fail("InverseCoordinates", "window-not-extractable", "%s: SubAlign(%d,%d) of a returned window: %v", call, st[i], ln[i], err)
				return
			}
			if acc == nil {
				acc = w
			} else if err = acc.Concat(w); err != nil {
				x.fail("Concat", "valid-rejected", "%s: Concat of the complement windows: %v", call, err)
				return
			}
		}
		x.c.Count("relation:reverse-window-reassembled")
		x.sameAlign("InverseCoordinates+SubAlign+Concat", call, acc, refSelect(x.t.Rows, exp))
	}
}

func (x *ctx) checkTrim(size int, fromStart bool) {
	call := fmt.Sprintf("TrimSequences(%d,fromStart=%v)", size, fromStart)
	al := mk(x.t)
	L := x.t.L
	err := al.TrimSequences(size, fromStart)
	x.c.Count("op:TrimSequences")
	countArg(x.c, "TrimSequences", "size", size, L)
	if fromStart {
		x.c.Count("TrimSequences:from-start")
	} else {
		x.c.Count("TrimSequences:from-end")
	}
	// documented: an error if the size is negative or >= the length
	if size >= 0 && size < L {
		if x.mustAccept("TrimSequences", call, err) {
			x.sameAlign("TrimSequences", call, al, refTrim(x.t.Rows, size, fromStart))
		}
	} else if x.mustReject("TrimSequences", call, err) {
		x.unchanged("TrimSequences", call, al)
	}
}

func runWindow(c *mon.Case) {
	r := c.R
	t := genAlign(r, 1, -1)
	x := &ctx{c, t}
	L := t.L
	starts := boundaryInts(r, L, 2, true)
	lens := boundaryInts(r, L, 2, true)
	c.Input(map[string]interface{}{"alignment": t, "starts": starts, "lengths": lens})
	al := mk(t)
	for _, s := range starts {
		for _, l := range lens {
			x.checkSubAlign(al, s, l)
			x.checkInvCoord(al, s, l)
			if c.Failed() {
				return
			}
		}
	}
	x.unchanged("SubAlign/InverseCoordinates", "the window queries", al)
	for _, sz := range boundaryInts(r, L, 1, true) {
		x.checkTrim(sz, true)
		x.checkTrim(sz, false)
	}
	// prefix + suffix == original, at every boundary cut
	for _, k := range dedupInts([]int{0, 1, L - 1, L, r.Range(0, L)}) {
		if k < 0 || k > L {
			continue
		}
		call := fmt.Sprintf("SubAlign(0,%d) ++ SubAlign(%d,%d)", k, k, L-k)
		p, e1 := al.SubAlign(0, k)
		s, e2 := al.SubAlign(k, L-k)
		if e1 != nil || e2 != nil {
			x.fail("SubAlign", "valid-rejected", "%s: errors %v / %v", call, e1, e2)
			return
		}
		if err := p.Concat(s); err != nil {
			x.fail("Concat", "valid-rejected", "%s: Concat: %v", call, err)
			return
		}
		c.Count("relation:prefix+suffix")
		if k == 0 {
			c.Count("relation:empty-prefix")
		}
		if k == L {
			c.Count("relation:empty-suffix")
		}
		x.sameAlign("SubAlign+Concat", call, p, t.Rows)
		x.sameAlign("Concat", call+" (argument afterwards)", s, refSubAlign(t.Rows, k, L-k))
	}
	// trimming both ends == the middle window
	if L >= 2 {
		a := r.Range(0, L-1)
		b := r.Range(0, L-1-a)
		al2 := mk(t)
		e1 := al2.TrimSequences(a, true)
		e2 := al2.TrimSequences(b, false)
		call := fmt.Sprintf("TrimSequences(%d,start) then TrimSequences(%d,end)", a, b)
		if e1 != nil || e2 != nil {
			x.fail("TrimSequences", "valid-rejected", "%s: %v / %v", call, e1, e2)
		} else {
			c.Count("relation:trim-both-ends")
			x.sameAlign("TrimSequences", call, al2, refSubAlign(t.Rows, a, L-a-b))
		}
	}
	x.unchanged("SubAlign", "the re-assembly relations", al)
	c.NonTrivial(t.Rows.Key(), fmt.Sprint(starts, lens))
	c.Note("%d rows x %d columns, %d starts x %d lengths", len(t.Rows), L, len(starts), len(lens))
}

// ---------------------------------------------------------------- site lists

type siteList struct {
	Kind  string `json:"kind"`
	Sites []int  `json:"sites"`
}

func genSiteLists(r *gen.Rand, L int) []siteList {
	out := []siteList{{"empty", []int{}}}
	for _, v := range []int{-1, 0, L - 1, L, L + 1} {
		out = append(out, siteList{"single", []int{v}})
	}
	out = append(out, siteList{"single-huge", []int{r.PickInt(hugeInts)}})
	if L > 0 {
		asc := rangeList(0, L)
		desc := make([]int, L)
		for i := range desc {
			desc[i] = L - 1 - i
		}
		out = append(out, siteList{"all-ascending", asc}, siteList{"all-descending", desc}, siteList{"permutation", r.Perm(L)})
		rep := make([]int, r.Range(1, 2*L+1))
		for i := range rep {
			rep[i] = r.Intn(L)
		}
		out = append(out, siteList{"random-with-repeats", rep})
		same := make([]int, r.Range(2, 5))
		v := r.PickInt([]int{0, L - 1, r.Intn(L)})
		for i := range same {
			same[i] = v
		}
		out = append(out, siteList{"one-site-repeated", same})
		sub := r.Perm(L)[:r.Range(1, L)]
		out = append(out, siteList{"subset-any-order", sub})
		// a valid list with one bad element somewhere
		bad := append([]int{}, rep...)
		pos := r.PickInt([]int{0, len(bad) - 1, r.Intn(len(bad))})
		bad[pos] = r.PickInt([]int{-1, L, L + 1, math.MinInt, math.MaxInt, -L})
		out = append(out, siteList{"one-bad-element", bad})
		first := []int{L - 1, 0}
		out = append(out, siteList{"last-then-first", first})
	}
	return out
}

func (x *ctx) checkSelect(al align.Alignment, sl siteList) {
	L := x.t.L
	call := fmt.Sprintf("SelectSites(%v)", sl.Sites)
	sub, err := al.SelectSites(sl.Sites)
	x.c.Count("op:SelectSites")
	x.c.Count("SelectSites:list=" + sl.Kind)
	for _, s := range sl.Sites {
		if len(sl.Sites) <= 2 {
			countArg(x.c, "SelectSites", "site", s, L)
		}
	}
	if !validSites(L, sl.Sites) {
		x.mustReject("SelectSites", call, err)
		return
	}
	if len(sl.Sites) == 0 {
		// an empty list: no column is addressed; an error ("no sites") and rows without residues are both admitted
		if err != nil {
			x.c.Count("SelectSites:empty-list-rejected")
			return
		}
	}
	if x.mustAccept("SelectSites", call, err) {
		if x.sameAlign("SelectSites", call, sub, refSelect(x.t.Rows, sl.Sites)) {
			x.appendProbe("SelectSites", call, sub, refSelect(x.t.Rows, sl.Sites))
		}
	}
}

func (x *ctx) checkInvPos(al align.Alignment, sl siteList) (inv []int, ok bool) {
	L := x.t.L
	call := fmt.Sprintf("InversePositions(%v)", sl.Sites)
	inv, err := al.InversePositions(sl.Sites)
	x.c.Count("op:InversePositions")
	x.c.Count("InversePositions:list=" + sl.Kind)
	for _, s := range sl.Sites {
		if len(sl.Sites) <= 2 {
			countArg(x.c, "InversePositions", "site", s, L)
		}
	}
	if !validSites(L, sl.Sites) {
		x.mustReject("InversePositions", call, err)
		return nil, false
	}
	if !x.mustAccept("InversePositions", call, err) {
		return nil, false
	}
	exp := refComplement(L, sl.Sites)
	if !eqInts(inv, exp) {
		x.fail("InversePositions", "wrong-complement", "%s = %v, the ascending complement is %v", call, inv, exp)
		return nil, false
	}
	return inv, true
}

func runSites(c *mon.Case) {
	r := c.R
	t := genAlign(r, 1, -1)
	x := &ctx{c, t}
	L := t.L
	lists := genSiteLists(r, L)
	c.Input(map[string]interface{}{"alignment": t, "lists": lists})
	al := mk(t)
	for _, sl := range lists {
		x.checkSelect(al, sl)
		inv, ok := x.checkInvPos(al, sl)
		if c.Failed() {
			return
		}
		if !ok {
			continue
		}
		// selection ++ selection of the complement: a column permutation of A with a known inverse
		s1, e1 := al.SelectSites(sl.Sites)
		s2, e2 := al.SelectSites(inv)
		if len(sl.Sites) == 0 && e1 != nil {
			continue
		}
		if len(inv) == 0 && e2 != nil && e1 == nil {
			// complement is empty and the empty list is refused: the selection alone must be everything
			c.Count("relation:complement-empty")
			continue
		}
		call := fmt.Sprintf("SelectSites(%v) ++ SelectSites(InversePositions = %v)", sl.Sites, inv)
		if e1 != nil || e2 != nil {
			x.fail("SelectSites", "valid-rejected", "%s: %v / %v", call, e1, e2)
			return
		}
		if err := s1.Concat(s2); err != nil {
			x.fail("Concat", "valid-rejected", "%s: %v", call, err)
			return
		}
		order := append(append([]int{}, sl.Sites...), inv...)
		if !x.sameAlign("SelectSites+InversePositions+Concat", call, s1, refSelect(t.Rows, order)) {
			return
		}
		c.Count("relation:selection+complement")
		// undo the permutation: for every column of A the first place where it sits in the re-assembly
		back := make([]int, L)
		for i := range back {
			back[i] = -1
		}
		for p, s := range order {
			if back[s] == -1 {
				back[s] = p
			}
		}
		orig, err := s1.SelectSites(back)
		if err != nil {
			x.fail("SelectSites", "valid-rejected", "%s then SelectSites(%v): %v", call, back, err)
			return
		}
		if L > 0 {
			x.sameAlign("SelectSites+InversePositions+Concat", call+" then SelectSites(inverse permutation)", orig, t.Rows)
			c.Count("relation:permutation-undone")
		}
	}
	// a window and the list of its positions address the same columns
	if L > 0 {
		s := r.Intn(L)
		l := r.Range(0, L-s)
		w, e1 := al.SubAlign(s, l)
		if e1 == nil && l > 0 {
			sel, e2 := al.SelectSites(rangeList(s, l))
			if e2 != nil {
				x.fail("SelectSites", "valid-rejected", "SelectSites(%v): %v", rangeList(s, l), e2)
			} else {
				x.sameAlign("SelectSites", fmt.Sprintf("SelectSites(range %d..%d) vs SubAlign", s, s+l-1), sel, h.Snap(w))
				c.Count("relation:window-vs-list")
			}
		}
		st, ln, e3 := al.InverseCoordinates(s, l)
		ip, e4 := al.InversePositions(rangeList(s, l))
		if e3 == nil && e4 == nil {
			cov := []int{}
			for i := range st {
				if ln[i] < 0 || ln[i] > L {
					break
				}
				cov = append(cov, rangeList(st[i], ln[i])...)
			}
			if !eqInts(cov, ip) {
				x.fail("InverseCoordinates", "disagrees-with-InversePositions", "window (%d,%d): InverseCoordinates covers %v, InversePositions of the same sites gives %v", s, l, cov, ip)
			}
			c.Count("relation:inverse-window-vs-inverse-list")
		}
	}
	x.unchanged("SelectSites/InversePositions", "the site queries", al)
	c.NonTrivial(t.Rows.Key(), fmt.Sprint(lists))
	c.Note("%d rows x %d columns, %d site lists", len(t.Rows), L, len(lists))
}

// ---------------------------------------------------------------- reference coordinates

func ungap(s string) string { return strings.ReplaceAll(s, "-", "") }

func refShape(seq string) string {
	if len(seq) == 0 {
		return "empty"
	}
	u := len(ungap(seq))
	switch {
	case u == 0:
		return "gaps-only"
	case u == len(seq):
		return "no-gap"
	}
	k := ""
	if seq[0] == '-' {
		k += "leading"
	}
	if seq[len(seq)-1] == '-' {
		k += "+trailing"
	}
	in := strings.Trim(seq, "-")
	if strings.Contains(in, "-") {
		k += "+internal"
	}
	return strings.TrimPrefix(k, "+")
}

func (x *ctx) checkRefCoord(al align.Alignment, ri int, refstart, reflen int) {
	ref := x.t.Rows[ri]
	U := len(residuePositions(ref.Seq))
	call := fmt.Sprintf("RefCoordinates(%q,%d,%d) [reference %q, %d residues]", ref.Name, refstart, reflen, ref.Seq, U)
	as, aln, err := al.RefCoordinates(ref.Name, refstart, reflen)
	x.c.Count("op:RefCoordinates")
	countArg(x.c, "RefCoordinates", "start", refstart, U)
	countArg(x.c, "RefCoordinates", "length", reflen, U)
	es, el, ok := refRefCoord(ref.Seq, refstart, reflen)
	if !ok {
		if reflen == 0 && refstart >= 0 && refstart <= U {
			// an empty request: nothing says whether it is an error; if accepted the window must be empty and inside
			if err == nil && (aln != 0 || as < 0 || as > x.t.L) {
				x.fail("RefCoordinates", "wrong-window", "%s = (%d,%d) for an empty request", call, as, aln)
			}
			x.c.Count("RefCoordinates:empty-request")
			return
		}
		kind := "out-of-range-accepted"
		if refstart >= 1<<30 || reflen >= 1<<30 {
			kind = "huge-argument-accepted"
		}
		if err == nil {
			x.fail("RefCoordinates", kind, "%s = (%d,%d) without error although residues %d..%d do not all exist", call, as, aln, refstart, refstart+reflen-1)
		} else {
			x.c.Count("RefCoordinates:rejected")
		}
		return
	}
	if !x.mustAccept("RefCoordinates", call, err) {
		return
	}
	if refstart+reflen == U {
		x.c.Count("RefCoordinates:ends-on-last-residue")
	}
	if as != es || aln != el {
		x.fail("RefCoordinates", "wrong-window", "%s = (%d,%d), the smallest window holding exactly residues %d..%d is (%d,%d)", call, as, aln, refstart, refstart+reflen-1, es, el)
		return
	}
	// what `subseq --ref-seq` does with it
	if x.c.R.Chance(0.25) {
		w, err := al.SubAlign(as, aln)
		if err != nil {
			x.fail("RefCoordinates", "window-not-extractable", "%s = (%d,%d) but SubAlign of it: %v", call, as, aln, err)
			return
		}
		if x.sameAlign("RefCoordinates+SubAlign", call, w, refSubAlign(x.t.Rows, es, el)) {
			got, _ := w.GetSequence(ref.Name)
			want := ungap(ref.Seq)[refstart : refstart+reflen]
			if ungap(got) != want || got[0] == '-' || got[len(got)-1] == '-' {
				x.fail("RefCoordinates+SubAlign", "wrong-residues", "%s: extracted reference row %q, requested residues %q", call, got, want)
			}
			x.c.Count("relation:ref-window-extracted")
		}
	}
}

type refList struct {
	Kind  string `json:"kind"`
	Sites []int  `json:"sites"`
}

func genRefLists(r *gen.Rand, U, L int) []refList {
	out := []refList{{"empty", []int{}}}
	for _, v := range dedupInts([]int{-1, 0, U - 1, U, U + 1, L - 1, L, L + 1}) {
		out = append(out, refList{"single", []int{v}})
	}
	out = append(out, refList{"single-huge", []int{r.PickInt(hugeInts)}})
	if U > 0 {
		out = append(out, refList{"all-ascending", rangeList(0, U)}, refList{"permutation", r.Perm(U)})
		rep := make([]int, r.Range(1, U+2))
		for i := range rep {
			rep[i] = r.Intn(U)
		}
		out = append(out, refList{"random-with-repeats", rep})
		bad := append([]int{}, rep...)
		bad[r.Intn(len(bad))] = r.PickInt([]int{-1, U, U + 1, L, r.Range(U, L), math.MaxInt})
		out = append(out, refList{"one-bad-element", bad})
	}
	if U < L {
		out = append(out, refList{"between-residues-and-length", []int{r.Range(U, L-1)}})
	}
	return out
}

func (x *ctx) checkRefSites(al align.Alignment, ri int, rl refList) {
	ref := x.t.Rows[ri]
	U := len(residuePositions(ref.Seq))
	call := fmt.Sprintf("RefSites(%q,%v) [reference %q, %d residues]", ref.Name, rl.Sites, ref.Seq, U)
	got, err := al.RefSites(ref.Name, rl.Sites)
	x.c.Count("op:RefSites")
	x.c.Count("RefSites:list=" + rl.Kind)
	for _, s := range rl.Sites {
		if len(rl.Sites) == 1 {
			countArg(x.c, "RefSites", "site", s, U)
		}
	}
	asc, addressed, ok := refRefSites(ref.Seq, rl.Sites)
	if !ok {
		if err == nil {
			kind := "out-of-range-accepted"
			for _, s := range rl.Sites {
				if s >= U && s < x.t.L {
					kind = "site-beyond-reference-accepted"
				}
			}
			x.fail("RefSites", kind, "%s = %v without error although a site is outside the ungapped reference", call, got)
		} else {
			x.c.Count("RefSites:rejected")
		}
		return
	}
	if !x.mustAccept("RefSites", call, err) {
		return
	}
	// admitted readings: the ascending set of positions, or one position per requested site in the addressed order
	if !eqInts(got, asc) && !eqInts(got, addressed) {
		x.fail("RefSites", "wrong-positions", "%s = %v, expected %v (ascending set) or %v (addressed order)", call, got, asc, addressed)
		return
	}
	if len(got) > 0 && x.c.R.Chance(0.3) {
		sel, err := al.SelectSites(got)
		if err != nil {
			x.fail("RefSites", "positions-not-extractable", "%s = %v but SelectSites of them: %v", call, got, err)
			return
		}
		if x.sameAlign("RefSites+SelectSites", call, sel, refSelect(x.t.Rows, got)) {
			row, _ := sel.GetSequence(ref.Name)
			if strings.Contains(row, "-") {
				x.fail("RefSites+SelectSites", "wrong-residues", "%s: extracted reference row %q holds a gap", call, row)
			}
			x.c.Count("relation:ref-sites-extracted")
		}
	}
}

func runRefCoord(c *mon.Case) {
	r := c.R
	L := -1
	if r.Chance(0.35) {
		L = r.Range(1, 9) // small: all (start,length) pairs are enumerated
	}
	t := genAlign(r, 1, L)
	// make sure at least one row has gaps
	if t.L > 0 && r.Chance(0.8) {
		i := r.Intn(len(t.Rows))
		b := []byte(t.Rows[i].Seq)
		gapRuns(r, b)
		t.Rows[i].Seq = string(b)
	}
	x := &ctx{c, t}
	al := mk(t)
	// reference rows: prefer gapped ones
	cand := []int{}
	for i, row := range t.Rows {
		if strings.Contains(row.Seq, "-") {
			cand = append(cand, i, i)
		} else {
			cand = append(cand, i)
		}
	}
	ri := cand[r.Intn(len(cand))]
	ref := t.Rows[ri]
	U := len(residuePositions(ref.Seq))
	shape := refShape(ref.Seq)
	c.Count("reference:" + shape)
	pairs := [][2]int{}
	if U <= 9 {
		for s := -1; s <= U+1; s++ {
			for l := -1; l <= U+1; l++ {
				pairs = append(pairs, [2]int{s, l})
			}
		}
		c.Count("RefCoordinates:all-pairs-enumerated")
	} else {
		ss := boundaryInts(r, U, 3, false)
		ls := boundaryInts(r, U, 3, false)
		for _, s := range ss {
			for _, l := range ls {
				pairs = append(pairs, [2]int{s, l})
			}
		}
		for k := 0; k < 6; k++ {
			s := r.Intn(U)
			pairs = append(pairs, [2]int{s, r.Range(1, U-s)}, [2]int{s, U - s}, [2]int{s, U - s + 1})
		}
	}
	lists := genRefLists(r, U, t.L)
	c.Input(map[string]interface{}{"alignment": t, "reference": ref.Name, "pairs": len(pairs), "lists": lists})
	for _, p := range pairs {
		x.checkRefCoord(al, ri, p[0], p[1])
		if c.Failed() {
			return
		}
	}
	for _, rl := range lists {
		x.checkRefSites(al, ri, rl)
	}
	// arguments whose sum overflows
	for _, p := range [][2]int{{r.PickInt(hugeInts), 1}, {0, r.PickInt(hugeInts)}, {1, math.MaxInt}, {math.MaxInt, math.MaxInt}, {U, math.MaxInt - U + 1}, {r.Range(0, U), math.MaxInt - r.Intn(3)}} {
		x.checkRefCoord(al, ri, p[0], p[1])
	}
	// a name no row carries
	missing := "no such row"
	if _, _, err := al.RefCoordinates(missing, 0, 1); err == nil {
		x.fail("RefCoordinates", "unknown-reference-accepted", "RefCoordinates(%q,0,1) returned no error", missing)
	}
	if _, err := al.RefSites(missing, []int{0}); err == nil {
		x.fail("RefSites", "unknown-reference-accepted", "RefSites(%q,[0]) returned no error", missing)
	}
	c.Count("reference:unknown-name")
	x.unchanged("RefCoordinates/RefSites", "the coordinate queries", al)
	if shape != "no-gap" {
		c.Count("reference:gapped")
	}
	c.NonTrivial(t.Rows.Key(), ref.Name)
	c.Note("reference %q (%s, %d residues in %d columns), %d (start,length) pairs, %d site lists", ref.Seq, shape, U, t.L, len(pairs), len(lists))
}

// ---------------------------------------------------------------- Concat / Append

func rowsByName(rows gen.Rows) map[string]string {
	m := map[string]string{}
	for _, r := range rows {
		m[r.Name] = r.Seq
	}
	return m
}

// concatCheck: content by name, rows of the receiver first and in their order.
func (x *ctx) concatCheck(call string, a align.Alignment, arows, crows gen.Rows) bool {
	exp := refConcat(arows, crows)
	snap := h.Snap(a)
	if len(snap) != len(exp) || a.NbSequences() != len(exp) {
		x.fail("Concat", "row-count", "%s: %d rows, expected %d (union of the names)\nresult=%s", call, len(snap), len(exp), h.Show(snap))
		return false
	}
	want := rowsByName(exp)
	seen := map[string]bool{}
	for i, r := range snap {
		w, ok := want[r.Name]
		if !ok || seen[r.Name] {
			x.fail("Concat", "names-or-order", "%s: unexpected or repeated row %q\nresult=%s", call, r.Name, h.Show(snap))
			return false
		}
		seen[r.Name] = true
		if r.Seq != w {
			x.fail("Concat", "wrong-content", "%s: row %q\n  observed %q\n  expected %q (own residues or gaps on each side)", call, r.Name, r.Seq, w)
			return false
		}
		if i < len(arows) && r.Name != arows[i].Name {
			x.fail("Concat", "names-or-order", "%s: row %d is %q, the receiver had %q there\nresult=%s", call, i, r.Name, arows[i].Name, h.Show(snap))
			return false
		}
	}
	if len(exp) > 0 && a.Length() != len(exp[0].Seq) {
		x.fail("Concat", "length", "%s: Length() = %d, rows have %d columns", call, a.Length(), len(exp[0].Seq))
		return false
	}
	if msg := h.CheckRect(a); msg != "" {
		x.fail("Concat", "invariant", "%s: %s", call, msg)
		return false
	}
	return true
}

// genPartner builds a second alignment whose names overlap those of t in a chosen way.
func genPartner(r *gen.Rand, t *tal) (*tal, string) {
	L2 := r.PickInt([]int{0, 1, 2, 3, 5, 8, t.L, t.L, t.L + 1, 13, 40})
	p := &tal{Alpha: t.Alpha, L: L2}
	mix := gen.NtCore + "-N"
	if t.Alpha == align.AMINOACIDS {
		mix = gen.AaCore + "-X"
	}
	kind := r.PickStr([]string{"same-names-same-order", "same-names-shuffled", "subset", "superset", "disjoint", "overlap", "empty"})
	names := []string{}
	tn := t.Rows.Names()
	fresh := func(k int) []string {
		out := []string{}
		for i := 0; len(out) < k; i++ {
			n := fmt.Sprintf("new%d", i)
			dup := false
			for _, m := range tn {
				if m == n {
					dup = true
				}
			}
			if !dup {
				out = append(out, n)
			}
		}
		return out
	}
	switch kind {
	case "same-names-same-order":
		names = tn
	case "same-names-shuffled":
		for _, i := range r.Perm(len(tn)) {
			names = append(names, tn[i])
		}
	case "subset":
		for _, i := range r.Perm(len(tn))[:r.Range(0, len(tn))] {
			names = append(names, tn[i])
		}
	case "superset":
		names = append(append([]string{}, tn...), fresh(r.Range(1, 3))...)
		q := r.Perm(len(names))
		nn := make([]string, len(names))
		for i, j := range q {
			nn[i] = names[j]
		}
		names = nn
	case "disjoint":
		names = fresh(r.Range(1, 4))
	case "overlap":
		for _, i := range r.Perm(len(tn))[:r.Range(0, len(tn))] {
			names = append(names, tn[i])
		}
		names = append(names, fresh(r.Range(1, 3))...)
		q := r.Perm(len(names))
		nn := make([]string, len(names))
		for i, j := range q {
			nn[i] = names[j]
		}
		names = nn
	case "empty":
	}
	if len(names) == 0 {
		kind = "empty"
		p.L = 0
	}
	for _, n := range names {
		p.Rows = append(p.Rows, gen.Seq{Name: n, Seq: r.Str(p.L, mix)})
	}
	return p, kind
}

func runConcat(c *mon.Case) {
	r := c.R
	minRows := 1
	if r.Chance(0.08) {
		minRows = 0
	}
	t := genAlign(r, minRows, -1)
	if minRows == 0 && r.Chance(0.7) {
		t.Rows, t.L, t.NIdx = nil, 0, 0
	}
	x := &ctx{c, t}
	p, kind := genPartner(r, t)
	recv := "rows"
	if len(t.Rows) == 0 {
		recv = "empty"
	}
	op := r.PickStr([]string{"Concat", "Concat", "Concat", "Append", "Concat-chain", "Concat-alphabet"})
	c.Input(map[string]interface{}{"op": op, "receiver": t, "argument": p, "names": kind})
	a, b := mk(t), mk(p)
	switch op {
	case "Concat":
		call := fmt.Sprintf("a.Concat(c) with c=%s", h.Show(p.Rows))
		c.Count("op:Concat")
		c.Count("Concat:names=" + kind)
		c.Count("Concat:receiver=" + recv)
		if p.L != t.L {
			c.Count("Concat:different-widths")
		}
		err := a.Concat(b)
		if !x.mustAccept("Concat", call, err) {
			return
		}
		x.concatCheck(call, a, t.Rows, p.Rows)
		if !h.EqRows(h.Snap(b), p.Rows) {
			x.fail("Concat", "argument-modified", "%s changed its argument: now %s", call, h.Show(h.Snap(b)))
		}
	case "Concat-alphabet":
		other := align.AMINOACIDS
		if t.Alpha == align.AMINOACIDS {
			other = align.NUCLEOTIDS
		}
		b2 := h.MkAlign(p.Rows, other)
		call := fmt.Sprintf("a.Concat(c) with c of the other alphabet, c=%s", h.Show(p.Rows))
		c.Count("op:Concat")
		c.Count("Concat:alphabet-mismatch")
		err := a.Concat(b2)
		if err == nil {
			x.fail("Concat", "alphabet-mismatch-accepted", "%s returned no error (documented: error if the alphabets differ)", call)
			return
		}
		x.unchanged("Concat", call, a)
	case "Concat-chain":
		// several blocks taken out of t and glued again (what `extract` does): equals the list selection
		if t.L == 0 || len(t.Rows) == 0 {
			return
		}
		var acc align.Alignment
		order := []int{}
		nblocks := r.Range(2, 4)
		desc := ""
		for k := 0; k < nblocks; k++ {
			s := r.Intn(t.L)
			l := r.Range(r.Intn(2), t.L-s)
			w, err := a.SubAlign(s, l)
			if err != nil {
				x.fail("SubAlign", "valid-rejected", "SubAlign(%d,%d): %v", s, l, err)
				return
			}
			desc += fmt.Sprintf("[%d,%d) ", s, s+l)
			order = append(order, rangeList(s, l)...)
			if acc == nil {
				acc = w
			} else if err := acc.Concat(w); err != nil {
				x.fail("Concat", "valid-rejected", "Concat of block %s: %v", desc, err)
				return
			}
		}
		c.Count("op:Concat")
		c.Count("relation:blocks-reassembled")
		x.sameAlign("SubAlign+Concat", "blocks "+desc, acc, refSelect(t.Rows, order))
		x.unchanged("SubAlign", "blocks "+desc, a)
	case "Append":
		call := fmt.Sprintf("a.Append(c) with c=%s", h.Show(p.Rows))
		c.Count("op:Append")
		c.Count("Append:names=" + kind)
		err := a.Append(b)
		mismatch := len(t.Rows) > 0 && len(p.Rows) > 0 && p.L != t.L
		if mismatch {
			c.Count("Append:different-widths")
			if err == nil {
				x.fail("Append", "ragged-accepted", "%s returned no error although the rows have %d and %d columns", call, t.L, p.L)
				return
			}
			x.unchanged("Append", call, a)
			return
		}
		if !x.mustAccept("Append", call, err) {
			return
		}
		// rows of a, then the rows of c in their order; a name a already carries is renamed by goalign
		// (documented by its warning); only the residues are compared for those
		snap := h.Snap(a)
		if len(snap) != len(t.Rows)+len(p.Rows) {
			x.fail("Append", "row-count", "%s: %d rows, expected %d\nresult=%s", call, len(snap), len(t.Rows)+len(p.Rows), h.Show(snap))
			return
		}
		have := rowsByName(t.Rows)
		for i, row := range snap {
			var w gen.Seq
			if i < len(t.Rows) {
				w = t.Rows[i]
			} else {
				w = p.Rows[i-len(t.Rows)]
			}
			_, collides := have[w.Name]
			if row.Seq != w.Seq || (row.Name != w.Name && !(i >= len(t.Rows) && collides)) {
				x.fail("Append", "wrong-rows", "%s: row %d is %q:%s, expected %q:%s", call, i, row.Name, row.Seq, w.Name, w.Seq)
				return
			}
		}
		if msg := h.CheckRect(a); msg != "" {
			x.fail("Append", "invariant", "%s: %s", call, msg)
		}
	}
	c.NonTrivial(op, t.Rows.Key(), p.Rows.Key())
	c.Note("%s: receiver %d rows x %d, argument %d rows x %d (%s)", op, len(t.Rows), t.L, len(p.Rows), p.L, kind)
}

// ---------------------------------------------------------------- partitions / Split

type pcase struct {
	Kind   string   `json:"kind"`
	Names  []string `json:"names"`
	Ranges []prange `json:"ranges"`
	Via    string   `json:"via"`
	Text   string   `json:"text,omitempty"`
}

func runsOf(sites []int) [][2]int {
	out := [][2]int{}
	for i := 0; i < len(sites); {
		j := i
		for j+1 < len(sites) && sites[j+1] == sites[j]+1 {
			j++
		}
		out = append(out, [2]int{sites[i], sites[j]})
		i = j + 1
	}
	return out
}

// genPartition builds the list of range definitions of one case.
func genPartition(r *gen.Rand, L int) *pcase {
	pc := &pcase{}
	k := r.Range(2, 4)
	kind := r.PickStr([]string{"blocks", "blocks", "codon", "codon+flank", "modulo", "scattered", "scattered", "incomplete", "single-partition", "bad-range", "overlap", "huge-stride"})
	if kind == "huge-stride" && L < 3 {
		kind = "blocks"
	}
	if L < 3 && (kind == "codon" || kind == "codon+flank" || kind == "modulo") {
		kind = "scattered"
	}
	if L == 0 {
		kind = "bad-range"
	}
	pc.Kind = kind
	for i := 0; i < 5; i++ {
		pc.Names = append(pc.Names, r.PickStr([]string{"p", "part", "gene", "codon", "P_"})+gen.Itoa(i+1))
	}
	add := func(p, s, e, m int) { pc.Ranges = append(pc.Ranges, prange{Part: p, Start: s, End: e, Mod: m}) }
	switch kind {
	case "blocks":
		if k > L {
			k = L
		}
		cuts := r.Perm(L - 1)[:k-1]
		sort.Ints(cuts)
		prev := 0
		for i := 0; i < k; i++ {
			end := L - 1
			if i < k-1 {
				end = cuts[i]
			}
			add(i, prev, end, 1)
			prev = end + 1
		}
	case "codon":
		for i := 0; i < 3; i++ {
			add(i, i, L-1, 3)
		}
	case "codon+flank":
		a := r.Range(0, L-3)
		b := r.Range(a+2, L-1)
		fl := r.PickInt([]int{3, 3, 0}) // the flanks form their own partition or belong to the first codon position
		if a > 0 {
			add(fl, 0, a-1, 1)
		}
		add(0, a, b, 3)
		if b < L-1 && fl == 0 { // a plain range right after a modulo range of the same partition
			add(fl, b+1, L-1, 1)
		}
		add(1, a+1, b, 3)
		add(2, a+2, b, 3)
		if b < L-1 && fl != 0 {
			add(fl, b+1, L-1, 1)
		}
	case "modulo":
		m := r.Range(2, 5)
		if m > L {
			m = L
		}
		parts := r.Range(2, m)
		for i := 0; i < m; i++ {
			add(i%parts, i, L-1, m)
		}
	case "scattered", "incomplete", "single-partition":
		if kind == "single-partition" {
			k = 1
		}
		code := make([]int, L)
		for i := range code {
			code[i] = r.Intn(k)
			if kind == "incomplete" && r.Chance(0.2) {
				code[i] = -1
			}
		}
		if kind == "incomplete" && L > 0 {
			code[r.PickInt([]int{0, L - 1, r.Intn(L)})] = -1
		}
		for p := 0; p < k; p++ {
			s := []int{}
			for i, cd := range code {
				if cd == p {
					s = append(s, i)
				}
			}
			for _, run := range runsOf(s) {
				add(p, run[0], run[1], 1)
			}
		}
		// ranges are given in any order
		q := r.Perm(len(pc.Ranges))
		rr := make([]prange, len(pc.Ranges))
		for i, j := range q {
			rr[i] = pc.Ranges[j]
		}
		pc.Ranges = rr
	case "bad-range":
		if L > 1 {
			add(0, 0, L/2-1+r.Intn(2)*0, 1)
		}
		switch r.Intn(6) {
		case 0:
			add(1, L/2, L, 1) // end == L
		case 1:
			add(1, L, L, 1) // single site L
		case 2:
			add(1, -1, L-1, 1) // start == -1 (position 0 in the file)
		case 3:
			add(1, L/2, L-1, 0) // modulo 0
		case 4:
			add(1, L/2, L+1, 3)
		case 5:
			add(1, L/2, L-1, -2)
		}
	case "huge-stride":
		// a stride that start + stride overflows: the range is its first site only
		st := r.Range(1, L-2)
		add(0, st, L-1, r.PickInt([]int{math.MaxInt64, math.MaxInt64 - 1, math.MaxInt64 - L, math.MaxInt64 - st, math.MaxInt32, L, L + 1, L - st}))
		add(1, 0, st-1, 1)
		add(1, st+1, L-1, 1)
	case "overlap":
		add(0, 0, L-1, 1)
		s := r.Intn(L)
		add(1, s, r.Range(s, L-1), r.Range(1, 3))
	}
	return pc
}

// text renders the ranges in the partition file format (1-based positions, "model,name=a-b/m,...").
func (pc *pcase) text(r *gen.Rand) string {
	var sb strings.Builder
	sp := func() string {
		if r.Chance(0.3) {
			return " "
		}
		return ""
	}
	eol := "\n"
	if r.Chance(0.2) {
		eol = "\r\n"
	}
	// group consecutive ranges of the same partition on one line (sometimes one line per range)
	i := 0
	for i < len(pc.Ranges) {
		j := i
		for j+1 < len(pc.Ranges) && pc.Ranges[j+1].Part == pc.Ranges[i].Part && r.Chance(0.8) {
			j++
		}
		p := pc.Ranges[i].Part
		sb.WriteString("M" + gen.Itoa(p) + "," + sp() + pc.Names[p] + sp() + "=" + sp())
		for k := i; k <= j; k++ {
			rg := pc.Ranges[k]
			if k > i {
				sb.WriteString("," + sp())
			}
			if rg.Start == rg.End && rg.Mod == 1 {
				sb.WriteString(gen.Itoa(rg.Start + 1))
			} else {
				sb.WriteString(gen.Itoa(rg.Start+1) + "-" + gen.Itoa(rg.End+1))
			}
			if rg.Mod != 1 {
				sb.WriteString("/" + gen.Itoa(rg.Mod))
			}
		}
		i = j + 1
		if i < len(pc.Ranges) || r.Chance(0.7) {
			sb.WriteString(eol)
			if r.Chance(0.1) {
				sb.WriteString(eol)
			}
		}
	}
	return sb.String()
}

func (x *ctx) comparePS(tag string, ps *align.PartitionSet, m *pmodel) bool {
	if ps.AliLength() != m.L {
		x.fail("PartitionSet", "wrong-map", "%s: AliLength() = %d, expected %d", tag, ps.AliLength(), m.L)
		return false
	}
	if ps.NPartitions() != len(m.names) {
		x.fail("PartitionSet", "wrong-map", "%s: %d partitions, expected %d (%v)", tag, ps.NPartitions(), len(m.names), m.names)
		return false
	}
	for i, n := range m.names {
		if ps.PartitionName(i) != n || ps.ModeleName(i) != m.models[i] {
			x.fail("PartitionSet", "wrong-map", "%s: partition %d is %q (model %q), expected %q (model %q)", tag, i, ps.PartitionName(i), ps.ModeleName(i), n, m.models[i])
			return false
		}
	}
	got := make([]int, m.L)
	for i := range got {
		got[i] = ps.Partition(i)
	}
	if !eqInts(got, m.codes) {
		x.fail("PartitionSet", "wrong-map", "%s: site -> partition map is %v, expected %v", tag, got, m.codes)
		return false
	}
	if ps.Partition(-1) != -1 || ps.Partition(m.L) != -1 || ps.Partition(m.L+1) != -1 {
		x.fail("PartitionSet", "outside-site-has-partition", "%s: Partition(-1)=%d Partition(L)=%d Partition(L+1)=%d, documented -1", tag, ps.Partition(-1), ps.Partition(m.L), ps.Partition(m.L+1))
		return false
	}
	if (ps.CheckSites() == nil) != m.complete() {
		x.fail("PartitionSet", "CheckSites", "%s: CheckSites() = %v, all sites assigned = %v", tag, ps.CheckSites(), m.complete())
		return false
	}
	return true
}

func runSplit(c *mon.Case) {
	r := c.R
	L := r.PickInt([]int{1, 2, 3, 3, 4, 5, 6, 6, 7, 8, 9, 10, 11, 12, 13, 15, 16, 20, 30, 31, 33, 50, 64, 100})
	t := genAlign(r, 1, L)
	if r.Chance(0.12) && t.L > 0 {
		// bytes above 0x7f (a Latin-1 or UTF-8 encoded character in the residues): columns are columns of bytes
		for k := r.Range(1, 6); k > 0; k-- {
			i, j := r.Intn(len(t.Rows)), r.Intn(t.L)
			b := []byte(t.Rows[i].Seq)
			b[j] = []byte{0xC3, 0xA9, 0x80, 0xFF, 0xE6}[r.Intn(5)]
			t.Rows[i].Seq = string(b)
		}
		if r.Bool() { // ... in the same column of every row
			j := r.Intn(t.L)
			for i := range t.Rows {
				b := []byte(t.Rows[i].Seq)
				b[j] = 0xE9
				t.Rows[i].Seq = string(b)
			}
		}
		c.Count("split:bytes-above-0x7f")
	}
	x := &ctx{c, t}
	pc := genPartition(r, t.L)
	pc.Via = r.PickStr([]string{"AddRange", "parser", "parser"})
	m := newPModel(t.L)
	var ps *align.PartitionSet
	expOK := true
	degenerate := false // a range with start > end: addresses nothing; an error or an empty definition are both admitted
	for _, rg := range pc.Ranges {
		if rg.Start > rg.End && m.rangeValid(rg.Start, rg.End, rg.Mod) {
			degenerate = true
		}
	}
	if len(pc.Ranges) == 0 { // nothing is defined: an empty partition file may be refused
		degenerate = true
	}
	var err error
	if pc.Via == "AddRange" {
		ps = align.NewPartitionSet(t.L)
		c.Input(map[string]interface{}{"alignment": t, "partition": pc})
		for _, rg := range pc.Ranges {
			ok := m.add(pc.Names[rg.Part], "M"+gen.Itoa(rg.Part), rg.Start, rg.End, rg.Mod)
			e := ps.AddRange(pc.Names[rg.Part], "M"+gen.Itoa(rg.Part), rg.Start, rg.End, rg.Mod)
			c.Count("op:AddRange")
			if rg.Mod > 1 {
				c.Count("AddRange:modulo")
			}
			countArg(c, "AddRange", "end", rg.End, t.L)
			countArg(c, "AddRange", "start", rg.Start, t.L)
			if !ok {
				expOK = false
				if e == nil {
					x.fail("AddRange", "bad-range-accepted", "AddRange(%q, start=%d, end=%d, modulo=%d) returned no error (site outside the alignment, modulo < 1 or site already assigned)", pc.Names[rg.Part], rg.Start, rg.End, rg.Mod)
					return
				}
				c.Count("AddRange:rejected")
				break
			}
			if e != nil {
				if degenerate {
					return
				}
				x.fail("AddRange", "valid-rejected", "AddRange(%q, start=%d, end=%d, modulo=%d): %v", pc.Names[rg.Part], rg.Start, rg.End, rg.Mod, e)
				return
			}
		}
	} else {
		pc.Text = pc.text(r)
		c.Input(map[string]interface{}{"alignment": t, "partition": pc})
		for _, rg := range pc.Ranges {
			if !m.add(pc.Names[rg.Part], "M"+gen.Itoa(rg.Part), rg.Start, rg.End, rg.Mod) {
				expOK = false
				break
			}
		}
		ps, err = partition.NewParser(strings.NewReader(pc.Text)).Parse(t.L)
		c.Count("op:ParsePartition")
		if !expOK {
			if err == nil {
				x.fail("ParsePartition", "bad-range-accepted", "partition text %q parsed without error for an alignment of %d columns", pc.Text, t.L)
				return
			}
			c.Count("ParsePartition:rejected")
		} else if err != nil {
			if degenerate {
				return
			}
			x.fail("ParsePartition", "valid-rejected", "partition text %q for %d columns: %v", pc.Text, t.L, err)
			return
		}
	}
	c.Count("partition:" + pc.Kind)
	c.Count("partition-via:" + pc.Via)
	if !expOK {
		c.NonTrivial(t.Rows.Key(), fmt.Sprint(pc.Ranges), pc.Via)
		return
	}
	if !x.comparePS("partition set built through "+pc.Via+" from "+fmt.Sprint(pc.Ranges)+" "+pc.Text, ps, m) {
		return
	}
	// String() parsed again gives the same map (partitions without site are not printed with a range: skipped)
	allNonEmpty := true
	for p := range m.names {
		if len(m.sitesOf(p)) == 0 {
			allNonEmpty = false
		}
	}
	if allNonEmpty && len(m.names) > 0 {
		txt := ps.String()
		ps2, err := partition.NewParser(strings.NewReader(txt)).Parse(t.L)
		c.Count("op:PartitionSet.String")
		if err != nil {
			x.fail("PartitionSet.String", "not-reparsable", "String() = %q does not parse: %v (ranges %v)", txt, err, pc.Ranges)
			return
		}
		if !x.comparePS(fmt.Sprintf("String() = %q parsed again (ranges %v)", txt, pc.Ranges), ps2, m) {
			return
		}
	}
	al := mk(t)
	call := fmt.Sprintf("Split(partition map %v)", m.codes)
	// a partition set made for another length must be refused
	if r.Chance(0.15) {
		other := align.NewPartitionSet(t.L + r.PickInt([]int{-1, 1}))
		for _, rg := range []prange{{0, 0, 0, 1}, {1, 1, other.AliLength() - 1, 1}} {
			if rg.End >= rg.Start && rg.End < other.AliLength() {
				other.AddRange(pc.Names[rg.Part], "M", rg.Start, rg.End, rg.Mod)
			}
		}
		if other.NPartitions() >= 2 {
			c.Count("Split:other-length")
			if _, err := al.Split(other); err == nil {
				x.fail("Split", "out-of-range-accepted", "Split with a partition set for %d columns on an alignment of %d columns returned no error", other.AliLength(), t.L)
				return
			}
		}
	}
	blocks, err := al.Split(ps)
	c.Count("op:Split")
	if len(m.names) <= 1 {
		c.Count("Split:less-than-2-partitions")
		if err == nil {
			x.fail("Split", "single-partition-accepted", "%s with %d partition returned no error (documented: an error)", call, len(m.names))
		}
		return
	}
	if !m.complete() {
		// unassigned sites: nothing says whether Split refuses; if it answers, the blocks must still be right
		c.Count("Split:incomplete-map")
		if err != nil {
			return
		}
	} else if !x.mustAccept("Split", call, err) {
		return
	}
	if len(blocks) != len(m.names) {
		x.fail("Split", "block-count", "%s: %d blocks for %d partitions", call, len(blocks), len(m.names))
		return
	}
	for p := range m.names {
		sites := m.sitesOf(p)
		if len(sites) == 0 {
			c.Count("Split:empty-block")
			if blocks[p] != nil && blocks[p].NbSequences() != 0 && blocks[p].Length() != 0 {
				x.fail("Split", "wrong-columns", "%s: block %d has no site but %d columns", call, p, blocks[p].Length())
			}
			continue
		}
		if !x.sameAlign("Split", fmt.Sprintf("%s block %d (%q, sites %v)", call, p, m.names[p], sites), blocks[p], refSelect(t.Rows, sites)) {
			return
		}
	}
	// re-interleave the blocks by the map
	if m.complete() {
		next := make([]int, len(blocks))
		snaps := make([]gen.Rows, len(blocks))
		for p := range blocks {
			snaps[p] = h.Snap(blocks[p])
		}
		re := make([][]byte, len(t.Rows))
		for i := range re {
			re[i] = make([]byte, t.L)
		}
		for j, p := range m.codes {
			for i := range re {
				re[i][j] = snaps[p][i].Seq[next[p]]
			}
			next[p]++
		}
		for i := range re {
			if string(re[i]) != t.Rows[i].Seq {
				x.fail("Split", "blocks-do-not-reassemble", "%s: row %d re-interleaved is %q, original %q", call, i, re[i], t.Rows[i].Seq)
				return
			}
		}
		c.Count("relation:blocks-reinterleaved")
	}
	// every block owns its rows (the partitioned bootstrap concatenates onto them)
	for p := range blocks {
		if blocks[p] != nil && blocks[p].NbSequences() > 0 && blocks[p].Length() > 0 {
			x.appendProbe("Split", fmt.Sprintf("%s block %d", call, p), blocks[p], h.Snap(blocks[p]))
		}
	}
	// ... and the other blocks and the input did not move
	x.unchanged("Split", call, al)
	c.NonTrivial(t.Rows.Key(), fmt.Sprint(pc.Ranges), pc.Via)
	c.Note("%s via %s: %d partitions over %d columns, map %v", pc.Kind, pc.Via, len(m.names), t.L, m.codes)
}

// ---------------------------------------------------------------- Transpose / DiffWithFirst / ReplaceMatchChars

func runTransform(c *mon.Case) {
	r := c.R
	t := genAlign(r, 1, -1)
	// rows close to the first one, so that many characters match it; sometimes '.' already present
	dots := r.Chance(0.25)
	if len(t.Rows) >= 2 && t.L > 0 {
		for i := 1; i < len(t.Rows); i++ {
			if r.Chance(0.5) {
				b := []byte(t.Rows[0].Seq)
				for k := r.Intn(4); k > 0; k-- {
					b[r.Intn(t.L)] = r.Pick("ACGTacgtN-")
				}
				t.Rows[i].Seq = string(b)
			}
		}
	}
	if dots && t.L > 0 {
		for k := r.Range(1, 4); k > 0; k-- {
			i := r.Intn(len(t.Rows))
			b := []byte(t.Rows[i].Seq)
			b[r.Intn(t.L)] = '.'
			t.Rows[i].Seq = string(b)
		}
		c.Count("transform:input-with-match-chars")
	}
	x := &ctx{c, t}
	c.Input(map[string]interface{}{"alignment": t})
	al := mk(t)

	// Transpose
	tr, err := al.Transpose()
	c.Count("op:Transpose")
	if x.mustAccept("Transpose", "Transpose()", err) {
		exp := refTranspose(t.Rows)
		if x.sameAlign("Transpose", "Transpose()", tr, exp) && t.L > 0 {
			tt, err := tr.Transpose()
			if x.mustAccept("Transpose", "Transpose() twice", err) {
				// names aside: rows are renamed 0..n-1
				back := make(gen.Rows, len(t.Rows))
				for i, row := range t.Rows {
					back[i] = gen.Seq{Name: gen.Itoa(i), Seq: row.Seq}
				}
				x.sameAlign("Transpose", "Transpose() twice", tt, back)
				c.Count("relation:transpose-twice")
			}
			x.appendProbe("Transpose", "Transpose()", tr, exp)
		}
	}
	x.unchanged("Transpose", "Transpose()", al)

	// DiffWithFirst then ReplaceMatchChars
	d := mk(t)
	d.DiffWithFirst()
	c.Count("op:DiffWithFirst")
	exp, loose := refDiff(t.Rows)
	snap := h.Snap(d)
	okDiff := true
	if len(snap) != len(exp) {
		x.fail("DiffWithFirst", "row-count", "DiffWithFirst(): %d rows, expected %d", len(snap), len(exp))
		return
	}
	nmatch := 0
	for i := range exp {
		if snap[i].Name != exp[i].Name || len(snap[i].Seq) != len(exp[i].Seq) {
			x.fail("DiffWithFirst", "names-or-order", "DiffWithFirst(): row %d is %q (%d columns), expected %q (%d columns)", i, snap[i].Name, len(snap[i].Seq), exp[i].Name, len(exp[i].Seq))
			return
		}
		for j := 0; j < len(exp[i].Seq); j++ {
			g, w := snap[i].Seq[j], exp[i].Seq[j]
			if w == '.' && i > 0 {
				nmatch++
			}
			if g != w && !(loose[[2]int{i, j}] && g == '.') {
				x.fail("DiffWithFirst", "wrong-character", "DiffWithFirst(): row %d column %d is %q, expected %q (first row has %q, the row had %q)\nresult=%s", i, j, g, w, t.Rows[0].Seq[j], t.Rows[i].Seq[j], h.Show(snap))
				okDiff = false
				break
			}
		}
		if !okDiff {
			return
		}
	}
	if len(loose) > 0 {
		c.Count("DiffWithFirst:case-only-difference")
	}
	if nmatch > 0 {
		c.Count("DiffWithFirst:with-matches")
	}
	if msg := h.CheckRect(d); msg != "" {
		x.fail("DiffWithFirst", "invariant", "%s", msg)
	}
	// replace on goalign's own diff
	before := h.Snap(d)
	d.ReplaceMatchChars()
	c.Count("op:ReplaceMatchChars")
	if !x.sameAlign("ReplaceMatchChars", "ReplaceMatchChars() after DiffWithFirst()", d, refReplaceMatch(before)) {
		return
	}
	if !dots {
		// no match character in A: the round trip gives A back, bit for bit (whatever DiffWithFirst does with
		// characters that differ from the first row by case only: the statement asks for the original alignment)
		x.sameAlign("DiffWithFirst+ReplaceMatchChars", "ReplaceMatchChars() after DiffWithFirst()", d, t.Rows)
		c.Count("relation:diff-then-replace")
	}
	// replace on an arbitrary input with match characters
	if dots {
		e := mk(t)
		e.ReplaceMatchChars()
		x.sameAlign("ReplaceMatchChars", "ReplaceMatchChars()", e, refReplaceMatch(t.Rows))
	}
	if len(t.Rows) < 2 {
		c.Count("transform:less-than-2-rows")
	}
	c.NonTrivial(t.Rows.Key())
	c.Note("%d rows x %d columns, %d characters equal to the first row", len(t.Rows), t.L, nmatch)
}

// ---------------------------------------------------------------- witnesses

func rowsOf(pairs ...string) gen.Rows {
	out := gen.Rows{}
	for i := 0; i+1 < len(pairs); i += 2 {
		out = append(out, gen.Seq{Name: pairs[i], Seq: pairs[i+1]})
	}
	return out
}

var witnesses = []func(c *mon.Case){
	// 0: defect #4: SelectSites / InversePositions with site == L (fixed by 3535487)
	func(c *mon.Case) {
		t := &tal{Rows: rowsOf("a", "ACGT", "b", "TTGA"), L: 4, Alpha: align.NUCLEOTIDS}
		x := &ctx{c, t}
		al := mk(t)
		for _, sl := range []siteList{{"single", []int{4}}, {"one-bad-element", []int{0, 4}}, {"single", []int{5}}, {"single", []int{-1}}, {"single", []int{3}}} {
			x.checkSelect(al, sl)
			x.checkInvPos(al, sl)
		}
	},
	// 1: defect #3: Concat onto an empty alignment (fixed by 1ff96a8)
	func(c *mon.Case) {
		t := &tal{Rows: nil, L: 0, Alpha: align.NUCLEOTIDS}
		x := &ctx{c, t}
		p := rowsOf("a", "ACGT", "b", "TTGA")
		a := mk(t)
		if x.mustAccept("Concat", "empty.Concat(c)", a.Concat(h.MkAlign(p, align.NUCLEOTIDS))) {
			x.concatCheck("empty.Concat(c)", a, nil, p)
		}
	},
	// 2: defect #3: Concat with an empty argument
	func(c *mon.Case) {
		t := &tal{Rows: rowsOf("a", "ACGT", "b", "TTGA"), L: 4, Alpha: align.NUCLEOTIDS}
		x := &ctx{c, t}
		a := mk(t)
		if x.mustAccept("Concat", "a.Concat(empty)", a.Concat(align.NewAlign(align.NUCLEOTIDS))) {
			x.concatCheck("a.Concat(empty)", a, t.Rows, nil)
		}
	},
	// 3: the documented examples of subseq / subsites --ref-seq and of the unit tests
	func(c *mon.Case) {
		t := &tal{Rows: rowsOf("s1", "--ACG--AT-GC", "s2", "GGACGTTATCGC"), L: 12, Alpha: align.NUCLEOTIDS}
		x := &ctx{c, t}
		al := mk(t)
		s, l, err := al.RefCoordinates("s1", 0, 4)
		if err != nil || s != 2 || l != 6 {
			x.fail("RefCoordinates", "wrong-window", "documented example: RefCoordinates(s1,0,4) = (%d,%d,%v), documentation shows ACG--A = (2,6)", s, l, err)
		}
		sites, err := al.RefSites("s1", []int{1, 2, 3})
		if err != nil || !eqInts(sites, []int{3, 4, 7}) {
			x.fail("RefSites", "wrong-positions", "documented example: RefSites(s1,[1 2 3]) = %v,%v, documentation shows columns CGA = [3 4 7]", sites, err)
		}
		for s := -1; s <= 8; s++ {
			for l := -1; l <= 8; l++ {
				x.checkRefCoord(al, 0, s, l)
			}
		}
	},
	// 4: RefSites with a site beyond the last residue of the reference but inside the alignment
	func(c *mon.Case) {
		t := &tal{Rows: rowsOf("s1", "--ACG--AT-GC", "s2", "GGACGTTATCGC"), L: 12, Alpha: align.NUCLEOTIDS}
		x := &ctx{c, t}
		al := mk(t)
		for _, rl := range []refList{{"single", []int{6}}, {"single", []int{7}}, {"single", []int{8}}, {"single", []int{11}}, {"single", []int{12}}, {"one-bad-element", []int{0, 9}}} {
			x.checkRefSites(al, 0, rl)
		}
	},
	// 5: RefCoordinates with arguments whose sum overflows
	func(c *mon.Case) {
		t := &tal{Rows: rowsOf("s1", "--ACG--AT-GC", "s2", "GGACGTTATCGC"), L: 12, Alpha: align.NUCLEOTIDS}
		x := &ctx{c, t}
		al := mk(t)
		for _, p := range [][2]int{{math.MaxInt, 1}, {1, math.MaxInt}, {math.MaxInt, math.MaxInt}, {7, math.MaxInt - 6}, {0, math.MaxInt}} {
			x.checkRefCoord(al, 0, p[0], p[1])
		}
		for _, p := range [][2]int{{math.MaxInt, 1}, {1, math.MaxInt}, {math.MaxInt, math.MaxInt}, {12, math.MaxInt - 11}} {
			x.checkSubAlign(al, p[0], p[1])
			x.checkInvCoord(al, p[0], p[1])
		}
	},
	// 6: the documented example of split
	func(c *mon.Case) {
		t := &tal{Rows: rowsOf("s1", "AAAACCCCCGG", "2", "AAAACCCCCGG", "3", "AAAACCCCCGG"), L: 11, Alpha: align.NUCLEOTIDS}
		x := &ctx{c, t}
		ps, err := partition.NewParser(strings.NewReader("M1,p1=1-4,10-11\nM2,p2=5-9\n")).Parse(11)
		if err != nil {
			x.fail("ParsePartition", "valid-rejected", "documented example: %v", err)
			return
		}
		bl, err := mk(t).Split(ps)
		if err != nil || len(bl) != 2 {
			x.fail("Split", "valid-rejected", "documented example: %v (%d blocks)", err, len(bl))
			return
		}
		x.sameAlign("Split", "documented example p1", bl[0], rowsOf("s1", "AAAAGG", "2", "AAAAGG", "3", "AAAAGG"))
		x.sameAlign("Split", "documented example p2", bl[1], rowsOf("s1", "CCCCC", "2", "CCCCC", "3", "CCCCC"))
	},
	// 7: windows at every boundary of a 1-column and a 0-column alignment
	func(c *mon.Case) {
		for _, t := range []*tal{{Rows: rowsOf("a", "A", "b", "C"), L: 1, Alpha: align.NUCLEOTIDS}, {Rows: rowsOf("a", "", "b", ""), L: 0, Alpha: align.NUCLEOTIDS}} {
			x := &ctx{c, t}
			al := mk(t)
			for s := -1; s <= 2; s++ {
				for l := -1; l <= 2; l++ {
					x.checkSubAlign(al, s, l)
					x.checkInvCoord(al, s, l)
				}
				x.checkTrim(s, true)
				x.checkTrim(s, false)
			}
		}
	},
	// 8: a codon partition whose last site is the last column, through AddRange and through the parser
	func(c *mon.Case) {
		t := &tal{Rows: rowsOf("a", "ACGTACGTA", "b", "AAACCCGGG"), L: 9, Alpha: align.NUCLEOTIDS}
		x := &ctx{c, t}
		ps := align.NewPartitionSet(9)
		m := newPModel(9)
		for i := 0; i < 3; i++ {
			m.add("c"+gen.Itoa(i+1), "M", i, 8, 3)
			if err := ps.AddRange("c"+gen.Itoa(i+1), "M", i, 8, 3); err != nil {
				x.fail("AddRange", "valid-rejected", "AddRange(%d,8,3): %v", i, err)
				return
			}
		}
		x.comparePS("codon partition", ps, m)
		ps2, err := partition.NewParser(strings.NewReader("M,c1=1-9/3\nM,c2=2-9/3\nM,c3=3-9/3")).Parse(9)
		if err != nil {
			x.fail("ParsePartition", "valid-rejected", "codon partition text: %v", err)
			return
		}
		x.comparePS("codon partition text", ps2, m)
		bl, err := mk(t).Split(ps2)
		if err != nil {
			x.fail("Split", "valid-rejected", "codon partition: %v", err)
			return
		}
		x.sameAlign("Split", "codon position 3", bl[2], rowsOf("a", "GCA", "b", "ACG"))
	},
}

func runWitness(c *mon.Case) {
	i := c.Idx % len(witnesses)
	c.Input(map[string]interface{}{"witness": i})
	witnesses[i](c)
	c.NonTrivial("witness", gen.Itoa(i))
}

func main() {
	mon.SetNote("rule", "case = one generated alignment (0..6 random rows over nucleotide or protein residue mixes with leading/trailing/internal gap runs, gap-only rows, near copies, plus rows spelling the column index in base 4/20 so that every column is unique; 0..130 columns from a boundary-heavy list; hostile names; shuffled row order) and, per sub-check, the complete cross product of the boundary values {-1,0,1,2,L/2,L-2,L-1,L,L+1, random interior, huge} for every integer argument (window: start x length for SubAlign and InverseCoordinates, trim sizes x both ends, every boundary cut of prefix+suffix; sites: 14 kinds of site lists incl. empty, repeats, descending, single boundary values, one bad element; refcoord: one reference row, all (start,length) pairs in -1..U+1 when the reference has <= 9 residues, boundary cross product otherwise, RefSites lists incl. sites between the number of residues and the alignment length; concat: a partner alignment with same/shuffled/subset/superset/disjoint/overlapping/no names and another width; split: contiguous, codon, codon+flank, modulo, scattered, incomplete, single, out-of-range and overlapping partition definitions built through AddRange or through the partition file parser; transform: Transpose, DiffWithFirst, ReplaceMatchChars). Each call is compared with the list computation of ref.go and each stated re-assembly relation is executed. Non-trivial = every case (each carries boundary-valued arguments or a gapped reference); distinct = (rows, arguments). Sub-check cli-multi (climulti.go): subseq / subsites / split / extract as real processes on Phylip files holding 1..4 alignments of different lengths, rows and reference gaps (relaxed or strict, any output layout flags), with ONE set of user coordinates: subseq with --ref-seq / --step / --reverse to stdout or to the documented files <name>[_al<i>][_sub<j>]<ext>, subsites with positional sites or --sitefile (repeats, any order), --ref-seq, --reverse, split and extract; coordinates inside every alignment (every output compared with ref.go, per alignment) or outside at least one of them (the command must fail).")
	mon.SetNote("assumptions", "reference model mon/c04/ref.go written from the statement and the interface documentation;; only '-' is a gap of the reference sequence;; a window (start,length) is valid iff 0 <= start, 0 <= length, start+length <= L (an empty window at 0 or at L is valid: the statement names the empty prefix);; TrimSequences(size >= L) is an error as documented;; open corners accepted in every reading: SelectSites(empty list) may fail or give rows without residues; RefCoordinates with length 0 may fail or give an empty window; RefSites may answer with the ascending set of positions or with one position per requested site in the requested order; InverseCoordinates may split the complement into any ascending disjoint windows (empty ones allowed); DiffWithFirst on characters differing only by case; Split with unassigned sites may fail; a range with start > end may fail or define nothing; a partition without site gives a block without row; after Concat the rows only the argument has may come in any order after the receiver's rows; names that collide in Append are renamed by goalign;; result alphabets, comments and buffer sharing are not compared (C19);; cli-multi: input files are written with goalign's Phylip writer (checked by C02), outputs are read by a reader written from the format description (climulti.go);; cli-multi: documented and demanded: subseq writes one output per alignment and window, in the order of the file on stdout, in <name>[_al<i>][_sub<j>]<ext> otherwise (and no other file); extract considers the first alignment only; subsites with -o says nothing about the alignments after the first one: all in the given file or <name>_al<i><ext> are accepted; split says nothing about several alignments: the blocks of the first or of the last alignment are accepted (all blocks from the same one); the extension of the files written by split / extract is not compared;; cli-multi: the corners where the cli sub-check admits an error as well as a result (window running over the end of one alignment, empty request, --reverse leaving nothing) are only checked for crashes; a Phylip file without any alignment: nothing to do or an error, never a crash")
	mon.SetNote("exhaustive_subspaces", "refcoord: for every reference row with at most 9 residues all (start,length) pairs of -1..U+1 x -1..U+1 are executed; witness 3 and 7: all windows of -1..L+1 (resp. -1..8) on fixed alignments")
	for _, op := range []string{"SubAlign", "InverseCoordinates", "TrimSequences", "SelectSites", "InversePositions", "RefCoordinates", "RefSites", "Concat", "Append", "AddRange", "ParsePartition", "PartitionSet.String", "Split", "Transpose", "DiffWithFirst", "ReplaceMatchChars"} {
		mon.Floor("op:"+op, 1000)
	}
	for _, k := range []string{"-1", "0", "1", "L-1", "L", "L+1", "huge", "interior"} {
		mon.Floor("SubAlign:start="+k, 500)
		mon.Floor("SubAlign:length="+k, 500)
		mon.Floor("InverseCoordinates:start="+k, 500)
		mon.Floor("TrimSequences:size="+k, 200)
		mon.Floor("RefCoordinates:start="+k, 500)
		mon.Floor("RefCoordinates:length="+k, 500)
	}
	for _, k := range []string{"-1", "0", "L-1", "L", "L+1", "huge"} {
		mon.Floor("SelectSites:site="+k, 500)
		mon.Floor("InversePositions:site="+k, 500)
		mon.Floor("RefSites:site="+k, 200)
	}
	for _, k := range []string{"SubAlign:rejected", "SubAlign:ok", "SelectSites:rejected", "InversePositions:rejected", "InverseCoordinates:rejected", "TrimSequences:rejected", "RefCoordinates:rejected", "RefSites:rejected", "AddRange:rejected", "ParsePartition:rejected",
		"SubAlign:window-ends-on-last-column", "SubAlign:empty-window", "RefCoordinates:ends-on-last-residue", "RefCoordinates:all-pairs-enumerated",
		"reference:gapped", "reference:leading", "reference:leading+trailing", "reference:gaps-only", "reference:no-gap",
		"relation:prefix+suffix", "relation:empty-prefix", "relation:empty-suffix", "relation:selection+complement", "relation:permutation-undone", "relation:blocks-reinterleaved", "relation:transpose-twice", "relation:diff-then-replace", "relation:reverse-window-reassembled", "relation:ref-window-extracted", "relation:ref-sites-extracted", "relation:blocks-reassembled", "relation:trim-both-ends",
		"partition:codon", "partition:codon+flank", "partition:modulo", "partition:blocks", "partition:scattered", "partition-via:parser", "partition-via:AddRange", "AddRange:modulo",
		"Concat:receiver=empty", "Concat:names=empty", "Concat:names=disjoint", "Concat:names=subset", "Concat:names=superset", "Concat:names=same-names-shuffled", "Concat:different-widths", "Concat:alphabet-mismatch", "Append:different-widths",
		"Split:less-than-2-partitions", "Split:other-length", "DiffWithFirst:with-matches", "transform:input-with-match-chars"} {
		mon.Floor(k, 100)
	}
	for k, n := range map[string]int{"op:cli-subseq": 150, "op:cli-subsites": 150, "op:cli-split": 60, "op:cli-extract": 60, "cli-subseq:ok": 20, "cli-subseq:must-fail": 20, "cli-subseq:ref-seq": 40, "cli-subseq:reverse": 30, "cli-subseq:step": 10,
		"cli-subsites:ok": 20, "cli-subsites:must-fail": 20, "cli-subsites:ref-seq": 40, "cli-subsites:reverse": 30, "cli-split:ok": 15, "cli-split:must-fail": 10, "cli-extract:ok": 15, "cli-extract:must-fail": 10, "cli-extract:several-blocks": 10} {
		mon.Floor(k, n)
	}
	cliMultiFloors()
	mon.Floor("concurrent:calls", 500)
	mon.Floor("split:bytes-above-0x7f", 500)
	mon.Main("C04", []mon.Sub{
		{Name: "witness", Quick: len(witnesses), Thorough: len(witnesses), Run: runWitness},
		{Name: "window", Quick: 30000, Thorough: 1200000, Run: runWindow},
		{Name: "sites", Quick: 30000, Thorough: 1200000, Run: runSites},
		{Name: "refcoord", Quick: 40000, Thorough: 1500000, Run: runRefCoord},
		{Name: "concat", Quick: 40000, Thorough: 1500000, Run: runConcat},
		{Name: "split", Quick: 40000, Thorough: 1500000, Run: runSplit},
		{Name: "transform", Quick: 30000, Thorough: 1200000, Run: runTransform},
		{Name: "witness-cli", Quick: 3, Thorough: 3, Serial: true, Run: func(c *mon.Case) {
			c.Input(map[string]interface{}{"cli-witness": c.Idx})
			cliWitness(c, c.Idx)
			c.NonTrivial("cli-witness", gen.Itoa(c.Idx))
		}},
		{Name: "concurrent", Quick: 64, Thorough: 1200, Race: true, Run: func(c *mon.Case) { conc.Run(c, "extract") }},
		{Name: "cli", Quick: 800, Thorough: 12000, Serial: true, Run: runCli},
		// Phylip files holding several alignments through the same commands (climulti.go)
		{Name: "witness-cli-multi", Quick: 6, Thorough: 6, Run: func(c *mon.Case) {
			c.Input(map[string]interface{}{"cli-multi-witness": c.Idx})
			cliMultiWitness(c, c.Idx)
			c.NonTrivial("cli-multi-witness", gen.Itoa(c.Idx))
		}},
		{Name: "cli-multi", Quick: 320, Thorough: 8000, Run: runCliMulti},
	})
}
