// cli sub-check of C04: the commands that expose site extraction (subseq, subsites, split,
// extract) are run as a real goalign process built from the tree under test, on FASTA files,
// and their output files are compared with the same reference model as the API calls.
// A command must either write exactly the addressed columns or fail with a non zero status
// and without a Go crash.
package main

import (
	"fmt"
	"os"
	"os/exec"
	"path/filepath"
	"strings"

	"github.com/evolbioinfo/goalign/align"

	"verif/lib/gen"
	"verif/lib/h"
	"verif/lib/mon"
	"verif/lib/ref"
)

var (
	cliBinPath  string
	cliBuildErr string
	cliTried    bool
)

func cliEnv() []string {
	return append(os.Environ(), "GOFLAGS=-mod=mod", "GOPROXY=off", "GOSUMDB=off", "GOTOOLCHAIN=local")
}

func scratchDir() string {
	d := os.Getenv("VERIF_SCRATCH")
	if d == "" {
		d = os.TempDir()
	}
	return d
}

// cliBinary builds goalign from the tree under test once per process.
func cliBinary() (string, string) {
	if cliTried {
		return cliBinPath, cliBuildErr
	}
	cliTried = true
	repo := os.Getenv("VERIF_REPO")
	if repo == "" {
		repo = "/repo"
	}
	out := filepath.Join(scratchDir(), fmt.Sprintf("c04-goalign-%d", os.Getpid()))
	if os.Getenv("VERIF_SCRATCH") == "" { // a replay by hand: one fixed file, rebuilt every time
		out = filepath.Join(os.TempDir(), "c04-goalign-replay")
	}
	cmd := exec.Command("go", "build", "-o", out, ".")
	cmd.Dir = repo
	cmd.Env = cliEnv()
	if b, err := cmd.CombinedOutput(); err != nil {
		cliBuildErr = fmt.Sprintf("go build of %s: %v: %s", repo, err, b)
		return "", cliBuildErr
	}
	cliBinPath = out
	return out, ""
}

type cliRun struct {
	Args   []string `json:"args"`
	rc     int
	stderr string
	crash  bool
}

func runGoalign(bin, dir string, args ...string) *cliRun {
	cmd := exec.Command(bin, args...)
	cmd.Dir = dir
	var eb, ob strings.Builder
	cmd.Stderr = &eb
	cmd.Stdout = &ob
	err := cmd.Run()
	r := &cliRun{Args: args, stderr: eb.String()}
	if err != nil {
		r.rc = -1
		if ee, ok := err.(*exec.ExitError); ok {
			r.rc = ee.ExitCode()
		}
	}
	r.crash = strings.Contains(r.stderr, "panic:") || strings.Contains(r.stderr, "goroutine ") || strings.Contains(r.stderr, "fatal error:") || r.rc == 2 || r.rc < 0
	return r
}

func writeFasta(path string, rows gen.Rows) {
	var sb strings.Builder
	for _, r := range rows {
		sb.WriteString(">" + r.Name + "\n" + r.Seq + "\n")
	}
	if err := os.WriteFile(path, []byte(sb.String()), 0644); err != nil {
		panic("harness: " + err.Error())
	}
}

func readFasta(path string) (gen.Rows, error) {
	b, err := os.ReadFile(path)
	if err != nil {
		return nil, err
	}
	rows := gen.Rows{}
	for _, l := range strings.Split(string(b), "\n") {
		l = strings.TrimRight(l, "\r")
		if strings.HasPrefix(l, ">") {
			rows = append(rows, gen.Seq{Name: l[1:]})
		} else if len(rows) > 0 {
			rows[len(rows)-1].Seq += strings.TrimSpace(l)
		}
	}
	return rows, nil
}

// genCliAlign: nucleotide rows over ACGT-N with plain names (they travel through FASTA files).
func genCliAlign(r *gen.Rand) *tal {
	L := r.PickInt([]int{1, 2, 3, 4, 5, 6, 7, 8, 9, 10, 12, 15, 16, 20, 30, 33, 60, 81, 100})
	t := &tal{Alpha: align.NUCLEOTIDS, L: L}
	seqs := []string{}
	for i, nb := 0, r.Range(1, 3); i < nb; i++ {
		b := r.Bytes(L, "ACGTACGTN")
		gapRuns(r, b)
		seqs = append(seqs, string(b))
	}
	if r.Chance(0.15) {
		seqs[0] = strings.Repeat("-", L)
	}
	nd, pow := 1, 1
	for p := 4; p < L; p *= 4 {
		nd++
	}
	for k := 0; k < nd; k++ {
		b := make([]byte, L)
		for j := 0; j < L; j++ {
			b[j] = "ACGT"[(j/pow)%4]
		}
		seqs = append(seqs, string(b))
		pow *= 4
	}
	t.NIdx = nd
	pool := []string{"s0", "s1", "s2", "Seq0000", "Seq0001", "x_0001", "tenchars10", "elevenchars", "A|B", "a.b", "42", "ref", "S01", "prefix", "prefix2",
		"none", "stdout", "auto", "cov100%", "%d"} // the last three: names that spell the default value of a string option
	perm := r.Perm(len(pool))
	for i, s := range seqs {
		t.Rows = append(t.Rows, gen.Seq{Name: pool[perm[i]], Seq: s})
	}
	// the gapped rows first or last at random
	if r.Bool() {
		for i, j := 0, len(t.Rows)-1; i < j; i, j = i+1, j-1 {
			t.Rows[i], t.Rows[j] = t.Rows[j], t.Rows[i]
		}
	}
	return t
}

type cliCase struct {
	x    *ctx
	bin  string
	dir  string
	in   string
	desc string
}

func (k *cliCase) fail(cmd, kind string, run *cliRun, format string, a ...interface{}) {
	se := run.stderr
	if i := strings.Index(se, "Usage:"); i >= 0 {
		se = se[:i]
	}
	if len(se) > 1200 {
		se = se[:1200] + "…"
	}
	k.x.fail("cli-"+cmd, kind, "goalign %s\n%s\n%s\nexit status %d, stderr: %s", strings.Join(run.Args, " "), k.desc, fmt.Sprintf(format, a...), run.rc, strings.TrimSpace(se))
}

// mustFail: the arguments leave the alignment: non zero status, no crash.
func (k *cliCase) mustFail(cmd string, run *cliRun, why string) {
	k.x.c.Count("cli-" + cmd + ":must-fail")
	if run.crash {
		k.fail(cmd, "crash", run, "the command crashed (%s)", why)
	} else if run.rc == 0 {
		k.fail(cmd, "out-of-range-accepted", run, "the command succeeded although %s", why)
	}
}

// compareFile: an output file holds exactly the expected rows.
func (k *cliCase) compareFile(cmd string, run *cliRun, path string, exp gen.Rows) bool {
	got, err := readFasta(path)
	if err != nil {
		k.fail(cmd, "missing-output", run, "output file %s: %v", filepath.Base(path), err)
		return false
	}
	if len(got) != len(exp) {
		k.fail(cmd, "row-count", run, "%s holds %d rows, expected %d: %s", filepath.Base(path), len(got), len(exp), h.Show(got))
		return false
	}
	for i := range exp {
		if got[i].Name != exp[i].Name {
			k.fail(cmd, "names-or-order", run, "%s: row %d is %q, expected %q", filepath.Base(path), i, got[i].Name, exp[i].Name)
			return false
		}
		if got[i].Seq != exp[i].Seq {
			k.fail(cmd, "wrong-columns", run, "%s: row %q\n  observed %q\n  expected %q", filepath.Base(path), exp[i].Name, got[i].Seq, exp[i].Seq)
			return false
		}
	}
	return true
}

// okOrFail: corners where both an explicit failure and the given rows are admitted (never a crash).
func (k *cliCase) okOrFail(cmd string, run *cliRun, path string, exp gen.Rows) {
	if run.crash {
		k.fail(cmd, "crash", run, "the command crashed")
		return
	}
	if run.rc == 0 {
		k.compareFile(cmd, run, path, exp)
	}
}

func itoas(v []int) []string {
	out := make([]string, len(v))
	for i, x := range v {
		out[i] = gen.Itoa(x)
	}
	return out
}

// ---- subseq

func (k *cliCase) subseq() {
	r, t, c := k.x.c.R, k.x.t, k.x.c
	L := t.L
	useRef := r.Chance(0.5)
	reverse := r.Chance(0.35)
	ri := r.Intn(len(t.Rows))
	for i, row := range t.Rows {
		if (row.Name == "none" || row.Name == "auto") && r.Chance(0.6) {
			ri = i // a reference whose name spells an option default
		}
	}
	refName := t.Rows[ri].Name
	unknown := false
	if useRef && r.Chance(0.06) {
		refName, unknown = "nosuchrow", true
	}
	size := L
	pos := residuePositions(t.Rows[ri].Seq)
	if useRef {
		size = len(pos)
	}
	S := r.PickInt(boundaryInts(r, size, 2, false))
	LEN := r.PickInt(boundaryInts(r, size, 3, false))
	if r.Chance(0.4) && size > 0 { // a valid window
		S = r.Intn(size)
		LEN = r.Range(1, size-S)
		if r.Chance(0.3) {
			LEN = size - S
		}
	}
	step := 0
	if !useRef && r.Chance(0.3) {
		step = r.PickInt([]int{1, 2, 3, L, L + 1, r.Range(1, L)})
	}
	out := filepath.Join(k.dir, "out.fa")
	args := []string{"subseq", "-i", k.in, "-o", out, fmt.Sprintf("--start=%d", S), fmt.Sprintf("--length=%d", LEN)}
	if useRef {
		args = append(args, "--ref-seq", refName)
	}
	if reverse {
		args = append(args, "--reverse")
	}
	if step > 0 {
		args = append(args, fmt.Sprintf("--step=%d", step))
	}
	k.desc = fmt.Sprintf("start %d, length %d on %d positions (ref=%v reverse=%v step=%d)", S, LEN, size, useRef, reverse, step)
	run := runGoalign(k.bin, k.dir, args...)
	c.Count("op:cli-subseq")
	if useRef {
		c.Count("cli-subseq:ref-seq")
	}
	if reverse {
		c.Count("cli-subseq:reverse")
	}
	if step > 0 {
		c.Count("cli-subseq:step")
	}
	for _, cl := range classes(S, size) {
		c.Count("cli-subseq:start=" + cl)
	}
	// the window in alignment coordinates
	status, ws, wl := "valid", S, LEN
	switch {
	case unknown:
		status = "invalid"
	case S < 0 || LEN < 0 || S > size || (S == size && LEN > 0):
		status = "invalid"
	case LEN == 0:
		status = "empty-request"
	case LEN > size-S:
		// the command documentation says the window stops at the end of the alignment, the API and the
		// property say error: both admitted
		status = "overshoot"
		if useRef {
			ws, wl = pos[S], L-pos[S]
		} else {
			wl = L - S
		}
	case useRef:
		ws, wl, _ = refRefCoord(t.Rows[ri].Seq, S, LEN)
	}
	c.Count("cli-subseq:" + status)
	expOf := func(s, l int) gen.Rows {
		if reverse {
			return refSelect(t.Rows, refComplement(L, rangeList(s, l)))
		}
		return refSubAlign(t.Rows, s, l)
	}
	switch status {
	case "invalid":
		k.mustFail("subseq", run, "the window is outside the "+map[bool]string{true: "reference sequence", false: "alignment"}[useRef])
	case "empty-request":
		if run.crash {
			k.fail("subseq", "crash", run, "the command crashed")
		}
	case "overshoot":
		k.okOrFail("subseq", run, out, expOf(ws, wl))
	default:
		if reverse && wl == L {
			// nothing remains: an error or rows without residues, not a crash
			c.Count("cli-subseq:reverse-of-everything")
			k.okOrFail("subseq", run, out, expOf(ws, wl))
			return
		}
		if run.crash || run.rc != 0 {
			k.fail("subseq", "valid-rejected", run, "the window (%d,%d) is inside the alignment", ws, wl)
			return
		}
		if !k.compareFile("subseq", run, out, expOf(ws, wl)) {
			return
		}
		c.Count("cli-subseq:ok")
		if step > 0 {
			n := 1
			for s := ws + step; s+wl <= L; s += step {
				p := filepath.Join(k.dir, fmt.Sprintf("out_sub%d.fa", n))
				if !k.compareFile("subseq", run, p, expOf(s, wl)) {
					return
				}
				n++
			}
			if _, err := os.Stat(filepath.Join(k.dir, fmt.Sprintf("out_sub%d.fa", n))); err == nil {
				k.fail("subseq", "extra-window", run, "window file out_sub%d.fa exists although its window would leave the alignment (%d windows expected)", n, n)
			}
			c.Add("cli-subseq:sliding-windows", n)
		}
	}
}

// ---- subsites

func (k *cliCase) subsites() {
	r, t, c := k.x.c.R, k.x.t, k.x.c
	L := t.L
	useRef := r.Chance(0.5)
	reverse := r.Chance(0.35)
	ri := r.Intn(len(t.Rows))
	for i, row := range t.Rows {
		if (row.Name == "none" || row.Name == "auto") && r.Chance(0.6) {
			ri = i // a reference whose name spells an option default
		}
	}
	refName := t.Rows[ri].Name
	unknown := false
	if useRef && r.Chance(0.06) {
		refName, unknown = "nosuchrow", true
	}
	size := L
	if useRef {
		size = len(residuePositions(t.Rows[ri].Seq))
	}
	var sites []int
	var kind string
	if useRef {
		rl := genRefLists(r, size, L)
		x := rl[1+r.Intn(len(rl)-1)]
		sites, kind = x.Sites, x.Kind
	} else {
		sl := genSiteLists(r, L)
		x := sl[1+r.Intn(len(sl)-1)]
		sites, kind = x.Sites, x.Kind
	}
	for _, s := range sites {
		if s > 1<<40 || s < -(1<<40) {
			kind = "huge"
		}
	}
	out := filepath.Join(k.dir, "out.fa")
	args := []string{"subsites", "-i", k.in, "-o", out}
	if useRef {
		args = append(args, "--ref-seq", refName)
	}
	if reverse {
		args = append(args, "--reverse")
	}
	neg := false
	for _, s := range sites {
		if s < 0 {
			neg = true
		}
	}
	if neg || r.Chance(0.3) {
		f := filepath.Join(k.dir, "sites.txt")
		os.WriteFile(f, []byte(strings.Join(siteFileLines(r, sites), "\n")+"\n"), 0644)
		args = append(args, "--sitefile", f)
		c.Count("cli-subsites:sitefile")
	} else {
		args = append(args, itoas(sites)...)
	}
	k.desc = fmt.Sprintf("sites %v on %d positions (ref=%v reverse=%v)", sites, size, useRef, reverse)
	run := runGoalign(k.bin, k.dir, args...)
	c.Count("op:cli-subsites")
	c.Count("cli-subsites:list=" + kind)
	if useRef {
		c.Count("cli-subsites:ref-seq")
	}
	if reverse {
		c.Count("cli-subsites:reverse")
	}
	var cols [][]int // admitted column lists
	if useRef {
		asc, addressed, ok := refRefSites(t.Rows[ri].Seq, sites)
		if !ok || unknown {
			k.mustFail("subsites", run, "a site is outside the reference sequence")
			return
		}
		cols = [][]int{asc, addressed}
	} else {
		if !validSites(L, sites) {
			k.mustFail("subsites", run, "a site is outside the alignment")
			return
		}
		cols = [][]int{sites}
	}
	if reverse {
		cols = [][]int{refComplement(L, cols[0])}
	}
	if len(cols[0]) == 0 {
		k.okOrFail("subsites", run, out, refSelect(t.Rows, cols[0]))
		return
	}
	if run.crash || run.rc != 0 {
		k.fail("subsites", "valid-rejected", run, "all sites are inside")
		return
	}
	got, err := readFasta(out)
	if err == nil && len(cols) == 2 && len(got) == len(t.Rows) && h.EqRows(got, refSelect(t.Rows, cols[1])) {
		c.Count("cli-subsites:ok")
		return
	}
	if k.compareFile("subsites", run, out, refSelect(t.Rows, cols[0])) {
		c.Count("cli-subsites:ok")
	}
}

// ---- split

func (k *cliCase) split() {
	r, t, c := k.x.c.R, k.x.t, k.x.c
	pc := genPartition(r, t.L)
	pc.Text = pc.text(r)
	m := newPModel(t.L)
	ok := true
	for _, rg := range pc.Ranges {
		if rg.Start > rg.End || len(pc.Ranges) == 0 {
			return // degenerate definitions: see the split sub-check
		}
		if !m.add(pc.Names[rg.Part], "M"+gen.Itoa(rg.Part), rg.Start, rg.End, rg.Mod) {
			ok = false
			break
		}
	}
	if len(pc.Ranges) == 0 {
		return
	}
	pf := filepath.Join(k.dir, "part.txt")
	os.WriteFile(pf, []byte(pc.Text), 0644)
	prefix := filepath.Join(k.dir, "blk_")
	k.desc = fmt.Sprintf("partition file %q (%s)", pc.Text, pc.Kind)
	run := runGoalign(k.bin, k.dir, "split", "-i", k.in, "--partition", pf, "-o", prefix)
	c.Count("op:cli-split")
	c.Count("cli-split:" + pc.Kind)
	if !ok {
		k.mustFail("split", run, "a range is outside the alignment or overlaps another one")
		return
	}
	if !m.complete() || len(m.names) < 2 {
		// documented: every site must be in a partition, and at least two partitions
		k.mustFail("split", run, "the partitions do not cover the alignment or there is only one")
		return
	}
	if run.crash || run.rc != 0 {
		k.fail("split", "valid-rejected", run, "the partition is complete and inside the alignment")
		return
	}
	for p, name := range m.names {
		if !k.compareFile("split", run, prefix+name+".fa", refSelect(t.Rows, m.sitesOf(p))) {
			return
		}
	}
	c.Count("cli-split:ok")
}

// ---- extract

func (k *cliCase) extract() {
	r, t, c := k.x.c.R, k.x.t, k.x.c
	L := t.L
	useRef := r.Chance(0.5)
	ri := r.Intn(len(t.Rows))
	for i, row := range t.Rows {
		if (row.Name == "none" || row.Name == "auto") && r.Chance(0.6) {
			ri = i // a reference whose name spells an option default
		}
	}
	size := L
	if useRef {
		size = len(residuePositions(t.Rows[ri].Seq))
	}
	type feat struct {
		name         string
		starts, ends []int
		valid        bool
		cols         []int
		strand       string // "", "+" or "-" (4th column of the line; "-": the extracted sequence is reverse-complemented)
	}
	feats := []feat{}
	bad := r.Chance(0.35)
	nf := r.Range(1, 3)
	badAt := r.Intn(nf)
	var lines []string
	for i := 0; i < nf; i++ {
		f := feat{name: "orf" + gen.Itoa(i+1), valid: true}
		for b, nb := 0, r.Range(1, 3); b < nb; b++ {
			var s, e int
			if size > 0 {
				s = r.Intn(size)
				e = r.Range(s+1, size)
				if r.Chance(0.3) {
					e = size
				}
				if r.Chance(0.2) {
					s = 0
				}
			}
			if (bad && i == badAt && b == 0) || size == 0 {
				switch r.Intn(5) {
				case 0:
					s = -1
				case 1:
					e = size + 1
				case 2:
					e = s // empty block
				case 3:
					s, e = size, size+1
				case 4:
					e = s - 1
				}
			}
			f.starts, f.ends = append(f.starts, s), append(f.ends, e)
			if s < 0 || e > size || s >= e {
				f.valid = false
				continue
			}
			ws, wl := s, e-s
			if useRef {
				ws, wl, _ = refRefCoord(t.Rows[ri].Seq, s, e-s)
			}
			f.cols = append(f.cols, rangeList(ws, wl)...)
		}
		f.strand = r.PickStr([]string{"", "", "+", "-", "-"})
		feats = append(feats, f)
		line := strings.Join(itoas(f.starts), ",") + "\t" + strings.Join(itoas(f.ends), ",") + "\t" + f.name
		if f.strand != "" {
			line += "\t" + f.strand
			c.Count("cli-extract:strand" + f.strand)
		}
		lines = append(lines, line)
	}
	cf := filepath.Join(k.dir, "coords.txt")
	os.WriteFile(cf, []byte(strings.Join(lines, "\n")+"\n"), 0644)
	od := filepath.Join(k.dir, "ex")
	os.Mkdir(od, 0755)
	args := []string{"extract", "-i", k.in, "--coordinates", cf, "-o", od}
	if useRef {
		args = append(args, "--ref-seq", t.Rows[ri].Name)
	}
	k.desc = fmt.Sprintf("coordinates %q on %d positions (ref=%v)", strings.Join(lines, " | "), size, useRef)
	run := runGoalign(k.bin, k.dir, args...)
	c.Count("op:cli-extract")
	if useRef {
		c.Count("cli-extract:ref-seq")
	}
	allValid := true
	for _, f := range feats {
		if !f.valid {
			allValid = false
		}
	}
	if !allValid {
		k.mustFail("extract", run, "a block is empty or outside the "+map[bool]string{true: "reference sequence", false: "alignment"}[useRef])
		return
	}
	if run.crash || run.rc != 0 {
		k.fail("extract", "valid-rejected", run, "all blocks are inside")
		return
	}
	for _, f := range feats {
		if len(f.starts) > 1 {
			c.Count("cli-extract:several-blocks")
		}
		want := refSelect(t.Rows, f.cols)
		if f.strand == "-" {
			ok := true
			for i := range want {
				rc, good := ref.RevComp(want[i].Seq)
				ok = ok && good
				want[i].Seq = rc
			}
			if !ok {
				continue // a residue without complement: not decided here
			}
		}
		if !k.compareFile("extract", run, filepath.Join(od, f.name+".fa"), want) {
			return
		}
	}
	c.Count("cli-extract:ok")
}

func runCli(c *mon.Case) {
	bin, berr := cliBinary()
	if bin == "" {
		// no goalign binary: nothing is observed, the coverage floors of this sub-check stay unmet (inconclusive)
		c.Count("cli:goalign-build-failed")
		c.Note("%s", berr)
		return
	}
	r := c.R
	t := genCliAlign(r)
	x := &ctx{c, t}
	dir, err := os.MkdirTemp(scratchDir(), "c04-cli-")
	if err != nil {
		panic("harness: " + err.Error())
	}
	defer os.RemoveAll(dir)
	k := &cliCase{x: x, bin: bin, dir: dir, in: filepath.Join(dir, "in.fa")}
	writeFasta(k.in, t.Rows)
	cmd := []string{"subseq", "subseq", "subsites", "subsites", "split", "extract"}[c.Idx%6]
	c.Input(map[string]interface{}{"command": cmd, "alignment": t})
	switch cmd {
	case "subseq":
		k.subseq()
	case "subsites":
		k.subsites()
	case "split":
		k.split()
	case "extract":
		k.extract()
	}
	c.NonTrivial(cmd, t.Rows.Key(), k.desc)
	c.Note("%s: %s", cmd, k.desc)
}

// fixed command lines for the defects found through the commands
func cliWitness(c *mon.Case, which int) {
	bin, _ := cliBinary()
	if bin == "" {
		c.Count("cli:goalign-build-failed")
		return
	}
	t := &tal{Rows: rowsOf("s1", "--ACG--AT-GC", "s2", "GGACGTTATCGC"), L: 12, Alpha: align.NUCLEOTIDS}
	x := &ctx{c, t}
	dir, err := os.MkdirTemp(scratchDir(), "c04-cli-")
	if err != nil {
		panic("harness: " + err.Error())
	}
	defer os.RemoveAll(dir)
	k := &cliCase{x: x, bin: bin, dir: dir, in: filepath.Join(dir, "in.fa")}
	writeFasta(k.in, t.Rows)
	out := filepath.Join(dir, "out.fa")
	switch which {
	case 0: // subseq --ref-seq must not swallow the error of the coordinate conversion
		for _, a := range [][]string{{"--start=-1", "--length=2", "--ref-seq", "s1"}, {"--start=7", "--length=1", "--ref-seq", "s1"}, {"--start=0", "--length=1", "--ref-seq", "nosuchrow"}} {
			k.desc = "documented example alignment, " + strings.Join(a, " ")
			run := runGoalign(bin, dir, append([]string{"subseq", "-i", k.in, "-o", out}, a...)...)
			k.mustFail("subseq", run, "the reference coordinates do not exist")
		}
		k.desc = "documented example"
		run := runGoalign(bin, dir, "subseq", "-i", k.in, "-o", out, "--start=0", "--length=4", "--ref-seq", "s1")
		if run.rc != 0 {
			k.fail("subseq", "valid-rejected", run, "documented example")
		} else {
			k.compareFile("subseq", run, out, rowsOf("s1", "ACG--A", "s2", "ACGTTA"))
		}
	case 1: // subseq --reverse of the whole alignment: an error or rows without residues, not a crash
		k.desc = "the whole alignment removed"
		run := runGoalign(bin, dir, "subseq", "-i", k.in, "-o", out, "--start=0", "--length=12", "--reverse")
		k.okOrFail("subseq", run, out, rowsOf("s1", "", "s2", ""))
		run = runGoalign(bin, dir, "subseq", "-i", k.in, "-o", out, "--start=0", "--length=7", "--ref-seq", "s2", "--reverse")
		k.okOrFail("subseq", run, out, rowsOf("s1", "AT-GC", "s2", "ATCGC"))
	case 2: // subsites --ref-seq with a site after the last residue of the reference
		k.desc = "site 7 of a reference with 7 residues"
		run := runGoalign(bin, dir, "subsites", "-i", k.in, "-o", out, "--ref-seq", "s1", "7")
		k.mustFail("subsites", run, "the reference has 7 residues")
		k.desc = "documented example"
		run = runGoalign(bin, dir, "subsites", "-i", k.in, "-o", out, "--ref-seq", "s1", "1", "2", "3")
		if run.rc != 0 {
			k.fail("subsites", "valid-rejected", run, "documented example")
		} else {
			k.compareFile("subsites", run, out, rowsOf("s1", "CGA", "s2", "CGA"))
		}
	}
}

// siteFileLines spells the positions of a site file: plain decimals or, as a numbered list exported by a
// spreadsheet would be, padded with zeros (decimal numbers all the same: 010 is ten).
func siteFileLines(r *gen.Rand, sites []int) []string {
	out := itoas(sites)
	if r.Chance(0.4) {
		w := r.PickInt([]int{3, 4, 6})
		for i, v := range sites {
			if v >= 0 {
				out[i] = fmt.Sprintf("%0*d", w, v)
			}
		}
	}
	return out
}
