// cli sub-check of C14, part 2: one generator + checker per command (see cli.go).
package main

import (
	"fmt"
	"math"
	"sort"
	"strconv"
	"strings"

	"verif/lib/gen"
)

type cliKind struct {
	name string
	cmd  []string
	gen  func(x *cliCtx, round int) func()
}

var cliKinds []cliKind

func init() {
	cliKinds = []cliKind{
		{"witness", nil, genCliWitness},
		{"stats", []string{"stats"}, genCliSummary},
		{"stats-per-sequences", []string{"stats"}, genCliPerSeq},
		{"stats-alleles", []string{"stats", "alleles"}, genCliAlleles},
		{"stats-alphabet", []string{"stats", "alphabet"}, genCliAlphabet},
		{"stats-char", []string{"stats", "char"}, genCliChar},
		{"stats-char-per-sites", []string{"stats", "char"}, genCliCharSites},
		{"stats-char-per-sequences", []string{"stats", "char"}, genCliCharSeqs},
		{"stats-gaps", []string{"stats", "gaps"}, genCliGaps},
		{"stats-length", []string{"stats", "length"}, genCliLength},
		{"stats-maxchar", []string{"stats", "maxchar"}, genCliMaxChar},
		{"stats-mutations-ref", []string{"stats", "mutations"}, genCliMutRef},
		{"stats-mutations-unique", []string{"stats", "mutations"}, genCliMutUnique},
		{"stats-mutations-list", []string{"stats", "mutations", "list"}, genCliMutList},
		{"stats-mutations-list-aa", []string{"stats", "mutations", "list"}, genCliMutListAA},
		{"stats-nalign", []string{"stats", "nalign"}, genCliNalign},
		{"stats-nseq", []string{"stats", "nseq"}, genCliNseq},
		{"stats-taxa", []string{"stats", "taxa"}, genCliTaxa},
		{"consensus", []string{"consensus"}, genCliConsensus},
		{"compute-entropy", []string{"compute", "entropy"}, genCliEntropy},
		{"compute-pssm", []string{"compute", "pssm"}, genCliPssm},
		{"diff-counts", []string{"diff"}, genCliDiff},
		{"refused", nil, genCliRefused},
	}
}

func cliKindOf(idx int) cliKind { return cliKinds[idx%len(cliKinds)] }

// ---------------------------------------------------------------------------- helpers

// nearStr: the printed number s is the value v printed with `dec` decimals (tolerance: one unit of the last
// decimal place is never reached, half a unit plus rounding noise is accepted).
func nearStr(s string, v float64, dec int) bool {
	g, err := strconv.ParseFloat(strings.TrimSpace(s), 64)
	if err != nil {
		return false
	}
	if math.IsNaN(v) || math.IsNaN(g) {
		return math.IsNaN(v) && math.IsNaN(g)
	}
	if math.IsInf(v, 0) || math.IsInf(g, 0) {
		return v == g
	}
	tol := 0.51 * math.Pow(10, -float64(dec))
	return math.Abs(g-v) <= tol+1e-12*math.Abs(v)
}

func nearAny(s string, vals []float64, dec int) bool {
	for _, v := range vals {
		if nearStr(s, v, dec) {
			return true
		}
	}
	return false
}

func gapsTotal(s string) int { return strings.Count(s, "-") }
func gapsStart(s string) int {
	k := 0
	for k < len(s) && s[k] == '-' {
		k++
	}
	return k
}
func gapsEnd(s string) int {
	k := 0
	for k < len(s) && s[len(s)-1-k] == '-' {
		k++
	}
	return k
}
func gapsOpen(s string) int {
	k := 0
	for i := 0; i < len(s); i++ {
		if s[i] == '-' && (i == 0 || s[i-1] != '-') {
			k++
		}
	}
	return k
}

// foldAll: case-folded counts of all rows.
func foldAll(rows []string) map[byte]int {
	m := map[byte]int{}
	for _, s := range rows {
		for k, v := range foldCounts(s) {
			m[k] += v
		}
	}
	return m
}

// profileText writes a count profile in the documented layout (stats char --per-sites) from rows.
func profileText(r *gen.Rand, prof []string, L int, pool string) string {
	present := map[byte]bool{}
	for _, s := range prof {
		for i := 0; i < len(s); i++ {
			present[s[i]] = true
		}
	}
	// now and then columns for characters the profile never holds
	for i := 0; i < len(pool); i++ {
		if r.Chance(0.3) {
			present[pool[i]] = true
		}
	}
	chars := []byte{}
	for ch := range present {
		chars = append(chars, ch)
	}
	sort.Slice(chars, func(i, j int) bool { return chars[i] < chars[j] })
	if len(chars) == 0 {
		chars = []byte{'A'}
	}
	if r.Bool() {
		shuffle(r, chars)
	}
	var sb strings.Builder
	sb.WriteString("site")
	for _, ch := range chars {
		sb.WriteString("\t" + string([]byte{ch}))
	}
	sb.WriteString("\n")
	for j := 0; j < L; j++ {
		sb.WriteString(strconv.Itoa(j))
		for _, ch := range chars {
			k := 0
			for _, s := range prof {
				if j < len(s) && s[j] == ch {
					k++
				}
			}
			sb.WriteString("\t" + strconv.Itoa(k))
		}
		sb.WriteString("\n")
	}
	return sb.String()
}

// genProfile: rows of a profile of length L related to the alignment (upper case).
func genProfile(r *gen.Rand, a aln, L int) []string {
	if r.Chance(0.2) {
		return a.Rows
	}
	pool := a.base + a.base + "-" + string([]byte{a.wild})
	m := r.Range(1, 6)
	prof := make([]string, m)
	for i := range prof {
		b := make([]byte, L)
		for j := range b {
			if j < len(a.Rows[0]) && r.Chance(0.6) {
				b[j] = up(a.Rows[r.Intn(len(a.Rows))][j])
			} else {
				b[j] = pool[r.Intn(len(pool))]
			}
		}
		prof[i] = string(b)
	}
	if r.Chance(0.35) { // a profile without any gap: every gap of the alignment is new, the unique ones are both
		for i := range prof {
			b := []byte(prof[i])
			for j := range b {
				if b[j] == '-' {
					b[j] = a.base[r.Intn(len(a.base))]
				}
			}
			prof[i] = string(b)
		}
	}
	return prof
}

// table reads `rows` lines of tab separated fields with the sequence names in the first field.
func (x *cliCtx) nameRows(cu *cursor, al cliAl, nfields int, what string) ([][]int, bool) {
	out := make([][]int, al.n())
	for i := 0; i < al.n(); i++ {
		f, ok := cu.next()
		if !ok || len(f) != nfields+1 || f[0] != al.Names[i] {
			x.fail(x.k.Kind+":table-shape", "%s: line %d should be %q followed by %d number(s), got %q", what, cu.p, al.Names[i], nfields, f)
			return nil, false
		}
		for _, s := range f[1:] {
			v, ok := atoiOK(s)
			if !ok {
				x.fail(x.k.Kind+":table-shape", "%s: %q is not a number (line %q)", what, s, f)
				return nil, false
			}
			out[i] = append(out[i], v)
		}
	}
	return out, true
}

func (x *cliCtx) finished(cu *cursor) bool {
	if !cu.done() {
		x.fail(x.k.Kind+":extra-output", "unexpected output from line %d on: %q", cu.p+1, cu.lines[cu.p])
		return false
	}
	return true
}

// ---------------------------------------------------------------------------- stats (summary)

func (x *cliCtx) checkCharTable(cu *cursor, rows []string, only string) bool {
	f, ok := cu.next()
	if !ok || strings.Join(f, "\t") != "char\tnb\tfreq" {
		x.fail(x.k.Kind+":table-shape", "header char/nb/freq expected, got %q", f)
		return false
	}
	exp := foldAll(rows)
	total := 0
	for _, v := range exp {
		total += v
	}
	want := map[string]int{}
	if only == "" {
		for ch, v := range exp {
			want[string([]byte{ch})] = v
		}
	} else {
		want[only] = exp[only[0]]
	}
	seen := map[string]bool{}
	for len(seen) < len(want) {
		f, ok := cu.next()
		if !ok || len(f) != 3 {
			x.fail(x.k.Kind+":table-shape", "character line expected (%d of %d read), got %q", len(seen), len(want), f)
			return false
		}
		v, isCh := want[f[0]]
		nb, okn := atoiOK(f[1])
		if !isCh || seen[f[0]] || !okn {
			x.fail(x.k.Kind+":wrong-characters", "line %q: not one of the case-folded characters of the alignment %q (or twice)", f, sortedKeys(exp))
			return false
		}
		seen[f[0]] = true
		if nb != v {
			x.fail(x.k.Kind+":wrong-counts", "character %s: %d printed, the rows hold %d (case-folded); rows=%q", f[0], nb, v, rows)
			return false
		}
		if !nearStr(f[2], float64(v)/float64(total), 6) {
			x.fail(x.k.Kind+":wrong-frequency", "character %s: frequency %s printed, %d/%d", f[0], f[2], v, total)
			return false
		}
	}
	return true
}

func genCliSummary(x *cliCtx, round int) func() {
	x.genAlns(genOpt{}, true)
	return func() {
		if !x.expectOK() {
			return
		}
		cu := &cursor{lines: splitLines(x.stdout)}
		for ai, al := range x.k.Als {
			a := al.A
			exact := !hasLower(a.Rows)
			kv := func(key string) (string, bool) {
				f, ok := cu.next()
				if !ok || len(f) != 2 || f[0] != key {
					x.fail("stats:table-shape", "alignment %d: line %q expected, got %q", ai, key, f)
					return "", false
				}
				return f[1], true
			}
			v, ok := kv("length")
			if !ok {
				return
			}
			if v != strconv.Itoa(al.l()) {
				x.fail("stats:wrong-length", "alignment %d: length %s printed, %d columns", ai, v, al.l())
				return
			}
			if v, ok = kv("nseqs"); !ok {
				return
			}
			if v != strconv.Itoa(al.n()) {
				x.fail("stats:wrong-nseqs", "alignment %d: nseqs %s printed, %d rows", ai, v, al.n())
				return
			}
			if v, ok = kv("avgalleles"); !ok {
				return
			}
			if exact {
				vals, undef := avgAllelesValues(a.Rows, a.wild)
				if !undef && !nearAny(v, vals, 4) {
					x.fail("stats:wrong-avgalleles", "alignment %d: avgalleles %s printed, definition gives %v; rows=%q", ai, v, vals, a.Rows)
					return
				}
			}
			if v, ok = kv("variable sites"); !ok {
				return
			}
			if exact {
				nv, okn := atoiOK(v)
				good := false
				for _, e := range nbVariableValues(a.Rows, a.wild) {
					good = good || (okn && e == nv)
				}
				if !good {
					x.fail("stats:wrong-variable-sites", "alignment %d: variable sites %s printed, definition gives %v; rows=%q", ai, v, nbVariableValues(a.Rows, a.wild), a.Rows)
					return
				}
			}
			if !x.checkCharTable(cu, a.Rows, "") {
				return
			}
			if v, ok = kv("alphabet"); !ok {
				return
			}
			if want := map[bool]string{true: "protein", false: "nucleotide"}[a.protein]; v != want {
				x.fail("stats:wrong-alphabet", "alignment %d: alphabet %s printed, %s expected", ai, v, want)
				return
			}
		}
		x.finished(cu)
	}
}

// ---------------------------------------------------------------------------- stats --per-sequences

func genCliPerSeq(x *cliCtx, round int) func() {
	r := x.r
	x.flag("--per-sequences")
	refMode := []string{"none", "name", "file", "none", "name", "file", "file-other-length"}[round%7]
	var ref string
	switch refMode {
	case "none":
		x.genAlns(genOpt{upper: true, noSpecial: true}, true)
	default:
		var idx int
		ref, idx = x.genRefAln(refMode == "name")
		if refMode == "name" {
			x.flag("--ref-sequence", x.k.Als[0].Names[idx])
		} else {
			if refMode == "file-other-length" {
				ref += "A"
			}
			x.flag("--ref-sequence", x.file("reference.fa", writeFasta([]string{"theref", "another"}, []string{ref, "ACGT"}, 0)))
		}
	}
	x.count("per-sequences:ref=" + refMode)
	al := x.k.Als[0]
	a := al.A
	L := al.l()
	var prof []string
	profMode := "none"
	if len(x.k.Als) == 1 && round%2 == 1 {
		profMode = "given"
		pl := L
		if r.Chance(0.15) {
			profMode = "other-length"
			pl = L + 1
		}
		prof = genProfile(r, a, pl)
		x.flag("--count-profile", x.file("profile.txt", profileText(r, prof, pl, a.base+"-")))
	}
	x.count("per-sequences:profile=" + profMode)
	return func() {
		if refMode == "file-other-length" || profMode == "other-length" {
			if x.exit == 0 {
				x.fail("stats-per-sequences:error-expected", "exit status 0 with a reference / profile of another length than the alignment")
			}
			x.count("refusal:other-length")
			return
		}
		if !x.expectOK() {
			return
		}
		cu := &cursor{lines: splitLines(x.stdout)}
		for ai, al := range x.k.Als {
			a := al.A
			hd, ok := cu.next()
			fixed := []string{"sequence", "gaps", "gapsstart", "gapsend", "gapsuniques"}
			if prof != nil {
				fixed = append(fixed, "gapsnew", "gapsboth")
			}
			fixed = append(fixed, "gapsopenning", "mutuniques")
			if prof != nil {
				fixed = append(fixed, "mutsnew", "mutsboth")
			}
			if refMode != "none" {
				fixed = append(fixed, "mutref")
			}
			fixed = append(fixed, "length")
			if !ok || len(hd) < len(fixed) || strings.Join(hd[:len(fixed)], "\t") != strings.Join(fixed, "\t") {
				x.fail("stats-per-sequences:table-shape", "alignment %d: header %q expected (then the characters), got %q", ai, fixed, hd)
				return
			}
			chars := hd[len(fixed):]
			all := foldAll(a.Rows)
			seen := map[string]bool{}
			for _, ch := range chars {
				if len(ch) != 1 || all[ch[0]] == 0 || seen[ch] {
					x.fail("stats-per-sequences:wrong-characters", "alignment %d: character columns %q, the alignment holds %q", ai, chars, sortedKeys(all))
					return
				}
				seen[ch] = true
			}
			if len(seen) != len(all) {
				x.fail("stats-per-sequences:wrong-characters", "alignment %d: character columns %q, the alignment holds %q", ai, chars, sortedKeys(all))
				return
			}
			tab, ok := x.nameRows(cu, al, len(hd)-1, "per sequence table")
			if !ok {
				return
			}
			var profArg []string
			if prof != nil {
				profArg = prof
			}
			gu, gn, gb := refUniqueGaps(a.Rows, profArg)
			mu, mn, mb := refUniqueMuts(a.Rows, profArg, a.wild)
			for i, s := range a.Rows {
				col := 0
				get := func() int { v := tab[i][col]; col++; return v }
				bad := func(name string, got int, want interface{}) {
					x.fail("stats-per-sequences:wrong-"+name, "alignment %d sequence %s %q: %s=%d printed, definition %v; rows=%q profile rows=%q reference %q", ai, al.Names[i], s, name, got, want, a.Rows, prof, ref)
				}
				if v := get(); v != gapsTotal(s) {
					bad("gaps", v, gapsTotal(s))
					return
				}
				if v := get(); v != gapsStart(s) {
					bad("gapsstart", v, gapsStart(s))
					return
				}
				if v := get(); v != gapsEnd(s) {
					bad("gapsend", v, gapsEnd(s))
					return
				}
				if v := get(); v != gu[i] {
					bad("gapsuniques", v, gu[i])
					return
				}
				if prof != nil {
					if v := get(); v != gn[i] {
						bad("gapsnew", v, gn[i])
						return
					}
					if v := get(); v != gb[i] {
						bad("gapsboth", v, gb[i])
						return
					}
				}
				if v := get(); v != gapsOpen(s) {
					bad("gapsopenning", v, gapsOpen(s))
					return
				}
				if v := get(); v != mu[i] {
					bad("mutuniques", v, mu[i])
					return
				}
				if prof != nil {
					if v := get(); v != mn[i] {
						bad("mutsnew", v, mn[i])
						return
					}
					if v := get(); v != mb[i] {
						bad("mutsboth", v, mb[i])
						return
					}
				}
				if refMode != "none" {
					lo, hi := refNumMutations(s, ref, a.protein)
					if v := get(); v < lo || v > hi {
						bad("mutref", v, fmt.Sprintf("%d..%d", lo, hi))
						return
					}
				}
				if v := get(); v != len(s)-gapsTotal(s) {
					bad("length", v, len(s)-gapsTotal(s))
					return
				}
				fc := foldCounts(s)
				for _, ch := range chars {
					if v := get(); v != fc[ch[0]] {
						bad("count-of-"+"character", v, fmt.Sprintf("%d of %s", fc[ch[0]], ch))
						return
					}
				}
			}
		}
		x.finished(cu)
	}
}

// ---------------------------------------------------------------------------- stats alleles / alphabet / length / nseq / taxa / nalign

func genCliAlleles(x *cliCtx, round int) func() {
	x.genAlns(genOpt{upper: true}, false)
	return func() {
		if !x.expectOK() {
			return
		}
		lines := splitLines(x.stdout)
		a := x.k.Als[0].A
		vals, undef := avgAllelesValues(a.Rows, a.wild)
		if len(lines) != 1 {
			x.fail("stats-alleles:table-shape", "one number expected, got %q", lines)
			return
		}
		if !undef && !nearAny(lines[0], vals, 9) {
			x.fail("stats-alleles:wrong-value", "%s printed, definition gives %v; rows=%q", lines[0], vals, a.Rows)
		}
	}
}

// ragged: the rows cut to different lengths (an unaligned set).
func (x *cliCtx) ragged() {
	al := &x.k.Als[0]
	rows := append([]string{}, al.A.Rows...)
	for i, s := range rows {
		rows[i] = s[:x.r.Range(1, len(s))]
	}
	al.A.Rows = rows
}

// unalignedInput: a fasta file of sequences of different lengths, --unaligned; the alphabet is left to the detection.
func (x *cliCtx) unalignedInput() {
	for {
		x.k.Als = nil
		o, _ := x.chooseFormat(genOpt{}, false, true)
		a := genAln(x.c, o)
		if a.protein && !hasAnyFold(a.Rows, "QEILFPZ") {
			continue // the detection cannot tell: not a case for --unaligned (the alphabet option is for alignments)
		}
		x.k.Als = []cliAl{{A: a, Names: cliNames(x.r, len(a.Rows))}}
		x.ragged()
		if a.protein && !hasAnyFold(x.k.Als[0].A.Rows, "QEILFPZ") {
			continue
		}
		break
	}
	x.k.Auto = false
	al := x.k.Als[0]
	x.in = x.file("input.fasta", writeFasta(al.Names, al.A.Rows, x.r.PickInt([]int{0, 5})))
	x.inArgs = []string{"-i", x.in}
	x.flag("--unaligned")
	x.count("format:fasta-unaligned")
}

func genCliAlphabet(x *cliCtx, round int) func() {
	if round%3 == 2 {
		x.unalignedInput()
	} else {
		x.genAlns(genOpt{}, false)
	}
	return func() {
		if !x.expectOK() {
			return
		}
		want := map[bool]string{true: "protein", false: "nucleotide"}[x.k.Als[0].A.protein]
		if strings.TrimSpace(x.stdout) != want {
			x.fail("stats-alphabet:wrong-alphabet", "%q printed, %s expected", x.stdout, want)
		}
	}
}

func genCliLength(x *cliCtx, round int) func() {
	un := round%3 == 2
	if un {
		x.unalignedInput()
	} else {
		x.genAlns(genOpt{}, true)
	}
	return func() {
		if !x.expectOK() {
			return
		}
		lines := splitLines(x.stdout)
		if un {
			al := x.k.Als[0]
			if len(lines) != al.n() {
				x.fail("stats-length:table-shape", "%d lines for %d sequences", len(lines), al.n())
				return
			}
			for i, ln := range lines {
				f := strings.Split(ln, "\t")
				if len(f) != 2 || strings.TrimSpace(f[0]) != al.Names[i] || strings.TrimSpace(f[1]) != strconv.Itoa(len(al.A.Rows[i])) {
					x.fail("stats-length:wrong-length", "line %q, sequence %s has %d characters", ln, al.Names[i], len(al.A.Rows[i]))
					return
				}
			}
			return
		}
		if len(lines) != len(x.k.Als) {
			x.fail("stats-length:table-shape", "%d lines for %d alignments", len(lines), len(x.k.Als))
			return
		}
		for i, al := range x.k.Als {
			if lines[i] != strconv.Itoa(al.l()) {
				x.fail("stats-length:wrong-length", "alignment %d: %q printed, %d columns", i, lines[i], al.l())
				return
			}
		}
	}
}

func genCliNseq(x *cliCtx, round int) func() {
	un := round%3 == 2
	if un {
		x.unalignedInput()
	} else {
		x.genAlns(genOpt{}, true)
	}
	return func() {
		if !x.expectOK() {
			return
		}
		lines := splitLines(x.stdout)
		if len(lines) != len(x.k.Als) {
			x.fail("stats-nseq:table-shape", "%d lines for %d alignments", len(lines), len(x.k.Als))
			return
		}
		for i, al := range x.k.Als {
			if lines[i] != strconv.Itoa(al.n()) {
				x.fail("stats-nseq:wrong-count", "alignment %d: %q printed, %d sequences", i, lines[i], al.n())
				return
			}
		}
	}
}

func genCliTaxa(x *cliCtx, round int) func() {
	if round%3 == 2 {
		x.unalignedInput()
	} else {
		x.genAlns(genOpt{}, true)
	}
	return func() {
		if !x.expectOK() {
			return
		}
		lines := splitLines(x.stdout)
		al := x.k.Als[0] // documented: only the first alignment
		if len(lines) != al.n() {
			x.fail("stats-taxa:table-shape", "%d lines for the %d sequences of the first alignment", len(lines), al.n())
			return
		}
		for i, ln := range lines {
			if ln != strconv.Itoa(i)+"\t"+al.Names[i] {
				x.fail("stats-taxa:wrong-line", "line %d is %q, expected %q", i, ln, strconv.Itoa(i)+"\t"+al.Names[i])
				return
			}
		}
	}
}

func genCliNalign(x *cliCtx, round int) func() {
	x.genAlns(genOpt{}, true)
	return func() {
		if !x.expectOK() {
			return
		}
		if strings.TrimSpace(x.stdout) != strconv.Itoa(len(x.k.Als)) {
			x.fail("stats-nalign:wrong-count", "%q printed, the file holds %d alignment(s)", x.stdout, len(x.k.Als))
		}
	}
}
