// profile-file sub-check of C14: a count profile written to a file (the format `goalign stats char --per-sites`
// prints and every --count-profile option reads: header "site<TAB>A<TAB>C...", one line of counts per site) and
// read back with io/countprofile.FromFile must hold, for every character and every site, exactly the counts that
// were written - for profiles shorter and longer than any internal buffer size (up to 700 sites here).
package main

import (
	"fmt"
	"os"
	"path/filepath"
	"strings"

	"github.com/evolbioinfo/goalign/io/countprofile"

	"verif/lib/mon"
)

func runProfileFile(c *mon.Case) {
	r := c.R
	L := r.PickInt([]int{1, 2, 7, 50, 99, 100, 101, 102, 150, 199, 200, 201, 230, 400, 700})
	chars := []byte("ACGT")
	switch r.Intn(4) {
	case 1:
		chars = []byte("ACGT-N")
	case 2:
		chars = []byte("ARNDCQEGHILKMFPSTWYV-X")
	case 3:
		chars = []byte("AC")
	}
	counts := make([][]int, len(chars))
	var sb strings.Builder
	sb.WriteString("site")
	for _, ch := range chars {
		sb.WriteString("\t" + string(ch))
	}
	sb.WriteString("\n")
	for i := range counts {
		counts[i] = make([]int, L)
	}
	for s := 0; s < L; s++ {
		fmt.Fprintf(&sb, "%d", s)
		for i := range chars {
			counts[i][s] = r.Intn(1000)
			if r.Chance(0.3) {
				counts[i][s] = 0
			}
			fmt.Fprintf(&sb, "\t%d", counts[i][s])
		}
		sb.WriteString("\n")
	}
	scratch := os.Getenv("VERIF_SCRATCH")
	if scratch == "" {
		scratch = os.TempDir()
	}
	f := filepath.Join(scratch, fmt.Sprintf("c14-profile-%d-%d.txt", os.Getpid(), c.Idx))
	if err := os.WriteFile(f, []byte(sb.String()), 0644); err != nil {
		panic("harness: " + err.Error())
	}
	defer os.Remove(f)
	c.Input(map[string]interface{}{"sites": L, "characters": string(chars)})
	p, err := countprofile.FromFile(f)
	if err != nil {
		c.Failf("CountProfile.FromFile:unexpected-error", "%d sites x %q: %v", L, chars, err)
		return
	}
	if !p.CheckLength(L) {
		c.Failf("CountProfile.FromFile:length", "profile of %d sites read back: CheckLength(%d) is false", L, L)
		return
	}
	for i, ch := range chars {
		for s := 0; s < L; s++ {
			got, err := p.Count(ch, s)
			if err != nil || got != counts[i][s] {
				c.Failf("CountProfile.FromFile:wrong-count", "profile of %d sites x %q: Count(%c, site %d) = %d (err %v), the file says %d", L, chars, ch, s, got, err, counts[i][s])
				return
			}
		}
	}
	c.Count("fn:CountProfile.FromFile")
	if L > 100 {
		c.Count("profile-file:more-than-100-sites")
	}
	c.NonTrivial(fmt.Sprint(L), string(chars), fmt.Sprint(counts[0][0], counts[len(chars)-1][L-1]))
}
