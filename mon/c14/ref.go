// Naive definitions of the column statistics of property C14, written from the
// property statement and goalign's documentation (interface comments, docs/commands/
// stats.md, consensus.md, compute.md, diff.md). Every corner the statement leaves
// open is modelled as a set of admissible readings.
package main

import (
	"math"
	"sort"
)

func up(c byte) byte {
	if c >= 'a' && c <= 'z' {
		return c - 32
	}
	return c
}

func lo(c byte) byte {
	if c >= 'A' && c <= 'Z' {
		return c + 32
	}
	return c
}

func colOf(rows []string, j int) string {
	b := make([]byte, len(rows))
	for i, s := range rows {
		b[i] = s[j]
	}
	return string(b)
}

func foldCounts(s string) map[byte]int {
	m := map[byte]int{}
	for i := 0; i < len(s); i++ {
		m[up(s[i])]++
	}
	return m
}

func rawCounts(s string) map[byte]int {
	m := map[byte]int{}
	for i := 0; i < len(s); i++ {
		m[s[i]]++
	}
	return m
}

func hasLower(rows []string) bool {
	for _, s := range rows {
		for i := 0; i < len(s); i++ {
			if s[i] >= 'a' && s[i] <= 'z' {
				return true
			}
		}
	}
	return false
}

func hasAny(rows []string, set string) bool {
	for _, s := range rows {
		for i := 0; i < len(s); i++ {
			for k := 0; k < len(set); k++ {
				if s[i] == set[k] {
					return true
				}
			}
		}
	}
	return false
}

func sortedKeys(m map[byte]int) []byte {
	k := make([]byte, 0, len(m))
	for c := range m {
		k = append(k, c)
	}
	sort.Slice(k, func(i, j int) bool { return k[i] < k[j] })
	return k
}

// ---------------------------------------------------------------- majority character

type maxExp struct {
	n        int
	total    int           // sequences taken into account
	max      int           // occurrences of a most frequent non-excluded character
	argmax   map[byte]bool // the tied most frequent characters
	fallback bool          // every character of the column is excluded
	kinds    map[byte]int  // folded counts of the column
}

// refMax: most frequent case-folded character among those not excluded.
func refMax(col string, wild byte, ignoreGaps, ignoreNs bool) maxExp {
	e := maxExp{n: len(col), argmax: map[byte]bool{}, kinds: foldCounts(col)}
	for ch, v := range e.kinds {
		if (ignoreGaps && ch == '-') || (ignoreNs && ch == wild) {
			continue
		}
		e.total += v
		if v > e.max {
			e.max = v
		}
	}
	if e.total == 0 {
		e.fallback = true
		return e
	}
	for ch, v := range e.kinds {
		if (ignoreGaps && ch == '-') || (ignoreNs && ch == wild) {
			continue
		}
		if v == e.max {
			e.argmax[ch] = true
		}
	}
	return e
}

// accepts says whether (out, occur, total) is an admissible answer for the column; "" when fine.
func (e maxExp) accepts(out byte, occur, total int) string {
	if !e.fallback {
		if !e.argmax[out] {
			return "character is not a most frequent non-excluded one"
		}
		if occur != e.max {
			return "wrong number of occurrences"
		}
		if total != e.total {
			return "wrong total"
		}
		return ""
	}
	// only excluded kinds in the column: the (only) kind present, or with gaps and Ns mixed one of them
	if _, ok := e.kinds[out]; !ok {
		return "fallback character is not present in the column"
	}
	if occur != e.n && occur != e.kinds[out] {
		return "fallback occurrences neither the column height nor the count of the character"
	}
	if total != 0 && total != e.n {
		return "fallback total neither 0 nor the column height"
	}
	return ""
}

// ---------------------------------------------------------------- site measures

type reading struct {
	fold     bool // case folded before counting
	wildOut  bool // N (nt) / X (aa) not counted as a character
	otherOut bool // the other alphabet's wildcard (X in nt, N in aa) not counted
	starOut  bool // '*' not counted
	pointOut bool // '.' not counted
}

func allReadings(fixWildOut *bool, fixStarOut *bool, fixPointOut *bool, withOther bool) []reading {
	var out []reading
	bs := []bool{false, true}
	for _, f := range bs {
		for _, w := range bs {
			if fixWildOut != nil && w != *fixWildOut {
				continue
			}
			for _, o := range bs {
				if !withOther && o {
					continue
				}
				for _, s := range bs {
					if fixStarOut != nil && s != *fixStarOut {
						continue
					}
					for _, p := range bs {
						if fixPointOut != nil && p != *fixPointOut {
							continue
						}
						out = append(out, reading{f, w, o, s, p})
					}
				}
			}
		}
	}
	return out
}

// kept returns the characters of the column counted under a reading (gaps never are).
func (rd reading) kept(col string, wild, other byte, dropGaps bool) map[byte]int {
	m := map[byte]int{}
	for i := 0; i < len(col); i++ {
		ch := col[i]
		u := up(ch)
		if dropGaps && ch == '-' {
			continue
		}
		if rd.wildOut && u == wild {
			continue
		}
		if rd.otherOut && u == other {
			continue
		}
		if rd.starOut && ch == '*' {
			continue
		}
		if rd.pointOut && ch == '.' {
			continue
		}
		if rd.fold {
			ch = u
		}
		m[ch]++
	}
	return m
}

// shannon: -sum p ln p of a count table (natural logarithm); NaN for an empty table.
func shannon(m map[byte]int) float64 {
	tot := 0
	for _, v := range m {
		tot += v
	}
	if tot == 0 {
		return math.NaN()
	}
	h := 0.0
	for _, k := range sortedKeys(m) {
		p := float64(m[k]) / float64(tot)
		h -= p * math.Log(p)
	}
	return h
}

func closeTo(a, b, tol float64) bool {
	if math.IsNaN(a) || math.IsNaN(b) {
		return math.IsNaN(a) && math.IsNaN(b)
	}
	if math.IsInf(a, 0) || math.IsInf(b, 0) {
		return a == b
	}
	d := math.Abs(a - b)
	return d <= tol || d <= tol*math.Max(math.Abs(a), math.Abs(b))
}

func t(b bool) *bool { return &b }

// entropyReadings: admissible values of the entropy of a site. N/X are ordinary characters;
// '*' and '.' counted or not, case folded or not (nobody specifies).
func entropyValues(col string, removeGaps bool) []float64 {
	var vals []float64
	for _, rd := range allReadings(t(false), nil, nil, false) {
		vals = append(vals, shannon(rd.kept(col, 0, 0, removeGaps)))
	}
	return vals
}

// variable: at least two distinct characters (gaps and '.' are never characters).
func nbVariableValues(rows []string, wild byte) []int {
	var vals []int
	if len(rows) == 0 {
		return []int{0}
	}
	for _, rd := range allReadings(nil, nil, t(true), false) {
		nb := 0
		for j := 0; j < len(rows[0]); j++ {
			if len(rd.kept(colOf(rows, j), wild, 0, true)) >= 2 {
				nb++
			}
		}
		vals = append(vals, nb)
	}
	return vals
}

// avgAllelesValues: sum over sites of the number of distinct characters divided by the number of
// sites that hold at least one character.
func avgAllelesValues(rows []string, wild byte) (vals []float64, undefined bool) {
	if len(rows) == 0 {
		return nil, true
	}
	for _, rd := range allReadings(nil, nil, t(true), false) {
		alleles, sites := 0, 0
		for j := 0; j < len(rows[0]); j++ {
			k := len(rd.kept(colOf(rows, j), wild, 0, true))
			alleles += k
			if k > 0 {
				sites++
			}
		}
		if sites == 0 {
			undefined = true // 0/0: any answer
			continue
		}
		vals = append(vals, float64(alleles)/float64(sites))
	}
	return
}

// informativeStatuses: admissible answers for one site: at least two characters occurring at
// least twice each; gaps and the alphabet's wildcard are not characters.
func informativeStatuses(col string, wild, other byte) (canBe, canNotBe bool) {
	for _, rd := range allReadings(t(true), nil, nil, true) {
		twice := 0
		for _, v := range rd.kept(col, wild, other, true) {
			if v >= 2 {
				twice++
			}
		}
		if twice >= 2 {
			canBe = true
		} else {
			canNotBe = true
		}
	}
	return
}

// informativeStatusesFolded: the same on a column holding lower case, where only the case-folded readings are
// admissible (a and A are one character); a lower case wildcard may be counted as a character or not.
func informativeStatusesFolded(col string, wild, other byte) (canBe, canNotBe bool) {
	for _, rd := range allReadings(nil, nil, nil, true) {
		if !rd.fold {
			continue
		}
		twice := 0
		for _, v := range rd.kept(col, wild, other, true) {
			if v >= 2 {
				twice++
			}
		}
		if twice >= 2 {
			canBe = true
		} else {
			canNotBe = true
		}
	}
	return
}

// ---------------------------------------------------------------- Clustal conservation

var clustalStrong = []string{"STA", "NEQK", "NHQK", "NDEQ", "QHRK", "MILV", "MILF", "HY", "FYW"}
var clustalWeak = []string{"CSA", "ATV", "SAG", "STNK", "STPA", "SGND", "SNDEQK", "NDEQHK", "NEQHRK", "FVLIM", "HFY"}

// conservation of an upper case column: 0 identical, 1 strong group, 2 weak group, 3 none.
func refConservation(col string, protein bool) int {
	same := true
	for i := 0; i < len(col); i++ {
		if col[i] != col[0] || col[i] == '-' {
			same = false
		}
	}
	if same {
		return 0
	}
	inGroup := func(groups []string) bool {
		for _, g := range groups {
			all := true
			for i := 0; i < len(col); i++ {
				found := false
				for k := 0; k < len(g); k++ {
					if g[k] == col[i] {
						found = true
					}
				}
				if !found {
					all = false
					break
				}
			}
			if all {
				return true
			}
		}
		return false
	}
	if protein {
		if inGroup(clustalStrong) {
			return 1
		}
		if inGroup(clustalWeak) {
			return 2
		}
	}
	return 3
}

// ---------------------------------------------------------------- PSSM

type pssmReading struct {
	denomAlphabet bool // column frequency over the alphabet characters of the column instead of over all sequences
	bgAllChars    bool // DATA: background frequency over all characters instead of over alphabet characters
	logoPseudo    bool // LOGO: pseudo counts also in the denominator
	logoLog       bool // LOGO: log2 applied to the logo values when log is asked
}

// refPssm returns the expected matrix [alphabet char][site] under a reading; skip[c] marks
// characters whose background frequency is 0 (DATA: division by zero, nothing is demanded).
func refPssm(rows []string, alphabet string, log bool, pc float64, norm int, rd pssmReading) (m map[byte][]float64, skip map[byte]bool, zeroLogo []bool) {
	n := len(rows)
	L := len(rows[0])
	K := float64(len(alphabet))
	m = map[byte][]float64{}
	skip = map[byte]bool{}
	zeroLogo = make([]bool, L)
	for i := 0; i < len(alphabet); i++ {
		m[alphabet[i]] = make([]float64, L)
	}
	// background
	bg := map[byte]float64{}
	if norm == 2 {
		tot := map[byte]int{}
		all, alpha := 0, 0
		for _, s := range rows {
			for k := 0; k < len(s); k++ {
				tot[up(s[k])]++
				all++
			}
		}
		for i := 0; i < len(alphabet); i++ {
			alpha += tot[alphabet[i]]
		}
		for i := 0; i < len(alphabet); i++ {
			c := alphabet[i]
			if tot[c] == 0 {
				skip[c] = true
				continue
			}
			if rd.bgAllChars {
				bg[c] = float64(tot[c]) / float64(all)
			} else {
				bg[c] = float64(tot[c]) / float64(alpha)
			}
		}
	}
	for j := 0; j < L; j++ {
		cnt := foldCounts(colOf(rows, j))
		inAlpha := 0
		for i := 0; i < len(alphabet); i++ {
			inAlpha += cnt[alphabet[i]]
		}
		den := float64(n) + K*pc
		if rd.denomAlphabet {
			den = float64(inAlpha) + K*pc
		}
		switch norm {
		case 0, 1, 2, 3:
			for i := 0; i < len(alphabet); i++ {
				c := alphabet[i]
				v := float64(cnt[c]) + pc
				switch norm {
				case 1:
					v /= den
				case 2:
					v = v / den / bg[c]
				case 3:
					v = v / den / (1 / K)
				}
				if log {
					v = math.Log2(v)
				}
				m[c][j] = v
			}
		case 4:
			lden := float64(n)
			if rd.denomAlphabet {
				lden = float64(inAlpha)
			}
			if rd.logoPseudo {
				lden += K * pc
			}
			h := 0.0
			ps := make([]float64, len(alphabet))
			for i := 0; i < len(alphabet); i++ {
				ps[i] = (float64(cnt[alphabet[i]]) + pc) / lden
				if ps[i] > 0 {
					h -= ps[i] * math.Log2(ps[i])
				} else {
					zeroLogo[j] = true
				}
			}
			for i := 0; i < len(alphabet); i++ {
				v := ps[i] * (math.Log2(K) - h)
				if log && rd.logoLog {
					v = math.Log2(v)
				}
				m[alphabet[i]][j] = v
			}
		}
	}
	return
}

// ---------------------------------------------------------------- unique gaps / characters

// refUniqueGaps: per sequence, gaps that are alone in their column; gaps absent from the profile
// column (prof != nil); both.
func refUniqueGaps(rows []string, prof []string) (uniq, nw, both []int) {
	n := len(rows)
	uniq, nw, both = make([]int, n), make([]int, n), make([]int, n)
	if n == 0 {
		return
	}
	for j := 0; j < len(rows[0]); j++ {
		col := colOf(rows, j)
		g := rawCounts(col)['-']
		pg := -1
		if prof != nil {
			pg = 0
			if len(prof) > 0 {
				pg = rawCounts(colOf(prof, j))['-']
			}
		}
		for i := 0; i < n; i++ {
			if col[i] != '-' {
				continue
			}
			if g == 1 {
				uniq[i]++
			}
			if pg == 0 {
				nw[i]++
				if g == 1 {
					both[i]++
				}
			}
		}
	}
	return
}

// refUniqueMuts: same for characters other than '-' and the wildcard (upper case inputs).
func refUniqueMuts(rows []string, prof []string, wild byte) (uniq, nw, both []int) {
	n := len(rows)
	uniq, nw, both = make([]int, n), make([]int, n), make([]int, n)
	if n == 0 {
		return
	}
	for j := 0; j < len(rows[0]); j++ {
		col := colOf(rows, j)
		cnt := rawCounts(col)
		var pc map[byte]int
		if prof != nil {
			pc = map[byte]int{}
			if len(prof) > 0 {
				pc = rawCounts(colOf(prof, j))
			}
		}
		for i := 0; i < n; i++ {
			ch := col[i]
			if ch == '-' || ch == wild {
				continue
			}
			if cnt[ch] == 1 {
				uniq[i]++
			}
			if pc != nil && pc[ch] == 0 {
				nw[i]++
				if cnt[ch] == 1 {
					both[i]++
				}
			}
		}
	}
	return
}

// ---------------------------------------------------------------- reference relative counters

var iupacSets = map[byte]int{
	'A': 1, 'C': 2, 'G': 4, 'T': 8,
	'R': 1 | 4, 'Y': 2 | 8, 'S': 4 | 2, 'W': 1 | 8, 'K': 4 | 8, 'M': 1 | 2,
	'B': 2 | 4 | 8, 'D': 1 | 4 | 8, 'H': 1 | 2 | 8, 'V': 1 | 2 | 4, 'N': 15, '-': 0,
}

// compat: 1 compatible (no difference), 0 different, 2 nobody says (protein ambiguity codes).
func compat(s, r byte, protein bool) int {
	if protein {
		if s == r {
			return 1
		}
		amb := func(c byte) bool { return c == 'X' || c == 'B' || c == 'Z' || c == 'J' }
		if amb(r) || amb(s) {
			return 2
		}
		return 0
	}
	if s == r {
		return 1
	}
	if iupacSets[s]&iupacSets[r] != 0 {
		return 1
	}
	return 0
}

// refNumMutations: [lo,hi] number of residues of s (gaps and the wildcard excluded) that are not
// equal to / compatible with the reference character of the column (upper case inputs).
func refNumMutations(s, ref string, protein bool) (lo, hi int) {
	wild := byte('N')
	if protein {
		wild = 'X'
	}
	for i := 0; i < len(s); i++ {
		if s[i] == '-' || s[i] == wild {
			continue
		}
		switch compat(s[i], ref[i], protein) {
		case 0:
			lo++
			hi++
		case 2:
			hi++
		}
	}
	return
}

type mutItem struct {
	variants []string // admissible renderings "R<pos>ALT"
	optional bool
}

func renderMut(ref byte, pos int, alt string) string {
	return string([]byte{ref}) + itoa(pos) + alt
}

func itoa(i int) string {
	if i == 0 {
		return "0"
	}
	neg := i < 0
	if neg {
		i = -i
	}
	var b [20]byte
	p := len(b)
	for i > 0 {
		p--
		b[p] = byte('0' + i%10)
		i /= 10
	}
	if neg {
		p--
		b[p] = '-'
	}
	return string(b[p:])
}

// refListMutations: substitutions and deletions at reference residues, insertions grouped per run of
// reference gaps, positions counted on the ungapped reference from 0 (upper case inputs).
func refListMutations(s, ref string, protein bool) []mutItem {
	wild := byte('N')
	if protein {
		wild = 'X'
	}
	var items []mutItem
	refi := 0
	ins := []byte{}
	flush := func() {
		if len(ins) == 0 {
			return
		}
		noN := []byte{}
		for _, ch := range ins {
			if ch != wild {
				noN = append(noN, ch)
			}
		}
		it := mutItem{variants: []string{renderMut('-', refi, string(ins))}}
		if len(noN) != len(ins) {
			if len(noN) == 0 {
				it.optional = true
			} else {
				it.variants = append(it.variants, renderMut('-', refi, string(noN)))
			}
		}
		items = append(items, it)
		ins = ins[:0]
	}
	for i := 0; i < len(s); i++ {
		if ref[i] == '-' {
			if s[i] != '-' {
				ins = append(ins, s[i])
			}
			continue
		}
		flush()
		if s[i] != wild {
			switch compat(s[i], ref[i], protein) {
			case 0:
				items = append(items, mutItem{variants: []string{renderMut(ref[i], refi, string([]byte{s[i]}))}})
			case 2:
				items = append(items, mutItem{variants: []string{renderMut(ref[i], refi, string([]byte{s[i]}))}, optional: true})
			}
		}
		refi++
	}
	flush()
	return items
}

// matchMutations checks an observed list against the admissible lists.
func matchMutations(got []string, exp []mutItem) bool {
	g := 0
	for _, it := range exp {
		hit := false
		if g < len(got) {
			for _, v := range it.variants {
				if got[g] == v {
					hit = true
				}
			}
		}
		if hit {
			g++
		} else if !it.optional {
			return false
		}
	}
	return g == len(got)
}

// refDiffs: raw differences with the first row, "REFNEW" -> count per other row.
func refDiffs(rows []string) (all map[string]bool, per []map[string]int) {
	all = map[string]bool{}
	for i := 1; i < len(rows); i++ {
		m := map[string]int{}
		for j := 0; j < len(rows[0]); j++ {
			if rows[0][j] != rows[i][j] {
				k := string([]byte{rows[0][j], rows[i][j]})
				m[k]++
				all[k] = true
			}
		}
		per = append(per, m)
	}
	return
}
