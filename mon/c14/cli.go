// cli sub-check of C14: the same definitions through the command line (cmd/stats*.go, char.go, alleles.go,
// length.go, maxchars.go, nalign.go, nseq.go, taxa.go, consensus.go, computeentropy.go, pssm.go, diff.go).
// The binary is built once per process from the tree under test (VERIF_REPO) into the scratch directory;
// every case owns a directory below it, writes its input file(s) (fasta / phylip incl. several alignments /
// strict phylip / nexus / clustal / stockholm, optional --auto-detect, optional --alphabet), runs ONE command
// with a documented flag combination, parses the printed table and compares with the naive definitions of
// ref.go. This file: infrastructure (build, writers, parsers, process execution); cli_kinds.go: the commands.
package main

import (
	"bytes"
	"fmt"
	"os"
	"os/exec"
	"path/filepath"
	"sort"
	"strconv"
	"strings"

	"github.com/evolbioinfo/goalign/align"
	"github.com/evolbioinfo/goalign/io/clustal"
	"github.com/evolbioinfo/goalign/io/nexus"
	"github.com/evolbioinfo/goalign/io/stockholm"

	"verif/lib/gen"
	"verif/lib/h"
	"verif/lib/mon"
)

var cliBin, cliDir, cliBuildErr string

func cliSetup() bool {
	if cliBin != "" {
		return true
	}
	if cliBuildErr != "" {
		return false
	}
	repo := os.Getenv("VERIF_REPO")
	if repo == "" {
		repo = "/repo"
	}
	scratch := os.Getenv("VERIF_SCRATCH")
	if scratch == "" {
		scratch = os.TempDir()
	}
	dir, err := os.MkdirTemp(scratch, "c14-cli-")
	if err != nil {
		cliBuildErr = err.Error()
		fmt.Fprintln(os.Stderr, "c14 cli: "+cliBuildErr)
		return false
	}
	bin := filepath.Join(dir, "goalign")
	cmd := exec.Command("go", "build", "-o", bin, ".")
	cmd.Dir = repo
	env := []string{}
	for _, e := range os.Environ() {
		if !strings.HasPrefix(e, "GOFLAGS=") {
			env = append(env, e)
		}
	}
	cmd.Env = append(env, "GOFLAGS=-mod=readonly", "GOPROXY=off", "GOSUMDB=off", "GOTOOLCHAIN=local")
	if out, err := cmd.CombinedOutput(); err != nil {
		cliBuildErr = fmt.Sprintf("go build of %s failed: %v\n%s", repo, err, out)
		fmt.Fprintln(os.Stderr, "c14 cli: "+cliBuildErr)
		os.RemoveAll(dir)
		return false
	}
	cliBin, cliDir = bin, dir
	return true
}

// ---------------------------------------------------------------------------- inputs

type cliAl struct {
	A     aln      `json:"aln"`
	Names []string `json:"names"`
}

func (al cliAl) n() int { return len(al.A.Rows) }
func (al cliAl) l() int { return len(al.A.Rows[0]) }

type cliCase struct {
	Kind   string            `json:"kind"`
	Format string            `json:"format"`
	Auto   bool              `json:"auto_detect"`
	Als    []cliAl           `json:"alignments"`
	Args   []string          `json:"args"`
	Files  map[string]string `json:"files,omitempty"`
}

func cliNames(r *gen.Rand, n int) []string {
	style := r.Intn(3)
	names := make([]string, n)
	for i := range names {
		switch style {
		case 0:
			names[i] = "s" + gen.Itoa(i)
		case 1:
			names[i] = fmt.Sprintf("Seq%04d", i)
		default:
			names[i] = fmt.Sprintf("t%d_x", i)
		}
	}
	return names
}

func hasAnyFold(rows []string, set string) bool {
	for _, s := range rows {
		for i := 0; i < len(s); i++ {
			if strings.IndexByte(set, up(s[i])) >= 0 {
				return true
			}
		}
	}
	return false
}

func writeFasta(names, rows []string, width int) string {
	var sb strings.Builder
	for i, s := range rows {
		sb.WriteString(">" + names[i] + "\n")
		if width <= 0 {
			sb.WriteString(s + "\n")
			continue
		}
		for p := 0; p < len(s); p += width {
			e := p + width
			if e > len(s) {
				e = len(s)
			}
			sb.WriteString(s[p:e] + "\n")
		}
	}
	return sb.String()
}

func writePhylip(als []cliAl, strict bool) string {
	var sb strings.Builder
	for _, al := range als {
		fmt.Fprintf(&sb, "   %d   %d\n", al.n(), al.l())
		for i, s := range al.A.Rows {
			if strict {
				fmt.Fprintf(&sb, "%-10s%s\n", al.Names[i], s)
			} else {
				fmt.Fprintf(&sb, "%s  %s\n", al.Names[i], s)
			}
		}
	}
	return sb.String()
}

func (al cliAl) build() align.Alignment {
	rows := make(gen.Rows, al.n())
	for i, s := range al.A.Rows {
		rows[i] = gen.Seq{Name: al.Names[i], Seq: s}
	}
	return h.MkAlign(rows, al.A.alpha)
}

// ---------------------------------------------------------------------------- output parsing

func splitLines(s string) []string {
	s = strings.TrimRight(s, "\n")
	if s == "" {
		return nil
	}
	return strings.Split(s, "\n")
}

type cursor struct {
	lines []string
	p     int
}

func (cu *cursor) next() ([]string, bool) {
	if cu.p >= len(cu.lines) {
		return nil, false
	}
	f := strings.Split(cu.lines[cu.p], "\t")
	cu.p++
	return f, true
}

func (cu *cursor) done() bool { return cu.p >= len(cu.lines) }

func atoiOK(s string) (int, bool) {
	v, err := strconv.Atoi(strings.TrimSpace(s))
	return v, err == nil
}

// parseFastaOut reads a fasta text.
func parseFastaOut(b string) (names, seqs []string) {
	for _, ln := range strings.Split(b, "\n") {
		ln = strings.TrimRight(ln, "\r")
		if strings.HasPrefix(ln, ">") {
			names = append(names, ln[1:])
			seqs = append(seqs, "")
		} else if len(seqs) > 0 {
			seqs[len(seqs)-1] += strings.TrimSpace(ln)
		}
	}
	return
}

// parsePhylipSingles reads a text made of phylip alignments of ONE sequence each (what `consensus -p` writes),
// in any of the output layouts (blocks, one line, strict).
func parsePhylipSingles(b string) (names, seqs []string, err error) {
	lines := splitLines(b)
	p := 0
	for p < len(lines) {
		if strings.TrimSpace(lines[p]) == "" {
			p++
			continue
		}
		hd := strings.Fields(lines[p])
		if len(hd) != 2 {
			return nil, nil, fmt.Errorf("line %d: header expected, got %q", p+1, lines[p])
		}
		n, ok1 := atoiOK(hd[0])
		L, ok2 := atoiOK(hd[1])
		if !ok1 || !ok2 || n != 1 {
			return nil, nil, fmt.Errorf("line %d: header of a one sequence alignment expected, got %q", p+1, lines[p])
		}
		p++
		name, seq := "", ""
		first := true
		for p < len(lines) && len(seq) < L {
			ln := lines[p]
			p++
			if strings.TrimSpace(ln) == "" {
				continue
			}
			if first {
				first = false
				if strings.HasPrefix(ln, "consensus") {
					name = "consensus"
					ln = ln[len("consensus"):]
				} else {
					f := strings.Fields(ln)
					name = f[0]
					ln = strings.Join(f[1:], "")
				}
			}
			seq += strings.Join(strings.Fields(ln), "")
		}
		if len(seq) != L {
			return nil, nil, fmt.Errorf("alignment %d: %d characters for a declared length of %d", len(seqs), len(seq), L)
		}
		names = append(names, name)
		seqs = append(seqs, seq)
	}
	return
}

// parseLibFormat reads an alignment written in nexus / clustal / stockholm with goalign's own parsers.
func parseLibFormat(format, b string) (names, seqs []string, err error) {
	var al align.Alignment
	switch format {
	case "nexus":
		al, err = nexus.NewParser(strings.NewReader(b)).Parse()
	case "clustal":
		al, err = clustal.NewParser(strings.NewReader(b)).Parse()
	case "stockholm":
		al, err = stockholm.NewParser(strings.NewReader(b)).Parse()
	default:
		err = fmt.Errorf("format %s", format)
	}
	if err != nil {
		return
	}
	al.Iterate(func(name, s string) bool {
		names = append(names, name)
		seqs = append(seqs, s)
		return false
	})
	return
}

// ---------------------------------------------------------------------------- one case

type cliCtx struct {
	c      *mon.Case
	r      *gen.Rand
	dir    string
	k      *cliCase
	cmd    []string // command words
	flags  []string // flags of the command
	inArgs []string // input options (-i file, format, alphabet)
	in     string   // input file
	stdout string
	stderr string
	exit   int
	runs   int
	tl     map[string]int
}

func (x *cliCtx) count(key string) { x.tl["cli:"+key]++ }

func (x *cliCtx) flag(f ...string) {
	x.flags = append(x.flags, f...)
	x.count("flag:" + strings.SplitN(f[0], "=", 2)[0])
}

func (x *cliCtx) file(name, content string) string {
	if err := os.WriteFile(filepath.Join(x.dir, name), []byte(content), 0644); err != nil {
		panic("harness: " + err.Error())
	}
	if x.k.Files == nil {
		x.k.Files = map[string]string{}
	}
	x.k.Files[name] = content
	return name // the command runs in the directory of the case
}

func head(s string, n int) string {
	if len(s) > n {
		return s[:n] + "…"
	}
	return s
}

func (x *cliCtx) fail(sig, format string, a ...interface{}) {
	var fs strings.Builder
	names := []string{}
	for n := range x.k.Files {
		names = append(names, n)
	}
	sort.Strings(names)
	for _, n := range names {
		fmt.Fprintf(&fs, "--- %s\n%s", n, head(x.k.Files[n], 1500))
	}
	x.c.Failf("cli:"+sig, "goalign %s\n%sexit %d stderr %q\nstdout:\n%s\n%s", strings.Join(x.k.Args, " "), fs.String(), x.exit, head(strings.TrimSpace(x.stderr), 300), head(x.stdout, 1500), fmt.Sprintf(format, a...))
}

func (x *cliCtx) run(args []string) (stdout, stderr string, exit int) {
	cmd := exec.Command(cliBin, args...)
	cmd.Dir = x.dir
	cmd.Stdin = strings.NewReader("")
	var so, se bytes.Buffer
	cmd.Stdout, cmd.Stderr = &so, &se
	err := cmd.Run()
	if err != nil {
		exit = 1
		if ee, ok := err.(*exec.ExitError); ok {
			exit = ee.ExitCode()
		}
	}
	x.runs++
	return so.String(), se.String(), exit
}

func (x *cliCtx) crashed() bool {
	return strings.Contains(x.stderr, "panic:") || strings.Contains(x.stderr, "goroutine ") || strings.Contains(x.stdout, "panic:") || x.exit < 0 || x.exit == 2
}

// expectOK: the command must have succeeded.
func (x *cliCtx) expectOK() bool {
	if x.exit != 0 {
		x.fail(x.k.Kind+":unexpected-error", "the command failed on a valid request")
		return false
	}
	return true
}

// chooseFormat picks the input format; returns the generator restrictions of that format and the number of
// alignments of the file (several only in phylip and only when the command documents it).
func (x *cliCtx) chooseFormat(o genOpt, multiOK, fastaOnly bool) (genOpt, int) {
	r := x.r
	f := "fasta"
	if !fastaOnly {
		switch v := r.Intn(100); {
		case v < 40:
		case v < 66:
			f = "phylip"
		case v < 74:
			f = "phylip-strict"
		case v < 83:
			f = "nexus"
		case v < 92:
			f = "clustal"
		default:
			f = "stockholm"
		}
		if multiOK && r.Chance(0.35) {
			f = "phylip"
		}
	}
	x.k.Format = f
	nal := 1
	if multiOK && strings.HasPrefix(f, "phylip") && r.Chance(0.7) {
		nal = r.Range(2, 3)
	}
	if f == "nexus" || f == "clustal" || f == "stockholm" {
		o.upper, o.noSpecial = true, true
	}
	if (f == "fasta" || f == "phylip" || f == "nexus" || f == "clustal") && r.Chance(0.2) {
		x.k.Auto = true
	}
	return o, nal
}

// setInput writes the input file of the chosen format and the input options.
func (x *cliCtx) setInput() {
	r := x.r
	k := x.k
	var content string
	var fl []string
	switch k.Format {
	case "fasta":
		content = writeFasta(k.Als[0].Names, k.Als[0].A.Rows, r.PickInt([]int{0, 0, 7, 60}))
	case "phylip":
		content = writePhylip(k.Als, false)
		fl = []string{"-p"}
	case "phylip-strict":
		content = writePhylip(k.Als, true)
		fl = []string{"-p", "--input-strict"}
	case "nexus":
		content = nexus.WriteAlignment(k.Als[0].build())
		fl = []string{"-x"}
	case "clustal":
		content = clustal.WriteAlignment(k.Als[0].build())
		fl = []string{"-u"}
	case "stockholm":
		content = stockholm.WriteAlignment(k.Als[0].build())
		fl = []string{"-k"}
	}
	if k.Auto {
		fl = []string{"--auto-detect"}
		x.count("auto-detect")
	}
	x.count("format:" + k.Format)
	if len(k.Als) > 1 {
		x.count("multi-alignment-input")
	}
	x.in = x.file("input."+k.Format, content)
	x.inArgs = append([]string{"-i", x.in}, fl...)
	// alphabet: forced where the detection cannot know, given or left to the detection otherwise
	protein := k.Als[0].A.protein
	detectable := true
	for _, al := range k.Als {
		if !hasAnyFold(al.A.Rows, "QEILFPZ") {
			detectable = false
		}
	}
	switch {
	case protein && (!detectable || r.Bool()):
		x.inArgs = append(x.inArgs, "--alphabet", "aa")
		x.count("alphabet:aa")
	case protein:
		x.count("alphabet:detected-protein")
	default:
		switch r.Intn(3) {
		case 0:
			x.inArgs = append(x.inArgs, "--alphabet", "nt")
			x.count("alphabet:nt")
		case 1:
			x.inArgs = append(x.inArgs, "--alphabet=auto")
			x.count("alphabet:auto")
		default:
			x.count("alphabet:default")
		}
	}
}

// genAlns generates the alignments of the case with genAln (all of the same alphabet).
func (x *cliCtx) genAlns(o genOpt, multiOK bool) {
	o, nal := x.chooseFormat(o, multiOK, false)
	var first aln
	for len(x.k.Als) < nal {
		a := genAln(x.c, o)
		if len(x.k.Als) == 0 {
			first = a
		} else if a.protein != first.protein {
			continue
		}
		x.k.Als = append(x.k.Als, cliAl{A: a, Names: cliNames(x.r, len(a.Rows))})
	}
}

// genRefAln: a reference row and rows derived from it (genRefSet), upper case; the reference is row refIdx
// of the alignment (>= 0) or is left out (-1).
func (x *cliCtx) genRefAln(inside bool) (ref string, refIdx int) {
	r := x.r
	_, _ = x.chooseFormat(genOpt{}, false, false)
	a := mkKind(r.Bool())
	ref, seqs := genRefSet(r, a, false)
	refIdx = -1
	if inside {
		refIdx = r.Intn(len(seqs) + 1)
		rows := append([]string{}, seqs[:refIdx]...)
		rows = append(rows, ref)
		rows = append(rows, seqs[refIdx:]...)
		a.Rows = rows
	} else {
		a.Rows = seqs
	}
	x.k.Als = []cliAl{{A: a, Names: cliNames(r, len(a.Rows))}}
	return
}

func runCli(c *mon.Case) {
	if !cliSetup() {
		return // the floors cli:* are missed: INCONCLUSIVE, not a violation
	}
	dir, err := os.MkdirTemp(cliDir, "case-")
	if err != nil {
		panic("harness: " + err.Error())
	}
	defer os.RemoveAll(dir)
	if c.Verbose { // single case replay: do not leave the binary behind
		defer func() { os.RemoveAll(cliDir); cliBin, cliDir = "", "" }()
	}
	x := &cliCtx{c: c, r: c.R, dir: dir, k: &cliCase{}, tl: map[string]int{}}
	defer func() {
		for k, v := range x.tl {
			c.Add(k, v)
		}
		c.Add("cli:runs", x.runs)
	}()
	spec := cliKindOf(c.Idx)
	x.k.Kind = spec.name
	x.cmd = spec.cmd
	check := spec.gen(x, c.Idx/len(cliKinds))
	if x.in == "" && len(x.k.Als) > 0 {
		x.setInput()
	}
	// flags before or after the input options
	args := append([]string{}, x.cmd...)
	if x.r.Bool() {
		args = append(append(args, x.flags...), x.inArgs...)
	} else {
		args = append(append(args, x.inArgs...), x.flags...)
	}
	x.k.Args = args
	c.Input(x.k)
	c.Checkpoint()
	x.stdout, x.stderr, x.exit = x.run(args)
	x.count("cmd:" + spec.name)
	if x.crashed() {
		x.fail(spec.name+":crash", "the command crashed")
		return
	}
	if x.exit != 0 {
		x.count("outcome:error")
	} else {
		x.count("outcome:ok")
	}
	nf := c.Failed()
	check()
	if !nf && !c.Failed() {
		x.count("checked:" + spec.name)
		c.NonTrivial("cli", strings.Join(args, " "), fmt.Sprint(x.k.Files))
	}
	c.Note("goalign %s -> exit %d, %d lines", strings.Join(args, " "), x.exit, len(splitLines(x.stdout)))
}

// cliFloors: coverage promised by the cli sub-check (quick tier: 16 rounds of the 23 kinds).
func cliFloors() {
	mon.Floor("cli:runs", 300)
	for _, k := range cliKinds {
		mon.Floor("cli:cmd:"+k.name, 12)
		mon.Floor("cli:checked:"+k.name, 10)
	}
}

const cliRule = " Sub-check cli: case = one execution of the goalign binary built from the tree under test: 23 kinds taken in turn (stats, stats --per-sequences [--ref-sequence name|file] [--count-profile], stats alleles / alphabet / char [--per-sites|--per-sequences] [--only] / gaps [--from-start --from-end --unique --openning --count-profile, one flag or several: documented priority] / length / maxchar / mutations --ref-sequence | --unique [--count-profile] / mutations list [--aa] / nalign / nseq / taxa [--unaligned], consensus and maxchar with the four --ignore-gaps / --ignore-n combinations (+ --exclude-gaps) run twice, compute entropy (-a, -g), compute pssm (-n 0..4 or omitted, -c, -l, long names), diff --counts [--no-gaps] [-o], 16 kinds of refused requests, 13 fixed command lines) on an alignment of the library generators written as fasta (wrapped or not), phylip (also strict, also 2-3 alignments in one file for the commands that document it), nexus, clustal or stockholm, with the format flag or --auto-detect, --alphabet given / auto / omitted; the printed table is parsed and compared with the definitions of ref.go."

const cliAssumptions = ";; cli: printed numbers are compared at the printed precision (half a unit of the last decimal); the order of the characters in a table is free; where the command prints a tie-broken character any tied one is accepted but a second execution must print the same text; several alignments in one phylip file are only given to the commands that document them (stats, length, nseq, nalign, taxa: first one only, consensus, compute entropy); --unaligned inputs leave the alphabet to the detection (the --alphabet option is not applied to them by the commands, nobody says it should); protein inputs the letter classes cannot tell from nucleotides always carry --alphabet aa; stats char --per-sites --only on a mixed case alignment: the case-folded count or the count of that very character; --only with an empty or a two character string, a count profile of another length without --unique: any exit status, only a crash is a violation; refused requests (unknown flag / reference / file / normalization / alphabet, reference or profile of another length, empty or ragged input, wrong format flag, --aa on proteins) must exit non zero with a message; exit status 2 or `panic:` / `goroutine` in the output is a crash;; cli uses goalign's own nexus / clustal / stockholm writers and parsers for the input and the consensus output in those formats (formats are property C02-C04's business)"
