// deep sub-check of C14: alignments of 257 ... 66 000 rows in which a residue occurs 256k+1 / 65536k+1 times in
// a column (a per-column counter narrower than int wraps to 1 there): the statistics against the same naive
// definitions as the other sub-checks.
package main

import (
	"fmt"

	"verif/lib/mon"
)

func runDeep(c *mon.Case) {
	r := c.R
	a := mkKind(c.Idx%4 == 3)
	ns := []int{257, 260, 513, 769, 65537, 65540}
	n := ns[c.Idx%len(ns)]
	L := r.Range(2, 5)
	cols := make([][]byte, L)
	for j := range cols {
		col := make([]byte, 0, n)
		// one residue 256k+1 (or 65536k+1) times, a second one a few times, the rest spread over the others
		big := 256*r.Range(1, (n-1)/256) + 1
		if n > 65536 && r.Bool() {
			big = 65537
		}
		x := a.base[r.Intn(len(a.base))]
		for i := 0; i < big; i++ {
			col = append(col, x)
		}
		for len(col) < n {
			y := a.base[r.Intn(len(a.base))]
			if r.Chance(0.1) {
				y = '-'
			}
			if y == x && r.Chance(0.9) {
				continue
			}
			col = append(col, y)
		}
		shuffle(r, col)
		cols[j] = col
	}
	a.Rows = make([]string, n)
	for i := range a.Rows {
		b := make([]byte, L)
		for j := range b {
			b[j] = cols[j][i]
		}
		a.Rows[i] = string(b)
	}
	c.Input(map[string]interface{}{"rows": n, "columns": L, "kind": a.Kind, "column_0": fmt.Sprintf("%d x %c ...", 0, cols[0][0])})
	al := a.build()
	checkMax(c, a, al, "deep:", 1)
	if c.Failed() {
		return
	}
	checkCounts(c, a, al, "deep:")
	if c.Failed() {
		return
	}
	u, nw, b, err := al.NumMutationsUniquePerSequence(nil)
	eu, _, _ := refUniqueMuts(a.Rows, nil, a.wild)
	if err != nil || fmt.Sprint(u) != fmt.Sprint(eu) || fmt.Sprint(nw) != fmt.Sprint(make([]int, n)) || fmt.Sprint(b) != fmt.Sprint(make([]int, n)) {
		first := -1
		for i := range eu {
			if i < len(u) && u[i] != eu[i] {
				first = i
				break
			}
		}
		c.Failf("NumMutationsUniquePerSequence:wrong-unique", "%d rows x %d columns (err=%v): first differing sequence %d: %v unique mutations, definition %v", n, L, err, first, at(u, first), at(eu, first))
		return
	}
	g, _, _, err := al.NumGapsUniquePerSequence(nil)
	eg, _, _ := refUniqueGaps(a.Rows, nil)
	if err != nil || fmt.Sprint(g) != fmt.Sprint(eg) {
		c.Failf("NumGapsUniquePerSequence:wrong-unique", "%d rows x %d columns (err=%v): counts differ from the definition", n, L, err)
		return
	}
	c.Count(fmt.Sprintf("deep:rows=%d", n))
	c.NonTrivial("deep", fmt.Sprint(n, L, c.Idx))
}

func at(v []int, i int) interface{} {
	if i < 0 || i >= len(v) {
		return "?"
	}
	return v[i]
}
