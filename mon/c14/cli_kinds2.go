// cli sub-check of C14, part 3: char, gaps, maxchar, mutations, mutations list (see cli.go).
package main

import (
	"fmt"
	"strconv"
	"strings"

	"verif/lib/ref"
)

// pickOnly: a character for --only: one the alignment holds, the gap, or one it does not hold.
func (x *cliCtx) pickOnly(a aln, round int) (only string, absent bool) {
	all := foldAll(a.Rows)
	keys := []byte{}
	for _, ch := range sortedKeys(all) {
		if ch != '*' { // --only '*' means all characters
			keys = append(keys, ch)
		}
	}
	if len(keys) == 0 {
		return "", false
	}
	switch round % 4 {
	case 0:
		return "", false
	case 1, 2:
		return string([]byte{keys[x.r.Intn(len(keys))]}), false
	}
	for _, ch := range []byte(a.base + "-") {
		if all[ch] == 0 {
			return string([]byte{ch}), true
		}
	}
	return "J", true
}

func genCliChar(x *cliCtx, round int) func() {
	x.genAlns(genOpt{}, false)
	a := x.k.Als[0].A
	only, _ := x.pickOnly(a, round)
	if only != "" {
		x.flag("--only", only)
	} else if x.r.Chance(0.3) {
		x.flag("--only=*")
	}
	return func() {
		if !x.expectOK() {
			return
		}
		cu := &cursor{lines: splitLines(x.stdout)}
		if x.checkCharTable(cu, a.Rows, only) {
			x.finished(cu)
		}
	}
}

func genCliCharSites(x *cliCtx, round int) func() {
	x.genAlns(genOpt{}, false)
	al := x.k.Als[0]
	a := al.A
	x.flag("--per-sites")
	if round%5 == 4 {
		x.flag("--per-sequences") // documented: --per-sites has priority
	}
	only, absent := x.pickOnly(a, round)
	if only != "" {
		x.flag("--only", only)
	}
	if absent {
		x.count("char-per-sites:only-absent-character")
	}
	return func() {
		if !x.expectOK() {
			return
		}
		cu := &cursor{lines: splitLines(x.stdout)}
		hd, ok := cu.next()
		if !ok || hd[0] != "site" {
			x.fail("stats-char-per-sites:table-shape", "header site + characters expected, got %q", hd)
			return
		}
		chars := hd[1:]
		for _, ch := range chars {
			if len(ch) != 1 {
				x.fail("stats-char-per-sites:table-shape", "header %q: a column name is not one character", hd)
				return
			}
		}
		all := foldAll(a.Rows)
		if only != "" {
			if len(chars) != 1 || up(chars[0][0]) != only[0] {
				x.fail("stats-char-per-sites:wrong-characters", "--only %s: header %q", only, hd)
				return
			}
		} else {
			seen := map[byte]bool{}
			for _, ch := range chars {
				if all[up(ch[0])] == 0 {
					x.fail("stats-char-per-sites:wrong-characters", "column %q: the alignment does not hold this character (%q)", ch, sortedKeys(all))
					return
				}
				seen[up(ch[0])] = true
			}
			if len(seen) != len(all) {
				x.fail("stats-char-per-sites:wrong-characters", "columns %q, the alignment holds %q", chars, sortedKeys(all))
				return
			}
		}
		for j := 0; j < al.l(); j++ {
			f, ok := cu.next()
			if !ok || len(f) != len(chars)+1 || f[0] != strconv.Itoa(j) {
				x.fail("stats-char-per-sites:table-shape", "line of site %d with %d counts expected, got %q", j, len(chars), f)
				return
			}
			col := colOf(a.Rows, j)
			fc := foldCounts(col)
			sum := map[byte]int{}
			for ci, ch := range chars {
				v, okn := atoiOK(f[ci+1])
				if !okn {
					x.fail("stats-char-per-sites:table-shape", "site %d: %q is not a number", j, f[ci+1])
					return
				}
				sum[up(ch[0])] += v
			}
			for ch, v := range sum {
				if only != "" && v == rawCounts(col)[chars[0][0]] {
					continue // --only on a mixed case alignment: the count of that very character (raw bookkeeping) is accepted too
				}
				if v != fc[ch] {
					x.fail("stats-char-per-sites:wrong-counts", "site %d column %q: %d printed for %q (all case variants), the column holds %d", j, col, v, ch, fc[ch])
					return
				}
			}
		}
		x.finished(cu)
	}
}

func genCliCharSeqs(x *cliCtx, round int) func() {
	x.genAlns(genOpt{}, false)
	al := x.k.Als[0]
	a := al.A
	x.flag("--per-sequences")
	only, _ := x.pickOnly(a, round)
	if only != "" {
		x.flag("--only", only)
	}
	return func() {
		if !x.expectOK() {
			return
		}
		cu := &cursor{lines: splitLines(x.stdout)}
		hd, ok := cu.next()
		if !ok || hd[0] != "seq" {
			x.fail("stats-char-per-sequences:table-shape", "header seq + characters expected, got %q", hd)
			return
		}
		chars := hd[1:]
		all := foldAll(a.Rows)
		seen := map[string]bool{}
		for _, ch := range chars {
			if len(ch) != 1 || seen[ch] || (only == "" && all[ch[0]] == 0) || (only != "" && ch != only) {
				x.fail("stats-char-per-sequences:wrong-characters", "header %q; --only %q; the alignment holds %q", hd, only, sortedKeys(all))
				return
			}
			seen[ch] = true
		}
		if (only == "" && len(seen) != len(all)) || (only != "" && len(seen) != 1) {
			x.fail("stats-char-per-sequences:wrong-characters", "header %q; --only %q; the alignment holds %q", hd, only, sortedKeys(all))
			return
		}
		tab, ok := x.nameRows(cu, al, len(chars), "per sequence character table")
		if !ok {
			return
		}
		for i, s := range a.Rows {
			fc := foldCounts(s)
			for ci, ch := range chars {
				if tab[i][ci] != fc[ch[0]] {
					x.fail("stats-char-per-sequences:wrong-counts", "sequence %s %q: %d printed for %s, the row holds %d (case-folded)", al.Names[i], s, tab[i][ci], ch, fc[ch[0]])
					return
				}
			}
		}
		x.finished(cu)
	}
}

// ---------------------------------------------------------------------------- stats gaps

func genCliGaps(x *cliCtx, round int) func() {
	r := x.r
	x.genAlns(genOpt{noSpecial: true}, false)
	al := x.k.Als[0]
	a := al.A
	// one flag (cycled), or a combination (the documented priority decides)
	flags := []string{"--from-start", "--from-end", "--unique", "--openning"}
	given := map[string]bool{}
	switch m := round % 10; {
	case m < 4:
		given[flags[m]] = true
	case m == 4:
	case m == 5:
		given["--unique"] = true
	case m == 6:
		given["--unique"], given["--openning"] = true, true
	case m == 7:
		given["--from-start"], given["--from-end"] = true, true
	case m == 8:
		given["--from-end"], given["--unique"], given["--openning"] = true, true, true
	default:
		for _, f := range flags {
			if r.Bool() {
				given[f] = true
			}
		}
	}
	for _, f := range flags {
		if given[f] {
			x.flag(f)
		}
	}
	if len(given) > 1 {
		x.count("gaps:several-flags")
	}
	var prof []string
	profLen := al.l()
	if given["--unique"] && (round%10 == 5 || r.Chance(0.3)) {
		if r.Chance(0.12) {
			profLen++
		}
		prof = genProfile(r, a, profLen)
		x.flag("--count-profile", x.file("profile.txt", profileText(r, prof, profLen, a.base+"-")))
	}
	mode := "total"
	for _, f := range flags {
		if given[f] {
			mode = f
			break
		}
	}
	x.count("gaps:mode=" + mode)
	return func() {
		if prof != nil && profLen != al.l() {
			if mode == "--unique" && x.exit == 0 {
				x.fail("stats-gaps:error-expected", "exit status 0 with a profile of length %d for an alignment of length %d", profLen, al.l())
			}
			x.count("refusal:other-length")
			return
		}
		if !x.expectOK() {
			return
		}
		cu := &cursor{lines: splitLines(x.stdout)}
		nf := 1
		if mode == "--unique" && prof != nil {
			nf = 3
		}
		tab, ok := x.nameRows(cu, al, nf, "gap table")
		if !ok {
			return
		}
		var profArg []string
		if prof != nil {
			profArg = prof
		}
		gu, gn, gb := refUniqueGaps(a.Rows, profArg)
		for i, s := range a.Rows {
			want := []int{gapsTotal(s)}
			switch mode {
			case "--from-start":
				want = []int{gapsStart(s)}
			case "--from-end":
				want = []int{gapsEnd(s)}
			case "--openning":
				want = []int{gapsOpen(s)}
			case "--unique":
				want = []int{gu[i]}
				if prof != nil {
					want = []int{gu[i], gn[i], gb[i]}
				}
			}
			if fmt.Sprint(tab[i]) != fmt.Sprint(want) {
				x.fail("stats-gaps:wrong-count:"+strings.TrimLeft(mode, "-"), "sequence %s %q: %v printed, definition %v (mode %s); rows=%q profile rows=%q", al.Names[i], s, tab[i], want, mode, a.Rows, prof)
				return
			}
		}
		x.finished(cu)
	}
}

// ---------------------------------------------------------------------------- stats maxchar / consensus

func (x *cliCtx) majorityFlags(round int) (ig, in bool) {
	ig, in = round%4 == 1 || round%4 == 3, round%4 >= 2
	if ig {
		if round%8 >= 4 && x.r.Chance(0.4) {
			x.flag("--exclude-gaps") // documented synonym kept for backward compatibility
		} else {
			x.flag("--ignore-gaps")
		}
	}
	if in {
		x.flag("--ignore-n")
	}
	x.count(fmt.Sprintf("majority:gaps=%v,n=%v", ig, in))
	return
}

// acceptsMajority: ch (printed with nb occurrences, nb < 0 when not printed) is an admissible answer for the column.
func acceptsMajority(col string, wild byte, ig, in bool, ch byte, nb int) string {
	e := refMax(col, wild, ig, in)
	if !e.fallback {
		if !e.argmax[ch] {
			return fmt.Sprintf("%q is not a most frequent non-excluded character (admissible %q)", ch, keysOf(e.argmax))
		}
		if nb >= 0 && nb != e.max {
			return fmt.Sprintf("%d occurrences printed, %d counted", nb, e.max)
		}
		return ""
	}
	if _, ok := e.kinds[ch]; !ok {
		return fmt.Sprintf("%q is not present in a column made of excluded characters only", ch)
	}
	if nb >= 0 && nb != e.n && nb != e.kinds[ch] {
		return fmt.Sprintf("%d occurrences printed, column height %d, count %d", nb, e.n, e.kinds[ch])
	}
	return ""
}

func (x *cliCtx) countMajorityClasses(a aln, ig, in bool) {
	for j := 0; j < len(a.Rows[0]); j++ {
		e := refMax(colOf(a.Rows, j), a.wild, ig, in)
		switch {
		case e.fallback:
			x.count("majority:fallback-columns")
		case len(e.argmax) > 1:
			x.count("majority:tie-columns")
		case e.total != e.n:
			x.count("majority:columns-with-excluded")
		}
	}
}

func genCliMaxChar(x *cliCtx, round int) func() {
	x.genAlns(genOpt{}, false)
	al := x.k.Als[0]
	a := al.A
	ig, in := x.majorityFlags(round)
	return func() {
		if !x.expectOK() {
			return
		}
		cu := &cursor{lines: splitLines(x.stdout)}
		if f, ok := cu.next(); !ok || strings.Join(f, "\t") != "site\tchar\tnb" {
			x.fail("stats-maxchar:table-shape", "header site/char/nb expected, got %q", f)
			return
		}
		for j := 0; j < al.l(); j++ {
			f, ok := cu.next()
			nb, okn := 0, false
			if ok && len(f) == 3 {
				nb, okn = atoiOK(f[2])
			}
			if !ok || len(f) != 3 || f[0] != strconv.Itoa(j) || len(f[1]) != 1 || !okn {
				x.fail("stats-maxchar:table-shape", "line of site %d expected, got %q", j, f)
				return
			}
			col := colOf(a.Rows, j)
			if msg := acceptsMajority(col, a.wild, ig, in, f[1][0], nb); msg != "" {
				x.fail("stats-maxchar:wrong-majority", "site %d column %q (%s, ignore gaps=%v, ignore N=%v): %s", j, col, a.Kind, ig, in, msg)
				return
			}
		}
		if !x.finished(cu) {
			return
		}
		x.countMajorityClasses(a, ig, in)
		// the same answer from a second process (ties are broken the same way every time)
		so, _, _ := x.run(x.k.Args)
		if so != x.stdout {
			x.fail("stats-maxchar:nondeterministic", "a second execution printed\n%s", head(so, 1500))
		}
	}
}

// ---------------------------------------------------------------------------- stats mutations

// refArg: the reference given by name (a row of the alignment) or by file.
func (x *cliCtx) refArg(byName bool, refSeq string, idx int) {
	if byName {
		x.flag("--ref-sequence", x.k.Als[0].Names[idx])
		x.count("reference:by-name")
	} else {
		names, seqs := []string{"theref"}, []string{refSeq}
		if x.r.Bool() {
			names, seqs = append(names, "second"), append(seqs, "ACGTACGT")
		}
		x.flag("--ref-sequence", x.file("reference.fa", writeFasta(names, seqs, 0)))
		x.count("reference:by-file")
	}
}

func genCliMutRef(x *cliCtx, round int) func() {
	byName := round%2 == 0
	refSeq, idx := x.genRefAln(byName)
	x.refArg(byName, refSeq, idx)
	al := x.k.Als[0]
	a := al.A
	return func() {
		if !x.expectOK() {
			return
		}
		cu := &cursor{lines: splitLines(x.stdout)}
		tab, ok := x.nameRows(cu, al, 1, "mutation counts")
		if !ok {
			return
		}
		for i, s := range a.Rows {
			lo, hi := refNumMutations(s, refSeq, a.protein)
			if tab[i][0] < lo || tab[i][0] > hi {
				x.fail("stats-mutations:wrong-count", "sequence %s %q against reference %q (%s): %d printed, definition gives %d..%d", al.Names[i], s, refSeq, a.Kind, tab[i][0], lo, hi)
				return
			}
			x.tl["cli:mutations:counted"] += hi
		}
		x.finished(cu)
	}
}

func genCliMutUnique(x *cliCtx, round int) func() {
	r := x.r
	x.genAlns(genOpt{upper: true, noSpecial: true}, false)
	al := x.k.Als[0]
	a := al.A
	x.flag("--unique")
	var prof []string
	profLen := al.l()
	if round%2 == 1 {
		if r.Chance(0.12) {
			profLen++
		}
		prof = genProfile(r, a, profLen)
		x.flag("--count-profile", x.file("profile.txt", profileText(r, prof, profLen, a.base+"-")))
	}
	return func() {
		if profLen != al.l() {
			if x.exit == 0 {
				x.fail("stats-mutations-unique:error-expected", "exit status 0 with a profile of length %d for an alignment of length %d", profLen, al.l())
			}
			x.count("refusal:other-length")
			return
		}
		if !x.expectOK() {
			return
		}
		cu := &cursor{lines: splitLines(x.stdout)}
		nf := 1
		if prof != nil {
			nf = 3
		}
		tab, ok := x.nameRows(cu, al, nf, "unique mutation counts")
		if !ok {
			return
		}
		var profArg []string
		if prof != nil {
			profArg = prof
		}
		mu, mn, mb := refUniqueMuts(a.Rows, profArg, a.wild)
		for i := range a.Rows {
			want := []int{mu[i]}
			if prof != nil {
				want = []int{mu[i], mn[i], mb[i]}
			}
			if fmt.Sprint(tab[i]) != fmt.Sprint(want) {
				x.fail("stats-mutations-unique:wrong-count", "sequence %s: %v printed, definition %v (unique / new / both); rows=%q profile rows=%q", al.Names[i], tab[i], want, a.Rows, prof)
				return
			}
		}
		x.finished(cu)
	}
}

// listLines reads "name[\tm1,m2,...]" lines for the rows of the alignment other than skip.
func (x *cliCtx) listLines(al cliAl, skip int) ([][]string, bool) {
	lines := splitLines(x.stdout)
	out := make([][]string, al.n())
	p := 0
	for i := range al.A.Rows {
		if i == skip {
			continue
		}
		if p >= len(lines) {
			x.fail(x.k.Kind+":table-shape", "no line for sequence %s", al.Names[i])
			return nil, false
		}
		f := strings.Split(lines[p], "\t")
		p++
		if f[0] != al.Names[i] || len(f) > 2 {
			x.fail(x.k.Kind+":table-shape", "line %d should start with %q, got %q", p, al.Names[i], f)
			return nil, false
		}
		out[i] = []string{}
		if len(f) == 2 && f[1] != "" {
			out[i] = strings.Split(f[1], ",")
		}
	}
	if p != len(lines) {
		x.fail(x.k.Kind+":extra-output", "unexpected output from line %d on: %q", p+1, lines[p])
		return nil, false
	}
	return out, true
}

func genCliMutList(x *cliCtx, round int) func() {
	byName := round%2 == 0
	refSeq, idx := x.genRefAln(byName)
	x.refArg(byName, refSeq, idx)
	al := x.k.Als[0]
	a := al.A
	return func() {
		if !x.expectOK() {
			return
		}
		got, ok := x.listLines(al, idx)
		if !ok {
			return
		}
		for i, s := range a.Rows {
			if i == idx {
				continue
			}
			exp := refListMutations(s, refSeq, a.protein)
			if !matchMutations(got[i], exp) {
				var es []string
				for _, it := range exp {
					e := strings.Join(it.variants, "|")
					if it.optional {
						e = "[" + e + "]"
					}
					es = append(es, e)
				}
				x.fail("stats-mutations-list:wrong-list", "sequence %s\nseq %q\nref %q (%s)\ngot      %v\nexpected %v ([..] optional, a|b either)", al.Names[i], s, refSeq, a.Kind, got[i], es)
				return
			}
			x.tl["cli:mutations:listed"] += len(got[i])
		}
	}
}

func genCliMutListAA(x *cliCtx, round int) func() {
	r := x.r
	byName := round%2 == 0
	_, _ = x.chooseFormat(genOpt{}, false, false)
	ncod, extra := r.Range(1, 12), r.Intn(3)
	L := 3*ncod + extra
	a := mkKind(false)
	refSeq := r.Str(L, ntBase)
	rate := r.PickF([]float64{0.05, 0.2, 0.5})
	for i, n := 0, r.Range(1, 4); i < n; i++ {
		b := []byte(refSeq)
		for k := range b {
			if r.Chance(rate) {
				b[k] = ntBase[r.Intn(4)]
			}
		}
		a.Rows = append(a.Rows, string(b))
	}
	idx := -1
	if byName {
		idx = r.Intn(len(a.Rows) + 1)
		rows := append([]string{}, a.Rows[:idx]...)
		rows = append(rows, refSeq)
		a.Rows = append(rows, a.Rows[idx:]...)
	}
	x.k.Als = []cliAl{{A: a, Names: cliNames(r, len(a.Rows))}}
	x.refArg(byName, refSeq, idx)
	x.flag("--aa")
	al := x.k.Als[0]
	return func() {
		if !x.expectOK() {
			return
		}
		got, ok := x.listLines(al, idx)
		if !ok {
			return
		}
		for i, s := range a.Rows {
			if i == idx {
				continue
			}
			exp := []string{}
			for k := 0; k < ncod; k++ {
				ra := ref.TranslateCodon(refSeq[3*k], refSeq[3*k+1], refSeq[3*k+2], 0)
				sa := ref.TranslateCodon(s[3*k], s[3*k+1], s[3*k+2], 0)
				if ra != sa {
					exp = append(exp, renderMut(ra, k, string([]byte{sa})))
				}
			}
			if fmt.Sprint(got[i]) != fmt.Sprint(exp) {
				x.fail("stats-mutations-list-aa:wrong-list", "sequence %s\nseq %q\nref %q\ngot      %v\nexpected %v (standard code, codon positions from 0)", al.Names[i], s, refSeq, got[i], exp)
				return
			}
			x.tl["cli:mutations:aa-listed"] += len(exp)
		}
	}
}
