// C14 monitor: every column statistic of goalign against its naive definition evaluated on the
// same columns, each function called many times on the same alignment (ties must be broken the
// same way every time), site indices beyond both ends must be errors, never crashes.
package main

import (
	"fmt"
	"math"
	"sort"
	"strings"

	"github.com/evolbioinfo/goalign/align"

	"verif/lib/conc"
	"verif/lib/gen"
	"verif/lib/h"
	"verif/lib/mon"
	"verif/lib/ref"
)

const (
	ntBase  = "ACGT"
	ntAmbig = "RYSWKMBDHV"
	aaBase  = "ARNDCQEGHILKMFPSTWYV"
	aaAmbig = "BZ"
)

// reps: number of evaluations of every function on the same alignment.
const reps = 24
const repsMax = 40

type aln struct {
	Rows    []string `json:"rows"`
	Kind    string   `json:"alphabet"` // "nt" | "aa"
	protein bool
	alpha   int
	wild    byte // N | X
	other   byte // X | N
	base    string
}

func mkKind(protein bool) aln {
	if protein {
		return aln{Kind: "aa", protein: true, alpha: align.AMINOACIDS, wild: 'X', other: 'N', base: aaBase}
	}
	return aln{Kind: "nt", alpha: align.NUCLEOTIDS, wild: 'N', other: 'X', base: ntBase}
}

func (a aln) build() align.Alignment {
	rows := make(gen.Rows, len(a.Rows))
	for i, s := range a.Rows {
		rows[i] = gen.Seq{Name: "s" + gen.Itoa(i), Seq: s}
	}
	return h.MkAlign(rows, a.alpha)
}

func (a aln) key() string { return a.Kind + ":" + strings.Join(a.Rows, "/") }

type genOpt struct {
	upper     bool // no lower case
	noSpecial bool // no '*' '.'
	noAmbig   bool // no ambiguity codes other than the wildcard
	minRows   int
}

func shuffle(r *gen.Rand, b []byte) {
	for i := len(b) - 1; i > 0; i-- {
		j := r.Intn(i + 1)
		b[i], b[j] = b[j], b[i]
	}
}

// distinct picks k distinct characters of pool.
func distinct(r *gen.Rand, pool string, k int) []byte {
	p := []byte(pool)
	shuffle(r, p)
	if k > len(p) {
		k = len(p)
	}
	return p[:k]
}

// genColumn builds one column of height n on the boundaries the statistics special-case.
func genColumn(r *gen.Rand, a aln, n int, o genOpt) (col []byte, class string) {
	pool := a.base
	if !o.noAmbig && r.Chance(0.3) {
		if a.protein {
			pool += aaAmbig
		} else {
			pool += ntAmbig
		}
	}
	col = make([]byte, n)
	fill := func(from int, ch byte) {
		for i := from; i < n; i++ {
			col[i] = ch
		}
	}
	tie := func(chars []byte, height int) int { // chars each `height` times, returns the next free row
		p := 0
		for _, ch := range chars {
			for k := 0; k < height && p < n; k++ {
				col[p] = ch
				p++
			}
		}
		return p
	}
	switch r.Intn(16) {
	case 0, 1: // uniform random
		class = "random"
		full := pool + string([]byte{a.wild, '-'})
		for i := range col {
			col[i] = full[r.Intn(len(full))]
		}
	case 2: // constant
		class = "constant"
		fill(0, pool[r.Intn(len(pool))])
	case 3, 4, 5: // k-way tie for the maximum, rest excluded kinds or rarer characters
		k := r.Range(2, 4)
		if k > n {
			k = n
		}
		if k < 1 {
			k = 1
		}
		m := n / k
		if m > 1 && r.Chance(0.4) {
			m = r.Range(1, m)
		}
		tp := pool
		switch r.Intn(4) {
		case 0:
			tp += "-"
		case 1:
			tp += string([]byte{a.wild})
		}
		chars := distinct(r, tp, k)
		p := tie(chars, m)
		class = fmt.Sprintf("tie%d", len(chars))
		switch r.Intn(3) {
		case 0:
			fill(p, '-')
		case 1:
			fill(p, a.wild)
		default: // rarer characters, one of each
			rest := distinct(r, pool, len(pool))
			q := 0
			for i := p; i < n; i++ {
				for q < len(rest) && strings.IndexByte(string(chars), rest[q]) >= 0 {
					q++
				}
				if q < len(rest) && m > 1 {
					col[i] = rest[q]
					q++
				} else {
					col[i] = '-'
				}
			}
		}
	case 6:
		class = "all-gap"
		fill(0, '-')
	case 7:
		class = "all-wild"
		fill(0, a.wild)
	case 8:
		class = "gap+wild-only"
		for i := range col {
			if r.Bool() {
				col[i] = '-'
			} else {
				col[i] = a.wild
			}
		}
	case 9, 10: // majority gap or wildcard, the rest tied
		maj := byte('-')
		class = "major-gap"
		if r.Bool() {
			maj = a.wild
			class = "major-wild"
		}
		nm := n/2 + 1
		if nm > n {
			nm = n
		}
		for i := 0; i < nm; i++ {
			col[i] = maj
		}
		rest := n - nm
		if rest > 0 {
			k := r.Range(1, 3)
			if k > rest {
				k = rest
			}
			chars := distinct(r, pool, k)
			for i := 0; i < rest; i++ {
				col[nm+i] = chars[i%len(chars)]
			}
		}
	case 11: // gap count equal to the best residue count
		class = "gap-ties-residue"
		m := n / 2
		ch := pool[r.Intn(len(pool))]
		for i := 0; i < n; i++ {
			switch {
			case i < m:
				col[i] = '-'
			case i < 2*m:
				col[i] = ch
			default:
				col[i] = a.wild
			}
		}
	case 12: // all different (unique characters)
		class = "all-different"
		chars := distinct(r, pool, n)
		for i := range col {
			if i < len(chars) {
				col[i] = chars[i]
			} else {
				col[i] = '-'
			}
		}
	case 13: // one unique character, the others constant
		class = "one-unique"
		chars := distinct(r, pool+string([]byte{a.wild, '-'}), 2)
		fill(0, chars[0])
		col[0] = chars[len(chars)-1]
	case 14: // informative boundary: two characters twice / twice and once
		class = "informative-boundary"
		chars := distinct(r, pool, 3)
		pattern := [][]int{{2, 2, 0}, {2, 1, 0}, {2, 1, 1}, {2, 2, 1}, {3, 1, 0}, {1, 1, 1}}[r.Intn(6)]
		p := 0
		for ci, cnt := range pattern {
			for k := 0; k < cnt && p < n; k++ {
				col[p] = chars[ci]
				p++
			}
		}
		fl := byte('-')
		if r.Chance(0.3) {
			fl = a.wild
		}
		fill(p, fl)
	default: // two characters, skewed
		class = "skewed"
		chars := distinct(r, pool, 2)
		cut := r.Intn(n + 1)
		for i := range col {
			if i < cut {
				col[i] = chars[0]
			} else {
				col[i] = chars[len(chars)-1]
			}
		}
	}
	if !o.noSpecial && r.Chance(0.06) {
		col[r.Intn(n)] = "*."[r.Intn(2)]
		class += "+special"
	}
	shuffle(r, col)
	return
}

// genAln builds an alignment column by column.
func genAln(c *mon.Case, o genOpt) aln {
	r := c.R
	a := mkKind(r.Bool())
	n := r.PickInt([]int{1, 2, 2, 3, 3, 4, 4, 5, 6, 6, 7, 8, 9, 10, 12, 16})
	if n < o.minRows {
		n = o.minRows
	}
	L := r.PickInt([]int{1, 2, 3, 4, 5, 6, 8, 10, 12, 16, 20, 30})
	mixed := !o.upper && r.Chance(0.3)
	b := make([][]byte, n)
	for i := range b {
		b[i] = make([]byte, L)
	}
	for j := 0; j < L; j++ {
		col, class := genColumn(r, a, n, o)
		c.Count("colclass:" + class)
		for i := 0; i < n; i++ {
			ch := col[i]
			if mixed && r.Chance(0.35) {
				ch = lo(ch)
			}
			b[i][j] = ch
		}
	}
	a.Rows = make([]string, n)
	for i := range b {
		a.Rows[i] = string(b[i])
	}
	if mixed {
		c.Count("aln:mixed-case")
	} else {
		c.Count("aln:upper-case")
	}
	c.Count("aln:" + a.Kind)
	return a
}

// stable evaluates f n-1 more times and requires the same rendering as first.
func stable(c *mon.Case, fn string, n int, first string, f func() string) bool {
	for i := 1; i < n; i++ {
		if s := f(); s != first {
			c.Failf(fn+":nondeterministic", "%s: call %d of %d on the same alignment answered\n  %s\nthe first call answered\n  %s", fn, i+1, n, s, first)
			return false
		}
	}
	c.Add("calls:"+fn, n)
	return true
}

func fbits(v float64) string {
	if math.IsNaN(v) {
		return "NaN"
	}
	return fmt.Sprintf("%016x", math.Float64bits(v))
}

func errStr(err error) string {
	if err == nil {
		return "<nil>"
	}
	return "error"
}

// guard runs f; a panic is a violation "<fn>:panic" (the framework would report it too, but with
// a signature naming the frame instead of the function under observation).
func guard(c *mon.Case, fn, what string, f func()) (ok bool) {
	p, msg, _ := mon.Protect(f)
	if p {
		// keep the message and the goalign frames of the stack
		var keep []string
		for i, l := range strings.Split(msg, "\n") {
			if i == 0 || strings.Contains(l, "evolbioinfo/goalign/") {
				keep = append(keep, strings.TrimSpace(l))
			}
			if len(keep) >= 7 {
				break
			}
		}
		c.Failf(fn+":panic", "%s %s panicked: %s", fn, what, strings.Join(keep, "\n  "))
		return false
	}
	return true
}

func unchanged(c *mon.Case, fn string, al align.Alignment, a aln) {
	i := 0
	bad := ""
	al.Iterate(func(name, s string) bool {
		if i >= len(a.Rows) || s != a.Rows[i] {
			bad = fmt.Sprintf("row %d is now %q", i, s)
			return true
		}
		i++
		return false
	})
	if bad == "" && i != len(a.Rows) {
		bad = fmt.Sprintf("%d rows left of %d", i, len(a.Rows))
	}
	if bad != "" {
		c.Failf(fn+":alignment-modified", "computing statistics changed the alignment: %s (was %q)", bad, a.Rows)
	}
}

// sitesToProbe: all sites of a short alignment, boundaries and a sample of a long one, plus the
// indices beyond both ends.
func sitesOutside(L int) []int { return []int{-1, L, L + 1, -1000000, L + 1000000} }

// ---------------------------------------------------------------------------- family: counts

func renderCounts(m map[uint8]int) string { return fmt.Sprint(m) }

func eqCounts(got map[uint8]int, exp map[byte]int) bool {
	for k, v := range got {
		if exp[k] != v {
			return false
		}
	}
	for k, v := range exp {
		if got[k] != v {
			return false
		}
	}
	return true
}

func runCounts(c *mon.Case) {
	a := genAln(c, genOpt{})
	c.Input(a)
	al := a.build()
	n, L := len(a.Rows), len(a.Rows[0])
	checkCounts(c, a, al, "")
	// a sequence set with rows of unequal lengths (CharStats / UniqueCharacters / CharStatsSeq live in the SeqBag)
	if c.R.Chance(0.5) {
		rag := make([]string, n)
		rows := make(gen.Rows, n)
		for i, s := range a.Rows {
			rag[i] = s[:c.R.Range(0, L)]
			if rag[i] == "" {
				rag[i] = s[:1]
			}
			rows[i] = gen.Seq{Name: "s" + gen.Itoa(i), Seq: rag[i]}
		}
		sb := h.MkSeqBag(rows, a.alpha)
		checkBagCounts(c, rag, sb, "seqbag:")
		c.Count("op:seqbag-counts")
	}
	// the statistics follow an edit of the alignment (nothing may be remembered from the calls above)
	i, j := c.R.Intn(n), c.R.Intn(L)
	ch := (a.base + "-" + string([]byte{a.wild, lo(a.base[0])}))[c.R.Intn(len(a.base)+3)]
	if err := al.SetSequenceChar(i, j, ch); err == nil {
		b := []byte(a.Rows[i])
		b[j] = ch
		a2 := a
		a2.Rows = append([]string{}, a.Rows...)
		a2.Rows[i] = string(b)
		checkCounts(c, a2, al, "after-edit:")
		c.Count("op:counts-after-edit")
	}
	if n >= 2 {
		c.NonTrivial("counts", a.key())
	}
	note := ""
	cs := al.CharStats()
	for _, k := range al.UniqueCharacters() {
		note += fmt.Sprintf("%c:%d ", k, cs[k])
	}
	c.Note("CharStats after the edit = %s", note)
}

func checkBagCounts(c *mon.Case, rows []string, sb align.SeqBag, tag string) {
	n := len(rows)
	// CharStats
	exp := map[byte]int{}
	for _, s := range rows {
		for k, v := range foldCounts(s) {
			exp[k] += v
		}
	}
	var cs map[uint8]int64
	if !guard(c, "CharStats", tag, func() { cs = sb.CharStats() }) {
		return
	}
	got := map[uint8]int{}
	for k, v := range cs {
		got[k] = int(v)
	}
	if !eqCounts(got, exp) {
		c.Failf("CharStats:wrong-counts", "%sCharStats()=%v, case-folded counts of the rows are %v; rows=%q", tag, got, exp, rows)
	}
	c.Count("fn:CharStats")
	stable(c, "CharStats", reps, fmt.Sprint(cs), func() string { return fmt.Sprint(sb.CharStats()) })
	// UniqueCharacters
	var uc []uint8
	if !guard(c, "UniqueCharacters", tag, func() { uc = sb.UniqueCharacters() }) {
		return
	}
	seen := map[byte]int{}
	for _, ch := range uc {
		seen[ch]++
	}
	okU := len(seen) == len(exp) && len(uc) == len(seen)
	for k := range exp {
		if seen[k] != 1 {
			okU = false
		}
	}
	if !okU {
		c.Failf("UniqueCharacters:wrong-set", "%sUniqueCharacters()=%q, the case-folded characters present are %q; rows=%q", tag, uc, sortedKeys(exp), rows)
	}
	c.Count("fn:UniqueCharacters")
	canonU := func(u []uint8) string {
		x := append([]uint8{}, u...)
		sort.Slice(x, func(i, j int) bool { return x[i] < x[j] })
		return string(x)
	}
	stable(c, "UniqueCharacters", reps, canonU(uc), func() string { return canonU(sb.UniqueCharacters()) })
	// CharStatsSeq over every index and beyond
	for idx := -1; idx <= n; idx++ {
		idx := idx
		var m map[uint8]int
		var err error
		if !guard(c, "CharStatsSeq", fmt.Sprintf("%sidx=%d of %d", tag, idx, n), func() { m, err = sb.CharStatsSeq(idx) }) {
			continue
		}
		if idx < 0 || idx >= n {
			c.Count("oob:CharStatsSeq")
			if err == nil {
				c.Failf("CharStatsSeq:index-outside-accepted", "%sCharStatsSeq(%d) with %d sequences returned no error (%v)", tag, idx, n, m)
			}
			continue
		}
		if err != nil {
			c.Failf("CharStatsSeq:unexpected-error", "%sCharStatsSeq(%d) with %d sequences: %v", tag, idx, n, err)
			continue
		}
		if e := foldCounts(rows[idx]); !eqCounts(m, e) {
			c.Failf("CharStatsSeq:wrong-counts", "%sCharStatsSeq(%d)=%v, case-folded counts of %q are %v", tag, idx, m, rows[idx], e)
		}
		c.Count("fn:CharStatsSeq")
		if idx == 0 || idx == n-1 {
			stable(c, "CharStatsSeq", reps, renderCounts(m), func() string { x, _ := sb.CharStatsSeq(idx); return renderCounts(x) })
		}
	}
}

func checkCounts(c *mon.Case, a aln, al align.Alignment, tag string) {
	L := len(a.Rows[0])
	checkBagCounts(c, a.Rows, al, tag)
	// CharStatsSite over every site and beyond both ends
	probe := []int{}
	for j := 0; j < L; j++ {
		probe = append(probe, j)
	}
	probe = append(probe, sitesOutside(L)...)
	for _, site := range probe {
		site := site
		var m map[uint8]int
		var err error
		if !guard(c, "CharStatsSite", fmt.Sprintf("%ssite=%d of %d", tag, site, L), func() { m, err = al.CharStatsSite(site) }) {
			continue
		}
		if site < 0 || site >= L {
			c.Count("oob:CharStatsSite")
			if err == nil {
				c.Failf("CharStatsSite:site-outside-accepted", "%sCharStatsSite(%d) on an alignment of length %d returned no error (%v)", tag, site, L, m)
			}
			continue
		}
		if err != nil {
			c.Failf("CharStatsSite:unexpected-error", "%sCharStatsSite(%d) length %d: %v", tag, site, L, err)
			continue
		}
		if e := foldCounts(colOf(a.Rows, site)); !eqCounts(m, e) {
			c.Failf("CharStatsSite:wrong-counts", "%sCharStatsSite(%d)=%v, case-folded counts of column %q are %v", tag, site, m, colOf(a.Rows, site), e)
		}
		c.Count("fn:CharStatsSite")
		if site == 0 || site == L-1 {
			c.Count("boundary-site:CharStatsSite")
			stable(c, "CharStatsSite", reps, renderCounts(m), func() string { x, _ := al.CharStatsSite(site); return renderCounts(x) })
		}
	}
	// count profile
	var p *align.CountProfile
	if !guard(c, "CountProfile", tag, func() { p = align.NewCountProfileFromAlignment(al) }) {
		return
	}
	render := func(p *align.CountProfile) string {
		var sb strings.Builder
		type ent struct {
			ch  uint8
			cnt []int
		}
		var es []ent
		for i := 0; i < p.NbCharacters(); i++ {
			ch, _ := p.NameAt(i)
			row := make([]int, L)
			for j := 0; j < L; j++ {
				row[j], _ = p.CountAt(i, j)
			}
			es = append(es, ent{ch, row})
		}
		sort.Slice(es, func(i, j int) bool { return es[i].ch < es[j].ch })
		for _, e := range es {
			fmt.Fprintf(&sb, "%c%v", e.ch, e.cnt)
		}
		return sb.String()
	}
	guard(c, "CountProfile", tag+"accessors", func() {
		rawKinds := map[byte]bool{}
		for j := 0; j < L; j++ {
			col := colOf(a.Rows, j)
			fc := foldCounts(col)
			for ch, want := range fc {
				sum := 0
				if k, err := p.Count(ch, j); err == nil {
					sum += k
				}
				if l := lo(ch); l != ch {
					if k, err := p.Count(l, j); err == nil {
						sum += k
					}
				}
				if sum != want {
					c.Failf("CountProfile:wrong-counts", "%sprofile counts of %q (all case variants) at site %d sum to %d, column %q holds %d", tag, ch, j, sum, col, want)
					return
				}
			}
			for i := 0; i < len(col); i++ {
				rawKinds[col[i]] = true
			}
			// no count for a character that is absent from the column
			for _, v := range []byte(a.base + "-" + string([]byte{a.wild})) {
				if fc[v] == 0 {
					if k, err := p.Count(v, j); err == nil && k != 0 {
						c.Failf("CountProfile:count-for-absent-character", "%sprofile counts %d for %q at site %d, column is %q", tag, k, v, j, col)
						return
					}
				}
			}
		}
		folded := map[byte]bool{}
		for ch := range rawKinds {
			folded[up(ch)] = true
		}
		if nb := p.NbCharacters(); nb != len(rawKinds) && nb != len(folded) {
			c.Failf("CountProfile:wrong-number-of-characters", "%sNbCharacters()=%d, the alignment holds %d distinct characters (%d case-folded)", tag, nb, len(rawKinds), len(folded))
		}
		if !p.CheckLength(L) {
			c.Failf("CountProfile:length", "%sCheckLength(%d) false for the profile of an alignment of that length", tag, L)
		}
		if p.NbCharacters() > 0 && (p.CheckLength(L+1) || p.CheckLength(L-1)) {
			c.Failf("CountProfile:length", "%sCheckLength accepts %d or %d for an alignment of length %d", tag, L+1, L-1, L)
		}
		// CountAt agrees with Count(NameAt)
		for i := 0; i < p.NbCharacters(); i++ {
			ch, err := p.NameAt(i)
			if err != nil {
				c.Failf("CountProfile:accessor", "%sNameAt(%d) of %d characters: %v", tag, i, p.NbCharacters(), err)
				return
			}
			for _, j := range []int{0, L - 1} {
				x, e1 := p.CountAt(i, j)
				y, e2 := p.Count(ch, j)
				if e1 != nil || e2 != nil || x != y {
					c.Failf("CountProfile:accessor", "%sCountAt(%d,%d)=%d,%v but Count(%q,%d)=%d,%v", tag, i, j, x, e1, ch, j, y, e2)
					return
				}
			}
		}
		c.Count("fn:CountProfile")
	})
	// sites beyond the ends of the profile
	if p.NbCharacters() > 0 {
		ch, _ := p.NameAt(0)
		for _, site := range sitesOutside(L) {
			site := site
			guard(c, "CountProfile", fmt.Sprintf("%sCount(%q,%d) / CountAt(0,%d) length %d", tag, ch, site, site, L), func() {
				if k, err := p.Count(ch, site); err == nil {
					c.Failf("CountProfile:site-outside-accepted", "%sCount(%q,%d) on a profile of length %d returned %d without error", tag, ch, site, L, k)
				}
				if k, err := p.CountAt(0, site); err == nil {
					c.Failf("CountProfile:site-outside-accepted", "%sCountAt(0,%d) on a profile of length %d returned %d without error", tag, site, L, k)
				}
				c.Count("oob:CountProfile")
			})
		}
	}
	first := render(p)
	stable(c, "CountProfile", reps/2, first, func() string { return render(align.NewCountProfileFromAlignment(al)) })
	if tag == "" {
		unchanged(c, "counts", al, a)
	}
}

// ---------------------------------------------------------------------------- family: majority character / consensus

var boolPairs = [][2]bool{{false, false}, {true, false}, {false, true}, {true, true}}

func checkMax(c *mon.Case, a aln, al align.Alignment, tag string, n int) (tieCols int) {
	L := len(a.Rows[0])
	for _, bp := range boolPairs {
		ig, in := bp[0], bp[1]
		opt := fmt.Sprintf("gaps=%v,n=%v", ig, in)
		var out []uint8
		var occur, total []int
		if !guard(c, "MaxCharStats", tag+opt, func() { out, occur, total = al.MaxCharStats(ig, in) }) {
			continue
		}
		if len(out) != L || len(occur) != L || len(total) != L {
			c.Failf("MaxCharStats:shape", "%sMaxCharStats(%s) returned %d/%d/%d entries for %d sites", tag, opt, len(out), len(occur), len(total), L)
			continue
		}
		for j := 0; j < L; j++ {
			col := colOf(a.Rows, j)
			e := refMax(col, a.wild, ig, in)
			if msg := e.accepts(out[j], occur[j], total[j]); msg != "" {
				sig := "MaxCharStats:wrong-majority"
				if e.fallback {
					sig = "MaxCharStats:wrong-fallback"
				}
				c.Failf(sig, "%sMaxCharStats(ignoreGaps=%v, ignoreNs=%v) site %d column %q (%s): got char %q occur %d total %d: %s; admissible chars %q occur %d total %d (fallback=%v)", tag, ig, in, j, col, a.Kind, out[j], occur[j], total[j], msg, keysOf(e.argmax), e.max, e.total, e.fallback)
				break
			}
			if e.fallback {
				switch {
				case len(e.kinds) > 1:
					c.Count("maxchar:fallback-mixed")
				case e.kinds['-'] > 0:
					c.Count("maxchar:fallback-all-gaps")
				default:
					c.Count("maxchar:fallback-all-wild")
				}
			} else if len(e.argmax) > 1 {
				c.Count("maxchar:tie-columns")
				tieCols++
			}
			if !e.fallback && e.total != e.n {
				c.Count("maxchar:columns-with-excluded")
			}
		}
		c.Count("fn:MaxCharStats")
		c.Count("opt:MaxCharStats:" + opt)
		renderM := func(o []uint8, oc, to []int) string { return fmt.Sprintf("%s %v %v", o, oc, to) }
		first := renderM(out, occur, total)
		stable(c, "MaxCharStats", n, first, func() string { return renderM(al.MaxCharStats(ig, in)) })
		// Consensus: one sequence made of the same majority characters
		var cname, cseq string
		var cn, calpha int
		consensus := func() (string, string, int, int) {
			cons := al.Consensus(ig, in)
			nm, _ := cons.GetSequenceNameById(0)
			sq, _ := cons.GetSequenceById(0)
			return nm, sq, cons.NbSequences(), cons.Alphabet()
		}
		if !guard(c, "Consensus", tag+opt, func() { cname, cseq, cn, calpha = consensus() }) {
			continue
		}
		if cn != 1 || cseq != string(out) {
			c.Failf("Consensus:differs-from-MaxCharStats", "%sConsensus(%s) = %d sequence(s) %q, MaxCharStats on the same options gives %q; rows=%q", tag, opt, cn, cseq, out, a.Rows)
		}
		if cname != "consensus" || calpha != a.alpha {
			c.Failf("Consensus:name-or-alphabet", "%sConsensus(%s) sequence is named %q, alphabet %d (alignment: %d)", tag, opt, cname, calpha, a.alpha)
		}
		c.Count("fn:Consensus")
		c.Count("opt:Consensus:" + opt)
		stable(c, "Consensus", n, cseq, func() string { _, s, _, _ := consensus(); return s })
	}
	return
}

func keysOf(m map[byte]bool) string {
	k := []byte{}
	for c := range m {
		k = append(k, c)
	}
	sort.Slice(k, func(i, j int) bool { return k[i] < k[j] })
	return string(k)
}

func runMaxChar(c *mon.Case) {
	a := genAln(c, genOpt{})
	c.Input(a)
	al := a.build()
	ties := checkMax(c, a, al, "", repsMax)
	unchanged(c, "maxchar", al, a)
	// a second container with the same rows answers the same
	al2 := a.build()
	for _, bp := range boolPairs {
		o1, _, _ := al.MaxCharStats(bp[0], bp[1])
		o2, _, _ := al2.MaxCharStats(bp[0], bp[1])
		if string(o1) != string(o2) {
			c.Failf("MaxCharStats:nondeterministic", "two alignments built from the same rows answer %q and %q (ignoreGaps=%v ignoreNs=%v) rows=%q", o1, o2, bp[0], bp[1], a.Rows)
		}
	}
	c.Count("op:maxchar-second-container")
	// after an edit
	n, L := len(a.Rows), len(a.Rows[0])
	i, j := c.R.Intn(n), c.R.Intn(L)
	ch := (a.base + "-" + string([]byte{a.wild, lo(a.wild)}))[c.R.Intn(len(a.base)+3)]
	if err := al.SetSequenceChar(i, j, ch); err == nil {
		b := []byte(a.Rows[i])
		b[j] = ch
		a2 := a
		a2.Rows = append([]string{}, a.Rows...)
		a2.Rows[i] = string(b)
		checkMax(c, a2, al, "after-edit:", 3)
		c.Count("op:maxchar-after-edit")
	}
	if n >= 2 && (ties > 0 || hasAny(a.Rows, "-NnXx")) {
		c.NonTrivial("maxchar", a.key())
	}
	o, oc, to := al.MaxCharStats(true, true)
	c.Note("MaxCharStats(true,true)=%q %v %v tie-columns=%d", o, oc, to, ties)
}

// ---------------------------------------------------------------------------- family: site measures

func oneOf(v float64, vals []float64) bool {
	for _, x := range vals {
		if closeTo(v, x, 1e-12) {
			return true
		}
	}
	return false
}

func runSite(c *mon.Case) {
	a := genAln(c, genOpt{})
	c.Input(a)
	al := a.build()
	n, L := len(a.Rows), len(a.Rows[0])
	exact := !hasLower(a.Rows) // case handling of these measures is not specified: upper case inputs decide
	if exact {
		c.Count("site:exact-cases")
	} else {
		c.Count("site:determinism-only-cases")
	}
	// Entropy
	probe := []int{}
	for j := 0; j < L; j++ {
		probe = append(probe, j)
	}
	probe = append(probe, sitesOutside(L)...)
	for _, rg := range []bool{false, true} {
		rg := rg
		for _, site := range probe {
			site := site
			var e float64
			var err error
			if !guard(c, "Entropy", fmt.Sprintf("site=%d of %d removegaps=%v", site, L, rg), func() { e, err = al.Entropy(site, rg) }) {
				continue
			}
			if site < 0 || site >= L {
				c.Count("oob:Entropy")
				if err == nil {
					c.Failf("Entropy:site-outside-accepted", "Entropy(%d,%v) on an alignment of length %d returned %v without error", site, rg, L, e)
				}
				continue
			}
			col := colOf(a.Rows, site)
			if exact {
				vals := entropyValues(col, rg)
				empty := math.IsNaN(vals[0])
				for _, v := range vals {
					if math.IsNaN(v) {
						empty = true
					}
				}
				switch {
				case err != nil:
					if !empty {
						c.Failf("Entropy:unexpected-error", "Entropy(%d,%v) column %q: %v", site, rg, col, err)
					}
				case !oneOf(e, vals):
					c.Failf("Entropy:wrong-value", "Entropy(%d, removegaps=%v) of column %q = %v, -sum p ln p gives %v", site, rg, col, e, vals)
				}
				c.Count("fn:Entropy")
				if empty {
					c.Count("entropy:empty-site")
				}
			}
			if site == 0 || site == L-1 || c.R.Chance(0.25) {
				stable(c, "Entropy", reps, fbits(e)+errStr(err), func() string { x, er := al.Entropy(site, rg); return fbits(x) + errStr(er) })
			}
			if site == 0 || site == L-1 {
				c.Count("boundary-site:Entropy")
			}
		}
	}
	// NbVariableSites
	var nv int
	if guard(c, "NbVariableSites", "", func() { nv = al.NbVariableSites() }) {
		if exact {
			vals := nbVariableValues(a.Rows, a.wild)
			ok := false
			for _, v := range vals {
				ok = ok || v == nv
			}
			if !ok {
				c.Failf("NbVariableSites:wrong-count", "NbVariableSites()=%d, sites with at least two distinct characters: %v (readings); rows=%q", nv, vals, a.Rows)
			}
			c.Count("fn:NbVariableSites")
		}
		stable(c, "NbVariableSites", reps, fmt.Sprint(nv), func() string { return fmt.Sprint(al.NbVariableSites()) })
	}
	// InformativeSites
	var inf []int
	if guard(c, "InformativeSites", "", func() { inf = al.InformativeSites() }) {
		// mixed case: a residue and its other case are one character of the definition (the count tables of the
		// statement are case-folded and so is this function): only the case-folded readings are admissible there
		{
			in := map[int]int{}
			for _, s := range inf {
				in[s]++
			}
			for s, k := range in {
				if s < 0 || s >= L || k > 1 {
					c.Failf("InformativeSites:bad-index", "InformativeSites()=%v on %d sites", inf, L)
				}
			}
			for j := 0; j < L; j++ {
				col := colOf(a.Rows, j)
				canBe, canNot := informativeStatuses(col, a.wild, a.other)
				if !exact {
					canBe, canNot = informativeStatusesFolded(col, a.wild, a.other)
				}
				if (in[j] > 0 && !canBe) || (in[j] == 0 && !canNot) {
					c.Failf("InformativeSites:wrong-site", "InformativeSites()=%v: site %d column %q (%s) informative=%v, definition says %v", inf, j, col, a.Kind, in[j] > 0, canBe)
					break
				}
				if canBe && !canNot {
					c.Count("informative:sites")
				}
				if !exact && canBe != canNot && hasLower([]string{col}) {
					c.Count("informative:mixed-case-columns-decided")
				}
			}
			if exact {
				c.Count("fn:InformativeSites")
			}
		}
		canon := func(x []int) string { y := append([]int{}, x...); sort.Ints(y); return fmt.Sprint(y) }
		stable(c, "InformativeSites", reps, canon(inf), func() string { return canon(al.InformativeSites()) })
	}
	// AvgAllelesPerSite
	var av float64
	if guard(c, "AvgAllelesPerSite", "", func() { av = al.AvgAllelesPerSite() }) {
		if exact {
			vals, undef := avgAllelesValues(a.Rows, a.wild)
			if !undef && !oneOf(av, vals) {
				c.Failf("AvgAllelesPerSite:wrong-value", "AvgAllelesPerSite()=%v, definition gives %v; rows=%q", av, vals, a.Rows)
			}
			if undef && len(vals) > 0 && !oneOf(av, vals) && !math.IsNaN(av) && !math.IsInf(av, 0) {
				c.Failf("AvgAllelesPerSite:wrong-value", "AvgAllelesPerSite()=%v, definition gives %v or 0/0; rows=%q", av, vals, a.Rows)
			}
			c.Count("fn:AvgAllelesPerSite")
		}
		stable(c, "AvgAllelesPerSite", reps, fbits(av), func() string { return fbits(al.AvgAllelesPerSite()) })
	}
	// SiteConservation
	for _, site := range probe {
		site := site
		var cons int
		var err error
		if !guard(c, "SiteConservation", fmt.Sprintf("site=%d of %d", site, L), func() { cons, err = al.SiteConservation(site) }) {
			continue
		}
		if site < 0 || site >= L {
			c.Count("oob:SiteConservation")
			if err == nil {
				c.Failf("SiteConservation:site-outside-accepted", "SiteConservation(%d) on length %d returned %d without error", site, L, cons)
			}
			continue
		}
		if err != nil {
			c.Failf("SiteConservation:unexpected-error", "SiteConservation(%d) on length %d: %v", site, L, err)
			continue
		}
		if exact {
			col := colOf(a.Rows, site)
			if e := refConservation(col, a.protein); e != cons {
				c.Failf("SiteConservation:wrong-class", "SiteConservation(%d) of column %q (%s) = %d, Clustal groups give %d (0 identical,1 strong,2 weak,3 none)", site, col, a.Kind, cons, e)
			}
			c.Count("fn:SiteConservation")
			c.Count(fmt.Sprintf("conservation:%d", cons))
		}
		if site == 0 || site == L-1 {
			stable(c, "SiteConservation", reps/2, fmt.Sprint(cons), func() string { x, _ := al.SiteConservation(site); return fmt.Sprint(x) })
		}
	}
	unchanged(c, "site", al, a)
	if n >= 2 && exact {
		c.NonTrivial("site", a.key())
	}
	e0, _ := al.Entropy(0, false)
	c.Note("Entropy(0)=%v variable=%d informative=%v alleles=%v", e0, nv, inf, av)
}

// ---------------------------------------------------------------------------- family: PSSM

var pssmReadings = func() []pssmReading {
	var out []pssmReading
	for _, a := range []bool{false, true} {
		for _, b := range []bool{false, true} {
			for _, l := range []bool{false, true} {
				for _, g := range []bool{false, true} {
					out = append(out, pssmReading{a, b, l, g})
				}
			}
		}
	}
	return out
}()

var normNames = []string{"none", "freq", "data", "unif", "logo"}

func renderPssm(m map[uint8][]float64, err error) string {
	if err != nil {
		return "error"
	}
	keys := make([]int, 0, len(m))
	for k := range m {
		keys = append(keys, int(k))
	}
	sort.Ints(keys)
	var sb strings.Builder
	for _, k := range keys {
		fmt.Fprintf(&sb, "%c:", k)
		for _, v := range m[uint8(k)] {
			sb.WriteString(fbits(v))
			sb.WriteByte(',')
		}
	}
	return sb.String()
}

func checkPssm(c *mon.Case, a aln, al align.Alignment, log bool, pc float64, norm int) {
	L := len(a.Rows[0])
	var m map[uint8][]float64
	var err error
	what := fmt.Sprintf("log=%v pseudo=%v norm=%d", log, pc, norm)
	if !guard(c, "Pssm", what, func() { m, err = al.Pssm(log, pc, norm) }) {
		return
	}
	if norm < 0 || norm > 4 {
		c.Count("pssm:unknown-normalisation")
		if err == nil {
			c.Failf("Pssm:unknown-normalisation-accepted", "Pssm(%s) returned no error", what)
		}
		return
	}
	exact := !hasLower(a.Rows)
	if exact {
		// background frequency 0 (DATA): an error or anything for that character
		_, skip, _ := refPssm(a.Rows, a.base, log, pc, norm, pssmReading{})
		if err != nil {
			if len(skip) == 0 {
				c.Failf("Pssm:unexpected-error", "Pssm(%s): %v rows=%q", what, err, a.Rows)
			} else {
				c.Count("pssm:data-absent-character-error")
			}
		} else {
			firstMsg := ""
			matched := false
			for _, rd := range pssmReadings {
				exp, skip, zeroLogo := refPssm(a.Rows, a.base, log, pc, norm, rd)
				msg := ""
			chars:
				for i := 0; i < len(a.base); i++ {
					ch := a.base[i]
					got, ok := m[ch]
					if !ok || len(got) != L {
						msg = fmt.Sprintf("character %q: %d values for %d sites", ch, len(got), L)
						break
					}
					if skip[ch] {
						continue
					}
					for j := 0; j < L; j++ {
						if closeTo(got[j], exp[ch][j], 1e-9) {
							continue
						}
						if norm == 4 && zeroLogo[j] && math.IsNaN(got[j]) {
							continue // 0*log(0): NaN or the 0 convention
						}
						if norm == 4 && log && rd.logoLog && math.IsNaN(exp[ch][j]) {
							continue
						}
						msg = fmt.Sprintf("character %q site %d column %q: got %v, definition %v (reading %+v)", ch, j, colOf(a.Rows, j), got[j], exp[ch][j], rd)
						break chars
					}
				}
				if msg == "" {
					matched = true
					break
				}
				if firstMsg == "" {
					firstMsg = msg
				}
			}
			if !matched {
				c.Failf("Pssm:wrong-value:"+normNames[norm], "Pssm(%s) %s rows=%q: %s", what, a.Kind, a.Rows, firstMsg)
			}
		}
		c.Count("fn:Pssm")
		c.Count("opt:Pssm:norm=" + normNames[norm])
		c.Count(fmt.Sprintf("opt:Pssm:log=%v", log))
		if pc > 0 {
			c.Count("opt:Pssm:pseudocount>0")
		} else {
			c.Count("opt:Pssm:pseudocount=0")
		}
	}
	stable(c, "Pssm:"+normNames[norm], reps, renderPssm(m, err), func() string { return renderPssm(al.Pssm(log, pc, norm)) })
	c.Add("calls:Pssm", reps)
}

func runPssm(c *mon.Case) {
	a := genAln(c, genOpt{})
	r := c.R
	norm := r.Intn(5)
	if r.Chance(0.04) {
		norm = r.PickInt([]int{-1, 5, 99})
	}
	pc := r.PickF([]float64{0, 0, 0.0001, 0.5, 1, 2.5})
	log := r.Bool()
	c.Input(map[string]interface{}{"aln": a, "log": log, "pseudocount": pc, "normalization": norm})
	al := a.build()
	checkPssm(c, a, al, log, pc, norm)
	unchanged(c, "pssm", al, a)
	if len(a.Rows) >= 2 && norm >= 0 && norm <= 4 && !hasLower(a.Rows) {
		c.NonTrivial("pssm", a.key(), fmt.Sprint(log, pc, norm))
	}
	if m, err := al.Pssm(log, pc, norm); err == nil {
		c.Note("pssm[%c]=%v", a.base[0], m[a.base[0]])
	}
}

// ---------------------------------------------------------------------------- family: unique gaps / characters per sequence

func runUnique(c *mon.Case) {
	r := c.R
	a := genAln(c, genOpt{upper: r.Chance(0.8), noSpecial: true})
	al := a.build()
	n, L := len(a.Rows), len(a.Rows[0])
	// profile: none / of another alignment of the same length / of the alignment itself / of an alignment of another length / of an empty one
	mode := []string{"none", "other", "other", "self", "wrong-length", "empty"}[r.Intn(6)]
	var prof []string
	var p *align.CountProfile
	pool := a.base + a.base + "-" + string([]byte{a.wild})
	switch mode {
	case "other", "wrong-length":
		pl := L
		if mode == "wrong-length" {
			pl = L + r.PickInt([]int{-1, 1, 2})
			if pl < 1 {
				pl = L + 1
			}
		}
		m := r.Range(1, 6)
		prof = make([]string, m)
		for i := range prof {
			b := make([]byte, pl)
			for j := range b {
				if j < L && r.Chance(0.6) {
					b[j] = up(a.Rows[r.Intn(n)][j])
				} else {
					b[j] = pool[r.Intn(len(pool))]
				}
			}
			prof[i] = string(b)
		}
	case "self":
		prof = a.Rows
	case "empty":
		prof = []string{}
	}
	if mode != "none" {
		pa := a
		pa.Rows = prof
		if len(prof) > 0 {
			p = align.NewCountProfileFromAlignment(pa.build())
		} else {
			p = align.NewCountProfileFromAlignment(align.NewAlign(a.alpha))
		}
	}
	c.Input(map[string]interface{}{"aln": a, "profile": mode, "profile_rows": prof})
	c.Count("unique:profile=" + mode)
	exact := !hasLower(a.Rows)
	render := func(u, nw, b []int, err error) string { return fmt.Sprint(u, nw, b, errStr(err)) }
	type fnT func(*align.CountProfile) ([]int, []int, []int, error)
	check := func(fn string, f fnT, ref func() ([]int, []int, []int)) {
		var u, nw, b []int
		var err error
		if !guard(c, fn, "profile="+mode, func() { u, nw, b, err = f(p) }) {
			return
		}
		if mode == "wrong-length" {
			if err == nil {
				c.Failf(fn+":profile-length-accepted", "%s with a profile of length %d on an alignment of length %d returned no error", fn, len(prof[0]), L)
			}
			c.Count("fn:" + fn + ":wrong-length-profile")
			return
		}
		if err != nil {
			c.Failf(fn+":unexpected-error", "%s(profile=%s): %v", fn, mode, err)
			return
		}
		if exact || fn == "NumGapsUniquePerSequence" {
			eu, en, eb := ref()
			if mode == "none" { // documented: zero filled
				en, eb = make([]int, n), make([]int, n)
			}
			if fmt.Sprint(u) != fmt.Sprint(eu) {
				c.Failf(fn+":wrong-unique", "%s(profile=%s) unique=%v, definition %v; rows=%q", fn, mode, u, eu, a.Rows)
			} else if fmt.Sprint(nw) != fmt.Sprint(en) {
				c.Failf(fn+":wrong-new", "%s(profile=%s) new=%v, definition %v; rows=%q profile rows=%q", fn, mode, nw, en, a.Rows, prof)
			} else if fmt.Sprint(b) != fmt.Sprint(eb) {
				c.Failf(fn+":wrong-both", "%s(profile=%s) both=%v, definition %v; rows=%q profile rows=%q", fn, mode, b, eb, a.Rows, prof)
			}
			c.Count("fn:" + fn)
			if p != nil {
				c.Count("fn:" + fn + ":with-profile")
			}
			tot := 0
			for _, x := range eu {
				tot += x
			}
			if tot > 0 {
				c.Count("unique:" + fn + ":cases-with-unique")
			}
		}
		stable(c, fn, reps, render(u, nw, b, err), func() string { return render(f(p)) })
	}
	var profArg []string
	if mode != "none" {
		profArg = prof
	}
	check("NumGapsUniquePerSequence", al.NumGapsUniquePerSequence, func() ([]int, []int, []int) { return refUniqueGaps(a.Rows, profArg) })
	check("NumMutationsUniquePerSequence", al.NumMutationsUniquePerSequence, func() ([]int, []int, []int) { return refUniqueMuts(a.Rows, profArg, a.wild) })
	unchanged(c, "unique", al, a)
	if n >= 2 {
		c.NonTrivial("unique", a.key(), mode, strings.Join(prof, "/"))
	}
	u, _, _, _ := al.NumMutationsUniquePerSequence(nil)
	c.Note("NumMutationsUniquePerSequence(nil) unique=%v", u)
}

// ---------------------------------------------------------------------------- family: reference relative counters

// genRefSet builds a reference row and rows derived from it with substitutions, compatible
// ambiguity codes, wildcards, deletions and insertions (runs of gaps in the reference).
func genRefSet(r *gen.Rand, a aln, mixed bool) (ref string, seqs []string) {
	L := r.PickInt([]int{1, 2, 3, 4, 5, 6, 8, 10, 12, 15, 20, 30, 40})
	amb := ntAmbig
	if a.protein {
		amb = aaAmbig
	}
	res := func() byte {
		x := r.Float()
		switch {
		case x < 0.82:
			return a.base[r.Intn(len(a.base))]
		case x < 0.90:
			return a.wild
		default:
			return amb[r.Intn(len(amb))]
		}
	}
	rb := make([]byte, L)
	for i := range rb {
		rb[i] = res()
	}
	// runs of gaps in the reference: leading, trailing, internal
	if r.Chance(0.6) {
		for k, nr := 0, r.Range(1, 3); k < nr; k++ {
			st, ln := r.Intn(L), r.Range(1, 4)
			switch r.Intn(4) {
			case 0:
				st = 0
			case 1:
				st = L - ln
				if st < 0 {
					st = 0
				}
			}
			for i := st; i < st+ln && i < L; i++ {
				rb[i] = '-'
			}
		}
	}
	if r.Chance(0.03) {
		for i := range rb {
			rb[i] = '-'
		}
	}
	ref = string(rb)
	n := r.Range(1, 6)
	for s := 0; s < n; s++ {
		b := make([]byte, L)
		insStyle := r.Intn(3) // per row: fill insertions, partly, never
		del := 0
		for i := range b {
			if rb[i] == '-' {
				switch {
				case insStyle == 0, insStyle == 1 && r.Bool():
					b[i] = res()
				default:
					b[i] = '-'
				}
				continue
			}
			x := r.Float()
			switch {
			case del > 0:
				b[i] = '-'
				del--
			case x < 0.62:
				b[i] = rb[i]
			case x < 0.74:
				b[i] = a.base[r.Intn(len(a.base))]
			case x < 0.82:
				b[i] = amb[r.Intn(len(amb))]
			case x < 0.88:
				b[i] = a.wild
			default:
				b[i] = '-'
				del = r.Intn(3)
			}
		}
		seqs = append(seqs, string(b))
	}
	if mixed {
		low := func(s string) string {
			b := []byte(s)
			for i := range b {
				if r.Chance(0.3) {
					b[i] = lo(b[i])
				}
			}
			return string(b)
		}
		ref = low(ref)
		for i := range seqs {
			seqs[i] = low(seqs[i])
		}
	}
	return
}

func renderMuts(ms []align.Mutation) []string {
	out := make([]string, len(ms))
	for i, m := range ms {
		out[i] = renderMut(m.Ref, m.Pos, string(m.Alt))
	}
	return out
}

func runRefMut(c *mon.Case) {
	r := c.R
	a := mkKind(r.Bool())
	mixed := r.Chance(0.12)
	ref, seqs := genRefSet(r, a, mixed)
	L := len(ref)
	if !mixed && r.Chance(0.15) {
		// a column where the reference and every sequence carry the SAME character outside the alphabet
		// ('*', '.', or X in nucleotides): identical characters are never a substitution
		j := r.Intn(L)
		sp := []byte{'*', '.', 'X'}[r.Intn(3)]
		if a.protein && sp == 'X' {
			sp = '*'
		}
		rb := []byte(ref)
		rb[j] = sp
		ref = string(rb)
		for i := range seqs {
			sb := []byte(seqs[i])
			sb[j] = sp
			seqs[i] = string(sb)
		}
		c.Count("refmut:identical-special-character-column")
	}
	mode := []string{"first", "chosen", "external", "external", "wrong-length"}[r.Intn(5)]
	rows := []string{}
	refIdx := -1
	switch mode {
	case "first":
		rows = append([]string{ref}, seqs...)
		refIdx = 0
	case "chosen":
		refIdx = r.Intn(len(seqs) + 1)
		rows = append(rows, seqs[:refIdx]...)
		rows = append(rows, ref)
		rows = append(rows, seqs[refIdx:]...)
	default:
		rows = seqs
	}
	a.Rows = rows
	al := a.build()
	var refSeq align.Sequence
	refStr := ref
	switch mode {
	case "first", "chosen":
		refSeq = al.Sequences()[refIdx]
	case "external":
		refSeq = align.NewSequence("ref", []uint8(ref), "")
	case "wrong-length":
		refStr = ref + "A"
		if L > 1 && r.Bool() {
			refStr = ref[:L-1]
		}
		refSeq = align.NewSequence("ref", []uint8(refStr), "")
	}
	c.Input(map[string]interface{}{"aln": a, "reference": refStr, "mode": mode, "ref_index": refIdx})
	c.Count("refmut:mode=" + mode)
	c.Count("refmut:" + a.Kind)
	exact := !mixed
	nSubst, nIns, nDel := 0, 0, 0
	for i, s := range al.Sequences() {
		s := s
		row := rows[i]
		// counts
		var num int
		var err error
		if guard(c, "NumMutationsComparedToReferenceSequence", mode, func() { num, err = s.NumMutationsComparedToReferenceSequence(a.alpha, refSeq) }) {
			switch {
			case mode == "wrong-length":
				if err == nil {
					c.Failf("NumMutationsComparedToReferenceSequence:length-mismatch-accepted", "reference of length %d against a sequence of length %d: no error (%d)", len(refStr), L, num)
				}
				c.Count("fn:NumMutationsComparedToReferenceSequence:wrong-length")
			case err != nil:
				c.Failf("NumMutationsComparedToReferenceSequence:unexpected-error", "seq %q ref %q (%s): %v", row, refStr, a.Kind, err)
			case exact:
				lo, hi := refNumMutations(row, refStr, a.protein)
				if num < lo || num > hi {
					c.Failf("NumMutationsComparedToReferenceSequence:wrong-count", "seq %q against ref %q (%s): %d, definition gives %d..%d", row, refStr, a.Kind, num, lo, hi)
				}
				if i == refIdx && num != 0 {
					c.Failf("NumMutationsComparedToReferenceSequence:reference-against-itself", "reference %q against itself: %d", refStr, num)
				}
				c.Count("fn:NumMutationsComparedToReferenceSequence")
			}
			stable(c, "NumMutationsComparedToReferenceSequence", reps, fmt.Sprint(num, errStr(err)), func() string {
				x, e := s.NumMutationsComparedToReferenceSequence(a.alpha, refSeq)
				return fmt.Sprint(x, errStr(e))
			})
		}
		// lists
		var ms []align.Mutation
		if guard(c, "ListMutationsComparedToReferenceSequence", mode, func() { ms, err = s.ListMutationsComparedToReferenceSequence(a.alpha, refSeq, false) }) {
			got := renderMuts(ms)
			switch {
			case mode == "wrong-length":
				if err == nil {
					c.Failf("ListMutationsComparedToReferenceSequence:length-mismatch-accepted", "reference of length %d against a sequence of length %d: no error (%v)", len(refStr), L, got)
				}
				c.Count("fn:ListMutationsComparedToReferenceSequence:wrong-length")
			case err != nil:
				c.Failf("ListMutationsComparedToReferenceSequence:unexpected-error", "seq %q ref %q (%s): %v", row, refStr, a.Kind, err)
			case exact:
				exp := refListMutations(row, refStr, a.protein)
				if !matchMutations(got, exp) {
					var es []string
					for _, it := range exp {
						x := strings.Join(it.variants, "|")
						if it.optional {
							x = "[" + x + "]"
						}
						es = append(es, x)
					}
					c.Failf("ListMutationsComparedToReferenceSequence:wrong-list", "seq %q\nref %q (%s)\ngot      %v\nexpected %v ([..] optional, a|b either)", row, refStr, a.Kind, got, es)
				}
				for _, g := range got {
					switch {
					case g[0] == '-':
						nIns++
					case g[len(g)-1] == '-':
						nDel++
					default:
						nSubst++
					}
				}
				c.Count("fn:ListMutationsComparedToReferenceSequence")
			}
			stable(c, "ListMutationsComparedToReferenceSequence", reps, fmt.Sprint(got, errStr(err)), func() string {
				x, e := s.ListMutationsComparedToReferenceSequence(a.alpha, refSeq, false)
				return fmt.Sprint(renderMuts(x), errStr(e))
			})
		}
		// codon by codon mode: deterministic, never a crash; exact on gap free unambiguous codons
		if guard(c, "ListMutationsComparedToReferenceSequence(aa)", mode, func() { ms, err = s.ListMutationsComparedToReferenceSequence(a.alpha, refSeq, true) }) {
			got := renderMuts(ms)
			if (a.protein || mode == "wrong-length") && err == nil {
				c.Failf("ListMutationsComparedToReferenceSequence(aa):bad-input-accepted", "codon mode on %s alignment, reference length %d, sequence length %d: no error", a.Kind, len(refStr), L)
			}
			c.Count("fn:ListMutationsComparedToReferenceSequence(aa)")
			stable(c, "ListMutationsComparedToReferenceSequence(aa)", reps/2, fmt.Sprint(got, errStr(err)), func() string {
				x, e := s.ListMutationsComparedToReferenceSequence(a.alpha, refSeq, true)
				return fmt.Sprint(renderMuts(x), errStr(e))
			})
		}
	}
	c.Add("refmut:substitutions", nSubst)
	c.Add("refmut:insertions", nIns)
	c.Add("refmut:deletions", nDel)
	// CountDifferences: raw differences with the first row
	var alld []string
	var diffs []map[string]int
	if guard(c, "CountDifferences", "", func() { alld, diffs = al.CountDifferences() }) {
		if exact {
			eall, eper := refDiffs(rows)
			seen := map[string]int{}
			for _, d := range alld {
				seen[d]++
			}
			ok := len(seen) == len(eall) && len(alld) == len(seen)
			for d := range eall {
				if seen[d] != 1 {
					ok = false
				}
			}
			if !ok {
				c.Failf("CountDifferences:wrong-set", "CountDifferences() set %v, differences with the first row are %v; rows=%q", alld, eall, rows)
			}
			if len(diffs) != len(eper) {
				c.Failf("CountDifferences:shape", "CountDifferences() gives %d maps for %d rows", len(diffs), len(rows))
			} else {
				for i := range diffs {
					if fmt.Sprint(diffs[i]) != fmt.Sprint(eper[i]) && !(len(diffs[i]) == 0 && len(eper[i]) == 0) {
						c.Failf("CountDifferences:wrong-counts", "CountDifferences() row %d %q against first row %q: %v, definition %v", i+1, rows[i+1], rows[0], diffs[i], eper[i])
						break
					}
				}
			}
			c.Count("fn:CountDifferences")
		}
		canon := func(a []string, d []map[string]int) string {
			x := append([]string{}, a...)
			sort.Strings(x)
			return fmt.Sprint(x, d)
		}
		stable(c, "CountDifferences", reps, canon(alld, diffs), func() string { return canon(al.CountDifferences()) })
	}
	unchanged(c, "refmut", al, a)
	// the reference (a row of the alignment) and another row edited in place at constant length: the counts
	// follow the content at the time of the call (nothing may be remembered from the calls above)
	if exact && (mode == "first" || mode == "chosen") && !c.Failed() {
		cur := append([]string{}, rows...)
		for k := r.Range(1, 3); k > 0; k-- {
			i := refIdx
			if k == 1 && len(cur) > 1 && r.Bool() {
				i = r.Intn(len(cur))
			}
			j := r.Intn(L)
			ch := a.base[r.Intn(len(a.base))]
			if err := al.SetSequenceChar(i, j, ch); err != nil {
				c.Failf("harness:edit", "SetSequenceChar(%d,%d): %v", i, j, err)
				return
			}
			b := []byte(cur[i])
			b[j] = ch
			cur[i] = string(b)
		}
		newRef := cur[refIdx]
		for i, s := range al.Sequences() {
			num, err := s.NumMutationsComparedToReferenceSequence(a.alpha, refSeq)
			lo, hi := refNumMutations(cur[i], newRef, a.protein)
			if err != nil || num < lo || num > hi {
				c.Failf("NumMutationsComparedToReferenceSequence:wrong-count-after-edit", "after in-place edits (rows were %q, are %q; reference row %d): seq %q against ref %q (%s): %d err=%v, definition gives %d..%d", rows, cur, refIdx, cur[i], newRef, a.Kind, num, err, lo, hi)
				break
			}
			ms, err := s.ListMutationsComparedToReferenceSequence(a.alpha, refSeq, false)
			if got := renderMuts(ms); err != nil || !matchMutations(got, refListMutations(cur[i], newRef, a.protein)) {
				c.Failf("ListMutationsComparedToReferenceSequence:wrong-list-after-edit", "after in-place edits (rows were %q, are %q; reference row %d): seq %q against ref %q (%s): %v err=%v", rows, cur, refIdx, cur[i], newRef, a.Kind, got, err)
				break
			}
		}
		c.Count("refmut:after-edit")
	}
	if exact && mode != "wrong-length" && (nSubst+nIns+nDel > 0) {
		c.NonTrivial("refmut", a.key(), refStr, mode)
	}
	c.Note("mode=%s substitutions=%d insertions=%d deletions=%d", mode, nSubst, nIns, nDel)
}

// ---------------------------------------------------------------------------- codon by codon lists on gap free unambiguous rows

func runCodon(c *mon.Case) {
	r := c.R
	ncod, extra := r.Range(1, 12), r.Intn(3)
	L := 3*ncod + extra
	a := mkKind(false)
	refStr := r.Str(L, ntBase)
	a.Rows = []string{refStr}
	rate := r.PickF([]float64{0, 0.05, 0.2, 0.5})
	for i, n := 0, r.Range(1, 4); i < n; i++ {
		b := []byte(refStr)
		for k := range b {
			if r.Chance(rate) {
				b[k] = ntBase[r.Intn(4)]
			}
		}
		a.Rows = append(a.Rows, string(b))
	}
	c.Input(a)
	al := a.build()
	refSeq := al.Sequences()[0]
	nmut := 0
	for i, s := range al.Sequences() {
		s := s
		var ms []align.Mutation
		var err error
		if !guard(c, "ListMutationsComparedToReferenceSequence(aa)", "gap free", func() { ms, err = s.ListMutationsComparedToReferenceSequence(align.NUCLEOTIDS, refSeq, true) }) {
			continue
		}
		if err != nil {
			c.Failf("ListMutationsComparedToReferenceSequence(aa):unexpected-error", "seq %q ref %q: %v", a.Rows[i], refStr, err)
			continue
		}
		var exp []string
		for k := 0; k < ncod; k++ {
			ra := ref.TranslateCodon(refStr[3*k], refStr[3*k+1], refStr[3*k+2], 0)
			sa := ref.TranslateCodon(a.Rows[i][3*k], a.Rows[i][3*k+1], a.Rows[i][3*k+2], 0)
			if ra != sa {
				exp = append(exp, renderMut(ra, k, string([]byte{sa})))
			}
		}
		got := renderMuts(ms)
		if fmt.Sprint(got) != fmt.Sprint(exp) {
			c.Failf("ListMutationsComparedToReferenceSequence(aa):wrong-list", "seq %q\nref %q\ngot      %v\nexpected %v (standard code, codon positions from 0)", a.Rows[i], refStr, got, exp)
		}
		nmut += len(exp)
		c.Count("fn:ListMutationsComparedToReferenceSequence(aa):exact")
		stable(c, "ListMutationsComparedToReferenceSequence(aa)", reps/2, fmt.Sprint(got), func() string {
			x, _ := s.ListMutationsComparedToReferenceSequence(align.NUCLEOTIDS, refSeq, true)
			return fmt.Sprint(renderMuts(x))
		})
	}
	c.Add("codon:amino-acid-changes", nmut)
	unchanged(c, "codon", al, a)
	if nmut > 0 {
		c.NonTrivial("codon", a.key())
	}
	c.Note("amino acid changes listed: %d", nmut)
}

// ---------------------------------------------------------------------------- exhaustive: IUPAC compatibility of one residue against one reference residue

const iupacAll = "ACGTRYSWKMBDHVN-"

func runIupac(c *mon.Case) {
	k := len(iupacAll)
	i, j := (c.Idx/k)%k, c.Idx%k
	lower := (c.Idx / (k * k)) % 2
	s, r := iupacAll[i], iupacAll[j]
	sc, rc := s, r
	if lower == 1 {
		sc, rc = lo(s), lo(r)
	}
	c.Input(map[string]interface{}{"residue": string([]byte{sc}), "reference": string([]byte{rc})})
	// one residue in the middle of a constant context so that positions matter
	seq := "A" + string([]byte{sc}) + "C"
	ref := "A" + string([]byte{rc}) + "C"
	sq := align.NewSequence("s", []uint8(seq), "")
	rf := align.NewSequence("r", []uint8(ref), "")
	num, err := sq.NumMutationsComparedToReferenceSequence(align.NUCLEOTIDS, rf)
	if err != nil {
		c.Failf("NumMutationsComparedToReferenceSequence:unexpected-error", "%q against %q: %v", seq, ref, err)
		return
	}
	compatible := s == r || iupacSets[s]&iupacSets[r] != 0
	want := 1
	if s == '-' || s == 'N' || compatible {
		want = 0
	}
	if lower == 0 || (s != 'N') { // lower case n against a gap: nobody says whether it is the wildcard
		if num != want {
			c.Failf("NumMutationsComparedToReferenceSequence:iupac-table", "residue %q against reference %q: %d mutation(s), IUPAC sets say %d", sc, rc, num, want)
		}
	}
	if lower == 0 {
		ms, err := sq.ListMutationsComparedToReferenceSequence(align.NUCLEOTIDS, rf, false)
		if err != nil {
			c.Failf("ListMutationsComparedToReferenceSequence:unexpected-error", "%q against %q: %v", seq, ref, err)
			return
		}
		if got, exp := renderMuts(ms), refListMutations(seq, ref, false); !matchMutations(got, exp) {
			c.Failf("ListMutationsComparedToReferenceSequence:iupac-table", "residue %q against reference %q: list %v", sc, rc, got)
		}
	}
	// the exported compatibility test itself
	if s != '-' && r != '-' {
		ok, err := align.EqualOrCompatible(uint8(iupacSets[s]), uint8(iupacSets[r]))
		if err != nil || ok != compatible {
			c.Failf("EqualOrCompatible:wrong", "EqualOrCompatible(%q,%q)=%v,%v; sets intersect: %v", s, r, ok, err, compatible)
		}
		i1, e1 := align.Nt2IndexIUPAC(sc)
		if e1 != nil || int(i1) != iupacSets[s] {
			c.Failf("Nt2IndexIUPAC:wrong", "Nt2IndexIUPAC(%q)=%d,%v; IUPAC set %d", sc, i1, e1, iupacSets[s])
		}
	}
	c.Count("iupac:pairs")
	c.NonTrivial("iupac", string([]byte{sc, rc}))
}

// ---------------------------------------------------------------------------- witnesses

func runWitness(c *mon.Case) {
	nt := func(rows ...string) aln { a := mkKind(false); a.Rows = rows; return a }
	aa := func(rows ...string) aln { a := mkKind(true); a.Rows = rows; return a }
	switch c.Idx {
	case 0: // defect 5: Entropy(L) passed the guard and panicked
		a := nt("ACGT", "ACGA", "AC-T")
		c.Input(a)
		al := a.build()
		for _, site := range []int{-1, 4, 5} {
			site := site
			guard(c, "Entropy", fmt.Sprintf("site=%d of 4", site), func() {
				if e, err := al.Entropy(site, false); err == nil {
					c.Failf("Entropy:site-outside-accepted", "Entropy(%d) on length 4 = %v without error", site, e)
				}
			})
		}
		c.Count("oob:Entropy")
	case 1: // defect 6: MaxCharStats broke ties by map iteration order
		a := nt("AAC-N", "CCG-N", "GGT-N", "TTANN", "acg-n", "cgt--")
		c.Input(a)
		al := a.build()
		checkMax(c, a, al, "", 200)
	case 2: // the same on a protein alignment with X
		a := aa("AX-KR", "RX-KN", "NX-RD", "DXXRX")
		c.Input(a)
		checkMax(c, a, a.build(), "", 200)
	case 3: // statistics of an alignment without any sequence: empty answers, never a crash
		c.Input("empty alignment (no sequence)")
		for _, alpha := range []int{align.NUCLEOTIDS, align.AMINOACIDS} {
			al := align.NewAlign(alpha)
			guard(c, "MaxCharStats", "empty alignment", func() {
				if o, oc, to := al.MaxCharStats(false, false); len(o)+len(oc)+len(to) != 0 {
					c.Failf("MaxCharStats:shape", "empty alignment: %v %v %v", o, oc, to)
				}
			})
			guard(c, "Consensus", "empty alignment", func() { al.Consensus(true, true) })
			guard(c, "Pssm", "empty alignment", func() { al.Pssm(false, 0.1, align.PSSM_NORM_FREQ) })
			guard(c, "CountDifferences", "empty alignment", func() {
				if d, m := al.CountDifferences(); len(d)+len(m) != 0 {
					c.Failf("CountDifferences:shape", "empty alignment: %v %v", d, m)
				}
			})
			guard(c, "CharStats", "empty alignment", func() { al.CharStats(); al.UniqueCharacters() })
			guard(c, "CharStatsSite", "empty alignment", func() {
				if _, err := al.CharStatsSite(0); err == nil {
					c.Failf("CharStatsSite:site-outside-accepted", "CharStatsSite(0) on an empty alignment: no error")
				}
			})
			guard(c, "CharStatsSeq", "empty alignment", func() {
				if _, err := al.CharStatsSeq(0); err == nil {
					c.Failf("CharStatsSeq:index-outside-accepted", "CharStatsSeq(0) on an empty alignment: no error")
				}
			})
			guard(c, "Entropy", "empty alignment", func() {
				for _, s := range []int{-1, 0, 1} {
					if _, err := al.Entropy(s, false); err == nil {
						c.Failf("Entropy:site-outside-accepted", "Entropy(%d) on an empty alignment: no error", s)
					}
				}
			})
			guard(c, "SiteConservation", "empty alignment", func() {
				for _, s := range []int{-1, 0} {
					if _, err := al.SiteConservation(s); err == nil {
						c.Failf("SiteConservation:site-outside-accepted", "SiteConservation(%d) on an empty alignment: no error", s)
					}
				}
			})
			guard(c, "NbVariableSites", "empty alignment", func() {
				if v := al.NbVariableSites(); v != 0 {
					c.Failf("NbVariableSites:wrong-count", "empty alignment: %d", v)
				}
			})
			guard(c, "InformativeSites", "empty alignment", func() {
				if v := al.InformativeSites(); len(v) != 0 {
					c.Failf("InformativeSites:wrong-site", "empty alignment: %v", v)
				}
			})
			guard(c, "AvgAllelesPerSite", "empty alignment", func() { al.AvgAllelesPerSite() })
			guard(c, "NumGapsUniquePerSequence", "empty alignment", func() { al.NumGapsUniquePerSequence(nil) })
			guard(c, "NumMutationsUniquePerSequence", "empty alignment", func() { al.NumMutationsUniquePerSequence(nil) })
			guard(c, "CountProfile", "empty alignment", func() { align.NewCountProfileFromAlignment(al) })
		}
		c.Count("witness:empty-alignment")
	case 4: // entropy of a column with many different frequencies: the same bits on every call
		a := aa("A", "A", "A", "R", "R", "N", "D", "D", "D", "D", "C", "C", "C", "C", "C", "Q", "E", "G", "H", "I", "L", "K", "M", "F")
		c.Input(a)
		al := a.build()
		e, err := al.Entropy(0, false)
		if !oneOf(e, entropyValues(colOf(a.Rows, 0), false)) {
			c.Failf("Entropy:wrong-value", "Entropy = %v, definition %v", e, entropyValues(colOf(a.Rows, 0), false))
		}
		stable(c, "Entropy", 300, fbits(e)+errStr(err), func() string { x, er := al.Entropy(0, false); return fbits(x) + errStr(er) })
	case 5: // logo PSSM of the same column
		a := aa("A", "A", "A", "R", "R", "N", "D", "D", "D", "D", "C", "C", "C", "C", "C", "Q", "E", "G", "H", "I", "L", "K", "M", "F")
		c.Input(a)
		al := a.build()
		m, err := al.Pssm(false, 0.1, align.PSSM_NORM_LOGO)
		stable(c, "Pssm:logo", 300, renderPssm(m, err), func() string { return renderPssm(al.Pssm(false, 0.1, align.PSSM_NORM_LOGO)) })
		checkPssm(c, a, al, false, 0.1, align.PSSM_NORM_LOGO)
	case 6: // upstream's documented mutation lists (test.sh): positions on the ungapped reference from 0
		a := nt("AAACGA---CGA-GACC-C", "--AT-T---T-T-TTT--C", "--CTT----TTT--TCC-C")
		c.Input(a)
		al := a.build()
		ref := align.NewSequence("ref", []uint8("CCCCCC---CCCCCCCC-C"), "")
		want := []string{"C0A,C1A,C2A,C4G,C5A,C7G,C8A,C9-,C10G,C11A", "C0-,C1-,C2A,C3T,C4-,C5T,C6T,C7-,C8T,C9-,C10T,C11T,C12T,C13-", "C0-,C1-,C3T,C4T,C5-,C6T,C7T,C8T,C9-,C10-,C11T"}
		wantN := []int{9, 8, 6}
		for i, s := range al.Sequences() {
			ms, err := s.ListMutationsComparedToReferenceSequence(align.NUCLEOTIDS, ref, false)
			if got := strings.Join(renderMuts(ms), ","); err != nil || got != want[i] {
				c.Failf("ListMutationsComparedToReferenceSequence:wrong-list", "row %d: %s (%v), documented %s", i, got, err, want[i])
			}
			if !matchMutations(renderMuts(ms), refListMutations(a.Rows[i], "CCCCCC---CCCCCCCC-C", false)) {
				c.Failf("ListMutationsComparedToReferenceSequence:wrong-list", "row %d: the definition used by this monitor disagrees with the documented list", i)
			}
			num, err := s.NumMutationsComparedToReferenceSequence(align.NUCLEOTIDS, ref)
			if err != nil || num != wantN[i] {
				c.Failf("NumMutationsComparedToReferenceSequence:wrong-count", "row %d: %d (%v), documented %d", i, num, err, wantN[i])
			}
		}
	case 7: // insertions: grouped per run of reference gaps, at the start, inside, at the end
		a := nt("TTACGGTAACC", "--ACG--AA-C")
		c.Input(a)
		al := a.build()
		ms, err := al.Sequences()[0].ListMutationsComparedToReferenceSequence(align.NUCLEOTIDS, al.Sequences()[1], false)
		if got := strings.Join(renderMuts(ms), ","); err != nil || got != "-0TT,-3GT,-5C" {
			c.Failf("ListMutationsComparedToReferenceSequence:wrong-list", "insertions TT / GT / C relative to --ACG--AA-C: %s (%v), expected -0TT,-3GT,-5C", got, err)
		}
	case 8: // documented consensus examples
		a := nt("ACGACGACGACC", "ATCTT-TTTTTC", "ATCTT-TTTTTT")
		c.Input(a)
		al := a.build()
		s, _ := al.Consensus(false, false).GetSequenceById(0)
		if s != "ATCTT-TTTTTC" {
			c.Failf("Consensus:differs-from-MaxCharStats", "documented example gives %q, expected ATCTT-TTTTTC", s)
		}
		checkMax(c, a, al, "", repsMax)
	case 9: // unique gaps / characters of upstream's test
		a := nt("ACGACGA-GACC", "AT-TT-T-TTTC", "ATCTT-TTT--T")
		c.Input(a)
		al := a.build()
		pa := nt("AAAAAAAAAAAA", "AAAAAAAAAAAA", "AAAAAAAAAAAA")
		p := align.NewCountProfileFromAlignment(pa.build())
		u, nw, b, err := al.NumGapsUniquePerSequence(p)
		eu, en, eb := refUniqueGaps(a.Rows, pa.Rows)
		if err != nil || fmt.Sprint(u, nw, b) != fmt.Sprint(eu, en, eb) || fmt.Sprint(u, nw, b) != "[0 1 2] [1 3 3] [0 1 2]" {
			c.Failf("NumGapsUniquePerSequence:wrong-unique", "got %v %v %v (%v), definition %v %v %v", u, nw, b, err, eu, en, eb)
		}
		u, nw, b, err = al.NumMutationsUniquePerSequence(p)
		eu, en, eb = refUniqueMuts(a.Rows, pa.Rows, 'N')
		if err != nil || fmt.Sprint(u, nw, b) != fmt.Sprint(eu, en, eb) || fmt.Sprint(u, nw, b) != "[9 2 3] [7 8 8] [6 2 3]" {
			c.Failf("NumMutationsUniquePerSequence:wrong-unique", "got %v %v %v (%v), definition %v %v %v", u, nw, b, err, eu, en, eb)
		}
	case 10: // single sequence and single column alignments
		for _, a := range []aln{nt("A"), nt("-"), nt("N"), aa("X"), nt("ACGTN-"), aa("A", "R", "X", "-")} {
			c.Input(a)
			al := a.build()
			checkMax(c, a, al, "", 5)
			checkCounts(c, a, al, "")
			guard(c, "CountDifferences", "single", func() { al.CountDifferences() })
		}
	case 11: // informative sites of upstream's test, N and X not characters
		a := nt("AAAAA--AAAA", "AAAAAAA--AA", "AAAACCAAA--", "CCC--CCCCCC", "CCC-CCCCCCC")
		c.Input(a)
		al := a.build()
		if got := fmt.Sprint(al.InformativeSites()); got != "[0 1 2 4 6 7 8 9 10]" {
			c.Failf("InformativeSites:wrong-site", "got %s, documented [0 1 2 4 6 7 8 9 10]", got)
		}
		b := nt("AN", "AN", "CC", "CC", "NA")
		if got := fmt.Sprint(b.build().InformativeSites()); got != "[0]" {
			c.Failf("InformativeSites:wrong-site", "rows %q: got %s, N is not a character: [0]", b.Rows, got)
		}
		p := aa("AX", "AX", "CC", "CC", "XA")
		if got := fmt.Sprint(p.build().InformativeSites()); got != "[0]" {
			c.Failf("InformativeSites:wrong-site", "rows %q: got %s, X is not a character: [0]", p.Rows, got)
		}
	}
	c.NonTrivial("witness", gen.Itoa(c.Idx))
}

func main() {
	mon.SetNote("rule", "case = one alignment (nucleotide or protein, 1..16 rows x 1..30 columns) built column by column from the classes the statistics special-case (k-way ties for the most frequent character with the rest gaps / wildcards / rarer characters, all-gap, all-N/X, gaps+N only, gap or wildcard majority, gap count equal to the best residue count, all different, one unique character, informative-site boundaries 2+2 / 2+1, skewed, uniform random; ambiguity codes, 30% of the alignments in mixed case, '*' and '.' now and then) or, for the reference relative counters, a reference row plus rows derived from it by substitutions, compatible ambiguity codes, wildcards, deletions and insertions (leading / trailing / internal runs of reference gaps), the reference being the first row, a chosen row, an external sequence or one of another length. Every function is evaluated against the naive definition on the same columns, then 24 times (majority character and consensus: 40 times; witnesses 200-300) on the same alignment with identical answers required; all site / sequence indices of [-1, L] and far beyond are probed. Non-trivial = at least two rows and (per family) a tie or an excluded kind / an exact (upper case) check / a difference with the reference; distinct = (family, rows, options)."+cliRule)
	mon.SetNote("assumptions", "oracles in mon/c14/ref.go typed from the statement and docs (stats.md, consensus.md, compute.md, diff.md, interface comments);; ties: any of the tied characters, but the same on each of the repeated calls and on a second container built from the same rows;; fallback (every character excluded): the kind present, with gaps and N mixed either of them; occur = column height or the count of that kind; total = 0 or the column height;; case handling is only stated for the count tables and the majority character (case-folded): Entropy, NbVariableSites, AvgAllelesPerSite, SiteConservation, Pssm, the unique counters and the reference relative counters are decided on upper case inputs and only checked for determinism / no crash on mixed case; InformativeSites is also decided on mixed case, where a residue and its other case are one character (case-folded readings only; a lower case wildcard counted or not);; '*' and '.' counted or not, N/X counted as an allele / a character of a variable site or not, X in nucleotide and N in protein informative sites: every reading accepted;; Entropy of a site without characters: NaN or an error;; AvgAllelesPerSite with no site holding a character (0/0): anything;; PSSM: column frequency over all sequences or over the alphabet characters of the column, DATA background over alphabet characters or all characters, DATA with an alphabet character absent from the alignment: error or anything for that character, LOGO with or without pseudo counts in the denominator and with or without log2, 0*log(0) NaN or 0 (one reading must explain the whole matrix), relative tolerance 1e-9;; reference relative counters: protein ambiguity codes B/Z/J/X against a residue may or may not count; N/X inside an insertion listed or not; positions are 0-based on the ungapped reference (upstream's test.sh); U, ?, X, * and . are not generated in nucleotide rows of the reference family;; count profile: raw or case-folded bookkeeping (sums over case variants are compared);; set-valued answers (UniqueCharacters, InformativeSites, the difference set of CountDifferences) are compared as sets;; floating point answers must be bit-identical between calls"+cliAssumptions)
	mon.SetNote("exhaustive_subspaces", "iupac: all 16 x 16 pairs (15 IUPAC nucleotide codes and the gap) of one residue against one reference residue, upper and lower case: NumMutationsComparedToReferenceSequence, ListMutationsComparedToReferenceSequence, EqualOrCompatible, Nt2IndexIUPAC against the IUPAC set table")
	for _, f := range []string{"CharStats", "UniqueCharacters", "CharStatsSeq", "CharStatsSite", "CountProfile", "MaxCharStats", "Consensus", "Entropy", "NbVariableSites", "InformativeSites", "AvgAllelesPerSite", "SiteConservation", "Pssm", "NumGapsUniquePerSequence", "NumMutationsUniquePerSequence", "NumMutationsComparedToReferenceSequence", "ListMutationsComparedToReferenceSequence", "CountDifferences"} {
		mon.Floor("fn:"+f, 1000)
		mon.Floor("calls:"+f, 20000)
	}
	for _, f := range []string{"CharStatsSeq", "CharStatsSite", "CountProfile", "Entropy", "SiteConservation"} {
		mon.Floor("oob:"+f, 1000)
	}
	for _, o := range []string{"gaps=false,n=false", "gaps=true,n=false", "gaps=false,n=true", "gaps=true,n=true"} {
		mon.Floor("opt:MaxCharStats:"+o, 1000)
		mon.Floor("opt:Consensus:"+o, 1000)
	}
	for _, n := range normNames {
		mon.Floor("opt:Pssm:norm="+n, 300)
	}
	mon.Floor("opt:Pssm:log=true", 500)
	mon.Floor("opt:Pssm:pseudocount>0", 500)
	mon.Floor("opt:Pssm:pseudocount=0", 500)
	mon.Floor("pssm:unknown-normalisation", 50)
	mon.Floor("maxchar:tie-columns", 5000)
	mon.Floor("maxchar:fallback-all-gaps", 500)
	mon.Floor("maxchar:fallback-all-wild", 500)
	mon.Floor("maxchar:fallback-mixed", 200)
	mon.Floor("maxchar:columns-with-excluded", 2000)
	mon.Floor("entropy:empty-site", 200)
	mon.Floor("informative:sites", 500)
	mon.Floor("fn:NumGapsUniquePerSequence:with-profile", 500)
	mon.Floor("fn:NumMutationsUniquePerSequence:with-profile", 500)
	mon.Floor("fn:NumGapsUniquePerSequence:wrong-length-profile", 100)
	mon.Floor("fn:NumMutationsUniquePerSequence:wrong-length-profile", 100)
	mon.Floor("unique:NumGapsUniquePerSequence:cases-with-unique", 300)
	mon.Floor("unique:NumMutationsUniquePerSequence:cases-with-unique", 300)
	for _, m := range []string{"first", "chosen", "external", "wrong-length"} {
		mon.Floor("refmut:mode="+m, 300)
	}
	mon.Floor("refmut:substitutions", 2000)
	mon.Floor("refmut:insertions", 1000)
	mon.Floor("refmut:deletions", 1000)
	mon.Floor("fn:ListMutationsComparedToReferenceSequence(aa)", 1000)
	mon.Floor("fn:ListMutationsComparedToReferenceSequence(aa):exact", 1000)
	mon.Floor("codon:amino-acid-changes", 1000)
	mon.Floor("iupac:pairs", 512)
	mon.Floor("aln:mixed-case", 1000)
	mon.Floor("aln:nt", 1000)
	mon.Floor("aln:aa", 1000)
	mon.Floor("op:counts-after-edit", 500)
	mon.Floor("op:maxchar-after-edit", 500)
	mon.Floor("op:seqbag-counts", 500)
	cliFloors()
	mon.Floor("cli-multi:ok", 60)
	mon.Floor("profile-file:more-than-100-sites", 500)
	mon.Floor("refmut:after-edit", 1000)
	mon.Floor("deep:rows=257", 2)
	mon.Floor("deep:rows=65537", 2)
	mon.Floor("concurrent:calls", 500)
	mon.Main("C14", []mon.Sub{
		{Name: "witness", Quick: 12, Thorough: 12, Run: runWitness},
		{Name: "iupac", Quick: 512, Thorough: 512, Run: runIupac},
		{Name: "counts", Quick: 6000, Thorough: 120000, Run: runCounts},
		{Name: "maxchar", Quick: 8000, Thorough: 200000, Run: runMaxChar},
		{Name: "site", Quick: 8000, Thorough: 150000, Run: runSite},
		{Name: "pssm", Quick: 8000, Thorough: 150000, Run: runPssm},
		{Name: "unique", Quick: 8000, Thorough: 150000, Run: runUnique},
		{Name: "refmut", Quick: 8000, Thorough: 150000, Run: runRefMut},
		{Name: "codon", Quick: 3000, Thorough: 40000, Run: runCodon},
		{Name: "concurrent", Quick: 64, Thorough: 1200, Race: true, Run: func(c *mon.Case) { conc.Run(c, "stats") }},
		{Name: "deep", Quick: 12, Thorough: 48, Run: runDeep},
		{Name: "cli", Quick: 368, Thorough: 3680, Serial: true, Run: runCli},
		{Name: "profile-file", Quick: 2000, Thorough: 40000, Run: runProfileFile},
		{Name: "cli-multi", Quick: 130, Thorough: 1300, Run: runCliMulti},
	})
}
