// cli sub-check of C14, part 4: consensus, compute entropy, compute pssm, diff --counts, refused requests, witnesses.
package main

import (
	"fmt"
	"math"
	"os"
	"path/filepath"
	"strconv"
	"strings"
)

// ---------------------------------------------------------------------------- consensus

func genCliConsensus(x *cliCtx, round int) func() {
	r := x.r
	x.genAlns(genOpt{}, true)
	ig, in := x.majorityFlags(round)
	out := ""
	if r.Bool() {
		out = "cons.out"
		x.flag("-o", out)
	}
	if strings.HasPrefix(x.k.Format, "phylip") && !x.k.Auto {
		for _, f := range []string{"--one-line", "--no-block", "--output-strict"} {
			if r.Chance(0.25) {
				x.flag(f)
			}
		}
	}
	return func() {
		if !x.expectOK() {
			return
		}
		read := func(stdout string) (string, bool) {
			if out == "" {
				return stdout, true
			}
			b, err := os.ReadFile(filepath.Join(x.dir, out))
			if err != nil {
				x.fail("consensus:no-output-file", "-o %s: %v", out, err)
				return "", false
			}
			return string(b), true
		}
		text, ok := read(x.stdout)
		if !ok {
			return
		}
		var names, seqs []string
		var err error
		switch x.k.Format {
		case "fasta":
			names, seqs = parseFastaOut(text)
		case "phylip", "phylip-strict":
			names, seqs, err = parsePhylipSingles(text)
		default:
			names, seqs, err = parseLibFormat(x.k.Format, text)
		}
		if err != nil {
			x.fail("consensus:output-format", "the output is not an alignment in the input format (%s): %v\n%s", x.k.Format, err, head(text, 800))
			return
		}
		if len(seqs) != len(x.k.Als) {
			x.fail("consensus:wrong-number", "%d consensus sequence(s) %q for %d alignment(s)\n%s", len(seqs), seqs, len(x.k.Als), head(text, 800))
			return
		}
		for ai, al := range x.k.Als {
			a := al.A
			if names[ai] != "consensus" || len(seqs[ai]) != al.l() {
				x.fail("consensus:shape", "alignment %d: sequence %q of %d characters, expected `consensus` with %d characters", ai, names[ai], len(seqs[ai]), al.l())
				return
			}
			for j := 0; j < al.l(); j++ {
				col := colOf(a.Rows, j)
				if msg := acceptsMajority(col, a.wild, ig, in, up(seqs[ai][j]), -1); msg != "" {
					x.fail("consensus:wrong-majority", "alignment %d site %d column %q (%s, ignore gaps=%v, ignore N=%v): consensus %q: %s", ai, j, col, a.Kind, ig, in, seqs[ai], msg)
					return
				}
			}
			x.countMajorityClasses(a, ig, in)
		}
		so, _, _ := x.run(x.k.Args)
		if again, ok := read(so); ok && again != text {
			x.fail("consensus:nondeterministic", "a second execution wrote\n%s\nthe first one\n%s", head(again, 800), head(text, 800))
		}
	}
}

// ---------------------------------------------------------------------------- compute entropy

func genCliEntropy(x *cliCtx, round int) func() {
	x.genAlns(genOpt{upper: true}, true)
	avg, rg := round%4 == 1 || round%4 == 3, round%4 >= 2
	if avg {
		x.flag(x.r.PickStr([]string{"-a", "--average"}))
	}
	if rg {
		x.flag(x.r.PickStr([]string{"-g", "--remove-gaps"}))
	}
	x.count(fmt.Sprintf("entropy:average=%v,remove-gaps=%v", avg, rg))
	return func() {
		// a site without any character: NaN or an error
		empty := false
		for _, al := range x.k.Als {
			for j := 0; j < al.l(); j++ {
				for _, v := range entropyValues(colOf(al.A.Rows, j), rg) {
					if math.IsNaN(v) {
						empty = true
					}
				}
			}
		}
		if empty {
			x.count("entropy:cases-with-empty-site")
		}
		if x.exit != 0 {
			if !empty {
				x.fail("compute-entropy:unexpected-error", "the command failed on a valid request")
			}
			return
		}
		cu := &cursor{lines: splitLines(x.stdout)}
		want := "Alignment\tSite\tEntropy"
		if avg {
			want = "Alignment\tAvgEntropy"
		}
		if f, ok := cu.next(); !ok || strings.Join(f, "\t") != want {
			x.fail("compute-entropy:table-shape", "header %q expected, got %q", want, f)
			return
		}
		rds := allReadings(t(false), nil, nil, false)
		for ai, al := range x.k.Als {
			a := al.A
			if avg {
				f, ok := cu.next()
				if !ok || len(f) != 2 || f[0] != strconv.Itoa(ai) {
					x.fail("compute-entropy:table-shape", "average line of alignment %d expected, got %q", ai, f)
					return
				}
				var vals []float64
				undefined := false
				for _, rd := range rds {
					sum, k := 0.0, 0
					for j := 0; j < al.l(); j++ {
						if e := shannon(rd.kept(colOf(a.Rows, j), 0, 0, rg)); !math.IsNaN(e) {
							sum += e
							k++
						}
					}
					if k == 0 {
						undefined = true
						continue
					}
					vals = append(vals, sum/float64(k))
				}
				if !nearAny(f[1], vals, 3) && !(undefined && strings.Contains(f[1], "NaN")) {
					x.fail("compute-entropy:wrong-average", "alignment %d: %s printed, mean of the site entropies (sites without character left out) %v; remove gaps=%v rows=%q", ai, f[1], vals, rg, a.Rows)
					return
				}
				continue
			}
			for j := 0; j < al.l(); j++ {
				f, ok := cu.next()
				if !ok || len(f) != 3 || f[0] != strconv.Itoa(ai) || f[1] != strconv.Itoa(j) {
					x.fail("compute-entropy:table-shape", "line of alignment %d site %d expected, got %q", ai, j, f)
					return
				}
				col := colOf(a.Rows, j)
				if vals := entropyValues(col, rg); !nearAny(f[2], vals, 3) {
					x.fail("compute-entropy:wrong-value", "alignment %d site %d column %q (remove gaps=%v): %s printed, -sum p ln p gives %v", ai, j, col, rg, f[2], vals)
					return
				}
			}
		}
		x.finished(cu)
	}
}

// ---------------------------------------------------------------------------- compute pssm

func genCliPssm(x *cliCtx, round int) func() {
	r := x.r
	x.genAlns(genOpt{upper: true}, false)
	al := x.k.Als[0]
	a := al.A
	norm := round % 6 // 5: flag not given (documented default 0)
	log := (round/6)%2 == 1
	pc := r.PickF([]float64{0, 0, 0.0001, 0.5, 1, 2.5})
	if norm < 5 {
		if r.Bool() {
			x.flag("-n", strconv.Itoa(norm))
		} else {
			x.flag("--normalization=" + strconv.Itoa(norm))
		}
	} else {
		norm = 0
		x.count("pssm:default-normalization")
	}
	if pc != 0 || r.Chance(0.3) {
		x.flag(r.PickStr([]string{"-c", "--pseudo-counts"}), strconv.FormatFloat(pc, 'g', -1, 64))
	}
	if log {
		x.flag(r.PickStr([]string{"-l", "--log"}))
	}
	x.count("pssm:norm=" + normNames[norm])
	return func() {
		_, skip0, _ := refPssm(a.Rows, a.base, log, pc, norm, pssmReading{})
		if x.exit != 0 {
			if len(skip0) == 0 {
				x.fail("compute-pssm:unexpected-error", "the command failed on a valid request")
			}
			return
		}
		cu := &cursor{lines: splitLines(x.stdout)}
		hd, ok := cu.next()
		if !ok || len(hd) != len(a.base)+1 || hd[0] != "" {
			x.fail("compute-pssm:table-shape", "header with the %d characters of the alphabet expected, got %q", len(a.base), hd)
			return
		}
		seen := map[byte]bool{}
		for _, ch := range hd[1:] {
			if len(ch) != 1 || strings.IndexByte(a.base, ch[0]) < 0 || seen[ch[0]] {
				x.fail("compute-pssm:table-shape", "header %q: the characters of the %s alphabet expected", hd, a.Kind)
				return
			}
			seen[ch[0]] = true
		}
		L := al.l()
		got := make([][]string, L)
		for j := 0; j < L; j++ {
			f, ok := cu.next()
			if !ok || len(f) != len(hd) || f[0] != strconv.Itoa(j+1) {
				x.fail("compute-pssm:table-shape", "line of site %d (numbered %d) expected, got %q", j, j+1, f)
				return
			}
			got[j] = f[1:]
		}
		if !x.finished(cu) {
			return
		}
		firstMsg := ""
		for _, rd := range pssmReadings {
			exp, skip, zeroLogo := refPssm(a.Rows, a.base, log, pc, norm, rd)
			msg := ""
		chars:
			for ci, chs := range hd[1:] {
				ch := chs[0]
				if skip[ch] {
					continue
				}
				for j := 0; j < L; j++ {
					g := got[j][ci]
					if nearStr(g, exp[ch][j], 3) {
						continue
					}
					if norm == 4 && zeroLogo[j] && strings.Contains(g, "NaN") {
						continue
					}
					if norm == 4 && log && rd.logoLog && math.IsNaN(exp[ch][j]) {
						continue
					}
					msg = fmt.Sprintf("character %q site %d column %q: %s printed, definition %v (reading %+v)", ch, j, colOf(a.Rows, j), g, exp[ch][j], rd)
					break chars
				}
			}
			if msg == "" {
				return
			}
			if firstMsg == "" {
				firstMsg = msg
			}
		}
		x.fail("compute-pssm:wrong-value:"+normNames[norm], "normalization %d log=%v pseudo counts=%v %s rows=%q: %s", norm, log, pc, a.Kind, a.Rows, firstMsg)
	}
}

// ---------------------------------------------------------------------------- diff --counts

func genCliDiff(x *cliCtx, round int) func() {
	x.genAlns(genOpt{upper: true, noSpecial: true}, false)
	al := x.k.Als[0]
	a := al.A
	x.flag("--counts")
	noGaps := round%2 == 1
	if noGaps {
		x.flag("--no-gaps")
	}
	out := ""
	if round%3 == 2 {
		out = "diff.out"
		x.flag(x.r.PickStr([]string{"-o", "--output"}), out)
	}
	return func() {
		if !x.expectOK() {
			return
		}
		text := x.stdout
		if out != "" {
			b, err := os.ReadFile(filepath.Join(x.dir, out))
			if err != nil {
				x.fail("diff-counts:no-output-file", "-o %s: %v", out, err)
				return
			}
			text = string(b)
		}
		lines := strings.Split(strings.TrimSuffix(text, "\n"), "\n")
		hd := strings.Split(lines[0], "\t")
		all, per := refDiffs(a.Rows)
		if noGaps {
			for k := range all {
				if strings.Contains(k, "-") {
					delete(all, k)
				}
			}
		}
		seen := map[string]bool{}
		for _, d := range hd[1:] {
			if !all[d] || seen[d] {
				x.fail("diff-counts:wrong-set", "header %q: the differences with the first row are %v (no gaps=%v); rows=%q", hd, all, noGaps, a.Rows)
				return
			}
			seen[d] = true
		}
		if hd[0] != "" || len(seen) != len(all) {
			x.fail("diff-counts:wrong-set", "header %q: the differences with the first row are %v (no gaps=%v); rows=%q", hd, all, noGaps, a.Rows)
			return
		}
		if len(lines) != al.n() {
			x.fail("diff-counts:table-shape", "%d lines for %d sequences (header + one per sequence other than the first)\n%s", len(lines), al.n(), head(text, 600))
			return
		}
		for i := 1; i < al.n(); i++ {
			f := strings.Split(lines[i], "\t")
			if len(f) != len(hd) || f[0] != al.Names[i] {
				x.fail("diff-counts:table-shape", "line %d should be %q with %d counts, got %q", i, al.Names[i], len(hd)-1, f)
				return
			}
			for ci, d := range hd[1:] {
				if v, ok := atoiOK(f[ci+1]); !ok || v != per[i-1][d] {
					x.fail("diff-counts:wrong-counts", "sequence %s %q against the first row %q: %s printed for %s, counted %d", al.Names[i], a.Rows[i], a.Rows[0], f[ci+1], d, per[i-1][d])
					return
				}
			}
		}
	}
}

// ---------------------------------------------------------------------------- refused requests: an error, never a crash

func genCliRefused(x *cliCtx, round int) func() {
	r := x.r
	a := mkKind(false)
	a.Rows = []string{"ACGTACGTAC", "ACGTTCG-AC", "A-GTACGNAC"}
	x.k.Als = []cliAl{{A: a, Names: []string{"s0", "s1", "s2"}}}
	x.k.Format = "fasta"
	in := x.file("input.fasta", writeFasta(x.k.Als[0].Names, a.Rows, 0))
	x.in = in
	x.inArgs = []string{"-i", in}
	mustFail := true
	what := ""
	switch round % 16 {
	case 0:
		x.cmd, what = []string{"stats", "mutations"}, "neither --ref-sequence nor --unique"
	case 1:
		x.cmd, what = []string{"stats", "mutations", "list"}, "no --ref-sequence"
	case 2:
		x.cmd, what = [][]string{{"stats", "mutations"}, {"stats", "mutations", "list"}, {"stats"}}[(round/16)%3], "reference that is neither a sequence name nor a file"
		if len(x.cmd) == 1 {
			x.flag("--per-sequences")
		}
		x.flag("--ref-sequence", "nosuchsequence")
	case 3:
		x.cmd, what = []string{"compute", "pssm"}, "normalization that does not exist"
		x.flag("-n", strconv.Itoa(r.PickInt([]int{-1, 5, 99})))
	case 4:
		x.cmd = [][]string{{"stats", "maxchar"}, {"consensus"}, {"stats", "gaps"}, {"compute", "entropy"}, {"diff"}}[(round/16)%5]
		what = "unknown flag"
		x.flags = append(x.flags, r.PickStr([]string{"--ignore-gap", "--ignore-ns", "--from-begin", "--averages", "--count"}))
	case 5:
		x.cmd, what = [][]string{{"stats"}, {"stats", "char"}, {"consensus"}, {"compute", "pssm"}, {"stats", "nalign"}}[(round/16)%5], "input file that does not exist"
		x.inArgs = []string{"-i", "nosuchfile.fa"}
	case 6:
		x.cmd, what = [][]string{{"stats", "mutations"}, {"stats", "mutations", "list"}}[(round/16)%2], "reference of another length"
		x.flag("--ref-sequence", x.file("reference.fa", ">r\nACGTACGTACG\n"))
	case 7:
		x.cmd, what = [][]string{{"stats", "gaps"}, {"stats", "mutations"}}[(round/16)%2], "profile that does not exist"
		x.flag("--unique")
		x.flag("--count-profile", "nosuchprofile.txt")
	case 8:
		x.cmd, what = []string{"stats", "char"}, "--only with an empty string"
		if r.Bool() {
			x.flag(r.PickStr([]string{"--per-sites", "--per-sequences"}))
		}
		x.flag("--only", "")
		mustFail = false // nobody says; only a crash is wrong
	case 9:
		x.cmd, what = []string{"stats", "char"}, "--only with two characters"
		if r.Bool() {
			x.flag(r.PickStr([]string{"--per-sites", "--per-sequences"}))
		}
		x.flag("--only", "AC")
		mustFail = false
	case 10:
		x.cmd, what = [][]string{{"stats"}, {"stats", "maxchar"}, {"consensus"}, {"compute", "pssm"}}[(round/16)%4], "alphabet incompatible with the sequences"
		x.in = x.file("protein.fasta", ">p0\nMKVLEEQ\n>p1\nMKILEFQ\n")
		x.inArgs = []string{"-i", x.in, "--alphabet", "nt"}
	case 11:
		x.cmd, what = [][]string{{"stats"}, {"stats", "length"}, {"consensus"}}[(round/16)%3], "alphabet name that does not exist"
		x.inArgs = append(x.inArgs, "--alphabet", "dna")
	case 12:
		x.cmd, what = [][]string{{"stats"}, {"stats", "taxa"}, {"consensus"}, {"compute", "entropy"}, {"diff"}, {"stats", "nseq"}}[(round/16)%6], "empty input file"
		if x.cmd[0] == "diff" {
			x.flag("--counts")
		}
		x.inArgs = []string{"-i", x.file("empty.fa", "")}
	case 13:
		x.cmd, what = []string{"stats", "mutations", "list"}, "--aa on a protein alignment"
		x.in = x.file("protein.fasta", ">p0\nMKVLEEQ\n>p1\nMKILEFQ\n")
		x.inArgs = []string{"-i", x.in}
		x.flag("--ref-sequence", "p0")
		x.flag("--aa")
	case 14:
		x.cmd, what = [][]string{{"stats"}, {"stats", "char"}, {"consensus"}, {"compute", "pssm"}, {"compute", "entropy"}, {"diff"}}[(round/16)%6], "sequences of different lengths"
		if x.cmd[0] == "diff" {
			x.flag("--counts")
		}
		x.inArgs = []string{"-i", x.file("ragged.fa", ">a\nACGT\n>b\nACG\n")}
	default:
		x.cmd, what = [][]string{{"stats", "char"}, {"stats", "maxchar"}, {"consensus"}}[(round/16)%3], "wrong format option (fasta read as phylip)"
		x.inArgs = append(x.inArgs, "-p")
	}
	x.count("refused:" + strings.Join(x.cmd, "-"))
	return func() {
		x.tl["cli:refused:requests"]++
		if mustFail && x.exit == 0 {
			x.fail("refused:accepted", "exit status 0 for a request with %s", what)
			return
		}
		if mustFail && strings.TrimSpace(x.stderr) == "" && strings.TrimSpace(x.stdout) == "" {
			x.fail("refused:no-message", "exit status %d without any message for a request with %s", x.exit, what)
		}
	}
}

// ---------------------------------------------------------------------------- fixed command lines

type cliWitness struct {
	names, rows []string
	protein     bool
	cmd, flags  []string
	stdout      string // expected output
}

var cliWitnesses = []cliWitness{
	// documented examples
	{names: []string{"s1", "2", "3"}, rows: []string{"ACGACGACGACC", "ATCTT-TTTTTC", "ATCTT-TTTTTT"}, cmd: []string{"consensus"}, stdout: ">consensus\nATCTT-TTTTTC\n"},
	// --only with a character the alignment does not hold: a table of zeros in each of the three layouts
	{names: []string{"a", "b"}, rows: []string{"ACG-", "AC-T"}, cmd: []string{"stats", "char"}, flags: []string{"--only", "Y"}, stdout: "char\tnb\tfreq\nY\t0\t0.000000\n"},
	{names: []string{"a", "b"}, rows: []string{"ACG-", "AC-T"}, cmd: []string{"stats", "char"}, flags: []string{"--per-sequences", "--only", "Y"}, stdout: "seq\tY\na\t0\nb\t0\n"},
	{names: []string{"a", "b"}, rows: []string{"ACG-", "AC-T"}, cmd: []string{"stats", "char"}, flags: []string{"--per-sites", "--only", "Y"}, stdout: "site\tY\n0\t0\n1\t0\n2\t0\n3\t0\n"},
	// upstream's test.sh: unique gaps / mutations, lists
	{names: []string{"A", "B", "C"}, rows: []string{"ACGACGA-GACC", "AT-TT-T-TTTC", "ATCTT-TTT--T"}, cmd: []string{"stats", "gaps"}, flags: []string{"--unique"}, stdout: "A\t0\nB\t1\nC\t2\n"},
	{names: []string{"A", "B", "C"}, rows: []string{"ACGACGA-GACC", "AT-TT-T-TTTC", "ATCTT-TTT--T"}, cmd: []string{"stats", "mutations"}, flags: []string{"--unique"}, stdout: "A\t9\nB\t2\nC\t3\n"},
	{names: []string{"A", "B", "C"}, rows: []string{"ACGACGA-GACC", "AT-TT-T-TTTC", "ATCTT-TTT--T"}, cmd: []string{"stats", "gaps"}, flags: []string{"--openning"}, stdout: "A\t1\nB\t3\nC\t2\n"},
	{names: []string{"ref", "x"}, rows: []string{"--ACG--AA-C", "TTACGGTAACC"}, cmd: []string{"stats", "mutations", "list"}, flags: []string{"--ref-sequence", "ref"}, stdout: "x\t-0TT,-3GT,-5C\n"},
	{names: []string{"ref", "x"}, rows: []string{"ATGAAATTT", "ATGAGATTC"}, cmd: []string{"stats", "mutations", "list"}, flags: []string{"--ref-sequence", "ref", "--aa"}, stdout: "x\tK1R\n"},
	{names: []string{"a", "b", "c"}, rows: []string{"ACGT", "AC-A", "CCGT"}, cmd: []string{"diff"}, flags: []string{"--counts"}, stdout: "\tAC\tG-\tTA\nb\t0\t1\t1\nc\t1\t0\t0\n"},
	{names: []string{"a", "b", "c"}, rows: []string{"ACGT", "AC-A", "CCGT"}, cmd: []string{"diff"}, flags: []string{"--counts", "--no-gaps"}, stdout: "\tAC\tTA\nb\t0\t1\nc\t1\t0\n"},
	{names: []string{"a", "b"}, rows: []string{"A-", "C-"}, cmd: []string{"compute", "entropy"}, flags: []string{"-g"}, stdout: "Alignment\tSite\tEntropy\n0\t0\t0.693\n0\t1\tNaN\n"},
	{names: []string{"a", "b"}, rows: []string{"A-", "C-"}, cmd: []string{"compute", "entropy"}, flags: []string{"-g", "-a"}, stdout: "Alignment\tAvgEntropy\n0\t0.693\n"},
}

func genCliWitness(x *cliCtx, round int) func() {
	w := cliWitnesses[round%len(cliWitnesses)]
	a := mkKind(w.protein)
	a.Rows = w.rows
	x.k.Als = []cliAl{{A: a, Names: w.names}}
	x.k.Format = "fasta"
	x.cmd = w.cmd
	x.flags = w.flags
	x.in = x.file("input.fasta", writeFasta(w.names, w.rows, 0))
	x.inArgs = []string{"-i", x.in}
	x.k.Kind = "witness:" + strings.Join(w.cmd, "-")
	return func() {
		if x.exit != 0 || x.stdout != w.stdout {
			x.fail("witness:"+strings.Join(append(append([]string{}, w.cmd...), w.flags...), " "), "expected exit 0 and\n%s", w.stdout)
		}
	}
}
