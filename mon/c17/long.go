// long sub-check of C17: alignments of 120 000 - 250 000 sites in
// which a close pair shows a few substitutions, each of a different kind: every observed residue pair then
// carries a frequency below 1e-5, and the likelihood still has to count it. Same oracle as `matrix`.
package main

import (
	"fmt"
	"os"

	"verif/lib/gen"
	"verif/lib/mon"
)

func runLong(c *mon.Case) {
	r := c.R
	const aa = gen.AaCore
	byWeights := false // a dominating site weight makes the optimum itself numerically marginal (d ~ 1e-7 next to the lower bound 1e-8): not driven
	L := r.Range(120000, 250000)
	if byWeights {
		L = r.Range(200, 2000)
	}
	// composition: uniform, or dominated by a few residues (the mean substitution rate of the residues present then
	// differs from 1: the distance of a nearly identical pair is not its proportion of differences)
	comp := aa
	slow := false
	if r.Chance(0.7) {
		dom := ""
		for k := r.Range(2, 5); k > 0; k-- {
			dom += string(aa[r.Intn(20)])
		}
		if r.Bool() {
			dom, slow = "WCFYH"[:r.Range(2, 5)], true // residues that change slowly under every empirical matrix
		}
		comp = aa
		for k := 0; k < 12; k++ {
			comp += dom
		}
	}
	base := []byte(r.Str(L, comp))
	close1 := append([]byte{}, base...)
	// k substitutions of k different kinds (ordered residue pairs), far apart
	k := r.Range(15, 70)
	used := map[[2]byte]bool{}
	var where []int
	for len(where) < k {
		j := r.Intn(L)
		to := aa[r.Intn(20)]
		key := [2]byte{base[j], to}
		if to == base[j] || used[key] || close1[j] != base[j] {
			continue
		}
		used[key] = true
		close1[j] = to
		where = append(where, j)
	}
	far := []byte(mutate(r, string(base), 0.05+0.3*r.Float(), aa))
	rows := []string{string(base), string(close1), string(far)}
	model := r.Intn(len(modelNames))
	o := wo(model, r.Bool() || slow, false, 0, false, nil) // model frequencies with the slow composition: the mean rate of the data is not 1
	if byWeights {
		// one site weighs 10^6 - 10^7 times the others: the differing sites are each below 1e-5 of the total
		w := make([]float64, L)
		for j := range w {
			w[j] = 1
		}
		heavy := r.Intn(L)
		for close1[heavy] != base[heavy] {
			heavy = r.Intn(L)
		}
		w[heavy] = r.PickF([]float64{1e6, 3e6, 1e7}) * float64(k)
		o.Weights, o.WKind = w, "one-dominating-site"
	}
	c.Input(map[string]interface{}{"sites": L, "substitutions_of_distinct_kinds": k, "opts": fmt.Sprintf("model=%s modelfreqs=%v weights=%s", o.ModelName, o.ModelFreqs, o.WKind), "seed_of_rows": c.Idx})
	D, err := runCode(rows, o, nil)
	if err != nil {
		c.Failf("mldist:unexpected-error", "%v (%d sites)", err, L)
		return
	}
	oo := o
	if len(oo.Weights) > 50 {
		oo.Weights = oo.Weights[:50] // only for the text of a report
	}
	mo, _ := checkMatrix(c, rows, o, D, fmt.Sprintf("MLDist on %d sites, %d substitutions of distinct kinds between rows 0 and 1", L, k))
	c.Max("long:gain-over-the-whole-alignment-x1e6", int(mo.maxGain*float64(L)*1e6))
	if mo.classes != nil {
		if byWeights {
			c.Count("long:dominating-weight")
		} else {
			c.Count("long:sites>=120000")
		}
		c.NonTrivial("long", fmt.Sprint(L, k, model, c.Idx))
	}
	c.Note("D[0][1]=%v D[0][2]=%v", D[0][1], D[0][2])
	if os.Getenv("VERIF_DEBUG") != "" {
		fmt.Fprintf(os.Stderr, "DEBUG long: L=%d k=%d p=%.6g D01=%.6g ratio=%.4f maxGain=%.3g total-gain=%.3g model=%s freqs=%v\n", L, k, float64(k)/float64(L), D[0][1], D[0][1]/(float64(k)/float64(L)), mo.maxGain, mo.maxGain*float64(L), o.ModelName, o.ModelFreqs)
	}
}
