// C17 monitor: every entry of goalign's maximum likelihood protein distance matrices is
// checked against an independent evaluation of the pair likelihood (no grid, neighbouring
// or refined distance may be more likely), plus matrix sanity and the row / column
// permutation relations.
package main

import (
	"fmt"
	"math"
	"sort"
	"strings"

	"github.com/evolbioinfo/goalign/align"
	"github.com/evolbioinfo/goalign/distance/protein"

	"verif/lib/conc"
	"verif/lib/gen"
	"verif/lib/h"
	"verif/lib/mon"
)

const (
	distCap = 20.0  // saturation cap of the statement
	dMin    = 1e-8  // allowed range of distances (documented constants BL_MIN / BL_MAX)
	dMax    = 100.0 //
	lkTol   = 1e-6  // tolerance on the per-site log likelihood
	capTol  = 1e-4  // a capped entry must not be beaten by a distance below the cap by more than this
	permTol = 1e-5  // tolerance of the permutation relations (relative to max(1,d))
)

type opts struct {
	Model      int       `json:"model"`
	ModelName  string    `json:"model_name"`
	ModelFreqs bool      `json:"model_freqs"`
	Gamma      bool      `json:"gamma"`
	Alpha      float64   `json:"alpha"`
	RmGaps     bool      `json:"rm_gaps"`
	Weights    []float64 `json:"weights"`
	WKind      string    `json:"weights_kind"`
	ExtraInit  int       `json:"extra_init_calls,omitempty"`
}

func (o opts) String() string {
	s := fmt.Sprintf("model=%s modelfreqs=%v gamma=%v alpha=%v rmgaps=%v weights(%s)=%v", o.ModelName, o.ModelFreqs, o.Gamma, o.Alpha, o.RmGaps, o.WKind, o.Weights)
	if o.ExtraInit > 0 {
		s += fmt.Sprintf(" InitModel-calls=%d", 1+o.ExtraInit)
	}
	return s
}

func mkAlign(rows []string) align.Alignment {
	g := make(gen.Rows, len(rows))
	for i, s := range rows {
		g[i] = gen.Seq{Name: "s" + gen.Itoa(i), Seq: s}
	}
	return h.MkAlign(g, align.AMINOACIDS)
}

// runCode calls goalign the way the command line does: new model, InitModel, MLDist.
// warm: an unrelated alignment is sent through the same model object first.
func runCode(rows []string, o opts, warm []string) ([][]float64, error) {
	al := mkAlign(rows)
	m, err := protein.NewProtDistModel(o.Model, o.ModelFreqs, o.Gamma, o.Alpha, o.RmGaps)
	if err != nil {
		return nil, fmt.Errorf("NewProtDistModel: %v", err)
	}
	for k := 0; k < 1+o.ExtraInit; k++ { // ExtraInit: the same model is initialised again (witness of the InitModel defect)
		if o.ModelFreqs {
			err = m.InitModel(nil, nil)
		} else {
			err = m.InitModel(al, o.Weights)
		}
		if err != nil {
			return nil, fmt.Errorf("InitModel: %v", err)
		}
	}
	if warm != nil {
		if _, _, _, err = m.MLDist(mkAlign(warm), nil); err != nil {
			return nil, fmt.Errorf("MLDist(first alignment): %v", err)
		}
	}
	var given []float64
	if o.Weights != nil {
		given = append([]float64{}, o.Weights...)
	}
	_, _, d, err := m.MLDist(al, o.Weights)
	if err != nil {
		return nil, fmt.Errorf("MLDist: %v", err)
	}
	for i := range given {
		if math.Float64bits(given[i]) != math.Float64bits(o.Weights[i]) {
			// the caller's weights are an input: the next computation with the same slice means the same weights
			return nil, fmt.Errorf("WEIGHTS-MODIFIED: the weight of site %d given by the caller was %v, it is %v after the call", i, given[i], o.Weights[i])
		}
	}
	if d == nil {
		return nil, fmt.Errorf("MLDist: nil matrix without error")
	}
	nr, nc := d.Dims()
	out := make([][]float64, nr)
	for i := range out {
		out[i] = make([]float64, nc)
		for j := range out[i] {
			out[i][j] = d.At(i, j)
		}
	}
	return out, nil
}

// reading = one admissible interpretation of the corners the statement leaves open.
type reading struct {
	RmStrict   bool // rm-gaps drops the columns holding any character that is not an amino acid (else: '-' only)
	Spread     bool // empirical frequencies: unknown characters are spread over the 20 amino acids (else ignored)
	PseudoZero bool // pseudo counts only when an amino acid has a null count (else: when a count is below 1/20)
}

func selection(rows []string, o opts, rd reading) []bool {
	if !o.RmGaps {
		return nil
	}
	L := len(rows[0])
	sel := make([]bool, L)
	for c := 0; c < L; c++ {
		sel[c] = true
		for _, r := range rows {
			if r[c] == '-' || (rd.RmStrict && !isAA(r[c])) {
				sel[c] = false
			}
		}
	}
	return sel
}

func refPi(rows []string, o opts, rd reading, sel []bool) []float64 {
	if o.ModelFreqs {
		_, pi := tables(o.Model)
		return pi
	}
	pi := empiricalPi(rows, sel, o.Weights, rd.Spread)
	if rd.PseudoZero {
		pi = empiricalPiZeroOnly(rows, sel, o.Weights, rd.Spread)
	}
	return pi
}

// empiricalPiZeroOnly: same counts, pseudo counts only when some count is exactly null.
func empiricalPiZeroOnly(rows []string, sel []bool, w []float64, spread bool) []float64 {
	num := make([]float64, 20)
	for _, r := range rows {
		for c := 0; c < len(r); c++ {
			if sel != nil && !sel[c] {
				continue
			}
			x := 1.0
			if w != nil {
				x = w[c]
			}
			if i := aaIndex[r[c]]; i >= 0 {
				num[i] += x
			} else if spread {
				for k := range num {
					num[k] += x / 20
				}
			}
		}
	}
	zero := false
	for _, v := range num {
		if v == 0 {
			zero = true
		}
	}
	sum := 0.0
	for k := range num {
		if zero {
			num[k]++
		}
		sum += num[k]
	}
	for k := range num {
		num[k] /= sum
	}
	return num
}

// countAtThreshold: the weights are not multiples of 1/4 and, under some reading, the weighted count of an amino
// acid is within 1e-9 of the pseudo count threshold 1/20 (rounding of the sums is below 1e-13 for the sizes
// generated here).
func countAtThreshold(rows []string, o opts) bool {
	quarters := true // unit, integer and k/4 weights: the sums that can reach 1/20 are exact or of two terms, no order
	for _, w := range o.Weights {
		quarters = quarters && w*4 == math.Floor(w*4)
	}
	if quarters {
		return false
	}
	for _, rs := range []bool{true, false} {
		sel := selection(rows, o, reading{RmStrict: rs})
		for _, spread := range []bool{true, false} {
			num := make([]float64, 20)
			for _, r := range rows {
				for c := 0; c < len(r); c++ {
					if sel != nil && !sel[c] {
						continue
					}
					x := 1.0
					if o.Weights != nil {
						x = o.Weights[c]
					}
					if i := aaIndex[r[c]]; i >= 0 {
						num[i] += x
					} else if spread {
						for k := range num {
							num[k] += x / 20
						}
					}
				}
			}
			for _, v := range num {
				if math.Abs(v-1.0/20) <= 1e-9 {
					return true
				}
			}
		}
	}
	return false
}

// rdOf: the reading under which checkMatrix explained the matrix.
func rdOf(rows []string, o opts, mo matrixObs) reading {
	rds := readingsFor(rows, o)
	if mo.reading < len(rds) {
		return rds[mo.reading]
	}
	return rds[0]
}

// readingsFor lists the readings that can differ for this input (deduplicated by their effect).
func readingsFor(rows []string, o opts) []reading {
	var out []reading
	seen := map[string]bool{}
	for _, rs := range []bool{true, false} {
		for _, sp := range []bool{true, false} {
			for _, pz := range []bool{false, true} {
				rd := reading{rs, sp, pz}
				sel := selection(rows, o, rd)
				key := fmt.Sprint(sel)
				if !o.ModelFreqs {
					key += fmt.Sprint(refPi(rows, o, rd, sel))
				}
				if !seen[key] {
					seen[key] = true
					out = append(out, rd)
				}
			}
		}
	}
	return out
}

// hasDiff: some column (among sel, nil = all) where both rows hold an amino acid and differ.
func hasDiff(a, b string, sel []bool) bool {
	for c := 0; c < len(a); c++ {
		if sel != nil && !sel[c] {
			continue
		}
		if isAA(a[c]) && isAA(b[c]) && a[c] != b[c] {
			return true
		}
	}
	return false
}

type pairObs struct {
	class string
	gain  float64 // best likelihood found by the oracle minus likelihood at the reported distance
	dRef  float64
	modes int // local maxima of the pair likelihood on the grid
}

// checkPair decides one entry under one reading. Returns "" or (sig, message).
func checkPair(rm *refModel, a, b string, sel []bool, w []float64, got float64) (obs pairObs, sig, msg string) {
	if !hasDiff(a, b, nil) {
		obs.class = "identical"
		if got != 0 {
			return obs, "nodiff-nonzero", fmt.Sprintf("rows have no unambiguous difference but the distance is %v", got)
		}
		return obs, "", ""
	}
	F := buildF(a, b, sel, w)
	if F.total <= 0 {
		// the rows differ somewhere, but no selected column with positive weight is comparable: every distance
		// has the same likelihood, any value of [0,20] is accepted
		obs.class = "no-comparable-site"
		if !(got >= 0 && got <= distCap) {
			return obs, "no-comparable-site:out-of-range", fmt.Sprintf("no comparable selected site; distance %v is outside [0,20]", got)
		}
		return obs, "", ""
	}
	if !(got >= 0 && got <= distCap) {
		obs.class = "out-of-range"
		return obs, "out-of-range", fmt.Sprintf("distance %v is outside [0,20]", got)
	}
	prof := rm.profile(&F)
	dRef, lRef := rm.best(&F, prof)
	obs.dRef = dRef
	pk := peaks(prof, lkTol)
	for _, k := range pk {
		if distGrid[k] >= 1e-4 { // below, the few-ulp noise of P_ij ~ d^2 (null exchangeabilities) makes spurious ripples
			obs.modes++
		}
	}
	modes := func() string {
		var sb strings.Builder
		for _, k := range pk {
			fmt.Fprintf(&sb, " d=%.4g:lnL=%.10g", distGrid[k], prof[k])
		}
		return sb.String()
	}
	x := got
	if x < dMin {
		x = dMin
	}
	lGot := rm.lnL(&F, x)
	if got >= distCap {
		// the cap stands for "20 or more": compare with the most likely distance of [20,100]
		obs.class = "capped"
		dCap, lCap := x, lGot
		for i, g := range distGrid {
			if g >= distCap && prof[i] > lCap {
				dCap, lCap = g, prof[i]
			}
		}
		obs.gain = lRef - lCap
		if dRef < distCap && lRef-lCap > capTol {
			// the cap is a local maximiser when some local maximum of the likelihood lies in [20,100]
			// (the upper end of the range included); a distance below the cap is then simply a higher mode
			sig := "capped-not-saturated"
			for _, k := range pk {
				// a grid maximum at k stands for a local maximum somewhere between the grid points k-1 and k+1
				if k+1 >= len(distGrid) || distGrid[k+1] >= distCap {
					sig = "capped-local-maximum"
				}
			}
			return obs, sig, fmt.Sprintf("reported at the cap %v but lnL(%.6g)=%.12g exceeds the best of [20,100], lnL(%.6g)=%.12g, by %.3g; comparable weight %v, differing fraction %.6g; local maxima of the likelihood:%s", got, dRef, lRef, dCap, lCap, lRef-lCap, F.total, F.offDia, modes())
		}
		return obs, "", ""
	}
	obs.class = "optimised"
	if F.offDia == 0 {
		obs.class = "diag-only"
	}
	// neighbours of the reported distance
	bestD, bestL := dRef, lRef
	nearBetter := false
	for _, e := range []float64{1e-4, 1e-3, 1e-2, 0.1} {
		for _, s := range []float64{-1, 1} {
			y := x * (1 + s*e)
			if y < dMin || y > dMax {
				continue
			}
			l := rm.lnL(&F, y)
			if l > lGot+lkTol {
				nearBetter = true
			}
			if l > bestL {
				bestD, bestL = y, l
			}
		}
	}
	obs.gain = bestL - lGot
	// very long alignments: the per-site tolerance would accept a distance 5-10 % off when the pair is nearly
	// identical (the per-site likelihood is flat there); the gain is then also judged on the whole alignment
	// (0.005 units of total log likelihood; measured on the unchanged code: below 1e-6 on 250 000 sites)
	longGain := F.total >= 50000 && (bestL-lGot)*F.total > 0.005
	if bestL-lGot > lkTol || longGain {
		sig := "not-maximiser"
		if (!nearBetter && localMax(prof, x, lGot, lkTol)) || rm.strictLocalMax(&F, x, lGot, bestD) {
			sig = "local-maximum" // a maximiser among its neighbours, but another mode of the likelihood is higher
		}
		return obs, sig, fmt.Sprintf("reported %.12g has lnL %.12g but distance %.12g has lnL %.12g (gain %.3g per site, tolerance %g; %.3g over the whole alignment); comparable weight %v, differing fraction %.6g; local maxima of the likelihood:%s", got, lGot, bestD, bestL, bestL-lGot, lkTol, (bestL-lGot)*F.total, F.total, F.offDia, modes())
	}
	return obs, "", ""
}

// strictLocalMax: the second way to recognise the recorded finding "Brent ends in a local maximum that is not the
// highest one". localMax works at the tolerance lkTol on the grid and does not see a mode whose prominence is
// below 1e-6 (thorough, seed 5: a bump 5.8e-7 high at 3.68 next to the maximum at 2.32; the neighbour 10 % away,
// on the other side of the dip, was better by 2.2e-6 and the entry was labelled not-maximiser). Here the reported
// distance must be a maximiser among its close neighbours (0.1 % and 1 % away; 1e-8 covers the 1e-7 relative
// precision of a reported distance) AND a dip deeper than 1e-8 must lie between it and the better distance.
func (m *refModel) strictLocalMax(F *pairF, x, lx, better float64) bool {
	const micro = 1e-8
	for _, e := range []float64{1e-3, 1e-2} {
		for _, s := range []float64{-1, 1} {
			y := x * (1 + s*e)
			if y < dMin || y > dMax {
				continue
			}
			if m.lnL(F, y) > lx+micro {
				return false
			}
		}
	}
	lo, hi := math.Min(x, better), math.Max(x, better)
	for k := 1; k < 200; k++ {
		if m.lnL(F, lo+(hi-lo)*float64(k)/200) < lx-micro {
			return true
		}
	}
	return false
}

// knownExplains: an entry that changed with the order of the rows or columns is examined like any entry, under the
// reading that explained the first matrix: when it is a local maximum below the highest one (the recorded finding:
// which maximum Brent reaches can depend on rounding, hence on the order), that is what is reported.
func knownExplains(rows []string, o opts, rd reading, i, j int, got float64) (string, string) {
	sel := selection(rows, o, rd)
	S, _ := tables(o.Model)
	rm := newRefModel(S, refPi(rows, o, rd, sel), o.Gamma, o.Alpha)
	_, sig, msg := checkPair(rm, rows[i], rows[j], sel, o.Weights, got)
	if knownClass[sig] {
		return sig, msg
	}
	return "", ""
}

type matrixObs struct {
	classes map[string]int
	maxGain float64
	reading int
	nread   int
}

// checkMatrix runs every check of the statement on one reported matrix.
func checkMatrix(c *mon.Case, rows []string, o opts, D [][]float64, tag string) (mo matrixObs, ok bool) {
	n := len(rows)
	fail := func(sig, format string, a ...interface{}) {
		c.Failf("mldist:"+sig, "%s %s\nrows=%q\n%s", tag, o, rows, fmt.Sprintf(format, a...))
	}
	if len(D) != n {
		fail("shape", "matrix has %d rows for %d sequences", len(D), n)
		return
	}
	for i := 0; i < n; i++ {
		if len(D[i]) != n {
			fail("shape", "row %d has %d entries for %d sequences", i, len(D[i]), n)
			return
		}
	}
	for i := 0; i < n; i++ {
		if D[i][i] != 0 {
			fail("diagonal", "entry (%d,%d) = %v", i, i, D[i][i])
			return
		}
		for j := 0; j < n; j++ {
			if math.Float64bits(D[i][j]) != math.Float64bits(D[j][i]) {
				fail("asymmetric", "entry (%d,%d)=%v but (%d,%d)=%v", i, j, D[i][j], j, i, D[j][i])
				return
			}
		}
	}
	// One reading must explain the whole matrix. Every pair is examined; a failure of a recorded
	// class (knownClass) never hides another kind of failure of the same matrix.
	rds := readingsFor(rows, o)
	type outcome struct {
		obs      matrixObs
		sig, msg string
		level    int // 0 clean, 1 failures of a recorded class only, 2 other failures
	}
	var bestOut *outcome
	for ri, rd := range rds {
		sel := selection(rows, o, rd)
		S, _ := tables(o.Model)
		rm := newRefModel(S, refPi(rows, o, rd, sel), o.Gamma, o.Alpha)
		cur := outcome{obs: matrixObs{classes: map[string]int{}, reading: ri, nread: len(rds)}}
		for i := 0; i < n; i++ {
			for j := i + 1; j < n; j++ {
				obs, sig, m := checkPair(rm, rows[i], rows[j], sel, o.Weights, D[i][j])
				if sig != "" {
					lvl := 2
					if knownClass[sig] {
						lvl = 1
					}
					if lvl > cur.level {
						cur.level, cur.sig = lvl, sig
						cur.msg = fmt.Sprintf("pair (%d,%d): %s (reading %+v)", i, j, m, rd)
					}
				}
				cur.obs.classes[obs.class]++
				if obs.class == "optimised" && sig == "" {
					dec := -16
					if obs.gain > 0 {
						dec = int(math.Floor(math.Log10(obs.gain)))
					}
					if dec < -16 {
						dec = -16
					}
					cur.obs.classes[fmt.Sprintf("gain-of-oracle-over-reported:1e%d", dec)]++
				}
				if obs.modes > 1 {
					cur.obs.classes["multimodal-likelihood"]++
				}
				if sig == "" && obs.gain > cur.obs.maxGain && (obs.class == "optimised" || obs.class == "diag-only") {
					cur.obs.maxGain = obs.gain
				}
			}
		}
		if bestOut == nil || cur.level < bestOut.level {
			keep := cur
			bestOut = &keep
		}
		if cur.level == 0 {
			break
		}
	}
	if bestOut.level > 0 {
		fail(bestOut.sig, "%s", bestOut.msg)
	}
	return bestOut.obs, bestOut.level == 0
}

// failure classes recorded as known findings (see /tmp/findings/C17.md): they are reported, but only
// when the matrix shows no other kind of failure.
var knownClass = map[string]bool{"no-comparable-site:out-of-range": true, "local-maximum": true, "capped-local-maximum": true}

// ---------------------------------------------------------------- generators

var comps = []string{
	aaOrder, aaOrder, aaOrder,
	"AAAALLLLGGGKKEEVVSST",                      // few frequent residues
	"ARNDCQEGHILKMFPSTWYVLLLLAAAAGGGSSSEEEKKKV", // realistic skew
	"WCMHYF", // rare residues only
	"DE", "ILV", "AG",
}

func mutate(r *gen.Rand, s string, rate float64, comp string) string {
	b := []byte(s)
	for i := range b {
		if rate > 0 && r.Chance(rate) {
			alpha := aaOrder
			if r.Chance(0.5) {
				alpha = comp
			}
			c := alpha[r.Intn(len(alpha))]
			for k := 0; k < 8 && c == b[i]; k++ {
				c = aaOrder[r.Intn(20)]
			}
			b[i] = c
		}
	}
	return string(b)
}

func decorate(r *gen.Rand, s string, kind int) string {
	b := []byte(s)
	L := len(b)
	if L == 0 {
		return s
	}
	run := func(start, n int, ch byte) {
		for i := 0; i < n && start+i < L; i++ {
			b[start+i] = ch
		}
	}
	if kind&1 != 0 { // gap runs
		if r.Chance(0.4) {
			run(0, r.Range(1, 1+L/4), '-')
		}
		if r.Chance(0.4) {
			n := r.Range(1, 1+L/4)
			run(L-n, n, '-')
		}
		if r.Chance(0.5) {
			run(r.Intn(L), r.Range(1, 1+L/6), '-')
		}
	}
	if kind&2 != 0 { // X, stop codons, points
		for i := range b {
			if r.Chance(0.04) {
				b[i] = 'X'
			} else if r.Chance(0.015) {
				b[i] = '*'
			} else if r.Chance(0.008) {
				b[i] = '.'
			}
		}
		if r.Chance(0.3) {
			b[L-1] = '*'
		}
	}
	return string(b)
}

var rates = []float64{0, 0.01, 0.05, 0.15, 0.3, 0.5, 0.7, 0.85, 1.0}
var rateClass = []string{"identical", "very-close", "close", "medium", "medium-far", "far", "near-saturation", "saturated", "all-different"}
var lengths = []int{1, 2, 3, 4, 5, 6, 8, 10, 12, 16, 20, 30, 40, 50, 60, 80, 100, 120, 150, 200}

func genRows(r *gen.Rand) (rows []string, class string) {
	n := r.Range(2, 6)
	L := r.PickInt(lengths)
	comp := comps[r.Intn(len(comps))]
	base := r.Str(L, comp)
	rows = make([]string, n)
	rows[0] = base
	k := r.Intn(len(rates))
	class = rateClass[k]
	for i := 1; i < n; i++ {
		rate := rates[k]
		if r.Chance(0.35) {
			rate = rates[r.Intn(len(rates))]
		}
		src := base
		if r.Chance(0.4) {
			src = rows[r.Intn(i)]
		}
		rows[i] = mutate(r, src, rate, comp)
	}
	kind := r.PickInt([]int{0, 0, 1, 1, 2, 3, 3})
	if kind != 0 {
		for i := range rows {
			if r.Chance(0.65) {
				rows[i] = decorate(r, rows[i], kind)
			}
		}
		class += []string{"", "+gaps", "+x*", "+gaps+x*"}[kind]
	}
	switch r.Intn(25) {
	case 0: // a pair without any comparable column
		a, b := []byte(rows[0]), []byte(rows[1])
		for j := 0; j < L; j++ {
			if j%2 == 0 {
				a[j] = "-X*"[r.Intn(3)]
			} else {
				b[j] = "-X*"[r.Intn(3)]
			}
		}
		rows[0], rows[1] = string(a), string(b)
		class += "+no-comparable-column"
	case 1: // every column holds a gap somewhere: nothing is left under rm-gaps
		for j := 0; j < L; j++ {
			i := r.Intn(n)
			b := []byte(rows[i])
			b[j] = '-'
			rows[i] = string(b)
		}
		class += "+gap-in-every-column"
	case 2: // two rows that differ only where a third one has a gap
		if n >= 3 && L >= 2 {
			j := r.Intn(L)
			a, b, g := []byte(rows[0]), []byte(rows[0]), []byte(rows[2])
			b[j] = aaOrder[(aaIndex[a[j]]+1+r.Intn(19)+20)%20]
			if !isAA(a[j]) {
				a[j], b[j] = 'A', 'C'
			}
			g[j] = '-'
			rows[0], rows[1], rows[2] = string(a), string(b), string(g)
			class += "+difference-under-a-gap"
		}
	case 3: // rows differing only by ambiguous characters
		b := []byte(rows[0])
		for j := range b {
			if r.Chance(0.2) {
				b[j] = "-X*."[r.Intn(4)]
			}
		}
		rows[1] = string(b)
		class += "+ambiguous-difference-only"
	}
	return
}

var alphas = []float64{0.3, 0.5, 1, 2, 4}

func genOpts(r *gen.Rand, L int) opts {
	o := opts{Model: r.Intn(7)}
	o.ModelName = modelNames[o.Model]
	o.ModelFreqs = r.Chance(0.55)
	if r.Chance(0.45) {
		o.Gamma = true
		o.Alpha = r.PickF(alphas)
		if r.Chance(0.2) {
			o.Alpha = 0.2 + 4.8*r.Float()
		}
		if r.Chance(0.1) {
			o.Alpha = r.PickF([]float64{100, 250, 1000}) // nearly homogeneous rates: still the gamma model that was asked for
		}
	}
	o.RmGaps = r.Chance(0.35)
	o.WKind = "nil"
	switch r.Intn(8) {
	case 0:
		o.WKind = "unit"
		o.Weights = make([]float64, L)
		for i := range o.Weights {
			o.Weights[i] = 1
		}
	case 1, 2:
		o.WKind = "fractional"
		o.Weights = make([]float64, L)
		for i := range o.Weights {
			o.Weights[i] = float64(r.Range(1, 12)) / 4
		}
	case 5:
		// the same relative weights on another scale (normalised to sum to 1, or tiny): the likelihood of a pair is
		// normalised by its total weight, the scale changes nothing
		o.WKind = "fractional-tiny-scale"
		o.Weights = make([]float64, L)
		tot := 0.0
		for i := range o.Weights {
			o.Weights[i] = float64(r.Range(1, 12)) / 4
			tot += o.Weights[i]
		}
		f := r.PickF([]float64{1 / tot, 1e-9, 1e-6 / tot})
		for i := range o.Weights {
			o.Weights[i] *= f
		}
	case 3, 4:
		o.WKind = "bootstrap-counts" // multinomial like integer weights, zeros included
		o.Weights = make([]float64, L)
		for k := 0; k < L; k++ {
			o.Weights[r.Intn(L)]++
		}
	}
	return o
}

func permuteCols(rows []string, w []float64, p []int) ([]string, []float64) {
	out := make([]string, len(rows))
	for i, s := range rows {
		b := make([]byte, len(s))
		for c := range b {
			b[c] = s[p[c]]
		}
		out[i] = string(b)
	}
	var w2 []float64
	if w != nil {
		w2 = make([]float64, len(w))
		for c := range w2 {
			w2[c] = w[p[c]]
		}
	}
	return out, w2
}

func inRange(v float64) bool { return v >= 0 && v <= distCap }

// sameDist: equality of two reports of the same pair up to the numerical tolerance.
func sameDist(a, b float64) bool {
	return math.Abs(a-b) <= permTol*math.Max(1, math.Max(math.Abs(a), math.Abs(b)))
}

func countCommon(c *mon.Case, o opts) {
	c.Count("model:" + o.ModelName)
	if o.ModelFreqs {
		c.Count("freqs:model")
	} else {
		c.Count("freqs:empirical")
	}
	if o.Gamma {
		c.Count("gamma")
		c.Count(fmt.Sprintf("gamma:alpha=%.3g", math.Round(o.Alpha*2)/2))
	} else {
		c.Count("nogamma")
	}
	if o.RmGaps {
		c.Count("rmgaps")
	}
	c.Count("weights:" + o.WKind)
}

func runMatrix(c *mon.Case) {
	r := c.R
	rows, class := genRows(r)
	L := len(rows[0])
	n := len(rows)
	o := genOpts(r, L)
	var warm []string
	if r.Chance(0.2) {
		warm, _ = genRows(r)
		if len(warm) > 3 {
			warm = warm[:3]
		}
	}
	c.Input(map[string]interface{}{"rows": rows, "opts": o, "class": class, "first_alignment_on_same_model": warm})
	D, err := runCode(rows, o, warm)
	if err != nil {
		c.Failf("mldist:unexpected-error", "%v\n%s rows=%q", err, o, rows)
		return
	}
	countCommon(c, o)
	c.Count("class:" + class)
	if warm != nil {
		c.Count("model-object-reused")
	}
	mo, ok := checkMatrix(c, rows, o, D, "MLDist")
	if mo.classes == nil {
		return
	}
	keys := make([]string, 0, len(mo.classes))
	for k := range mo.classes {
		keys = append(keys, k)
	}
	sort.Strings(keys)
	for _, k := range keys {
		c.Add("pair:"+k, mo.classes[k])
	}
	c.Add("pairs", n*(n-1)/2)
	c.Max("oracle-gain-over-reported-x1e12", int(mo.maxGain*1e12))
	if mo.nread > 1 {
		c.Count(fmt.Sprintf("open-corner:readings=%d:matched=%d", mo.nread, mo.reading))
	}
	if mo.classes["optimised"] > 0 {
		c.NonTrivial(strings.Join(rows, "/"), o.String())
	}
	c.Note("class=%s pairs=%v D[0][1]=%v", class, mo.classes, D[0][1])
	if !ok {
		return
	}

	allIn := true
	for i := range D {
		for j := range D[i] {
			if !inRange(D[i][j]) {
				allIn = false
			}
		}
	}
	// Empirical frequencies get a pseudo count when the count of an amino acid is below 1/20. A count that equals
	// 1/20 in exact arithmetic (weights k/87 and an unknown residue spread over the 20 amino acids are enough) is
	// below or not below the threshold by the rounding of a floating point sum, that is by the order of the rows
	// and columns. At such a tie both decisions are the documented rule; the two orders are not compared.
	tie := !o.ModelFreqs && countAtThreshold(rows, o)
	if tie {
		c.Count("perm:not-compared:count-at-the-pseudo-count-threshold")
	}
	// reordering the sequences permutes the matrix
	if n >= 2 && !tie && r.Chance(0.6) {
		p := r.Perm(n)
		rows2 := make([]string, n)
		for i := range rows2 {
			rows2[i] = rows[p[i]]
		}
		D2, err := runCode(rows2, o, nil)
		if err != nil {
			c.Failf("perm-rows:unexpected-error", "%v\n%s rows=%q", err, o, rows2)
			return
		}
		c.Count("perm:rows")
		for i := 0; i < n && allIn; i++ {
			for j := 0; j < n; j++ {
				if inRange(D2[i][j]) && !sameDist(D2[i][j], D[p[i]][p[j]]) {
					if sig, m := knownExplains(rows2, o, rdOf(rows, o, mo), i, j, D2[i][j]); sig != "" {
						c.Failf("mldist:"+sig, "after reordering the rows by %v: pair (%d,%d): %s\n%s\nrows=%q", p, i, j, m, o, rows2)
						return
					}
					c.Failf("perm-rows:different", "rows reordered by %v: entry (%d,%d)=%.12g, was (%d,%d)=%.12g\n%s\nrows=%q", p, i, j, D2[i][j], p[i], p[j], D[p[i]][p[j]], o, rows)
					return
				}
			}
		}
	}
	// reordering the columns (with their weights) leaves the matrix unchanged
	if L >= 2 && !tie && r.Chance(0.6) {
		p := r.Perm(L)
		o2 := o
		var rows2 []string
		rows2, o2.Weights = permuteCols(rows, o.Weights, p)
		D2, err := runCode(rows2, o2, nil)
		if err != nil {
			c.Failf("perm-cols:unexpected-error", "%v\n%s rows=%q", err, o2, rows2)
			return
		}
		c.Count("perm:cols")
		for i := 0; i < n && allIn; i++ {
			for j := 0; j < n; j++ {
				if inRange(D2[i][j]) && !sameDist(D2[i][j], D[i][j]) {
					if sig, m := knownExplains(rows2, o2, rdOf(rows, o, mo), i, j, D2[i][j]); sig != "" {
						c.Failf("mldist:"+sig, "after reordering the columns by %v: pair (%d,%d): %s\n%s\nrows=%q", p, i, j, m, o2, rows2)
						return
					}
					c.Failf("perm-cols:different", "columns reordered by %v: entry (%d,%d)=%.12g, was %.12g\n%s\nrows=%q", p, i, j, D2[i][j], D[i][j], o, rows)
					return
				}
			}
		}
	}
}

// runReinit: one model object serves two alignments in turn, initialised for each of them (what the
// empirical frequencies require when a file holds several alignments). The second matrix must satisfy
// the same checks as the matrix of a fresh model.
func runReinit(c *mon.Case) {
	r := c.R
	rowsA, _ := genRows(r)
	rowsB, class := genRows(r)
	o := genOpts(r, len(rowsB[0]))
	oA := o
	oA.Weights, oA.WKind = nil, "nil"
	between := r.Bool()
	c.Input(map[string]interface{}{"first_alignment": rowsA, "rows": rowsB, "opts": o, "class": class, "distances_computed_on_first": between})
	alA, alB := mkAlign(rowsA), mkAlign(rowsB)
	m, err := protein.NewProtDistModel(o.Model, o.ModelFreqs, o.Gamma, o.Alpha, o.RmGaps)
	if err != nil {
		c.Failf("mldist:unexpected-error", "NewProtDistModel: %v", err)
		return
	}
	if err = m.InitModel(alA, nil); err != nil {
		c.Failf("mldist:unexpected-error", "InitModel(first alignment): %v", err)
		return
	}
	if between {
		if _, _, _, err = m.MLDist(alA, nil); err != nil {
			c.Failf("mldist:unexpected-error", "MLDist(first alignment): %v", err)
			return
		}
	}
	if err = m.InitModel(alB, o.Weights); err != nil {
		c.Failf("mldist:unexpected-error", "InitModel(second alignment): %v", err)
		return
	}
	_, _, d, err := m.MLDist(alB, o.Weights)
	if err != nil || d == nil {
		c.Failf("mldist:unexpected-error", "MLDist(second alignment): %v\n%s rows=%q", err, o, rowsB)
		return
	}
	n := len(rowsB)
	D := make([][]float64, n)
	for i := range D {
		D[i] = make([]float64, n)
		for j := range D[i] {
			D[i][j] = d.At(i, j)
		}
	}
	c.Count("reinit")
	if o.ModelFreqs {
		c.Count("reinit:model-frequencies")
	} else {
		c.Count("reinit:empirical-frequencies")
	}
	mobs, _ := checkMatrix(c, rowsB, o, D, fmt.Sprintf("model initialised a second time (first alignment %q)", rowsA))
	if mobs.classes["optimised"] > 0 {
		c.NonTrivial(strings.Join(rowsA, "/"), strings.Join(rowsB, "/"), o.String())
	}
	c.Note("class=%s pairs=%v", class, mobs.classes)
}

// ---------------------------------------------------------------- witnesses

type witness struct {
	what string
	rows []string
	o    opts
	perm []int // optional row reordering to compare with
}

func wo(model int, modelFreqs bool, gamma bool, alpha float64, rmgaps bool, w []float64) opts {
	k := "nil"
	if w != nil {
		k = "given"
	}
	return opts{Model: model, ModelName: modelNames[model], ModelFreqs: modelFreqs, Gamma: gamma, Alpha: alpha, RmGaps: rmgaps, Weights: w, WKind: k}
}

var witnesses = []witness{
	// DESIGN section 2 #26: a pair that differs somewhere but has no comparable selected site
	{"no comparable selected site (rm-gaps)", []string{"A-", "-C", "DE"}, wo(3, true, false, 0, true, nil), nil},
	{"no comparable selected site (null weights)", []string{"ACDE", "AKDE", "ACDE"}, wo(4, true, false, 0, false, []float64{0, 0, 0, 0}), nil},
	{"no comparable selected site (gap in every column)", []string{"-CDE", "A-DE", "AK-E", "ACD-"}, wo(1, true, true, 1, true, nil), nil},
	// empirical frequencies must not depend on the order of the rows
	{"empirical frequencies with an unknown residue in the last row", []string{"ARNDARNDLLKKAAGGSSTTVVEE", "ARNEARNDLIKKAAGASSTTVVEE", "ARNDAKNDLLKRAAGGSTTTVVE-"}, wo(3, false, false, 0, false, nil), []int{2, 0, 1}},
	{"empirical frequencies with an unknown residue in the first row", []string{"XRNDARNDLLKKAAGGSSTTVVEE", "ARNEARNDLIKKAAGASSTTVVEE", "ARNDAKNDLLKRAAGGSTTTVVEE"}, wo(4, false, true, 0.5, false, nil), []int{1, 2, 0}},
	// a likelihood with one single maximum (3.69) that the optimiser left for the flat tail: reported 20
	{"single interior maximum, start less likely than the tail", []string{"KGGLGTLKKVEAVKGS", "MELVHVETEVLAGKGV"}, wo(4, true, false, 0, false, nil), nil},
	{"single interior maximum, start less likely than the tail (weights)", []string{"AKEKIEHPTKVWQETY", "CGEMRIHPTWMDEVYW"}, wo(2, true, false, 0, false, []float64{3, 0, 2, 0, 3, 0, 0, 1, 2, 2, 0, 1, 1, 0, 0, 1}), nil},
	// the search stopped 0.5% away from the maximiser (two successive trial distances happened to be close)
	{"early stop of the search", []string{"GDGIMGGCAPVAAHRAGAAW", "GDGIMGGAAPDGANRAVAAW"}, wo(2, true, false, 0, false, []float64{1, 0, 0, 0, 2, 1, 1, 2, 3, 0, 1, 0, 2, 3, 0, 0, 2, 1, 0, 1}), nil},
	// known finding: likelihoods with several local maxima, the search returns one that is not the highest
	{"two local maxima (0.70 and 10.7), the lower one is reported", []string{"IIILLILIIVVLLIILLLLILVVVLVIVIILVLILLLIVI", "---------VVLLIILLLLILVVVLVIVIILVLIHLLIVI", "VEMKGLPLVISQIGHVKIKLPIAWVLGILVFINPIVSVHL", "IIILLILLIVVLYDILLLLIMVVVLVLLIIYVVEDLQIVV"}, wo(4, false, false, 0, false, nil), nil},
	{"local maximum at 7.3 and rising tail, the cap is reported", []string{"TYSVYHEELSLEIKAVKLGC", "RYSVYHEELSLEIKAVKLGC", "-YKGFLGGRSLIILAQKLGA", "ILWPVDRGLSLIGKAKSHWK", "NSRLYGPELTSGTKDEVGGE", "RYLKPYGNVHNGGNALWTGR"}, wo(0, true, false, 0, true, nil), nil},
	// the same model object initialised twice must still be the named model
	{"InitModel called twice on the same model", []string{"ARNDARNDLLKKAAGGSSTTVVEE", "ARNEARNDLIKKAAGASSTTVVEE", "ARNDAKNDLLKRAAGGSTTTVVEK"}, opts{Model: 3, ModelName: "lg", ModelFreqs: true, WKind: "nil", ExtraInit: 1}, nil},
	// boundaries
	{"identical rows", []string{"ACDEFGHIKL", "ACDEFGHIKL"}, wo(0, true, false, 0, false, nil), nil},
	{"all different (saturated)", []string{"AAAAAAAAAA", "WWWWWWWWWW"}, wo(1, true, false, 0, false, nil), nil},
	{"single column", []string{"A", "C", "A"}, wo(2, true, false, 0, false, nil), nil},
	{"difference only against ambiguous characters", []string{"ACDEFGHIKL", "AC-EFXHI*L", "ACDEFGHIKL"}, wo(5, true, true, 0.3, false, nil), nil},
	{"difference only in a column dropped by rm-gaps", []string{"ACDEFGHIKL", "ACDEFGHIKW", "ACDEFGHIK-"}, wo(6, true, false, 0, true, nil), nil},
	{"one difference in 200 columns", []string{strings.Repeat("ACDEFGHIKLMNPQRSTVWY", 10), "C" + strings.Repeat("ACDEFGHIKLMNPQRSTVWY", 10)[1:]}, wo(3, true, true, 4, false, nil), nil},
	{"exchange with a null exchangeability (Dayhoff R<->D)", []string{"RRRRAAAALLLL", "DDRRAAAALLLL"}, wo(0, true, false, 0, false, nil), nil},
	{"zero weight on the only difference", []string{"ACDEFGHIKL", "ACDEFGHIKW"}, wo(3, true, false, 0, false, []float64{1, 1, 1, 1, 1, 1, 1, 1, 1, 0}), nil},
	{"bootstrap weights", []string{"ACDEFGHIKLACDEFGHIKL", "ACDQFGHIRLACDEFGHLKL", "AADEFGHIKLACDEYGHIKL"}, wo(1, false, true, 1, false, []float64{2, 0, 1, 3, 0, 1, 1, 0, 2, 1, 0, 0, 1, 1, 4, 0, 1, 1, 0, 1}), nil},
}

func runWitness(c *mon.Case) {
	x := witnesses[c.Idx%len(witnesses)]
	c.Input(map[string]interface{}{"what": x.what, "rows": x.rows, "opts": x.o, "row_order": x.perm})
	D, err := runCode(x.rows, x.o, nil)
	if err != nil {
		c.Failf("mldist:unexpected-error", "%v\n%s rows=%q", err, x.o, x.rows)
		return
	}
	c.Count("witness")
	mobs, _ := checkMatrix(c, x.rows, x.o, D, "witness ("+x.what+")")
	c.Note("%s: D=%v classes=%v", x.what, D, mobs.classes)
	c.NonTrivial(strings.Join(x.rows, "/"), x.o.String())
	if x.perm != nil {
		n := len(x.rows)
		rows2 := make([]string, n)
		for i := range rows2 {
			rows2[i] = x.rows[x.perm[i]]
		}
		D2, err := runCode(rows2, x.o, nil)
		if err != nil {
			c.Failf("perm-rows:unexpected-error", "%v", err)
			return
		}
		for i := 0; i < n; i++ {
			for j := 0; j < n; j++ {
				if !sameDist(D2[i][j], D[x.perm[i]][x.perm[j]]) {
					c.Failf("perm-rows:different", "witness (%s): rows reordered by %v: entry (%d,%d)=%.12g, was (%d,%d)=%.12g\n%s\nrows=%q", x.what, x.perm, i, j, D2[i][j], x.perm[i], x.perm[j], D[x.perm[i]][x.perm[j]], x.o, x.rows)
					return
				}
			}
		}
	}
}

// ---------------------------------------------------------------- data tables

// Frequencies as distributed with PAML (dayhoff.dat, jones.dat, mtREV24.dat, lg.dat, wag.dat) and in the
// HIVb publication, typed from the literature; state order ARNDCQEGHILKMFPSTWYV. The AB model (Mirsky et al.
// 2015) has no literature pin here. s01, s02, s12: exchangeabilities R-A, N-A, N-R of the same files
// (WAG scaled by 100 as in FastME). fingerprint = sum and weighted sum of the exchangeability matrix of the
// pinned tree: a regression pin, not an independent value.
var tablePins = []struct {
	pi            []float64
	s01, s02, s12 float64
	sum, wsum     float64
}{
	{[]float64{0.087127, 0.040904, 0.040432, 0.046872, 0.033474, 0.038255, 0.04953, 0.088612, 0.033618, 0.036886, 0.085357, 0.080482, 0.014753, 0.039772, 0.05068, 0.069577, 0.058542, 0.010494, 0.029916, 0.064718}, 27, 98, 32, 38280, 4489702},
	{[]float64{0.076748, 0.051691, 0.042645, 0.051544, 0.019803, 0.040752, 0.06183, 0.073152, 0.022944, 0.053761, 0.091904, 0.058676, 0.023826, 0.040126, 0.050901, 0.068765, 0.058565, 0.014261, 0.032102, 0.066005}, 58, 54, 45, 37746, 4684760},
	{[]float64{0.072, 0.019, 0.039, 0.019, 0.006, 0.025, 0.024, 0.056, 0.028, 0.088, 0.169, 0.023, 0.054, 0.061, 0.054, 0.072, 0.086, 0.029, 0.033, 0.043}, 23.18, 26.95, 13.24, 37999.98, 5100187.38},
	{[]float64{0.079066, 0.055941, 0.041977, 0.053052, 0.012937, 0.040767, 0.071586, 0.057337, 0.022355, 0.062157, 0.099081, 0.0646, 0.022951, 0.042302, 0.04404, 0.061197, 0.053287, 0.012066, 0.034155, 0.069147}, 0.425093, 0.276818, 0.751878, 388.440828, 52057.588674},
	{[]float64{0.0866279, 0.043972, 0.0390894, 0.0570451, 0.0193078, 0.0367281, 0.0580589, 0.0832518, 0.0244313, 0.048466, 0.086209, 0.0620286, 0.0195027, 0.0384319, 0.0457631, 0.0695179, 0.0610127, 0.0143859, 0.0352742, 0.0708956}, 55.1571, 50.9848, 63.5346, 37028.26618, 4755242.79272},
	{[]float64{0.060490222, 0.066039665, 0.044127815, 0.042109048, 0.020075899, 0.053606488, 0.071567447, 0.072308239, 0.022293943, 0.069730629, 0.098851122, 0.056968211, 0.019768318, 0.028809447, 0.046025282, 0.05060433, 0.053636813, 0.033011601, 0.028350243, 0.061625237}, 0.307507, 0.005, 0.295543, 749.575615419999, 93062.4167202599},
	{nil, 0, 0, 0, 618.174645230775, 75945.2480981569},
}

func runTables(c *mon.Case) {
	model := c.Idx % 7
	name := modelNames[model]
	S, pi := tables(model)
	c.Input(map[string]interface{}{"model": name})
	c.Count("tables:" + name)
	pin := tablePins[model]
	nr, nc := S.Dims()
	if nr != 20 || nc != 20 || len(pi) != 20 {
		c.Failf("tables:shape", "%s: exchangeabilities %dx%d, %d frequencies", name, nr, nc, len(pi))
		return
	}
	sum, ssum, wsum := 0.0, 0.0, 0.0
	for i := 0; i < 20; i++ {
		if !(pi[i] > 0) {
			c.Failf("tables:frequency-not-positive", "%s: pi[%d]=%v", name, i, pi[i])
		}
		sum += pi[i]
		if pin.pi != nil && pi[i] != pin.pi[i] {
			c.Failf("tables:frequency-differs-from-literature", "%s: pi[%d]=%v, published %v", name, i, pi[i], pin.pi[i])
		}
		for j := 0; j < 20; j++ {
			v := S.At(i, j)
			if v != S.At(j, i) || v < 0 || (i == j && v != 0) {
				c.Failf("tables:exchangeabilities-not-symmetric-nonnegative", "%s: s[%d][%d]=%v s[%d][%d]=%v", name, i, j, v, j, i, S.At(j, i))
				return
			}
			ssum += v
			wsum += v * float64((i+1)*(j+3))
		}
	}
	if math.Abs(sum-1) > 1e-5 {
		c.Failf("tables:frequencies-do-not-sum-to-one", "%s: sum %v", name, sum)
	}
	if pin.pi != nil && (S.At(0, 1) != pin.s01 || S.At(0, 2) != pin.s02 || S.At(1, 2) != pin.s12) {
		c.Failf("tables:exchangeability-differs-from-literature", "%s: R-A %v N-A %v N-R %v, published %v %v %v", name, S.At(0, 1), S.At(0, 2), S.At(1, 2), pin.s01, pin.s02, pin.s12)
	}
	if math.Abs(ssum-pin.sum) > 1e-11*pin.sum || math.Abs(wsum-pin.wsum) > 1e-11*pin.wsum {
		c.Failf("tables:exchangeabilities-changed", "%s: fingerprint (%.15g, %.15g), pinned (%.15g, %.15g)", name, ssum, wsum, pin.sum, pin.wsum)
	}
	// a second call must hand out fresh, equal tables (InitModel scales its matrix in place)
	S2, pi2 := tables(model)
	for i := 0; i < 20; i++ {
		if pi2[i] != pi[i] {
			c.Failf("tables:not-reproducible", "%s: second call pi[%d]=%v, first %v", name, i, pi2[i], pi[i])
			return
		}
		for j := 0; j < 20; j++ {
			if S2.At(i, j) != S.At(i, j) {
				c.Failf("tables:not-reproducible", "%s: second call s[%d][%d]=%v, first %v", name, i, j, S2.At(i, j), S.At(i, j))
				return
			}
		}
	}
	c.NonTrivial("tables", name)
	c.Note("%s: sum(pi)=%.9f fingerprint=(%.12g, %.12g)", name, sum, ssum, wsum)
}

// runOracle cross-checks the oracle's own transition probabilities (trusted base) against a
// Taylor series exponential of the rate matrix, and their basic properties.
func runOracle(c *mon.Case) {
	r := c.R
	model := c.Idx % 7
	S, pi := tables(model)
	kind := "model"
	if c.Idx%3 == 1 {
		rows, _ := genRows(r)
		pi = empiricalPi(rows, nil, nil, r.Bool())
		kind = "empirical"
	}
	ds := []float64{1e-8, 1e-4, 0.01, 0.1, 0.5, 1, 2, 5, 10, 20, 50, 100}
	d := ds[(c.Idx/7)%len(ds)]
	if r.Chance(0.3) {
		d = math.Pow(10, -8+10*r.Float())
	}
	c.Input(map[string]interface{}{"model": modelNames[model], "pi": pi, "pi_kind": kind, "d": d})
	rm := newRefModel(S, pi, false, 0)
	q := rateMatrix(S, pi)
	e := expm(&q, d)
	f := rm.factors(d)
	worst := 0.0
	for i := 0; i < 20; i++ {
		sum := 0.0
		for j := 0; j < 20; j++ {
			p := rm.pij(i, j, &f)
			sum += p
			if x := math.Abs(p - e[i][j]); x > worst {
				worst = x
			}
			if x := math.Abs(rm.pi[i]*p - rm.pi[j]*rm.pij(j, i, &f)); x > 1e-13 {
				c.Failf("oracle:detailed-balance", "model %s d=%v: pi_%d P_%d%d - pi_%d P_%d%d = %g", modelNames[model], d, i, i, j, j, j, i, x)
				return
			}
		}
		if math.Abs(sum-1) > 1e-12 {
			c.Failf("oracle:row-sum", "model %s d=%v: row %d sums to %.15g", modelNames[model], d, i, sum)
			return
		}
	}
	if worst > 1e-11 {
		c.Failf("oracle:expm", "model %s (%s frequencies) d=%v: eigen-decomposition and Taylor exponential differ by %g", modelNames[model], kind, d, worst)
	}
	c.Count("oracle-selfcheck:" + kind)
	c.Max("oracle-selfcheck-worst-x1e15", int(worst*1e15))
	c.Note("max |P_eig - P_taylor| = %g", worst)
}

func main() {
	mon.SetNote("rule", "matrix: case = random protein alignment (2..6 rows x 1..200 columns; rows are mutated copies at rates 0..1 of a base drawn from uniform / skewed / 2-6 letter compositions, so that identical, close, far, saturated pairs occur; gap runs, X, '*', '.'; special shapes: pair without comparable column, gap in every column, difference hidden under a gap, ambiguous-only differences) x option set (7 models x model/empirical frequencies x gamma alpha in {0.3,0.5,1,2,4} or uniform [0.2,5] x rm-gaps x weights nil/unit/fractional/bootstrap counts with zeros x model object fresh or already used on another alignment). Every entry is decided by an independent likelihood (see assumptions); 60% of the matrices are recomputed after a random row permutation and 60% after a random column permutation (with the weights). Non-trivial = at least one pair whose reported distance is strictly between 0 and 20 and was compared with the oracle's maximiser; distinct = (rows, options). witness: fixed inputs of every defect found (and boundaries); reinit: one model object initialised for a first alignment, then for a second one whose matrix is checked (600 / 10000 cases); tables: the 7 exported data tables against literature pins; oracle: the oracle's own P(d) against a Taylor series exponential. cli: `goalign compute distance -m <protein model>` through the binary built from the tree under test on 1..3 alignments (FASTA / Phylip relaxed and strict with several alignments in one file / --auto-detect / Nexus / Clustal / Stockholm) with the model names of the help text as printed (DAYHOFF JTT MtRev LG WAG) and in lower case + hivb, ab, --alpha, -r, -t, -o or stdout, --alphabet, -a (second run, compared with the mean of the matrix); every written matrix goes through the same likelihood checks as MLDist's (checkPair); every third case runs `goalign build distboot` (-m, --alpha, -r, -f, -n, --seed, -t): the replicates are rebuilt with rand.Seed(seed) + BuildBootstrap(frac) and each matrix is checked on its replicate; unknown model / flag, missing file must end with an error message and a non zero status; nucleotide-only flags (--range1/2, --gap-mut, --rm-ambiguous) may be refused or ignored.")
	mon.SetNote("assumptions", "trusted base: the exchangeability / frequency tables exported by models/protein (XxxMats), read through the public API; their frequency vectors and three exchangeabilities per model are pinned to the values of the PAML .dat files / the HIVb paper typed from the literature (AB: regression fingerprint only);; oracle: Q=S.diag(pi) normalised to one substitution per unit time, symmetrised with sqrt(pi), gonum EigenSym (cross-checked at run time against a scaling-and-squaring Taylor exponential, sub-check oracle), gamma factor (1-lambda d/alpha)^-alpha; lnL(d)=sum F_ij ln(pi_i P_ij(d)) with F the weighted table of the selected columns where both rows hold one of the 20 amino acids; candidates: 240 point geometric grid on [1e-8,100] refined by golden section + d*(1+-{1e-4,1e-3,1e-2,0.1}); tolerance 1e-6 on the per-site log likelihood;; open corners accepted in every reading (one reading must explain the whole matrix): rm-gaps drops columns holding '-' only or any non amino-acid character; empirical frequencies ignore unknown characters or spread them over the 20 amino acids; pseudo counts of one when a count is below 1/20 or only when one is null;; a pair that differs somewhere but has no comparable selected site may hold any value of [0,20];; an entry at the cap 20 stands for '20 or more': it is a violation only when a distance below the cap beats the best distance of [20,100] by more than 1e-4;; when the reported distance is a maximiser among its neighbours (walking away on the grid the likelihood falls by more than the tolerance before it exceeds it) but another local maximum is higher, the signature is local-maximum / capped-local-maximum instead of not-maximiser / capped-not-saturated (the statement is still violated: the likelihood has several maxima and the search is local);; 'no unambiguous difference' is read over all columns (distance exactly 0); when the only differences sit in columns dropped by rm-gaps or of null weight the likelihood check applies (maximiser = lower end of the range);; permutation relations hold within 1e-5 relative to max(1,d);; lower case, B, Z, J, O, U and '?' are outside the quantifier (20 amino acids, gaps, X, '*') and not generated; MLDist starts no goroutine and shares nothing but the model object between calls (read of lk.go / model.go), so there is no -race sub-check: the model object is instead reused across alignments in 20% of the cases;; cli: the help text does not say which amino acid frequencies `compute distance` / `build distboot` use: a matrix is accepted when it passes with the model's frequencies or with the empirical frequencies of the alignment;; cli: a protein model name is documented by the list of the help text (DAYHOFF, JTT, MtRev, LG, WAG): both that spelling and its lower case form must be accepted, as well as hivb and ab (models of the property);; cli: an alignment made of letters common to both alphabets is given with --alphabet aa;; cli distboot: replicates = math/rand seeded with --seed + Alignment.BuildBootstrap in the monitor process (go.mod go 1.21.6), checked once per process against `build seqboot --seed`; without --seed only number, shape and labels of the matrices are checked;; cli: distances are written with 12 decimals, far below the likelihood tolerance")
	for _, m := range modelNames {
		mon.Floor("model:"+m, 300)
		mon.Floor("tables:"+m, 1)
	}
	mon.Floor("freqs:model", 1500)
	mon.Floor("freqs:empirical", 1500)
	mon.Floor("gamma", 1500)
	mon.Floor("nogamma", 1500)
	mon.Floor("rmgaps", 1000)
	mon.Floor("weights:fractional", 500)
	mon.Floor("weights:bootstrap-counts", 500)
	mon.Floor("weights:unit", 200)
	mon.Floor("pair:optimised", 10000)
	mon.Floor("pair:capped", 1000)
	mon.Floor("pair:identical", 1000)
	mon.Floor("pair:diag-only", 100)
	mon.Floor("pair:no-comparable-site", 100)
	mon.Floor("perm:rows", 2000)
	mon.Floor("perm:cols", 2000)
	mon.Floor("model-object-reused", 500)
	mon.Floor("oracle-selfcheck:model", 100)
	mon.Floor("oracle-selfcheck:empirical", 100)
	mon.Floor("witness", len(witnesses))
	mon.Floor("reinit:model-frequencies", 100)
	mon.Floor("reinit:empirical-frequencies", 100)
	// cli sub-check: every model name, every input mode, every flag given and omitted, every refusal
	for _, ma := range cliModelArgs {
		mon.Floor("cli:model-flag:"+ma.arg, 12)
	}
	for _, f := range []string{"fasta", "phylip", "phylip-strict", "auto-fasta", "auto-phylip", "nexus", "clustal", "stockholm"} {
		mon.Floor("cli:format:"+f, 12)
	}
	for _, k := range cliRefusals {
		mon.Floor("cli:refusal:"+k, 4)
	}
	mon.Floor("cli:matrices-checked", 250)
	mon.Floor("cli:several-alignments", 50)
	mon.Floor("cli:pair:optimised", 500)
	mon.Floor("cli:alpha", 60)
	mon.Floor("cli:no-alpha", 60)
	mon.Floor("cli:rm-gaps", 40)
	mon.Floor("cli:threads", 40)
	mon.Floor("cli:average", 30)
	mon.Floor("cli:output:stdout", 30)
	mon.Floor("cli:output:file", 100)
	mon.Floor("cli:alphabet:aa", 20)
	for _, ma := range cliModelArgs {
		mon.Floor("cli:distboot:model-flag:"+ma.arg, 6)
	}
	for _, f := range []string{"fasta", "phylip", "phylip-strict", "auto-fasta", "auto-phylip"} {
		mon.Floor("cli:distboot:format:"+f, 8)
	}
	for _, k := range bootRefusals {
		mon.Floor("cli:distboot:refusal:"+k, 2)
	}
	mon.Floor("cli:distboot:matrices-checked", 120)
	mon.Floor("cli:distboot:pair:optimised", 300)
	mon.Floor("cli:distboot:alpha", 25)
	mon.Floor("cli:distboot:no-alpha", 25)
	mon.Floor("cli:distboot:rm-gaps", 25)
	mon.Floor("cli:distboot:threads", 20)
	mon.Floor("cli:distboot:nboot-default", 10)
	mon.Floor("cli:distboot:nboot:3", 10)
	mon.Floor("cli:distboot:frac-default", 25)
	mon.Floor("cli:distboot:frac:0.5", 8)
	mon.Floor("cli:distboot:no-seed", 8)
	mon.Floor("cli:distboot:first-alignment-of-several", 15)
	mon.Floor("long:sites>=120000", 8)
	mon.Floor("concurrent:calls", 500)
	mon.Main("C17", []mon.Sub{
		{Name: "witness", Quick: len(witnesses), Thorough: len(witnesses), Run: runWitness},
		{Name: "tables", Quick: 7, Thorough: 7, Run: runTables},
		{Name: "oracle", Quick: 420, Thorough: 4200, Run: runOracle},
		{Name: "matrix", Quick: 8000, Thorough: 150000, Run: runMatrix},
		{Name: "reinit", Quick: 600, Thorough: 10000, Run: runReinit},
		{Name: "long", Quick: 10, Thorough: 96, Run: runLong},
		{Name: "concurrent", Quick: 64, Thorough: 1200, Race: true, Run: func(c *mon.Case) { conc.Run(c, "aadist") }},
		{Name: "cli", Quick: 510, Thorough: 6000, Run: runCli},
	})
}
