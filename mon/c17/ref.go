// Reference side of the C17 monitor: an independent pairwise likelihood for the
// empirical amino-acid models. Nothing here is taken from distance/protein: the
// transition probabilities come from the textbook construction of a reversible
// model (Q = S.diag(pi), one expected substitution per unit time), diagonalised
// through the symmetric matrix diag(sqrt(pi)).Q.diag(1/sqrt(pi)) with gonum's
// EigenSym; goalign uses the general (non symmetric) Eigen and a matrix inverse.
package main

import (
	"math"

	pm "github.com/evolbioinfo/goalign/models/protein"
	"gonum.org/v1/gonum/mat"
)

// order of the 20 states as documented by align.AlphabetCharacters() for amino acids
const aaOrder = "ARNDCQEGHILKMFPSTWYV"

var aaIndex = func() (t [256]int) {
	for i := range t {
		t[i] = -1
	}
	for i := 0; i < len(aaOrder); i++ {
		t[aaOrder[i]] = i
	}
	return
}()

var modelNames = []string{"dayoff", "jtt", "mtrev", "lg", "wag", "hivb", "ab"}

// tables returns the exchangeabilities and model frequencies exported by models/protein
// (the data tables are part of the trusted base, see the tables sub-check for the pins).
func tables(model int) (*mat.Dense, []float64) {
	switch model {
	case pm.MODEL_DAYHOFF:
		return pm.DayoffMats()
	case pm.MODEL_JTT:
		return pm.JTTMats()
	case pm.MODEL_MTREV:
		return pm.MtREVMats()
	case pm.MODEL_LG:
		return pm.LGMats()
	case pm.MODEL_WAG:
		return pm.WAGMats()
	case pm.MODEL_HIVB:
		return pm.HIVBMats()
	case pm.MODEL_AB:
		return pm.ABMats()
	}
	panic("harness: unknown model")
}

// refModel is a reversible 20 state model ready to evaluate P(d).
type refModel struct {
	pi     [20]float64
	lambda [20]float64     // eigenvalues of the normalised rate matrix (all <= 0)
	left   [20][20]float64 // left[i][k]  = W[i][k] / sqrt(pi_i)
	right  [20][20]float64 // right[k][j] = W[j][k] * sqrt(pi_j)
	gamma  bool
	alpha  float64
}

// newRefModel builds the model from exchangeabilities S (symmetric) and frequencies pi
// (normalised here to sum to one).
func newRefModel(S *mat.Dense, pi []float64, gamma bool, alpha float64) *refModel {
	m := &refModel{gamma: gamma, alpha: alpha}
	sum := 0.0
	for _, v := range pi {
		sum += v
	}
	for i := 0; i < 20; i++ {
		m.pi[i] = pi[i] / sum
	}
	// rates q_ij = s_ij pi_j ; mean rate mu = sum_i pi_i sum_{j!=i} q_ij
	mu := 0.0
	for i := 0; i < 20; i++ {
		for j := 0; j < 20; j++ {
			if i != j {
				mu += m.pi[i] * S.At(i, j) * m.pi[j]
			}
		}
	}
	// B = D^{1/2} Q D^{-1/2}: b_ij = sqrt(pi_i pi_j) s_ij / mu, b_ii = q_ii
	b := mat.NewSymDense(20, nil)
	for i := 0; i < 20; i++ {
		d := 0.0
		for j := 0; j < 20; j++ {
			if i != j {
				d += S.At(i, j) * m.pi[j] / mu
			}
		}
		b.SetSym(i, i, -d)
		for j := i + 1; j < 20; j++ {
			b.SetSym(i, j, math.Sqrt(m.pi[i]*m.pi[j])*0.5*(S.At(i, j)+S.At(j, i))/mu)
		}
	}
	var es mat.EigenSym
	if !es.Factorize(b, true) {
		panic("harness: EigenSym failed")
	}
	vals := es.Values(nil)
	var w mat.Dense
	es.VectorsTo(&w)
	for k := 0; k < 20; k++ {
		m.lambda[k] = vals[k]
	}
	for i := 0; i < 20; i++ {
		si := math.Sqrt(m.pi[i])
		for k := 0; k < 20; k++ {
			m.left[i][k] = w.At(i, k) / si
			m.right[k][i] = w.At(i, k) * si
		}
	}
	return m
}

// factors returns, per eigenvalue, exp(lambda d) or its expectation over a mean one
// gamma distribution of rates with shape alpha: (1 - lambda d / alpha)^(-alpha).
func (m *refModel) factors(d float64) (f [20]float64) {
	for k := 0; k < 20; k++ {
		if m.gamma {
			f[k] = math.Pow(1-m.lambda[k]*d/m.alpha, -m.alpha)
		} else {
			f[k] = math.Exp(m.lambda[k] * d)
		}
	}
	return
}

func (m *refModel) pij(i, j int, f *[20]float64) float64 {
	s := 0.0
	for k := 0; k < 20; k++ {
		s += m.left[i][k] * f[k] * m.right[k][j]
	}
	return s
}

// pairF is the weighted table of residue pairs of two rows over a set of columns.
type pairF struct {
	cells  []cell  // non zero cells, normalised to sum to one
	total  float64 // weight of the comparable columns (before normalisation)
	offDia float64 // normalised weight of the cells with i != j
}

type cell struct {
	i, j int
	f    float64
}

// buildF counts the residue pairs of rows a and b over the columns with sel[c] (nil = all)
// where both residues are one of the 20 amino acids, weighted by w (nil = 1).
func buildF(a, b string, sel []bool, w []float64) pairF {
	var tab [20][20]float64
	tot := 0.0
	for c := 0; c < len(a); c++ {
		if sel != nil && !sel[c] {
			continue
		}
		i, j := aaIndex[a[c]], aaIndex[b[c]]
		if i < 0 || j < 0 {
			continue
		}
		x := 1.0
		if w != nil {
			x = w[c]
		}
		tab[i][j] += x
		tot += x
	}
	p := pairF{total: tot}
	if tot <= 0 {
		return p
	}
	for i := 0; i < 20; i++ {
		for j := 0; j < 20; j++ {
			if tab[i][j] != 0 {
				p.cells = append(p.cells, cell{i, j, tab[i][j] / tot})
				if i != j {
					p.offDia += tab[i][j] / tot
				}
			}
		}
	}
	return p
}

const pFloor = 1e-300

// lnL is the log likelihood of the pair table at distance d: sum F_ij ln(pi_i P_ij(d)).
func (m *refModel) lnL(F *pairF, d float64) float64 {
	f := m.factors(d)
	s := 0.0
	for _, c := range F.cells {
		p := m.pij(c.i, c.j, &f)
		if !(p > pFloor) {
			p = pFloor
		}
		s += c.f * math.Log(m.pi[c.i]*p)
	}
	return s
}

// grid of candidate distances: geometric over the allowed range [1e-8, 100].
var distGrid = func() []float64 {
	const n = 240
	g := make([]float64, n)
	for i := range g {
		g[i] = 1e-8 * math.Pow(100/1e-8, float64(i)/float64(n-1))
	}
	return g
}()

// profile evaluates the likelihood on the grid.
func (m *refModel) profile(F *pairF) []float64 {
	l := make([]float64, len(distGrid))
	for i, g := range distGrid {
		l[i] = m.lnL(F, g)
	}
	return l
}

// best returns the most likely grid distance, refined by a golden section search between
// the neighbouring grid points, and its likelihood.
func (m *refModel) best(F *pairF, prof []float64) (d, l float64) {
	bi, bl := 0, math.Inf(-1)
	for i, v := range prof {
		if v > bl {
			bi, bl = i, v
		}
	}
	lo, hi := distGrid[bi], distGrid[bi]
	if bi > 0 {
		lo = distGrid[bi-1]
	}
	if bi < len(distGrid)-1 {
		hi = distGrid[bi+1]
	}
	const phi = 0.6180339887498949
	x1, x2 := hi-phi*(hi-lo), lo+phi*(hi-lo)
	f1, f2 := m.lnL(F, x1), m.lnL(F, x2)
	for it := 0; it < 60 && hi-lo > 1e-12*hi; it++ {
		if f1 < f2 {
			lo, x1, f1 = x1, x2, f2
			x2 = lo + phi*(hi-lo)
			f2 = m.lnL(F, x2)
		} else {
			hi, x2, f2 = x2, x1, f1
			x1 = hi - phi*(hi-lo)
			f1 = m.lnL(F, x1)
		}
	}
	d, l = distGrid[bi], bl
	if f1 > l {
		d, l = x1, f1
	}
	if f2 > l {
		d, l = x2, f2
	}
	return
}

// localMax tells whether x (likelihood lx) is a local maximiser at tolerance tol: walking away
// from x on the grid, in both directions, the likelihood falls below lx-tol (or the range ends)
// before it exceeds lx+tol.
func localMax(prof []float64, x, lx, tol float64) bool {
	k := 0
	for k < len(distGrid) && distGrid[k] < x {
		k++
	}
	for i := k; i < len(prof); i++ {
		if prof[i] > lx+tol {
			return false
		}
		if prof[i] < lx-tol {
			break
		}
	}
	for i := k - 1; i >= 0; i-- {
		if prof[i] > lx+tol {
			return false
		}
		if prof[i] < lx-tol {
			break
		}
	}
	return true
}

// peaks lists the local maxima of the grid profile whose prominence exceeds tol (for messages
// and for the evidence: how many pair likelihoods were multimodal).
func peaks(prof []float64, tol float64) (idx []int) {
	up := true
	ext, exti := prof[0], 0
	for i := 1; i < len(prof); i++ {
		if up {
			if prof[i] > ext {
				ext, exti = prof[i], i
			} else if prof[i] < ext-tol {
				idx = append(idx, exti)
				up, ext, exti = false, prof[i], i
			}
		} else {
			if prof[i] < ext {
				ext, exti = prof[i], i
			} else if prof[i] > ext+tol {
				up, ext, exti = true, prof[i], i
			}
		}
	}
	if up {
		idx = append(idx, exti)
	}
	return
}

// isAA tells whether c is one of the 20 amino acids.
func isAA(c byte) bool { return aaIndex[c] >= 0 }

// empirical frequencies of the 20 amino acids over the selected columns of all rows.
// spread: every other character adds weight/20 to each amino acid (FastME / PhyML
// convention for unknown residues), otherwise it is ignored. When a count is below 1/20
// (an amino acid that is absent) every count gets a pseudo count of one, as FastME does and
// as distance/protein documents, so that no frequency is null.
func empiricalPi(rows []string, sel []bool, w []float64, spread bool) []float64 {
	num := make([]float64, 20)
	for _, r := range rows {
		for c := 0; c < len(r); c++ {
			if sel != nil && !sel[c] {
				continue
			}
			x := 1.0
			if w != nil {
				x = w[c]
			}
			if i := aaIndex[r[c]]; i >= 0 {
				num[i] += x
			} else if spread {
				for k := range num {
					num[k] += x / 20
				}
			}
		}
	}
	low := false
	for _, v := range num {
		if v < 1.0/20 {
			low = true
		}
	}
	sum := 0.0
	for k := range num {
		if low {
			num[k]++
		}
		sum += num[k]
	}
	for k := range num {
		num[k] /= sum
	}
	return num
}

// ---- self check of the oracle: P(d) from the symmetric eigen-decomposition against a plain
// Taylor series exponential (scaling and squaring) of the normalised rate matrix.

// rateMatrix returns Q (rows sum to zero, one expected substitution per unit time).
func rateMatrix(S *mat.Dense, pi []float64) [20][20]float64 {
	var q [20][20]float64
	sum := 0.0
	for _, v := range pi {
		sum += v
	}
	mu := 0.0
	for i := 0; i < 20; i++ {
		for j := 0; j < 20; j++ {
			if i != j {
				q[i][j] = S.At(i, j) * pi[j] / sum
				q[i][i] -= q[i][j]
			}
		}
		mu -= pi[i] / sum * q[i][i]
	}
	for i := 0; i < 20; i++ {
		for j := 0; j < 20; j++ {
			q[i][j] /= mu
		}
	}
	return q
}

func matMul(a, b *[20][20]float64) (c [20][20]float64) {
	for i := 0; i < 20; i++ {
		for k := 0; k < 20; k++ {
			if a[i][k] == 0 {
				continue
			}
			for j := 0; j < 20; j++ {
				c[i][j] += a[i][k] * b[k][j]
			}
		}
	}
	return
}

// expm computes exp(Q d) by scaling and squaring of a Taylor series.
func expm(q *[20][20]float64, d float64) [20][20]float64 {
	norm := 0.0
	for i := 0; i < 20; i++ {
		if v := math.Abs(q[i][i]) * d; v > norm {
			norm = v
		}
	}
	s := 0
	for norm > 0.25 {
		norm /= 2
		s++
	}
	scale := d / math.Pow(2, float64(s))
	var a, term, sum [20][20]float64
	for i := 0; i < 20; i++ {
		for j := 0; j < 20; j++ {
			a[i][j] = q[i][j] * scale
		}
		term[i][i] = 1
		sum[i][i] = 1
	}
	for k := 1; k <= 24; k++ {
		term = matMul(&term, &a)
		for i := 0; i < 20; i++ {
			for j := 0; j < 20; j++ {
				term[i][j] /= float64(k)
				sum[i][j] += term[i][j]
			}
		}
	}
	for ; s > 0; s-- {
		sum = matMul(&sum, &sum)
	}
	return sum
}
