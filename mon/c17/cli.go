// cli sub-check of C17: the maximum likelihood protein distances through `goalign compute distance -m <protein
// model>` (cmd/computedist.go). The binary is built once per process from the tree under test (VERIF_REPO) into
// the scratch directory; every case works in its own directory: it writes 1..3 protein alignments (FASTA, Phylip
// relaxed / strict with several alignments in one file, --auto-detect, Nexus / Clustal / Stockholm), draws the
// model name (the seven models; the names of the help text DAYHOFF JTT MtRev LG WAG as printed and in lower case,
// hivb, ab) and the flags (--alpha, -r, -t, -a, -o or stdout, --alphabet), runs the command, parses the matrices
// written and decides every entry with the independent likelihood of the library sub-checks (checkPair of
// main.go). The signatures of the recorded findings (mldist:local-maximum ...) are unchanged.
package main

import (
	"bytes"
	"fmt"
	"math"
	"math/rand"
	"os"
	"os/exec"
	"path/filepath"
	"strconv"
	"strings"

	"github.com/evolbioinfo/goalign/align"
	"github.com/evolbioinfo/goalign/io/clustal"
	"github.com/evolbioinfo/goalign/io/nexus"
	"github.com/evolbioinfo/goalign/io/stockholm"

	"verif/lib/gen"
	"verif/lib/h"
	"verif/lib/mon"
)

var cliBin, cliDir, cliBuildErr string

func cliSetup() bool {
	if cliBin != "" {
		return true
	}
	if cliBuildErr != "" {
		return false
	}
	repo := os.Getenv("VERIF_REPO")
	if repo == "" {
		repo = "/repo"
	}
	scratch := os.Getenv("VERIF_SCRATCH")
	if scratch == "" {
		scratch = os.TempDir()
	}
	dir, err := os.MkdirTemp(scratch, "c17-cli-")
	if err != nil {
		cliBuildErr = err.Error()
		fmt.Fprintln(os.Stderr, "c17 cli: "+cliBuildErr)
		return false
	}
	bin := filepath.Join(dir, "goalign")
	cmd := exec.Command("go", "build", "-o", bin, ".")
	cmd.Dir = repo
	env := []string{}
	for _, e := range os.Environ() {
		if !strings.HasPrefix(e, "GOFLAGS=") {
			env = append(env, e)
		}
	}
	cmd.Env = append(env, "GOFLAGS=-mod=readonly", "GOPROXY=off", "GOSUMDB=off", "GOTOOLCHAIN=local")
	if out, err := cmd.CombinedOutput(); err != nil {
		cliBuildErr = fmt.Sprintf("go build of %s failed: %v\n%s", repo, err, out)
		fmt.Fprintln(os.Stderr, "c17 cli: "+cliBuildErr)
		os.RemoveAll(dir)
		return false
	}
	cliBin, cliDir = bin, dir
	return true
}

// the model names of the command: as printed by the help text ("Proteins: - DAYHOFF - JTT - MtRev - LG - WAG"),
// the same in lower case, and the two further models of the property (hivb, ab)
var cliModelArgs = []struct {
	arg   string
	model int
}{
	{"dayhoff", 0}, {"jtt", 1}, {"mtrev", 2}, {"lg", 3}, {"wag", 4}, {"hivb", 5}, {"ab", 6},
	{"DAYHOFF", 0}, {"JTT", 1}, {"MtRev", 2}, {"LG", 3}, {"WAG", 4},
}

type cliCase struct {
	Aligns   [][]string `json:"alignments"`
	Names    [][]string `json:"names"`
	Format   string     `json:"format"`
	ModelArg string     `json:"model_flag"`
	Opts     opts       `json:"opts"` // what the flags mean (frequencies: see the assumptions)
	Threads  int        `json:"threads"`
	Average  bool       `json:"average"`
	Stdout   bool       `json:"stdout"`
	Alphabet string     `json:"alphabet"`
	Refusal  string     `json:"refusal,omitempty"`
	Args     []string   `json:"args"`
}

var cliFormats = []string{"fasta", "phylip", "phylip", "phylip-strict", "auto-fasta", "auto-phylip", "fasta", "phylip", "nexus", "clustal", "stockholm"}

var cliRefusals = []string{"unknown-model", "unknown-flag", "missing-file", "alphabet-nt", "ranges", "gap-mut", "rm-ambiguous"}

func cliMustRefuse(k string) bool {
	return k == "unknown-model" || k == "unknown-flag" || k == "missing-file"
}

func plainAA(rows []string) bool {
	return strings.Trim(strings.Join(rows, ""), aaOrder+"-") == ""
}

// detectedAA: the documented alphabet detection takes the alignment for a protein alignment (a letter that is
// no nucleotide code, no U / O)
func detectedAA(rows []string) bool {
	j := strings.ToUpper(strings.Join(rows, ""))
	return strings.ContainsAny(j, "QEILFPZ") && !strings.ContainsAny(j, "UO")
}

func genCliCase(r *gen.Rand, idx int) cliCase {
	k := cliCase{}
	k.Format = cliFormats[(idx/12)%len(cliFormats)]
	nal := 1
	if strings.Contains(k.Format, "phylip") {
		nal = r.PickInt([]int{1, 2, 2, 3, 3})
	}
	for a := 0; a < nal; a++ {
		var rows []string
		for try := 0; ; try++ {
			rows, _ = genRows(r)
			if len(rows[0]) > 120 {
				continue
			}
			if k.Format == "nexus" || k.Format == "clustal" || k.Format == "stockholm" {
				if !plainAA(rows) && try < 60 {
					continue
				}
				if !plainAA(rows) {
					rows = []string{"ARNDLKEV", "ARNELKEV", "AKND-KEI"}
				}
			}
			break
		}
		style := r.Intn(3)
		names := make([]string, len(rows))
		for i := range rows {
			switch style {
			case 0:
				names[i] = "s" + gen.Itoa(i)
			case 1:
				names[i] = "prot_" + gen.Itoa(i) + "_" + gen.Itoa(a)
			default:
				names[i] = "Tip" + gen.Itoa(len(rows)-i)
			}
		}
		k.Aligns = append(k.Aligns, rows)
		k.Names = append(k.Names, names)
	}
	ma := cliModelArgs[idx%len(cliModelArgs)]
	k.ModelArg = ma.arg
	o := opts{Model: ma.model, ModelName: modelNames[ma.model], ModelFreqs: true, WKind: "nil"}
	if r.Chance(0.45) {
		o.Gamma = true
		o.Alpha = r.PickF(alphas)
	}
	o.RmGaps = r.Chance(0.35)
	k.Opts = o
	if r.Chance(0.5) {
		k.Threads = r.PickInt([]int{1, 2, 4})
	}
	k.Average = r.Chance(0.25)
	k.Stdout = r.Chance(0.3)
	k.Alphabet = r.PickStr([]string{"", "", "aa", "auto"})
	for _, rows := range k.Aligns {
		if !detectedAA(rows) {
			k.Alphabet = "aa" // nothing but letters of both alphabets: the user has to name the alphabet
		}
	}
	if idx%7 == 6 { // every kind of refusal in turn
		k.Refusal = cliRefusals[(idx/7)%len(cliRefusals)]
	}
	return k
}

func (k *cliCase) inputText(a int) string {
	rows, names := k.Aligns[a], k.Names[a]
	var sb strings.Builder
	switch k.Format {
	case "fasta", "auto-fasta":
		for i := range rows {
			fmt.Fprintf(&sb, ">%s\n", names[i])
			s := rows[i]
			for len(s) > 60 {
				sb.WriteString(s[:60] + "\n")
				s = s[60:]
			}
			sb.WriteString(s + "\n")
		}
	case "phylip", "auto-phylip":
		fmt.Fprintf(&sb, "   %d   %d\n", len(rows), len(rows[0]))
		for i := range rows {
			fmt.Fprintf(&sb, "%s  %s\n", names[i], rows[i])
		}
	case "phylip-strict":
		fmt.Fprintf(&sb, "   %d   %d\n", len(rows), len(rows[0]))
		for i := range rows {
			fmt.Fprintf(&sb, "%-10s%s\n", names[i], rows[i])
		}
	default:
		g := make(gen.Rows, len(rows))
		for i := range rows {
			g[i] = gen.Seq{Name: names[i], Seq: rows[i]}
		}
		al := h.MkAlign(g, align.AMINOACIDS)
		switch k.Format {
		case "nexus":
			sb.WriteString(nexus.WriteAlignment(al))
		case "clustal":
			sb.WriteString(clustal.WriteAlignment(al))
		default:
			sb.WriteString(stockholm.WriteAlignment(al))
		}
	}
	return sb.String()
}

func pickS(r *gen.Rand, a ...string) string { return a[r.Intn(len(a))] }

func (k *cliCase) cliArgs(r *gen.Rand, in, out string) []string {
	a := []string{"compute", "distance", pickS(r, "-i", "--align"), in}
	switch k.Format {
	case "phylip":
		a = append(a, pickS(r, "-p", "--phylip"))
	case "phylip-strict":
		a = append(a, "-p", "--input-strict")
	case "auto-fasta", "auto-phylip":
		a = append(a, "--auto-detect")
	case "nexus":
		a = append(a, pickS(r, "-x", "--nexus"))
	case "clustal":
		a = append(a, pickS(r, "-u", "--clustal"))
	case "stockholm":
		a = append(a, pickS(r, "-k", "--stockholm"))
	}
	if out != "" {
		a = append(a, pickS(r, "-o", "--output"), out)
	}
	model := k.ModelArg
	if k.Refusal == "unknown-model" {
		model = pickS(r, "jtt2", "blosum62", "dayhof", "lgx", "pam")
	}
	switch r.Intn(3) {
	case 0:
		a = append(a, "-m", model)
	case 1:
		a = append(a, "--model", model)
	default:
		a = append(a, "--model="+model)
	}
	o := k.Opts
	if o.Gamma {
		a = append(a, "--alpha", strconv.FormatFloat(o.Alpha, 'g', -1, 64))
	}
	if o.RmGaps {
		a = append(a, pickS(r, "-r", "--rm-gaps"))
	}
	if k.Threads > 0 {
		a = append(a, pickS(r, "-t", "--threads"), strconv.Itoa(k.Threads))
	}
	switch k.Alphabet {
	case "aa", "auto":
		a = append(a, "--alphabet", k.Alphabet)
	}
	switch k.Refusal {
	case "alphabet-nt":
		a = append(a, "--alphabet=nt")
	case "ranges": // "only for nucleotide models so far"
		a = append(a, "--range1", "0:0", "--range2", "1:1")
	case "gap-mut": // "Only available for rawdist and pdist (nt)"
		a = append(a, "--gap-mut", pickS(r, "1", "2"))
	case "rm-ambiguous": // "Only available for pdist (nt)"
		a = append(a, "--rm-ambiguous")
	case "unknown-flag":
		a = append(a, pickS(r, "--gamma", "--rm-gap", "--freqs=model", "-z"))
	}
	return a
}

type cliRun struct {
	exit           int
	stdout, stderr string
}

func cliExec(dir string, args []string) cliRun {
	cmd := exec.Command(cliBin, args...)
	cmd.Dir = dir
	var so, se bytes.Buffer
	cmd.Stdout, cmd.Stderr = &so, &se
	err := cmd.Run()
	res := cliRun{stdout: so.String(), stderr: se.String()}
	if err != nil {
		res.exit = -1
		if ee, ok := err.(*exec.ExitError); ok {
			res.exit = ee.ExitCode()
		}
	}
	return res
}

type cliMatrix struct {
	names []string
	toks  [][]string
	vals  [][]float64
}

// parseMatrices reads the documented output: per alignment one line "n", then n lines name<TAB>d1<TAB>...<TAB>dn.
func parseMatrices(txt string) ([]cliMatrix, error) {
	var out []cliMatrix
	lines := strings.Split(txt, "\n")
	if len(lines) > 0 && lines[len(lines)-1] == "" {
		lines = lines[:len(lines)-1]
	}
	for p := 0; p < len(lines); {
		n, err := strconv.Atoi(strings.TrimSpace(lines[p]))
		if err != nil || n < 0 {
			return out, fmt.Errorf("line %d: expected the number of sequences, found %q", p+1, lines[p])
		}
		p++
		m := cliMatrix{}
		for i := 0; i < n; i++ {
			if p >= len(lines) {
				return out, fmt.Errorf("matrix %d announces %d rows, the output ends after %d", len(out)+1, n, i)
			}
			f := strings.Split(lines[p], "\t")
			if len(f) != n+1 {
				return out, fmt.Errorf("line %d: %d tab separated fields for a matrix of %d: %q", p+1, len(f), n, lines[p])
			}
			vals := make([]float64, n)
			for j := 0; j < n; j++ {
				v, err := strconv.ParseFloat(f[j+1], 64)
				if err != nil {
					return out, fmt.Errorf("line %d: entry %q is not a number", p+1, f[j+1])
				}
				vals[j] = v
			}
			m.names = append(m.names, f[0])
			m.toks = append(m.toks, f[1:])
			m.vals = append(m.vals, vals)
			p++
		}
		out = append(out, m)
	}
	return out, nil
}

type cliVerdict struct {
	level    int // 0 clean, 1 failures of a recorded class only, 2 other failures
	sig, msg string
	obs      matrixObs
}

// evalMatrix is checkMatrix without side effects: the same checks, the verdict is returned (the command's
// frequencies are not documented, so that two option sets have to be tried).
func evalMatrix(rows []string, o opts, D [][]float64) cliVerdict {
	n := len(rows)
	if len(D) != n {
		return cliVerdict{level: 2, sig: "shape", msg: fmt.Sprintf("matrix has %d rows for %d sequences", len(D), n)}
	}
	for i := 0; i < n; i++ {
		if len(D[i]) != n {
			return cliVerdict{level: 2, sig: "shape", msg: fmt.Sprintf("row %d has %d entries for %d sequences", i, len(D[i]), n)}
		}
	}
	for i := 0; i < n; i++ {
		if D[i][i] != 0 {
			return cliVerdict{level: 2, sig: "diagonal", msg: fmt.Sprintf("entry (%d,%d) = %v", i, i, D[i][i])}
		}
		for j := 0; j < n; j++ {
			if math.Float64bits(D[i][j]) != math.Float64bits(D[j][i]) {
				return cliVerdict{level: 2, sig: "asymmetric", msg: fmt.Sprintf("entry (%d,%d)=%v but (%d,%d)=%v", i, j, D[i][j], j, i, D[j][i])}
			}
		}
	}
	rds := readingsFor(rows, o)
	var best *cliVerdict
	for ri, rd := range rds {
		sel := selection(rows, o, rd)
		S, _ := tables(o.Model)
		rm := newRefModel(S, refPi(rows, o, rd, sel), o.Gamma, o.Alpha)
		cur := cliVerdict{obs: matrixObs{classes: map[string]int{}, reading: ri, nread: len(rds)}}
		for i := 0; i < n; i++ {
			for j := i + 1; j < n; j++ {
				obs, sig, m := checkPair(rm, rows[i], rows[j], sel, o.Weights, D[i][j])
				if sig != "" {
					lvl := 2
					if knownClass[sig] {
						lvl = 1
					}
					if lvl > cur.level {
						cur.level, cur.sig = lvl, sig
						cur.msg = fmt.Sprintf("pair (%d,%d): %s (reading %+v)", i, j, m, rd)
					}
				}
				cur.obs.classes[obs.class]++
			}
		}
		if best == nil || cur.level < best.level {
			keep := cur
			best = &keep
		}
		if cur.level == 0 {
			break
		}
	}
	return *best
}

func sameAvg(got, want float64) bool {
	if math.IsNaN(want) {
		return math.IsNaN(got)
	}
	if math.IsInf(want, 0) {
		return got == want
	}
	d := math.Abs(got - want)
	return d <= 3e-12 || d <= 1e-10*math.Abs(want)
}

func runCli(c *mon.Case) {
	if !cliSetup() {
		return // the floors cli:* are missed: INCONCLUSIVE, not a violation
	}
	if c.Idx%3 == 2 {
		runCliBoot(c)
		return
	}
	r := c.R
	k := genCliCase(r, (c.Idx/3)*2+c.Idx%3) // the running number among the compute distance cases
	dir, err := os.MkdirTemp(cliDir, "case-")
	if err != nil {
		panic("harness: " + err.Error())
	}
	defer os.RemoveAll(dir)
	if c.Verbose { // single case replay: do not leave the binary behind
		defer func() { os.RemoveAll(cliDir); cliBin, cliDir = "", "" }()
	}
	in := filepath.Join(dir, "input.aln")
	var txt strings.Builder
	for a := range k.Aligns {
		txt.WriteString(k.inputText(a))
	}
	if k.Refusal != "missing-file" {
		if err := os.WriteFile(in, []byte(txt.String()), 0644); err != nil {
			panic("harness: " + err.Error())
		}
	}
	out := filepath.Join(dir, "dist.txt")
	if k.Stdout {
		out = ""
	}
	k.Args = k.cliArgs(r, in, out)
	c.Input(k)
	res := cliExec(dir, k.Args)
	c.Count("cli:runs")
	c.Count("cli:format:" + k.Format)
	o := k.Opts
	ctx := func() string {
		return fmt.Sprintf("goalign %s\ninput file:\n%sexit %d, stderr: %s", strings.Join(k.Args, " "), txt.String(), res.exit, strings.TrimSpace(firstLines(res.stderr, 3)))
	}
	if strings.Contains(res.stderr, "panic:") || strings.Contains(res.stderr, "goroutine ") {
		c.Failf("cli:crash", "the command crashed\n%s\n%s", ctx(), firstLines(res.stderr, 30))
		return
	}
	if k.Refusal != "" {
		c.Count("cli:refusal:" + k.Refusal)
		if cliMustRefuse(k.Refusal) {
			if res.exit == 0 {
				c.Failf("cli:refusal-expected:"+k.Refusal, "exit status 0 for a request that cannot be served (%s)\n%s", k.Refusal, ctx())
			} else if strings.TrimSpace(res.stderr) == "" {
				c.Failf("cli:refusal-without-message", "exit status %d without any message (%s)\n%s", res.exit, k.Refusal, ctx())
			}
			return
		}
		// nucleotide-only flags / a forced nucleotide alphabet: refused, or served with the flag ignored
		if res.exit != 0 {
			c.Count("cli:refused:" + k.Refusal)
			return
		}
		c.Count("cli:served:" + k.Refusal)
		if k.Refusal == "alphabet-nt" {
			return // a protein distance on an alignment declared as nucleotides: no documented meaning
		}
	}
	c.Count("cli:model-flag:" + k.ModelArg)
	if res.exit != 0 {
		if strings.Contains(res.stderr, "not implemented") {
			c.Failf("cli:documented-model-refused", "the model name %q (help text of the command: Proteins: DAYHOFF, JTT, MtRev, LG, WAG; models of the property: + hivb, ab) is refused\n%s", k.ModelArg, ctx())
			return
		}
		c.Failf("cli:unexpected-error", "the command failed on a valid request\n%s", ctx())
		return
	}
	text := res.stdout
	if !k.Stdout {
		b, err := os.ReadFile(out)
		if err != nil {
			c.Failf("cli:no-output-file", "-o %s: %v\n%s", out, err, ctx())
			return
		}
		text = string(b)
		if strings.TrimSpace(res.stdout) != "" {
			c.Failf("cli:stdout-with-output-file", "matrix expected in the -o file only, stdout holds %q\n%s", firstLines(res.stdout, 3), ctx())
			return
		}
		c.Count("cli:output:file")
	} else {
		c.Count("cli:output:stdout")
	}
	mats, perr := parseMatrices(text)
	if perr != nil {
		c.Failf("cli:matrix-format", "%v\noutput:\n%s\n%s", perr, firstLines(text, 12), ctx())
		return
	}
	if len(mats) != len(k.Aligns) {
		c.Failf("cli:matrix-count", "%d matrices written for %d alignments in the input\noutput:\n%s\n%s", len(mats), len(k.Aligns), firstLines(text, 12), ctx())
		return
	}
	if len(k.Aligns) > 1 {
		c.Count("cli:several-alignments")
	}
	optimised := 0
	for a, rows := range k.Aligns {
		m := mats[a]
		if strings.Join(m.names, "\x00") != strings.Join(k.Names[a], "\x00") {
			c.Failf("cli:matrix-names", "matrix %d is labelled %q, the alignment holds %q\n%s", a+1, m.names, k.Names[a], ctx())
			return
		}
		// the help text does not say which amino acid frequencies the command uses: those of the model, or those of the alignment
		v := evalMatrix(rows, o, m.vals)
		freqs := "model"
		if v.level > 0 {
			o2 := o
			o2.ModelFreqs = false
			if v2 := evalMatrix(rows, o2, m.vals); v2.level < v.level {
				v, freqs = v2, "empirical"
			}
		}
		if v.level > 0 {
			c.Failf("mldist:"+v.sig, "cli: goalign %s (matrix %d of %d) %s\nrows=%q\n%s\nmatrix written: %v", strings.Join(k.Args, " "), a+1, len(mats), o, rows, v.msg, m.toks)
			return
		}
		c.Count("cli:frequencies-matched:" + freqs)
		c.Count("cli:matrices-checked")
		c.Count("cli:model:" + o.ModelName)
		for cl, nb := range v.obs.classes {
			c.Add("cli:pair:"+cl, nb)
		}
		optimised += v.obs.classes["optimised"]
	}
	if o.Gamma {
		c.Count("cli:alpha")
	} else {
		c.Count("cli:no-alpha")
	}
	if o.RmGaps {
		c.Count("cli:rm-gaps")
	}
	if k.Threads > 0 {
		c.Count("cli:threads")
	}
	if k.Alphabet != "" {
		c.Count("cli:alphabet:" + k.Alphabet)
	}
	if k.Average {
		avgOut := filepath.Join(dir, "avg.txt")
		args2 := append([]string{}, k.Args...)
		if !k.Stdout {
			for i := range args2 {
				if args2[i] == out {
					args2[i] = avgOut
				}
			}
		}
		args2 = append(args2, pickS(r, "-a", "--average"))
		res2 := cliExec(dir, args2)
		c.Count("cli:runs")
		ctx2 := func() string {
			return fmt.Sprintf("goalign %s\ninput file:\n%sexit %d, stderr: %s", strings.Join(args2, " "), txt.String(), res2.exit, strings.TrimSpace(firstLines(res2.stderr, 3)))
		}
		if strings.Contains(res2.stderr, "panic:") || strings.Contains(res2.stderr, "goroutine ") {
			c.Failf("cli:crash", "the command crashed\n%s\n%s", ctx2(), firstLines(res2.stderr, 30))
			return
		}
		if res2.exit != 0 {
			c.Failf("cli:average:unexpected-error", "the command failed with -a although it succeeds without\n%s", ctx2())
			return
		}
		t2 := res2.stdout
		if !k.Stdout {
			b, err := os.ReadFile(avgOut)
			if err != nil {
				c.Failf("cli:no-output-file", "-o %s: %v\n%s", avgOut, err, ctx2())
				return
			}
			t2 = string(b)
		}
		f := strings.Fields(t2)
		if len(f) != len(k.Aligns) || strings.Count(t2, "\n") != len(k.Aligns) {
			c.Failf("cli:average:format", "%d alignments in the input, -a wrote %q\n%s", len(k.Aligns), t2, ctx2())
			return
		}
		for a := range k.Aligns {
			got, err := strconv.ParseFloat(f[a], 64)
			if err != nil {
				c.Failf("cli:average:format", "%q is not a number\n%s", f[a], ctx2())
				return
			}
			sum, nb := 0.0, 0
			n := len(k.Aligns[a])
			for i := 0; i < n; i++ {
				for j := i + 1; j < n; j++ {
					if v := mats[a].vals[i][j]; !math.IsNaN(v) {
						sum += v
						nb++
					}
				}
			}
			if !sameAvg(got, sum/float64(nb)) {
				c.Failf("cli:average:value", "alignment %d: -a wrote %s, the matrix written without -a has mean %.12f over its %d pairs\nmatrix: %v\n%s", a+1, f[a], sum/float64(nb), nb, mats[a].toks, ctx2())
				return
			}
		}
		c.Count("cli:average")
	}
	if optimised > 0 {
		c.NonTrivial("cli", fmt.Sprint(k.Aligns), o.String(), k.Format, k.ModelArg)
	}
	c.Note("goalign %s -> %d matrices", strings.Join(k.Args[4:], " "), len(mats))
}

func firstLines(s string, n int) string {
	l := strings.SplitAfterN(s, "\n", n+1)
	if len(l) > n {
		l = l[:n]
	}
	return strings.Join(l, "")
}

// ---------------------------------------------------------------- goalign build distboot

// bootCase: `goalign build distboot -m <protein model>` (cmd/distboot.go): n bootstrap replicates of the FIRST
// alignment of the input, one distance matrix per replicate. With --seed the replicates are those of math/rand
// seeded with the same value followed by Alignment.BuildBootstrap(frac) per replicate (checked once per process
// against the alignments written by `goalign build seqboot --seed`); every matrix written must pass the likelihood
// oracle on its replicate.
type bootCase struct {
	Aligns   [][]string `json:"alignments"`
	Names    [][]string `json:"names"`
	Format   string     `json:"format"`
	ModelArg string     `json:"model_flag"`
	Opts     opts       `json:"opts"`
	N        int        `json:"nboot"`   // 0: -n not given (documented default 1)
	Frac     float64    `json:"frac"`    // 0: -f not given (documented default 1.0)
	Seed     int64      `json:"seed"`    // -1: --seed not given
	Threads  int        `json:"threads"` // 0: -t not given
	Stdout   bool       `json:"stdout"`
	Alphabet string     `json:"alphabet"`
	Refusal  string     `json:"refusal,omitempty"`
	Args     []string   `json:"args"`
}

var bootFormats = []string{"fasta", "phylip", "phylip", "auto-phylip", "phylip-strict", "auto-fasta"}
var bootRefusals = []string{"unknown-model", "unknown-flag", "missing-file", "nboot-not-a-number"}

func genBootCase(r *gen.Rand, j int) bootCase {
	k := bootCase{Seed: int64(r.Intn(1000000))}
	ma := cliModelArgs[j%len(cliModelArgs)]
	k.ModelArg = ma.arg
	k.Format = bootFormats[(j/len(cliModelArgs))%len(bootFormats)]
	nal := 1
	if strings.Contains(k.Format, "phylip") {
		nal = r.PickInt([]int{1, 2, 2}) // "will take the first one only"
	}
	for a := 0; a < nal; a++ {
		rows, _ := genRows(r)
		for len(rows[0]) < 4 || len(rows[0]) > 120 {
			rows, _ = genRows(r)
		}
		names := make([]string, len(rows))
		for i := range rows {
			names[i] = "s" + gen.Itoa(i)
			if a > 0 {
				names[i] = "other" + gen.Itoa(i)
			}
		}
		k.Aligns = append(k.Aligns, rows)
		k.Names = append(k.Names, names)
	}
	o := opts{Model: ma.model, ModelName: modelNames[ma.model], ModelFreqs: true, WKind: "nil"}
	if r.Chance(0.5) {
		o.Gamma = true
		o.Alpha = r.PickF(alphas)
	}
	o.RmGaps = r.Chance(0.4)
	k.Opts = o
	k.N = r.PickInt([]int{0, 1, 2, 3})
	if r.Chance(0.5) {
		k.Frac = r.PickF([]float64{0.5, 0.75, 1})
	}
	if r.Chance(0.4) {
		k.Threads = r.PickInt([]int{1, 2, 4})
	}
	k.Stdout = r.Chance(0.3)
	k.Alphabet = r.PickStr([]string{"", "", "aa"})
	for _, rows := range k.Aligns {
		if !detectedAA(rows) {
			k.Alphabet = "aa"
		}
	}
	if j%9 == 8 {
		k.Refusal = bootRefusals[(j/9)%len(bootRefusals)]
	} else if j%9 == 4 {
		k.Seed = -1
	}
	return k
}

func mkAl(rows, names []string) align.Alignment {
	g := make(gen.Rows, len(rows))
	for i := range rows {
		g[i] = gen.Seq{Name: names[i], Seq: rows[i]}
	}
	return h.MkAlign(g, align.AMINOACIDS)
}

func alRows(al align.Alignment) []string {
	var rows []string
	for _, s := range h.Snap(al) {
		rows = append(rows, s.Seq)
	}
	return rows
}

// bootAssumption: 0 unknown, 1 holds, -1 broken (then the values of distboot are not compared: the floors are missed)
var bootAssumption int

// checkBootAssumption: `goalign build seqboot --seed S -n 2 -f F` writes the replicates that rand.Seed(S) + BuildBootstrap(F) give here.
func checkBootAssumption(dir string, rows, names []string, seed int64, frac float64) (bool, string) {
	in := filepath.Join(dir, "selfcheck.fa")
	var sb strings.Builder
	for i := range rows {
		fmt.Fprintf(&sb, ">%s\n%s\n", names[i], rows[i])
	}
	if err := os.WriteFile(in, []byte(sb.String()), 0644); err != nil {
		panic("harness: " + err.Error())
	}
	prefix := filepath.Join(dir, "selfcheck_boot")
	res := cliExec(dir, []string{"build", "seqboot", "-i", in, "--alphabet", "aa", "--seed", strconv.FormatInt(seed, 10), "-n", "2", "-f", strconv.FormatFloat(frac, 'g', -1, 64), "-o", prefix})
	if res.exit != 0 {
		return false, "build seqboot failed: " + firstLines(res.stderr, 2)
	}
	rand.Seed(seed)
	al := mkAl(rows, names)
	for i := 0; i < 2; i++ {
		want := alRows(al.BuildBootstrap(frac))
		b, err := os.ReadFile(prefix + strconv.Itoa(i) + ".fa")
		if err != nil {
			return false, err.Error()
		}
		var got []string
		for _, ln := range strings.Split(string(b), "\n") {
			if strings.HasPrefix(ln, ">") {
				got = append(got, "")
			} else if len(got) > 0 {
				got[len(got)-1] += strings.TrimSpace(ln)
			}
		}
		if strings.Join(got, "/") != strings.Join(want, "/") {
			return false, fmt.Sprintf("replicate %d of build seqboot --seed %d: %q, rand.Seed + BuildBootstrap here: %q", i, seed, got, want)
		}
	}
	return true, ""
}

func runCliBoot(c *mon.Case) {
	r := c.R
	k := genBootCase(r, c.Idx/3)
	dir, err := os.MkdirTemp(cliDir, "case-")
	if err != nil {
		panic("harness: " + err.Error())
	}
	defer os.RemoveAll(dir)
	if c.Verbose {
		defer func() { os.RemoveAll(cliDir); cliBin, cliDir = "", "" }()
	}
	in := filepath.Join(dir, "input.aln")
	var txt strings.Builder
	kk := cliCase{Aligns: k.Aligns, Names: k.Names, Format: k.Format}
	for a := range k.Aligns {
		txt.WriteString(kk.inputText(a))
	}
	if k.Refusal != "missing-file" {
		if err := os.WriteFile(in, []byte(txt.String()), 0644); err != nil {
			panic("harness: " + err.Error())
		}
	}
	out := filepath.Join(dir, "boot.txt")
	a := []string{"build", "distboot", pickS(r, "-i", "--align"), in}
	switch k.Format {
	case "phylip":
		a = append(a, pickS(r, "-p", "--phylip"))
	case "phylip-strict":
		a = append(a, "-p", "--input-strict")
	case "auto-fasta", "auto-phylip":
		a = append(a, "--auto-detect")
	}
	if !k.Stdout {
		a = append(a, pickS(r, "-o", "--output"), out)
	}
	model := k.ModelArg
	if k.Refusal == "unknown-model" {
		model = pickS(r, "jtt2", "blosum62", "dayhof", "lgx")
	}
	a = append(a, pickS(r, "-m", "--model"), model)
	o := k.Opts
	if o.Gamma {
		a = append(a, "--alpha", strconv.FormatFloat(o.Alpha, 'g', -1, 64))
	}
	if o.RmGaps {
		a = append(a, pickS(r, "-r", "--rm-gaps"))
	}
	if k.N > 0 {
		n := strconv.Itoa(k.N)
		if k.Refusal == "nboot-not-a-number" {
			n = pickS(r, "x", "1.5", "")
		}
		a = append(a, pickS(r, "-n", "--nboot"), n)
	} else if k.Refusal == "nboot-not-a-number" {
		a = append(a, "--nboot=two")
	}
	if k.Frac > 0 {
		a = append(a, pickS(r, "-f", "--frac"), strconv.FormatFloat(k.Frac, 'g', -1, 64))
	}
	if k.Seed >= 0 {
		a = append(a, "--seed", strconv.FormatInt(k.Seed, 10))
	}
	if k.Threads > 0 {
		a = append(a, pickS(r, "-t", "--threads"), strconv.Itoa(k.Threads))
	}
	if k.Alphabet != "" {
		a = append(a, "--alphabet", k.Alphabet)
	}
	if k.Refusal == "unknown-flag" {
		a = append(a, pickS(r, "--gap-mut=1", "--average", "--replicates=3", "-z"))
	}
	k.Args = a
	c.Input(k)
	res := cliExec(dir, a)
	c.Count("cli:runs")
	c.Count("cli:distboot:runs")
	ctx := func() string {
		return fmt.Sprintf("goalign %s\ninput file:\n%sexit %d, stderr: %s", strings.Join(a, " "), txt.String(), res.exit, strings.TrimSpace(firstLines(res.stderr, 3)))
	}
	if strings.Contains(res.stderr, "panic:") || strings.Contains(res.stderr, "goroutine ") {
		c.Failf("cli:distboot:crash", "the command crashed\n%s\n%s", ctx(), firstLines(res.stderr, 30))
		return
	}
	if k.Refusal != "" {
		c.Count("cli:distboot:refusal:" + k.Refusal)
		if res.exit == 0 {
			c.Failf("cli:distboot:refusal-expected:"+k.Refusal, "exit status 0 for a request that cannot be served (%s)\n%s", k.Refusal, ctx())
		} else if strings.TrimSpace(res.stderr) == "" {
			c.Failf("cli:distboot:refusal-without-message", "exit status %d without any message (%s)\n%s", res.exit, k.Refusal, ctx())
		}
		return
	}
	c.Count("cli:distboot:model-flag:" + k.ModelArg)
	if res.exit != 0 {
		if strings.Contains(res.stderr, "not implemented") {
			c.Failf("cli:documented-model-refused", "build distboot: the model name %q (help text of the command: Proteins: DAYHOFF, JTT, MtRev, LG, WAG; models of the property: + hivb, ab) is refused\n%s", k.ModelArg, ctx())
			return
		}
		c.Failf("cli:distboot:unexpected-error", "the command failed on a valid request\n%s", ctx())
		return
	}
	text := res.stdout
	if !k.Stdout {
		b, err := os.ReadFile(out)
		if err != nil {
			c.Failf("cli:distboot:no-output-file", "-o %s: %v\n%s", out, err, ctx())
			return
		}
		text = string(b)
		if strings.TrimSpace(res.stdout) != "" {
			c.Failf("cli:distboot:stdout-with-output-file", "matrices expected in the -o file only, stdout holds %q\n%s", firstLines(res.stdout, 3), ctx())
			return
		}
	}
	mats, perr := parseMatrices(text)
	if perr != nil {
		c.Failf("cli:distboot:matrix-format", "%v\noutput:\n%s\n%s", perr, firstLines(text, 12), ctx())
		return
	}
	nrep := k.N
	if nrep == 0 {
		nrep = 1 // documented default
		c.Count("cli:distboot:nboot-default")
	} else {
		c.Count(fmt.Sprintf("cli:distboot:nboot:%d", k.N))
	}
	if len(mats) != nrep {
		c.Failf("cli:distboot:matrix-count", "%d matrices written for %d replicates asked\noutput:\n%s\n%s", len(mats), nrep, firstLines(text, 12), ctx())
		return
	}
	rows, names := k.Aligns[0], k.Names[0]
	for i, m := range mats {
		if strings.Join(m.names, "\x00") != strings.Join(names, "\x00") {
			c.Failf("cli:distboot:matrix-names", "matrix %d is labelled %q, the first alignment of the input holds %q\n%s", i+1, m.names, names, ctx())
			return
		}
	}
	if len(k.Aligns) > 1 {
		c.Count("cli:distboot:first-alignment-of-several")
	}
	c.Count("cli:distboot:format:" + k.Format)
	frac := k.Frac
	if frac == 0 {
		frac = 1
		c.Count("cli:distboot:frac-default")
	} else {
		c.Count("cli:distboot:frac:" + strconv.FormatFloat(k.Frac, 'g', -1, 64))
	}
	if k.Seed < 0 {
		// no --seed: the replicates cannot be known; shape, names and number of matrices only
		c.Count("cli:distboot:no-seed")
		return
	}
	if bootAssumption == 0 {
		ok, why := checkBootAssumption(dir, rows, names, k.Seed, frac)
		c.Count("cli:runs")
		bootAssumption = 1
		if !ok {
			bootAssumption = -1
			fmt.Fprintln(os.Stderr, "c17 cli: replicates of build seqboot are not reproduced in this process: "+why)
		}
	}
	if bootAssumption < 0 {
		c.Count("cli:distboot:replicates-not-reproducible-here")
		return
	}
	rand.Seed(k.Seed)
	al := mkAl(rows, names)
	optimised := 0
	for i, m := range mats {
		brows := alRows(al.BuildBootstrap(frac))
		v := evalMatrix(brows, o, m.vals)
		freqs := "model"
		if v.level > 0 {
			o2 := o
			o2.ModelFreqs = false
			if v2 := evalMatrix(brows, o2, m.vals); v2.level < v.level {
				v, freqs = v2, "empirical"
			}
		}
		if v.level > 0 {
			c.Failf("mldist:"+v.sig, "cli: goalign %s (replicate %d of %d) %s\nrows of the replicate=%q\n%s\nmatrix written: %v", strings.Join(a, " "), i+1, len(mats), o, brows, v.msg, m.toks)
			return
		}
		c.Count("cli:distboot:frequencies-matched:" + freqs)
		c.Count("cli:distboot:matrices-checked")
		for cl, nb := range v.obs.classes {
			c.Add("cli:distboot:pair:"+cl, nb)
		}
		optimised += v.obs.classes["optimised"]
	}
	if o.Gamma {
		c.Count("cli:distboot:alpha")
	} else {
		c.Count("cli:distboot:no-alpha")
	}
	if o.RmGaps {
		c.Count("cli:distboot:rm-gaps")
	}
	if k.Threads > 0 {
		c.Count("cli:distboot:threads")
	}
	if optimised > 0 {
		c.NonTrivial("cli-distboot", fmt.Sprint(rows), o.String(), fmt.Sprint(k.Seed, k.N, frac), k.ModelArg)
	}
	c.Note("goalign %s -> %d matrices", strings.Join(a[4:], " "), len(mats))
}
