// Fixed witnesses: literal expectations typed by hand (a third source next to the
// two table copies), boundary cases the random workload hits rarely, and the
// documented examples of the reference-guided translation.
package main

import (
	"fmt"
	"strings"

	"github.com/evolbioinfo/goalign/align"

	"verif/lib/gen"
	"verif/lib/h"
	"verif/lib/mon"
)

// translations under the three codes (standard, vertebrate mito, invertebrate mito)
type trW struct {
	nt   string
	want [3]string
}

var trWitnesses = []trW{
	// the codons on which the three codes differ
	{"AGA", [3]string{"R", "*", "S"}},
	{"AGG", [3]string{"R", "*", "S"}},
	{"ATA", [3]string{"I", "M", "M"}},
	{"TGA", [3]string{"*", "W", "W"}},
	{"AGAAGGATATGA", [3]string{"RRI*", "**MW", "SSMW"}},
	// stops, start, tryptophan
	{"TAATAGATGTGG", [3]string{"**MW", "**MW", "**MW"}},
	// U and lower case
	{"auggcuuaa", [3]string{"MA*", "MA*", "MA*"}},
	{"AUGGCUUGA", [3]string{"MA*", "MAW", "MAW"}},
	{"uuUUuCuUauug", [3]string{"FFLL", "FFLL", "FFLL"}},
	// ambiguity codes with one shared amino acid
	{"GAYAARYTRGGNTAR", [3]string{"DKLG*", "DKLG*", "DKLG*"}},
	{"MGRATHTGRAGR", [3]string{"RIXR", "XXW*", "XXWS"}},
	{"AGNAGYWSNCTNYTN", [3]string{"XSXLX", "XSXLX", "SSXLX"}},
	{"ACNGTNGCNCCNTCNCGN", [3]string{"TVAPSR", "TVAPSR", "TVAPSR"}},
	{"ATYATMATWATRATN", [3]string{"IIIXX", "IXXMX", "IXXMX"}},
	{"RAYNNNBBBrayGay", [3]string{"XXXXD", "XXXXD", "XXXXD"}},
	{"TGYTGBTGKTGS", [3]string{"CXXX", "CXXX", "CXXX"}},
	{"TTRTTYCTYCTRYTAYTG", [3]string{"LFLLLL", "LFLLLL", "LFLLLL"}},
	// gap codons and unknown symbols
	{"---ATG---", [3]string{"-M-", "-M-", "-M-"}},
	{"A---A---AN--", [3]string{"XXXX", "XXXX", "XXXX"}},
	{"???XXX...***OOOxxxooo", [3]string{"XXXXXXX", "XXXXXXX", "XXXXXXX"}},
	{"AC?ACXAC.AC*ACOACN", [3]string{"XXXXXT", "XXXXXT", "XXXXXT"}},
}

// frame arithmetic: number of residues for (L, frame); 0 = error
type frW struct{ L, frame, n int }

var frWitnesses = []frW{
	{0, 0, 0}, {1, 0, 0}, {2, 0, 0}, {3, 0, 1}, {4, 0, 1}, {5, 0, 1}, {6, 0, 2}, {7, 0, 2}, {8, 0, 2}, {9, 0, 3},
	{0, 1, 0}, {1, 1, 0}, {3, 1, 0}, {4, 1, 1}, {5, 1, 1}, {6, 1, 1}, {7, 1, 2}, {9, 1, 2}, {10, 1, 3},
	{2, 2, 0}, {4, 2, 0}, {5, 2, 1}, {6, 2, 1}, {7, 2, 1}, {8, 2, 2}, {10, 2, 2}, {11, 2, 3},
}

// reference-guided translation: the examples of docs/commands/translate.md whose text is
// self-consistent (first reference codon and what replaces it), standard code
type brW struct {
	ref, seq       string
	refPre, seqPre string // what the first reference codon is replaced by
}

var brWitnesses = []brW{
	{"AC--GTACGT", "ACTTGTACGT", "T", "X"},       // ex 1: ACTTG, 5 % 3 != 0 => frameshift
	{"AC---GTACGT", "ACTTTGTACGT", "T-", "TL"},   // ex 2: insertion of one codon
	{"ACGTACGT", "A--TACGT", "T", "X"},           // ex 3: deletion that is not a whole codon
	{"AC----GTACGT", "ACT--TGTACGT", "T-", "XX"}, // ex 5: ACTTG on two residue columns
}

type caW struct {
	prot, nt gen.Rows
	want     gen.Rows // nil = error expected
}

var caWitnesses = []caW{
	{gen.Rows{{Name: "a", Seq: "M-A*"}, {Name: "b", Seq: "MKA-"}}, gen.Rows{{Name: "a", Seq: "ATGGCTTAAGG"}, {Name: "b", Seq: "ATGAAAGCC"}}, gen.Rows{{Name: "a", Seq: "ATG---GCTTAA"}, {Name: "b", Seq: "ATGAAAGCC---"}}},
	{gen.Rows{{Name: "a", Seq: "--M"}, {Name: "b", Seq: "MK-"}, {Name: "c", Seq: "-W-"}}, gen.Rows{{Name: "c", Seq: "ugga"}, {Name: "b", Seq: "atgaar"}, {Name: "a", Seq: "ATGCC"}}, gen.Rows{{Name: "a", Seq: "------ATG"}, {Name: "b", Seq: "atgaar---"}, {Name: "c", Seq: "---ugg---"}}},
	{gen.Rows{{Name: "a", Seq: "MA"}}, gen.Rows{{Name: "a", Seq: "ATGGC"}}, nil},     // shorter than the protein
	{gen.Rows{{Name: "a", Seq: "MA"}}, gen.Rows{{Name: "a", Seq: "ATGGCTTAA"}}, nil}, // three bases left over
	{gen.Rows{{Name: "a", Seq: "MA"}, {Name: "b", Seq: "MA"}}, gen.Rows{{Name: "a", Seq: "ATGGCT"}}, nil},
}

type witness struct {
	name string
	run  func(c *mon.Case)
}

var witnesses []witness

func init() {
	for _, w := range trWitnesses {
		w := w
		witnesses = append(witnesses, witness{"translate " + w.nt, func(c *mon.Case) { runTrWitness(c, w) }})
	}
	witnesses = append(witnesses, witness{"frame arithmetic", runFrWitness})
	witnesses = append(witnesses, witness{"three frames naming", runNamingWitness})
	for _, w := range brWitnesses {
		w := w
		witnesses = append(witnesses, witness{"by reference " + w.ref, func(c *mon.Case) { runBrWitness(c, w) }})
	}
	for i, w := range caWitnesses {
		w := w
		witnesses = append(witnesses, witness{"codon align " + gen.Itoa(i), func(c *mon.Case) { runCaWitness(c, w) }})
	}
	witnesses = append(witnesses, witness{"unknown genetic code", runCodeWitness})
}

func runWitness(c *mon.Case) {
	w := witnesses[c.Idx%len(witnesses)]
	c.Count("witness")
	w.run(c)
}

func runTrWitness(c *mon.Case, w trW) {
	c.Input(map[string]interface{}{"witness": "translation", "nucleotides": w.nt, "expected": w.want})
	c.NonTrivial("tr", w.nt)
	for code := 0; code < 3; code++ {
		if m := oracleTranslate(w.nt, 0, code); m != w.want[code] {
			panic(fmt.Sprintf("harness: model translates %q to %q under code %d, the hand-typed expectation is %q", w.nt, m, code, w.want[code]))
		}
		ctx := func() string { return fmt.Sprintf("%q under the %s code", w.nt, codeNames[code]) }
		tr, err := align.NewSequence("w", []byte(w.nt), "").Translate(0, code)
		if err != nil {
			c.Failf("Sequence.Translate:unexpected-error", "%s: %v", ctx(), err)
		} else if tr.Sequence() != w.want[code] {
			c.Failf("Sequence.Translate:residue", "%s: %q, expected %q", ctx(), tr.Sequence(), w.want[code])
		}
		rows := gen.Rows{{Name: "w", Seq: w.nt}, {Name: "w2", Seq: strings.ToLower(w.nt)}}
		checkSeqBagTranslate(c, rows, 0, code, true)
		checkAlignTranslate(c, rows, 0, code)
		// shifted by one and two symbols
		for f := 1; f < 3; f++ {
			sh := gen.Rows{{Name: "w", Seq: "GA"[:f] + w.nt}}
			checkSeqBagTranslate(c, sh, f, code, false)
			checkAlignTranslate(c, sh, f, code)
		}
	}
}

func runFrWitness(c *mon.Case) {
	c.Input(map[string]interface{}{"witness": "number of residues for every (length, frame) around the boundaries"})
	c.NonTrivial("fr")
	for _, w := range frWitnesses {
		if (w.L-w.frame)/3 != w.n && !(w.L-w.frame < 3 && w.n == 0) {
			panic("harness: wrong hand-typed residue count")
		}
		s := strings.Repeat("ATGGCCAAR", 3)[:w.L]
		ctx := func() string { return fmt.Sprintf("Translate(frame=%d) of %q (length %d)", w.frame, s, w.L) }
		tr, err := align.NewSequence("w", []byte(s), "").Translate(w.frame, 0)
		if w.n == 0 {
			if err == nil {
				c.Failf("Sequence.Translate:no-error-on-empty-result", "%s: no error, result %q", ctx(), tr.Sequence())
			}
		} else if err != nil {
			c.Failf("Sequence.Translate:unexpected-error", "%s: %v", ctx(), err)
		} else if len(tr.Sequence()) != w.n {
			c.Failf("Sequence.Translate:row-length", "%s: %d residues (%q), expected %d", ctx(), len(tr.Sequence()), tr.Sequence(), w.n)
		}
		rows := gen.Rows{{Name: "w", Seq: s}, {Name: "v", Seq: strings.Repeat("N", w.L)}}
		checkSeqBagTranslate(c, rows, w.frame, 0, false)
		checkAlignTranslate(c, rows, w.frame, 0)
	}
	// all three frames: an error below 5 nucleotides, three rows per sequence from 5 on
	for L := 0; L <= 9; L++ {
		s := strings.Repeat("ATGGCCAAR", 3)[:L]
		rows := gen.Rows{{Name: "w", Seq: s}}
		checkSeqBagTranslate(c, rows, -1, 0, false)
		checkAlignTranslate(c, rows, -1, 0)
	}
	// sequences of a bag have their own lengths; one too short sequence fails the call
	checkSeqBagTranslate(c, gen.Rows{{Name: "a", Seq: "ATGGCC"}, {Name: "b", Seq: "ATGGCCAA"}, {Name: "c", Seq: "ATG"}}, 0, 0, false)
	checkSeqBagTranslate(c, gen.Rows{{Name: "a", Seq: "ATGGCC"}, {Name: "b", Seq: "ATGGCCAA"}, {Name: "c", Seq: "ATG"}}, 1, 0, false)
	checkSeqBagTranslate(c, gen.Rows{{Name: "a", Seq: "ATGGCC"}, {Name: "b", Seq: "ATGGCCAA"}, {Name: "c", Seq: "ATGA"}}, 1, 0, false)
}

func runNamingWitness(c *mon.Case) {
	rows := gen.Rows{{Name: "s1", Seq: "ATGGCCAARTGA"}, {Name: "x_0", Seq: "auggccaartg"}, {Name: "s1_1", Seq: "TTTTTTTT"}}
	want := gen.Rows{{Name: "s1_0", Seq: "MAK*"}, {Name: "s1_1", Seq: "WPX"}, {Name: "s1_2", Seq: "GQX"},
		{Name: "x_0_0", Seq: "MAK"}, {Name: "x_0_1", Seq: "WPX"}, {Name: "x_0_2", Seq: "GQX"},
		{Name: "s1_1_0", Seq: "FF"}, {Name: "s1_1_1", Seq: "FF"}, {Name: "s1_1_2", Seq: "FF"}}
	c.Input(map[string]interface{}{"witness": "three frames", "rows": rows, "expected": want})
	c.NonTrivial("naming")
	if m, _ := expectedTranslation(rows, -1, 0); !h.EqRows(m, want) {
		panic("harness: model disagrees with the hand-typed three frame translation: " + h.Show(m))
	}
	sb := h.MkSeqBag(rows, align.NUCLEOTIDS)
	if err := sb.Translate(-1, 0); err != nil {
		// "s1" in frame 1 and the sequence "s1_1" ask for the same name; goalign renames, it must not fail
		c.Failf("SeqBag.Translate:unexpected-error", "three frames of %s: %v", h.Show(rows), err)
		return
	}
	got := h.Snap(sb)
	// the clash s1_1 (frame 1 of s1) / s1_1_* cannot occur: suffixes are always appended
	cmpRows(c, "SeqBag.Translate", got, want, func() string { return "three frames of " + h.Show(rows) })
}

func runBrWitness(c *mon.Case, w brW) {
	rows := gen.Rows{{Name: "ref", Seq: w.ref}, {Name: "seq", Seq: w.seq}}
	c.Input(map[string]interface{}{"witness": "documented example of translate --ref-seq", "rows": rows, "first reference codon becomes": []string{w.refPre, w.seqPre}})
	c.NonTrivial("br", w.ref, w.seq)
	al := h.MkAlign(rows, align.NUCLEOTIDS)
	ctx := func() string { return "TranslateByReference(0, standard, \"ref\") of " + h.Show(rows) }
	if err := al.TranslateByReference(0, 0, "ref"); err != nil {
		c.Failf("TranslateByReference:unexpected-error", "%s: %v", ctx(), err)
		return
	}
	got := h.Snap(al)
	if len(got) != 2 || got[0].Name != "ref" || got[1].Name != "seq" {
		c.Failf("TranslateByReference:row-name", "%s: result %s", ctx(), h.Show(got))
		return
	}
	if len(got[0].Seq) != len(got[1].Seq) || al.Length() != len(got[0].Seq) {
		c.Failf("TranslateByReference:not-rectangular", "%s: result %s Length()=%d", ctx(), h.Show(got), al.Length())
		return
	}
	if !strings.HasPrefix(got[0].Seq, w.refPre) || !strings.HasPrefix(got[1].Seq, w.seqPre) {
		c.Failf("TranslateByReference:documented-example", "%s: result %s; docs/commands/translate.md: the first reference codon is replaced by %q in ref and %q in seq", ctx(), h.Show(got), w.refPre, w.seqPre)
		return
	}
	if full := oracleTranslate(ungap(w.ref), 0, 0); !strings.HasPrefix(full, ungap(got[0].Seq)) {
		c.Failf("TranslateByReference:reference-not-prefix", "%s: reference row %q, translation of the ungapped reference %q", ctx(), got[0].Seq, full)
	}
}

func runCaWitness(c *mon.Case, w caW) {
	c.Input(map[string]interface{}{"witness": "codon alignment", "protein": w.prot, "nucleotides": w.nt, "expected": w.want})
	c.NonTrivial("ca", w.prot.Key(), w.nt.Key())
	pa := h.MkAlign(w.prot, align.AMINOACIDS)
	bag := h.MkSeqBag(w.nt, align.NUCLEOTIDS)
	ctx := func() string {
		return fmt.Sprintf("CodonAlign protein %s nucleotides %s", h.Show(w.prot), h.Show(w.nt))
	}
	res, err := pa.CodonAlign(bag)
	if w.want == nil {
		if err == nil {
			c.Failf("CodonAlign:mismatch-accepted", "%s: no error, result %s", ctx(), h.Show(h.Snap(res)))
		}
		return
	}
	if err != nil {
		c.Failf("CodonAlign:unexpected-error", "%s: %v", ctx(), err)
		return
	}
	if !cmpRows(c, "CodonAlign", h.Snap(res), w.want, ctx) {
		return
	}
	if res.Length() != 3*len(w.prot[0].Seq) {
		c.Failf("CodonAlign:length", "%s: Length()=%d", ctx(), res.Length())
	}
	if err := res.Translate(0, 0); err != nil {
		c.Failf("CodonAlign:retranslation-error", "%s: %v", ctx(), err)
		return
	}
	cmpRows(c, "CodonAlign:retranslation", h.Snap(res), w.prot, ctx)
}

func runCodeWitness(c *mon.Case) {
	c.Input(map[string]interface{}{"witness": "genetic codes 0,1,2 exist, any other number is refused"})
	c.NonTrivial("code")
	for _, code := range []int{-1, 3, 4, 5, 11, 1 << 20} {
		if _, err := align.NewSequence("w", []byte("ATGGCC"), "").Translate(0, code); err == nil {
			c.Failf("Sequence.Translate:unknown-code-accepted", "genetic code %d accepted", code)
		}
		rows := gen.Rows{{Name: "w", Seq: "ATGGCC"}}
		checkSeqBagTranslate(c, rows, 0, code, false)
		checkAlignTranslate(c, rows, 0, code)
		al := h.MkAlign(rows, align.NUCLEOTIDS)
		if err := al.TranslateByReference(0, code, "w"); err == nil {
			c.Failf("TranslateByReference:unknown-code-accepted", "genetic code %d accepted", code)
		}
	}
}
