// cli sub-check of C05: the same rule through `goalign translate` (cmd/translate.go). The binary is
// built once per process from the tree under test (VERIF_REPO) into the scratch directory; every case
// has its own directory, writes one input file (FASTA alignment, FASTA with sequences of unequal
// length for --unaligned, Phylip with 1..3 alignments for -p, either of them for --auto-detect), runs
// the command with a documented flag combination (--phase omitted/0/1/2/-1/3/4, --genetic-code
// omitted/standard/mitov/mitoi/unknown value, --ref-seq known/unknown/with --unaligned, -o or
// stdout) and compares the sequences written with the translation oracle of ref.go. With --ref-seq the
// expected rows are those of Alignment.TranslateByReference on the same rows (checked by sub byref)
// plus the relations of the statement.
package main

import (
	"bytes"
	"context"
	"fmt"
	"os"
	"os/exec"
	"path/filepath"
	"strconv"
	"strings"
	"time"

	"github.com/evolbioinfo/goalign/align"

	"verif/lib/gen"
	"verif/lib/h"
	"verif/lib/mon"
)

var cliBin, cliDir, cliBuildErr string

func cliSetup() bool {
	if cliBin != "" {
		return true
	}
	if cliBuildErr != "" {
		return false
	}
	repo := os.Getenv("VERIF_REPO")
	if repo == "" {
		repo = "/repo"
	}
	scratch := os.Getenv("VERIF_SCRATCH")
	if scratch == "" {
		scratch = os.TempDir()
	}
	dir, err := os.MkdirTemp(scratch, "c05-cli-")
	if err != nil {
		cliBuildErr = err.Error()
		fmt.Fprintln(os.Stderr, "c05 cli: "+cliBuildErr)
		return false
	}
	bin := filepath.Join(dir, "goalign")
	cmd := exec.Command("go", "build", "-o", bin, ".")
	cmd.Dir = repo
	env := []string{}
	for _, e := range os.Environ() {
		if !strings.HasPrefix(e, "GOFLAGS=") {
			env = append(env, e)
		}
	}
	cmd.Env = append(env, "GOFLAGS=-mod=readonly", "GOPROXY=off", "GOSUMDB=off", "GOTOOLCHAIN=local")
	if out, err := cmd.CombinedOutput(); err != nil {
		cliBuildErr = fmt.Sprintf("go build of %s failed: %v\n%s", repo, err, out)
		fmt.Fprintln(os.Stderr, "c05 cli: "+cliBuildErr)
		os.RemoveAll(dir)
		return false
	}
	cliBin, cliDir = bin, dir
	return true
}

// cliRun runs the binary in dir; exit = -1 when it had to be killed after 60 s.
func cliRun(dir string, args []string) (stdout, stderr string, exit int) {
	ctx, cancel := context.WithTimeout(context.Background(), 60*time.Second)
	defer cancel()
	cmd := exec.CommandContext(ctx, cliBin, args...)
	cmd.Dir = dir
	var so, se bytes.Buffer
	cmd.Stdout, cmd.Stderr = &so, &se
	err := cmd.Run()
	if ctx.Err() != nil {
		return so.String(), se.String(), -1
	}
	if err != nil {
		exit = 1
		if ee, ok := err.(*exec.ExitError); ok {
			exit = ee.ExitCode()
		}
	}
	return so.String(), se.String(), exit
}

func parseFasta(s string) gen.Rows {
	rows := gen.Rows{}
	for _, ln := range strings.Split(s, "\n") {
		ln = strings.TrimRight(ln, "\r")
		if strings.HasPrefix(ln, ">") {
			rows = append(rows, gen.Seq{Name: ln[1:]})
		} else if len(rows) > 0 {
			rows[len(rows)-1].Seq += strings.TrimSpace(ln)
		}
	}
	return rows
}

// parsePhylipMulti reads the (relaxed, possibly interleaved) Phylip text goalign writes: one or
// several alignments, each "  n  L" followed by n rows "name  blocks" and further blocks of n rows.
func parsePhylipMulti(s string) ([]gen.Rows, error) {
	var out []gen.Rows
	lines := strings.Split(s, "\n")
	i := 0
	next := func() (string, bool) {
		for i < len(lines) {
			l := strings.TrimRight(lines[i], "\r")
			i++
			if strings.TrimSpace(l) != "" {
				return l, true
			}
		}
		return "", false
	}
	for {
		hd, ok := next()
		if !ok {
			return out, nil
		}
		f := strings.Fields(hd)
		if len(f) != 2 {
			return out, fmt.Errorf("phylip header expected, got %q", hd)
		}
		n, e1 := strconv.Atoi(f[0])
		L, e2 := strconv.Atoi(f[1])
		if e1 != nil || e2 != nil || n < 0 || L < 0 {
			return out, fmt.Errorf("phylip header expected, got %q", hd)
		}
		rows := make(gen.Rows, n)
		if L == 0 { // nothing but the header is written for an alignment without columns
			out = append(out, rows)
			continue
		}
		for k := 0; k < n; k++ {
			l, ok := next()
			if !ok {
				return out, fmt.Errorf("phylip: %d rows announced, %d found", n, k)
			}
			ff := strings.Fields(l)
			rows[k] = gen.Seq{Name: ff[0], Seq: strings.Join(ff[1:], "")}
		}
		for n > 0 && len(rows[0].Seq) < L {
			for k := 0; k < n; k++ {
				l, ok := next()
				if !ok {
					return out, fmt.Errorf("phylip: rows shorter than the announced length %d", L)
				}
				rows[k].Seq += strings.Join(strings.Fields(l), "")
			}
		}
		for k := range rows {
			if len(rows[k].Seq) != L {
				return out, fmt.Errorf("phylip: row %d holds %d residues, header says %d", k, len(rows[k].Seq), L)
			}
		}
		out = append(out, rows)
	}
}

type cliCase struct {
	Mode    string     `json:"mode"` // fasta | phylip | auto-fasta | auto-phylip | unaligned
	Alns    []gen.Rows `json:"alignments"`
	Phase   string     `json:"phase"`        // "<default>": flag not given
	Code    string     `json:"genetic_code"` // "<default>": flag not given
	Ref     string     `json:"ref_seq"`      // "": flag not given
	RefKind string     `json:"ref_kind"`     // none | known | unknown
	Stdout  bool       `json:"to_stdout"`
	Extra   []string   `json:"extra_flags,omitempty"`
	Args    []string   `json:"args"`
	Literal []gen.Rows `json:"expected_literal,omitempty"` // documented example: the rows docs/commands/translate.md shows
}

var docSeqFa = gen.Rows{{Name: "Seq0000", Seq: "TTTCTACCCCA"}, {Name: "Seq0001", Seq: "CTTAAAGATAG"}, {Name: "Seq0002", Seq: "TAACACTTGAA"}}

// fixed command lines: the examples of docs/commands/translate.md, the codons on which the three
// codes differ under every spelling of --genetic-code, state between the alignments of one Phylip
// file, --ref-seq with every phase
var cliWitnesses = []cliCase{
	{Mode: "fasta", Alns: []gen.Rows{docSeqFa}, Phase: "1", Code: "<default>", RefKind: "none", Stdout: true,
		Literal: []gen.Rows{{{Name: "Seq0000", Seq: "FYP"}, {Name: "Seq0001", Seq: "LKI"}, {Name: "Seq0002", Seq: "NT*"}}}},
	{Mode: "fasta", Alns: []gen.Rows{docSeqFa}, Phase: "-1", Code: "<default>", RefKind: "none", Stdout: true,
		Literal: []gen.Rows{{{Name: "Seq0000_0", Seq: "FLP"}, {Name: "Seq0000_1", Seq: "FYP"}, {Name: "Seq0000_2", Seq: "STP"}, {Name: "Seq0001_0", Seq: "LKD"}, {Name: "Seq0001_1", Seq: "LKI"}, {Name: "Seq0001_2", Seq: "*R*"}, {Name: "Seq0002_0", Seq: "*HL"}, {Name: "Seq0002_1", Seq: "NT*"}, {Name: "Seq0002_2", Seq: "TLE"}}}},
	{Mode: "fasta", Alns: []gen.Rows{{{Name: "d", Seq: "AGAAGGATATGA"}}}, Phase: "<default>", Code: "<default>", RefKind: "none", Literal: []gen.Rows{{{Name: "d", Seq: "RRI*"}}}},
	{Mode: "fasta", Alns: []gen.Rows{{{Name: "d", Seq: "AGAAGGATATGA"}}}, Phase: "0", Code: "standard", RefKind: "none", Literal: []gen.Rows{{{Name: "d", Seq: "RRI*"}}}},
	{Mode: "fasta", Alns: []gen.Rows{{{Name: "d", Seq: "AGAAGGATATGA"}}}, Phase: "0", Code: "mitov", RefKind: "none", Literal: []gen.Rows{{{Name: "d", Seq: "**MW"}}}},
	{Mode: "fasta", Alns: []gen.Rows{{{Name: "d", Seq: "AGAAGGATATGA"}}}, Phase: "0", Code: "mitoi", RefKind: "none", Literal: []gen.Rows{{{Name: "d", Seq: "SSMW"}}}},
	{Mode: "unaligned", Alns: []gen.Rows{{{Name: "d", Seq: "GAGAAGGATATGA"}, {Name: "e", Seq: "cagaugaT"}}}, Phase: "1", Code: "mitov", RefKind: "none", Literal: []gen.Rows{{{Name: "d", Seq: "**MW"}, {Name: "e", Seq: "*W"}}}},
	{Mode: "unaligned", Alns: []gen.Rows{{{Name: "d", Seq: "GAGAAGGATATGA"}, {Name: "e", Seq: "cagaugaT"}}}, Phase: "1", Code: "mitoi", RefKind: "none", Literal: []gen.Rows{{{Name: "d", Seq: "SSMW"}, {Name: "e", Seq: "SW"}}}},
	{Mode: "fasta", Alns: []gen.Rows{{{Name: "d", Seq: "AGAAGGATATGA"}}}, Phase: "0", Code: "mito", RefKind: "none"},
	{Mode: "fasta", Alns: []gen.Rows{{{Name: "d", Seq: "AGAAGGATATGA"}}}, Phase: "0", Code: "Standard", RefKind: "none"},
	{Mode: "unaligned", Alns: []gen.Rows{{{Name: "d", Seq: "AGAAGGATATGA"}}}, Phase: "0", Code: "2", RefKind: "none"},
	// several alignments in one Phylip file, every phase: each one is translated on its own
	{Mode: "phylip", Alns: []gen.Rows{{{Name: "a", Seq: "ATGGCCAGA"}, {Name: "b", Seq: "ATGTTTTGA"}}, {{Name: "c", Seq: "ATGAGG"}, {Name: "d", Seq: "TTTATA"}}, {{Name: "a", Seq: "TGAAGAATAAGGCC"}}}, Phase: "0", Code: "mitov", RefKind: "none",
		Literal: []gen.Rows{{{Name: "a", Seq: "MA*"}, {Name: "b", Seq: "MFW"}}, {{Name: "c", Seq: "M*"}, {Name: "d", Seq: "FM"}}, {{Name: "a", Seq: "W*M*"}}}},
	{Mode: "phylip", Alns: []gen.Rows{{{Name: "a", Seq: "ATGGCCAGACT"}, {Name: "b", Seq: "ATGTTTTGACT"}}, {{Name: "c", Seq: "ATGAGGCA"}, {Name: "d", Seq: "TTTATAGA"}}}, Phase: "-1", Code: "<default>", RefKind: "none"},
	{Mode: "phylip", Alns: []gen.Rows{{{Name: "a", Seq: "ATGGCCAGA"}, {Name: "b", Seq: "ATGTTTTGA"}}, {{Name: "c", Seq: "ATGAGGC"}, {Name: "d", Seq: "TTTATAG"}}}, Phase: "2", Code: "mitoi", RefKind: "none"},
	{Mode: "auto-phylip", Alns: []gen.Rows{{{Name: "a", Seq: "ATGGCCAGA"}, {Name: "b", Seq: "ATGTTTTGA"}}, {{Name: "c", Seq: "ATGAGGC"}, {Name: "d", Seq: "TTTATAG"}}}, Phase: "1", Code: "mitoi", RefKind: "none"},
	// a later alignment of the file that is too short for the phase is refused
	{Mode: "phylip", Alns: []gen.Rows{{{Name: "a", Seq: "ATGGCC"}, {Name: "b", Seq: "ATGTTT"}}, {{Name: "c", Seq: "ATG"}, {Name: "d", Seq: "TTT"}}}, Phase: "1", Code: "<default>", RefKind: "none"},
	// --ref-seq: documented examples, every phase, unknown name, ignored with --unaligned
	{Mode: "fasta", Alns: []gen.Rows{{{Name: "ref", Seq: "AC---GTACGT"}, {Name: "seq", Seq: "ACTTTGTACGT"}}}, Phase: "<default>", Code: "<default>", Ref: "ref", RefKind: "known"},
	{Mode: "fasta", Alns: []gen.Rows{{{Name: "seq", Seq: "A--TACGT"}, {Name: "ref", Seq: "ACGTACGT"}}}, Phase: "0", Code: "standard", Ref: "ref", RefKind: "known"},
	{Mode: "fasta", Alns: []gen.Rows{{{Name: "ref", Seq: "ATGGCCTTTAA"}, {Name: "seq", Seq: "ATG---TTNAA"}}}, Phase: "-1", Code: "<default>", Ref: "ref", RefKind: "known"},
	{Mode: "fasta", Alns: []gen.Rows{{{Name: "ref", Seq: "ATGGCCTTTAA"}, {Name: "seq", Seq: "ATG---TTNAA"}}}, Phase: "1", Code: "<default>", Ref: "seq", RefKind: "known"},
	{Mode: "fasta", Alns: []gen.Rows{{{Name: "ref", Seq: "ATGGCCTTTAA"}, {Name: "seq", Seq: "ATG---TTNAA"}}}, Phase: "2", Code: "mitov", Ref: "seq", RefKind: "known"},
	{Mode: "fasta", Alns: []gen.Rows{{{Name: "ref", Seq: "ATGGCCTTTAA"}, {Name: "seq", Seq: "ATG---TTNAA"}}}, Phase: "0", Code: "<default>", Ref: "nobody", RefKind: "unknown"},
	{Mode: "unaligned", Alns: []gen.Rows{{{Name: "ref", Seq: "ATGGCCTTTAA"}, {Name: "seq", Seq: "ATGTTNA"}}}, Phase: "0", Code: "<default>", Ref: "nobody", RefKind: "unknown"},
	{Mode: "phylip", Alns: []gen.Rows{{{Name: "r", Seq: "ATG---GCCAGA"}, {Name: "b", Seq: "ATGTTTTGAAGA"}}, {{Name: "b", Seq: "ATGAGGC--"}, {Name: "r", Seq: "TTT--ATAG"}}}, Phase: "0", Code: "mitov", Ref: "r", RefKind: "known"},
	// refused inputs: protein alignment, too short
	{Mode: "fasta", Alns: []gen.Rows{{{Name: "p", Seq: "MAEFLIPQ"}}}, Phase: "0", Code: "<default>", RefKind: "none"},
	{Mode: "fasta", Alns: []gen.Rows{{{Name: "p", Seq: "AT"}}}, Phase: "<default>", Code: "<default>", RefKind: "none"},
	{Mode: "fasta", Alns: []gen.Rows{{{Name: "p", Seq: "ATGG"}}}, Phase: "-1", Code: "<default>", RefKind: "none"},
	{Mode: "fasta", Alns: []gen.Rows{{{Name: "p", Seq: "ATGGC"}}}, Phase: "-1", Code: "<default>", RefKind: "none"},
}

// the codons on which the three tables differ, in every spelling
var cliDiffCodons = []string{"AGA", "AGG", "ATA", "TGA", "aga", "agg", "aua", "uga", "AGR", "AUA", "UGA", "TGR", "ATH", "MGR"}

func genCliNt(r *gen.Rand, L int, lettersOnly bool, gaps bool) string {
	var b []byte
	for len(b) < L {
		switch x := r.Intn(20); {
		case x < 7:
			b = append(b, r.PickStr(cliDiffCodons)...)
		case x < 9:
			b = append(b, r.Str(3, "ACGTRYSWKMBDHVN")...)
		case x < 10 && gaps:
			b = append(b, "---"...)
		case x < 11:
			b = append(b, r.Str(3, "ACGTUacgtun")...)
		case x < 12 && !lettersOnly:
			b = append(b, r.Str(3, "ACGTACGT?.*XO-")...)
		case x < 13 && gaps:
			b = append(b, r.Str(3, "ACGT-")...)
		default:
			b = append(b, r.Str(3, "ACGT")...)
		}
	}
	return string(b[:L])
}

func genCliAln(r *gen.Rand, aligned, lettersOnly bool, phase int, minOK bool) gen.Rows {
	n := r.PickInt([]int{1, 2, 2, 3, 3, 4, 5})
	L := r.PickInt([]int{3, 4, 5, 6, 7, 8, 9, 12, 14, 20, 30, 45, 58})
	if r.Chance(0.1) {
		L = r.PickInt([]int{1, 2, 3, 4, 5})
	}
	need := 3 + phase
	if phase < 0 {
		need = 5
	}
	if minOK && L < need {
		L = need + r.Intn(6)
	}
	if lettersOnly && phase < 0 && L >= 5 { // (Phylip output)
		// three frames of an alignment: rows of one length only when L mod 3 == 2 (recorded finding of C01)
		L = L - L%3 + 2
	}
	rows := make(gen.Rows, n)
	style := r.Intn(4)
	for i := range rows {
		li := L
		if !aligned && r.Chance(0.7) {
			li = r.Range(1, 60)
			if minOK && li < need {
				li = need
			}
		}
		pad := 0
		if phase > 0 {
			pad = phase
		}
		if pad > li {
			pad = li
		}
		s := r.Str(pad, "ACGT") + genCliNt(r, li-pad, lettersOnly, aligned || r.Chance(0.2))
		rows[i] = gen.Seq{Seq: s}
		switch style {
		case 0:
			rows[i].Name = "s" + gen.Itoa(i)
		case 1:
			rows[i].Name = fmt.Sprintf("Seq%04d", i)
		case 2:
			rows[i].Name = r.PickStr([]string{"x", "s1", "a_b", "n"}) + "_" + gen.Itoa(i) // names that look like the suffix of --phase -1
		default:
			rows[i].Name = r.PickStr([]string{"standard", "mitov", "ref", "GAP", "0x", "p-1_", "A|b/c.1", "sp#", "é"}) + gen.Itoa(i)
		}
	}
	return rows
}

func genCli(r *gen.Rand, idx int) cliCase {
	k := cliCase{RefKind: "none"}
	k.Mode = []string{"fasta", "unaligned", "phylip", "fasta", "auto-phylip", "phylip", "unaligned", "auto-fasta"}[idx%8]
	k.Phase = []string{"<default>", "0", "1", "2", "-1", "1", "2", "-1", "0", "3", "<default>"}[(idx/8)%11]
	if k.Phase == "3" && r.Bool() {
		k.Phase = "4"
	}
	k.Code = r.PickStr([]string{"<default>", "standard", "mitov", "mitov", "mitoi", "mitoi"})
	if r.Chance(0.06) {
		k.Code = r.PickStr([]string{"mito", "MITOV", "Standard", "vertebrate", "1", "standard ", "mitoi,mitov", "none"})
	}
	phase := 0
	if k.Phase != "<default>" {
		phase, _ = strconv.Atoi(k.Phase)
	}
	aligned := k.Mode != "unaligned"
	phy := strings.HasSuffix(k.Mode, "phylip")
	na := 1
	if phy {
		na = r.PickInt([]int{1, 2, 2, 3, 3})
	}
	tooShort := r.Chance(0.08)
	for a := 0; a < na; a++ {
		k.Alns = append(k.Alns, genCliAln(r, aligned, phy, phase, !tooShort))
	}
	switch x := r.Intn(10); {
	case x < 4 && aligned:
		// a name that every alignment of the file carries
		k.Ref, k.RefKind = k.Alns[0][r.Intn(len(k.Alns[0]))].Name, "known"
		for a := 1; a < na; a++ {
			k.Alns[a][r.Intn(len(k.Alns[a]))].Name = k.Ref
			seen := map[string]bool{}
			for i := range k.Alns[a] { // keep names unique
				for seen[k.Alns[a][i].Name] {
					k.Alns[a][i].Name += "'"
				}
				seen[k.Alns[a][i].Name] = true
			}
			if !seen[k.Ref] {
				k.Alns[a][0].Name = k.Ref
			}
		}
	case x < 5:
		k.Ref, k.RefKind = r.PickStr([]string{"nobody", "S0", "s", "0"}), "unknown"
	case x < 6 && !aligned:
		k.Ref, k.RefKind = k.Alns[0][r.Intn(len(k.Alns[0]))].Name, "known"
	}
	if r.Chance(0.04) && !phy { // not a nucleotide alignment
		rows := k.Alns[0]
		i := r.Intn(len(rows))
		b := []byte(rows[i].Seq)
		b[r.Intn(len(b))] = r.Pick("EFILPQZ")
		rows[i].Seq = string(b)
	}
	k.Stdout = r.Chance(0.35)
	if k.Mode == "unaligned" && r.Chance(0.2) {
		k.Extra = append(k.Extra, r.PickStr([]string{"-p", "-x", "-u"})) // documented as ignored with --unaligned
	}
	if phy && r.Chance(0.3) {
		k.Extra = append(k.Extra, r.PickStr([]string{"--one-line", "--no-block"}))
	}
	return k
}

var cliCodeNumber = map[string]int{"<default>": 0, "standard": 0, "mitov": 1, "mitoi": 2}

func isNtCompat(s string) bool {
	for i := 0; i < len(s); i++ {
		if strings.IndexByte(ntCompatUpper+ntCompatLower, s[i]) < 0 {
			return false
		}
	}
	return true
}

func runCli(c *mon.Case) {
	if !cliSetup() {
		return // the floors cli:* are missed: INCONCLUSIVE, not a violation
	}
	var k cliCase
	if c.Idx < len(cliWitnesses) {
		k = cliWitnesses[c.Idx]
		c.Count("cli:fixed-command-line")
	} else {
		k = genCli(c.R, c.Idx)
	}
	dir, err := os.MkdirTemp(cliDir, "case-")
	if err != nil {
		panic("harness: " + err.Error())
	}
	defer os.RemoveAll(dir)
	if c.Verbose { // single case replay: do not leave the binary behind
		defer func() { os.RemoveAll(cliDir); cliBin, cliDir = "", "" }()
	}
	phy := strings.HasSuffix(k.Mode, "phylip")
	var in strings.Builder
	for _, rows := range k.Alns {
		if phy {
			fmt.Fprintf(&in, "  %d  %d\n", len(rows), len(rows[0].Seq))
			for _, s := range rows {
				fmt.Fprintf(&in, "%s  %s\n", s.Name, s.Seq)
			}
		} else {
			for _, s := range rows {
				fmt.Fprintf(&in, ">%s\n%s\n", s.Name, s.Seq)
			}
		}
	}
	inFile, outFile := filepath.Join(dir, "in.txt"), filepath.Join(dir, "out.txt")
	if err := os.WriteFile(inFile, []byte(in.String()), 0644); err != nil {
		panic("harness: " + err.Error())
	}
	args := []string{"translate", "-i", inFile}
	switch k.Mode {
	case "phylip":
		args = append(args, "-p")
	case "auto-fasta", "auto-phylip":
		args = append(args, "--auto-detect")
	case "unaligned":
		args = append(args, "--unaligned")
	}
	if k.Phase != "<default>" {
		if c.R.Bool() {
			args = append(args, "--phase="+k.Phase)
		} else {
			args = append(args, "--phase", k.Phase)
		}
	}
	if k.Code != "<default>" {
		args = append(args, "--genetic-code", k.Code)
	}
	if k.RefKind != "none" {
		args = append(args, "--ref-seq", k.Ref)
	}
	args = append(args, k.Extra...)
	if !k.Stdout {
		args = append(args, "-o", outFile)
	}
	k.Args = args
	c.Input(k)
	c.Checkpoint()
	stdout, stderr, exit := cliRun(dir, args)
	outText := stdout
	if !k.Stdout {
		b, _ := os.ReadFile(outFile)
		outText = string(b)
	}
	c.Count("cli:runs")
	c.Count("cli:mode:" + k.Mode)
	c.Count("cli:phase:" + k.Phase)
	if _, ok := cliCodeNumber[k.Code]; ok {
		c.Count("cli:genetic-code:" + k.Code)
	} else {
		c.Count("cli:genetic-code:unknown-value")
	}
	c.Count("cli:ref-seq:" + k.RefKind)
	if k.Mode == "unaligned" && k.RefKind != "none" {
		c.Count("cli:ref-seq-with-unaligned")
	}
	if k.Stdout {
		c.Count("cli:output:stdout")
	} else {
		c.Count("cli:output:file")
	}
	for _, e := range k.Extra {
		c.Count("cli:extra:" + e)
	}
	if len(k.Alns) > 1 {
		c.Count("cli:several-alignments")
	}
	phase := 0
	if k.Phase != "<default>" {
		phase, _ = strconv.Atoi(k.Phase)
	}
	fail := func(sig, format string, x ...interface{}) {
		c.Failf("cli:translate:"+sig, "goalign %s\ninput file:\n%sexit %d\nstderr: %s\noutput:\n%s\n%s", strings.Join(args, " "), in.String(), exit, firstLines(stderr, 3), outText, fmt.Sprintf(format, x...))
	}
	if exit == -1 {
		fail("timeout", "the command did not end within 60 s")
		return
	}
	if strings.Contains(stderr, "panic:") || strings.Contains(stderr, "goroutine ") || strings.Contains(stdout, "panic:") {
		if k.Mode != "unaligned" && k.RefKind == "known" && phase < 0 {
			fail("panic:ref-seq-with-phase--1", "the command crashed")
		} else {
			fail("panic", "the command crashed")
		}
		return
	}

	// ---- expectation
	code, codeOK := cliCodeNumber[k.Code]
	aligned := k.Mode != "unaligned"
	byRef := aligned && k.RefKind != "none" // --ref-seq is documented as ignored with --unaligned
	mustFail, lenient := "", ""
	var want []gen.Rows
	if !codeOK {
		mustFail = "the genetic code " + strconv.Quote(k.Code) + " is not one of standard, mitov, mitoi"
	}
	if phase > 2 {
		lenient = "--phase above 2: 'number of characters to drop' (usage) or a refusal"
	}
	for ai, rows := range k.Alns {
		if mustFail != "" {
			break
		}
		nt := true
		for _, s := range rows {
			nt = nt && isNtCompat(s.Seq)
		}
		if !nt {
			// docs: "If the input alignment is not nucleotides, then returns an error"; an X for the codon is tolerated (assumption of the library checks)
			lenient = "not a nucleotide alignment"
			c.Count("cli:not-nucleotide")
		}
		if byRef {
			if k.RefKind == "unknown" {
				mustFail = "the reference sequence " + strconv.Quote(k.Ref) + " is not in alignment " + gen.Itoa(ai)
				break
			}
			if phase < 0 {
				lenient = "--ref-seq with --phase -1 (not documented)"
				want = append(want, nil)
				continue
			}
			al := h.MkAlign(rows, align.NUCLEOTIDS)
			if !nt {
				want = append(want, nil)
				continue
			}
			if lerr := al.TranslateByReference(phase, code, k.Ref); lerr != nil {
				// fewer than 3 columns from the phase: an error or rows without residues (assumption of sub byref)
				lenient = "TranslateByReference reports: " + lerr.Error()
				want = append(want, nil)
				continue
			}
			want = append(want, h.Snap(al))
			continue
		}
		w, empty := expectedTranslation(rows, phase, code)
		if empty {
			mustFail = fmt.Sprintf("a sequence of alignment %d has fewer than 3 nucleotides from the phase offset", ai)
			break
		}
		want = append(want, w)
	}
	msg := strings.TrimSpace(stderr + stdout)
	if mustFail != "" {
		c.Count("cli:refusal-expected")
		if exit == 0 {
			fail("error-expected", "exit status 0 although %s", mustFail)
			return
		}
		if msg == "" {
			fail("silent-failure", "exit status %d without any message although %s", exit, mustFail)
		}
		c.Note("refused: %s", firstLines(stderr, 1))
		return
	}
	if exit != 0 {
		if lenient != "" {
			c.Count("cli:refused-outside-documented-range")
			return
		}
		fail("unexpected-error", "the command failed on a valid request")
		return
	}
	// ---- parse what was written
	var got []gen.Rows
	outPhylip := phy // the output format follows the input format
	if outPhylip {
		g, perr := parsePhylipMulti(outText)
		if perr != nil {
			fail("output-unreadable", "%v", perr)
			return
		}
		got = g
	} else {
		got = []gen.Rows{parseFasta(outText)}
	}
	if len(got) != len(k.Alns) {
		fail("alignment-count", "%d alignments written, the input holds %d", len(got), len(k.Alns))
		return
	}
	for ai := range k.Alns {
		rows := k.Alns[ai]
		ctx := func() string {
			return fmt.Sprintf("goalign %s\ninput file:\n%salignment %d of the output", strings.Join(args, " "), in.String(), ai)
		}
		if want[ai] == nil {
			// only the frame: names (with suffixes for --phase -1), equal lengths
			if phase >= 0 && !h.EqRows(namesOnly(got[ai]), namesOnly(rows)) {
				fail("by-reference:names", "alignment %d: names %q, expected %q", ai, got[ai].Names(), rows.Names())
			}
			continue
		}
		if phy && len(got[ai]) == len(want[ai]) && len(strings.Join(seqsOf(want[ai]), "")+strings.Join(seqsOf(got[ai]), "")) == 0 {
			c.Count("cli:result-without-columns")
			continue // a Phylip alignment of length 0 is written as its header only
		}
		if !cmpRows(c, "cli:translate", got[ai], want[ai], ctx) {
			return
		}
		if byRef {
			c.Count("cli:by-reference-compared")
			gapFree := !strings.Contains(strings.Join(seqsOf(rows), ""), "-")
			if gapFree {
				if w, empty := expectedTranslation(rows, phase, code); !empty {
					c.Count("cli:by-reference-gap-free")
					if !cmpRows(c, "cli:translate:by-reference-differs-from-plain", got[ai], w, ctx) {
						return
					}
				}
			} else if phase == 0 {
				c.Count("cli:by-reference-gapped")
				ri := 0
				for i := range rows {
					if rows[i].Name == k.Ref {
						ri = i
					}
				}
				full := oracleTranslate(ungap(rows[ri].Seq), 0, code)
				if !strings.HasPrefix(full, ungap(got[ai][ri].Seq)) {
					fail("by-reference:reference-not-prefix", "alignment %d: reference row %q without gaps is not a prefix of the translation %q of the ungapped reference", ai, got[ai][ri].Seq, full)
					return
				}
			}
		}
	}
	c.Count("cli:outcome:ok")
	if lenient != "" {
		c.Count("cli:accepted-outside-documented-range")
	}
	if k.Literal != nil {
		for ai := range k.Literal {
			if !cmpRows(c, "cli:translate:documented-example", got[ai], k.Literal[ai], func() string { return "goalign " + strings.Join(args, " ") }) {
				return
			}
		}
	}
	special := false
	for _, rows := range k.Alns {
		for _, s := range rows {
			special = special || hasSpecial(s.Seq)
		}
	}
	if special {
		keys := []string{k.Mode, k.Phase, k.Code, k.Ref}
		for _, rows := range k.Alns {
			keys = append(keys, rows.Key())
		}
		c.NonTrivial(keys...)
	}
	c.Note("goalign %s -> %s", strings.Join(args[3:], " "), h.Show(got[0]))
}

func namesOnly(r gen.Rows) gen.Rows {
	out := make(gen.Rows, len(r))
	for i := range r {
		out[i] = gen.Seq{Name: r[i].Name}
	}
	return out
}

func firstLines(s string, n int) string {
	l := strings.Split(strings.TrimSpace(s), "\n")
	if len(l) > n {
		l = l[:n]
	}
	return strings.Join(l, " | ")
}
