// Reference model of the C05 monitor: the genetic codes and the per-codon rule of
// the property statement. Typed from the NCBI "The Genetic Codes" page
// (transl_table 1 in its Base1/Base2/Base3/AAs layout; tables 2 and 5 as the
// documented "differences from the standard code"), never from align/const.go.
// The model is cross-checked at run time against the second, separately typed
// copy in verif/lib/ref (full AAs strings of the three tables).
package main

import (
	"sort"
	"strings"
)

const (
	ncbiBase1 = "TTTTTTTTTTTTTTTTCCCCCCCCCCCCCCCCAAAAAAAAAAAAAAAAGGGGGGGGGGGGGGGG"
	ncbiBase2 = "TTTTCCCCAAAAGGGGTTTTCCCCAAAAGGGGTTTTCCCCAAAAGGGGTTTTCCCCAAAAGGGG"
	ncbiBase3 = "TCAGTCAGTCAGTCAGTCAGTCAGTCAGTCAGTCAGTCAGTCAGTCAGTCAGTCAGTCAGTCAG"
	ncbiAAs1  = "FFLLSSSSYY**CC*WLLLLPPPPHHQQRRRRIIIMTTTTNNKKSSRRVVVVAAAADDEEGGGG"
)

// goalign's code numbers: 0 standard (NCBI 1), 1 vertebrate mitochondrial (NCBI 2),
// 2 invertebrate mitochondrial (NCBI 5).
var codeNames = [3]string{"standard", "vertebrate-mito", "invertebrate-mito"}

// "Differences from the Standard Code" as listed by NCBI.
var codeDiffs = [3]map[string]byte{
	{},
	{"AGA": '*', "AGG": '*', "ATA": 'M', "TGA": 'W'},
	{"AGA": 'S', "AGG": 'S', "ATA": 'M', "TGA": 'W'},
}

var codeTable [3]map[string]byte

func init() {
	if len(ncbiBase1) != 64 || len(ncbiBase2) != 64 || len(ncbiBase3) != 64 || len(ncbiAAs1) != 64 {
		panic("harness: NCBI table strings must hold 64 entries")
	}
	for code := 0; code < 3; code++ {
		t := make(map[string]byte, 64)
		for i := 0; i < 64; i++ {
			t[string([]byte{ncbiBase1[i], ncbiBase2[i], ncbiBase3[i]})] = ncbiAAs1[i]
		}
		for k, v := range codeDiffs[code] {
			if _, ok := t[k]; !ok {
				panic("harness: unknown codon in difference list")
			}
			t[k] = v
		}
		if len(t) != 64 {
			panic("harness: table does not hold 64 distinct codons")
		}
		codeTable[code] = t
	}
}

// ntMask: bit set of the nucleotides a symbol stands for (A=1, C=2, G=4, T=8) after
// case folding and U->T; 0 for anything that is not an IUPAC nucleotide code.
func ntMask(c byte) int {
	if c >= 'a' && c <= 'z' {
		c -= 'a' - 'A'
	}
	switch c {
	case 'A':
		return 1
	case 'C':
		return 2
	case 'G':
		return 4
	case 'T', 'U':
		return 8
	case 'R': // purine
		return 1 | 4
	case 'Y': // pyrimidine
		return 2 | 8
	case 'S': // strong
		return 2 | 4
	case 'W': // weak
		return 1 | 8
	case 'K': // keto
		return 4 | 8
	case 'M': // amino
		return 1 | 2
	case 'B': // not A
		return 2 | 4 | 8
	case 'D': // not C
		return 1 | 4 | 8
	case 'H': // not G
		return 1 | 2 | 8
	case 'V': // not T
		return 1 | 2 | 4
	case 'N':
		return 15
	}
	return 0
}

const acgt = "ACGT"

// oracleCodon is the rule of the statement.
func oracleCodon(n1, n2, n3 byte, code int) byte {
	if n1 == '-' && n2 == '-' && n3 == '-' {
		return '-'
	}
	m1, m2, m3 := ntMask(n1), ntMask(n2), ntMask(n3)
	if m1 == 0 || m2 == 0 || m3 == 0 {
		return 'X'
	}
	var aa byte
	for i := 0; i < 4; i++ {
		if m1&(1<<uint(i)) == 0 {
			continue
		}
		for j := 0; j < 4; j++ {
			if m2&(1<<uint(j)) == 0 {
				continue
			}
			for k := 0; k < 4; k++ {
				if m3&(1<<uint(k)) == 0 {
					continue
				}
				a, ok := codeTable[code][string([]byte{acgt[i], acgt[j], acgt[k]})]
				if !ok {
					panic("harness: codon missing from table")
				}
				if aa != 0 && a != aa {
					return 'X'
				}
				aa = a
			}
		}
	}
	return aa
}

// oracleTranslate: floor((L-frame)/3) residues from offset frame ("" when that is 0).
func oracleTranslate(s string, frame, code int) string {
	if len(s)-frame < 3 {
		return ""
	}
	n := (len(s) - frame) / 3
	out := make([]byte, n)
	for i := 0; i < n; i++ {
		p := frame + 3*i
		out[i] = oracleCodon(s[p], s[p+1], s[p+2], code)
	}
	return string(out)
}

// oracleExpansions: sorted unambiguous codons of an IUPAC codon; nil if a position is
// not a nucleotide code. With gapSelf a '-' stands for itself.
func oracleExpansions(n1, n2, n3 byte, gapSelf bool) []string {
	opts := func(c byte) string {
		if c == '-' && gapSelf {
			return "-"
		}
		m := ntMask(c)
		s := ""
		for i := 0; i < 4; i++ {
			if m&(1<<uint(i)) != 0 {
				s += acgt[i : i+1]
			}
		}
		return s
	}
	o1, o2, o3 := opts(n1), opts(n2), opts(n3)
	if o1 == "" || o2 == "" || o3 == "" {
		return nil
	}
	var out []string
	for i := 0; i < len(o1); i++ {
		for j := 0; j < len(o2); j++ {
			for k := 0; k < len(o3); k++ {
				out = append(out, string([]byte{o1[i], o2[j], o3[k]}))
			}
		}
	}
	sort.Strings(out)
	return out
}

// codonClass names the class of a codon for the coverage counters.
func codonClass(codon string, code int) string {
	if strings.IndexAny(codon, foreignSyms) >= 0 {
		return "foreign-symbol"
	}
	if codon == "---" {
		return "gap-full"
	}
	if strings.Contains(codon, "-") {
		return "gap-partial"
	}
	amb := false
	for i := 0; i < 3; i++ {
		m := ntMask(codon[i])
		if m == 0 {
			return "unknown-symbol"
		}
		if m&(m-1) != 0 {
			amb = true
		}
	}
	if !amb {
		return "plain"
	}
	if oracleCodon(codon[0], codon[1], codon[2], code) == 'X' {
		return "ambiguous-X"
	}
	return "ambiguous-unique"
}

func ungap(s string) string { return strings.ReplaceAll(s, "-", "") }
