// C05 monitor: translation follows the genetic code for every codon, frame and
// ambiguity. Every public translation entry point of goalign is compared with an
// independent model of the NCBI tables 1, 2 and 5 and of the codon rule of the
// property statement (ref.go); CodonAlign and TranslateByReference are checked
// through the relations the statement gives.
package main

import (
	"fmt"
	"sort"
	"strings"

	"github.com/evolbioinfo/goalign/align"

	"verif/lib/conc"
	"verif/lib/gen"
	"verif/lib/h"
	"verif/lib/mon"
	"verif/lib/ref"
)

// The symbol set of the exhaustive codon sub-space.
const (
	ntCompatUpper = "ACGTURYSWKMBDHVN-X?.*O" // nucleotides, U, the 11 ambiguity codes, gap, "unknown" symbols goalign lets through as nucleotide
	ntCompatLower = "acgturyswkmbdhvnxo"     // the same letters in lower case
	foreignSyms   = "ZEJ!1@\xe9\xff"         // symbols that make goalign's alphabet detection answer "not nucleotide"
	nSyms         = len(ntCompatUpper) + len(ntCompatLower) + len(foreignSyms)
	nCodonCases   = 3 * nSyms * nSyms
)

var syms = ntCompatUpper + ntCompatLower + foreignSyms

func isForeign(b byte) bool { return strings.IndexByte(foreignSyms, b) >= 0 }

// ---------------------------------------------------------------- helpers

// cmpRows compares the rows read from a container with the expected ones.
func cmpRows(c *mon.Case, op string, got, want gen.Rows, ctx func() string) bool {
	if len(got) != len(want) {
		c.Failf(op+":row-count", "%s: %d rows, expected %d\n got  %s\n want %s", ctx(), len(got), len(want), h.Show(got), h.Show(want))
		return false
	}
	for i := range want {
		if got[i].Name != want[i].Name {
			c.Failf(op+":row-name", "%s: row %d is named %q, expected %q\n got  %s\n want %s", ctx(), i, got[i].Name, want[i].Name, h.Show(got), h.Show(want))
			return false
		}
		if len(got[i].Seq) != len(want[i].Seq) {
			c.Failf(op+":row-length", "%s: row %d (%q) holds %d residues, expected %d\n got  %s\n want %s", ctx(), i, got[i].Name, len(got[i].Seq), len(want[i].Seq), h.Show(got), h.Show(want))
			return false
		}
		if got[i].Seq != want[i].Seq {
			p := 0
			for p < len(want[i].Seq) && got[i].Seq[p] == want[i].Seq[p] {
				p++
			}
			c.Failf(op+":residue", "%s: row %d (%q) residue %d is %q, expected %q\n got  %s\n want %s", ctx(), i, got[i].Name, p, got[i].Seq[p], want[i].Seq[p], h.Show(got), h.Show(want))
			return false
		}
	}
	return true
}

func hasSpecial(s string) bool { return strings.Trim(s, "ACGT") != "" }

var badCodes = []int{3, -1, 7, 100}

// expectedTranslation: rows after Translate(frame) by the model; empty=true when a
// (row, frame) would hold no residue (the call must then report an error).
func expectedTranslation(rows gen.Rows, frame, code int) (want gen.Rows, empty bool) {
	for _, r := range rows {
		if frame >= 0 {
			t := oracleTranslate(r.Seq, frame, code)
			empty = empty || t == ""
			want = append(want, gen.Seq{Name: r.Name, Seq: t})
			continue
		}
		for f := 0; f < 3; f++ {
			t := oracleTranslate(r.Seq, f, code)
			empty = empty || t == ""
			want = append(want, gen.Seq{Name: r.Name + "_" + gen.Itoa(f), Seq: t})
		}
	}
	return
}

// checkSeqBagTranslate runs SeqBag.Translate on rows and compares with the model.
func checkSeqBagTranslate(c *mon.Case, rows gen.Rows, frame, code int, auto bool) {
	var sb align.SeqBag
	if auto {
		sb = h.MkSeqBag(rows, align.UNKNOWN)
		sb.AutoAlphabet()
	} else {
		sb = h.MkSeqBag(rows, align.NUCLEOTIDS)
	}
	ctx := func() string {
		return fmt.Sprintf("SeqBag.Translate(frame=%d, code=%d) of %s", frame, code, h.Show(rows))
	}
	err := sb.Translate(frame, code)
	if code < 0 || code > 2 {
		if err == nil {
			c.Failf("SeqBag.Translate:unknown-code-accepted", "%s: no error for a genetic code that does not exist", ctx())
		}
		c.Count("outcome:unknown-code")
		if err == nil {
			return
		}
		// the refused call is followed by a call with a supported code on the same object: the property holds
		// for every sequence the object holds, whatever was asked of it before
		code = ((code % 3) + 3) % 3
		c.Count("outcome:supported-code-after-refused-call")
		err = sb.Translate(frame, code)
	}
	want, empty := expectedTranslation(rows, frame, code)
	if empty {
		c.Count("outcome:error-when-empty")
		if err == nil {
			c.Failf("SeqBag.Translate:no-error-on-empty-result", "%s: a sequence has fewer than 3 nucleotides from the frame offset, no error reported; result %s", ctx(), h.Show(h.Snap(sb)))
		}
		return
	}
	if err != nil {
		c.Failf("SeqBag.Translate:unexpected-error", "%s: %v", ctx(), err)
		return
	}
	c.Count("outcome:translated")
	if !cmpRows(c, "SeqBag.Translate", h.Snap(sb), want, ctx) {
		return
	}
	if sb.NbSequences() != len(want) {
		c.Failf("SeqBag.Translate:row-count", "%s: NbSequences()=%d, expected %d", ctx(), sb.NbSequences(), len(want))
	}
	if p := h.Invariants(sb); len(p) > 0 {
		c.Failf("SeqBag.Translate:invariants", "%s: %s", ctx(), strings.Join(p, "; "))
	}
	for _, w := range want { // by-name access gives the same rows
		if s, ok := sb.GetSequence(w.Name); !ok || s != w.Seq {
			c.Failf("SeqBag.Translate:by-name", "%s: GetSequence(%q) = %q,%v expected %q", ctx(), w.Name, s, ok, w.Seq)
			break
		}
	}
}

// checkAlignTranslate runs Alignment.Translate on rows (equal lengths).
func checkAlignTranslate(c *mon.Case, rows gen.Rows, frame, code int) {
	al := h.MkAlign(rows, align.NUCLEOTIDS)
	L := len(rows[0].Seq)
	ctx := func() string {
		return fmt.Sprintf("Alignment.Translate(frame=%d, code=%d) of %s", frame, code, h.Show(rows))
	}
	err := al.Translate(frame, code)
	if code < 0 || code > 2 {
		if err == nil {
			c.Failf("Alignment.Translate:unknown-code-accepted", "%s: no error for a genetic code that does not exist", ctx())
		}
		c.Count("outcome:unknown-code")
		if err == nil {
			return
		}
		// the refused call is followed by a call with a supported code on the same object: the property holds
		// for every sequence the object holds, whatever was asked of it before
		code = ((code % 3) + 3) % 3
		c.Count("outcome:supported-code-after-refused-call")
		err = al.Translate(frame, code)
	}
	want, empty := expectedTranslation(rows, frame, code)
	if empty {
		c.Count("outcome:error-when-empty")
		if err == nil {
			c.Failf("Alignment.Translate:no-error-on-empty-result", "%s: fewer than 3 nucleotides from the frame offset, no error reported; result %s", ctx(), h.Show(h.Snap(al)))
		}
		return
	}
	if err != nil {
		c.Failf("Alignment.Translate:unexpected-error", "%s: %v", ctx(), err)
		return
	}
	c.Count("outcome:translated")
	if !cmpRows(c, "Alignment.Translate", h.Snap(al), want, ctx) {
		return
	}
	// frame -1 leaves rows of unequal length unless L mod 3 == 2 (recorded finding of C01):
	// rectangularity and Length() are only demanded where all rows have one length.
	if frame >= 0 || L%3 == 2 {
		if al.Length() != len(want[0].Seq) {
			c.Failf("Alignment.Translate:length-not-updated", "%s: Length()=%d, rows hold %d residues", ctx(), al.Length(), len(want[0].Seq))
			return
		}
		if msg := h.CheckRect(al); msg != "" {
			c.Failf("Alignment.Translate:not-rectangular", "%s: %s", ctx(), msg)
		}
	} else {
		c.Count("frame-all:ragged-by-construction(C01 finding, not demanded)")
	}
}

// ---------------------------------------------------------------- sub-check: codon (exhaustive)

// One case = one genetic code x first symbol x second symbol; the third symbol runs
// over the whole symbol set. 3*48*48 cases cover every triple exactly once.
func runCodon(c *mon.Case) {
	idx := c.Idx % nCodonCases
	code := idx / (nSyms * nSyms)
	s1 := syms[(idx/nSyms)%nSyms]
	s2 := syms[idx%nSyms]
	c.Input(map[string]interface{}{"code": codeNames[code], "first": fmt.Sprintf("%q", s1), "second": fmt.Sprintf("%q", s2), "third": "each of the " + gen.Itoa(nSyms) + " symbols " + fmt.Sprintf("%q", syms)})
	c.Count("code:" + codeNames[code])
	var batch, rev, wantBatch, wantRev []byte
	var codons []string
	for k := 0; k < nSyms; k++ {
		s3 := syms[k]
		codon := string([]byte{s1, s2, s3})
		want := oracleCodon(s1, s2, s3, code)
		if w2 := ref.TranslateCodon(s1, s2, s3, code); w2 != want {
			panic(fmt.Sprintf("harness: the two reference models disagree on codon %q code %d: %q vs %q", codon, code, want, w2))
		}
		class := codonClass(codon, code)
		c.Count("codon:evaluated")
		c.Count("codon-class:" + class)
		foreign := class == "foreign-symbol"
		lower := strings.ToUpper(codon) != codon
		hasU := strings.ContainsAny(codon, "Uu")
		if lower {
			c.Count("codon:lower-case")
		}
		if hasU {
			c.Count("codon:with-U")
		}
		if class != "plain" || lower || hasU {
			c.NonTrivial(codeNames[code], codon)
		}

		// 1. the codon alone through Sequence.Translate
		tr, err := align.NewSequence("cdn", []byte(codon), "").Translate(0, code)
		switch {
		case err != nil && foreign:
			c.Count("codon:foreign-symbol-rejected")
		case err != nil:
			c.Failf("Sequence.Translate:codon-error", "codon %q code %s: error %v, expected residue %q", codon, codeNames[code], err, want)
		case tr.Sequence() != string(want):
			c.Failf("Sequence.Translate:codon-residue:"+class, "codon %q code %s: translated to %q, expected %q (class %s)", codon, codeNames[code], tr.Sequence(), want, class)
		}

		// 2. GenAllPossibleCodons against the expansion set
		got := append([]string{}, align.GenAllPossibleCodons(s1, s2, s3)...)
		sort.Strings(got)
		m1, m2, m3 := ntMask(s1), ntMask(s2), ntMask(s3)
		gapOrNt := func(m int, s byte) bool { return m != 0 || s == '-' }
		switch {
		case m1 != 0 && m2 != 0 && m3 != 0:
			if exp := oracleExpansions(s1, s2, s3, false); strings.Join(got, ",") != strings.Join(exp, ",") {
				c.Failf("GenAllPossibleCodons:expansion-set", "codon %q: %v, expected (as a set) %v", codon, got, exp)
			}
			c.Count("expansions:nucleotide-codon")
		case gapOrNt(m1, s1) && gapOrNt(m2, s2) && gapOrNt(m3, s3):
			// the doc comment promises an empty slice for a gap, the implementation keeps '-' as itself
			// (that is how "---" reaches the table): both accepted
			if exp := oracleExpansions(s1, s2, s3, true); len(got) != 0 && strings.Join(got, ",") != strings.Join(exp, ",") {
				c.Failf("GenAllPossibleCodons:gap-codon", "codon %q: %v, expected nothing or %v", codon, got, exp)
			}
			c.Count("expansions:gap-codon")
		default:
			if len(got) != 0 {
				c.Failf("GenAllPossibleCodons:non-nucleotide-not-empty", "codon %q: %v, expected an empty slice (a symbol is not a nucleotide code)", codon, got)
			}
			c.Count("expansions:non-nucleotide")
		}

		if !foreign {
			batch = append(batch, codon...)
			wantBatch = append(wantBatch, want)
			codons = append(codons, codon)
		}
	}
	if isForeign(s1) || isForeign(s2) {
		return
	}
	for i := len(codons) - 1; i >= 0; i-- {
		rev = append(rev, codons[i]...)
		wantRev = append(wantRev, wantBatch[i])
	}
	// 3. the slice as one sequence, in the three frames, through the three containers
	for f := 0; f < 3; f++ {
		pad := "NG"[:f]
		tail := "ac"[:(idx+f)%3]
		S, R := pad+string(batch)+tail, pad+string(rev)+tail
		ctx := func() string { return fmt.Sprintf("frame %d code %s sequence %q", f, codeNames[code], S) }
		tr, err := align.NewSequence("b0", []byte(S), "").Translate(f, code)
		if err != nil {
			c.Failf("Sequence.Translate:unexpected-error", "%s: %v", ctx(), err)
		} else {
			cmpRows(c, "Sequence.Translate", gen.Rows{{Name: tr.Name(), Seq: tr.Sequence()}}, gen.Rows{{Name: "b0", Seq: string(wantBatch)}}, ctx)
		}
		c.Count("batch:Sequence.Translate")
		checkSeqBagTranslate(c, gen.Rows{{Name: "b0", Seq: S}, {Name: "b1", Seq: R}, {Name: "b2", Seq: S + "aug"}}, f, code, false)
		c.Count("batch:SeqBag.Translate")
		checkAlignTranslate(c, gen.Rows{{Name: "b0", Seq: S}, {Name: "b1", Seq: R}}, f, code)
		c.Count("batch:Alignment.Translate")
	}
	checkSeqBagTranslate(c, gen.Rows{{Name: "b0", Seq: string(batch)}, {Name: "b1", Seq: string(rev) + "G"}}, -1, code, false)
	checkAlignTranslate(c, gen.Rows{{Name: "b0", Seq: string(batch) + "AC"}, {Name: "b1", Seq: string(rev) + "--"}}, -1, code)
	c.Count("batch:three-frames")
	c.Note("%d codons starting with %q%q under the %s code: %s -> %s", nSyms, s1, s2, codeNames[code], batch, wantBatch)
}

// ---------------------------------------------------------------- sub-check: seq (random sequences x frames x containers)

var ntStyles = []struct{ name, alpha string }{
	{"ACGT", "ACGT"},
	{"ACGT+U+lower", "ACGTACGTUacgtu"},
	{"IUPAC", "ACGTACGTACGTRYSWKMBDHVN"},
	{"IUPAC+lower+U", gen.NtAll + "Uu"},
	{"ACGT+N", "ACGTACGTACGTACGTNn"},
	{"IUPAC+unknown", "ACGTACGTRYSWKMBDHVNX?.*Oxo"},
	{"gapped", "ACGTACGTACGTRYN"},
}

// addGaps puts codon-sized gap blocks (in a random frame), stray gaps and runs into s.
func addGaps(r *gen.Rand, s string) string {
	b := []byte(s)
	L := len(b)
	if L == 0 {
		return s
	}
	if r.Chance(0.7) { // whole codons
		f := r.Intn(3)
		for p := f; p+3 <= L; p += 3 {
			if r.Chance(0.25) {
				b[p], b[p+1], b[p+2] = '-', '-', '-'
			}
		}
	}
	if r.Chance(0.5) { // intra-codon gaps
		for i, n := 0, r.Range(1, 1+L/6); i < n; i++ {
			b[r.Intn(L)] = '-'
		}
	}
	if r.Chance(0.3) { // leading run
		for i, n := 0, r.Range(1, 1+L/3); i < n && i < L; i++ {
			b[i] = '-'
		}
	}
	if r.Chance(0.3) { // trailing run
		for i, n := 0, r.Range(1, 1+L/3); i < n && i < L; i++ {
			b[L-1-i] = '-'
		}
	}
	return string(b)
}

func genNt(r *gen.Rand, L, style int) string {
	s := r.Str(L, ntStyles[style].alpha)
	if ntStyles[style].name == "gapped" {
		s = addGaps(r, s)
	}
	return s
}

func genLen(r *gen.Rand) int {
	switch {
	case r.Chance(0.35):
		return r.Intn(9) // 0..8: around the 3+frame boundary
	case r.Chance(0.85):
		return r.Range(0, 40)
	default:
		return r.Range(41, 200)
	}
}

func runSeq(c *mon.Case) {
	r := c.R
	op := r.Intn(3)
	style := r.Intn(len(ntStyles))
	code := r.Intn(3)
	if r.Chance(0.03) {
		code = r.PickInt(badCodes)
	}
	frame := r.Intn(3)
	if op != 0 && r.Chance(0.3) {
		frame = -1
	}
	n := 1
	if op != 0 {
		n = r.Range(1, 5)
	}
	names := gen.UniqueNames(r, n, true)
	rows := make(gen.Rows, n)
	L := genLen(r)
	for i := range rows {
		li := L
		if op == 1 && r.Chance(0.6) {
			li = genLen(r)
		}
		rows[i] = gen.Seq{Name: names[i], Seq: genNt(r, li, style)}
	}
	opName := []string{"Sequence.Translate", "SeqBag.Translate", "Alignment.Translate"}[op]
	c.Input(map[string]interface{}{"op": opName, "frame": frame, "code": code, "rows": rows})
	c.Count("op:" + opName)
	c.Count("frame:" + gen.Itoa(frame))
	c.Count("style:" + ntStyles[style].name)
	c.Count(fmt.Sprintf("length-mod-3:%d", L%3))
	if frame >= 0 && L-frame >= 0 && L-frame <= 3 {
		c.Count(fmt.Sprintf("boundary:L-frame=%d", L-frame))
	}
	special := false
	for _, x := range rows {
		special = special || hasSpecial(x.Seq)
	}
	if special && code >= 0 && code <= 2 {
		if _, empty := expectedTranslation(rows, frame, code); !empty {
			c.NonTrivial(opName, gen.Itoa(frame), gen.Itoa(code), rows.Key())
		}
	}
	if op != 0 && code >= 0 && code <= 2 && r.Chance(0.08) {
		// a sequence holding a letter that is no nucleotide is refused, corrected in place, and translated: the
		// property holds for the sequence as it is at the time of the call
		i, f0 := r.Intn(len(rows)), r0(frame)
		if j := r.Intn(len(rows[i].Seq)); len(rows[i].Seq) >= f0+3 {
			orig := rows[i].Seq[j]
			bad := rows.Clone()
			b := []byte(bad[i].Seq)
			b[j] = r.Pick("EQLFPeq")
			bad[i].Seq = string(b)
			sb := h.MkSeqBag(bad, align.NUCLEOTIDS)
			sq, _ := sb.Sequence(i)
			_, e1 := sq.Translate(f0, code)
			sb.DetectAlphabet()
			if err := sb.SetSequenceChar(i, j, orig); err != nil {
				panic("harness: " + err.Error())
			}
			tr, e2 := sq.Translate(f0, code)
			want := oracleTranslate(rows[i].Seq, f0, code)
			if e2 != nil || tr.Sequence() != want {
				c.Failf("Sequence.Translate:after-in-place-correction", "sequence %q held %q at position %d (translation refused: %v), was corrected in place to %q: Translate(frame=%d, code=%d) gives %v / error %v, expected %q", bad[i].Seq, b[j], j, e1, rows[i].Seq, f0, code, seqOf(tr), e2, want)
				return
			}
			c.Count(fmt.Sprintf("outcome:translated-after-in-place-correction:first-call-refused=%v", e1 != nil))
			if err := sb.Translate(frame, code); err == nil {
				if exp, empty := expectedTranslation(rows, frame, code); !empty {
					cmpRows(c, "SeqBag.Translate", h.Snap(sb), exp, func() string {
						return fmt.Sprintf("SeqBag.Translate(frame=%d, code=%d) after an in-place correction of row %d of %s", frame, code, i, h.Show(rows))
					})
				}
			} else if _, empty := expectedTranslation(rows, frame, code); !empty {
				c.Failf("SeqBag.Translate:after-in-place-correction", "rows %s (row %d corrected in place): %v", h.Show(rows), i, err)
			}
			return
		}
	}
	switch op {
	case 0:
		s := rows[0].Seq
		ctx := func() string { return fmt.Sprintf("Sequence.Translate(frame=%d, code=%d) of %q", frame, code, s) }
		tr, err := align.NewSequence(rows[0].Name, []byte(s), "a comment").Translate(frame, code)
		if code < 0 || code > 2 {
			if err == nil {
				c.Failf("Sequence.Translate:unknown-code-accepted", "%s: no error for a genetic code that does not exist", ctx())
			}
			c.Count("outcome:unknown-code")
			return
		}
		want := oracleTranslate(s, frame, code)
		if want == "" {
			c.Count("outcome:error-when-empty")
			if err == nil {
				c.Failf("Sequence.Translate:no-error-on-empty-result", "%s: fewer than 3 nucleotides from the frame offset, no error; result %q", ctx(), tr.Sequence())
			}
			return
		}
		if err != nil {
			c.Failf("Sequence.Translate:unexpected-error", "%s: %v", ctx(), err)
			return
		}
		c.Count("outcome:translated")
		cmpRows(c, "Sequence.Translate", gen.Rows{{Name: tr.Name(), Seq: tr.Sequence()}}, gen.Rows{{Name: rows[0].Name, Seq: want}}, ctx)
		c.Note("%q -> %q", s, tr.Sequence())
	case 1:
		checkSeqBagTranslate(c, rows, frame, code, r.Chance(0.3))
	case 2:
		checkAlignTranslate(c, rows, frame, code)
	}
}

// ---------------------------------------------------------------- sub-check: codonalign

// spreadGaps returns p padded to length Lp with gaps (leading, trailing, internal, scattered).
func spreadGaps(r *gen.Rand, p string, Lp int) string {
	g := Lp - len(p)
	if g <= 0 {
		return p
	}
	isGap := make([]bool, Lp)
	switch r.Intn(5) {
	case 0: // leading
		for i := 0; i < g; i++ {
			isGap[i] = true
		}
	case 1: // trailing
		for i := 0; i < g; i++ {
			isGap[Lp-1-i] = true
		}
	case 2: // leading + trailing + one internal run
		a := r.Intn(g + 1)
		b := r.Intn(g - a + 1)
		for i := 0; i < a; i++ {
			isGap[i] = true
		}
		for i := 0; i < b; i++ {
			isGap[Lp-1-i] = true
		}
		rest := g - a - b
		if rest > 0 {
			st := a + r.Intn(Lp-a-b-rest+1)
			for i := 0; i < rest; i++ {
				isGap[st+i] = true
			}
		}
	default: // scattered
		for _, i := range r.Perm(Lp)[:g] {
			isGap[i] = true
		}
	}
	out := make([]byte, 0, Lp)
	k := 0
	for i := 0; i < Lp; i++ {
		if isGap[i] {
			out = append(out, '-')
		} else {
			out = append(out, p[k])
			k++
		}
	}
	if k != len(p) {
		panic("harness: spreadGaps lost residues")
	}
	return string(out)
}

var codonAlignAlphas = []string{"ACGT", "ACGTACGTacgtUuN", gen.NtAll + "Uu", "ACGTACGTACGTRYSWKMBDHVN", "ACGTAGT"}

func runCodonAlign(c *mon.Case) {
	r := c.R
	n := r.Range(1, 6)
	code := r.Intn(3)
	names := gen.UniqueNames(r, n, true)
	alpha := r.PickStr(codonAlignAlphas)
	nts := make([]string, n)
	ks := make([]int, n)
	prot := make(gen.Rows, n)
	maxk, mink := 0, 1<<30
	for i := 0; i < n; i++ {
		k := r.Range(1, 15)
		if r.Chance(0.15) {
			k = r.Range(1, 2)
		}
		if i > 0 && r.Chance(0.3) {
			k = ks[0]
		}
		ks[i] = k
		nts[i] = r.Str(3*k+r.Intn(3), alpha)
		if k > maxk {
			maxk = k
		}
		if k < mink {
			mink = k
		}
	}
	Lp := maxk + r.PickInt([]int{0, 0, 0, 1, 2, 5})
	for i := 0; i < n; i++ {
		p := oracleTranslate(nts[i], 0, code)
		if len(p) != ks[i] {
			panic("harness: model translation has the wrong length")
		}
		prot[i] = gen.Seq{Name: names[i], Seq: spreadGaps(r, p, Lp)}
	}
	// the nucleotide sequences, possibly in another order, possibly broken on purpose
	order := make([]int, n)
	for i := range order {
		order[i] = i
	}
	if r.Bool() {
		order = r.Perm(n)
	}
	variant := "valid"
	victim := r.Intn(n)
	given := append([]string{}, nts...)
	switch r.Intn(10) {
	case 0:
		variant = "missing-sequence"
	case 1:
		variant = "too-short"
		given[victim] = given[victim][:r.Range(0, 3*ks[victim]-1)]
	case 2:
		variant = "too-long"
		given[victim] = given[victim][:3*ks[victim]] + r.Str(r.Range(3, 9), "ACGT")
	}
	var ntRows gen.Rows
	for _, i := range order {
		if variant == "missing-sequence" && i == victim {
			continue
		}
		ntRows = append(ntRows, gen.Seq{Name: names[i], Seq: given[i]})
	}
	c.Input(map[string]interface{}{"variant": variant, "code": code, "protein": prot, "nucleotides": ntRows})
	c.Count("variant:" + variant)
	trailing := 0
	for i := range nts {
		if t := len(nts[i]) - 3*ks[i]; t > trailing {
			trailing = t
		}
	}
	c.Count(fmt.Sprintf("max-trailing-bases:%d", trailing))
	pa := h.MkAlign(prot, align.AMINOACIDS)
	bag := h.MkSeqBag(ntRows, align.NUCLEOTIDS)
	ctx := func() string {
		return fmt.Sprintf("CodonAlign protein %s nucleotides %s (%s)", h.Show(prot), h.Show(ntRows), variant)
	}
	res, err := pa.CodonAlign(bag)
	if variant != "valid" {
		if err == nil {
			c.Failf("CodonAlign:"+variant+"-accepted", "%s: no error; result %s", ctx(), h.Show(h.Snap(res)))
		}
		return
	}
	if err != nil {
		c.Failf("CodonAlign:unexpected-error", "%s: %v", ctx(), err)
		return
	}
	got := h.Snap(res)
	if len(got) != n {
		c.Failf("CodonAlign:row-count", "%s: %d rows, expected %d: %s", ctx(), len(got), n, h.Show(got))
		return
	}
	for i := range got {
		if got[i].Name != prot[i].Name {
			c.Failf("CodonAlign:row-name", "%s: row %d is %q, expected %q (order of the protein alignment)", ctx(), i, got[i].Name, prot[i].Name)
			return
		}
		if len(got[i].Seq) != 3*Lp {
			c.Failf("CodonAlign:row-length", "%s: row %d holds %d symbols, expected 3 x %d\n got %s", ctx(), i, len(got[i].Seq), Lp, h.Show(got))
			return
		}
		if u, w := ungap(got[i].Seq), nts[i][:3*ks[i]]; u != w {
			c.Failf("CodonAlign:nucleotides-changed", "%s: row %d without gaps is %q, expected %q (original minus at most two trailing bases)", ctx(), i, u, w)
			return
		}
		if t := oracleTranslate(got[i].Seq, 0, code); t != prot[i].Seq {
			c.Failf("CodonAlign:translation-differs", "%s: row %d %q translates to %q, the protein row is %q", ctx(), i, got[i].Seq, t, prot[i].Seq)
			return
		}
	}
	if res.Length() != 3*Lp {
		c.Failf("CodonAlign:length", "%s: Length()=%d, expected %d", ctx(), res.Length(), 3*Lp)
		return
	}
	if msg := h.CheckRect(res); msg != "" {
		c.Failf("CodonAlign:not-rectangular", "%s: %s", ctx(), msg)
		return
	}
	// goalign's own translation of the codon alignment gives the protein alignment back
	if err := res.Translate(0, code); err != nil {
		c.Failf("CodonAlign:retranslation-error", "%s: translating the codon alignment: %v", ctx(), err)
		return
	}
	cmpRows(c, "CodonAlign:retranslation", h.Snap(res), prot, ctx)
	if Lp > mink {
		c.NonTrivial(prot.Key(), ntRows.Key(), gen.Itoa(code))
		c.Count("with-gaps")
	}
	c.Note("codon alignment %s", h.Show(got))
}

// ---------------------------------------------------------------- sub-check: byref

var byRefAlphas = []string{"ACGT", "ACGTACGTacgtUu", "ACGTACGTACGTRYSWKMBDHVN", gen.NtAll + "Uu", "ACGTACGTACGTNX?"}

func gapRow(r *gen.Rand, s string) string {
	b := []byte(s)
	L := len(b)
	if L == 0 {
		return s
	}
	switch r.Intn(7) {
	case 0: // whole codons in frame 0
		for p := 0; p+3 <= L; p += 3 {
			if r.Chance(0.3) {
				b[p], b[p+1], b[p+2] = '-', '-', '-'
			}
		}
	case 1: // runs of any length anywhere
		for i, n := 0, r.Range(1, 3); i < n; i++ {
			st, ln := r.Intn(L), r.Range(1, 7)
			for j := st; j < st+ln && j < L; j++ {
				b[j] = '-'
			}
		}
	case 2: // scattered
		p := r.PickF([]float64{0.05, 0.2, 0.5, 0.8})
		for j := range b {
			if r.Chance(p) {
				b[j] = '-'
			}
		}
	case 3: // leading / trailing runs
		for i, n := 0, r.Range(0, L/2); i < n; i++ {
			b[i] = '-'
		}
		for i, n := 0, r.Range(0, L/2); i < n; i++ {
			b[L-1-i] = '-'
		}
	case 4: // everything
		for j := range b {
			b[j] = '-'
		}
	case 5: // whole codons out of frame + strays
		f := 1 + r.Intn(2)
		for p := f; p+3 <= L; p += 3 {
			if r.Chance(0.3) {
				b[p], b[p+1], b[p+2] = '-', '-', '-'
			}
		}
		b[r.Intn(L)] = '-'
	default: // one or two single gaps
		for i, n := 0, r.Range(1, 2); i < n; i++ {
			b[r.Intn(L)] = '-'
		}
	}
	return string(b)
}

func runByRef(c *mon.Case) {
	r := c.R
	n := r.Range(1, 6)
	code := r.Intn(3)
	alpha := r.PickStr(byRefAlphas)
	names := gen.UniqueNames(r, n, true)
	refIdx := r.Intn(n)
	gapped := r.Chance(0.6)
	L := 0
	switch {
	case r.Chance(0.25):
		L = r.Intn(9)
	case gapped:
		L = r.Range(0, 60)
	default:
		L = r.Range(0, 40)
	}
	rows := make(gen.Rows, n)
	anyGap := false
	for i := range rows {
		s := r.Str(L, alpha)
		if gapped && r.Chance(0.75) {
			s = gapRow(r, s)
		}
		anyGap = anyGap || strings.Contains(s, "-")
		rows[i] = gen.Seq{Name: names[i], Seq: s}
	}
	frame := 0
	if !anyGap {
		frame = r.Intn(3)
	}
	c.Input(map[string]interface{}{"rows": rows, "reference": names[refIdx], "frame": frame, "code": code})
	al := h.MkAlign(rows, align.NUCLEOTIDS)
	ctx := func() string {
		return fmt.Sprintf("TranslateByReference(frame=%d, code=%d, ref=%q) of %s", frame, code, names[refIdx], h.Show(rows))
	}
	err := al.TranslateByReference(frame, code, names[refIdx])
	got := h.Snap(al)

	if !anyGap {
		// coincides with plain translation
		c.Count("mode:gap-free")
		c.Count("gap-free:frame:" + gen.Itoa(frame))
		want, empty := expectedTranslation(rows, frame, code)
		plain := h.MkAlign(rows, align.NUCLEOTIDS)
		perr := plain.Translate(frame, code)
		if empty {
			// plain translation reports an error here; the reference-guided one may report an error
			// or return rows without residues (the statement does not say which)
			c.Count("gap-free:nothing-to-translate")
			if perr == nil {
				c.Failf("Alignment.Translate:no-error-on-empty-result", "%s: plain translation reported no error", ctx())
			}
			if err == nil {
				for _, g := range got {
					if g.Seq != "" {
						c.Failf("TranslateByReference:residues-from-nothing", "%s: fewer than 3 nucleotides from the frame offset but the result is %s", ctx(), h.Show(got))
						break
					}
				}
			}
			return
		}
		if err != nil {
			c.Failf("TranslateByReference:unexpected-error", "%s: %v", ctx(), err)
			return
		}
		if perr != nil {
			c.Failf("Alignment.Translate:unexpected-error", "%s: plain translation: %v", ctx(), perr)
			return
		}
		if !cmpRows(c, "TranslateByReference:differs-from-plain", got, h.Snap(plain), ctx) {
			return
		}
		if !cmpRows(c, "TranslateByReference:gap-free", got, want, ctx) {
			return
		}
		if al.Length() != len(want[0].Seq) {
			c.Failf("TranslateByReference:length", "%s: Length()=%d, rows hold %d residues", ctx(), al.Length(), len(want[0].Seq))
			return
		}
		if msg := h.CheckRect(al); msg != "" {
			c.Failf("TranslateByReference:not-rectangular", "%s: %s", ctx(), msg)
		}
		if hasSpecial(strings.Join(seqsOf(rows), "")) {
			c.NonTrivial("gap-free", gen.Itoa(frame), gen.Itoa(code), rows.Key(), names[refIdx])
		}
		return
	}

	// gapped, frame 0
	c.Count("mode:gapped")
	refNt := rows[refIdx].Seq
	switch {
	case ungap(refNt) == "":
		c.Count("gapped:reference-all-gaps")
	case strings.Contains(refNt, "-"):
		c.Count("gapped:reference-with-gaps")
	default:
		c.Count("gapped:reference-without-gaps")
	}
	if err != nil {
		c.Failf("TranslateByReference:unexpected-error", "%s: %v", ctx(), err)
		return
	}
	if len(got) != n {
		c.Failf("TranslateByReference:row-count", "%s: %d rows, expected %d: %s", ctx(), len(got), n, h.Show(got))
		return
	}
	for i := range got {
		if got[i].Name != rows[i].Name {
			c.Failf("TranslateByReference:row-name", "%s: row %d is %q, expected %q", ctx(), i, got[i].Name, rows[i].Name)
			return
		}
		if len(got[i].Seq) != len(got[0].Seq) {
			c.Failf("TranslateByReference:not-rectangular", "%s: row %d holds %d residues, row 0 holds %d: %s", ctx(), i, len(got[i].Seq), len(got[0].Seq), h.Show(got))
			return
		}
	}
	if len(got[0].Seq) > 0 || al.Length() > 0 {
		if al.Length() != len(got[0].Seq) {
			c.Failf("TranslateByReference:length", "%s: Length()=%d, rows hold %d residues", ctx(), al.Length(), len(got[0].Seq))
			return
		}
		if msg := h.CheckRect(al); msg != "" {
			c.Failf("TranslateByReference:not-rectangular", "%s: %s", ctx(), msg)
			return
		}
	} else {
		c.Count("gapped:empty-result")
	}
	full := oracleTranslate(ungap(refNt), 0, code)
	refAa := ungap(got[refIdx].Seq)
	if !strings.HasPrefix(full, refAa) {
		c.Failf("TranslateByReference:reference-not-prefix", "%s: reference row %q without gaps is %q, not a prefix of the translation %q of the ungapped reference", ctx(), got[refIdx].Seq, refAa, full)
		return
	}
	if refAa == full {
		c.Count("gapped:reference-fully-translated")
	}
	if len(refAa) > 0 {
		c.NonTrivial("gapped", gen.Itoa(code), rows.Key(), names[refIdx])
	}
	c.Note("reference row %q (ungapped reference translates to %q)", got[refIdx].Seq, full)
}

func seqsOf(rows gen.Rows) []string {
	out := make([]string, len(rows))
	for i, r := range rows {
		out[i] = r.Seq
	}
	return out
}

// ---------------------------------------------------------------- main

func main() {
	mon.SetNote("rule", "codon: one case = genetic code x first symbol x second symbol, the third symbol runs over the 48 symbols (22 nucleotide-compatible symbols ACGTU RYSWKMBDHVN - X ? . * O, their 18 lower-case letters, 8 foreign symbols); every codon goes alone through Sequence.Translate and GenAllPossibleCodons, and the whole slice as one sequence through Sequence/SeqBag/Alignment.Translate in frames 0,1,2 and all three. seq: random sequences (length 0..200, mostly 0..40 and 0..8; 7 residue mixes incl. U, lower case, IUPAC, unknown symbols, codon-sized and stray gaps) x frame 0,1,2,-1 x code x {Sequence, SeqBag with unequal lengths, Alignment}. codonalign: 1..6 gap-free nucleotide sequences of 3k+0..2 bases, their model translations padded with leading/trailing/internal/scattered gaps to one length, threaded back (plus missing / too short / too long sequences that must be refused). byref: gap-free alignments in frames 0,1,2 against plain translation; gapped alignments (whole-codon, intra-codon, runs, scattered, all-gap rows, gaps in the reference and/or the others) in frame 0 against the three stated relations. Non-trivial = a codon / sequence with an ambiguity code, gap, lower case, U or unknown symbol and a non-empty result; a protein alignment with at least one gap; a gapped alignment whose reference yields at least one residue. Distinct = (operation, frame, code, rows). cli: the goalign binary built from the tree, `translate` on a file holding a FASTA alignment, FASTA sequences of unequal length (--unaligned), or 1..3 Phylip alignments (-p), either format with --auto-detect; --phase omitted/0/1/2/-1/3/4 (stratified by case index), --genetic-code omitted/standard/mitov/mitoi/an unknown value, --ref-seq with a name every alignment carries / an unknown name / together with --unaligned (documented as ignored), -o or stdout, --one-line/--no-block; sequences rich in the codons on which the three tables differ (AGA AGG ATA TGA in every spelling) placed in the requested frame; every alignment written is compared with the model (with --ref-seq: with Alignment.TranslateByReference on the same rows, checked by sub byref, plus the relations of the statement); refusals (unknown code, unknown reference, fewer than 3 nucleotides from the phase, protein input) must exit non-zero with a message and never crash.")
	mon.SetNote("assumptions", "NCBI tables 1, 2, 5 typed twice (mon/c05/ref.go: table 1 + documented differences; lib/ref/gencode.go: three AAs strings) and compared with each other on every codon of the exhaustive sub-space;; a sequence holding a symbol goalign's alphabet detection does not accept as nucleotide (Z E J ! 1 @ 0xe9 0xff) is not a nucleotide sequence: a 'wrong alphabet' error or the residue X are both accepted;; GenAllPossibleCodons on a codon with a gap: empty slice (doc comment) or the expansions with '-' kept (implementation) are both accepted;; frame -1 (all three frames) reports an error as soon as one of the three frames of one sequence holds no residue (length < 5);; Alignment.Translate(-1): only residues, per-row lengths and row naming/order are demanded unless length mod 3 == 2 (ragged result = recorded finding of C01);; TranslateByReference with fewer than 3 columns from the frame offset: an error or rows without residues are both accepted; with gaps only the stated relations are demanded (no error, same names and order, rectangular, reference row without gaps is a prefix of the translation of the ungapped reference), frame 0 only; frame -1 is not called on TranslateByReference (outside the statement; it panics, see report);; CodonAlign: nucleotide sequences are gap-free (a '---' codon would translate to a gap column of its own); the alphabet of the protein alignment is set to amino acids by the harness;; state of a container after a reported error is not examined;; the alphabet recorded in a container after translation is not examined;; command line: --phase above 2 is read as 'number of characters to drop' (usage text) but a refusal is accepted too; --ref-seq with --phase -1 is not documented: any outcome but a crash is accepted; a file with a letter that is no nucleotide code (E F I L P Q Z): the documented error, or X for the codon; what is left in the output file after a refusal is not examined; Phylip input of --phase -1 is generated with length mod 3 == 2 (ragged three frame result = recorded finding of C01); a Phylip alignment without columns is written as its header only; global reading options (--input-strict, --ignore-identical, --alphabet, -x/-u/-k input) belong to C02/C03 and are not driven here")
	mon.SetNote("exhaustive_subspaces", fmt.Sprintf("codon: 3 genetic codes x %d^3 = %d symbol triples (= %d codon evaluations, the floor 'codon:evaluated' is that exact number) are enumerated completely at BOTH tiers, %d cases of %d codons each; every triple is translated alone (Sequence.Translate frame 0), expanded (GenAllPossibleCodons) and, for the 40 nucleotide-compatible symbols, translated inside a longer sequence by Sequence/SeqBag/Alignment.Translate in frames 0, 1, 2 and -1", nSyms, nSyms*nSyms*nSyms, 3*nSyms*nSyms*nSyms, nCodonCases, nSyms))
	mon.Floor("codon:evaluated", 3*nSyms*nSyms*nSyms)
	mon.Floor("outcome:supported-code-after-refused-call", 1000)
	for _, k := range []string{"plain", "ambiguous-unique", "ambiguous-X", "gap-full", "gap-partial", "unknown-symbol", "foreign-symbol"} {
		mon.Floor("codon-class:"+k, 3)
	}
	for _, k := range codeNames {
		mon.Floor("code:"+k, nSyms*nSyms)
	}
	mon.Floor("batch:three-frames", 3*40*40)
	for _, k := range []string{"Sequence.Translate", "SeqBag.Translate", "Alignment.Translate"} {
		mon.Floor("op:"+k, 1000)
	}
	for _, k := range []string{"-1", "0", "1", "2"} {
		mon.Floor("frame:"+k, 1000)
	}
	for _, k := range []string{"0", "1", "2", "3"} {
		mon.Floor("boundary:L-frame="+k, 100)
	}
	mon.Floor("outcome:error-when-empty", 500)
	mon.Floor("outcome:unknown-code", 100)
	mon.Floor("variant:valid", 1000)
	mon.Floor("variant:missing-sequence", 100)
	mon.Floor("variant:too-short", 100)
	mon.Floor("variant:too-long", 100)
	mon.Floor("max-trailing-bases:2", 100)
	mon.Floor("with-gaps", 1000)
	mon.Floor("mode:gap-free", 1000)
	mon.Floor("mode:gapped", 1000)
	mon.Floor("gap-free:frame:1", 100)
	mon.Floor("gap-free:frame:2", 100)
	mon.Floor("gapped:reference-with-gaps", 500)
	mon.Floor("gapped:reference-all-gaps", 20)
	// command line (sub cli)
	mon.Floor("cli:runs", 250)
	mon.Floor("cli:outcome:ok", 120)
	mon.Floor("cli:refusal-expected", 15)
	for _, k := range []string{"fasta", "unaligned", "phylip", "auto-fasta", "auto-phylip"} {
		mon.Floor("cli:mode:"+k, 15)
	}
	for _, k := range []string{"<default>", "0", "1", "2", "-1"} {
		mon.Floor("cli:phase:"+k, 20)
	}
	for _, k := range []string{"<default>", "standard", "mitov", "mitoi"} {
		mon.Floor("cli:genetic-code:"+k, 15)
	}
	mon.Floor("cli:genetic-code:unknown-value", 5)
	mon.Floor("cli:ref-seq:known", 30)
	mon.Floor("cli:ref-seq:unknown", 10)
	mon.Floor("cli:ref-seq-with-unaligned", 8)
	mon.Floor("cli:by-reference-compared", 25)
	mon.Floor("cli:by-reference-gapped", 5)
	mon.Floor("cli:several-alignments", 30)
	mon.Floor("cli:output:stdout", 30)
	mon.Floor("cli:output:file", 30)
	mon.Floor("concurrent:calls", 500)
	mon.Main("C05", []mon.Sub{
		{Name: "witness", Quick: len(witnesses), Thorough: len(witnesses), Run: runWitness},
		{Name: "codon", Quick: nCodonCases, Thorough: nCodonCases, Run: runCodon},
		{Name: "seq", Quick: 300000, Thorough: 6000000, Run: runSeq},
		{Name: "codonalign", Quick: 100000, Thorough: 2000000, Run: runCodonAlign},
		{Name: "byref", Quick: 200000, Thorough: 3000000, Run: runByRef},
		{Name: "concurrent", Quick: 64, Thorough: 1200, Race: true, Run: func(c *mon.Case) { conc.Run(c, "translate") }},
		{Name: "cli", Quick: 300, Thorough: 3000, Serial: true, Run: runCli},
	})
}

func r0(frame int) int {
	if frame < 0 {
		return 0
	}
	return frame
}

func seqOf(s align.Sequence) string {
	if s == nil {
		return "<nil>"
	}
	return s.Sequence()
}
